import TenpyModel.C01.B2_Comb2
/-!
C01 part B2 — part 3: one axis of the result of `combine_legs` (`AxS`): either a pipe fusing the source axes `c`
or a spectator axis `x`. Per-axis facts: where the image index is located (`AxS.place`), disjointness of the
sub-slices (`AxS.disjoint`), the within-block position as a C-order index (`AxS.win_eq`, `AxS.shp_eq`).
-/
namespace TenpyModel.C01B2.Comb
open TenpyModel.Core TenpyModel.C01B

/-- one axis of the result: the pipe `p` over the source axes `c`, or the source axis `x` -/
inductive AxS where
  | new (p : Pipe) (c : List Nat)
  | old (x : Nat)

namespace AxS

/-- source axes merged into this axis -/
def part : AxS → List Nat
  | new _ c => c
  | old x => [x]

def leg (lcs : List Leg) : AxS → Leg
  | new p _ => p.leg
  | old x => lcs.getD x default

/-- block index in the result for the source block index `q` -/
def row (q : List Nat) : AxS → Nat
  | new p c => (pipeRow p (pick q c 0)).getD 2 0
  | old x => q.getD x 0

/-- where the source block starts inside the result block -/
def start (q : List Nat) : AxS → Nat
  | new p c => (pipeRow p (pick q c 0)).getD 0 0
  | old _ => 0

/-- extent of the source block seen from the result block -/
def shp (lcs : List Leg) (q : List Nat) : AxS → Nat
  | new p c => (pipeRow p (pick q c 0)).getD 1 0 - (pipeRow p (pick q c 0)).getD 0 0
  | old x => (lcs.getD x default).blockSizes.getD (q.getD x 0) 0

/-- the index map: `map_incoming_flat` of the sub-tuple, or the spectator index -/
def ix (idx : List Nat) : AxS → Nat
  | new p c => (p.mapIncomingFlat ((pick idx c 0).map Int.ofNat)).getD 0
  | old x => idx.getD x 0

/-- position inside the source block, seen from the result block -/
def win (lcs : List Leg) (idx : List Nat) : AxS → Nat
  | new _ c => withinOf (pick lcs c default) (pick idx c 0)
  | old x => ((lcs.getD x default).locate (idx.getD x 0)).2

def Valid (lcs : List Leg) : AxS → Prop
  | new p c => (∀ x ∈ c, x < lcs.length) ∧ ∃ qconj sort bunch, p = Pipe.init (pick lcs c default) qconj sort bunch
  | old x => x < lcs.length

theorem part_lt {lcs : List Leg} {s : AxS} (hv : s.Valid lcs) : ∀ x ∈ s.part, x < lcs.length := by
  cases s with
  | new p c => exact hv.1
  | old x => intro y hy; simp only [part, List.mem_singleton] at hy; subst hy; exact hv

end AxS

theorem pick_shapes (lcs : List Leg) (hs : ∀ l ∈ lcs, l.Shape) (c : List Nat) (hc : ∀ x ∈ c, x < lcs.length) :
    ∀ l ∈ pick lcs c default, l.Shape := by
  intro l hl
  obtain ⟨x, hx, rfl⟩ := List.mem_map.1 hl
  exact hs _ (getD_mem lcs x default (hc x hx))

theorem pick_inRange_ind (lcs : List Leg) (idx : List Nat) (hi : InRange idx (lcs.map Leg.indLen)) (c : List Nat)
    (hc : ∀ x ∈ c, x < lcs.length) : InRange (pick idx c 0) ((pick lcs c default).map Leg.indLen) := by
  rw [← pick_map Leg.indLen lcs c default 0 hc]
  exact InRange_pick idx _ hi c (by simpa using hc)

theorem pick_inRange_blk (lcs : List Leg) (q : List Nat) (hq : InRange q (lcs.map Leg.blockNumber)) (c : List Nat)
    (hc : ∀ x ∈ c, x < lcs.length) : InRange (pick q c 0) (Pipe.gSubq (pick lcs c default)) := by
  unfold Pipe.gSubq
  rw [← pick_map Leg.blockNumber lcs c default 0 hc]
  exact InRange_pick q _ hq c (by simpa using hc)

theorem AxS.leg_shape (lcs : List Leg) (hs : ∀ l ∈ lcs, l.Shape) (s : AxS) (hv : s.Valid lcs) : (s.leg lcs).Shape := by
  cases s with
  | new p c =>
    obtain ⟨_, qconj, sort, bunch, rfl⟩ := hv
    exact Pipe.leg_shape _ _ _ _
  | old x => exact hs _ (getD_mem lcs x default hv)

/-- the extent of the written region is the size of the source block restricted to the merged axes -/
theorem AxS.shp_eq (lcs : List Leg) (hs : ∀ l ∈ lcs, l.Shape) (q : List Nat)
    (hq : InRange q (lcs.map Leg.blockNumber)) (s : AxS) (hv : s.Valid lcs) :
    s.shp lcs q = (pick (blockShapeOf lcs q) s.part 0).prod := by
  have hql : q.length = lcs.length := by rw [hq.length_eq, List.length_map]
  cases s with
  | new p c =>
    obtain ⟨hc, qconj, sort, bunch, rfl⟩ := hv
    have := pipe_width (pick lcs c default) qconj sort bunch (pick_shapes lcs hs c hc) (pick q c 0)
      (pick_inRange_blk lcs q hq c hc)
    show (pipeRow _ _).getD 1 0 - (pipeRow _ _).getD 0 0 = _
    unfold pipeRow
    rw [this, Pipe.blockSizeOf_eq_sizesOf, sizesOf_eq, pick_blockShapeOf lcs q c hc hql]
    show _ + _ - _ = (pick (blockShapeOf lcs q) c 0).prod
    omega
  | old x =>
    show _ = (pick (blockShapeOf lcs q) [x] 0).prod
    simp only [pick, List.map_cons, List.map_nil, List.prod_cons, List.prod_nil, Nat.mul_one]
    rw [blockShapeOf_getD lcs q x hv hql]
    rfl

/-- where the image of an index lies in the result leg -/
theorem AxS.place (lcs : List Leg) (hs : ∀ l ∈ lcs, l.Shape) (idx : List Nat)
    (hi : InRange idx (lcs.map Leg.indLen)) (s : AxS) (hv : s.Valid lcs) :
    s.ix idx < (s.leg lcs).indLen
    ∧ (s.leg lcs).locate (s.ix idx) = (s.row (qOf lcs idx), s.start (qOf lcs idx) + s.win lcs idx)
    ∧ s.win lcs idx < s.shp lcs (qOf lcs idx)
    ∧ s.row (qOf lcs idx) < (s.leg lcs).blockNumber
    ∧ s.start (qOf lcs idx) + s.shp lcs (qOf lcs idx) ≤ (s.leg lcs).blockSizes.getD (s.row (qOf lcs idx)) 0 := by
  have hil : idx.length = lcs.length := by rw [hi.length_eq, List.length_map]
  have hqr := (locate_idx lcs hs idx hi).1
  have hshp := AxS.shp_eq lcs hs (qOf lcs idx) hqr s hv
  cases s with
  | new p c =>
    obtain ⟨hc, qconj, sort, bunch, hp⟩ := hv
    have hsh := pick_shapes lcs hs c hc
    obtain ⟨pf, pwithin, pI, pfit, ploc⟩ := pipe_place (pick lcs c default) qconj sort bunch hsh (pick idx c 0)
      (pick_inRange_ind lcs idx hi c hc) p hp
    have hw := pipe_width (pick lcs c default) qconj sort bunch hsh (pick (qOf lcs idx) c 0)
      (pick_inRange_blk lcs _ hqr c hc)
    rw [← hp] at hw
    rw [pick_qOf lcs idx c hc hil] at pf pwithin pI pfit ploc
    have hpsh : p.leg.Shape := by rw [hp]; exact Pipe.leg_shape _ _ _ _
    have hix : (AxS.new p c).ix idx = p.leg.slices.getD ((pipeRow p (pick (qOf lcs idx) c 0)).getD 2 0) 0
        + (pipeRow p (pick (qOf lcs idx) c 0)).getD 0 0 + withinOf (pick lcs c default) (pick idx c 0) := by
      show (p.mapIncomingFlat _).getD 0 = _
      rw [pf]; rfl
    have hshp' : (AxS.new p c).shp lcs (qOf lcs idx) = Pipe.blockSizeOf (pick lcs c default) (pick (qOf lcs idx) c 0) := by
      show (pipeRow _ _).getD 1 0 - (pipeRow _ _).getD 0 0 = _
      unfold pipeRow
      omega
    rw [hix, hshp']
    refine ⟨?_, ploc, pwithin, pI, pfit⟩
    have := (locate_block hpsh _ ((pipeRow p (pick (qOf lcs idx) c 0)).getD 0 0
      + withinOf (pick lcs c default) (pick idx c 0)) pI (by omega)).1
    show _ < p.leg.indLen
    omega
  | old x =>
    have hx : x < lcs.length := hv
    have hl := hs _ (getD_mem lcs x default hx)
    have hxi : idx.getD x 0 < (lcs.getD x default).indLen := by
      have := hi.getD_lt x (by omega)
      rwa [getD_map' Leg.indLen lcs x default 0 hx] at this
    obtain ⟨a1, a2, a3, a4⟩ := locate_spec hl _ hxi
    have e3 := hl.slices_succ _ a1
    have hq : (qOf lcs idx).getD x 0 = ((lcs.getD x default).locate (idx.getD x 0)).1 := qOf_getD lcs idx x hx hil
    show idx.getD x 0 < (lcs.getD x default).indLen
      ∧ (lcs.getD x default).locate (idx.getD x 0)
          = ((qOf lcs idx).getD x 0, 0 + ((lcs.getD x default).locate (idx.getD x 0)).2)
      ∧ ((lcs.getD x default).locate (idx.getD x 0)).2
          < (lcs.getD x default).blockSizes.getD ((qOf lcs idx).getD x 0) 0
      ∧ (qOf lcs idx).getD x 0 < (lcs.getD x default).blockNumber
      ∧ 0 + (lcs.getD x default).blockSizes.getD ((qOf lcs idx).getD x 0) 0
          ≤ (lcs.getD x default).blockSizes.getD ((qOf lcs idx).getD x 0) 0
    rw [hq]
    refine ⟨hxi, by simp, by omega, a1, by omega⟩

/-- two source blocks writing overlapping regions of the same result block agree on the merged axes -/
theorem AxS.disjoint (lcs : List Leg) (hs : ∀ l ∈ lcs, l.Shape) (s : AxS) (hv : s.Valid lcs) (q q' : List Nat)
    (hq : InRange q (lcs.map Leg.blockNumber)) (hq' : InRange q' (lcs.map Leg.blockNumber))
    (hrow : s.row q = s.row q') (x : Nat) (h1 : s.start q ≤ x) (h2 : x < s.start q + s.shp lcs q)
    (h1' : s.start q' ≤ x) (h2' : x < s.start q' + s.shp lcs q') : pick q s.part 0 = pick q' s.part 0 := by
  cases s with
  | new p c =>
    obtain ⟨hc, qconj, sort, bunch, hp⟩ := hv
    have hsh := pick_shapes lcs hs c hc
    have hr := pick_inRange_blk lcs q hq c hc
    have hr' := pick_inRange_blk lcs q' hq' c hc
    have hw := pipe_width (pick lcs c default) qconj sort bunch hsh _ hr
    have hw' := pipe_width (pick lcs c default) qconj sort bunch hsh _ hr'
    rw [← hp] at hw hw'
    have e : (AxS.new p c).shp lcs q = Pipe.blockSizeOf (pick lcs c default) (pick q c 0) := by
      show (pipeRow _ _).getD 1 0 - (pipeRow _ _).getD 0 0 = _
      unfold pipeRow; omega
    have e' : (AxS.new p c).shp lcs q' = Pipe.blockSizeOf (pick lcs c default) (pick q' c 0) := by
      show (pipeRow _ _).getD 1 0 - (pipeRow _ _).getD 0 0 = _
      unfold pipeRow; omega
    rw [e] at h2
    rw [e'] at h2'
    exact pipe_disjoint (pick lcs c default) qconj sort bunch hsh _ _ hr hr' p hp hrow x h1 h2 h1' h2'
  | old x =>
    show pick q [x] 0 = pick q' [x] 0
    have : q.getD x 0 = q'.getD x 0 := hrow
    simp only [pick, List.map_cons, List.map_nil, this]

/-- the position inside the written region is the C-order index of the within-block positions on the merged axes -/
theorem AxS.win_eq (lcs : List Leg) (idx : List Nat) (hil : idx.length = lcs.length) (s : AxS) (hv : s.Valid lcs) :
    s.win lcs idx = dot (pick (wOf lcs idx) s.part 0) (makeStrideC (pick (blockShapeOf lcs (qOf lcs idx)) s.part 0)) := by
  have hql : (qOf lcs idx).length = lcs.length := qOf_length lcs idx hil
  cases s with
  | new p c =>
    obtain ⟨hc, _⟩ := hv
    show withinOf _ _ = dot (pick (wOf lcs idx) c 0) (makeStrideC (pick (blockShapeOf lcs (qOf lcs idx)) c 0))
    unfold withinOf
    rw [pick_wOf lcs idx c hc hil, pick_qOf lcs idx c hc hil, pick_blockShapeOf lcs _ c hc hql]
  | old x =>
    have hx : x < lcs.length := hv
    show _ = dot (pick (wOf lcs idx) [x] 0) (makeStrideC (pick (blockShapeOf lcs (qOf lcs idx)) [x] 0))
    simp only [pick, List.map_cons, List.map_nil, makeStrideC_cons, List.prod_nil, dot_cons, Nat.mul_one,
      dot_nil_left, Nat.add_zero]
    rw [wOf_getD lcs idx x hx hil]
    rfl

end TenpyModel.C01B2.Comb
