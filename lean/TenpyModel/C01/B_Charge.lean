import TenpyModel.C01.B_Inner
import TenpyModel.C06.ChargeProofs
/-!
C01 part B — the charge pre-check of `_inner_worker`: for contractible legs, a block index stored in both tensors
forces `qtotal_a + qtotal_b ≡ 0`; so when the check fires no block index is common (given the charge rule).
-/
namespace TenpyModel.C01B
open TenpyModel.Core

theorem cadd4 (a b c d : Charge) : cadd (cadd a b) (cadd c d) = cadd (cadd a c) (cadd b d) := by
  unfold cadd
  induction a generalizing b c d with
  | nil => simp
  | cons x a ih =>
    cases b with
    | nil => simp
    | cons y b =>
      cases c with
      | nil => simp
      | cons z c =>
        cases d with
        | nil => simp
        | cons w d =>
          simp only [List.zipWith_cons_cons, List.cons.injEq]
          exact ⟨by omega, ih b c d⟩

theorem cadd_czero (n : Nat) : cadd (czero n) (czero n) = czero n := by
  simp [cadd, czero]

theorem makeValid_czero (mods : List Nat) (n : Nat) (h : mods.length ≤ n) :
    makeValid mods (czero n) = czero mods.length := by
  unfold makeValid czero
  apply List.ext_getElem
  · simp; omega
  · intro i h1 h2
    simp [mv1]

theorem cadd_cneg (c : Charge) : cadd c (cneg c) = czero c.length := by
  unfold cadd cneg czero
  induction c with
  | nil => rfl
  | cons x c ih => simp [ih, List.replicate_succ]

/-- `X ≡ 0` and `Y ≡ 0` give `X + Y ≡ 0` -/
theorem makeValid_cadd_zero (mods : List Nat) (X Y : Charge) (hx : makeValid mods X = czero mods.length)
    (hy : makeValid mods Y = czero mods.length) : makeValid mods (cadd X Y) = czero mods.length := by
  rw [← makeValid_add, ← makeValid_add_left, hx, hy, cadd_czero, makeValid_czero _ _ (Nat.le_refl _)]

theorem foldl_pair_zero (mods : List Nat) (Cb Ca : List Charge) (zb za : Charge)
    (hz : makeValid mods (cadd zb za) = czero mods.length) (hl : Cb.length = Ca.length)
    (hp : ∀ i, i < Cb.length → makeValid mods (cadd (Cb.getD i []) (Ca.getD i [])) = czero mods.length) :
    makeValid mods (cadd (Cb.foldl cadd zb) (Ca.foldl cadd za)) = czero mods.length := by
  induction Cb generalizing Ca zb za with
  | nil =>
    cases Ca with
    | nil => exact hz
    | cons _ _ => simp at hl
  | cons cb Cb ih =>
    cases Ca with
    | nil => simp at hl
    | cons ca Ca =>
      simp only [List.length_cons, Nat.add_right_cancel_iff] at hl
      simp only [List.foldl_cons]
      apply ih Ca _ _ _ hl (fun i hi => by simpa using hp (i + 1) (by simpa using hi))
      rw [cadd4]
      exact makeValid_cadd_zero mods _ _ hz (by simpa using hp 0 (by simp))

/-- contractible legs: the charges of block `k` (with their directions) cancel modulo `mod` -/
theorem getCharge_contractible (la lb : Leg) (h : la.testContractible lb = true) (k : Nat)
    (hlen : (lb.charges.getD k []).length = lb.mods.length) :
    makeValid lb.mods (cadd (lb.getCharge k) (la.getCharge k)) = czero lb.mods.length := by
  unfold Leg.testContractible Leg.testEqual Leg.eq? at h
  split at h
  · simp at h
  · rename_i hm
    simp only [ne_eq, Decidable.not_not] at hm
    simp only [beq_iff_eq, Option.some.injEq, Bool.and_eq_true] at h
    obtain ⟨_, hph⟩ := h
    have hk := congrArg (fun l => l.getD k []) hph
    simp only [Leg.physCharges, Leg.conj] at hk
    have hf : ∀ (m : List Nat) (s : Int), (fun c => makeValid m (cscale s c)) [] = [] := by
      intro m s; simp [makeValid, cscale]
    have e1 := Pipe.getD_map_nil (f := fun c => makeValid la.mods (cscale la.qconj c)) (hf _ _) la.charges k
    have e2 := Pipe.getD_map_nil (f := fun c => makeValid lb.mods (cscale (-lb.qconj) c)) (hf _ _) lb.charges k
    rw [e1, e2] at hk
    have hm' : la.mods = lb.mods := hm
    rw [hm'] at hk
    unfold Leg.getCharge
    have hneg : cscale (-lb.qconj) (lb.charges.getD k []) = cneg (cscale lb.qconj (lb.charges.getD k [])) := by
      simp [cneg, cscale]
    rw [← makeValid_add, hk, hneg, makeValid_add, cadd_cneg]
    apply makeValid_czero
    have : (cscale lb.qconj (lb.charges.getD k [])).length = (lb.charges.getD k []).length := by simp [cscale]
    rw [this, hlen]

theorem zipWith_getD {β γ δ} (f : β → γ → δ) (xs : List β) (ys : List γ) (dx : β) (dy : γ) (dz : δ) (i : Nat)
    (h1 : i < xs.length) (h2 : i < ys.length) : (List.zipWith f xs ys).getD i dz = f (xs.getD i dx) (ys.getD i dy) := by
  simp [List.getD_eq_getElem?_getD, List.getElem?_zipWith, List.getElem?_eq_getElem h1, List.getElem?_eq_getElem h2]

/-- a block index in range of both leg lists: its block charges w.r.t. contractible legs cancel -/
theorem blockCharge_contractible (mods : List Nat) (la lb : List Leg) (q : List Nat) (hl : la.length = lb.length)
    (hq : q.length = lb.length) (hc : (List.zipWith Leg.testContractible la lb).all id = true)
    (hm : ∀ l ∈ lb, l.mods = mods)
    (hlen : ∀ i, i < lb.length → ((lb.getD i default).charges.getD (q.getD i 0) []).length = mods.length) :
    makeValid mods (cadd (blockChargeOf mods lb q) (blockChargeOf mods la q)) = czero mods.length := by
  unfold blockChargeOf csum
  rw [makeValid_add, makeValid_add_left]
  apply foldl_pair_zero mods _ _ _ _ (by rw [cadd_czero, makeValid_czero _ _ (Nat.le_refl _)]) (by simp [hl, hq])
  intro i hi
  simp only [List.length_zipWith, hq, Nat.min_self] at hi
  rw [zipWith_getD _ _ _ default 0 [] i hi (by omega), zipWith_getD _ _ _ default 0 [] i (by omega) (by omega)]
  have hci : (la.getD i default).testContractible (lb.getD i default) = true := by
    have := List.all_eq_true.1 hc ((List.zipWith Leg.testContractible la lb).getD i false)
      (getD_mem _ _ _ (by simp [hl, hi]))
    rw [zipWith_getD _ _ _ default default false i (by omega) hi] at this
    exact this
  have hmi : (lb.getD i default).mods = mods := hm _ (getD_mem _ _ _ hi)
  have := getCharge_contractible _ _ hci (q.getD i 0) (by rw [hmi]; exact hlen i hi)
  rw [hmi] at this
  exact this

variable {α : Type}

/-- legs of a tensor carry charges of the right width over the tensor's `chinfo` -/
def LegsValid (a : Arr α) : Prop :=
  ∀ l ∈ a.lcs, l.mods = a.mods ∧ ∀ c ∈ l.charges, c.length = a.mods.length

instance (a : Arr α) : Decidable (LegsValid a) := by unfold LegsValid; infer_instance

/-- the hypothesis `hch` of `innerWorker_eq` (without conjugation) from the charge rule -/
theorem hch_of_chargeRule (a b : Arr α) (hb : W b) (hm : a.mods = b.mods) (hr : a.rank = b.rank)
    (hc : (List.zipWith Leg.testContractible a.lcs b.lcs).all id = true)
    (hca : a.ChargeRule) (hcb : b.ChargeRule) (hvb : LegsValid b) :
    makeValid a.mods (cadd b.qtotal a.qtotal) ≠ czero a.mods.length → ∀ q ∈ a.qdata, q ∉ b.qdata := by
  intro hne q hqa hqb
  apply hne
  rw [← hca q hqa, ← hcb q hqb, hm]
  have hl : a.lcs.length = b.lcs.length := by rw [lcs_length, lcs_length, hr]
  apply blockCharge_contractible b.mods a.lcs b.lcs q hl (by rw [hb.rowLen q hqb, lcs_length]) hc
    (fun l hl' => (hvb l hl').1)
  intro i hi
  have hli : b.lcs.getD i default ∈ b.lcs := getD_mem _ _ _ hi
  apply (hvb _ hli).2
  apply getD_mem
  have := (hb.rowIn' q hqb).getD_lt i (by rw [hb.rowLen q hqb, ← lcs_length]; exact hi)
  rw [getD_map' _ _ i default 0 hi] at this
  exact this

end TenpyModel.C01B
