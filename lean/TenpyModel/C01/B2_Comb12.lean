import TenpyModel.C01.B2_Comb11
/-!
C01 part B2 — part 12: for `new_axes=None` the computed new axes are distinct (non-empty, pairwise disjoint groups),
so the hypothesis `hN` of `combineLegs_places_id / _tr` is automatic for the default call.
-/
namespace TenpyModel.C01B2.Comb
open TenpyModel.Core TenpyModel.C01B

theorem filter_lt_mono (l : List Nat) (x y : Nat) (h : x ≤ y) :
    (l.filter (· < x)).length ≤ (l.filter (· < y)).length := by
  apply List.Sublist.length_le
  apply List.monotone_filter_right
  intro a ha
  simp only [decide_eq_true_eq] at ha ⊢
  omega

theorem filter_lt_strict (l : List Nat) (x y : Nat) (hx : x ∈ l) (h : x < y) :
    (l.filter (· < x)).length < (l.filter (· < y)).length := by
  have e : l.filter (· < x) = (l.filter (· < y)).filter (· < x) := by
    rw [List.filter_filter]
    apply List.filter_congr
    intro a _
    by_cases h1 : a < x
    · have : a < y := by omega
      simp [h1, this]
    · simp [h1]
  rw [e]
  exact filter_length_lt_of_mem _ _ x (List.mem_filter.2 ⟨hx, by simpa using h⟩) (by simp)

/-- heads of non-empty, pairwise disjoint groups are distinct -/
theorem heads_nodup (cl : List (List Nat)) (hne : ∀ c ∈ cl, c ≠ []) (hnd : cl.flatten.Nodup) :
    (cl.map (fun c => c.headD 0)).Nodup := by
  induction cl with
  | nil => simp
  | cons c cl ih =>
    rw [List.flatten_cons, List.nodup_append] at hnd
    obtain ⟨_, h2, h3⟩ := hnd
    rw [List.map_cons, List.nodup_cons]
    refine ⟨?_, ih (fun d hd => hne d (by simp [hd])) h2⟩
    intro hm
    obtain ⟨d, hd, he⟩ := List.mem_map.1 hm
    have hc : c.headD 0 ∈ c := by
      cases c with
      | nil => exact absurd rfl (hne [] (by simp))
      | cons x _ => simp
    have hd' : d.headD 0 ∈ cl.flatten := by
      cases d with
      | nil => exact absurd rfl (hne [] (by simp [hd]))
      | cons x _ => exact List.mem_flatten.2 ⟨_, hd, by simp⟩
    exact h3 _ hc _ hd' he.symm

/-- `new_axes=None`: the computed new axes are distinct -/
theorem newAxes_none_nodup (rank : Nat) (cl : List (List Nat)) (na transp : List Nat)
    (hne : ∀ c ∈ cl, c ≠ []) (hnd : cl.flatten.eraseDups.length = cl.flatten.length)
    (h : Arr.combineNewAxes rank cl none = .ok (na, transp)) : na.Nodup := by
  have hfl : cl.flatten.Nodup := nodup_of_eraseDups_length _ _ (Nat.le_refl _) hnd
  have hh := heads_nodup cl hne hfl
  simp only [Arr.combineNewAxes, bind, Except.bind, pure, Except.pure, Except.ok.injEq, Prod.mk.injEq] at h
  obtain ⟨rfl, _⟩ := h
  apply List.Nodup.map_on _ hh
  intro x hx y hy e
  have e' : ((cNonComb rank cl).filter (· < x)).length + ((cl.map (fun c => c.headD 0)).filter (· < x)).length
      = ((cNonComb rank cl).filter (· < y)).length + ((cl.map (fun c => c.headD 0)).filter (· < y)).length := e
  rcases Nat.lt_trichotomy x y with hlt | heq | hgt
  · have h1 := filter_lt_mono (cNonComb rank cl) x y (by omega)
    have h2 := filter_lt_strict _ x y hx hlt
    omega
  · exact heq
  · have h1 := filter_lt_mono (cNonComb rank cl) y x (by omega)
    have h2 := filter_lt_strict _ y x hy hgt
    omega

/-- the default call `a.combine_legs(groups, qconj=…)` (`new_axes=None`, `pipes=None`, non-empty groups): the side
hypotheses `hP`, `hN` of `combineLegs_places_id` / `combineLegs_places_tr` hold -/
theorem combineLegs_default_hyps {α : Type} [Zero α] (a r : Arr α) (ha : a.WF) (cl : List (List Ax))
    (qconj : List (Option Int)) (hne : ∀ c ∈ cl, c ≠ []) (h : a.combineLegs cl none none qconj = .ok r) :
    ∃ ps0 cli0 na0 transp, a.combineMakePipes cl none qconj = .ok ps0 ∧ cl.mapM a.getLegIndices = .ok cli0
      ∧ Arr.combineNewAxes a.rank cli0 none = .ok (na0, transp) ∧ PipesOK a cli0 ps0 ∧ na0.Nodup := by
  obtain ⟨ps0, cli0, na0, transp, _, hps, hcli, hdup, hnt, _⟩ := combineLegs_unfold a r cl none none qconj h
  refine ⟨ps0, cli0, na0, transp, hps, hcli, hnt, makePipes_none a cl qconj ps0 cli0 hps hcli, ?_⟩
  refine newAxes_none_nodup a.rank cli0 na0 transp ?_ hdup hnt
  intro c hc e
  obtain ⟨axs, haxs, hax⟩ := (mapM_except_ok _ _ _ hcli).2 c hc
  have := (Arr.getLegIndices_lt a ha.1 axs c hax).1
  rw [e] at this
  exact hne axs haxs (List.length_eq_zero_iff.1 this.symm)

end TenpyModel.C01B2.Comb
