import TenpyModel.C01.C_Charge1
import TenpyModel.C01.B2_Comb7
/-!
C01 part C — `combine_legs`, step 1: the charge attached to the block `q_map[j, 2]` of a pipe (with the pipe's
direction) is the sum of the charges of the incoming blocks (C06's fusion rule, for `qconj = ±1`), axis by axis
(`AxS`), and summed over all axes of the result.
-/
namespace TenpyModel.C01C
open TenpyModel.Core TenpyModel.C01B TenpyModel.C01B2 TenpyModel.C01B2.Comb

/-- `Σ` over a list of groups: per-group equality modulo `mod` gives equality of the total modulo `mod` -/
theorem csum_flatten_congr {β} (mods : List Nat) (L : List β) (f : β → Charge) (g : β → List Charge)
    (hf : ∀ s ∈ L, (f s).length = mods.length) (hg : ∀ s ∈ L, ∀ c ∈ g s, c.length = mods.length)
    (h : ∀ s ∈ L, makeValid mods (f s) = makeValid mods (csum mods.length (g s))) :
    makeValid mods (csum mods.length (L.map f)) = makeValid mods (csum mods.length (L.map g).flatten) := by
  induction L with
  | nil => rfl
  | cons x L ih =>
    have hf' : ∀ s ∈ L, (f s).length = mods.length := fun s hs => hf s (by simp [hs])
    have hg' : ∀ s ∈ L, ∀ c ∈ g s, c.length = mods.length := fun s hs => hg s (by simp [hs])
    have ih' := ih hf' hg' (fun s hs => h s (by simp [hs]))
    have e1 : csum mods.length ((x :: L).map f) = cadd (f x) (csum mods.length (L.map f)) := by
      have : (x :: L).map f = [f x] ++ L.map f := rfl
      rw [this, csum_append _ _ _ (by intro c hc; simp only [List.mem_singleton] at hc; rw [hc]; exact hf x (by simp))
        (by intro c hc; obtain ⟨s, hs, rfl⟩ := List.mem_map.1 hc; exact hf' s hs)]
      congr 1
      simp only [csum, List.foldl_cons, List.foldl_nil]
      exact czero_cadd_left _ _ (hf x (by simp))
    have e2 : csum mods.length ((x :: L).map g).flatten
        = cadd (csum mods.length (g x)) (csum mods.length (L.map g).flatten) := by
      rw [List.map_cons, List.flatten_cons]
      apply csum_append _ _ _ (hg x (by simp))
      intro c hc
      obtain ⟨l, hl, hcl⟩ := List.mem_flatten.1 hc
      obtain ⟨s, hs, rfl⟩ := List.mem_map.1 hl
      exact hg' s hs c hcl
    rw [e1, e2, ← makeValid_add, ← makeValid_add_left, ih', h x (by simp), makeValid_add, makeValid_add_left]

theorem zipWith_map_same {β γ δ ε} (L : List β) (g : β → γ) (k : β → δ) (f : γ → δ → ε) :
    List.zipWith f (L.map g) (L.map k) = L.map (fun s => f (g s) (k s)) := by
  induction L with
  | nil => rfl
  | cons x L ih => simp [ih]

/-- `chs` of a sub-selection of the axes -/
theorem pick_chs (lcs : List Leg) (q : List Nat) (c : List Nat) (hc : ∀ x ∈ c, x < lcs.length)
    (hq : q.length = lcs.length) :
    pick (chs lcs q) c [] = chs (pick lcs c default) (pick q c 0) := by
  unfold pick chs
  rw [zipWith_map_same]
  apply List.map_congr_left
  intro x hx
  exact zipWith_getD _ lcs q default 0 [] x (hc x hx) (by rw [hq]; exact hc x hx)

/-- the incoming charges have the width of `chinfo` -/
theorem chs_len' (n : Nat) (ls : List Leg) (q : List Nat) (hv : ∀ l ∈ ls, ∀ c ∈ l.charges, c.length = n)
    (hq : InRange q (ls.map Leg.blockNumber)) : ∀ c ∈ chs ls q, c.length = n := chs_len n ls q hv hq

/-- **fusion rule with direction**: the charge of the pipe's block `q_map[j, 2]` (`j` = row of the block combination
`qis`), as seen from outside (`get_charge`: multiplied by the pipe's `qconj = ±1`), equals the sum of the incoming
`get_charge`s modulo `mod` -/
theorem pipe_getCharge (legs : List Leg) (qconj : Int) (hqc : qconj = 1 ∨ qconj = -1) (sort bunch : Bool)
    (hsh : ∀ l ∈ legs, l.Shape) (qis : List Nat) (hin : InRange qis (Pipe.gSubq legs)) :
    makeValid (Pipe.gMods legs) ((Pipe.init legs qconj sort bunch).leg.getCharge
        ((pipeRow (Pipe.init legs qconj sort bunch) qis).getD 2 0))
      = makeValid (Pipe.gMods legs) (csum (Pipe.gMods legs).length (chs legs qis)) := by
  obtain ⟨sizes1, L⟩ := Pipe.located legs qconj sort bunch hsh
  obtain ⟨_, l2, l3, _⟩ := L.loc qis hin
  have hf := Pipe.fusion_rule legs qconj sort bunch _ l2
  unfold pipeRow Leg.getCharge
  rw [hf, l3, (Pipe.init_mods_qconj legs qconj sort bunch).2]
  unfold Pipe.fuse
  rw [makeValid_scale]
  congr 1
  unfold Pipe.fuseRaw
  rw [cscale_csum, List.map_map]
  congr 1
  unfold chs
  rw [zipWith_eq_map_zip']
  apply List.map_congr_left
  intro lq _
  simp only [Function.comp, Leg.getCharge, cscale_cscale]
  have : qconj * (qconj * lq.1.qconj) = lq.1.qconj := by
    rcases hqc with rfl | rfl <;> simp
  rw [this]

/-- width of the fused charge -/
theorem pipe_getCharge_length (legs : List Leg) (qconj : Int) (sort bunch : Bool)
    (hsh : ∀ l ∈ legs, l.Shape) (hv : ∀ l ∈ legs, ∀ c ∈ l.charges, c.length = (Pipe.gMods legs).length)
    (qis : List Nat) (hin : InRange qis (Pipe.gSubq legs)) :
    ((Pipe.init legs qconj sort bunch).leg.getCharge
        ((pipeRow (Pipe.init legs qconj sort bunch) qis).getD 2 0)).length = (Pipe.gMods legs).length := by
  obtain ⟨sizes1, L⟩ := Pipe.located legs qconj sort bunch hsh
  obtain ⟨_, l2, l3, _⟩ := L.loc qis hin
  have hf := Pipe.fusion_rule legs qconj sort bunch _ l2
  unfold pipeRow Leg.getCharge
  rw [hf, l3]
  unfold Pipe.fuse Pipe.fuseRaw
  simp only [cscale, List.length_map]
  rw [makeValid_length, csum_length, Nat.min_self]
  intro c hc
  obtain ⟨lq, hlq, rfl⟩ := List.mem_map.1 hc
  simp only [List.length_map]
  have hl := (List.of_mem_zip hlq).1
  apply hv _ hl
  apply getD_mem
  -- the block index is in range
  obtain ⟨i, hi, hlqe⟩ := List.getElem_of_mem hlq
  have hi' : i < legs.length ∧ i < qis.length := by simpa using hi
  have h1 : lq = (legs[i], qis[i]) := by rw [← hlqe]; simp
  have := hin.getD_lt i hi'.2
  unfold Pipe.gSubq at this
  rw [getD_map' Leg.blockNumber legs i default 0 hi'.1, getD_lt _ _ _ hi'.2, getD_lt _ _ _ hi'.1] at this
  rw [h1]
  exact this

/-- the direction of a pipe axis is `±1` (part of `LegCharge.test_sanity`) -/
def AxQ : AxS → Prop
  | .new p _ => p.leg.qconj = 1 ∨ p.leg.qconj = -1
  | .old _ => True

/-- **one axis of the result**: its `get_charge` at the new block index equals the sum of the `get_charge`s of the
source axes merged into it, modulo `mod`; and has the width of `chinfo` -/
theorem axis_charge (mods : List Nat) (lcs : List Leg) (hs : ∀ l ∈ lcs, l.Shape)
    (hm : ∀ l ∈ lcs, ∀ c ∈ l.charges, c.length = mods.length)
    (q : List Nat) (hq : InRange q (lcs.map Leg.blockNumber)) (s : AxS) (hv : s.Valid lcs) (hqc : AxQ s)
    (hmod : (s.leg lcs).mods = mods) :
    makeValid mods ((s.leg lcs).getCharge (s.row q))
        = makeValid mods (csum mods.length (chs (pick lcs s.part default) (pick q s.part 0)))
    ∧ ((s.leg lcs).getCharge (s.row q)).length = mods.length := by
  have hql : q.length = lcs.length := by rw [hq.length_eq, List.length_map]
  cases s with
  | new p c =>
    obtain ⟨hc, qconj, sort, bunch, rfl⟩ := hv
    have hg : Pipe.gMods (pick lcs c default) = mods := by
      rw [← (Pipe.init_mods_qconj (pick lcs c default) qconj sort bunch).1]; exact hmod
    have hqc' : qconj = 1 ∨ qconj = -1 := by
      have := hqc
      simp only [AxQ, (Pipe.init_mods_qconj (pick lcs c default) qconj sort bunch).2] at this
      exact this
    have hsh := pick_shapes lcs hs c hc
    have hin := pick_inRange_blk lcs q hq c hc
    constructor
    · have := pipe_getCharge (pick lcs c default) qconj hqc' sort bunch hsh (pick q c 0) hin
      rw [hg] at this
      exact this
    · have := pipe_getCharge_length (pick lcs c default) qconj sort bunch hsh (by
        rw [hg]
        intro l hl
        obtain ⟨x, hx, rfl⟩ := List.mem_map.1 hl
        exact hm _ (getD_mem lcs x default (hc x hx))) (pick q c 0) hin
      rw [hg] at this
      exact this
  | old x =>
    have hx : x < lcs.length := hv
    have hlt : q.getD x 0 < (lcs.getD x default).blockNumber := by
      have := hq.getD_lt x (by rw [hql]; exact hx)
      rwa [getD_map' Leg.blockNumber lcs x default 0 hx] at this
    have hlen : ((lcs.getD x default).getCharge (q.getD x 0)).length = mods.length := by
      simp only [Leg.getCharge, cscale, List.length_map]
      exact hm _ (getD_mem lcs x default hx) _ (getD_mem _ _ _ hlt)
    refine ⟨?_, hlen⟩
    show makeValid mods ((lcs.getD x default).getCharge (q.getD x 0))
      = makeValid mods (csum mods.length (chs (pick lcs [x] default) (pick q [x] 0)))
    simp only [pick, chs, List.map_cons, List.map_nil, List.zipWith_cons_cons, List.zipWith_nil_right, csum,
      List.foldl_cons, List.foldl_nil]
    rw [czero_cadd_left _ _ hlen]

/-- **all axes together**: the block charge of the new row w.r.t. the new legs equals the block charge of the source
row w.r.t. the source legs -/
theorem specs_charge (mods : List Nat) (lcs : List Leg) (hs : ∀ l ∈ lcs, l.Shape)
    (hm : ∀ l ∈ lcs, ∀ c ∈ l.charges, c.length = mods.length)
    (q : List Nat) (hq : InRange q (lcs.map Leg.blockNumber)) (specs : List AxS)
    (hv : ∀ s ∈ specs, s.Valid lcs) (hqc : ∀ s ∈ specs, AxQ s) (hmod : ∀ s ∈ specs, (s.leg lcs).mods = mods)
    (hstd : (specs.map AxS.part).flatten = List.range lcs.length) :
    blockChargeOf mods (specs.map (AxS.leg lcs)) (specs.map (AxS.row q)) = blockChargeOf mods lcs q := by
  have hql : q.length = lcs.length := by rw [hq.length_eq, List.length_map]
  unfold blockChargeOf
  rw [zipWith_map_same]
  have hlen : (chs lcs q).length = lcs.length := by
    unfold chs; rw [List.length_zipWith, hql, Nat.min_self]
  have hflat : chs lcs q = (specs.map (fun s => chs (pick lcs s.part default) (pick q s.part 0))).flatten := by
    have := flatten_parts specs (chs lcs q) [] (by rw [hlen]; exact hstd)
    rw [← this]
    congr 1
    apply List.map_congr_left
    intro s hs'
    exact pick_chs lcs q s.part (AxS.part_lt (hv s hs')) hql
  show _ = makeValid mods (csum mods.length (chs lcs q))
  rw [hflat]
  apply csum_flatten_congr mods specs
  · intro s hs'
    exact (axis_charge mods lcs hs hm q hq s (hv s hs') (hqc s hs') (hmod s hs')).2
  · intro s hs'
    apply chs_len
    · intro l hl
      obtain ⟨x, hx, rfl⟩ := List.mem_map.1 hl
      exact hm _ (getD_mem lcs x default (AxS.part_lt (hv s hs') x hx))
    · have := pick_inRange_blk lcs q hq s.part (AxS.part_lt (hv s hs'))
      exact this
  · intro s hs'
    exact (axis_charge mods lcs hs hm q hq s (hv s hs') (hqc s hs') (hmod s hs')).1

end TenpyModel.C01C
