import TenpyModel.C01.A_Permute1
/-!
C01 part A — `permute`, step 2: the new leg (`from_qflat(...).bunch()`), the job list of the write loop, and
`permute` written through `permStep`.
-/
namespace TenpyModel.Core

theorem mem_expand_pm {β} (sizes : List Nat) (cs : List β) (c : β) (h : c ∈ expand sizes cs) : c ∈ cs := by
  unfold expand at h
  obtain ⟨sc, hsc, hc⟩ := List.mem_flatMap.1 h
  rw [(List.mem_replicate.1 hc).2]
  exact (List.of_mem_zip hsc).2

theorem getD_zip_mem_pm {β γ} (qd : List β) (dt : List γ) (i : Nat) (d1 : β) (d2 : γ) (h1 : i < qd.length)
    (h2 : i < dt.length) : (qd.getD i d1, dt.getD i d2) ∈ qd.zip dt := by
  rw [getD_lt _ _ _ h1, getD_lt _ _ _ h2, List.mem_iff_getElem]
  exact ⟨i, by rw [List.length_zip]; omega, by simp⟩

/-- with pairwise distinct keys, a key has at most one value -/
theorem zip_nodup_unique_pm {β γ} (qd : List β) (dt : List γ) (r : β) (b1 b2 : γ) (hn : qd.Nodup)
    (h1 : (r, b1) ∈ qd.zip dt) (h2 : (r, b2) ∈ qd.zip dt) : b1 = b2 := by
  induction qd generalizing dt with
  | nil => simp at h1
  | cons x xs ih =>
    cases dt with
    | nil => simp at h1
    | cons y ys =>
      rw [List.nodup_cons] at hn
      simp only [List.zip_cons_cons, List.mem_cons, Prod.mk.injEq] at h1 h2
      rcases h1 with ⟨e1, e1'⟩ | h1
      · rcases h2 with ⟨_, e2'⟩ | h2
        · rw [e1', e2']
        · exact absurd (e1 ▸ (List.of_mem_zip h2).1) hn.1
      · rcases h2 with ⟨e2, _⟩ | h2
        · exact absurd (e2 ▸ (List.of_mem_zip h1).1) hn.1
        · exact ih ys hn.2 h1 h2

theorem removeAt_set_pm {β} : ∀ (l : List β) (k : Nat) (x : β), Dense.removeAt (l.set k x) k = Dense.removeAt l k
  | [], _, _ => rfl
  | y :: l, 0, x => by simp [Dense.removeAt]
  | y :: l, k + 1, x => by
    rw [List.set_cons_succ, Dense.removeAt_succ_pm, Dense.removeAt_succ_pm, removeAt_set_pm l k x]

namespace Dense
variable {α : Type}

theorem takeList_ofFn_pm [Zero α] (S : List Nat) (g : List Nat → α) (k : Nat) (inds : List Nat)
    (hm : ∀ j, j < inds.length → inds.getD j 0 < S.getD k 0) :
    (ofFn S g).takeList k inds = ofFn (S.set k inds.length)
      (fun idx' => g (idx'.set k (inds.getD (idx'.getD k 0) 0))) := by
  unfold takeList
  rw [gather_eq_ofFn]
  show ofFn (S.set k _) _ = _
  apply ofFn_congr_mem
  intro idx' hidx'
  by_cases hk : k < S.length
  · have hj : idx'.getD k 0 < inds.length := by
      have := hidx'.getD_lt' k (by rw [List.length_set]; exact hk)
      rwa [getD_set_eq_pj _ _ _ _ hk] at this
    exact get_ofFn 0 S g _ (hidx'.set_of_pj (hm _ hj))
  · have e1 : S.set k inds.length = S := List.set_eq_of_length_le (by omega)
    have hl : idx'.length = S.length := by rw [hidx'.length_eq, List.length_set]
    have e2 : ∀ v, idx'.set k v = idx' := fun v => List.set_eq_of_length_le (by omega)
    rw [e1] at hidx'
    rw [e2]
    exact get_ofFn 0 S g _ hidx'

end Dense

namespace Leg

theorem locate_inj_pm {l : Leg} (h : l.Shape) (x y : Nat) (hx : x < l.indLen) (hy : y < l.indLen)
    (e : l.locate x = l.locate y) : x = y := by
  have a := (locate_ok h x hx).2.2.2
  have b := (locate_ok h y hy).2.2.2
  rw [e] at a
  omega

theorem fromQflat_shape_pm (mods : List Nat) (qflat : List Charge) (qc : Int) : (fromQflat mods qflat qc).Shape := by
  refine ⟨by simp [fromQflat, fromQind, mk'], ?_, ?_⟩
  · show (List.range (qflat.length + 1)).head? = some 0
    rw [List.range_succ_eq_map]; rfl
  · show (List.range (qflat.length + 1)).Pairwise (· ≤ ·)
    exact List.pairwise_lt_range.imp Nat.le_of_lt

theorem fromQflat_indLen_pm (mods : List Nat) (qflat : List Charge) (qc : Int) :
    (fromQflat mods qflat qc).indLen = qflat.length := by
  rw [(fromQflat_shape_pm mods qflat qc).indLen_eq_getD]
  show (List.range (qflat.length + 1)).getD qflat.length 0 = qflat.length
  exact getD_range _ _ (by omega)

/-- the leg built by `permute`: well-shaped, of the same length as the permutation -/
theorem fromQflat_bunch_pm (mods : List Nat) (qflat : List Charge) (qc : Int)
    (hc : mods.length = 0 → ∀ c ∈ qflat, c = []) :
    (fromQflat mods qflat qc).bunch.2.Shape ∧ (fromQflat mods qflat qc).bunch.2.indLen = qflat.length := by
  have hs := fromQflat_shape_pm mods qflat qc
  have hcl : (fromQflat mods qflat qc).CL0 := hc
  rw [bunch_eq]
  split
  · exact ⟨hs, fromQflat_indLen_pm mods qflat qc⟩
  · exact ⟨bunchCore_shape hs hcl, by rw [bunchCore_indLen hs hcl, fromQflat_indLen_pm]⟩

end Leg

namespace Arr
variable {α : Type}

/-- the new leg of `permute` -/
def permNewLeg (a : Arr α) (k : Nat) (perm : List Nat) : Leg :=
  (Leg.fromQflat a.mods (pick (a.lc k).toQflat perm []) (a.lc k).qconj).bunch.2

/-- the iterations of the write loop of `permute`: (data index, old flat index, offset in the old block) -/
def permJobs (a : Arr α) (k : Nat) : List (Nat × Nat × Nat) :=
  (List.range (a.lc k).blockNumber).flatMap (fun oq =>
    ((List.range a.qdata.length).filter (fun di => (a.qdata.getD di []).getD k 0 == oq)).flatMap (fun di =>
      (List.range ((a.lc k).slices.getD (oq + 1) 0 - (a.lc k).slices.getD oq 0)).map
        (fun w => (di, (a.lc k).slices.getD oq 0 + w, w))))

theorem mem_permJobs (a : Arr α) (k : Nat) (di iold w : Nat) :
    (di, iold, w) ∈ permJobs a k ↔
      (a.qdata.getD di []).getD k 0 < (a.lc k).blockNumber ∧ di < a.qdata.length
      ∧ w < (a.lc k).slices.getD ((a.qdata.getD di []).getD k 0 + 1) 0 - (a.lc k).slices.getD ((a.qdata.getD di []).getD k 0) 0
      ∧ iold = (a.lc k).slices.getD ((a.qdata.getD di []).getD k 0) 0 + w := by
  unfold permJobs
  simp only [List.mem_flatMap, List.mem_range, List.mem_filter, List.mem_map, Prod.mk.injEq, beq_iff_eq]
  constructor
  · rintro ⟨oq, hoq, di', ⟨hdi, hk⟩, w', hw, e1, e2, e3⟩
    subst e1 e3 hk
    exact ⟨hoq, hdi, hw, e2.symm⟩
  · rintro ⟨h1, h2, h3, h4⟩
    exact ⟨_, h1, di, ⟨h2, rfl⟩, w, h3, rfl, h4.symm, rfl⟩

/-- the write performed by a job -/
def permTriple [Zero α] (a : Arr α) (k : Nat) (newleg : Leg) (inv : List Nat) (job : Nat × Nat × Nat) : PTriple α :=
  ((a.qdata.getD job.1 []).set k (newleg.locate (inv.getD job.2.1 0)).1, (newleg.locate (inv.getD job.2.1 0)).2,
    (a.data.getD job.1 ⟨[], []⟩).take k job.2.2)

/-- the stored (row, block) list produced by `permute` -/
def permRes [Zero α] (a : Arr α) (k : Nat) (perm : List Nat) : List (List Nat × Blk α) :=
  ((permJobs a k).map (permTriple a k (permNewLeg a k perm) (inversePerm perm))).foldl
    (permStep (a.lcs.set k (permNewLeg a k perm)) k) []

/-- `permute` after the argument checks -/
theorem permute_ok [Zero α] (a r : Arr α) (perm : List Nat) (axis : Ax) (k : Nat) (hk : a.getLegIndex axis = .ok k)
    (h : a.permute perm axis = .ok r) :
    perm.length = (a.lc k).indLen ∧
      r = { a with legs := a.legs.set k (.plain (permNewLeg a k perm)), qdata := (permRes a k perm).map (·.1),
                   data := (permRes a k perm).map (·.2), qdataSorted := false } := by
  unfold permute at h
  simp only [hk, bind, Except.bind, pure, Except.pure] at h
  split at h
  · simp [throw, throwThe, MonadExceptOf.throw] at h
  · rename_i hlen
    simp only [Except.ok.injEq] at h
    refine ⟨by simpa using hlen, ?_⟩
    rw [← h]
    unfold permRes
    rw [List.foldl_map]
    rfl

end Arr
end TenpyModel.Core
