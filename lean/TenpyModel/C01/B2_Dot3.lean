import TenpyModel.C01.B2_Dot2
/-!
C01 part B2 — the charge filter of `_tensordot_worker` (`a_lookup_charges` / `b_charges_match`): a stored block of `a`
and a stored block of `b` with the same contracted block indices always pass it (charge rule of both operands +
contractible legs), so the filter only skips pairs of groups without a common contracted key.
-/
namespace TenpyModel.C01B2
open TenpyModel.Core TenpyModel.C01B

/-! ### charge vectors of a fixed length -/

theorem cadd_assoc (a b c : Charge) : cadd (cadd a b) c = cadd a (cadd b c) := by
  unfold cadd
  apply List.ext_getElem
  · simp only [List.length_zipWith]; omega
  · intro i h1 h2
    simp only [List.getElem_zipWith]; omega

theorem cadd_czero_right (n : Nat) (z : Charge) (h : z.length = n) : cadd z (czero n) = z := by
  unfold cadd czero
  apply List.ext_getElem
  · simp [h]
  · intro i h1 h2
    simp

theorem czero_cadd_left (n : Nat) (z : Charge) (h : z.length = n) : cadd (czero n) z = z := by
  rw [cadd_comm, cadd_czero_right n z h]

theorem foldl_cadd_eq (n : Nat) (Y : List Charge) (hY : ∀ c ∈ Y, c.length = n) (z : Charge) (hz : z.length = n) :
    Y.foldl cadd z = cadd z (csum n Y) := by
  induction Y generalizing z with
  | nil => simp [csum, cadd_czero_right n z hz]
  | cons y Y ih =>
    have hy : y.length = n := hY y (by simp)
    have hY' : ∀ c ∈ Y, c.length = n := fun c hc => hY c (by simp [hc])
    simp only [List.foldl_cons, csum]
    rw [ih hY' (cadd z y) (by rw [cadd_length, hz, hy, Nat.min_self]),
      ih hY' (cadd (czero n) y) (by rw [cadd_length, hy]; simp [czero]), czero_cadd_left n y hy, cadd_assoc]

theorem csum_append (n : Nat) (X Y : List Charge) (hX : ∀ c ∈ X, c.length = n) (hY : ∀ c ∈ Y, c.length = n) :
    csum n (X ++ Y) = cadd (csum n X) (csum n Y) := by
  have : csum n (X ++ Y) = Y.foldl cadd (csum n X) := by simp [csum, List.foldl_append]
  rw [this, foldl_cadd_eq n Y hY _ (csum_length n X hX)]

/-- the charges of the blocks `q` of the legs `ls` (with direction) -/
def chs (ls : List Leg) (q : List Nat) : List Charge := List.zipWith (fun l qi => l.getCharge qi) ls q

theorem chs_split (ls : List Leg) (q : List Nat) (n : Nat) :
    chs ls q = chs (ls.take n) (q.take n) ++ chs (ls.drop n) (q.drop n) := by
  unfold chs
  rw [← List.take_zipWith, ← List.drop_zipWith, List.take_append_drop]

theorem chs_len (n : Nat) (ls : List Leg) (q : List Nat) (hv : ∀ l ∈ ls, ∀ c ∈ l.charges, c.length = n)
    (hq : InRange q (ls.map Leg.blockNumber)) : ∀ c ∈ chs ls q, c.length = n := by
  induction ls generalizing q with
  | nil => intro c hc; simp [chs] at hc
  | cons l ls ih =>
    cases q with
    | nil => exact hq.elim
    | cons q0 q =>
      intro c hc
      simp only [chs, List.zipWith_cons_cons, List.mem_cons] at hc
      rcases hc with rfl | hc
      · simp only [Leg.getCharge, cscale, List.length_map]
        exact hv l (by simp) _ (getD_mem _ _ _ hq.1)
      · exact ih q (fun m hm => hv m (by simp [hm])) hq.2 c hc

/-- the pure vector computation behind the charge filter -/
theorem charge_algebra (mods : List Nat) (SA SC SC' SB qa qb : Charge)
    (lA : SA.length = mods.length) (lC : SC.length = mods.length) (lC' : SC'.length = mods.length)
    (lB : SB.length = mods.length)
    (h1 : makeValid mods (cadd SA SC) = qa) (h2 : makeValid mods (cadd SC' SB) = qb)
    (h3 : makeValid mods (cadd SC' SC) = czero mods.length) :
    makeValid mods (cadd (cscale 1 SA) (czero mods.length))
      = makeValid mods (cadd (cscale (-1) SB) (makeValid mods (cadd qa qb))) := by
  rw [cscale_one, cadd_czero_right _ SA lA, makeValid_add, ← h1, ← h2]
  have e1 : makeValid mods (cadd (makeValid mods (cadd SA SC)) (makeValid mods (cadd SC' SB)))
      = makeValid mods (cadd (cadd SA SC) (cadd SC' SB)) := by
    rw [makeValid_add, makeValid_add_left]
  rw [← makeValid_add mods (cscale (-1) SB), e1, makeValid_add]
  have e2 : cadd (cscale (-1) SB) (cadd (cadd SA SC) (cadd SC' SB)) = cadd SA (cadd SC' SC) := by
    unfold cadd cscale
    apply List.ext_getElem
    · simp only [List.length_zipWith, List.length_map]; omega
    · intro i i1 i2
      simp only [List.getElem_zipWith, List.getElem_map]; omega
  rw [e2, ← makeValid_add mods SA, h3, cadd_czero_right _ SA lA]

variable {α : Type}

section charge
variable [CommSemiring α]
set_option linter.unusedSectionVars false

theorem legsValid_charges {a : Arr α} (hv : LegsValid a) (ls : List Leg) (hsub : ∀ l ∈ ls, l ∈ a.lcs) :
    ∀ l ∈ ls, ∀ c ∈ l.charges, c.length = a.mods.length :=
  fun l hl => (hv l (hsub l hl)).2

/-- a stored row of `a` and a stored row of `b` with equal contracted parts: the filter's two charges agree -/
theorem charge_match (a b : Arr α) (k : Nat) (h : DotHyp a b k) (hm : a.mods = b.mods)
    (hc : (List.zipWith Leg.testContractible (a.lcs.drop (a.rank - k)) (b.lcs.take k)).all id = true)
    (hca : a.ChargeRule) (hcb : b.ChargeRule) (hva : LegsValid a) (hvb : LegsValid b)
    (qa qb : List Nat) (hqa : qa ∈ a.qdata) (hqb : qb ∈ b.qdata) (he : qa.drop (a.rank - k) = qb.take k) :
    Arr.partialQtotal a.mods (a.lcs.take (a.rank - k)) (qa.take (a.rank - k)) 1 (czero a.mods.length)
      = Arr.partialQtotal a.mods (b.lcs.drop k) (qb.drop k) (-1) (makeValid a.mods (cadd a.qtotal b.qtotal)) := by
  obtain ⟨_, ra2, ra3⟩ := h.rowA qa hqa
  obtain ⟨rb1, rb2, rb3⟩ := h.rowB qb hqb
  have vA := chs_len a.mods.length _ _ (legsValid_charges hva (a.lcs.take (a.rank - k))
    (fun l hl => List.mem_of_mem_take hl)) ra2
  have vC := chs_len a.mods.length _ _ (legsValid_charges hva (a.lcs.drop (a.rank - k))
    (fun l hl => List.mem_of_mem_drop hl)) ra3
  have vC' := chs_len a.mods.length _ _ (by
    rw [hm]; exact legsValid_charges hvb (b.lcs.take k) (fun l hl => List.mem_of_mem_take hl)) rb2
  have vB := chs_len a.mods.length _ _ (by
    rw [hm]; exact legsValid_charges hvb (b.lcs.drop k) (fun l hl => List.mem_of_mem_drop hl)) rb3
  -- the charge rule of both operands, split at the cut
  have h1 : makeValid a.mods (cadd (csum a.mods.length (chs (a.lcs.take (a.rank - k)) (qa.take (a.rank - k))))
      (csum a.mods.length (chs (a.lcs.drop (a.rank - k)) (qa.drop (a.rank - k))))) = a.qtotal := by
    have := hca qa hqa
    unfold blockChargeOf at this
    rw [← csum_append _ _ _ vA vC, ← chs_split]
    exact this
  have h2 : makeValid a.mods (cadd (csum a.mods.length (chs (b.lcs.take k) (qb.take k)))
      (csum a.mods.length (chs (b.lcs.drop k) (qb.drop k)))) = b.qtotal := by
    have := hcb qb hqb
    unfold blockChargeOf at this
    rw [← csum_append _ _ _ vC' vB, ← chs_split, hm]
    exact this
  -- contractible legs: the contracted charges cancel
  have h3 : makeValid a.mods (cadd (csum a.mods.length (chs (b.lcs.take k) (qb.take k)))
      (csum a.mods.length (chs (a.lcs.drop (a.rank - k)) (qb.take k)))) = czero a.mods.length := by
    have hlen : (a.lcs.drop (a.rank - k)).length = (b.lcs.take k).length := by
      rw [h.lenC, lcs_take_len b k h.hkb]
    have := blockCharge_contractible a.mods (a.lcs.drop (a.rank - k)) (b.lcs.take k) (qb.take k) hlen
      (by rw [rb1, lcs_take_len b k h.hkb]) hc
      (fun l hl => by rw [hm]; exact (hvb l (List.mem_of_mem_take hl)).1)
      (fun i hi => by
        have hli : (b.lcs.take k).getD i default ∈ b.lcs.take k := getD_mem _ _ _ hi
        rw [hm]
        apply (hvb _ (List.mem_of_mem_take hli)).2
        apply getD_mem
        have := rb2.getD_lt i (by rw [rb2.length_eq, List.length_map]; exact hi)
        rw [getD_map' _ _ i default 0 hi] at this
        exact this)
    unfold blockChargeOf at this
    rw [makeValid_add, makeValid_add_left] at this
    exact this
  rw [he] at h1 vC
  unfold Arr.partialQtotal
  exact charge_algebra a.mods _ _ _ _ _ _ (csum_length _ _ vA) (csum_length _ _ vC) (csum_length _ _ vC')
    (csum_length _ _ vB) h1 h2 h3

end charge
end TenpyModel.C01B2
