import TenpyModel.C01.C_Charge1
/-!
C01 part C — `tensordot`: every row of the result is `qa[:cut] ++ qb[k:]` for stored rows with equal contracted parts
(all branches), hence the result obeys the charge rule; integer and axis-pair form.
-/
namespace TenpyModel.C01C
open TenpyModel.Core TenpyModel.C01B TenpyModel.C01B2

variable {α : Type}

section dot
variable [CommSemiring α]
set_option linter.unusedSectionVars false

/-- the rows of the result: pairs of stored rows agreeing on the contracted block indices -/
def PairRows (a b r : Arr α) (k : Nat) : Prop :=
  ∀ q ∈ r.qdata, ∃ qa ∈ a.qdata, ∃ qb ∈ b.qdata,
    qa.drop (a.rank - k) = qb.take k ∧ q = qa.take (a.rank - k) ++ qb.drop k

/-- rows of `_tensordot_worker` -/
theorem worker_rows (a b r : Arr α) (k : Nat) (h : DotHyp a b k) (hw : Arr.tensordotWorker a b k = .ok r) :
    PairRows a b r k := by
  obtain ⟨_, _, _, w4, _⟩ := worker_spec a b r k hw
  have c := ctx_of a b k h
  intro q hq
  rw [w4] at hq
  obtain ⟨e, he, rfl⟩ := List.mem_map.1 hq
  obtain ⟨qi, qj, p, ps, _, _, _, _, hc, rfl⟩ := c.out_mem e he
  obtain ⟨qa, qb, hA, hB, e1, e2, e3⟩ := c.mem_common qi qj p (by rw [hc]; simp)
  exact ⟨qa, (List.of_mem_zip hA).1, qb, (List.of_mem_zip hB).1, e3, by rw [e1, e2]⟩

/-- rows of `outer` as pairs (`k = 0`) -/
theorem outer_rows (a b r : Arr α) (ha : W a) (h : a.outer b = .ok r) : PairRows a b r 0 := by
  obtain ⟨_, _, hq, _, _⟩ := outer_parts a b r h
  intro q hqm
  rw [hq] at hqm
  obtain ⟨e, he, rfl⟩ := List.mem_map.1 hqm
  unfold outerRows at he
  obtain ⟨rbB, hB, he⟩ := List.mem_flatMap.1 he
  obtain ⟨rbA, hA, rfl⟩ := List.mem_map.1 he
  have hqa := (List.of_mem_zip hA).1
  have hla : rbA.1.length = a.rank := ha.rowLen _ hqa
  refine ⟨rbA.1, hqa, rbB.1, (List.of_mem_zip hB).1, ?_, ?_⟩
  · rw [Nat.sub_zero, List.take_zero, List.drop_of_length_le (by omega)]
  · rw [Nat.sub_zero, List.drop_zero, List.take_of_length_le (by omega)]

/-- **structure of the result of `tensordot(a, b, axes=k)`** (every tensor-valued branch): `chinfo`, legs, total
charge, and every stored row is a pair of stored rows with equal contracted parts -/
theorem tensordot_int_rows (cy : Bool) (a b : Arr α) (ha : W a) (hb : W b) (k : Nat) (r : Arr α)
    (h : Arr.tensordot cy a b (.int (k : Int)) = .ok (.arr r)) :
    DotHyp a b k ∧ a.mods = b.mods
    ∧ (List.zipWith Leg.testContractible (a.lcs.drop (a.rank - k)) (b.lcs.take k)).all id = true
    ∧ r.mods = a.mods ∧ r.legs = a.legs.take (a.rank - k) ++ b.legs.drop k
    ∧ r.qtotal = makeValid a.mods (cadd a.qtotal b.qtotal) ∧ PairRows a b r k := by
  unfold Arr.tensordot at h
  cases ht : Arr.tensordotTransposeAxes cy a b (.int (k : Int)) with
  | error e => rw [ht] at h; simp [bind, Except.bind] at h
  | ok t =>
    obtain ⟨a', b', k'⟩ := t
    obtain ⟨rfl, rfl, rfl, hm, hka, hkb, hc⟩ := tensordotTranspose_int cy a b a' b' k k' ht
    rw [ht] at h
    simp only [bind, Except.bind, pure, Except.pure] at h
    have hD : DotHyp a' b' k' := ⟨ha, hb, hka, hkb, contracted_slices a' b' k' hka hkb hc⟩
    refine ⟨hD, hm, hc, ?_⟩
    split at h
    · cases h
    · split at h
      · -- no block / one block
        cases hz : (Arr.zeros a'.mods (a'.legs.take (a'.rank - k') ++ b'.legs.drop k')
            (some (cadd a'.qtotal b'.qtotal)) none : Except Err (Arr α)) with
        | error e => rw [hz] at h; simp at h
        | ok res =>
          rw [hz] at h
          have hres := zeros_ok _ _ _ _ hz
          simp only [Except.ok.injEq, Val.arr.injEq] at h
          subst h
          split
          · rename_i hone
            refine ⟨by rw [hres], by rw [hres], by rw [hres]; rfl, ?_⟩
            intro q hq
            simp only [List.mem_singleton] at hq
            have h1a : a'.qdata.length = 1 := by rw [ha.len]; exact hone.1.1
            have h1b : b'.qdata.length = 1 := by rw [hb.len]; exact hone.1.2
            obtain ⟨qa, hqa⟩ := List.length_eq_one_iff.1 h1a
            obtain ⟨qb, hqb⟩ := List.length_eq_one_iff.1 h1b
            have e := hone.2
            rw [hqa, hqb] at e hq
            simp only [List.headD_cons] at e hq
            exact ⟨qa, by rw [hqa]; simp, qb, by rw [hqb]; simp, e, hq⟩
          · refine ⟨by rw [hres], by rw [hres], by rw [hres]; rfl, ?_⟩
            intro q hq
            rw [hres] at hq
            simp at hq
      · split at h
        · -- outer
          rename_i hk0
          cases ho : a'.outer b' with
          | error e => rw [ho] at h; simp at h
          | ok r' =>
            rw [ho] at h
            simp only [Except.ok.injEq, Val.arr.injEq] at h
            subst h
            obtain ⟨h1, h2, h3, _, _⟩ := outer_ok a' b' r' ho
            subst hk0
            refine ⟨h2, ?_, h3, outer_rows a' b' r' ha ho⟩
            rw [h1, Nat.sub_zero, List.drop_zero, List.take_of_length_le (by simp [Arr.rank])]
        · -- worker
          cases hw : Arr.tensordotWorker a' b' k' with
          | error e => rw [hw] at h; simp at h
          | ok res =>
            rw [hw] at h
            simp only [Except.ok.injEq, Val.arr.injEq] at h
            subst h
            obtain ⟨w1, w2, w3, _, _⟩ := worker_spec a' b' res k' hw
            exact ⟨w1, w2, w3, worker_rows a' b' res k' hD hw⟩

/-- **(a), integer form**: `tensordot(a, b, axes=k)` returns a tensor obeying the charge rule with valid legs -/
theorem chargeRule_tensordot_int (cy : Bool) (a b : Arr α) (ha : a.WF) (hb : b.WF)
    (hca : a.ChargeRule) (hcb : b.ChargeRule) (hva : LegsValid a) (hvb : LegsValid b) (k : Nat) (r : Arr α)
    (h : Arr.tensordot cy a b (.int (k : Int)) = .ok (.arr r)) : r.ChargeRule ∧ LegsValid r := by
  obtain ⟨hD, hm, hc, hmods, hlegs, hqt, hrows⟩ := tensordot_int_rows cy a b (W.of ha) (W.of hb) k r h
  refine ⟨?_, legsValid_of_legs a b r _ k hm hva hvb hmods hlegs⟩
  intro q hq
  obtain ⟨qa, hqa, qb, hqb, he, rfl⟩ := hrows q hq
  rw [hmods, hqt, lcs_of_legs r _ hlegs]
  exact row_charge a b k hD hm hc hca hcb hva hvb qa qb hqa hqb he

/-- `tensordot(a, b, axes=z)` for an integer `z`: a successful call has `z ≥ 0` -/
theorem tensordot_int_nonneg (cy : Bool) (a b : Arr α) (z : Int) (v : Val α)
    (h : Arr.tensordot cy a b (.int z) = .ok v) : z = ((z.toNat : Nat) : Int) := by
  by_cases hz : z < 0
  · exfalso
    have ht : ∀ e, Arr.tensordotTransposeAxes cy a b (.int z) ≠ .ok e := by
      intro e he
      unfold Arr.tensordotTransposeAxes at he
      simp only [bind, Except.bind, pure, Except.pure, hz, if_true] at he
      split at he <;> simp [throw, throwThe, MonadExceptOf.throw] at he
    unfold Arr.tensordot at h
    cases hx : Arr.tensordotTransposeAxes cy a b (.int z) with
    | error e => rw [hx] at h; simp [bind, Except.bind] at h
    | ok t => exact ht t hx
  · omega

/-- **(a)** `tensordot(a, b, axes)` for every form of `axes` (integer, or a pair of axis lists by index / label):
the result obeys the charge rule and has valid legs -/
theorem chargeRule_tensordot (cy : Bool) (a b : Arr α) (ha : a.WF) (hb : b.WF)
    (hca : a.ChargeRule) (hcb : b.ChargeRule) (hva : LegsValid a) (hvb : LegsValid b) (axes : Arr.DotAxes) (r : Arr α)
    (h : Arr.tensordot cy a b axes = .ok (.arr r)) : r.ChargeRule ∧ LegsValid r := by
  cases axes with
  | int z =>
    have hz := tensordot_int_nonneg cy a b z _ h
    rw [hz] at h
    exact chargeRule_tensordot_int cy a b ha hb hca hcb hva hvb _ r h
  | pair xa xb =>
    obtain ⟨ia, ib, _, _, _, hpa, hpb, hint⟩ := tensordot_pair_eq cy a b ha hb xa xb _ h
    obtain ⟨wa', _, _, _, _, _, _, ca', va'⟩ := trOp_spec a _ ha hpa
    obtain ⟨wb', _, _, _, _, _, _, cb', vb'⟩ := trOp_spec b _ hb hpb
    exact chargeRule_tensordot_int cy _ _ wa' wb' (ca' hca) (cb' hcb) (va' hva) (vb' hvb) ia.length r hint

end dot
end TenpyModel.C01C
