import TenpyModel.C01.A_Project1
import TenpyModel.C01.A_Scale
/-!
C01 part A — `iproject`, step 2: one projection step `Arr.proj1` (project leg `k` with a boolean mask, drop / relabel
the stored rows, compress the blocks) commutes with `toDense` (`Dense.compress`) and preserves the storage
invariants `Arr.WF0` (`WF` without the cached-sortedness claim, which `A_Project4` adds).
-/
namespace TenpyModel.Core

theorem zip_map_fst_snd_pj {β γ} (l : List (β × γ)) : (l.map (·.1)).zip (l.map (·.2)) = l := by
  induction l with
  | nil => rfl
  | cons x xs ih => simp [ih]

theorem filterMap_zip_fst_pj {β γ δ} (qd : List β) (dt : List γ) (f : β → Option δ) (h : qd.length ≤ dt.length) :
    (qd.zip dt).filterMap (fun rb => f rb.1) = qd.filterMap f := by
  have : (qd.zip dt).filterMap (fun rb => f rb.1) = ((qd.zip dt).map Prod.fst).filterMap f := by
    rw [List.filterMap_map]; rfl
  rw [this, List.map_fst_zip h]

theorem InRange.set_of_pj {idx' S : List Nat} {k n' v : Nat} (h : InRange idx' (S.set k n')) (hv : v < S.getD k 0) :
    InRange (idx'.set k v) S := by
  have hl : idx'.length = S.length := by rw [h.length_eq, List.length_set]
  apply InRange.of_getD
  · rw [List.length_set, hl]
  · intro j hj
    by_cases hjk : k = j
    · subst hjk
      rw [getD_set_eq_pj _ _ _ _ (by omega)]
      exact hv
    · rw [getD_set_ne_pj _ _ _ _ _ hjk]
      have := h.getD_lt' j (by rw [List.length_set]; exact hj)
      rwa [getD_set_ne_pj _ _ _ _ _ hjk] at this

namespace Dense
variable {α : Type}

theorem compress_ofFn [Zero α] (S : List Nat) (g : List Nat → α) (k : Nat) (mask : List Bool)
    (hm : mask.length = S.getD k 0) :
    (ofFn S g).compress k mask = ofFn (S.set k (maskIdx mask).length)
      (fun idx' => g (idx'.set k ((maskIdx mask).getD (idx'.getD k 0) 0))) := by
  unfold compress takeList
  rw [gather_eq_ofFn]
  show ofFn (S.set k _) _ = _
  apply ofFn_congr_mem
  intro idx' hidx'
  by_cases hk : k < S.length
  · have hj : idx'.getD k 0 < (maskIdx mask).length := by
      have := hidx'.getD_lt' k (by rw [List.length_set]; exact hk)
      rwa [getD_set_eq_pj _ _ _ _ hk] at this
    have hv := maskIdx_getD_lt mask _ hj
    rw [hm] at hv
    exact get_ofFn 0 S g _ (hidx'.set_of_pj hv)
  · have e1 : S.set k (maskIdx mask).length = S := List.set_eq_of_length_le (by omega)
    have hl : idx'.length = S.length := by rw [hidx'.length_eq, List.length_set]
    have e2 : ∀ v, idx'.set k v = idx' := fun v => List.set_eq_of_length_le (by omega)
    rw [e1] at hidx'
    rw [e2]
    exact get_ofFn 0 S g _ hidx'

theorem compress_shape [Zero α] (b : Dense α) (k : Nat) (m : List Bool) :
    (b.compress k m).shape = b.shape.set k (maskIdx m).length := rfl

theorem compress_vals_length [Zero α] (b : Dense α) (k : Nat) (m : List Bool) :
    (b.compress k m).vals.length = prod (b.compress k m).shape := by
  unfold compress takeList gather
  simp only [List.length_map, allIdx_length]

theorem get_compress [Zero α] (b : Dense α) (k : Nat) (m : List Bool) (w : List Nat)
    (hw : InRange w (b.shape.set k (maskIdx m).length)) :
    (b.compress k m).get 0 w = b.get 0 (w.set k ((maskIdx m).getD (w.getD k 0) 0)) := by
  unfold compress takeList
  exact get_gather 0 b _ _ w hw

end Dense

namespace Arr
variable {α : Type}

/-- storage invariants without the cached-sortedness claim -/
def WF0 (a : Arr α) : Prop :=
  a.labels.length = a.rank
  ∧ a.qdata.length = a.data.length
  ∧ a.qdata.Nodup
  ∧ (∀ l ∈ a.lcs, l.ShapeOK)
  ∧ (∀ r ∈ a.qdata, r.length = a.rank ∧ ∀ k, k < a.rank → r.getD k 0 < (a.lc k).blockNumber)
  ∧ (∀ rb ∈ a.qdata.zip a.data, rb.2.shape = blockShapeOf a.lcs rb.1 ∧ rb.2.vals.length = Dense.prod rb.2.shape)

theorem WF.wf0 {a : Arr α} (h : a.WF) : a.WF0 := ⟨h.1, h.2.1, h.2.2.1, h.2.2.2.1, h.2.2.2.2.1, h.2.2.2.2.2.1⟩

theorem WF0.wf {a : Arr α} (h : a.WF0) (hs : a.qdataSorted = true → isLexsorted a.qdata = true) : a.WF :=
  ⟨h.1, h.2.1, h.2.2.1, h.2.2.2.1, h.2.2.2.2.1, h.2.2.2.2.2, hs⟩

/-- relabelled row of one projection step -/
def projRow (mapQ : List Int) (k : Nat) (r : List Nat) : List Nat := r.set k (mapQ.getD (r.getD k 0) (-1)).toNat
/-- is the row kept? -/
def projKeepRow (mapQ : List Int) (k : Nat) (r : List Nat) : Bool := decide (0 ≤ mapQ.getD (r.getD k 0) (-1))

/-- one projection step on a tensor: `mk = (mask, axis)` -/
def proj1 [Zero α] (a : Arr α) (mk : List Bool × Nat) : Arr α :=
  let p := (a.lc mk.2).project mk.1
  let rows := (a.qdata.zip a.data).filterMap (fun rb =>
    if projKeepRow p.1 mk.2 rb.1 then
      some (projRow p.1 mk.2 rb.1, rb.2.compress mk.2 (p.2.1.getD ((projRow p.1 mk.2 rb.1).getD mk.2 0) []))
    else none)
  { a with legs := a.legs.set mk.2 (.plain p.2.2), qdata := rows.map (·.1), data := rows.map (·.2) }

/-! ### `zipWith` over a list with one entry replaced -/

theorem qidx_set_pj (lcs : List Leg) (l' : Leg) (idx' : List Nat) (k v : Nat) (hk : k < lcs.length)
    (hl : idx'.length = lcs.length) :
    qidx (lcs.set k l') idx' = (qidx lcs (idx'.set k v)).set k (l'.locate (idx'.getD k 0)).1 := by
  apply ext_getD _ _ 0
  · rw [List.length_set, qidx_length _ _ (by rw [hl, List.length_set]), qidx_length _ _ (by rw [List.length_set, hl]),
      List.length_set]
  · intro j hj
    rw [qidx_length _ _ (by rw [hl, List.length_set]), List.length_set] at hj
    rw [qidx_getD _ _ j (by rw [List.length_set]; exact hj) (by omega)]
    by_cases hjk : k = j
    · subst hjk
      rw [getD_set_eq_pj _ _ _ _ hk, getD_set_eq_pj _ _ _ _ (by rw [qidx_length _ _ (by rw [List.length_set, hl])]; exact hk)]
    · rw [getD_set_ne_pj _ _ _ _ _ hjk, getD_set_ne_pj _ _ _ _ _ hjk,
        qidx_getD _ _ j hj (by rw [List.length_set]; omega), getD_set_ne_pj _ _ _ _ _ hjk]

theorem widx_set_pj (lcs : List Leg) (l' : Leg) (idx' : List Nat) (k v : Nat) (hk : k < lcs.length)
    (hl : idx'.length = lcs.length) :
    widx (lcs.set k l') idx' = (widx lcs (idx'.set k v)).set k (l'.locate (idx'.getD k 0)).2 := by
  apply ext_getD _ _ 0
  · rw [List.length_set, widx_length _ _ (by rw [hl, List.length_set]), widx_length _ _ (by rw [List.length_set, hl]),
      List.length_set]
  · intro j hj
    rw [widx_length _ _ (by rw [hl, List.length_set]), List.length_set] at hj
    rw [widx_getD _ _ j (by rw [List.length_set]; exact hj) (by omega)]
    by_cases hjk : k = j
    · subst hjk
      rw [getD_set_eq_pj _ _ _ _ hk, getD_set_eq_pj _ _ _ _ (by rw [widx_length _ _ (by rw [List.length_set, hl])]; exact hk)]
    · rw [getD_set_ne_pj _ _ _ _ _ hjk, getD_set_ne_pj _ _ _ _ _ hjk,
        widx_getD _ _ j hj (by rw [List.length_set]; omega), getD_set_ne_pj _ _ _ _ _ hjk]

theorem blockShapeOf_length_pj (lcs : List Leg) (r : List Nat) (h : r.length = lcs.length) :
    (blockShapeOf lcs r).length = lcs.length := by simp [blockShapeOf, h]

theorem blockShapeOf_getD_pj (lcs : List Leg) (r : List Nat) (j : Nat) (h1 : j < lcs.length) (h2 : j < r.length) :
    (blockShapeOf lcs r).getD j 0 = (lcs.getD j default).blockSizes.getD (r.getD j 0) 0 :=
  getD_zipWith' _ lcs r j default 0 0 h1 h2

theorem blockShapeOf_set_pj (lcs : List Leg) (l' : Leg) (r : List Nat) (k n : Nat) (hk : k < lcs.length)
    (hl : r.length = lcs.length) :
    blockShapeOf (lcs.set k l') (r.set k n) = (blockShapeOf lcs r).set k (l'.blockSizes.getD n 0) := by
  apply ext_getD _ _ 0
  · rw [List.length_set, blockShapeOf_length_pj _ _ (by rw [List.length_set, List.length_set, hl]),
      blockShapeOf_length_pj _ _ hl, List.length_set]
  · intro j hj
    rw [blockShapeOf_length_pj _ _ (by rw [List.length_set, List.length_set, hl]), List.length_set] at hj
    rw [blockShapeOf_getD_pj _ _ j (by rw [List.length_set]; exact hj) (by rw [List.length_set]; omega)]
    by_cases hjk : k = j
    · subst hjk
      rw [getD_set_eq_pj _ _ _ _ hk, getD_set_eq_pj _ _ _ _ (by omega),
        getD_set_eq_pj _ _ _ _ (by rw [blockShapeOf_length_pj _ _ hl]; exact hk)]
    · rw [getD_set_ne_pj _ _ _ _ _ hjk, getD_set_ne_pj _ _ _ _ _ hjk, getD_set_ne_pj _ _ _ _ _ hjk,
        blockShapeOf_getD_pj _ _ j hj (by omega)]

/-! ### rows -/

theorem projRow_length (mapQ : List Int) (k : Nat) (r : List Nat) : (projRow mapQ k r).length = r.length := by
  simp [projRow]

theorem projRow_getD_eq (mapQ : List Int) (k : Nat) (r : List Nat) (hk : k < r.length) :
    (projRow mapQ k r).getD k 0 = (mapQ.getD (r.getD k 0) (-1)).toNat := getD_set_eq_pj _ _ _ _ hk

theorem projRow_getD_ne (mapQ : List Int) (k j : Nat) (r : List Nat) (h : k ≠ j) :
    (projRow mapQ k r).getD j 0 = r.getD j 0 := getD_set_ne_pj _ _ _ _ _ h

/-- relabelling is injective on kept rows -/
theorem projRow_inj (l : Leg) (mask : List Bool) (hs : l.Shape) (k : Nat) (r q : List Nat) (hl : r.length = q.length)
    (hk : k < r.length) (hr : r.getD k 0 < l.blockNumber) (hq : q.getD k 0 < l.blockNumber)
    (pr : projKeepRow (l.project mask).1 k r = true) (pq : projKeepRow (l.project mask).1 k q = true)
    (e : projRow (l.project mask).1 k r = projRow (l.project mask).1 k q) : r = q := by
  unfold projKeepRow at pr pq
  rw [decide_eq_true_eq] at pr pq
  have e1 := (Leg.project_mapQ_spec l mask hs _ hr pr).2
  have e2 := (Leg.project_mapQ_spec l mask hs _ hq pq).2
  have ek : (projRow (l.project mask).1 k r).getD k 0 = (projRow (l.project mask).1 k q).getD k 0 := by rw [e]
  rw [projRow_getD_eq _ _ _ hk, projRow_getD_eq _ _ _ (by omega)] at ek
  apply ext_getD _ _ 0 hl
  intro j _
  by_cases hjk : k = j
  · subst hjk
    rw [← e1, ← e2, ek]
  · have : (projRow (l.project mask).1 k r).getD j 0 = (projRow (l.project mask).1 k q).getD j 0 := by rw [e]
    rwa [projRow_getD_ne _ _ _ _ hjk, projRow_getD_ne _ _ _ _ hjk] at this

/-! ### the fields of `proj1` -/

section
variable [Zero α] (a : Arr α) (mask : List Bool) (k : Nat)

theorem proj1_legs : (a.proj1 (mask, k)).legs = a.legs.set k (.plain ((a.lc k).project mask).2.2) := rfl
theorem proj1_labels : (a.proj1 (mask, k)).labels = a.labels := rfl
theorem proj1_qtotal : (a.proj1 (mask, k)).qtotal = a.qtotal := rfl
theorem proj1_mods : (a.proj1 (mask, k)).mods = a.mods := rfl
theorem proj1_sorted : (a.proj1 (mask, k)).qdataSorted = a.qdataSorted := rfl

theorem proj1_lcs : (a.proj1 (mask, k)).lcs = a.lcs.set k ((a.lc k).project mask).2.2 := by
  unfold lcs
  rw [proj1_legs, List.map_set]
  rfl

theorem proj1_rank : (a.proj1 (mask, k)).rank = a.rank := by
  unfold rank
  rw [proj1_legs, List.length_set]

theorem proj1_shape : (a.proj1 (mask, k)).shape = a.shape.set k ((a.lc k).project mask).2.2.indLen := by
  unfold shape
  rw [proj1_lcs, List.map_set]

theorem proj1_lc_eq (hk : k < a.rank) : (a.proj1 (mask, k)).lc k = ((a.lc k).project mask).2.2 := by
  rw [← lc_eq _ k (by rw [proj1_rank]; exact hk), proj1_lcs, getD_set_eq_pj _ _ _ _ (by rw [lcs_length]; exact hk)]

theorem proj1_lc_ne (j : Nat) (hj : j < a.rank) (hjk : k ≠ j) : (a.proj1 (mask, k)).lc j = a.lc j := by
  rw [← lc_eq _ j (by rw [proj1_rank]; exact hj), proj1_lcs, getD_set_ne_pj _ _ _ _ _ hjk, lc_eq a j hj]

theorem proj1_zip : (a.proj1 (mask, k)).qdata.zip (a.proj1 (mask, k)).data
    = (a.qdata.zip a.data).filterMap (fun rb =>
        if projKeepRow ((a.lc k).project mask).1 k rb.1 then
          some (projRow ((a.lc k).project mask).1 k rb.1,
            rb.2.compress k (((a.lc k).project mask).2.1.getD ((projRow ((a.lc k).project mask).1 k rb.1).getD k 0) []))
        else none) := zip_map_fst_snd_pj _

theorem proj1_qdata (hl : a.qdata.length = a.data.length) : (a.proj1 (mask, k)).qdata
    = a.qdata.filterMap (fun r => if projKeepRow ((a.lc k).project mask).1 k r then
        some (projRow ((a.lc k).project mask).1 k r) else none) := by
  rw [← filterMap_zip_fst_pj a.qdata a.data _ (by omega)]
  show List.map _ (List.filterMap _ _) = _
  rw [List.map_filterMap]
  congr 1
  funext rb
  split <;> rfl

end

/-- **one projection step** commutes with `toDense` and preserves the storage invariants -/
theorem proj1_spec [Zero α] (a : Arr α) (mask : List Bool) (k : Nat) (ha : a.WF0) (hk : k < a.rank)
    (hm : mask.length = a.shape.getD k 0) :
    (a.proj1 (mask, k)).toDense = a.toDense.compress k mask ∧ (a.proj1 (mask, k)).WF0 := by
  obtain ⟨w1, w2, w3, w4, w5, w6⟩ := ha
  have hkl : k < a.lcs.length := by rw [lcs_length]; exact hk
  have hlmem : a.lc k ∈ a.lcs := by rw [← lc_eq a k hk]; exact getD_mem _ _ _ hkl
  have hs : (a.lc k).Shape := (w4 _ hlmem).shape
  have hm' : mask.length = (a.lc k).indLen := by rw [hm, shape_getD_pj a k hk]
  have hs' := Leg.project_shape (a.lc k) mask
  obtain ⟨hind, hloc⟩ := Leg.project_locate (a.lc k) mask hs hm'
  -- legs of the result
  have hlegs' : ∀ l ∈ (a.proj1 (mask, k)).lcs, l.ShapeOK := by
    intro l hl
    rw [proj1_lcs] at hl
    rcases List.mem_or_eq_of_mem_set hl with h1 | h1
    · exact w4 l h1
    · rw [h1]; exact ⟨hs'.len, hs'.head, hs'.mono⟩
  -- kept rows
  have hrow : ∀ r ∈ a.qdata, projKeepRow ((a.lc k).project mask).1 k r = true →
      (projRow ((a.lc k).project mask).1 k r).getD k 0 < ((a.lc k).project mask).2.2.blockNumber := by
    intro r hr hp
    unfold projKeepRow at hp
    rw [decide_eq_true_eq] at hp
    rw [projRow_getD_eq _ _ _ (by rw [(w5 r hr).1]; exact hk)]
    exact (Leg.project_mapQ_spec _ mask hs _ ((w5 r hr).2 k hk) hp).1
  refine ⟨?_, proj1_labels a mask k ▸ (by rw [proj1_rank]; exact w1), ?_, ?_, hlegs', ?_, ?_⟩
  · -- dense form
    unfold toDense
    rw [Dense.compress_ofFn _ _ _ _ hm, proj1_shape, hind]
    apply Dense.ofFn_congr_mem
    intro idx' hidx'
    have hlen' : idx'.length = a.lcs.length := by
      rw [hidx'.length_eq, List.length_set, shape_length, lcs_length]
    have hj : idx'.getD k 0 < ((a.lc k).project mask).2.2.indLen := by
      have := hidx'.getD_lt' k (by rw [List.length_set, shape_length]; exact hk)
      rwa [getD_set_eq_pj _ _ _ _ (by rw [shape_length]; exact hk), ← hind] at this
    obtain ⟨c1, c2, c3⟩ := hloc _ hj
    generalize hi : (Dense.maskIdx mask).getD (idx'.getD k 0) 0 = i at c1 c2 c3 ⊢
    have hidx : InRange (idx'.set k i) a.shape := hidx'.set_of_pj (by rw [shape_getD_pj a k hk]; exact c1)
    have hidxk : (idx'.set k i).getD k 0 = i := getD_set_eq_pj _ _ _ _ (by omega)
    have hlenset : (idx'.set k i).length = a.lcs.length := by rw [List.length_set, hlen']
    have hqk : (qidx a.lcs (idx'.set k i)).getD k 0 = ((a.lc k).locate i).1 := by
      rw [qidx_getD _ _ k hkl (by omega), lc_eq a k hk, hidxk]
    have hwk : (widx a.lcs (idx'.set k i)).getD k 0 = ((a.lc k).locate i).2 := by
      rw [widx_getD _ _ k hkl (by omega), lc_eq a k hk, hidxk]
    have hqlen : (qidx a.lcs (idx'.set k i)).length = a.lcs.length := qidx_length _ _ hlenset
    have hqlt : ((a.lc k).locate i).1 < (a.lc k).blockNumber := (Leg.locate_ok hs i c1).1
    have hP : projKeepRow ((a.lc k).project mask).1 k (qidx a.lcs (idx'.set k i)) = true := by
      unfold projKeepRow
      rw [decide_eq_true_eq, hqk, c2]
      omega
    have hφ : projRow ((a.lc k).project mask).1 k (qidx a.lcs (idx'.set k i))
        = (qidx a.lcs (idx'.set k i)).set k (((a.lc k).project mask).2.2.locate (idx'.getD k 0)).1 := by
      unfold projRow
      rw [hqk, c2, Int.toNat_natCast]
    have hq : qidx (a.proj1 (mask, k)).lcs idx' = projRow ((a.lc k).project mask).1 k (qidx a.lcs (idx'.set k i)) := by
      rw [hφ, proj1_lcs]
      exact qidx_set_pj a.lcs _ idx' k i hkl hlen'
    have hw : widx (a.proj1 (mask, k)).lcs idx'
        = (widx a.lcs (idx'.set k i)).set k (((a.lc k).project mask).2.2.locate (idx'.getD k 0)).2 := by
      rw [proj1_lcs]
      exact widx_set_pj a.lcs _ idx' k i hkl hlen'
    have hidx'2 : InRange idx' ((a.proj1 (mask, k)).lcs.map Leg.indLen) := by
      show InRange idx' (a.proj1 (mask, k)).shape
      rw [proj1_shape, hind]; exact hidx'
    obtain ⟨_, hwr⟩ := qw_inRange _ hlegs' idx' hidx'2
    refine entry_rowmap a (a.proj1 (mask, k)) (projKeepRow ((a.lc k).project mask).1 k)
      (projRow ((a.lc k).project mask).1 k)
      (fun r b => b.compress k (((a.lc k).project mask).2.1.getD ((projRow ((a.lc k).project mask).1 k r).getD k 0) []))
      id rfl (proj1_zip a mask k) (idx'.set k i) idx' hP hq ?_ ?_
    · intro r hr pr e
      exact projRow_inj (a.lc k) mask hs k r _ (by rw [(w5 r hr).1, hqlen, lcs_length])
        (by rw [(w5 r hr).1]; exact hk) ((w5 r hr).2 k hk) (by rw [hqk]; exact hqlt) pr hP e
    · intro b hb
      have hbs : b.shape = blockShapeOf a.lcs (qidx a.lcs (idx'.set k i)) := (w6 _ hb).1
      have hnk : (projRow ((a.lc k).project mask).1 k (qidx a.lcs (idx'.set k i))).getD k 0
          = (((a.lc k).project mask).2.2.locate (idx'.getD k 0)).1 := by
        rw [hφ, getD_set_eq_pj _ _ _ _ (by omega)]
      have hq'lt := (Leg.locate_ok hs' _ hj).1
      rw [hq, hφ, hw, proj1_lcs, blockShapeOf_set_pj _ _ _ _ _ hkl hqlen, ← hbs,
        Leg.project_blockSizes_getD _ mask hs _ hq'lt] at hwr
      show (b.compress k _).get 0 _ = b.get 0 _
      rw [hnk, hw, Dense.get_compress b k _ _ hwr, getD_set_eq_pj _ _ _ _ (by rw [widx_length _ _ hlenset]; exact hkl),
        List.set_set, ← c3, ← hwk, set_getD_self_pj]
  · -- lengths
    show (List.map _ _).length = (List.map _ _).length
    rw [List.length_map, List.length_map]
  · -- no duplicate rows
    rw [proj1_qdata a mask k w2]
    have hpw : a.qdata.Pairwise (fun x y => x ∈ a.qdata ∧ y ∈ a.qdata ∧ x ≠ y) := List.Pairwise.and_mem.1 w3
    refine List.Pairwise.filterMap _ ?_ hpw
    intro r r' ⟨hr, hr', hne⟩ b hb b' hb' hbb
    split at hb
    next pr =>
      split at hb'
      next pr' =>
        simp only [Option.some.injEq] at hb hb'
        apply hne
        exact projRow_inj (a.lc k) mask hs k r r' (by rw [(w5 r hr).1, (w5 r' hr').1])
          (by rw [(w5 r hr).1]; exact hk) ((w5 r hr).2 k hk) ((w5 r' hr').2 k hk) pr pr' (by rw [hb, hb', hbb])
      next => simp at hb'
    next => simp at hb
  · -- rows in range
    intro r' hr'
    rw [proj1_qdata a mask k w2, List.mem_filterMap] at hr'
    obtain ⟨r, hr, hf⟩ := hr'
    split at hf
    next pr =>
      simp only [Option.some.injEq] at hf
      subst hf
      rw [proj1_rank]
      refine ⟨by rw [projRow_length]; exact (w5 r hr).1, ?_⟩
      intro j hj
      by_cases hjk : k = j
      · subst hjk
        rw [proj1_lc_eq a mask k hk]
        exact hrow r hr pr
      · rw [proj1_lc_ne a mask k j hj hjk, projRow_getD_ne _ _ _ _ hjk]
        exact (w5 r hr).2 j hj
    next => simp at hf
  · -- blocks
    intro rb' hrb'
    rw [proj1_zip, List.mem_filterMap] at hrb'
    obtain ⟨rb, hrb, hf⟩ := hrb'
    split at hf
    next pr =>
      simp only [Option.some.injEq] at hf
      subst hf
      have hr := (List.of_mem_zip hrb).1
      refine ⟨?_, Dense.compress_vals_length _ _ _⟩
      show (rb.2.compress k _).shape = blockShapeOf (a.proj1 (mask, k)).lcs (projRow _ k rb.1)
      have hlt := hrow rb.1 hr pr
      rw [Dense.compress_shape, proj1_lcs]
      conv => rhs; unfold projRow
      rw [blockShapeOf_set_pj _ _ _ _ _ hkl (by rw [(w5 _ hr).1, lcs_length]), ← (w6 rb hrb).1]
      rw [projRow_getD_eq _ _ _ (by rw [(w5 _ hr).1]; exact hk)] at hlt ⊢
      rw [Leg.project_blockSizes_getD _ mask hs _ hlt]
    next => simp at hf

end Arr
end TenpyModel.Core
