import TenpyModel.C01.B_Outer
import TenpyModel.C01.B_Key
/-!
C01 part B — `inner` (`_inner_worker`): the sum over the blocks with common keys is the dense full contraction.
-/
namespace TenpyModel.C01B
open TenpyModel.Core

variable {α : Type}

/-! ### generic list facts -/

theorem sum_filterMap_map {ι κ β} [AddCommMonoid β] (L : List ι) (φ : ι → Option κ) (h : κ → β) :
    ((L.filterMap φ).map h).sum = (L.map (fun x => match φ x with | none => 0 | some p => h p)).sum := by
  induction L with
  | nil => rfl
  | cons x L ih =>
    simp only [List.filterMap_cons, List.map_cons, List.sum_cons]
    cases hx : φ x with
    | none => simp [ih]
    | some p => simp [ih]

theorem find?_of_mem_keys {γ} (L : List (Nat × γ)) (hk : (L.map (·.1)).Pairwise (· < ·)) (e : Nat × γ) (he : e ∈ L) :
    L.find? (fun y => y.1 == e.1) = some e := by
  induction L with
  | nil => simp at he
  | cons x L ih =>
    simp only [List.map_cons, List.pairwise_cons, List.mem_map, forall_exists_index, and_imp,
      forall_apply_eq_imp_iff₂] at hk
    rcases List.mem_cons.1 he with rfl | he
    · simp
    · have := hk.1 e he
      have hne : (x.1 == e.1) = false := by simp; omega
      rw [List.find?_cons, hne]
      exact ih hk.2 he

theorem InRange_of_getD (r s : List Nat) (hl : r.length = s.length)
    (h : ∀ k, k < s.length → r.getD k 0 < s.getD k 0) : InRange r s := by
  induction r generalizing s with
  | nil => cases s with
    | nil => trivial
    | cons _ _ => simp at hl
  | cons x r ih =>
    cases s with
    | nil => simp at hl
    | cons n s =>
      simp only [List.length_cons, Nat.add_right_cancel_iff] at hl
      refine ⟨by simpa using h 0 (by simp), ih s hl (fun k hk => ?_)⟩
      simpa using h (k + 1) (by simpa using hk)

theorem map_fst_zip' {β γ} (q : List β) (d : List γ) (h : q.length = d.length) : (q.zip d).map (·.1) = q :=
  List.map_fst_zip (by omega)

/-! ### legs with equal slices -/

theorem congr_slices (ls ms : List Leg) (h : ls.map Leg.slices = ms.map Leg.slices) :
    (∀ idx, qOf ls idx = qOf ms idx) ∧ (∀ idx, wOf ls idx = wOf ms idx)
    ∧ (∀ q, blockShapeOf ls q = blockShapeOf ms q) ∧ (∀ q, blockStartOf ls q = blockStartOf ms q)
    ∧ ls.map Leg.indLen = ms.map Leg.indLen := by
  induction ls generalizing ms with
  | nil =>
    cases ms with
    | nil => simp
    | cons _ _ => simp at h
  | cons l ls ih =>
    cases ms with
    | nil => simp at h
    | cons m ms =>
      simp only [List.map_cons, List.cons.injEq] at h
      obtain ⟨i1, i2, i3, i4, i5⟩ := ih ms h.2
      have hloc : ∀ i, l.locate i = m.locate i := Arr.locate_congr l m h.1
      have hbs : l.blockSizes = m.blockSizes := by simp [Leg.blockSizes, h.1]
      refine ⟨?_, ?_, ?_, ?_, ?_⟩
      · intro idx; cases idx with
        | nil => rfl
        | cons i idx => simp [hloc, i1]
      · intro idx; cases idx with
        | nil => rfl
        | cons i idx => simp [hloc, i2]
      · intro q; cases q with
        | nil => rfl
        | cons q0 q => simp [blockShapeOf_cons, hbs, i3]
      · intro q; cases q with
        | nil => rfl
        | cons q0 q => simp [blockStartOf_cons, h.1, i4]
      · simp [Arr.indLen_congr l m h.1, i5]

theorem blockNumbers_of_slices (ls ms : List Leg) (h : ls.map Leg.slices = ms.map Leg.slices)
    (hl : ∀ l ∈ ls, l.Shape) (hm : ∀ m ∈ ms, m.Shape) : ls.map Leg.blockNumber = ms.map Leg.blockNumber := by
  induction ls generalizing ms with
  | nil =>
    cases ms with
    | nil => rfl
    | cons _ _ => simp at h
  | cons l ls ih =>
    cases ms with
    | nil => simp at h
    | cons m ms =>
      simp only [List.map_cons, List.cons.injEq] at h ⊢
      refine ⟨?_, ih ms h.2 (fun x hx => hl x (by simp [hx])) (fun x hx => hm x (by simp [hx]))⟩
      have h1 := (hl l (by simp)).len
      have h2 := (hm m (by simp)).len
      rw [h.1] at h1
      unfold Leg.blockNumber
      omega

theorem slices_of_testEqual (l m : Leg) (h : l.testEqual m = true) : l.slices = m.slices := by
  unfold Leg.testEqual Leg.eq? at h
  split at h
  · simp at h
  · simp only [beq_iff_eq, Option.some.injEq, Bool.and_eq_true] at h
    exact h.1

theorem slices_of_testContractible (l m : Leg) (h : l.testContractible m = true) : l.slices = m.slices :=
  slices_of_testEqual l m.conj h

theorem slices_of_all (f : Leg → Leg → Bool) (hf : ∀ l m, f l m = true → l.slices = m.slices) (ls ms : List Leg)
    (hlen : ls.length = ms.length) (h : (List.zipWith f ls ms).all id = true) :
    ls.map Leg.slices = ms.map Leg.slices := by
  induction ls generalizing ms with
  | nil =>
    cases ms with
    | nil => rfl
    | cons _ _ => simp at hlen
  | cons l ls ih =>
    cases ms with
    | nil => simp at hlen
    | cons m ms =>
      simp only [List.length_cons, Nat.add_right_cancel_iff] at hlen
      simp only [List.zipWith_cons_cons, List.all_cons, id_eq, Bool.and_eq_true] at h
      simp only [List.map_cons, List.cons.injEq]
      exact ⟨hf l m h.1, ih ms hlen h.2⟩

/-! ### rows -/

theorem lc_blockNumber (a : Arr α) (k : Nat) (hk : k < a.rank) : (a.lc k).blockNumber = a.blockNumbers.getD k 0 := by
  unfold Arr.lc Arr.blockNumbers Arr.lcs
  rw [List.map_map, getD_map' _ _ k default 0 hk]
  rfl

theorem W.rowIn {a : Arr α} (h : W a) (r : List Nat) (hr : r ∈ a.qdata) : InRange r a.blockNumbers := by
  have hl : a.blockNumbers.length = a.rank := by simp [Arr.blockNumbers, lcs_length]
  apply InRange_of_getD _ _ (by rw [h.rowLen r hr, hl])
  intro k hk
  rw [hl] at hk
  rw [← lc_blockNumber a k hk]
  exact h.rowLt r hr k hk

theorem W.rowIn' {a : Arr α} (h : W a) (r : List Nat) (hr : r ∈ a.qdata) : InRange r (a.lcs.map Leg.blockNumber) :=
  h.rowIn r hr

/-- entry inside a stored block -/
theorem entry_block [Zero α] (a : Arr α) (ha : W a) (q : List Nat) (ba : Blk α) (hm : (q, ba) ∈ a.qdata.zip a.data)
    (w : List Nat) (hw : InRange w (blockShapeOf a.lcs q)) :
    a.entry (List.zipWith (· + ·) (blockStartOf a.lcs q) w) = ba.get 0 w := by
  have hq := ha.rowIn' q (List.of_mem_zip hm).1
  obtain ⟨_, l2, l3⟩ := locate_blocks a.lcs ha.shapes q w hq hw
  have := entry_of_mem a ha.nodup (List.zipWith (· + ·) (blockStartOf a.lcs q) w) ba (by rw [l2]; exact hm)
  rw [this, l3]

/-- entry inside a block that is not stored -/
theorem entry_noblock [Zero α] (a : Arr α) (ha : W a) (q : List Nat) (hq : InRange q (a.lcs.map Leg.blockNumber))
    (hm : q ∉ a.qdata) (w : List Nat) (hw : InRange w (blockShapeOf a.lcs q)) :
    a.entry (List.zipWith (· + ·) (blockStartOf a.lcs q) w) = 0 := by
  obtain ⟨_, l2, _⟩ := locate_blocks a.lcs ha.shapes q w hq hw
  exact entry_of_not_mem a _ (by rw [l2]; exact hm)

/-! ### the keyed block lists of `_inner_worker` / `_tensordot_worker` -/

/-- (key, block) list of a tensor, sorted by key unless the cached claim says it already is -/
def keyed (bn : List Nat) (a : Arr α) : List (Nat × Blk α) :=
  let ka := (a.qdata.zip a.data).map (fun rb => (Arr.fKey bn rb.1, rb.2))
  if a.qdataSorted then ka else Arr.sortByKey ka

theorem keyed_perm (bn : List Nat) (a : Arr α) :
    (keyed bn a).Perm ((a.qdata.zip a.data).map (fun rb => (Arr.fKey bn rb.1, rb.2))) := by
  unfold keyed
  simp only
  split
  · exact List.Perm.refl _
  · exact sortByKey_perm _ (0, ⟨[], []⟩)

theorem keyed_sorted (a : Arr α) (ha : W a) : ((keyed a.blockNumbers a).map (·.1)).Pairwise (· < ·) := by
  have hkeys : ((a.qdata.zip a.data).map (fun rb => (Arr.fKey a.blockNumbers rb.1, rb.2))).map (·.1)
      = a.qdata.map (Arr.fKey a.blockNumbers) := by
    rw [List.map_map]
    conv => rhs; rw [← map_fst_zip' a.qdata a.data ha.len, List.map_map]
    rfl
  unfold keyed
  simp only
  split
  · rename_i hs
    rw [hkeys]
    exact keys_lt_of_lexsorted _ _ ha.nodup ha.rowIn (ha.sortedOK hs)
  · apply sortByKey_lt _ (0, ⟨[], []⟩)
    rw [hkeys]
    exact ha.nodup.map_on (fun x hx y hy e => fKey_inj _ x y (ha.rowIn x hx) (ha.rowIn y hy) e)

/-- looking up the key of an in-range row in the keyed block list = looking up the row -/
theorem keyed_find (a : Arr α) (ha : W a) (q : List Nat) (hq : InRange q a.blockNumbers) :
    (∀ ba, (q, ba) ∈ a.qdata.zip a.data →
      (keyed a.blockNumbers a).find? (fun y => y.1 == Arr.fKey a.blockNumbers q) = some (Arr.fKey a.blockNumbers q, ba))
    ∧ (q ∉ a.qdata → (keyed a.blockNumbers a).find? (fun y => y.1 == Arr.fKey a.blockNumbers q) = none) := by
  constructor
  · intro ba hm
    apply find?_of_mem_keys _ (keyed_sorted a ha) (Arr.fKey a.blockNumbers q, ba)
    apply (keyed_perm _ a).mem_iff.2
    exact List.mem_map.2 ⟨(q, ba), hm, rfl⟩
  · intro hm
    apply List.find?_eq_none.2
    intro y hy
    have hy' := (keyed_perm _ a).mem_iff.1 hy
    obtain ⟨rb, hrb, rfl⟩ := List.mem_map.1 hy'
    simp only [beq_iff_eq]
    intro e
    have := fKey_inj _ _ _ (ha.rowIn rb.1 (List.of_mem_zip hrb).1) hq e
    exact hm (this ▸ (List.of_mem_zip hrb).1)

/-! ### the sum over common blocks -/

section inner
variable [CommSemiring α]

theorem map_shape (g : α → α) (d : Dense α) : (d.map g).shape = d.shape := rfl
theorem map_good (g : α → α) (d : Dense α) (h : Good d) : Good (d.map g) := by
  simpa [Good, Dense.map] using h
theorem get_map0 (g : α → α) (hg : g 0 = 0) (d : Dense α) (w : List Nat) : (d.map g).get 0 w = g (d.get 0 w) := by
  have := Dense.get_map g 0 d w
  rwa [hg] at this

/-- core of `_inner_worker`: blocks paired through `_iter_common_sorted` on the F-keys -/
theorem inner_core (g : α → α) (hg : g 0 = 0) (a b : Arr α) (ha : W a) (hb : W b)
    (hss : a.lcs.map Leg.slices = b.lcs.map Leg.slices) :
    Dense.sum ((Arr.commonSorted (keyed a.blockNumbers a) (keyed a.blockNumbers b)).map
      (fun (p : Blk α × Blk α) => Dense.inner (p.1.map g) p.2))
      = Dense.inner (a.toDense.map g) b.toDense := by
  obtain ⟨c1, c2, c3, c4, c5⟩ := congr_slices a.lcs b.lcs hss
  have hbn : a.blockNumbers = b.blockNumbers := blockNumbers_of_slices _ _ hss ha.shapes hb.shapes
  have hshape : a.shape = b.shape := c5
  -- the summand of block `q`
  let F : List Nat → α := fun q => ((Dense.allIdx (blockShapeOf a.lcs q)).map (fun w =>
    g (a.entry (List.zipWith (· + ·) (blockStartOf a.lcs q) w))
      * b.entry (List.zipWith (· + ·) (blockStartOf a.lcs q) w))).sum
  -- dense side
  have hdense : Dense.inner (a.toDense.map g) b.toDense = ((gridC (a.lcs.map Leg.blockNumber)).map F).sum := by
    rw [inner_eq _ _ (map_good g _ (toDense_good a)) (toDense_good b) (by rw [map_shape]; exact hshape)]
    rw [map_shape, toDense_shape, shape_eq]
    refine Eq.trans ?_ (sum_blocks a.lcs ha.shapes (fun idx => g (a.entry idx) * b.entry idx))
    apply sum_map_congr
    intro c hc
    have hcr : InRange c a.shape := (mem_allIdx _ _).1 hc
    rw [get_map0 g hg, toDense_get a c hcr, toDense_get b c (hshape ▸ hcr)]
  -- restrict to the stored rows of `a`
  have hsupp : ((gridC (a.lcs.map Leg.blockNumber)).map F).sum = (a.qdata.map F).sum := by
    apply sum_support _ _ F (Pipe.gridC_nodup _) ha.nodup
    · intro q hq; exact (mem_gridC _ _).2 (ha.rowIn' q hq)
    · intro q hq hnq
      apply sum_map_zero
      intro w hw
      rw [entry_noblock a ha q ((mem_gridC _ _).1 hq) hnq w ((mem_allIdx _ _).1 hw), hg, zero_mul]
  rw [hdense, hsupp, dsum_eq, commonSorted_eq _ _ (keyed_sorted a ha) (by rw [hbn]; exact keyed_sorted b hb),
    sum_filterMap_map, ((keyed_perm a.blockNumbers a).map _).sum_eq, List.map_map]
  conv => rhs; rw [← map_fst_zip' a.qdata a.data ha.len, List.map_map]
  apply sum_map_congr
  intro rb hrb
  obtain ⟨q, ba⟩ := rb
  simp only [Function.comp]
  have hq := ha.rowIn q (List.of_mem_zip hrb).1
  have hqb : InRange q b.blockNumbers := hbn ▸ hq
  obtain ⟨f1, f2⟩ := keyed_find b hb q hqb
  rw [← hbn] at f1 f2
  by_cases hmb : q ∈ b.qdata
  · obtain ⟨bb, hbb⟩ := mem_zip_of_mem_left _ _ hb.len _ hmb
    rw [f1 bb hbb]
    simp only [Option.map_some]
    have hsa : ba.shape = blockShapeOf a.lcs q := ha.blkShape _ hrb
    have hsb : bb.shape = blockShapeOf a.lcs q := by rw [hb.blkShape _ hbb, c3]
    rw [inner_eq _ _ (map_good g _ (ha.blkGood _ hrb)) (hb.blkGood _ hbb) (by rw [map_shape, hsa, hsb]), map_shape, hsa]
    apply sum_map_congr
    intro w hw
    have hwr : InRange w (blockShapeOf a.lcs q) := (mem_allIdx _ _).1 hw
    rw [get_map0 g hg, entry_block a ha q ba hrb w hwr, c4 q, entry_block b hb q bb hbb w (by rw [← c3]; exact hwr)]
  · rw [f2 hmb]
    simp only [Option.map_none]
    symm
    apply sum_map_zero
    intro w hw
    rw [c4 q, entry_noblock b hb q hqb hmb w (by rw [← c3]; exact (mem_allIdx _ _).1 hw), mul_zero]

theorem map_id' (d : Dense α) : d.map id = d := by
  cases d; simp [Dense.map]

theorem innerWorker_aux (g : α → α) (hg : g 0 = 0) (fb : Blk α → Blk α) (hfb : ∀ d, fb d = d.map g) (a b : Arr α)
    (ha : W a) (hb : W b) (hss : a.lcs.map Leg.slices = b.lcs.map Leg.slices) (check : Charge)
    (hch : makeValid a.mods check ≠ czero a.mods.length → ∀ q ∈ a.qdata, q ∉ b.qdata) :
    (if makeValid a.mods check ≠ czero a.mods.length then (0 : α)
     else if a.storedBlocks = 0 ∨ b.storedBlocks = 0 then 0
     else Dense.sum ((Arr.commonSorted (keyed a.blockNumbers a) (keyed a.blockNumbers b)).map
        (fun (p : Blk α × Blk α) => Dense.inner (fb p.1) p.2)))
      = Dense.inner (a.toDense.map g) b.toDense := by
  have : fb = Dense.map g := funext hfb
  subst this
  have hbn : a.blockNumbers = b.blockNumbers := blockNumbers_of_slices _ _ hss ha.shapes hb.shapes
  have hcs := commonSorted_eq (keyed a.blockNumbers a) (keyed a.blockNumbers b) (keyed_sorted a ha)
    (by rw [hbn]; exact keyed_sorted b hb)
  rw [← inner_core g hg a b ha hb hss]
  split
  · -- charge pre-check fails: no common rows
    rename_i hne
    have hno := hch hne
    rw [dsum_eq, hcs, sum_filterMap_map]
    symm
    apply sum_map_zero
    intro x hx
    have hx' := (keyed_perm _ a).mem_iff.1 hx
    obtain ⟨rb, hrb, rfl⟩ := List.mem_map.1 hx'
    have hq := ha.rowIn rb.1 (List.of_mem_zip hrb).1
    have f2 := (keyed_find b hb rb.1 (by rw [← hbn]; exact hq)).2 (hno rb.1 (List.of_mem_zip hrb).1)
    rw [← hbn] at f2
    simp only [f2, Option.map_none]
  · split
    · -- no blocks in one operand
      rename_i hz
      rw [dsum_eq, hcs, sum_filterMap_map]
      symm
      apply sum_map_zero
      intro x hx
      rcases hz with hz | hz
      · have hd : a.data = [] := List.length_eq_zero_iff.1 hz
        have hx' := (keyed_perm _ a).mem_iff.1 hx
        simp [hd] at hx'
      · have hd : b.data = [] := List.length_eq_zero_iff.1 hz
        have : keyed a.blockNumbers b = [] := by
          apply List.eq_nil_of_length_eq_zero
          rw [(keyed_perm _ b).length_eq]
          simp [hd]
        simp only [this, List.find?_nil, Option.map_none]
    · rfl

/-- `_inner_worker(a, b, do_conj)`, given that the charge pre-check only fires when no row is stored in both -/
theorem innerWorker_eq (st : α → α) (hst : st 0 = 0) (a b : Arr α) (ha : W a) (hb : W b)
    (hss : a.lcs.map Leg.slices = b.lcs.map Leg.slices) (doConj : Bool)
    (hch : makeValid a.mods (if doConj then csub b.qtotal a.qtotal else cadd b.qtotal a.qtotal) ≠ czero a.mods.length →
      ∀ q ∈ a.qdata, q ∉ b.qdata) :
    Arr.innerWorker st a b doConj = Dense.inner (if doConj then a.toDense.map st else a.toDense) b.toDense := by
  cases doConj
  · have := innerWorker_aux id rfl (fun d => d) (fun d => (map_id' d).symm) a b ha hb hss _ hch
    rw [map_id'] at this
    exact this
  · exact innerWorker_aux st hst (Dense.map st) (fun _ => rfl) a b ha hb hss _ hch

/-- `inner(a, b, axes='range', do_conj)`: the checks it performs -/
theorem inner_range_ok (st : α → α) (a b : Arr α) (doConj : Bool) (x : α)
    (h : Arr.inner st a b .range doConj = .ok x) :
    a.rank = b.rank ∧ a.mods = b.mods
    ∧ (if doConj then Arr.legsEqual a.lcs b.lcs else (List.zipWith Leg.testContractible a.lcs b.lcs).all id) = true
    ∧ x = Arr.innerWorker st a b doConj := by
  unfold Arr.inner at h
  simp only [bind, Except.bind, pure, Except.pure] at h
  split at h
  · simp [throw, throwThe, MonadExceptOf.throw] at h
  · rename_i hr
    split at h
    · simp [throw, throwThe, MonadExceptOf.throw] at h
    · rename_i hm
      cases doConj
      · simp only [Bool.false_eq_true, if_false] at h ⊢
        split at h
        · simp [throw, throwThe, MonadExceptOf.throw] at h
        · rename_i hok
          simp only [Except.ok.injEq] at h
          exact ⟨by simpa using hr, by simpa using hm, by simpa using hok, h.symm⟩
      · simp only [if_true] at h ⊢
        split at h
        · simp [throw, throwThe, MonadExceptOf.throw] at h
        · rename_i hok
          simp only [Except.ok.injEq] at h
          exact ⟨by simpa using hr, by simpa using hm, by simpa using hok, h.symm⟩

/-- the leg checks of `inner` give equal slices leg by leg -/
theorem slices_of_inner_checks (a b : Arr α) (doConj : Bool) (hr : a.rank = b.rank)
    (hok : (if doConj then Arr.legsEqual a.lcs b.lcs else (List.zipWith Leg.testContractible a.lcs b.lcs).all id) = true) :
    a.lcs.map Leg.slices = b.lcs.map Leg.slices := by
  have hl : a.lcs.length = b.lcs.length := by rw [lcs_length, lcs_length, hr]
  cases doConj
  · exact slices_of_all _ slices_of_testContractible _ _ hl (by simpa using hok)
  · exact slices_of_all _ slices_of_testEqual _ _ hl (by simpa [Arr.legsEqual] using hok)

end inner
end TenpyModel.C01B
