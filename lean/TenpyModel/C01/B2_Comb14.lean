import TenpyModel.C01.B2_Comb13
/-!
C01 part B2 — part 14: the inverse direction at the level of axis descriptions. `SplitSpec`: what the block list of
the split tensor `a'` has to satisfy relative to the block list of the combined tensor `r`; `split_entry`:
then `a'[idx] = r[ix idx]`. `split_data_get`: the block `blk[beg : beg + shp].reshape(block shape)` entry-wise.
-/
namespace TenpyModel.C01B2.Comb
open TenpyModel.Core TenpyModel.C01B

variable {α : Type}

/-- block index and position of the image index in the combined tensor -/
theorem spec_qw (lcs : List Leg) (hs : ∀ l ∈ lcs, l.Shape) (specs : List AxS) (hv : ∀ s ∈ specs, s.Valid lcs)
    (idx : List Nat) (hi : InRange idx (lcs.map Leg.indLen)) :
    qOf (specs.map (AxS.leg lcs)) (specIdx specs idx) = specs.map (AxS.row (qOf lcs idx))
    ∧ wOf (specs.map (AxS.leg lcs)) (specIdx specs idx)
        = specs.map (fun s => s.start (qOf lcs idx) + s.win lcs idx)
    ∧ InRange (specs.map (AxS.win lcs idx)) (specs.map (AxS.shp lcs (qOf lcs idx))) := by
  have hpl := fun s hs' => AxS.place lcs hs idx hi s (hv s hs')
  refine ⟨?_, ?_, ?_⟩
  · unfold specIdx; rw [qOf_map]
    exact List.map_congr_left (fun s hs' => by rw [(hpl s hs').2.1])
  · unfold specIdx; rw [wOf_map]
    exact List.map_congr_left (fun s hs' => by rw [(hpl s hs').2.1])
  · exact InRange_map specs _ _ (fun s hs' => (hpl s hs').2.2.1)

/-- what the blocks of the split tensor `a'` must satisfy relative to the blocks of the combined tensor `r` -/
structure SplitSpec [Zero α] (lcs : List Leg) (specs : List AxS) (r a' : Arr α) : Prop where
  key : ∀ x ∈ a'.qdata.zip a'.data, ∀ y ∈ a'.qdata.zip a'.data, x.1 = y.1 → x = y
  fwd : ∀ idx, InRange idx (lcs.map Leg.indLen) → ∀ blk, (specs.map (AxS.row (qOf lcs idx)), blk) ∈ r.qdata.zip r.data →
    ∃ d, (qOf lcs idx, d) ∈ a'.qdata.zip a'.data
      ∧ d.get 0 (wOf lcs idx) = blk.get 0 (specs.map (fun s => s.start (qOf lcs idx) + s.win lcs idx))
  bwd : ∀ e ∈ a'.qdata.zip a'.data, ∃ blk, (specs.map (AxS.row e.1), blk) ∈ r.qdata.zip r.data

section zero
variable [Zero α]

/-- **the split tensor reads its entries where the pipes' index maps say** -/
theorem split_entry (lcs : List Leg) (hs : ∀ l ∈ lcs, l.Shape) (specs : List AxS) (hv : ∀ s ∈ specs, s.Valid lcs)
    (r a' : Arr α) (hrn : r.qdata.Nodup) (hlcs : r.lcs = specs.map (AxS.leg lcs)) (hlcs' : a'.lcs = lcs)
    (hS : SplitSpec lcs specs r a') (idx : List Nat) (hi : InRange idx (lcs.map Leg.indLen)) :
    a'.entry idx = r.entry (specIdx specs idx) := by
  obtain ⟨hqr, hwr, _⟩ := spec_qw lcs hs specs hv idx hi
  rw [← hlcs] at hqr hwr
  by_cases hex : ∃ blk, (specs.map (AxS.row (qOf lcs idx)), blk) ∈ r.qdata.zip r.data
  · obtain ⟨blk, hblk⟩ := hex
    obtain ⟨d, hd, hget⟩ := hS.fwd idx hi blk hblk
    have h1 : a'.entry idx = d.get 0 (wOf lcs idx) := by
      have := entry_of_mem' a' hS.key idx d (by rw [hlcs']; exact hd)
      rw [this, hlcs']
    have h2 : r.entry (specIdx specs idx) = blk.get 0 (specs.map (fun s => s.start (qOf lcs idx) + s.win lcs idx)) := by
      have := entry_of_mem r hrn (specIdx specs idx) blk (by rw [hqr]; exact hblk)
      rw [this, hwr]
    rw [h1, h2, hget]
  · have h1 : a'.entry idx = 0 := by
      apply entry_of_not_mem'
      intro e he heq
      obtain ⟨blk, hblk⟩ := hS.bwd e he
      rw [heq, hlcs'] at hblk
      exact hex ⟨blk, hblk⟩
    have h2 : r.entry (specIdx specs idx) = 0 := by
      apply entry_of_not_mem'
      intro e he heq
      rw [hqr] at heq
      exact hex ⟨e.2, by rw [← heq]; exact he⟩
    rw [h1, h2]

theorem zipWith_add_map {β} (L : List β) (f g : β → Nat) :
    List.zipWith (· + ·) (L.map f) (L.map g) = L.map (fun s => f s + g s) := by
  induction L with
  | nil => rfl
  | cons x L ih => simp only [List.map_cons, List.zipWith_cons_cons, ih]

/-- `blk[beg : beg + shp].reshape(block shape of the source row)` entry by entry -/
theorem split_data_get (lcs : List Leg) (hs : ∀ l ∈ lcs, l.Shape) (specs : List AxS) (hv : ∀ s ∈ specs, s.Valid lcs)
    (hstd : (specs.map AxS.part).flatten = List.range lcs.length) (idx : List Nat)
    (hi : InRange idx (lcs.map Leg.indLen)) (blk : Blk α) :
    ((blk.getBlock (specs.map (AxS.start (qOf lcs idx))) (specs.map (AxS.shp lcs (qOf lcs idx)))).reshape
        (blockShapeOf lcs (qOf lcs idx))).get 0 (wOf lcs idx)
      = blk.get 0 (specs.map (fun s => s.start (qOf lcs idx) + s.win lcs idx)) := by
  obtain ⟨_, hw, _⟩ := locate_idx lcs hs idx hi
  obtain ⟨_, _, hwin⟩ := spec_qw lcs hs specs hv idx hi
  have hflat := win_flat lcs hs idx hi specs hv hstd
  have hg := Dense.get_gather 0 blk (specs.map (AxS.shp lcs (qOf lcs idx)))
    (fun i => List.zipWith (· + ·) (specs.map (AxS.start (qOf lcs idx))) i) (specs.map (AxS.win lcs idx)) hwin
  simp only [zipWith_add_map] at hg
  rw [← hg]
  have e1 := get_inRange 0 ((blk.getBlock (specs.map (AxS.start (qOf lcs idx)))
    (specs.map (AxS.shp lcs (qOf lcs idx)))).reshape (blockShapeOf lcs (qOf lcs idx))) (wOf lcs idx) hw
  have e2 := get_inRange 0 (Dense.gather 0 blk (specs.map (AxS.shp lcs (qOf lcs idx)))
    (fun i => List.zipWith (· + ·) (specs.map (AxS.start (qOf lcs idx))) i)) (specs.map (AxS.win lcs idx)) hwin
  rw [e1, e2]
  show (Dense.gather 0 blk _ _).vals.getD _ 0 = _
  simp only [Dense.reshape]
  rw [← hflat]
  rfl

end zero
end TenpyModel.C01B2.Comb
