import TenpyModel.C01.A_Project2
/-!
C01 part A — `iproject`, step 3: the loop of `iproject` over pairwise distinct axes is the iteration of the
single-axis step `Arr.proj1` (pure list lemma about the `foldl`), hence `iproject` commutes with `toDense`:
`(a.iproject masks axes).toDense = fold of Dense.compress over (bool masks, axes)`.
-/
namespace TenpyModel.Core

theorem foldl_congr_mem_pj {β γ} (l : List γ) (f g : β → γ → β) (b : β) (h : ∀ x ∈ l, ∀ acc, f acc x = g acc x) :
    l.foldl f b = l.foldl g b := by
  induction l generalizing b with
  | nil => rfl
  | cons x xs ih =>
    rw [List.foldl_cons, List.foldl_cons, h x (by simp), ih _ (fun y hy => h y (by simp [hy]))]

theorem zip_map_map_pj {β γ δ} (l : List β) (f : β → γ) (g : β → δ) :
    (l.map f).zip (l.map g) = l.map (fun x => (f x, g x)) := by
  induction l with
  | nil => rfl
  | cons x xs ih => simp [ih]

theorem mapM_ok_length_pj {ε β γ} (f : β → Except ε γ) (l : List β) (r : List γ) (h : l.mapM f = .ok r) :
    r.length = l.length := by
  induction l generalizing r with
  | nil =>
    simp only [List.mapM_nil, pure, Except.pure, Except.ok.injEq] at h
    subst h; rfl
  | cons x xs ih =>
    rw [List.mapM_cons] at h
    cases hx : f x with
    | error e => simp [hx, bind, Except.bind] at h
    | ok y =>
      cases hxs : xs.mapM f with
      | error e => simp [hx, hxs, bind, Except.bind] at h
      | ok ys =>
        simp only [hx, hxs, bind, Except.bind, pure, Except.pure, Except.ok.injEq] at h
        subst h
        simp [ih ys hxs]

theorem mapM_ok_forall_pj {ε β γ} (f : β → Except ε γ) (P : γ → Prop) (hf : ∀ x y, f x = .ok y → P y) (l : List β)
    (r : List γ) (h : l.mapM f = .ok r) : ∀ y ∈ r, P y := by
  induction l generalizing r with
  | nil =>
    simp only [List.mapM_nil, pure, Except.pure, Except.ok.injEq] at h
    subst h; simp
  | cons x xs ih =>
    rw [List.mapM_cons] at h
    cases hx : f x with
    | error e => simp [hx, bind, Except.bind] at h
    | ok y =>
      cases hxs : xs.mapM f with
      | error e => simp [hx, hxs, bind, Except.bind] at h
      | ok ys =>
        simp only [hx, hxs, bind, Except.bind, pure, Except.pure, Except.ok.injEq] at h
        subst h
        intro z hz
        rcases List.mem_cons.1 hz with rfl | hz
        · exact hf x _ hx
        · exact ih ys hxs z hz

namespace Arr
variable {α : Type}

theorem ext_pj (x y : Arr α) (h1 : x.mods = y.mods) (h2 : x.legs = y.legs) (h3 : x.qtotal = y.qtotal)
    (h4 : x.labels = y.labels) (h5 : x.qdata = y.qdata) (h6 : x.data = y.data)
    (h7 : x.qdataSorted = y.qdataSorted) : x = y := by
  cases x; cases y
  simp only at h1 h2 h3 h4 h5 h6 h7
  subst h1 h2 h3 h4 h5 h6 h7
  rfl

/-- state of the loop in `iproject`: legs, (row, original data index) -/
abbrev PSt := List ALeg × List (List Nat × Nat)

/-- the loop of `iproject` -/
def projLoop (L : List (List Bool × Nat)) (init : PSt × List (List (List Bool))) : PSt × List (List (List Bool)) :=
  L.foldl (fun (acc : PSt × List (List (List Bool))) mk =>
      let (st', bm) := iprojectStep acc.1 mk
      (st', acc.2 ++ [bm])) init

theorem projLoop_nil (init : PSt × List (List (List Bool))) : projLoop [] init = init := rfl

theorem projLoop_cons (mk : List Bool × Nat) (L : List (List Bool × Nat)) (st : PSt) (bms : List (List (List Bool))) :
    projLoop (mk :: L) (st, bms) = projLoop L ((iprojectStep st mk).1, bms ++ [(iprojectStep st mk).2]) := rfl

/-- the tensor assembled from a loop state and the collected (block masks, axis) pairs -/
def projR [Zero α] (a0 : Arr α) (st : PSt) (pairs : List (List (List Bool) × Nat)) : Arr α :=
  { a0 with legs := st.1, qdata := st.2.map (·.1),
            data := st.2.map (fun ri =>
              pairs.foldl (fun (b : Blk α) mk => b.compress mk.2 (mk.1.getD (ri.1.getD mk.2 0) []))
                (a0.data.getD ri.2 ⟨[], []⟩)) }

/-- the result of `iproject` after the argument checks -/
def projFinal [Zero α] (a : Arr α) (L : List (List Bool × Nat)) (ax : List Nat) : Arr α :=
  projR a (projLoop L ((a.legs, a.qdata.zip (List.range a.qdata.length)), [])).1
    ((projLoop L ((a.legs, a.qdata.zip (List.range a.qdata.length)), [])).2.zip ax)

theorem iprojectStep_fst_fst (st : PSt) (mk : List Bool × Nat) :
    (iprojectStep st mk).1.1 = st.1.set mk.2 (.plain ((st.1.getD mk.2 default).leg.project mk.1).2.2) := rfl

theorem iprojectStep_snd (st : PSt) (mk : List Bool × Nat) :
    (iprojectStep st mk).2 = ((st.1.getD mk.2 default).leg.project mk.1).2.1 := rfl

theorem iprojectStep_fst_snd (st : PSt) (mk : List Bool × Nat) :
    (iprojectStep st mk).1.2 = st.2.filterMap (fun ri =>
      if ((st.1.getD mk.2 default).leg.project mk.1).1.getD (ri.1.getD mk.2 0) (-1) < 0 then none
      else some (ri.1.set mk.2 (((st.1.getD mk.2 default).leg.project mk.1).1.getD (ri.1.getD mk.2 0) (-1)).toNat, ri.2)) :=
  rfl

/-- one step of the loop = one `proj1` -/
theorem projR_step [Zero α] (a0 : Arr α) (st : PSt) (pairs : List (List (List Bool) × Nat)) (mk : List Bool × Nat)
    (hk : ∀ p ∈ pairs, p.2 ≠ mk.2) :
    (projR a0 st pairs).proj1 mk
      = projR a0 (iprojectStep st mk).1 (pairs ++ [((iprojectStep st mk).2, mk.2)]) := by
  have hzip : (projR a0 st pairs).qdata.zip (projR a0 st pairs).data = st.2.map (fun ri => (ri.1,
      pairs.foldl (fun (b : Blk α) p => b.compress p.2 (p.1.getD (ri.1.getD p.2 0) [])) (a0.data.getD ri.2 ⟨[], []⟩))) :=
    zip_map_map_pj _ _ _
  have elc : (projR a0 st pairs).lc mk.2 = (st.1.getD mk.2 default).leg := rfl
  apply ext_pj
  · rfl
  · rfl
  · rfl
  · rfl
  · show List.map _ (List.filterMap _ ((projR a0 st pairs).qdata.zip (projR a0 st pairs).data)) = List.map _ _
    rw [hzip, iprojectStep_fst_snd, List.filterMap_map, List.map_filterMap, List.map_filterMap]
    congr 1
    funext ri
    show Option.map _ (if projKeepRow _ _ _ = true then _ else _) = Option.map _ (if _ then _ else _)
    unfold projKeepRow projRow
    rw [elc]
    by_cases hq : ((st.1.getD mk.2 default).leg.project mk.1).1.getD (ri.1.getD mk.2 0) (-1) < 0
    · rw [if_pos hq, if_neg (by simpa using hq)]
      rfl
    · rw [if_neg hq, if_pos (by simpa using hq)]
      rfl
  · show List.map _ (List.filterMap _ ((projR a0 st pairs).qdata.zip (projR a0 st pairs).data)) = List.map _ _
    rw [hzip, iprojectStep_fst_snd, List.filterMap_map, List.map_filterMap, List.map_filterMap]
    congr 1
    funext ri
    show Option.map _ (if projKeepRow _ _ _ = true then _ else _) = Option.map _ (if _ then _ else _)
    unfold projKeepRow projRow
    rw [elc]
    by_cases hq : ((st.1.getD mk.2 default).leg.project mk.1).1.getD (ri.1.getD mk.2 0) (-1) < 0
    · rw [if_pos hq, if_neg (by simpa using hq)]
      rfl
    · rw [if_neg hq, if_pos (by simpa using hq)]
      simp only [Option.map_some, Option.some.injEq]
      rw [List.foldl_append, List.foldl_cons, List.foldl_nil]
      congr 1
      apply foldl_congr_mem_pj
      intro p hp acc
      rw [getD_set_ne_pj _ _ _ _ _ (fun e => hk p hp e.symm)]
  · rfl

/-- the loop over pairwise distinct axes is the iteration of `proj1` -/
theorem projLoop_spec [Zero α] (a0 : Arr α) (L : List (List Bool × Nat)) :
    ∀ (st : PSt) (bms : List (List (List Bool))) (ax1 : List Nat), bms.length = ax1.length →
      (L.map (·.2)).Nodup → (∀ k ∈ L.map (·.2), k ∉ ax1) →
      projR a0 (projLoop L (st, bms)).1 ((projLoop L (st, bms)).2.zip (ax1 ++ L.map (·.2)))
        = L.foldl proj1 (projR a0 st (bms.zip ax1)) := by
  induction L with
  | nil =>
    intro st bms ax1 _ _ _
    simp [projLoop_nil]
  | cons mk L ih =>
    intro st bms ax1 hlen hnd hni
    rw [List.map_cons, List.nodup_cons] at hnd
    rw [projLoop_cons, List.foldl_cons]
    have e : ax1 ++ (mk :: L).map (·.2) = (ax1 ++ [mk.2]) ++ L.map (·.2) := by simp
    rw [e, ih _ _ (ax1 ++ [mk.2]) (by simp [hlen]) hnd.2 ?_]
    · rw [List.zip_append hlen, List.zip_cons_cons, List.zip_nil_left, projR_step]
      intro p hp e
      exact hni mk.2 (by simp) (e ▸ (List.of_mem_zip hp).2)
    · intro k hk hmem
      rcases List.mem_append.1 hmem with h1 | h1
      · exact hni k (by simp only [List.map_cons, List.mem_cons]; exact Or.inr hk) h1
      · simp only [List.mem_singleton] at h1
        exact hnd.1 (h1 ▸ hk)

theorem projR_init [Zero α] (a : Arr α) (h : a.qdata.length = a.data.length) :
    projR a (a.legs, a.qdata.zip (List.range a.qdata.length)) [] = a := by
  apply ext_pj <;> try rfl
  · show List.map _ (a.qdata.zip (List.range a.qdata.length)) = a.qdata
    exact List.map_fst_zip (by simp)
  · show List.map _ (a.qdata.zip (List.range a.qdata.length)) = a.data
    apply ext_getD _ _ ⟨[], []⟩
    · simp [h]
    · intro i hi
      simp only [List.length_map, List.length_zip, List.length_range, Nat.min_self] at hi
      rw [getD_map' _ _ i ([], 0) _ (by simp; exact hi)]
      simp only [List.foldl_nil]
      congr 1
      simp [List.getD_eq_getElem?_getD, hi]

theorem projFinal_eq [Zero α] (a : Arr α) (L : List (List Bool × Nat)) (h : a.qdata.length = a.data.length)
    (hnd : (L.map (·.2)).Nodup) : projFinal a L (L.map (·.2)) = L.foldl proj1 a := by
  have := projLoop_spec a L (a.legs, a.qdata.zip (List.range a.qdata.length)) [] [] rfl hnd (by simp)
  simp only [List.nil_append, List.zip_nil_left, projR_init a h] at this
  exact this

/-- iterating the single-axis step commutes with `toDense` -/
theorem foldl_proj1_spec [Zero α] (L : List (List Bool × Nat)) : ∀ (a : Arr α), a.WF0 → (L.map (·.2)).Nodup →
    (∀ mk ∈ L, mk.2 < a.rank ∧ mk.1.length = a.shape.getD mk.2 0) →
    (L.foldl proj1 a).toDense = L.foldl (fun d mk => d.compress mk.2 mk.1) a.toDense ∧ (L.foldl proj1 a).WF0
      ∧ (L.foldl proj1 a).labels = a.labels ∧ (L.foldl proj1 a).qtotal = a.qtotal
      ∧ (L.foldl proj1 a).qdataSorted = a.qdataSorted := by
  induction L with
  | nil => intro a ha _ _; exact ⟨rfl, ha, rfl, rfl, rfl⟩
  | cons mk L ih =>
    intro a ha hnd hL
    rw [List.map_cons, List.nodup_cons] at hnd
    obtain ⟨hk, hm⟩ := hL mk (by simp)
    obtain ⟨s1, s2⟩ := proj1_spec a mk.1 mk.2 ha hk hm
    have := ih (a.proj1 mk) s2 hnd.2 (by
      intro mk' hmk'
      obtain ⟨hk', hm'⟩ := hL mk' (by simp [hmk'])
      have hne : mk.2 ≠ mk'.2 := fun e => hnd.1 (e ▸ List.mem_map_of_mem hmk')
      refine ⟨by rw [proj1_rank]; exact hk', ?_⟩
      rw [proj1_shape, getD_set_ne_pj _ _ _ _ _ hne]
      exact hm')
    rw [List.foldl_cons, List.foldl_cons, ← s1]
    exact this

/-- after the argument checks `iproject` returns `projFinal` -/
theorem iproject_ok [Zero α] (a r : Arr α) (masks : List Mask) (axes : List Ax) (ax : List Nat)
    (hax : a.getLegIndices axes = .ok ax) (bmasks : List (List Bool))
    (hbm : (masks.zip ax).mapM (fun mk => mk.1.toBools (a.shape.getD mk.2 0)) = .ok bmasks)
    (h : a.iproject masks axes = .ok r) :
    ax.length = masks.length ∧
      ((ax = [] ∧ r = a) ∨ ((∀ mk ∈ bmasks.zip ax, mk.1.length = a.shape.getD mk.2 0)
        ∧ r = projFinal a (bmasks.zip ax) ax)) := by
  unfold iproject at h
  simp only [hax, bind, Except.bind, pure, Except.pure] at h
  split at h
  · simp [throw, throwThe, MonadExceptOf.throw] at h
  · rename_i hlen
    refine ⟨by simpa using hlen, ?_⟩
    split at h
    · rename_i he
      simp only [Except.ok.injEq] at h
      exact Or.inl ⟨by simpa using he, h.symm⟩
    · simp only [hbm] at h
      split at h
      · simp [throw, throwThe, MonadExceptOf.throw] at h
      · rename_i hany
        simp only [Except.ok.injEq] at h
        refine Or.inr ⟨?_, h.symm⟩
        intro mk hmk
        simp only [ne_eq, decide_not, List.any_eq_true, Bool.not_eq_true', decide_eq_false_iff_not, not_exists,
          not_and, Decidable.not_not] at hany
        exact hany mk hmk

/-- **`iproject`** with pairwise distinct axes commutes with `toDense`: the dense tensor is compressed along each
axis with the corresponding boolean mask; labels and total charge are unchanged; the storage invariants `WF0` are
preserved (the cached-sortedness claim is dealt with in `A_Project4`) -/
theorem toDense_iproject_wf0 [Zero α] (a r : Arr α) (masks : List Mask) (axes : List Ax) (ha : a.WF0)
    (ax : List Nat) (hax : a.getLegIndices axes = .ok ax) (hnd : ax.Nodup)
    (bmasks : List (List Bool))
    (hbm : (masks.zip ax).mapM (fun mk => mk.1.toBools (a.shape.getD mk.2 0)) = .ok bmasks)
    (h : a.iproject masks axes = .ok r) :
    r.toDense = (bmasks.zip ax).foldl (fun d mk => d.compress mk.2 mk.1) a.toDense ∧ r.labels = a.labels
      ∧ r.qtotal = a.qtotal ∧ r.WF0 ∧ r.qdataSorted = a.qdataSorted
      ∧ r = (bmasks.zip ax).foldl proj1 a := by
  obtain ⟨hlen, hcase⟩ := iproject_ok a r masks axes ax hax bmasks hbm h
  have hbl : bmasks.length = ax.length := by
    rw [mapM_ok_length_pj _ _ _ hbm, List.length_zip, hlen, Nat.min_self]
  have hsnd : (bmasks.zip ax).map (·.2) = ax := List.map_snd_zip (by omega)
  rcases hcase with ⟨he, hr⟩ | ⟨hm, hr⟩
  · subst he
    subst hr
    rw [List.zip_nil_right]
    exact ⟨rfl, rfl, rfl, ha, rfl, rfl⟩
  · have hlt : ∀ k ∈ ax, k < a.rank :=
      mapM_ok_forall_pj a.getLegIndex (fun k => k < a.rank) (fun x k hk => getLegIndex_lt_pj a ha.1 x k hk) axes ax hax
    have hfin : r = (bmasks.zip ax).foldl proj1 a := by
      have := projFinal_eq a (bmasks.zip ax) ha.2.1 (by rw [hsnd]; exact hnd)
      rw [hsnd] at this
      rw [hr]
      exact this
    obtain ⟨t1, t2, t3, t4, t5⟩ := foldl_proj1_spec (bmasks.zip ax) a ha (by rw [hsnd]; exact hnd)
      (fun mk hmk => ⟨hlt _ (List.of_mem_zip hmk).2, hm mk hmk⟩)
    rw [hfin]
    exact ⟨t1, t3, t4, t2, t5, rfl⟩

/-- **`iproject` commutes with `toDense`** (pairwise distinct axes) -/
theorem toDense_iproject [Zero α] (a r : Arr α) (masks : List Mask) (axes : List Ax) (ha : a.WF)
    (ax : List Nat) (hax : a.getLegIndices axes = .ok ax) (hnd : ax.Nodup)
    (bmasks : List (List Bool))
    (hbm : (masks.zip ax).mapM (fun mk => mk.1.toBools (a.shape.getD mk.2 0)) = .ok bmasks)
    (h : a.iproject masks axes = .ok r) :
    r.toDense = (bmasks.zip ax).foldl (fun d mk => d.compress mk.2 mk.1) a.toDense ∧ r.labels = a.labels
      ∧ r.qtotal = a.qtotal := by
  obtain ⟨t1, t2, t3, _⟩ := toDense_iproject_wf0 a r masks axes ha.wf0 ax hax hnd bmasks hbm h
  exact ⟨t1, t2, t3⟩

theorem getLegIndices_single (a : Arr α) (x : Ax) (k : Nat) (hk : a.getLegIndex x = .ok k) :
    a.getLegIndices [x] = .ok [k] := by
  unfold getLegIndices
  rw [List.mapM_cons, List.mapM_nil]
  simp only [hk, bind, Except.bind, pure, Except.pure]

/-- single axis: `np.compress(mask, ·, axis)` -/
theorem toDense_iproject_single_wf0 [Zero α] (a r : Arr α) (m : Mask) (x : Ax) (ha : a.WF) (k : Nat)
    (hk : a.getLegIndex x = .ok k) (bmask : List Bool) (hbm : m.toBools (a.shape.getD k 0) = .ok bmask)
    (h : a.iproject [m] [x] = .ok r) :
    r.toDense = a.toDense.compress k bmask ∧ r.labels = a.labels ∧ r.qtotal = a.qtotal ∧ r.WF0
      ∧ r.qdataSorted = a.qdataSorted ∧ r = a.proj1 (bmask, k) := by
  have hbm' : ([m].zip [k]).mapM (fun mk => mk.1.toBools (a.shape.getD mk.2 0)) = .ok [bmask] := by
    rw [List.zip_cons_cons, List.zip_nil_left, List.mapM_cons, List.mapM_nil]
    simp only [hbm, bind, Except.bind, pure, Except.pure]
  exact toDense_iproject_wf0 a r [m] [x] ha.wf0 [k] (getLegIndices_single a x k hk) (by simp) [bmask] hbm' h

end Arr
end TenpyModel.Core
