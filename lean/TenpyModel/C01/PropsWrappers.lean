import TenpyModel.Core.ArrChecked
/-!
C01 — the checked entry points of `Core/ArrChecked.lean` (used by the driver) refine the base operations: whenever
a wrapper succeeds, the base operation succeeds with the same result, so every `C01_*` / `C02_*` theorem about the
base operation applies to what the driver computes. Where a wrapper adds behaviour (shallow copy, sub-tensor),
that behaviour is stated.
-/
open TenpyModel.Core

theorem C01_wrapper_concatenate {α : Type} (same : Bool) (arrays : List (Arr α)) (axis : Ax) (r : Arr α)
    (h : Arr.concatenateChecked same arrays axis = .ok r) : Arr.concatenate arrays axis = .ok r := by
  unfold Arr.concatenateChecked at h
  split at h
  · simp at h
  · split at h
    · simp at h
    · split at h
      · simp at h
      · rename_i r' hc
        split at h
        · simp at h
        · split at h
          · simp at h
          · simp only [Except.ok.injEq] at h
            rw [hc, h]

/-- a successful checked concatenation has no operand of lower rank and compatible charge names -/
theorem C01_wrapper_concatenate_rank {α : Type} (same : Bool) (first : Arr α) (rest : List (Arr α)) (axis : Ax)
    (r : Arr α) (k : Nat) (hk : first.getLegIndex axis = .ok k)
    (h : Arr.concatenateChecked same (first :: rest) axis = .ok r) :
    same = true ∧ ∀ a ∈ first :: rest, k < a.rank := by
  unfold Arr.concatenateChecked at h
  simp only [hk] at h
  split at h
  · simp at h
  · split at h
    · simp at h
    · rename_i hs
      split at h
      · simp at h
      · rename_i hany
        refine ⟨by simpa using hs, ?_⟩
        intro a ha
        have := hany
        simp only [List.any_eq_true, decide_eq_true_eq, not_exists, not_and, Nat.not_le] at this
        exact this a ha

theorem C01_wrapper_sortLegcharge {α : Type} [Zero α] (a : Arr α) (sort bunch : List Bool)
    (hl : sort.length = a.rank ∧ bunch.length = a.rank)
    (hsel : ∃ k, k < a.rank ∧ (sort.getD k false || bunch.getD k false) = true) :
    a.sortLegchargeOrCopy sort bunch = a.sortLegcharge sort bunch := by
  obtain ⟨k, hk, hs⟩ := hsel
  unfold Arr.sortLegchargeOrCopy
  have hlen : ¬ (sort.length ≠ a.rank ∨ bunch.length ≠ a.rank) := by simp [hl.1, hl.2]
  · rw [if_neg hlen]
    have hall : ((List.range a.rank).all fun k => !(sort.getD k false || bunch.getD k false)) = false := by
      rw [List.all_eq_false]
      refine ⟨k, List.mem_range.2 hk, ?_⟩
      rw [hs]
      decide
    rw [hall]
    rfl

/-- nothing selected: the tensor itself (shallow copy) and identity permutations -/
theorem C01_wrapper_sortLegcharge_none {α : Type} [Zero α] (a : Arr α) :
    a.sortLegchargeOrCopy (List.replicate a.rank false) (List.replicate a.rank false)
      = .ok (a.shape.map List.range, a) := by
  unfold Arr.sortLegchargeOrCopy
  have hall : ((List.range a.rank).all fun k =>
      !((List.replicate a.rank false).getD k false || (List.replicate a.rank false).getD k false)) = true := by
    simp only [List.all_eq_true, List.mem_range]
    intro k hk
    simp [List.getD_eq_getElem?_getD, List.getElem?_replicate, hk]
  have hlen : ¬ ((List.replicate a.rank false).length ≠ a.rank ∨ (List.replicate a.rank false).length ≠ a.rank) := by
    simp
  rw [if_neg hlen, if_pos hall]

theorem C01_wrapper_getItemInt_full {α : Type} [Zero α] (a : Arr α) (inds : List Int) (h : inds.length = a.rank)
    (x : α) (hx : a.getItemInt inds = .ok x) : a.getItemIntPartial inds = .ok (.scalar x) := by
  unfold Arr.getItemIntPartial
  simp [h, hx]

/-- fewer integers than legs: the sub-tensor obtained by `take_slice` on the leading legs -/
theorem C01_wrapper_getItemInt_partial {α : Type} [Zero α] (a : Arr α) (inds : List Int) (h : inds.length < a.rank)
    (r : Arr α) (hr : a.takeSlice inds ((List.range inds.length).map (fun k => Ax.idx (Int.ofNat k))) = .ok r) :
    a.getItemIntPartial inds = .ok (.arr r) := by
  unfold Arr.getItemIntPartial
  have h1 : ¬ inds.length > a.rank := by omega
  have h2 : ¬ inds.length = a.rank := by omega
  rw [if_neg h1, if_neg h2]
  have hr' : a.takeSlice inds (List.map (fun k => Ax.idx (Int.ofNat k)) (List.range inds.length)) = .ok r := hr
  rw [hr']

theorem C01_wrapper_combineLegs {α : Type} [Zero α] (a r : Arr α) (cl : List (List Ax)) (na : Option (List Int))
    (pipes : Option (List (Option ALeg))) (qc : List (Option Int))
    (h : a.combineLegsChecked cl na pipes qc = .ok r) : a.combineLegs cl na pipes qc = .ok r := by
  unfold Arr.combineLegsChecked at h
  split at h
  · simp at h
  · split at h
    · simp at h
    · exact h

theorem C01_wrapper_addTrivialLeg {α : Type} (a r : Arr α) (axis : Int) (label : Label) (qconj : Int)
    (h : a.addTrivialLegChecked axis label qconj = .ok r) :
    a.addTrivialLeg axis label qconj = .ok r ∧ (qconj = 1 ∨ qconj = -1) := by
  unfold Arr.addTrivialLegChecked at h
  split at h
  · simp at h
  · rename_i hq
    refine ⟨h, ?_⟩
    have hq' : (qconj = 1 → False) → qconj = -1 := by simpa [Arr.qconjOK] using hq
    by_cases h1 : qconj = 1
    · exact Or.inl h1
    · exact Or.inr (hq' h1)

/-- the name-aware binary operations succeed only with compatible charge names and then agree with the base ones -/
theorem C01_wrapper_thenNames {β : Type} (same : Bool) (x : Except Err β) (r : β)
    (h : Arr.thenNames same x = .ok r) : x = .ok r ∧ same = true := by
  unfold Arr.thenNames at h
  split at h
  · simp at h
  · split at h
    · rename_i hs
      simp only [Except.ok.injEq] at h
      exact ⟨by rw [h], hs⟩
    · simp at h

theorem C01_wrapper_tensordot {α : Type} [Add α] [Mul α] [Zero α] (same cy : Bool) (a b : Arr α)
    (axes : Arr.DotAxes) (v : Val α) (h : Arr.tensordotNamed same cy a b axes = .ok v) :
    Arr.tensordot cy a b axes = .ok v ∧ same = true := by
  unfold Arr.tensordotNamed at h
  split at h
  · simp at h
  · rename_i hs
    exact ⟨h, by simpa using hs⟩

theorem C01_wrapper_outer {α : Type} [Add α] [Mul α] [Zero α] (same : Bool) (a b r : Arr α)
    (h : Arr.outerNamed same a b = .ok r) : Arr.outer a b = .ok r ∧ same = true := by
  unfold Arr.outerNamed at h
  split at h
  · simp at h
  · rename_i hs
    exact ⟨h, by simpa using hs⟩

/-- non-vacuity: names are compatible when equal or missing, not when both are given and differ -/
example : namesCompatible ["N", ""] ["N", "Sz"] = true ∧ namesCompatible ["N"] ["M"] = false := by decide
