import TenpyModel.C01.B2_Comb24
/-!
C01 part B2 — part 25 (labels): the labels of the result of `combineStd`, axis by axis: a pipe axis carries
`_combine_leg_labels` of the labels of its group, a spectator axis inherits its label (`'?#'` placeholders of
anonymous legs become `None` again).
-/
namespace TenpyModel.C01B2.Comb
open TenpyModel.Core TenpyModel.C01B

variable {α : Type}

/-- the label list after the loop `labels[na : na + p.nlegs] = [plab]` -/
def cLabs (cl : List (List Nat)) (na : List Nat) (ps : List ALeg) (labels : List String) : List String :=
  ((na.zip ps).zip (cl.map (fun c => Label.combine (pick labels c "")))).foldl (fun (ls : List String) npl =>
    ls.take npl.1.1 ++ npl.2 :: ls.drop (npl.1.1 + (match npl.1.2 with | .pipe p _ => p.nlegs | .plain _ => 1))) labels

/-- `'?#'` placeholder → `None` -/
def mkLabel (s : String) : Label := if s.toList.head? = some '?' then none else some s

section zero
variable [Zero α]

/-- the labels of the result of `combineStd` -/
theorem combineStd_labels (a : Arr α) (cl : List (List Nat)) (na : List Nat) (ps : List ALeg)
    (labels : List String) (r : Arr α) (h : a.combineStd cl na ps labels = .ok r) :
    r.labels = (List.range (cLabs cl na ps labels).length).map (fun i =>
      if (cNonNew (cLegs a cl na ps).length na).contains i ∧ ((cLabs cl na ps labels).getD i "").toList.head? = some '?'
      then none else some ((cLabs cl na ps labels).getD i "")) := by
  unfold Arr.combineStd at h
  simp only [bind, Except.bind, pure, Except.pure] at h
  split at h
  · simp at h
  · rename_i v hz
    obtain ⟨hv, _⟩ := zeros_ok2 _ _ _ _ _ hz
    clear hz
    subst hv
    split at h
    · simp only [Except.ok.injEq] at h
      subst h
      rfl
    · split at h
      · split at h
        · simp only [Except.ok.injEq] at h
          subst h
          rfl
        · simp only [Except.ok.injEq] at h
          subst h
          rfl
      · simp only [Except.ok.injEq] at h
        subst h
        rfl

end zero

theorem zip_eq_range {β γ} (l1 : List β) (l2 : List γ) (d1 : β) (d2 : γ) (h : l1.length = l2.length) :
    l1.zip l2 = (List.range l1.length).map (fun g => (l1.getD g d1, l2.getD g d2)) := by
  have : l1.zip l2 = List.zipWith Prod.mk l1 l2 := rfl
  rw [this, zipWith_eq_range Prod.mk l1 l2 d1 d2 h]

theorem foldl_congr_mem {β γ} (f g : β → γ → β) (l : List γ) (init : β) (h : ∀ b, ∀ x ∈ l, f b x = g b x) :
    l.foldl f init = l.foldl g init := by
  induction l generalizing init with
  | nil => rfl
  | cons x l ih =>
    rw [List.foldl_cons, List.foldl_cons, h init x (by simp)]
    exact ih _ (fun b y hy => h b y (by simp [hy]))

theorem foldl_zip3 {σ : Type} (na : List Nat) : ∀ (ps : List ALeg) (pls : List String)
    (F : σ → (Nat × ALeg) × String → σ) (init : σ) (G : σ → Nat → σ),
    ps.length = na.length → pls.length = na.length →
    (∀ s g, g < na.length → F s ((na.getD g 0, ps.getD g default), pls.getD g "") = G s (na.getD g 0)) →
    ((na.zip ps).zip pls).foldl F init = na.foldl G init := by
  induction na with
  | nil => intro ps pls F init G _ _ _; rfl
  | cons x na ih =>
    intro ps pls F init G h1 h2 hFG
    cases ps with
    | nil => simp at h1
    | cons p ps =>
      cases pls with
      | nil => simp at h2
      | cons l pls =>
        simp only [List.zip_cons_cons, List.foldl_cons]
        have := hFG init 0 (by simp)
        simp only [List.getD_cons_zero] at this
        rw [this]
        exact ih ps pls F _ G (by simpa using h1) (by simpa using h2) (fun s g hg => by
          have := hFG s (g + 1) (by simpa using hg)
          simpa using this)

namespace CS
variable {a r : Arr α} {cl : List (List Nat)} {na : List Nat} {ps : List ALeg}

/-- number of incoming legs of the pipe of group `g` -/
theorem nlegs_g (c : CS a r cl na ps) (g : Nat) (hg : g < na.length) :
    (match ps.getD g default with | .pipe p _ => p.nlegs | .plain _ => 1) = (cl.getD g []).length := by
  obtain ⟨qc, so, bu, e⟩ := c.pipes g (by rw [← c.hl1]; exact hg)
  rw [e]
  show (Pipe.init _ qc so bu).legs.length = _
  rw [Pipe.init_legs, pick_length]

/-- source axes behind result axis `k` -/
def partK (c : CS a r cl na ps) (k : Nat) : List Nat := (c.specK k).part

theorem partK_new (c : CS a r cl na ps) (k : Nat) (hc : na.contains k = true) :
    c.partK k = cl.getD (na.idxOf k) [] := by
  unfold partK specK cSpecK
  rw [if_pos hc]; rfl

theorem partK_old (c : CS a r cl na ps) (k : Nat) (hc : ¬ na.contains k = true) :
    c.partK k = [(cNonComb a.rank cl).getD ((cNonNew c.n na).idxOf k) 0] := by
  unfold partK specK cSpecK
  rw [if_neg hc]; rfl

theorem flatten_partK {β} (c : CS a r cl na ps) (l : List β) (d : β) (hl : l.length = a.rank) :
    ((List.range c.n).map (fun k => pick l (c.partK k) d)).flatten = l := by
  have := flatten_parts c.specs l d (by rw [hl]; exact c.parts)
  rw [c.specs_map] at this
  exact this

/-- the label loop of `combine_legs` in closed form -/
theorem cLabs_eq (c : CS a r cl na ps) (labels : List String) (hl : labels.length = a.rank) :
    cLabs cl na ps labels = (List.range c.n).map (fun k =>
      if na.contains k then Label.combine (pick labels (cl.getD (na.idxOf k) []) "")
      else labels.getD ((cNonComb a.rank cl).getD ((cNonNew c.n na).idxOf k) 0) "") := by
  unfold cLabs
  rw [foldl_zip3 na ps (cl.map (fun c => Label.combine (pick labels c ""))) _ labels
    (fun (ls : List String) k => ls.take k ++ Label.combine (pick labels (cl.getD (na.idxOf k) []) "") ::
      ls.drop (k + (pick labels (c.partK k) "").length)) (by rw [c.hl1, c.hl2]) (by simp [c.hl1])]
  · have hcf := collapse_fold c.n (fun k => pick labels (c.partK k) "")
      (fun k => Label.combine (pick labels (cl.getD (na.idxOf k) []) "")) na c.std.1 c.std.2.1 (by
        intro k hc _
        rw [pick_length, c.partK_old k hc]
        rfl)
    rw [c.flatten_partK labels "" hl] at hcf
    rw [hcf]
    have : (List.range c.n).map (fun k => if na.contains k then
          [Label.combine (pick labels (cl.getD (na.idxOf k) []) "")] else pick labels (c.partK k) "")
        = (List.range c.n).map (fun k => [if na.contains k then Label.combine (pick labels (cl.getD (na.idxOf k) []) "")
            else labels.getD ((cNonComb a.rank cl).getD ((cNonNew c.n na).idxOf k) 0) ""]) := by
      apply List.map_congr_left
      intro k _
      by_cases hc : na.contains k = true
      · rw [if_pos hc, if_pos hc]
      · rw [if_neg hc, if_neg hc, c.partK_old k hc]
        rfl
    rw [this, flatten_map_singleton]
  · intro ls g hg
    simp only
    rw [c.nlegs_g g hg, getD_map' _ _ g [] "" (by rw [← c.hl1]; exact hg), c.idxOf_na g hg,
      c.partK_new _ (c.contains_na g hg), c.idxOf_na g hg, pick_length]

end CS
end TenpyModel.C01B2.Comb
