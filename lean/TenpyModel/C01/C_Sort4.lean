import TenpyModel.C01.C_Sort3
import TenpyModel.C01.B2_Comb29
/-!
C01 part C — `sort_legcharge`, part 4: the `combine_legs` call made by `sort_legcharge` — groups `[[k] for k in axes]`
for an ascending list of axes — needs no transposition: `_combine_legs_new_axes` returns `new_axes = axes`,
`transp = arange(rank)`, the call is in standard form, and result axis `k` comes from source axis `k`.
-/
namespace TenpyModel.C01C.SortLc
open TenpyModel.Core TenpyModel.C01B TenpyModel.C01B2.Comb

/-- the groups of the call: one singleton per selected axis -/
def sGroups (axes : List Nat) : List (List Nat) := axes.map (fun k => [k])

theorem sGroups_flatten (axes : List Nat) : (sGroups axes).flatten = axes := by
  unfold sGroups
  induction axes with
  | nil => rfl
  | cons x xs ih => simp [ih]

theorem sGroups_length (axes : List Nat) : (sGroups axes).length = axes.length := by simp [sGroups]

theorem sGroups_getD (axes : List Nat) (g : Nat) (hg : g < axes.length) : (sGroups axes).getD g [] = [axes.getD g 0] := by
  unfold sGroups
  rw [getD_map' _ _ g 0 [] hg]

/-- spectator axes = the axes that are not selected -/
theorem cNonComb_sel (rank : Nat) (axes : List Nat) :
    cNonComb rank (sGroups axes) = cNonNew rank axes := by
  unfold cNonComb cNonNew
  rw [sGroups_flatten]

theorem range_filter_lt (n x : Nat) (hx : x ≤ n) : (List.range n).filter (· < x) = List.range x := by
  obtain ⟨d, rfl⟩ : ∃ d, n = x + d := ⟨n - x, by omega⟩
  rw [List.range_add, List.filter_append]
  have h1 : (List.range x).filter (· < x) = List.range x :=
    List.filter_eq_self.2 (fun a ha => by simpa using List.mem_range.1 ha)
  have h2 : ((List.range d).map (x + ·)).filter (· < x) = [] := by
    apply List.filter_eq_nil_iff.2
    intro a ha
    obtain ⟨b, _, rfl⟩ := List.mem_map.1 ha
    simp
  rw [h1, h2, List.append_nil]

theorem nonNew_filter_lt (rank : Nat) (axes : List Nat) (x : Nat) (hx : x ≤ rank) :
    (cNonNew rank axes).filter (· < x) = (List.range x).filter (fun i => !axes.contains i) := by
  unfold cNonNew
  rw [List.filter_filter, ← range_filter_lt rank x hx, List.filter_filter]
  apply List.filter_congr
  intro a _
  exact Bool.and_comm _ _

section asc
variable (rank : Nat) (axes : List Nat) (hasc : axes.Pairwise (· < ·)) (hlt : ∀ x ∈ axes, x < rank)
include hasc hlt

omit hlt in
theorem sel_nodup : axes.Nodup := hasc.imp (fun h => Nat.ne_of_lt h)

theorem nonNew_length_add : (cNonNew rank axes).length + axes.length = rank := by
  have := count_nonNew axes (sel_nodup axes hasc) rank
  have f : axes.filter (· < rank) = axes := List.filter_eq_self.2 (fun p hp => by simpa using hlt p hp)
  rw [f] at this
  exact this

/-- `new_axes` computed by `_combine_legs_new_axes` for singleton groups at ascending axes: the axes themselves -/
theorem newAxes_sel_na :
    (axes.map (fun x => ((cNonNew rank axes).filter (· < x)).length + (axes.filter (· < x)).length)) = axes := by
  conv => rhs; rw [← List.map_id axes]
  apply List.map_congr_left
  intro x hx
  rw [nonNew_filter_lt rank axes x (Nat.le_of_lt (hlt x hx))]
  exact count_nonNew axes (sel_nodup axes hasc) x

omit hlt in
theorem argsort_sel : Arr.argsortInt (axes.map Int.ofNat) = List.range axes.length := by
  unfold Arr.argsortInt
  rw [lexsort_of_sorted]
  · simp
  · rw [List.map_map, List.pairwise_map]
    refine hasc.imp ?_
    intro x y hxy
    apply (TenpyModel.C01B2.Comb.lexLE_single _ _).2
    show (x : Int) ≤ (y : Int)
    omega

/-- the source axes behind the result axes: axis `k` comes from axis `k` -/
theorem cParts_sel :
    cParts ((cNonNew rank axes).length + (sGroups axes).length) (sGroups axes) (cNonNew rank axes) axes
      = (List.range rank).map (fun k => [k]) := by
  rw [sGroups_length, nonNew_length_add rank axes hasc hlt]
  unfold cParts
  apply List.map_congr_left
  intro k hk
  have hk' : k < rank := List.mem_range.1 hk
  by_cases hc : axes.contains k = true
  · rw [if_pos hc]
    have hm : k ∈ axes := by simpa using hc
    have hg := List.idxOf_lt_length_of_mem hm
    rw [sGroups_getD axes _ hg, getD_lt axes _ 0 hg, List.getElem_idxOf hg]
  · rw [if_neg hc]
    have hm : k ∈ cNonNew rank axes := by
      unfold cNonNew
      exact List.mem_filter.2 ⟨hk, by simpa using hc⟩
    have hg := List.idxOf_lt_length_of_mem hm
    rw [getD_lt _ _ 0 hg, List.getElem_idxOf hg]

/-- the call is in standard form -/
theorem stdForm_sel : StdForm rank (sGroups axes) axes := by
  unfold StdForm
  rw [cNonComb_sel]
  refine ⟨hasc, ?_, ?_⟩
  · intro x hx
    rw [sGroups_length, nonNew_length_add rank axes hasc hlt]
    exact hlt x hx
  · rw [cParts_sel rank axes hasc hlt]
    exact sGroups_flatten _

/-- `_combine_legs_new_axes(combine_legs=[[k] for k in axes], new_axes=None)` = `(axes, arange(rank))` -/
theorem newAxes_sel : Arr.combineNewAxes rank (sGroups axes) none = .ok (axes, List.range rank) := by
  obtain ⟨na, transp, h⟩ : ∃ na transp, Arr.combineNewAxes rank (sGroups axes) none = .ok (na, transp) := ⟨_, _, rfl⟩
  have hna : na = axes := by
    have h' := h
    simp only [Arr.combineNewAxes, bind, Except.bind, pure, Except.pure, Except.ok.injEq, Prod.mk.injEq] at h'
    rw [← h'.1]
    have e1 : (sGroups axes).map (fun c => c.headD 0) = axes := by
      unfold sGroups
      rw [List.map_map]
      conv => rhs; rw [← List.map_id axes]
      apply List.map_congr_left
      intro x _
      rfl
    rw [e1]
    have := newAxes_sel_na rank axes hasc hlt
    rw [← cNonComb_sel] at this
    exact this
  subst hna
  obtain ⟨_, _, htr⟩ := combineNewAxes_unfold rank (sGroups na) none na transp h
  have ht : transp = List.range rank := by
    rw [htr]
    unfold cT
    rw [foldl_order_insFold na (sGroups na) [], argsort_sel na hasc]
    have e2 : pick (sGroups na) (List.range na.length) [] = sGroups na := by
      have := pick_range (sGroups na) ([] : List Nat)
      rwa [sGroups_length] at this
    rw [pick_range, e2, cNonComb_sel]
    have := cParts_eq_insFold (sGroups na) (cNonNew rank na) na (sGroups_length na).symm hasc
      (by intro x hx; rw [sGroups_length, nonNew_length_add rank na hasc hlt]; exact hlt x hx)
    rw [← this, cParts_sel rank na hasc hlt]
    exact sGroups_flatten _
  rw [h, ht]

end asc

end TenpyModel.C01C.SortLc
