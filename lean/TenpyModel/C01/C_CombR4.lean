import TenpyModel.C01.C_CombR1
/-!
C01 part C — `split_legs` on reference objects, part 1 (pure list combinatorics): a list cut into `n` consecutive
segments of widths `w 0, …, w (n-1)` (`segOff` = where a segment starts, `segPart` = its positions). With `na` the
(ascending) segments that are "groups" and all other segments of width 1: the groups `na.map segPart` and the new
axes `na` are a `combine_legs` call in standard form (`segs_stdForm`) on a tensor of rank `segOff w n`, whose spectator
axes are the starts of the other segments (`segs_nonComb`).
-/
namespace TenpyModel.C01C.CombR
open TenpyModel.Core TenpyModel.C01B TenpyModel.C01B2 TenpyModel.C01B2.Comb

/-- start of segment `k`: the sum of the widths before it -/
def segOff (w : Nat → Nat) : Nat → Nat
  | 0 => 0
  | k + 1 => segOff w k + w k

/-- the positions of segment `k` -/
def segPart (w : Nat → Nat) (k : Nat) : List Nat := List.range' (segOff w k) (w k)

theorem segOff_le (w : Nat → Nat) (j k : Nat) (h : j < k) : segOff w j + w j ≤ segOff w k := by
  induction k with
  | zero => omega
  | succ k ih =>
    show _ ≤ segOff w k + w k
    rcases Nat.lt_succ_iff_lt_or_eq.1 h with h' | rfl
    · have := ih h'; omega
    · omega

theorem segOff_mono (w : Nat → Nat) (j k : Nat) (h : j ≤ k) : segOff w j ≤ segOff w k := by
  rcases Nat.lt_or_eq_of_le h with h' | rfl
  · have := segOff_le w j k h'; omega
  · omega

/-- the segments tile `0 … segOff w n` -/
theorem segs_flatten (w : Nat → Nat) (n : Nat) :
    ((List.range n).map (segPart w)).flatten = List.range' 0 (segOff w n) := by
  induction n with
  | zero => rfl
  | succ n ih =>
    rw [List.range_succ, List.map_append, List.flatten_append, ih]
    simp only [List.map_cons, List.map_nil, List.flatten_cons, List.flatten_nil, List.append_nil, segPart]
    have := @List.range'_append_1 0 (segOff w n) (w n)
    rw [Nat.zero_add] at this
    exact this

theorem segs_length {β} (w : Nat → Nat) (segs : Nat → List β) (n : Nat) (hw : ∀ k, k < n → (segs k).length = w k) :
    ((List.range n).map segs).flatten.length = segOff w n := by
  induction n with
  | zero => rfl
  | succ n ih =>
    rw [List.range_succ, List.map_append, List.flatten_append, List.length_append,
      ih (fun k hk => hw k (by omega))]
    simp only [List.map_cons, List.map_nil, List.flatten_cons, List.flatten_nil, List.append_nil]
    rw [hw n (by omega)]
    rfl

/-- the piece of a concatenation on the positions of segment `k` -/
theorem pick_seg {β} (w : Nat → Nat) (segs : Nat → List β) (d : β) (n : Nat)
    (hw : ∀ k, k < n → (segs k).length = w k) (k : Nat) (hk : k < n) :
    pick ((List.range n).map segs).flatten (segPart w k) d = segs k := by
  have := pick_pieces_aux (segPart w) segs d (List.range n) [] (segOff w n) []
    (by rw [segs_flatten]; rfl)
    (fun s hs => by rw [hw s (List.mem_range.1 hs)]; simp [segPart]) k (List.mem_range.2 hk)
  simpa using this

theorem mem_segPart (w : Nat → Nat) (k x : Nat) : x ∈ segPart w k ↔ segOff w k ≤ x ∧ x < segOff w k + w k := by
  unfold segPart
  exact List.mem_range'_1

/-- different segments are disjoint -/
theorem segPart_disjoint (w : Nat → Nat) (j k x : Nat) (hj : x ∈ segPart w j) (hk : x ∈ segPart w k) : j = k := by
  rw [mem_segPart] at hj hk
  rcases Nat.lt_trichotomy j k with h | h | h
  · have := segOff_le w j k h; omega
  · exact h
  · have := segOff_le w k j h; omega

theorem flatten_ite_singleton {β} (L : List Nat) (p : Nat → Bool) (f : Nat → β) :
    (L.map (fun k => if p k = true then [] else [f k])).flatten = (L.filter (fun k => !p k)).map f := by
  induction L with
  | nil => rfl
  | cons x L ih =>
    simp only [List.map_cons, List.flatten_cons, ih, List.filter_cons]
    by_cases hp : p x = true
    · simp [hp]
    · simp [hp]

section groups
variable (w : Nat → Nat) (n : Nat) (na : List Nat)

/-- positions in `na` index their own element -/
theorem na_getD_idxOf (k : Nat) (hk : na.contains k = true) : na.getD (na.idxOf k) 0 = k := by
  have hm : k ∈ na := by simpa using hk
  have hlt := List.idxOf_lt_length_of_mem hm
  rw [getD_lt _ _ _ hlt]
  exact List.getElem_idxOf hlt

theorem groups_getD (k : Nat) (hk : na.contains k = true) :
    (na.map (segPart w)).getD (na.idxOf k) [] = segPart w k := by
  have hm : k ∈ na := by simpa using hk
  rw [getD_map' _ _ _ 0 [] (List.idxOf_lt_length_of_mem hm), na_getD_idxOf na k hk]

/-- the spectator axes of the standard-form call are the starts of the segments outside `na` -/
theorem segs_nonComb (h1 : ∀ k, k < n → na.contains k = false → w k = 1) :
    cNonComb (segOff w n) (na.map (segPart w)) = (cNonNew n na).map (segOff w) := by
  unfold cNonComb cNonNew
  have hr : List.range (segOff w n) = ((List.range n).map (segPart w)).flatten := by
    rw [segs_flatten, List.range_eq_range']
  rw [hr, List.filter_flatten, List.map_map, ← flatten_ite_singleton]
  congr 1
  apply List.map_congr_left
  intro k hk
  have hkn := List.mem_range.1 hk
  simp only [Function.comp]
  by_cases hc : na.contains k = true
  · rw [if_pos hc]
    apply List.filter_eq_nil_iff.2
    intro x hx
    have hm : k ∈ na := by simpa using hc
    have : x ∈ (na.map (segPart w)).flatten :=
      List.mem_flatten.2 ⟨_, List.mem_map.2 ⟨k, hm, rfl⟩, hx⟩
    simp [this]
  · rw [if_neg hc]
    have hc' : na.contains k = false := by simpa using hc
    have hp : segPart w k = [segOff w k] := by
      unfold segPart; rw [h1 k hkn hc']; rfl
    rw [hp]
    have hnot : segOff w k ∉ (na.map (segPart w)).flatten := by
      intro hmem
      obtain ⟨l, hl, hx⟩ := List.mem_flatten.1 hmem
      obtain ⟨j, hj, rfl⟩ := List.mem_map.1 hl
      have : j = k := segPart_disjoint w j k _ hx (by rw [hp]; simp)
      subst this
      have : na.contains j = true := by simpa using hj
      rw [this] at hc'
      exact Bool.noConfusion hc'
    have hb : (na.map (segPart w)).flatten.contains (segOff w k) = false := by
      rw [Bool.eq_false_iff]
      intro h
      exact hnot (List.contains_iff_mem.1 h)
    rw [List.filter_cons_of_pos (by rw [hb]; rfl)]
    rfl

theorem cNonNew_add_length (hasc : na.Pairwise (· < ·)) (hlt : ∀ k ∈ na, k < n) :
    (cNonNew n na).length + na.length = n := by
  have h1 := List.length_eq_length_filter_add (l := List.range n) (fun k => na.contains k)
  rw [filter_contains_range na n hasc hlt, List.length_range] at h1
  unfold cNonNew
  omega

/-- rank of the result of the standard-form call -/
theorem segs_rank (hasc : na.Pairwise (· < ·)) (hlt : ∀ k ∈ na, k < n)
    (h1 : ∀ k, k < n → na.contains k = false → w k = 1) :
    (cNonComb (segOff w n) (na.map (segPart w))).length + (na.map (segPart w)).length = n := by
  rw [segs_nonComb w n na h1, List.length_map, List.length_map]
  exact cNonNew_add_length n na hasc hlt

/-- the source axes behind the result axes are the segments -/
theorem segs_parts
    (h1 : ∀ k, k < n → na.contains k = false → w k = 1) :
    cParts n (na.map (segPart w)) (cNonComb (segOff w n) (na.map (segPart w))) na = (List.range n).map (segPart w) := by
  unfold cParts
  apply List.map_congr_left
  intro k hk
  have hkn := List.mem_range.1 hk
  by_cases hc : na.contains k = true
  · rw [if_pos hc, groups_getD w na k hc]
  · rw [if_neg hc]
    have hc' : na.contains k = false := by simpa using hc
    have hm : k ∈ cNonNew n na := List.mem_filter.2 ⟨hk, by show (!na.contains k) = true; rw [hc']; rfl⟩
    have hi := List.idxOf_lt_length_of_mem hm
    rw [segs_nonComb w n na h1, getD_map' _ _ _ 0 0 hi, getD_lt _ _ _ hi, List.getElem_idxOf hi]
    unfold segPart; rw [h1 k hkn hc']; rfl

/-- **the groups `na.map segPart` with new axes `na` are in standard form** -/
theorem segs_stdForm (hasc : na.Pairwise (· < ·)) (hlt : ∀ k ∈ na, k < n)
    (h1 : ∀ k, k < n → na.contains k = false → w k = 1) :
    StdForm (segOff w n) (na.map (segPart w)) na := by
  have hr := segs_rank w n na hasc hlt h1
  refine ⟨hasc, ?_, ?_⟩
  · rw [hr]; exact hlt
  · rw [hr, segs_parts w n na h1, segs_flatten, List.range_eq_range']

end groups
end TenpyModel.C01C.CombR
