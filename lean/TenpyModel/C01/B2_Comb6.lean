import TenpyModel.C01.B2_Comb5
/-!
C01 part B2 — part 6: `combineRow` in terms of the axis descriptions (`cSpecs`), the legs of the result axis by
axis, the standard-form predicate `StdForm`, and the main theorem `combine_places`.
-/
namespace TenpyModel.C01B2.Comb
open TenpyModel.Core TenpyModel.C01B

variable {α : Type}

def dPipe : Pipe := ⟨default, [], [], [], none, []⟩

/-- axis descriptions of the result of `combineStd` (`n` = rank of the result) -/
def cSpecs (n : Nat) (cl : List (List Nat)) (nonComb newAxes : List Nat) (ps : List Pipe) : List AxS :=
  (List.range n).map (fun k =>
    if newAxes.contains k then .new (ps.getD (newAxes.idxOf k) dPipe) (cl.getD (newAxes.idxOf k) [])
    else .old (nonComb.getD ((cNonNew n newAxes).idxOf k) 0))

/-- the source axes behind every result axis -/
def cParts (n : Nat) (cl : List (List Nat)) (nonComb newAxes : List Nat) : List (List Nat) :=
  (List.range n).map (fun k =>
    if newAxes.contains k then cl.getD (newAxes.idxOf k) [] else [nonComb.getD ((cNonNew n newAxes).idxOf k) 0])

theorem cSpecs_parts (n : Nat) (cl : List (List Nat)) (nonComb newAxes : List Nat) (ps : List Pipe) :
    (cSpecs n cl nonComb newAxes ps).map AxS.part = cParts n cl nonComb newAxes := by
  unfold cSpecs cParts
  rw [List.map_map]
  apply List.map_congr_left
  intro k _
  simp only [Function.comp]
  split <;> rfl

/-- **standard form** of a `combine_legs` call (what `combine_legs` passes to its worker after the transposition):
new axes strictly ascending and in range, and the source axes behind the result axes, concatenated, are
`0, 1, …, rank-1` — i.e. every group is a run of consecutive axes, groups and spectators in order. -/
def StdForm (rank : Nat) (cl : List (List Nat)) (newAxes : List Nat) : Prop :=
  newAxes.Pairwise (· < ·) ∧ (∀ x ∈ newAxes, x < (cNonComb rank cl).length + cl.length)
  ∧ (cParts ((cNonComb rank cl).length + cl.length) cl (cNonComb rank cl) newAxes).flatten = List.range rank

instance (rank : Nat) (cl : List (List Nat)) (newAxes : List Nat) : Decidable (StdForm rank cl newAxes) := by
  unfold StdForm; infer_instance

theorem combineRow_specs (lcs : List Leg) (n : Nat) (cl : List (List Nat)) (nonComb newAxes : List Nat)
    (ps : List Pipe) (q : List Nat) (h1 : ps.length = cl.length) (h2 : newAxes.length = cl.length) :
    Arr.combineRow lcs n cl nonComb newAxes (cNonNew n newAxes) ps q
      = specRow lcs (cSpecs n cl nonComb newAxes ps) q := by
  have hinds : ∀ k, newAxes.contains k = true →
      (List.zipWith (fun (p : Pipe) c => p.qMap.getD (p.mapIncomingQind (pick q c 0)) []) ps cl).getD
        (newAxes.idxOf k) [] = pipeRow (ps.getD (newAxes.idxOf k) dPipe) (pick q (cl.getD (newAxes.idxOf k) []) 0) := by
    intro k hk
    have hm : k ∈ newAxes := by simpa using hk
    have := List.idxOf_lt_length_of_mem hm
    rw [C01B.getD_zipWith' _ ps cl dPipe [] [] h1 _ (by omega)]
    rfl
  unfold Arr.combineRow specRow cSpecs
  simp only [List.map_map, Prod.mk.injEq]
  refine ⟨?_, ?_, ?_⟩
  all_goals
    apply List.map_congr_left
    intro k _
    simp only [Function.comp]
    by_cases hc : newAxes.contains k = true
    · rw [if_pos hc, if_pos hc, hinds k hc]; rfl
    · rw [if_neg hc, if_neg hc]; rfl

theorem cPs_eq (pipes : List ALeg) (h : ∀ x ∈ pipes, x.isPipe = true) : cPs pipes = pipes.map Arr.pipeOf := by
  induction pipes with
  | nil => rfl
  | cons x pipes ih =>
    have hx := h x (by simp)
    cases x with
    | plain l => simp [ALeg.isPipe] at hx
    | pipe p subs =>
      have := ih (fun y hy => h y (by simp [hy]))
      simp only [cPs, List.filterMap_cons, List.map_cons, Arr.pipeOf] at this ⊢
      rw [this]

theorem getD_map_leg (l : List ALeg) (i : Nat) : (l.map ALeg.leg).getD i default = (l.getD i default).leg := by
  induction l generalizing i with
  | nil => rfl
  | cons x l ih => cases i with
    | zero => rfl
    | succ i => simpa using ih i

theorem cNonNew_length (m : Nat) (pos : List Nat) (hasc : pos.Pairwise (· < ·)) (hlt : ∀ x ∈ pos, x < m + pos.length) :
    (cNonNew (m + pos.length) pos).length = m := by
  have hn : pos.Nodup := hasc.imp (fun h => Nat.ne_of_lt h)
  have := count_nonNew pos hn (m + pos.length)
  have f : pos.filter (· < m + pos.length) = pos := List.filter_eq_self.2 (fun p hp => by simpa using hlt p hp)
  rw [f] at this
  unfold cNonNew
  omega

theorem cNonNew_idxOf (m : Nat) (pos : List Nat) (hasc : pos.Pairwise (· < ·)) (hlt : ∀ x ∈ pos, x < m + pos.length)
    (k : Nat) (hk : k < m + pos.length) (hm : k ∉ pos) :
    (cNonNew (m + pos.length) pos).idxOf k = k - (pos.filter (· < k)).length
    ∧ (cNonNew (m + pos.length) pos).idxOf k < m := by
  have hn : pos.Nodup := hasc.imp (fun h => Nat.ne_of_lt h)
  have h1 := idxOf_nonNew pos (m + pos.length) k hk hm
  have h2 := count_nonNew pos hn k
  have hmem : k ∈ cNonNew (m + pos.length) pos := by
    unfold cNonNew
    exact List.mem_filter.2 ⟨List.mem_range.2 hk, by simp [hm]⟩
  have h3 := List.idxOf_lt_length_of_mem hmem
  rw [cNonNew_length m pos hasc hlt] at h3
  unfold cNonNew at h1 h3 ⊢
  exact ⟨by omega, h3⟩

/-- entries of the result of the insertions, through `cNonNew` -/
theorem insFold_getD {β} (d : β) (pos : List Nat) (items base : List β) (hl : items.length = pos.length)
    (hasc : pos.Pairwise (· < ·)) (hlt : ∀ x ∈ pos, x < base.length + pos.length) :
    (insFold base pos items).length = base.length + pos.length ∧
    ∀ k, k < base.length + pos.length → (insFold base pos items).getD k d =
      if pos.contains k then items.getD (pos.idxOf k) d
      else base.getD ((cNonNew (base.length + pos.length) pos).idxOf k) d := by
  obtain ⟨h1, h2⟩ := insFold_spec d pos items base hl hasc hlt
  refine ⟨h1, ?_⟩
  intro k hk
  rw [h2 k hk]
  by_cases hc : pos.contains k = true
  · rw [if_pos hc, if_pos hc]
  · rw [if_neg hc, if_neg hc]
    have hm : k ∉ pos := by simpa using hc
    rw [(cNonNew_idxOf base.length pos hasc hlt k hk hm).1]

theorem cNonComb_lt (rank : Nat) (cl : List (List Nat)) : ∀ x ∈ cNonComb rank cl, x < rank := by
  intro x hx
  exact List.mem_range.1 (List.mem_filter.1 hx).1

section legs

/-- the result legs, axis by axis -/
theorem cLegs_getD (a : Arr α) (cl : List (List Nat)) (newAxes : List Nat) (pipes : List ALeg)
    (hl1 : newAxes.length = cl.length) (hl2 : pipes.length = cl.length) (hstd : StdForm a.rank cl newAxes) :
    (cLegs a cl newAxes pipes).length = (cNonComb a.rank cl).length + cl.length ∧
    ∀ k, k < (cNonComb a.rank cl).length + cl.length → (cLegs a cl newAxes pipes).getD k default =
      if newAxes.contains k then pipes.getD (newAxes.idxOf k) default
      else a.legs.getD ((cNonComb a.rank cl).getD
        ((cNonNew ((cNonComb a.rank cl).length + cl.length) newAxes).idxOf k) 0) default := by
  obtain ⟨hasc, hlt, _⟩ := hstd
  have hbl : (pick a.legs (cNonComb a.rank cl) default).length = (cNonComb a.rank cl).length := pick_length _ _ _
  have := insFold_getD (default : ALeg) newAxes pipes (pick a.legs (cNonComb a.rank cl) default)
    (by rw [hl1, hl2]) hasc (by rw [hbl, hl1]; exact hlt)
  rw [hbl, hl1] at this
  refine ⟨this.1, ?_⟩
  intro k hk
  unfold cLegs
  rw [this.2 k hk]
  by_cases hc : newAxes.contains k = true
  · rw [if_pos hc, if_pos hc]
  · rw [if_neg hc, if_neg hc]
    have hm : k ∉ newAxes := by simpa using hc
    have hj := (cNonNew_idxOf (cNonComb a.rank cl).length newAxes hasc (by rw [hl1]; exact hlt) k
      (by rw [hl1]; exact hk) hm).2
    rw [hl1] at hj
    unfold pick
    rw [getD_map' _ _ _ 0 default hj]

theorem cLegs_lcs (a : Arr α) (cl : List (List Nat)) (newAxes : List Nat) (pipes : List ALeg)
    (hl1 : newAxes.length = cl.length) (hl2 : pipes.length = cl.length) (hpipe : ∀ x ∈ pipes, x.isPipe = true)
    (hstd : StdForm a.rank cl newAxes) :
    (cLegs a cl newAxes pipes).map ALeg.leg
      = (cSpecs ((cNonComb a.rank cl).length + cl.length) cl (cNonComb a.rank cl) newAxes (cPs pipes)).map
          (AxS.leg a.lcs) := by
  obtain ⟨hlen, hget⟩ := cLegs_getD a cl newAxes pipes hl1 hl2 hstd
  apply ext_getD _ _ default (by simp [hlen, cSpecs])
  intro k hk
  rw [List.length_map, hlen] at hk
  rw [getD_map_leg, hget k hk]
  unfold cSpecs
  rw [List.map_map, getD_map' _ _ k 0 default (by simpa using hk), getD_range _ _ hk]
  simp only [Function.comp]
  by_cases hc : newAxes.contains k = true
  · rw [if_pos hc, if_pos hc]
    have hm : k ∈ newAxes := by simpa using hc
    have hg := List.idxOf_lt_length_of_mem hm
    show _ = ((cPs pipes).getD (newAxes.idxOf k) dPipe).leg
    rw [cPs_eq pipes hpipe, getD_map' _ _ _ default dPipe (by omega)]
    have hp := hpipe _ (getD_mem pipes (newAxes.idxOf k) default (by omega))
    cases hx : pipes.getD (newAxes.idxOf k) default with
    | plain l => rw [hx] at hp; simp [ALeg.isPipe] at hp
    | pipe p subs => rfl
  · rw [if_neg hc, if_neg hc]
    show _ = a.lcs.getD _ default
    unfold Arr.lcs
    rw [getD_map_leg]

end legs

section zero
variable [Zero α]

/-- the index map of `combine_legs`: result axis `k` carries `map_incoming_flat` of the indices of its group, or the
index of the spectator axis it comes from -/
def combIdx (a : Arr α) (cl : List (List Nat)) (newAxes : List Nat) (pipes : List ALeg) (idx : List Nat) : List Nat :=
  specIdx (cSpecs ((cNonComb a.rank cl).length + cl.length) cl (cNonComb a.rank cl) newAxes (cPs pipes)) idx

theorem mem_parts_lt (specs : List AxS) (n : Nat) (h : (specs.map AxS.part).flatten = List.range n) (s : AxS)
    (hs : s ∈ specs) : ∀ x ∈ s.part, x < n := by
  intro x hx
  have : x ∈ (specs.map AxS.part).flatten := List.mem_flatten.2 ⟨_, List.mem_map.2 ⟨s, hs, rfl⟩, hx⟩
  rw [h] at this
  exact List.mem_range.1 this

/-- hypothesis on the pipes: the `g`-th one is a `LegPipe` built from the legs of group `g` -/
def PipesOK (a : Arr α) (cl : List (List Nat)) (pipes : List ALeg) : Prop :=
  ∀ g, g < cl.length → ∃ qconj sort bunch subs,
    pipes.getD g default = .pipe (Pipe.init (pick a.lcs (cl.getD g []) default) qconj sort bunch) subs

omit [Zero α] in
theorem PipesOK.isPipe {a : Arr α} {cl : List (List Nat)} {pipes : List ALeg} (h : PipesOK a cl pipes)
    (hl2 : pipes.length = cl.length) : ∀ x ∈ pipes, x.isPipe = true := by
  intro x hx
  obtain ⟨i, hi, rfl⟩ := List.getElem_of_mem hx
  obtain ⟨qconj, sort, bunch, subs, e⟩ := h i (by omega)
  rw [getD_lt _ _ _ hi] at e
  rw [e]; rfl

omit [Zero α] in
theorem cSpecs_valid (a : Arr α) (cl : List (List Nat)) (newAxes : List Nat) (pipes : List ALeg)
    (hl1 : newAxes.length = cl.length) (hl2 : pipes.length = cl.length) (hpipes : PipesOK a cl pipes)
    (hstd : StdForm a.rank cl newAxes) :
    ∀ s ∈ cSpecs ((cNonComb a.rank cl).length + cl.length) cl (cNonComb a.rank cl) newAxes (cPs pipes),
      s.Valid a.lcs := by
  intro s hs
  have hparts := hstd.2.2
  rw [← cSpecs_parts _ _ _ _ (cPs pipes)] at hparts
  have hlt := mem_parts_lt _ _ hparts s hs
  unfold cSpecs at hs
  obtain ⟨k, _, rfl⟩ := List.mem_map.1 hs
  by_cases hc : newAxes.contains k = true
  · rw [if_pos hc] at hlt ⊢
    have hm : k ∈ newAxes := by simpa using hc
    have hg := List.idxOf_lt_length_of_mem hm
    refine ⟨by rw [lcs_length]; exact hlt, ?_⟩
    obtain ⟨qconj, sort, bunch, subs, e⟩ := hpipes (newAxes.idxOf k) (by omega)
    refine ⟨qconj, sort, bunch, ?_⟩
    rw [cPs_eq pipes (hpipes.isPipe hl2), getD_map' _ _ _ default dPipe (by omega), e]
    rfl
  · rw [if_neg hc] at hlt ⊢
    show _ < a.lcs.length
    rw [lcs_length]
    exact hlt _ (by simp [AxS.part])

/-- **`combine_legs` places entries where the pipes' index maps say** — standard form, any number of groups and
spectator legs, all three branches of the code. -/
theorem combine_places (a r : Arr α) (ha : a.WF) (cl : List (List Nat)) (newAxes : List Nat) (pipes : List ALeg)
    (labels : List String) (hl1 : newAxes.length = cl.length) (hl2 : pipes.length = cl.length)
    (hpipes : PipesOK a cl pipes) (hstd : StdForm a.rank cl newAxes)
    (h : a.combineStd cl newAxes pipes labels = .ok r) :
    r.legs = cLegs a cl newAxes pipes ∧ r.rank = (cNonComb a.rank cl).length + cl.length
    ∧ r.mods = a.mods ∧ r.qtotal = makeValid a.mods a.qtotal ∧ r.labels.length = r.rank
    ∧ r.qdata.Nodup ∧ r.qdata.length = r.data.length ∧ r.qdataSorted = true
    ∧ ∀ idx, InRange idx a.shape →
        InRange (combIdx a cl newAxes pipes idx) r.shape ∧ r.entry (combIdx a cl newAxes pipes idx) = a.entry idx := by
  have hw := W.of ha
  obtain ⟨hlegs, hmods, hqt, hlab, hsorted, G, hG, hqd, hdt, _⟩ := combineStd_out a hw cl newAxes pipes labels r h
  have hlen := (cLegs_getD a cl newAxes pipes hl1 hl2 hstd).1
  have hrank : r.rank = (cNonComb a.rank cl).length + cl.length := by
    show r.legs.length = _
    rw [hlegs, hlen]
  have hnd : r.qdata.Nodup := by rw [hqd]; exact hG.nodup
  refine ⟨hlegs, hrank, hmods, hqt, hlab, hnd, by rw [hqd, hdt]; simp, hsorted, ?_⟩
  intro idx hi
  have hlcs : r.lcs = (cSpecs ((cNonComb a.rank cl).length + cl.length) cl (cNonComb a.rank cl) newAxes
      (cPs pipes)).map (AxS.leg a.lcs) := by
    unfold Arr.lcs
    rw [hlegs]
    exact cLegs_lcs a cl newAxes pipes hl1 hl2 (hpipes.isPipe hl2) hstd
  have hps : (cPs pipes).length = cl.length := by rw [cPs_eq pipes (hpipes.isPipe hl2), List.length_map, hl2]
  have hrows : cRowsG a cl newAxes pipes = sRows a (cSpecs ((cNonComb a.rank cl).length + cl.length) cl
      (cNonComb a.rank cl) newAxes (cPs pipes)) := by
    unfold cRowsG sRows
    apply List.map_congr_left
    intro rb _
    rw [hlen, combineRow_specs a.lcs _ cl _ newAxes (cPs pipes) rb.1 hps hl1]
  rw [hrows] at hG
  have hparts := hstd.2.2
  rw [← cSpecs_parts _ _ _ _ (cPs pipes)] at hparts
  exact spec_entry a hw _ (cSpecs_valid a cl newAxes pipes hl1 hl2 hpipes hstd) hparts r hlcs G hG
    (by rw [hqd, hdt]; exact zip_map_same _ _ _) idx hi

end zero
end TenpyModel.C01B2.Comb
