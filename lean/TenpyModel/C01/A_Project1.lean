import TenpyModel.C01.A_Entry
import TenpyModel.C06.LegOpsProofs
/-!
C01 part A — `iproject`, step 1: list lemmas (`maskIdx`, `splitAtSizes`, positions in a concatenation) and the
combinatorial fact about `Leg.project`: the `j'`-th surviving flat index of the old leg sits in the old block that
`map_qind` sends to the block of `j'` in the new leg, at the offset selected by the block mask.
-/
namespace TenpyModel.Core

theorem getD_set_eq_pj {β} (l : List β) (k : Nat) (x d : β) (h : k < l.length) : (l.set k x).getD k d = x := by
  simp [List.getD_eq_getElem?_getD, h]

theorem getD_set_ne_pj {β} (l : List β) (k j : Nat) (x d : β) (h : k ≠ j) : (l.set k x).getD j d = l.getD j d := by
  simp [List.getD_eq_getElem?_getD, h]

theorem set_getD_self_pj {β} (l : List β) (k : Nat) (d : β) : l.set k (l.getD k d) = l := by
  induction l generalizing k with
  | nil => rfl
  | cons x xs ih =>
    cases k with
    | zero => rfl
    | succ k => simp only [List.set_cons_succ, List.getD_cons_succ, ih]

/-- position `(q, w)` in a concatenation of lists -/
theorem flatMap_getD_psum_pj {β γ} (L : List β) (f : β → List γ) (d : γ) (b0 : β) (q w : Nat) (hq : q < L.length)
    (hw : w < (f (L.getD q b0)).length) :
    (L.flatMap f).getD (psum (L.map (fun x => (f x).length)) q + w) d = (f (L.getD q b0)).getD w d := by
  induction L generalizing q with
  | nil => simp at hq
  | cons x L ih =>
    rw [List.flatMap_cons]
    cases q with
    | zero =>
      simp only [psum_zero, Nat.zero_add, List.getD_cons_zero] at hw ⊢
      exact getD_append_left' _ _ _ _ hw
    | succ q =>
      simp only [List.map_cons, psum_cons_succ, List.getD_cons_succ] at hw ⊢
      rw [Nat.add_assoc, getD_append_right']
      exact ih q (by simpa using hq) hw

namespace Dense

theorem maskIdx_append (m1 m2 : List Bool) :
    maskIdx (m1 ++ m2) = maskIdx m1 ++ (maskIdx m2).map (fun v => m1.length + v) := by
  unfold maskIdx
  rw [List.length_append, List.range_add, List.filter_append, List.filter_map]
  congr 1
  · apply List.filter_congr
    intro i hi
    rw [getD_append_left' _ _ _ _ (by simpa using hi)]
  · congr 1
    apply List.filter_congr
    intro i _
    simp only [Function.comp]
    rw [getD_append_right']

theorem maskIdx_nil : maskIdx [] = [] := rfl

theorem maskIdx_length (m : List Bool) : (maskIdx m).length = m.count true := by
  induction m with
  | nil => rfl
  | cons b m ih =>
    have := maskIdx_append [b] m
    rw [List.singleton_append] at this
    rw [this, List.length_append, List.length_map, ih]
    cases b
    · simp [maskIdx]
    · simp [maskIdx]; omega

theorem maskIdx_getD_lt (m : List Bool) (w : Nat) (hw : w < (maskIdx m).length) : (maskIdx m).getD w 0 < m.length := by
  have hmem : (maskIdx m).getD w 0 ∈ maskIdx m := getD_mem _ w 0 hw
  have h2 : (maskIdx m).getD w 0 ∈ (List.range m.length).filter (fun i => m.getD i false) := hmem
  exact List.mem_range.1 (List.mem_filter.1 h2).1

end Dense

namespace Leg
open Dense

theorem splitAtSizes_getD_length {β} (sizes : List Nat) (xs : List β) (h : xs.length = sizes.sum) (q : Nat)
    (hq : q < sizes.length) : ((splitAtSizes sizes xs).getD q []).length = sizes.getD q 0 := by
  induction sizes generalizing xs q with
  | nil => simp at hq
  | cons s ss ih =>
    simp only [List.sum_cons] at h
    cases q with
    | zero =>
      simp only [splitAtSizes, List.getD_cons_zero, List.length_take]
      omega
    | succ q =>
      simp only [splitAtSizes, List.getD_cons_succ]
      exact ih (xs.drop s) (by rw [List.length_drop]; omega) q (by simpa using hq)

/-- the `true` positions of a mask, block by block -/
theorem maskIdx_split (sizes : List Nat) (mask : List Bool) (h : mask.length = sizes.sum) :
    maskIdx mask = (List.range sizes.length).flatMap (fun q =>
      (maskIdx ((splitAtSizes sizes mask).getD q [])).map (fun v => psum sizes q + v)) := by
  induction sizes generalizing mask with
  | nil =>
    have : mask = [] := List.length_eq_zero_iff.1 (by simpa using h)
    subst this
    rfl
  | cons s ss ih =>
    simp only [List.sum_cons] at h
    have hl : (mask.take s).length = s := by rw [List.length_take]; omega
    have ih' := ih (mask.drop s) (by rw [List.length_drop]; omega)
    conv => lhs; rw [← List.take_append_drop s mask, maskIdx_append, hl, ih']
    rw [List.length_cons, List.range_succ_eq_map, List.flatMap_cons, List.flatMap_map, List.map_flatMap]
    congr 1
    · simp only [splitAtSizes, List.getD_cons_zero, psum_zero, Nat.zero_add, List.map_id']
    · apply flatMap_congr'
      intro q _
      simp only [splitAtSizes, Nat.succ_eq_add_one, List.getD_cons_succ, psum_cons_succ, List.map_map]
      apply List.map_congr_left
      intro v _
      simp only [Function.comp]
      omega

theorem project_mapQ (l : Leg) (mask : List Bool) :
    (l.project mask).1 = (List.range l.blockNumber).map (fun i =>
      if (projKeep l mask).contains i then ((projKeep l mask).idxOf i : Int) else -1) := rfl

theorem project_bm (l : Leg) (mask : List Bool) :
    (l.project mask).2.1 = take? (splitAtSizes l.blockSizes mask) (projKeep l mask) [] := rfl

theorem project_blockNumber (l : Leg) (mask : List Bool) :
    (l.project mask).2.2.blockNumber = (projKeep l mask).length := by
  unfold blockNumber
  rw [project_charges, take?_length]

section
variable (l : Leg) (mask : List Bool)

theorem projKeep_mem_lt (h : l.Shape) (q : Nat) (hq : q ∈ projKeep l mask) : q < l.blockNumber :=
  projKeep_lt l mask h q hq

theorem projLens_getD (h : l.Shape) (q : Nat) (hq : q < l.blockNumber) :
    (projLens l mask).getD q 0 = (maskIdx ((splitAtSizes l.blockSizes mask).getD q [])).length := by
  unfold projLens
  rw [getD_map' _ _ q [] 0 (by rw [splitAtSizes_length, h.sizes_len]; exact hq), maskIdx_length]

/-- what `map_qind` does: a kept block goes to its position in `keep`, a dropped one to `-1` -/
theorem project_mapQ_spec (_h : l.Shape) (q : Nat) (hq : q < l.blockNumber) :
    (0 ≤ (l.project mask).1.getD q (-1) →
      ((l.project mask).1.getD q (-1)).toNat < (l.project mask).2.2.blockNumber ∧
      (projKeep l mask).getD ((l.project mask).1.getD q (-1)).toNat 0 = q) := by
  rw [project_mapQ, getD_map' _ _ q 0 (-1) (by simpa using hq), getD_range _ _ hq, project_blockNumber]
  split
  next hc =>
    intro _
    have hmem : q ∈ projKeep l mask := by simpa using hc
    have hlt := List.idxOf_lt_length_iff.2 hmem
    simp only [Int.toNat_natCast]
    exact ⟨hlt, by rw [getD_lt _ _ _ hlt]; exact List.getElem_idxOf hlt⟩
  next => intro h0; omega

theorem project_mapQ_keep (h : l.Shape) (q' : Nat) (hq' : q' < (projKeep l mask).length) :
    (l.project mask).1.getD ((projKeep l mask).getD q' 0) (-1) = (q' : Int) := by
  have hmem := getD_mem (projKeep l mask) q' 0 hq'
  have hq := projKeep_mem_lt l mask h _ hmem
  rw [project_mapQ, getD_map' _ _ _ 0 (-1) (by simpa using hq), getD_range _ _ hq]
  have hc : (projKeep l mask).contains ((projKeep l mask).getD q' 0) = true := by simpa using hmem
  have hnd : (projKeep l mask).Nodup := (projKeep_sorted l mask).imp (fun h => Nat.ne_of_lt h)
  rw [if_pos hc, getD_lt _ _ _ hq', hnd.idxOf_getElem q' hq']

/-- block sizes of the projected leg = number of kept indices of the block mask -/
theorem project_blockSizes_getD (h : l.Shape) (q' : Nat) (hq' : q' < (l.project mask).2.2.blockNumber) :
    (l.project mask).2.2.blockSizes.getD q' 0 = (maskIdx ((l.project mask).2.1.getD q' [])).length := by
  rw [project_blockNumber] at hq'
  rw [project_blockSizes, project_bm, take?_getD _ _ 0 q' hq', take?_getD _ _ [] q' hq',
    projLens_getD l mask h _ (projKeep_mem_lt l mask h _ (getD_mem _ _ _ hq'))]

/-- **core fact about `project`** -/
theorem project_locate (h : l.Shape) (hm : mask.length = l.indLen) :
    (l.project mask).2.2.indLen = (maskIdx mask).length ∧
    ∀ j', j' < (l.project mask).2.2.indLen →
      (maskIdx mask).getD j' 0 < l.indLen ∧
      (l.project mask).1.getD (l.locate ((maskIdx mask).getD j' 0)).1 (-1)
        = (((l.project mask).2.2.locate j').1 : Int) ∧
      (l.locate ((maskIdx mask).getD j' 0)).2
        = (maskIdx ((l.project mask).2.1.getD ((l.project mask).2.2.locate j').1 [])).getD
            ((l.project mask).2.2.locate j').2 0 := by
  have hs' := project_shape l mask
  have hn := h.sizes_len
  have hsum : mask.length = l.blockSizes.sum := by rw [hm, h.indLen_eq]
  -- the pieces
  let P : Nat → List Nat := fun q =>
    (maskIdx ((splitAtSizes l.blockSizes mask).getD q [])).map (fun v => psum l.blockSizes q + v)
  have hA : maskIdx mask = (List.range l.blockSizes.length).flatMap P := maskIdx_split _ _ hsum
  have hB : maskIdx mask = (projKeep l mask).flatMap P := by
    rw [hA]
    unfold projKeep
    rw [filter_flatMap_of_nil, projLens_length]
    intro q hq hz
    have hq' : q < l.blockNumber := by rw [List.mem_range, projLens_length, hn] at hq; exact hq
    simp only [ne_eq, decide_not, Bool.not_eq_false', decide_eq_true_eq] at hz
    rw [projLens_getD l mask h q hq'] at hz
    show List.map _ _ = []
    rw [List.length_eq_zero_iff.1 hz]
    rfl
  have hlen : (projKeep l mask).map (fun q => (P q).length) = (l.project mask).2.2.blockSizes := by
    rw [project_blockSizes]
    unfold take?
    apply List.map_congr_left
    intro q hq
    show (List.map _ _).length = _
    rw [List.length_map, projLens_getD l mask h q (projKeep_mem_lt l mask h q hq)]
  have hind : (l.project mask).2.2.indLen = (maskIdx mask).length := by
    rw [hs'.indLen_eq, ← hlen, hB, List.length_flatMap]
  refine ⟨hind, ?_⟩
  intro j' hj
  obtain ⟨a1, _, _, a4⟩ := locate_ok hs' j' hj
  have a5 := locate_within hs' j' hj
  generalize hq'e : ((l.project mask).2.2.locate j').1 = q' at *
  generalize hw'e : ((l.project mask).2.2.locate j').2 = w' at *
  have hq'k : q' < (projKeep l mask).length := by rw [← project_blockNumber]; exact a1
  have hqm := getD_mem (projKeep l mask) q' 0 hq'k
  have hq := projKeep_mem_lt l mask h _ hqm
  rw [hs'.slices_getD q' (Nat.le_of_lt a1), ← hlen] at a4
  rw [← hlen, getD_map' _ _ q' 0 0 hq'k] at a5
  have hj' : (maskIdx mask).getD j' 0 = (P ((projKeep l mask).getD q' 0)).getD w' 0 := by
    rw [← a4]
    conv => lhs; rw [hB]
    exact flatMap_getD_psum_pj _ P 0 0 q' w' hq'k a5
  have a5' : w' < (maskIdx ((splitAtSizes l.blockSizes mask).getD ((projKeep l mask).getD q' 0) [])).length := by
    have : (P ((projKeep l mask).getD q' 0)).length
        = (maskIdx ((splitAtSizes l.blockSizes mask).getD ((projKeep l mask).getD q' 0) [])).length :=
      List.length_map _
    rw [this] at a5
    exact a5
  have hv := maskIdx_getD_lt _ w' a5'
  rw [splitAtSizes_getD_length _ _ hsum _ (by rw [hn]; exact hq)] at hv
  have hi : (maskIdx mask).getD j' 0 = l.slices.getD ((projKeep l mask).getD q' 0) 0
      + (maskIdx ((splitAtSizes l.blockSizes mask).getD ((projKeep l mask).getD q' 0) [])).getD w' 0 := by
    rw [hj']
    show (List.map _ _).getD w' 0 = _
    rw [getD_map' _ _ w' 0 0 a5', h.slices_getD _ (Nat.le_of_lt hq)]
  have hloc := locate_block h _ _ hq hv
  rw [← hi] at hloc
  refine ⟨?_, ?_, ?_⟩
  · have := psum_add_lt l.blockSizes _ _ (by rw [hn]; exact hq) hv
    rw [← h.slices_getD _ (Nat.le_of_lt hq), ← hi, ← h.indLen_eq] at this
    exact this
  · rw [hloc]
    exact project_mapQ_keep l mask h q' hq'k
  · rw [hloc, project_bm, take?_getD _ _ [] q' hq'k]

end
end Leg
end TenpyModel.Core
