import TenpyModel.C01.B2_Inner1
import TenpyModel.C01.A_Transpose2
import TenpyModel.C01.A_Slice3
/-!
C01 part B2 — `inner` with general `axes`, step 1: transposition (`itransposeFast` by a permutation) preserves the
charge rule and the validity of the leg charges; `get_leg_indices` of integer axes.
-/
namespace TenpyModel.C01B2
open TenpyModel.Core TenpyModel.C01B
open TenpyModel.Core.Arr (permuteList)

theorem cadd_right_comm (a b c : Charge) : cadd (cadd a b) c = cadd (cadd a c) b := by
  unfold cadd
  induction a generalizing b c with
  | nil => simp
  | cons x a ih =>
    cases b with
    | nil => simp
    | cons y b =>
      cases c with
      | nil => simp
      | cons z c =>
        simp only [List.zipWith_cons_cons, List.cons.injEq]
        exact ⟨by omega, ih b c⟩

/-- the charge sum does not depend on the order of the summands -/
theorem csum_perm (n : Nat) (l1 l2 : List Charge) (h : l1.Perm l2) : csum n l1 = csum n l2 := by
  unfold csum
  have : RightCommutative cadd := ⟨cadd_right_comm⟩
  exact h.foldl_eq _

theorem permuteList_perm {β} (l : List β) (axes : List Nat) (d : β) (h : IsPerm axes l.length) :
    (permuteList l axes d).Perm l := by
  unfold permuteList
  have := (h.perm.map (fun i => l.getD i d))
  rwa [map_getD_range] at this

variable {α : Type}

/-- `Array_itranspose_fast` by a permutation keeps the charge rule -/
theorem chargeRule_itransposeFast [Zero α] (a : Arr α) (axes : List Nat) (ha : W a) (hp : IsPerm axes a.rank)
    (hc : a.ChargeRule) : (a.itransposeFast axes).ChargeRule := by
  intro r hr
  have hr' : r ∈ a.qdata.map (fun r => permuteList r axes 0) := hr
  obtain ⟨r0, hr0, rfl⟩ := List.mem_map.1 hr'
  show blockChargeOf a.mods (a.itransposeFast axes).lcs (permuteList r0 axes 0) = a.qtotal
  rw [Arr.lcs_itransposeFast, ← hc r0 hr0]
  unfold blockChargeOf
  rw [hp.zipWith_permute_both _ a.lcs default ([] : Charge) (lcs_length a) r0 (ha.rowLen r0 hr0)]
  congr 1
  apply csum_perm
  apply permuteList_perm
  rw [List.length_zipWith, lcs_length, ha.rowLen r0 hr0, Nat.min_self]
  exact hp

/-- … and the validity of the leg charges -/
theorem legsValid_itransposeFast [Zero α] (a : Arr α) (axes : List Nat) (hp : IsPerm axes a.rank)
    (hv : LegsValid a) : LegsValid (a.itransposeFast axes) := by
  intro l hl
  rw [Arr.lcs_itransposeFast] at hl
  unfold permuteList at hl
  obtain ⟨i, hi, rfl⟩ := List.mem_map.1 hl
  have : a.lcs.getD i default ∈ a.lcs := getD_mem _ _ _ (by rw [lcs_length]; exact hp.mem_lt i hi)
  exact hv _ this

/-- `get_leg_indices` of non-negative integer axes returns them -/
theorem getLegIndices_natIdx (a : Arr α) (p ax : List Nat)
    (h : a.getLegIndices (p.map (fun i => Ax.idx (Int.ofNat i))) = .ok ax) : ax = p := by
  obtain ⟨h1, h2⟩ := Slice.mapM_ok_getD_sl _ _ _ h
  rw [List.length_map] at h1 h2
  apply ext_getD _ _ 0 h1
  intro j hj
  rw [h1] at hj
  have := h2 j hj (Ax.idx (Int.ofNat 0)) 0
  rw [getD_map' _ p j 0 _ hj] at this
  unfold Arr.getLegIndex at this
  simp only at this
  have hnn : ¬ (Int.ofNat (p.getD j 0) < 0) := by
    have : (0 : Int) ≤ Int.ofNat (p.getD j 0) := Int.natCast_nonneg _
    omega
  rw [if_neg hnn] at this
  split at this
  · simp at this
  · simp only [Except.ok.injEq] at this
    rw [← this]
    rfl

end TenpyModel.C01B2
