import TenpyModel.C01.B2_Comb19
/-!
C01 part B2 — part 20: **`split_legs ∘ combine_legs = id`** (standard form): splitting the new pipe axes of
`combineStd a …` gives a tensor with the legs of `a` and the dense form of `a` (all branches of both functions).
-/
namespace TenpyModel.C01B2.Comb
open TenpyModel.Core TenpyModel.C01B

variable {α : Type} [Zero α]

/-- the situation after a successful `combineStd` -/
theorem CS.of_combine (a r : Arr α) (ha : a.WF) (cl : List (List Nat)) (na : List Nat) (ps : List ALeg)
    (labels : List String) (hl1 : na.length = cl.length) (hl2 : ps.length = cl.length) (hp : PipesOK2 a cl ps)
    (hstd : StdForm a.rank cl na) (h : a.combineStd cl na ps labels = .ok r) : CS a r cl na ps :=
  { wa := W.of ha
    wr := W.of (combine_WF a r ha cl na ps labels hl1 hl2 hp.ok hstd h)
    hl1 := hl1
    hl2 := hl2
    pipes := hp
    std := hstd
    legs := (combine_places a r ha cl na ps labels hl1 hl2 hp.ok hstd h).1 }

/-- **splitting the pipes made by `combine_legs` restores the tensor** (standard form of `combine_legs`; the
no-block, one-block and worker branches of both functions): same legs, same dense form, entry by entry. -/
theorem split_combine (a r a' : Arr α) (ha : a.WF) (cl : List (List Nat)) (na : List Nat) (ps : List ALeg)
    (labels : List String) (hl1 : na.length = cl.length) (hl2 : ps.length = cl.length) (hp : PipesOK2 a cl ps)
    (hstd : StdForm a.rank cl na) (hne : cl ≠ []) (h : a.combineStd cl na ps labels = .ok r)
    (hs : r.splitLegs (some (na.map (fun k => Ax.idx (Int.ofNat k)))) = .ok a') :
    a'.legs = a.legs ∧ a'.toDense = a.toDense ∧ (∀ idx, InRange idx a.shape → a'.entry idx = a.entry idx)
    ∧ a'.mods = a.mods ∧ a'.qtotal = makeValid a.mods a.qtotal ∧ a'.labels.length = a.rank := by
  have c := CS.of_combine a r ha cl na ps labels hl1 hl2 hp hstd h
  have hcp := combine_places a r ha cl na ps labels hl1 hl2 hp.ok hstd h
  obtain ⟨hlegs, hmods, hqt, hlab, hS⟩ := c.split_core hne a' hs
  have hlcs' : a'.lcs = a.lcs := by unfold Arr.lcs; rw [hlegs]
  have hentry : ∀ idx, InRange idx a.shape → a'.entry idx = a.entry idx := by
    intro idx hi
    rw [split_entry a.lcs c.wa.shapes c.specs c.valid r a' c.wr.nodup c.lcs_r hlcs' hS idx hi]
    exact (hcp.2.2.2.2.2.2.2.2 idx hi).2
  refine ⟨hlegs, ?_, hentry, by rw [hmods, hcp.2.2.1], by rw [hqt, hcp.2.2.2.1], hlab⟩
  have hshape : a'.shape = a.shape := by unfold Arr.shape; rw [hlcs']
  unfold Arr.toDense
  rw [hshape]
  exact ofFn_congr_mem _ _ _ hentry

end TenpyModel.C01B2.Comb
