import TenpyModel.C01.B_Arr
/-!
C01 part B — F-style keys of block-index rows (`fKey`): strictly monotone along lexsorted duplicate-free rows and
injective on in-range rows; `sortByKey`; `_iter_common_sorted` (`commonSorted`) on strictly increasing keys yields
exactly the common keys.
-/
namespace TenpyModel.C01B
open TenpyModel.Core

/-! ### fKey -/

theorem strideF_scale (acc : Nat) (bn row : List Nat) :
    dot row (makeStrideF.go acc bn) = acc * dot row (makeStrideF.go 1 bn) := by
  induction bn generalizing acc row with
  | nil => simp [makeStrideF.go]
  | cons s bn ih =>
    cases row with
    | nil => simp
    | cons r row =>
      simp only [makeStrideF.go, dot_cons]
      rw [ih (acc * s), ih (1 * s)]
      ring

theorem fKey_nil (row : List Nat) : Arr.fKey [] row = 0 := by simp [Arr.fKey, makeStrideF, makeStrideF.go]
theorem fKey_nil' (bn : List Nat) : Arr.fKey bn [] = 0 := by simp [Arr.fKey]

theorem fKey_cons (n : Nat) (bn : List Nat) (r : Nat) (row : List Nat) :
    Arr.fKey (n :: bn) (r :: row) = r + n * Arr.fKey bn row := by
  simp only [Arr.fKey, makeStrideF, makeStrideF.go, dot_cons]
  rw [strideF_scale (1 * n)]
  ring

/-! ### lexLE on rows of equal length: the last column is the primary key -/

theorem lexLE_go_snoc (as bs : List Int) (x y : Int) (h : as.length = bs.length) :
    lexLE.go (as ++ [x]) (bs ++ [y]) = if as = bs then decide (x ≤ y) else lexLE.go as bs := by
  induction as generalizing bs with
  | nil =>
    cases bs with
    | nil =>
      simp only [List.nil_append, lexLE.go, if_true]
      by_cases h1 : x < y
      · simp [h1, Int.le_of_lt h1]
      · by_cases h2 : y < x
        · simp [h1, h2]
        · have : x ≤ y := by omega
          simp [h1, h2, this]
    | cons _ _ => simp at h
  | cons a as ih =>
    cases bs with
    | nil => simp at h
    | cons b bs =>
      simp only [List.length_cons, Nat.add_right_cancel_iff] at h
      simp only [List.cons_append, lexLE.go, List.cons.injEq]
      by_cases h1 : a < b
      · have : a ≠ b := by omega
        simp [h1, this]
      · by_cases h2 : b < a
        · have : a ≠ b := by omega
          simp [h1, h2, this]
        · have hab : a = b := by omega
          subst hab
          simp [ih bs h]

theorem lexLE_cons (x y : Int) (xs ys : List Int) (h : xs.length = ys.length) :
    lexLE (x :: xs) (y :: ys) = if xs = ys then decide (x ≤ y) else lexLE xs ys := by
  unfold lexLE
  rw [List.reverse_cons, List.reverse_cons, lexLE_go_snoc _ _ _ _ (by simp [h])]
  simp only [List.reverse_inj]

/-- strict monotonicity of the F-style key along the lexsort order -/
theorem fKey_lt (bn r1 r2 : List Nat) (h1 : InRange r1 bn) (h2 : InRange r2 bn)
    (hle : lexLE (r1.map Int.ofNat) (r2.map Int.ofNat) = true) (hne : r1 ≠ r2) :
    Arr.fKey bn r1 < Arr.fKey bn r2 := by
  induction bn generalizing r1 r2 with
  | nil =>
    cases r1 with
    | nil => cases r2 with
      | nil => exact absurd rfl hne
      | cons _ _ => exact h2.elim
    | cons _ _ => exact h1.elim
  | cons n bn ih =>
    cases r1 with
    | nil => exact h1.elim
    | cons a r1 =>
      cases r2 with
      | nil => exact h2.elim
      | cons b r2 =>
        have hl : (r1.map Int.ofNat).length = (r2.map Int.ofNat).length := by
          simp [h1.2.length_eq, h2.2.length_eq]
        simp only [List.map_cons] at hle
        rw [lexLE_cons _ _ _ _ hl] at hle
        rw [fKey_cons, fKey_cons]
        by_cases he : r1 = r2
        · subst he
          simp only [if_true, decide_eq_true_eq] at hle
          have : a ≠ b := fun hab => hne (by rw [hab])
          have hab : (a : Int) ≤ b := hle
          omega
        · have hne' : r1.map Int.ofNat ≠ r2.map Int.ofNat := by
            intro e
            apply he
            exact List.map_injective_iff.2 (fun x y hxy => by simpa using hxy) e
          rw [if_neg hne'] at hle
          have := ih r1 r2 h1.2 h2.2 hle he
          have ha := h1.1
          have : n * (Arr.fKey bn r1 + 1) ≤ n * Arr.fKey bn r2 := Nat.mul_le_mul_left _ this
          rw [Nat.mul_add] at this
          omega

theorem fKey_inj (bn r1 r2 : List Nat) (h1 : InRange r1 bn) (h2 : InRange r2 bn)
    (e : Arr.fKey bn r1 = Arr.fKey bn r2) : r1 = r2 := by
  by_contra hne
  rcases lexLE_total (r1.map Int.ofNat) (r2.map Int.ofNat) with h | h
  · have := fKey_lt bn r1 r2 h1 h2 h hne; omega
  · have := fKey_lt bn r2 r1 h2 h1 h (Ne.symm hne); omega

/-- along lexsorted, duplicate-free in-range rows the keys increase strictly -/
theorem keys_lt_of_lexsorted (bn : List Nat) (rows : List (List Nat)) (hnd : rows.Nodup)
    (hin : ∀ r ∈ rows, InRange r bn) (hs : isLexsorted rows = true) :
    (rows.map (Arr.fKey bn)).Pairwise (· < ·) := by
  have h1 : (natRows rows).Pairwise (fun a b => lexLE a b = true) := by
    apply sorted_of_lexsort
    have := hs
    unfold isLexsorted lexsortNat at this
    simpa [natRows] using this
  unfold natRows at h1
  rw [List.pairwise_map] at h1 ⊢
  have h2 := h1.and hnd
  exact h2.imp_of_mem (fun {a b} ha hb hab => fKey_lt bn a b (hin a ha) (hin b hb) hab.1 hab.2)

/-! ### sortByKey -/

theorem pick'_eq {β} (l : List (Nat × β)) (idx : List Nat) (d : Nat × β) (h : ∀ i ∈ idx, i < l.length) :
    Arr.sortByKey.pick' l idx = take? l idx d := by
  unfold Arr.sortByKey.pick' take?
  induction idx with
  | nil => rfl
  | cons i idx ih =>
    have hi := h i (by simp)
    simp only [List.filterMap_cons, List.getElem?_eq_getElem hi, List.map_cons, getD_lt l i d hi]
    rw [ih (fun j hj => h j (by simp [hj]))]

theorem lexLE_single (a b : Int) : lexLE [a] [b] = decide (a ≤ b) := by
  have := lexLE_go_snoc [] [] a b rfl
  simpa [lexLE] using this

theorem sortByKey_perm {β} (l : List (Nat × β)) (d : Nat × β) : (Arr.sortByKey l).Perm l := by
  unfold Arr.sortByKey
  have hp := lexsort_perm (l.map (fun kv => [Int.ofNat kv.1]))
  simp only [List.length_map] at hp
  rw [pick'_eq l _ d (fun i hi => by simpa using hp.mem_iff.1 hi)]
  exact take?_perm' l _ d hp

theorem sortByKey_sorted {β} (l : List (Nat × β)) (d : Nat × β) :
    ((Arr.sortByKey l).map (·.1)).Pairwise (· ≤ ·) := by
  unfold Arr.sortByKey
  have hp := lexsort_perm (l.map (fun kv => [Int.ofNat kv.1]))
  simp only [List.length_map] at hp
  rw [pick'_eq l _ d (fun i hi => by simpa using hp.mem_iff.1 hi)]
  have hs := take?_lexsort_sorted (l.map (fun kv => [Int.ofNat kv.1]))
  have e : take? (l.map (fun kv => [Int.ofNat kv.1])) (lexsort (l.map (fun kv => [Int.ofNat kv.1]))) []
      = (take? l (lexsort (l.map (fun kv => [Int.ofNat kv.1]))) d).map (fun kv => [Int.ofNat kv.1]) := by
    unfold take?
    rw [List.map_map]
    apply List.map_congr_left
    intro i hi
    have hi' : i < l.length := by simpa using hp.mem_iff.1 hi
    simp only [Function.comp]
    rw [getD_map' _ _ i d [] hi']
  rw [e, List.pairwise_map] at hs
  rw [List.pairwise_map]
  exact hs.imp (fun {a b} hab => by
    rw [lexLE_single] at hab
    have : (a.1 : Int) ≤ b.1 := by simpa using hab
    omega)

/-- sorting by distinct keys gives strictly increasing keys -/
theorem sortByKey_lt {β} (l : List (Nat × β)) (d : Nat × β) (hnd : (l.map (·.1)).Nodup) :
    ((Arr.sortByKey l).map (·.1)).Pairwise (· < ·) := by
  have h1 := sortByKey_sorted l d
  have h2 : ((Arr.sortByKey l).map (·.1)).Nodup := ((sortByKey_perm l d).map _).nodup_iff.2 hnd
  exact (h1.and h2).imp (fun {a b} hab => Nat.lt_of_le_of_ne hab.1 hab.2)

/-! ### commonSorted -/

theorem find?_none_of_keys_gt {γ} (bs : List (Nat × γ)) (k : Nat) (h : ∀ y ∈ bs, k < y.1) :
    bs.find? (fun y => y.1 == k) = none := by
  apply List.find?_eq_none.2
  intro y hy
  have := h y hy
  simp; omega

/-- on strictly increasing keys, `_iter_common_sorted` pairs every entry of the first list with the entry of the
second list carrying the same key, if there is one -/
theorem commonSorted_eq {β γ} (as : List (Nat × β)) (bs : List (Nat × γ))
    (ha : (as.map (·.1)).Pairwise (· < ·)) (hb : (bs.map (·.1)).Pairwise (· < ·)) :
    Arr.commonSorted as bs
      = as.filterMap (fun x => (bs.find? (fun y => y.1 == x.1)).map (fun y => (x.2, y.2))) := by
  induction as generalizing bs with
  | nil => simp [Arr.commonSorted]
  | cons a as iha =>
    induction bs with
    | nil => simp [Arr.commonSorted]
    | cons b bs ihb =>
      rw [Arr.commonSorted]
      simp only [List.map_cons, List.pairwise_cons, List.mem_map, forall_exists_index, and_imp,
        forall_apply_eq_imp_iff₂] at ha hb
      have ha' : (as.map (·.1)).Pairwise (· < ·) := ha.2
      have hb' : (bs.map (·.1)).Pairwise (· < ·) := hb.2
      have hbfull : ((b :: bs).map (·.1)).Pairwise (· < ·) := by
        simp only [List.map_cons, List.pairwise_cons, List.mem_map, forall_exists_index, and_imp,
          forall_apply_eq_imp_iff₂]
        exact hb
      by_cases h1 : a.1 < b.1
      · rw [if_pos h1, iha (b :: bs) ha' hbfull]
        simp only [List.filterMap_cons]
        have : (b :: bs).find? (fun y => y.1 == a.1) = none := by
          apply find?_none_of_keys_gt
          intro y hy
          rcases List.mem_cons.1 hy with rfl | hy
          · exact h1
          · have := hb.1 y hy; omega
        rw [this]
        rfl
      · rw [if_neg h1]
        by_cases h2 : b.1 < a.1
        · rw [if_pos h2]
          have hafull : ((a :: as).map (·.1)).Pairwise (· < ·) := by
            simp only [List.map_cons, List.pairwise_cons, List.mem_map, forall_exists_index, and_imp,
              forall_apply_eq_imp_iff₂]
            exact ha
          rw [ihb hb']
          apply List.filterMap_congr
          intro x hx
          have hxa : a.1 ≤ x.1 := by
            rcases List.mem_cons.1 hx with rfl | hx
            · exact Nat.le_refl _
            · exact Nat.le_of_lt (ha.1 x hx)
          have : (b.1 == x.1) = false := by simp; omega
          simp only [List.find?_cons, this]
        · rw [if_neg h2]
          have hab : a.1 = b.1 := by omega
          rw [iha bs ha' hb']
          simp only [List.filterMap_cons, List.find?_cons, hab, beq_self_eq_true, Option.map_some]
          congr 1
          apply List.filterMap_congr
          intro x hx
          have := ha.1 x hx
          have : (b.1 == x.1) = false := by simp; omega
          simp only [this]

end TenpyModel.C01B
