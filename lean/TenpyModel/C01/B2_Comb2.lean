import TenpyModel.C01.B2_Comb1
/-!
C01 part B2 — part 2: the fold of `insertAt` that `combine_legs` uses to place the pipes among the remaining
legs (`legs.insert(na, pipe)` for ascending `new_axes`), entry by entry; counting lemma for the positions that
are not new axes.
-/
namespace TenpyModel.C01B2.Comb
open TenpyModel.Core TenpyModel.C01B

theorem insertAt_getD {β} (i : Nat) : ∀ (l : List β) (x d : β) (_ : i ≤ l.length) (k : Nat),
    (Dense.insertAt l i x).getD k d = if k < i then l.getD k d else if k = i then x else l.getD (k - 1) d := by
  induction i with
  | zero =>
    intro l x d _ k
    cases k with
    | zero => simp [Dense.insertAt]
    | succ k => simp [Dense.insertAt]
  | succ i ih =>
    intro l x d hi k
    cases l with
    | nil => simp at hi
    | cons y l =>
      have h' : i ≤ l.length := by simpa using hi
      have e : Dense.insertAt (y :: l) (i + 1) x = y :: Dense.insertAt l i x := by simp [Dense.insertAt]
      rw [e]
      cases k with
      | zero => simp
      | succ k =>
        rw [List.getD_cons_succ, ih l x d h' k]
        by_cases h1 : k < i
        · simp [h1]
        · by_cases h2 : k = i
          · simp [h2]
          · have h3 : ¬ (k + 1 < i + 1) := by omega
            have h4 : ¬ (k + 1 = i + 1) := by omega
            rw [if_neg h1, if_neg h2, if_neg h3, if_neg h4]
            have : k + 1 - 1 = (k - 1) + 1 := by omega
            rw [this, List.getD_cons_succ]

theorem insertAt_length {β} (l : List β) (i : Nat) (x : β) : (Dense.insertAt l i x).length = l.length + 1 := by
  simp only [Dense.insertAt, List.length_append, List.length_take, List.length_cons, List.length_drop]
  omega

theorem insertPos_nat (n x : Nat) (h : x ≤ n) : Arr.insertPos n (x : Int) = x := by
  unfold Arr.insertPos
  split
  · omega
  · split
    · omega
    · simp

/-- `for na, p in zip(new_axes, pipes): legs.insert(na, p)` -/
def insFold {β} (base : List β) (pos : List Nat) (items : List β) : List β :=
  (pos.zip items).foldl (fun ls np => Dense.insertAt ls (Arr.insertPos ls.length (np.1 : Int)) np.2) base

theorem insFold_map {β γ} (f : β → γ) (pos : List Nat) : ∀ (items base : List β),
    (insFold base pos items).map f = insFold (base.map f) pos (items.map f) := by
  induction pos with
  | nil => intro items base; simp [insFold]
  | cons x pos ih =>
    intro items base
    cases items with
    | nil => simp [insFold]
    | cons y items =>
      have := ih items (Dense.insertAt base (Arr.insertPos base.length (x : Int)) y)
      simp only [insFold, List.zip_cons_cons, List.foldl_cons, List.map_cons] at this ⊢
      rw [this]
      simp [Dense.insertAt, List.map_take, List.map_drop]

theorem insFold_snoc {β} (base : List β) (pos : List Nat) (items : List β) (x : Nat) (y : β)
    (h : pos.length = items.length) :
    insFold base (pos ++ [x]) (items ++ [y])
      = Dense.insertAt (insFold base pos items) (Arr.insertPos (insFold base pos items).length (x : Int)) y := by
  simp only [insFold, List.zip_append h, List.foldl_append, List.zip_cons_cons, List.zip_nil_right, List.foldl_cons,
    List.foldl_nil]

/-- the result of the insertions for strictly ascending positions -/
theorem insFold_spec {β} (d : β) (pos : List Nat) : ∀ (items base : List β), items.length = pos.length →
    pos.Pairwise (· < ·) → (∀ x ∈ pos, x < base.length + pos.length) →
    (insFold base pos items).length = base.length + pos.length ∧
    ∀ k, k < base.length + pos.length → (insFold base pos items).getD k d =
      if pos.contains k then items.getD (pos.idxOf k) d else base.getD (k - (pos.filter (· < k)).length) d := by
  induction pos using List.reverseRecOn with
  | nil =>
    intro items base hl _ _
    have : items = [] := List.length_eq_zero_iff.1 hl
    subst this
    simp [insFold]
  | append_singleton pos0 x ih =>
    intro items base hl hpw hb
    rcases List.eq_nil_or_concat items with rfl | ⟨items0, y, rfl⟩
    · simp at hl
    rw [List.concat_eq_append] at hl ⊢
    have hl0 : items0.length = pos0.length := by simpa using hl
    have hpw' := List.pairwise_append.1 hpw
    have hlt : ∀ p ∈ pos0, p < x := fun p hp => hpw'.2.2 p hp x (by simp)
    have hxb : x < base.length + (pos0.length + 1) := by simpa using hb x (by simp)
    have hb0 : ∀ p ∈ pos0, p < base.length + pos0.length := by
      intro p hp
      have := hlt p hp
      omega
    obtain ⟨ihl, ihg⟩ := ih items0 base hl0 hpw'.1 hb0
    rw [insFold_snoc base pos0 items0 x y hl0.symm]
    have hxle : x ≤ (insFold base pos0 items0).length := by rw [ihl]; omega
    rw [insertPos_nat _ _ hxle]
    refine ⟨by rw [insertAt_length, ihl]; simp; omega, ?_⟩
    intro k hk
    rw [insertAt_getD x _ y d hxle k]
    have hxn : x ∉ pos0 := fun hx => Nat.lt_irrefl _ (hlt x hx)
    by_cases h1 : k < x
    · rw [if_pos h1, ihg k (by omega)]
      have hkx : k ≠ x := by omega
      by_cases hm : k ∈ pos0
      · have c1 : pos0.contains k = true := by simpa using hm
        have c2 : (pos0 ++ [x]).contains k = true := by simp [hm]
        rw [if_pos c1, if_pos c2, List.idxOf_append_of_mem hm]
        have := List.idxOf_lt_length_of_mem hm
        rw [getD_append_left' _ _ _ _ (by omega)]
      · have c1 : ¬ pos0.contains k = true := by simpa using hm
        have c2 : ¬ (pos0 ++ [x]).contains k = true := by simp [hm, hkx]
        rw [if_neg c1, if_neg c2, List.filter_append]
        have : [x].filter (fun p => decide (p < k)) = [] := by simp; omega
        rw [this, List.append_nil]
    · rw [if_neg h1]
      by_cases h2 : k = x
      · subst h2
        have c2 : (pos0 ++ [k]).contains k = true := by simp
        rw [if_pos rfl, if_pos c2, List.idxOf_append_of_notMem hxn]
        simp only [List.idxOf_cons_self, Nat.add_zero]
        rw [← hl0, List.getD_eq_getElem?_getD]
        simp
      · rw [if_neg h2]
        have hk1 : k - 1 < base.length + pos0.length := by simp at hk; omega
        have hm : k - 1 ∉ pos0 := fun hm => by have := hlt _ hm; omega
        have hm' : k ∉ pos0 := fun hm => by have := hlt _ hm; omega
        have c1 : ¬ pos0.contains (k - 1) = true := by simpa using hm
        have c2 : ¬ (pos0 ++ [x]).contains k = true := by simp [hm', h2]
        rw [ihg _ hk1, if_neg c1, if_neg c2]
        have f1 : pos0.filter (fun p => decide (p < k - 1)) = pos0 := by
          apply List.filter_eq_self.2
          intro p hp
          have := hlt p hp
          simp; omega
        have f2 : (pos0 ++ [x]).filter (fun p => decide (p < k)) = pos0 ++ [x] := by
          apply List.filter_eq_self.2
          intro p hp
          rcases List.mem_append.1 hp with hp | hp
          · have := hlt p hp
            simp; omega
          · simp at hp; subst hp; simp; omega
        rw [f1, f2]
        congr 1
        simp
        omega

/-- positions below `k` that are not in `pos`, counted -/
theorem count_nonNew (pos : List Nat) (hn : pos.Nodup) (k : Nat) :
    ((List.range k).filter (fun i => !pos.contains i)).length + (pos.filter (· < k)).length = k := by
  induction k with
  | zero => simp
  | succ k ih =>
    rw [List.range_succ, List.filter_append, List.length_append]
    have hc : (pos.filter (· < k + 1)).length
        = (pos.filter (· < k)).length + (if k ∈ pos then 1 else 0) := by
      clear ih
      induction pos with
      | nil => simp
      | cons p pos ih2 =>
        have hn' := List.nodup_cons.1 hn
        have ih3 := ih2 hn'.2
        simp only [List.filter_cons, List.mem_cons]
        by_cases h1 : p < k
        · have h2 : p < k + 1 := by omega
          have h3 : ¬ k = p := by omega
          simp only [h1, h2, decide_true, if_true, List.length_cons, h3, false_or]
          omega
        · by_cases h2 : p = k
          · subst h2
            have h4 : p ∉ pos := hn'.1
            simp only [h1, Nat.lt_succ_self, decide_true, decide_false, if_true, List.length_cons, true_or]
            simp only [h4, if_false] at ih3
            simp at ih3 ⊢
            omega
          · have h3 : ¬ p < k + 1 := by omega
            have h4 : ¬ k = p := fun e => h2 e.symm
            simp only [h1, h3, decide_false, h4, false_or]
            exact ih3
    rw [hc]
    by_cases hk : k ∈ pos
    · have : [k].filter (fun i => !pos.contains i) = [] := by simp [hk]
      rw [this, if_pos hk]; simp only [List.length_nil]; omega
    · have : [k].filter (fun i => !pos.contains i) = [k] := by simp [hk]
      rw [this, if_neg hk]; simp only [List.length_cons, List.length_nil]; omega

/-- the index of a non-new position among the non-new positions -/
theorem idxOf_nonNew (pos : List Nat) (n k : Nat) (hk : k < n) (hm : k ∉ pos) :
    ((List.range n).filter (fun i => !pos.contains i)).idxOf k
      = ((List.range k).filter (fun i => !pos.contains i)).length := by
  have e : List.range n = List.range k ++ (k :: (List.range (n - k - 1)).map (· + (k + 1))) := by
    have : n = k + (1 + (n - k - 1)) := by omega
    conv_lhs => rw [this, List.range_add, List.range_add]
    simp [Nat.add_comm, Nat.add_left_comm]
  rw [e, List.filter_append, List.filter_cons]
  have : (!pos.contains k) = true := by simp [hm]
  rw [if_pos this, List.idxOf_append_of_notMem]
  · simp
  · intro h
    have := (List.mem_filter.1 h).1
    simp at this

end TenpyModel.C01B2.Comb
