import TenpyModel.C01.B_Charge
/-!
C01 part B2 — `inner` with `do_conj=True`: for `test_equal` legs a block index stored in both tensors forces
`qtotal_b − qtotal_a ≡ 0`; so when the charge pre-check of `_inner_worker` fires, no block index is common.
-/
namespace TenpyModel.C01B2
open TenpyModel.Core TenpyModel.C01B

/-- equal legs (`test_equal`): block `k` carries the same physical charge on both -/
theorem getCharge_equal (la lb : Leg) (h : la.testEqual lb = true) (k : Nat) :
    la.mods = lb.mods ∧ makeValid lb.mods (lb.getCharge k) = makeValid lb.mods (la.getCharge k) := by
  unfold Leg.testEqual Leg.eq? at h
  split at h
  · simp at h
  · rename_i hm
    simp only [ne_eq, Decidable.not_not] at hm
    simp only [beq_iff_eq, Option.some.injEq, Bool.and_eq_true] at h
    obtain ⟨_, hph⟩ := h
    have hk := congrArg (fun l => l.getD k []) hph
    simp only [Leg.physCharges] at hk
    have hf : ∀ (m : List Nat) (s : Int), (fun c => makeValid m (cscale s c)) [] = [] := by
      intro m s; simp [makeValid, cscale]
    have e1 := Pipe.getD_map_nil (f := fun c => makeValid la.mods (cscale la.qconj c)) (hf _ _) la.charges k
    have e2 := Pipe.getD_map_nil (f := fun c => makeValid lb.mods (cscale lb.qconj c)) (hf _ _) lb.charges k
    rw [e1, e2] at hk
    have hm' : la.mods = lb.mods := hm
    rw [hm'] at hk
    exact ⟨hm', hk.symm⟩

theorem foldl_pair_eq (mods : List Nat) (Cb Ca : List Charge) (zb za : Charge)
    (hz : makeValid mods zb = makeValid mods za) (hl : Cb.length = Ca.length)
    (hp : ∀ i, i < Cb.length → makeValid mods (Cb.getD i []) = makeValid mods (Ca.getD i [])) :
    makeValid mods (Cb.foldl cadd zb) = makeValid mods (Ca.foldl cadd za) := by
  induction Cb generalizing Ca zb za with
  | nil =>
    cases Ca with
    | nil => exact hz
    | cons _ _ => simp at hl
  | cons cb Cb ih =>
    cases Ca with
    | nil => simp at hl
    | cons ca Ca =>
      simp only [List.length_cons, Nat.add_right_cancel_iff] at hl
      simp only [List.foldl_cons]
      apply ih Ca _ _ _ hl (fun i hi => by simpa using hp (i + 1) (by simpa using hi))
      have h0 : makeValid mods cb = makeValid mods ca := by simpa using hp 0 (by simp)
      rw [← makeValid_add, h0, makeValid_add, ← makeValid_add_left, hz, makeValid_add_left]

/-- leg-wise equal leg lists give every block index the same charge -/
theorem blockCharge_equal (mods : List Nat) (la lb : List Leg) (q : List Nat) (hl : la.length = lb.length)
    (hq : q.length = lb.length) (hc : Arr.legsEqual la lb = true) (hm : ∀ l ∈ lb, l.mods = mods) :
    blockChargeOf mods lb q = blockChargeOf mods la q := by
  unfold blockChargeOf csum
  apply foldl_pair_eq mods _ _ _ _ rfl (by simp [hl, hq])
  intro i hi
  simp only [List.length_zipWith, hq, Nat.min_self] at hi
  rw [zipWith_getD _ _ _ default 0 [] i hi (by omega), zipWith_getD _ _ _ default 0 [] i (by omega) (by omega)]
  have hci : (la.getD i default).testEqual (lb.getD i default) = true := by
    have := List.all_eq_true.1 hc ((List.zipWith Leg.testEqual la lb).getD i false)
      (getD_mem _ _ _ (by simp [hl, hi]))
    rw [zipWith_getD _ _ _ default default false i (by omega) hi] at this
    exact this
  have hmi : (lb.getD i default).mods = mods := hm _ (getD_mem _ _ _ hi)
  have := (getCharge_equal _ _ hci (q.getD i 0)).2
  rw [hmi] at this
  exact this

variable {α : Type}

/-- the block charge of a stored row has the width of `chinfo` -/
theorem blockCharge_length (b : Arr α) (hb : W b) (hvb : LegsValid b) (q : List Nat) (hq : q ∈ b.qdata) :
    (blockChargeOf b.mods b.lcs q).length = b.mods.length := by
  unfold blockChargeOf
  rw [makeValid_length, csum_length, Nat.min_self]
  intro c hc
  obtain ⟨i, hi, rfl⟩ := List.getElem_of_mem hc
  simp only [List.length_zipWith, hb.rowLen q hq, lcs_length, Nat.min_self] at hi
  rw [List.getElem_zipWith]
  have hi1 : i < b.lcs.length := by rw [lcs_length]; exact hi
  have hli : b.lcs[i] ∈ b.lcs := List.getElem_mem hi1
  unfold Leg.getCharge
  have hi2 : i < q.length := by rw [hb.rowLen q hq]; exact hi
  have hlen : ∀ (s : Int) (c : Charge), (cscale s c).length = c.length := fun s c => by simp [cscale]
  rw [hlen]
  apply (hvb _ hli).2
  apply getD_mem
  have := (hb.rowIn' q hq).getD_lt i (by rw [hb.rowLen q hq]; exact hi)
  rw [getD_map' _ _ i default 0 hi1, getD_lt _ _ _ hi1, getD_lt _ _ _ hi2] at this
  exact this

/-- the hypothesis `hch` of `innerWorker_eq` **with conjugation** (`do_conj=True`, legs `test_equal`) from the
charge rule -/
theorem hch_conj (a b : Arr α) (hb : W b) (hm : a.mods = b.mods) (hr : a.rank = b.rank)
    (hc : Arr.legsEqual a.lcs b.lcs = true) (hca : a.ChargeRule) (hcb : b.ChargeRule) (hvb : LegsValid b) :
    makeValid a.mods (csub b.qtotal a.qtotal) ≠ czero a.mods.length → ∀ q ∈ a.qdata, q ∉ b.qdata := by
  intro hne q hqa hqb
  apply hne
  have hl : a.lcs.length = b.lcs.length := by rw [lcs_length, lcs_length, hr]
  have heq := blockCharge_equal b.mods a.lcs b.lcs q hl (by rw [hb.rowLen q hqb, lcs_length]) hc
    (fun l hl' => (hvb l hl').1)
  rw [← hca q hqa, ← hcb q hqb, hm, ← heq]
  unfold csub
  rw [cadd_cneg]
  exact makeValid_czero _ _ (by rw [blockCharge_length b hb hvb q hqb])

section inner
variable [CommSemiring α]

omit [CommSemiring α] in
/-- the pre-check of `_inner_worker` is harmless for both values of `do_conj` -/
theorem hch_both (a b : Arr α) (hb : W b) (hm : a.mods = b.mods) (hr : a.rank = b.rank) (doConj : Bool)
    (hok : (if doConj then Arr.legsEqual a.lcs b.lcs else (List.zipWith Leg.testContractible a.lcs b.lcs).all id) = true)
    (hca : a.ChargeRule) (hcb : b.ChargeRule) (hvb : LegsValid b) :
    makeValid a.mods (if doConj then csub b.qtotal a.qtotal else cadd b.qtotal a.qtotal) ≠ czero a.mods.length →
      ∀ q ∈ a.qdata, q ∉ b.qdata := by
  cases doConj
  · exact hch_of_chargeRule a b hb hm hr (by simpa using hok) hca hcb hvb
  · exact hch_conj a b hb hm hr (by simpa using hok) hca hcb hvb

/-- `inner(a, b, axes='range', do_conj)` for both values of `do_conj`, no side hypothesis beyond well-formedness,
the charge rule and valid leg charges -/
theorem inner_range (st : α → α) (hst : st 0 = 0) (a b : Arr α) (ha : a.WF) (hb : b.WF)
    (hca : a.ChargeRule) (hcb : b.ChargeRule) (hvb : LegsValid b) (doConj : Bool) (x : α)
    (h : Arr.inner st a b .range doConj = .ok x) :
    x = Dense.inner (if doConj then a.toDense.map st else a.toDense) b.toDense := by
  obtain ⟨hr, hm, hok, hx⟩ := inner_range_ok st a b doConj x h
  rw [hx]
  exact innerWorker_eq st hst a b (W.of ha) (W.of hb) (slices_of_inner_checks a b doConj hr hok) doConj
    (hch_both a b (W.of hb) hm hr doConj hok hca hcb hvb)

/-- **`inner(a, b, axes='range', do_conj=True)`** `= Σ_i conj(a[i]) · b[i]` -/
theorem inner_conj (st : α → α) (hst : st 0 = 0) (a b : Arr α) (ha : a.WF) (hb : b.WF)
    (hca : a.ChargeRule) (hcb : b.ChargeRule) (hvb : LegsValid b) (x : α)
    (h : Arr.inner st a b .range true = .ok x) : x = Dense.inner (a.toDense.map st) b.toDense := by
  have := inner_range st hst a b ha hb hca hcb hvb true x h
  simpa using this

end inner
end TenpyModel.C01B2
