import TenpyModel.C01.B2_Comb12
/-!
C01 part B2 — part 13 (towards `split_legs ∘ combine_legs`): pieces of a list along the partition of the positions
given by the axis descriptions; the rows of `q_map` against `q_map_slices` (every row lies in the range of its
outgoing block; a row is determined by its incoming block indices).
-/
namespace TenpyModel.C01B2.Comb
open TenpyModel.Core TenpyModel.C01B

/-! ### pieces of a concatenation -/

theorem pick_range' {β} (pre pc post : List β) (d : β) :
    pick (pre ++ pc ++ post) (List.range' pre.length pc.length) d = pc := by
  apply ext_getD _ _ d (by simp [pick])
  intro i hi
  have hi' : i < pc.length := by simpa [pick] using hi
  unfold pick
  rw [getD_map' _ _ i 0 d (by simpa using hi')]
  have : (List.range' pre.length pc.length).getD i 0 = pre.length + i := by
    rw [getD_lt _ _ _ (by simpa using hi')]
    simp
  rw [this, List.append_assoc, List.getD_eq_getElem?_getD, List.getElem?_append_right (by omega)]
  simp only [Nat.add_sub_cancel_left]
  rw [List.getElem?_append_left hi', ← List.getD_eq_getElem?_getD]

theorem pick_pieces_aux {σ β} (part : σ → List Nat) (pieces : σ → List β) (d : β) (L : List σ) :
    ∀ (pre : List β) (m : Nat) (post : List β), (L.map part).flatten = List.range' pre.length m →
    (∀ s ∈ L, (pieces s).length = (part s).length) →
    ∀ s ∈ L, pick (pre ++ (L.map pieces).flatten ++ post) (part s) d = pieces s := by
  induction L with
  | nil => intro _ _ _ _ _ s hs; simp at hs
  | cons s0 L ih =>
    intro pre m post hfl hlen s hs
    simp only [List.map_cons, List.flatten_cons] at hfl ⊢
    have hk : (part s0).length ≤ m := by
      have := congrArg List.length hfl
      simp only [List.length_append, List.length_range'] at this
      omega
    have hsplit : List.range' pre.length m
        = List.range' pre.length (part s0).length ++ List.range' (pre.length + (part s0).length) (m - (part s0).length) := by
      have : m = (part s0).length + (m - (part s0).length) := by omega
      conv_lhs => rw [this]
      rw [List.range'_append_1]
    rw [hsplit] at hfl
    obtain ⟨h1, h2⟩ := List.append_inj hfl (by simp)
    have hl0 := hlen s0 (by simp)
    rcases List.mem_cons.1 hs with rfl | hs'
    · rw [h1, ← hl0]
      have e : pre ++ (pieces s ++ (L.map pieces).flatten) ++ post
          = pre ++ pieces s ++ ((L.map pieces).flatten ++ post) := by simp only [List.append_assoc]
      rw [e]
      exact pick_range' pre (pieces s) _ d
    · have := ih (pre ++ pieces s0) (m - (part s0).length) post
        (by rw [h2, List.length_append, hl0]) (fun t ht => hlen t (by simp [ht])) s hs'
      rw [← this]
      simp only [List.append_assoc]

/-- the piece of `(specs.map pieces).flatten` on the positions of one axis description -/
theorem pick_pieces {β} (specs : List AxS) (pieces : AxS → List β) (d : β) (n : Nat)
    (hstd : (specs.map AxS.part).flatten = List.range n)
    (hlen : ∀ s ∈ specs, (pieces s).length = s.part.length) :
    ∀ s ∈ specs, pick (specs.map pieces).flatten s.part d = pieces s := by
  intro s hs
  have := pick_pieces_aux AxS.part pieces d specs [] n [] (by rw [hstd, List.range_eq_range']; rfl) hlen s hs
  simpa using this

theorem InRange_flatten {β} (L : List β) (f g : β → List Nat) (h : ∀ s ∈ L, InRange (f s) (g s)) :
    InRange (L.map f).flatten (L.map g).flatten := by
  induction L with
  | nil => trivial
  | cons s L ih =>
    simp only [List.map_cons, List.flatten_cons]
    exact (InRange_append (h s (by simp)).length_eq).2 ⟨h s (by simp), ih (fun t ht => h t (by simp [ht]))⟩

/-! ### `q_map` rows and `q_map_slices` -/

theorem interval_of_steps (f : Nat → Nat) (j : Nat) : ∀ n, f 0 ≤ j → j < f n → ∃ I, I < n ∧ f I ≤ j ∧ j < f (I + 1) := by
  intro n
  induction n with
  | zero => intro h0 hn; omega
  | succ n ih =>
    intro h0 hn
    by_cases h : f n ≤ j
    · exact ⟨n, by omega, h, hn⟩
    · obtain ⟨I, hI, h1, h2⟩ := ih h0 (by omega)
      exact ⟨I, by omega, h1, h2⟩

theorem Pipe.SlicesOK.mono_last {p : Pipe} (S : p.SlicesOK) (I : Nat) (hI : I ≤ p.leg.blockNumber) :
    p.qMapSlices.getD I 0 ≤ p.qMap.length := by
  rw [← S.last]
  have : ∀ d, I + d ≤ p.leg.blockNumber → p.qMapSlices.getD I 0 ≤ p.qMapSlices.getD (I + d) 0 := by
    intro d
    induction d with
    | zero => intro _; exact Nat.le_refl _
    | succ d ih =>
      intro hd
      have := S.nonempty (I + d) (by omega)
      have := ih (by omega)
      rw [← Nat.add_assoc]
      omega
  have := this (p.leg.blockNumber - I) (by omega)
  rwa [Nat.add_sub_cancel' hI] at this

/-- every row of `q_map` lies in the row range of its outgoing block -/
theorem Pipe.SlicesOK.row_range {p : Pipe} (S : p.SlicesOK) (j : Nat) (hj : j < p.qMap.length) :
    (p.qMap.getD j []).getD 2 0 < p.leg.blockNumber
    ∧ p.qMapSlices.getD ((p.qMap.getD j []).getD 2 0) 0 ≤ j
    ∧ j < p.qMapSlices.getD ((p.qMap.getD j []).getD 2 0 + 1) 0 := by
  obtain ⟨I, hI, h1, h2⟩ := interval_of_steps (fun I => p.qMapSlices.getD I 0) j p.leg.blockNumber
    (by simp only [S.first]; omega) (by simp only [S.last]; exact hj)
  have := (S.sector I hI j h1 h2).1
  rw [this]
  exact ⟨hI, h1, h2⟩

/-- a row of `q_map` is the row of its incoming block indices -/
theorem qMap_row_inv (legs : List Leg) (qconj : Int) (sort bunch : Bool) (hsh : ∀ l ∈ legs, l.Shape) (j : Nat)
    (hj : j < (Pipe.init legs qconj sort bunch).qMap.length) :
    InRange (((Pipe.init legs qconj sort bunch).qMap.getD j []).drop 3) (Pipe.gSubq legs)
    ∧ (Pipe.init legs qconj sort bunch).mapIncomingQind (((Pipe.init legs qconj sort bunch).qMap.getD j []).drop 3) = j := by
  have hperm := Pipe.qmap_perm legs qconj sort bunch
  have hnd : ((Pipe.init legs qconj sort bunch).qMap.map (fun x => x.drop 3)).Nodup :=
    hperm.nodup_iff.2 (Pipe.gridC_nodup _)
  have hmem : ((Pipe.init legs qconj sort bunch).qMap.getD j []).drop 3
      ∈ (Pipe.init legs qconj sort bunch).qMap.map (fun x => x.drop 3) :=
    List.mem_map.2 ⟨_, getD_mem _ j [] hj, rfl⟩
  have hin : InRange (((Pipe.init legs qconj sort bunch).qMap.getD j []).drop 3) (Pipe.gSubq legs) :=
    (mem_gridC _ _).1 (hperm.mem_iff.1 hmem)
  refine ⟨hin, ?_⟩
  obtain ⟨sizes1, L⟩ := Pipe.located legs qconj sort bunch hsh
  obtain ⟨_, l2, l3, _⟩ := L.loc _ hin
  -- two rows with the same incoming block indices coincide
  have hinj := List.nodup_iff_injective_getElem.1 hnd
  have hlen : ((Pipe.init legs qconj sort bunch).qMap.map (fun x => x.drop 3)).length
      = (Pipe.init legs qconj sort bunch).qMap.length := List.length_map _
  have e := @hinj ⟨_, by rw [hlen]; exact l2⟩ ⟨j, by rw [hlen]; exact hj⟩ (by
    simp only [List.getElem_map]
    rw [← getD_lt _ _ [] l2, ← getD_lt _ _ [] hj]
    exact l3)
  exact Fin.mk.inj e

end TenpyModel.C01B2.Comb
