import TenpyModel.C01.B2_Comb8
/-!
C01 part B2 — part 9: the call that `combine_legs` passes to `combineStd` is in standard form (`StdForm`), the
pipes made by `_combine_legs_make_pipes` fit (`PipesOK`); the public `combine_legs` when no transposition is
needed (`combineLegs_places_id`).
-/
namespace TenpyModel.C01B2.Comb
open TenpyModel.Core TenpyModel.C01B

variable {α : Type}

theorem cNonComb_congr (rank : Nat) (cl cl' : List (List Nat)) (h : ∀ x, x ∈ cl.flatten ↔ x ∈ cl'.flatten) :
    cNonComb rank cl = cNonComb rank cl' := by
  unfold cNonComb
  apply List.filter_congr
  intro x _
  have := h x
  by_cases hx : x ∈ cl.flatten
  · simp [hx, this.1 hx]
  · have hx' : x ∉ cl'.flatten := fun h' => hx (this.2 h')
    simp [hx, hx']

theorem cNonComb_pick (rank : Nat) (cl : List (List Nat)) (order : List Nat)
    (hp : order.Perm (List.range cl.length)) : cNonComb rank (pick cl order []) = cNonComb rank cl :=
  cNonComb_congr rank _ _ (fun _ => (pick_perm cl order [] hp).flatten.mem_iff)

/-- the source axes behind the result axes are the insertions of the groups among the spectators -/
theorem cParts_eq_insFold (cl : List (List Nat)) (nonComb na : List Nat) (hl : na.length = cl.length)
    (hasc : na.Pairwise (· < ·)) (hlt : ∀ x ∈ na, x < nonComb.length + cl.length) :
    cParts (nonComb.length + cl.length) cl nonComb na = insFold (nonComb.map (fun x => [x])) na cl := by
  have hbl : (nonComb.map (fun x => [x])).length = nonComb.length := List.length_map _
  obtain ⟨h1, h2⟩ := insFold_getD ([] : List Nat) na cl (nonComb.map (fun x => [x])) hl.symm hasc
    (by rw [hbl, hl]; exact hlt)
  rw [hbl, hl] at h1 h2
  apply ext_getD _ _ [] (by rw [h1]; simp [cParts])
  intro k hk
  have hk' : k < nonComb.length + cl.length := by simpa [cParts] using hk
  rw [h2 k hk']
  unfold cParts
  rw [getD_map' _ _ k 0 [] (by simpa using hk'), getD_range _ _ hk']
  by_cases hc : na.contains k = true
  · rw [if_pos hc, if_pos hc]
  · rw [if_neg hc, if_neg hc]
    have hm : k ∉ na := by simpa using hc
    have hj := (cNonNew_idxOf nonComb.length na hasc (by rw [hl]; exact hlt) k (by rw [hl]; exact hk') hm).2
    rw [hl] at hj
    rw [getD_map' _ _ _ 0 [] hj]

/-- the data `combine_legs` computes from `new_axes`: reordered groups / new axes -/
structure Reordered (rank : Nat) (cli0 : List (List Nat)) (na0 : List Nat) (transp : List Nat) : Prop where
  len : na0.length = cli0.length
  asc : (pick na0 (Arr.argsortInt (na0.map Int.ofNat)) 0).Pairwise (· < ·)
  lt : ∀ x ∈ pick na0 (Arr.argsortInt (na0.map Int.ofNat)) 0, x < (cNonComb rank cli0).length + cli0.length
  nonComb : cNonComb rank (pick cli0 (Arr.argsortInt (na0.map Int.ofNat)) []) = cNonComb rank cli0
  transp : transp = (insFold ((cNonComb rank cli0).map (fun x => [x])) (pick na0 (Arr.argsortInt (na0.map Int.ofNat)) 0)
    (pick cli0 (Arr.argsortInt (na0.map Int.ofNat)) [])).flatten
  parts : cParts ((cNonComb rank cli0).length + cli0.length) (pick cli0 (Arr.argsortInt (na0.map Int.ofNat)) [])
      (cNonComb rank cli0) (pick na0 (Arr.argsortInt (na0.map Int.ofNat)) 0)
    = insFold ((cNonComb rank cli0).map (fun x => [x])) (pick na0 (Arr.argsortInt (na0.map Int.ofNat)) 0)
        (pick cli0 (Arr.argsortInt (na0.map Int.ofNat)) [])

theorem reordered_of (rank : Nat) (cli0 : List (List Nat)) (newAxes : Option (List Int)) (na0 transp : List Nat)
    (h : Arr.combineNewAxes rank cli0 newAxes = .ok (na0, transp)) (hn : na0.Nodup) :
    Reordered rank cli0 na0 transp := by
  obtain ⟨hlen, hlt, htr⟩ := combineNewAxes_unfold rank cli0 newAxes na0 transp h
  have hp := argsort_perm na0
  have hp' : (Arr.argsortInt (na0.map Int.ofNat)).Perm (List.range cli0.length) := by rw [← hlen]; exact hp
  have hasc := argsort_strict na0 hn
  have hlt' : ∀ x ∈ pick na0 (Arr.argsortInt (na0.map Int.ofNat)) 0, x < (cNonComb rank cli0).length + cli0.length :=
    fun x hx => hlt x ((pick_perm na0 _ 0 hp).mem_iff.1 hx)
  have hl' : (pick na0 (Arr.argsortInt (na0.map Int.ofNat)) 0).length
      = (pick cli0 (Arr.argsortInt (na0.map Int.ofNat)) []).length := by rw [pick_length, pick_length]
  have hcl : (pick cli0 (Arr.argsortInt (na0.map Int.ofNat)) []).length = cli0.length := by
    rw [pick_length, hp.length_eq, List.length_range, hlen]
  refine ⟨hlen, hasc, hlt', cNonComb_pick rank cli0 _ hp', ?_, ?_⟩
  · rw [htr]
    unfold cT
    rw [foldl_order_insFold na0 cli0 []]
  · have := cParts_eq_insFold (pick cli0 (Arr.argsortInt (na0.map Int.ofNat)) []) (cNonComb rank cli0)
      (pick na0 (Arr.argsortInt (na0.map Int.ofNat)) 0) hl' hasc (by rw [hcl]; exact hlt')
    rw [hcl] at this
    exact this

/-- without transposition the call is in standard form -/
theorem stdForm_of_range (rank : Nat) (cli0 : List (List Nat)) (na0 transp : List Nat)
    (hr : Reordered rank cli0 na0 transp) (htr : transp = List.range rank) :
    StdForm rank (pick cli0 (Arr.argsortInt (na0.map Int.ofNat)) []) (pick na0 (Arr.argsortInt (na0.map Int.ofNat)) 0) := by
  have hcl : (pick cli0 (Arr.argsortInt (na0.map Int.ofNat)) []).length = cli0.length := by
    rw [pick_length, (argsort_perm na0).length_eq, List.length_range, hr.len]
  unfold StdForm
  rw [hr.nonComb, hcl]
  refine ⟨hr.asc, hr.lt, ?_⟩
  rw [hr.parts, ← hr.transp, htr]

theorem pipesOK_pick (a : Arr α) (cli0 : List (List Nat)) (ps0 : List ALeg) (order : List Nat)
    (hp : order.Perm (List.range cli0.length)) (h : PipesOK a cli0 ps0) :
    PipesOK a (pick cli0 order []) (pick ps0 order default) := by
  intro g hg
  rw [pick_length] at hg
  have hlt : order.getD g 0 < cli0.length := perm_range_lt order _ hp g hg
  unfold pick
  rw [getD_map' _ _ g 0 default hg, getD_map' _ _ g 0 [] hg]
  exact h _ hlt

theorem mapM_except_getD {β γ ε : Type} (f : β → Except ε γ) (l : List β) (r : List γ) (h : l.mapM f = .ok r)
    (d : β) (e : γ) : ∀ i, i < l.length → f (l.getD i d) = .ok (r.getD i e) := by
  induction l generalizing r with
  | nil => intro i hi; simp at hi
  | cons x xs ih =>
    rw [List.mapM_cons] at h
    cases hx : f x with
    | error e => simp [hx, bind, Except.bind] at h
    | ok y =>
      cases hxs : xs.mapM f with
      | error e => simp [hx, hxs, bind, Except.bind] at h
      | ok ys =>
        simp only [hx, hxs, bind, Except.bind, pure, Except.pure, Except.ok.injEq] at h
        subst h
        intro i hi
        cases i with
        | zero => simpa using hx
        | succ i =>
          simp only [List.getD_cons_succ]
          exact ih ys hxs i (by simpa using hi)

section zero
variable [Zero α]

/-- **the public `combine_legs`, no transposition needed** (the groups are runs of consecutive axes, in order):
the result is `combineStd` of `a` itself, the call is in standard form, and entries are placed by the pipes' maps.
`hP`: the pipes fit (automatic for `pipes = None`, see `makePipes_none`); `hN`: the normalised `new_axes` are
distinct (the code does not check this). -/
theorem combineLegs_places_id (a r : Arr α) (ha : a.WF) (cl : List (List Ax)) (newAxes : Option (List Int))
    (pipes : Option (List (Option ALeg))) (qconj : List (Option Int)) (ps0 : List ALeg) (cli0 : List (List Nat))
    (na0 : List Nat) (hps : a.combineMakePipes cl pipes qconj = .ok ps0) (hcli : cl.mapM a.getLegIndices = .ok cli0)
    (hnt : Arr.combineNewAxes a.rank cli0 newAxes = .ok (na0, List.range a.rank))
    (hP : PipesOK a cli0 ps0) (hN : na0.Nodup)
    (h : a.combineLegs cl newAxes pipes qconj = .ok r) :
    let cli := pick cli0 (Arr.argsortInt (na0.map Int.ofNat)) []
    let na := pick na0 (Arr.argsortInt (na0.map Int.ofNat)) 0
    let ps := pick ps0 (Arr.argsortInt (na0.map Int.ofNat)) default
    a.combineStd cli na ps (cLabels a) = .ok r ∧ StdForm a.rank cli na ∧ PipesOK a cli ps
    ∧ na.length = cli.length ∧ ps.length = cli.length ∧ r.WF
    ∧ r.legs = cLegs a cli na ps ∧ r.qtotal = makeValid a.mods a.qtotal
    ∧ ∀ idx, InRange idx a.shape →
        InRange (combIdx a cli na ps idx) r.shape ∧ r.entry (combIdx a cli na ps idx) = a.entry idx := by
  intro cli na ps
  obtain ⟨ps0', cli0', na0', transp', _, hps', hcli', _, hnt', hcase⟩ := combineLegs_unfold a r cl newAxes pipes qconj h
  rw [hps] at hps'
  rw [hcli] at hcli'
  cases hps'
  cases hcli'
  rw [hnt] at hnt'
  cases hnt'
  have hr := reordered_of a.rank cli0 newAxes na0 _ hnt hN
  have hstd := stdForm_of_range a.rank cli0 na0 _ hr rfl
  have hp : (Arr.argsortInt (na0.map Int.ofNat)).Perm (List.range cli0.length) := by
    rw [← hr.len]; exact argsort_perm na0
  have hpo := pipesOK_pick a cli0 ps0 _ hp hP
  have hl1 : na.length = cli.length := by simp only [na, cli, pick_length]
  have hl2 : ps.length = cli.length := by simp only [ps, cli, pick_length]
  rcases hcase with ⟨_, hstdcall⟩ | ⟨hne, _⟩
  · have hmain := combine_places a r ha cli na ps (cLabels a) hl1 hl2 hpo hstd hstdcall
    exact ⟨hstdcall, hstd, hpo, hl1, hl2, combine_WF a r ha cli na ps (cLabels a) hl1 hl2 hpo hstd hstdcall,
      hmain.1, hmain.2.2.2.1, hmain.2.2.2.2.2.2.2.2⟩
  · exact absurd rfl hne

end zero
end TenpyModel.C01B2.Comb
