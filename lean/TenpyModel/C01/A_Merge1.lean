import TenpyModel.C06.ListProofs
import TenpyModel.C01.SortProofs
/-!
C01 — the merge loop of `ibinary_blockwise`, part 1: the F-style key `np.sum(qdata * stride, axis=1)` is a
strictly monotone, injective encoding of in-range block rows with respect to the order of `np.lexsort(qdata.T)`
(last column most significant).
-/
namespace TenpyModel.Core

theorem makeStrideC_snoc (l : List Nat) (s : Nat) :
    makeStrideC (l ++ [s]) = (makeStrideC l).map (· * s) ++ [1] := by
  induction l with
  | nil => simp [makeStrideC]
  | cons n l ih =>
    rw [List.cons_append, makeStrideC_cons, makeStrideC_cons, ih]
    simp [List.prod_append]

theorem dot_snoc (a b : List Nat) (x y : Nat) (h : a.length = b.length) :
    dot (a ++ [x]) (b ++ [y]) = dot a b + x * y := by
  induction a generalizing b with
  | nil => cases b with
    | nil => simp
    | cons _ _ => simp at h
  | cons a0 a ih => cases b with
    | nil => simp at h
    | cons b0 b =>
      simp only [List.length_cons, Nat.add_right_cancel_iff] at h
      simp only [List.cons_append, dot_cons, ih b h]
      omega

theorem dot_map_mul_right (a b : List Nat) (s : Nat) : dot a (b.map (· * s)) = dot a b * s := by
  induction a generalizing b with
  | nil => simp
  | cons a0 a ih => cases b with
    | nil => simp
    | cons b0 b =>
      simp only [List.map_cons, dot_cons, ih b]
      rw [Nat.add_mul, Nat.mul_assoc]

/-- F-style strides are the reversed C-style strides of the reversed shape -/
theorem dot_strideF_go (bn r : List Nat) (acc : Nat) (h : r.length = bn.length) :
    dot r (makeStrideF.go acc bn) = acc * dot r.reverse (makeStrideC bn.reverse) := by
  induction bn generalizing r acc with
  | nil => cases r with
    | nil => simp [makeStrideF.go]
    | cons _ _ => simp at h
  | cons s rest ih => cases r with
    | nil => simp at h
    | cons x r' =>
      simp only [List.length_cons, Nat.add_right_cancel_iff] at h
      simp only [makeStrideF.go]
      rw [dot_cons, ih r' (acc * s) h, List.reverse_cons, List.reverse_cons, makeStrideC_snoc,
        dot_snoc _ _ _ _ (by simp [makeStrideC_length, h]), dot_map_mul_right]
      grind

theorem InRange_snoc {r bn : List Nat} {x n : Nat} (h : InRange r bn) (hx : x < n) :
    InRange (r ++ [x]) (bn ++ [n]) := by
  induction r generalizing bn with
  | nil => cases bn with
    | nil => exact ⟨hx, trivial⟩
    | cons _ _ => exact h.elim
  | cons q qs ih => cases bn with
    | nil => exact h.elim
    | cons m ms => exact ⟨h.1, ih h.2⟩

theorem InRange_reverse {r bn : List Nat} (h : InRange r bn) : InRange r.reverse bn.reverse := by
  induction r generalizing bn with
  | nil => cases bn with
    | nil => exact trivial
    | cons _ _ => exact h.elim
  | cons q qs ih => cases bn with
    | nil => exact h.elim
    | cons m ms =>
      rw [List.reverse_cons, List.reverse_cons]
      exact InRange_snoc (ih h.2) h.1

theorem InRange_of_getD (r bn : List Nat) (hl : r.length = bn.length)
    (h : ∀ k, k < bn.length → r.getD k 0 < bn.getD k 0) : InRange r bn := by
  induction r generalizing bn with
  | nil => cases bn with
    | nil => exact trivial
    | cons _ _ => simp at hl
  | cons q qs ih => cases bn with
    | nil => simp at hl
    | cons m ms =>
      simp only [List.length_cons, Nat.add_right_cancel_iff] at hl
      refine ⟨by simpa using h 0 (by simp), ih ms hl (fun k hk => ?_)⟩
      simpa using h (k + 1) (by simpa using hk)

/-- C-order mixed radix is monotone for the lexicographic order (first column most significant) -/
theorem dotC_mono (R S SH : List Nat) (hR : InRange R SH) (hS : InRange S SH)
    (h : lexLE.go (R.map Int.ofNat) (S.map Int.ofNat) = true) :
    dot R (makeStrideC SH) ≤ dot S (makeStrideC SH) := by
  induction R generalizing S SH with
  | nil => cases SH with
    | nil => cases S with
      | nil => exact Nat.le_refl _
      | cons _ _ => exact hS.elim
    | cons _ _ => exact hR.elim
  | cons x R ih => cases SH with
    | nil => exact hR.elim
    | cons n ns => cases S with
      | nil => exact hS.elim
      | cons y S =>
        rw [makeStrideC_cons, dot_cons, dot_cons]
        simp only [List.map_cons, lexLE.go, Int.ofNat_eq_natCast] at h
        have b1 := dot_stride_lt R ns hR.2
        by_cases hxy : x < y
        · have h2 : (x + 1) * ns.prod ≤ y * ns.prod := Nat.mul_le_mul_right _ hxy
          rw [Nat.add_mul] at h2
          omega
        · by_cases hyx : y < x
          · rw [if_neg (by omega), if_pos (by omega)] at h
            exact absurd h (by decide)
          · rw [if_neg (by omega), if_neg (by omega)] at h
            have e : x = y := by omega
            subst e
            have := ih S ns hR.2 hS.2 h
            omega

namespace Arr

theorem fKey_eq (bn r : List Nat) (h : r.length = bn.length) :
    fKey bn r = dot r.reverse (makeStrideC bn.reverse) := by
  unfold fKey makeStrideF
  rw [dot_strideF_go bn r 1 h, Nat.one_mul]

/-- the key is injective on in-range rows -/
theorem fKey_inj (bn r s : List Nat) (hr : InRange r bn) (hs : InRange s bn) (e : fKey bn r = fKey bn s) :
    r = s := by
  rw [fKey_eq bn r hr.length_eq, fKey_eq bn s hs.length_eq] at e
  exact List.reverse_inj.1 (dot_stride_inj _ _ _ (InRange_reverse hr) (InRange_reverse hs) e)

/-- the key is monotone with respect to the comparison of `np.lexsort(qdata.T)` -/
theorem fKey_mono (bn r s : List Nat) (hr : InRange r bn) (hs : InRange s bn)
    (h : lexLE (r.map Int.ofNat) (s.map Int.ofNat) = true) : fKey bn r ≤ fKey bn s := by
  rw [fKey_eq bn r hr.length_eq, fKey_eq bn s hs.length_eq]
  apply dotC_mono _ _ _ (InRange_reverse hr) (InRange_reverse hs)
  unfold lexLE at h
  simpa only [← List.map_reverse] using h

theorem fKey_lt (bn r s : List Nat) (hr : InRange r bn) (hs : InRange s bn)
    (h : lexLE (r.map Int.ofNat) (s.map Int.ofNat) = true) (hne : r ≠ s) : fKey bn r < fKey bn s :=
  Nat.lt_of_le_of_ne (fKey_mono bn r s hr hs h) (fun e => hne (fKey_inj bn r s hr hs e))

/-- lexsorted, duplicate-free, in-range rows have strictly increasing keys -/
theorem keys_sorted (bn : List Nat) (rows : List (List Nat)) (hin : ∀ r ∈ rows, InRange r bn)
    (hnd : rows.Nodup) (hs : isLexsorted rows = true) : (rows.map (fKey bn)).Pairwise (· < ·) := by
  unfold isLexsorted lexsortNat at hs
  have h1 : lexsort (natRows rows) = List.range (natRows rows).length := by
    rw [natRows_length]; exact eq_of_beq hs
  have h2 := sorted_of_lexsort _ h1
  unfold natRows at h2
  rw [List.pairwise_map] at h2
  rw [List.pairwise_map]
  have h3 := h2.and (List.nodup_iff_pairwise_ne.1 hnd)
  exact h3.imp_of_mem (fun ha hb hab => fKey_lt bn _ _ (hin _ ha) (hin _ hb) hab.1 hab.2)

/-- in-range rows with strictly increasing keys are lexsorted -/
theorem isLexsorted_of_keys (bn : List Nat) (rows : List (List Nat)) (hin : ∀ r ∈ rows, InRange r bn)
    (h : (rows.map (fKey bn)).Pairwise (· < ·)) : isLexsorted rows = true := by
  have h2 : (natRows rows).Pairwise (fun a b => lexLE a b = true) := by
    unfold natRows
    rw [List.pairwise_map]
    rw [List.pairwise_map] at h
    refine h.imp_of_mem (fun {r s} ha hb hab => ?_)
    rcases lexLE_total (r.map Int.ofNat) (s.map Int.ofNat) with h | h
    · exact h
    · have := fKey_mono bn _ _ (hin _ hb) (hin _ ha) h
      omega
  have h3 := lexsort_of_sorted _ h2
  unfold isLexsorted lexsortNat
  rw [h3, natRows_length]
  simp

end Arr
end TenpyModel.Core
