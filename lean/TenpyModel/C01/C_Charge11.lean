import TenpyModel.C01.C_Charge10
import TenpyModel.C01.C_Charge3
/-!
C01 part C — closure under part A's operations, file 2: `take_slice` and `squeeze` (axes removed at a fixed block
index; `qtotal` reduced by the removed charges).
-/
namespace TenpyModel.C01C
open TenpyModel.Core TenpyModel.C01B TenpyModel.C01B2
open TenpyModel.Core.Arr (permuteList)

variable {α : Type}

/-- the remaining axes followed by the removed ones: a permutation -/
theorem keepN_perm (n : Nat) (ax : List Nat) (hnd : ax.Nodup) (hlt : ∀ k ∈ ax, k < n) :
    IsPerm (Dense.keepAx n ax ++ ax) n := by
  apply IsPerm.of_perm
  apply (List.perm_ext_iff_of_nodup ?_ List.nodup_range).2
  · intro k
    simp only [List.mem_append, Dense.mem_keepAx, List.mem_range]
    constructor
    · rintro (h | h)
      · exact h.1
      · exact hlt k h
    · intro hk
      by_cases e : k ∈ ax
      · exact Or.inr e
      · exact Or.inl ⟨hk, e⟩
  · rw [List.nodup_append]
    refine ⟨Dense.keepAx_nodup _ _, hnd, ?_⟩
    intro x hx y hy e
    subst e
    exact ((Dense.mem_keepAx _ _ _).1 hx).2 hy

theorem zipWith_map_map {β γ δ ε} (L : List β) (g : β → γ) (k : β → δ) (f : γ → δ → ε) :
    List.zipWith f (L.map g) (L.map k) = L.map (fun s => f (g s) (k s)) := by
  induction L with
  | nil => rfl
  | cons x L ih => simp [ih]

/-- the charge sum of a row, split into the remaining legs and the removed ones -/
theorem csum_remove_split (a : Arr α) (ax : List Nat) (hnd : ax.Nodup) (hlt : ∀ k ∈ ax, k < a.rank)
    (q : List Nat) (hq : q.length = a.rank) (n : Nat) :
    csum n (chs a.lcs q)
      = csum n (chs ((Dense.keepAx a.rank ax).map a.lc) (pick q (Dense.keepAx a.rank ax) 0)
          ++ ax.map (fun k => (a.lc k).getCharge (q.getD k 0))) := by
  have hp := keepN_perm a.rank ax hnd hlt
  have hlen : (chs a.lcs q).length = a.rank := by
    unfold chs; rw [List.length_zipWith, lcs_length, hq, Nat.min_self]
  have e1 : (permuteList (chs a.lcs q) (Dense.keepAx a.rank ax ++ ax) []).Perm (chs a.lcs q) :=
    permuteList_perm _ _ _ (by rw [hlen]; exact hp)
  rw [← csum_perm n _ _ e1]
  unfold chs
  rw [← hp.zipWith_permute_both _ a.lcs default ([] : Charge) (lcs_length a) q hq]
  have hpl : ∀ {β} (xs : List β) (d : β), permuteList xs (Dense.keepAx a.rank ax ++ ax) d
      = (Dense.keepAx a.rank ax).map (fun k => xs.getD k d) ++ ax.map (fun k => xs.getD k d) := by
    intro β xs d; simp [permuteList]
  rw [hpl, hpl, List.zipWith_append (by simp)]
  congr 2
  · unfold pick
    congr 1
    apply List.map_congr_left
    intro k hk
    exact Arr.lc_eq a k ((Dense.mem_keepAx _ _ _).1 hk).1
  · rw [zipWith_map_map]
    apply List.map_congr_left
    intro k hk
    rw [Arr.lc_eq a k (hlt k hk)]

theorem csub_length (a b : Charge) : (csub a b).length = min a.length b.length := by
  simp [csub, cadd, cneg]

theorem csum_cons (n : Nat) (c : Charge) (L : List Charge) (hc : c.length = n) (hL : ∀ x ∈ L, x.length = n) :
    csum n (c :: L) = cadd c (csum n L) := by
  have : c :: L = [c] ++ L := rfl
  rw [this, csum_append _ _ _ (by intro x hx; simp only [List.mem_singleton] at hx; rw [hx]; exact hc) hL]
  congr 1
  simp only [csum, List.foldl_cons, List.foldl_nil]
  exact czero_cadd_left _ _ hc

/-- `((z - c₁) - c₂) - … = z - Σ cᵢ` -/
theorem foldl_csub (n : Nat) (L : List Charge) (hL : ∀ c ∈ L, c.length = n) (z : Charge) (hz : z.length = n) :
    L.foldl csub z = csub z (csum n L) := by
  induction L generalizing z with
  | nil =>
    simp only [List.foldl_nil, csum, csub]
    have : cneg (czero n) = czero n := by simp [cneg, czero]
    rw [this, cadd_czero_right _ _ hz]
  | cons c L ih =>
    have hc := hL c (by simp)
    have hL' : ∀ x ∈ L, x.length = n := fun x hx => hL x (by simp [hx])
    rw [List.foldl_cons, ih hL' _ (by rw [csub_length, hz, hc, Nat.min_self]), csum_cons n c L hc hL']
    have hS := csum_length n L hL'
    unfold csub cadd cneg
    apply List.ext_getElem
    · simp only [List.length_zipWith, List.length_map]; omega
    · intro i h1 h2
      simp only [List.getElem_zipWith, List.getElem_map]
      omega

/-- `make_valid((K + S) mod - S) = make_valid(K)` -/
theorem charge_remove_algebra (mods : List Nat) (K S : Charge) (lK : K.length = mods.length)
    (lS : S.length = mods.length) :
    makeValid mods (csub (makeValid mods (cadd K S)) S) = makeValid mods K := by
  unfold csub
  rw [makeValid_add_left]
  congr 1
  unfold cadd cneg
  apply List.ext_getElem
  · simp only [List.length_zipWith, List.length_map]; omega
  · intro i h1 h2
    simp only [List.getElem_zipWith, List.getElem_map]
    omega

/-- **removing axes at the block indices of a stored row**: the block charge of the remaining legs is
`make_valid(qtotal - Σ removed charges)` -/
theorem removed_charge (a : Arr α) (ha : W a) (hca : a.ChargeRule) (hva : LegsValid a) (ax : List Nat)
    (hnd : ax.Nodup) (hlt : ∀ k ∈ ax, k < a.rank) (q : List Nat) (hq : q ∈ a.qdata) :
    blockChargeOf a.mods ((Dense.keepAx a.rank ax).map a.lc) (pick q (Dense.keepAx a.rank ax) 0)
      = makeValid a.mods ((ax.map (fun k => (a.lc k).getCharge (q.getD k 0))).foldl csub a.qtotal) := by
  have hql := ha.rowLen q hq
  have vK : ∀ c ∈ chs ((Dense.keepAx a.rank ax).map a.lc) (pick q (Dense.keepAx a.rank ax) 0),
      c.length = a.mods.length := by
    apply chs_len
    · intro l hl
      obtain ⟨k, hk, rfl⟩ := List.mem_map.1 hl
      exact (hva _ (Arr.lc_mem_lcs_sl a k ((Dense.mem_keepAx _ _ _).1 hk).1)).2
    · unfold pick
      rw [List.map_map]
      apply inRange_map
      intro k hk
      exact ha.rowLt q hq k ((Dense.mem_keepAx _ _ _).1 hk).1
  have vS : ∀ c ∈ ax.map (fun k => (a.lc k).getCharge (q.getD k 0)), c.length = a.mods.length := by
    intro c hc
    obtain ⟨k, hk, rfl⟩ := List.mem_map.1 hc
    simp only [Leg.getCharge, cscale, List.length_map]
    exact (hva _ (Arr.lc_mem_lcs_sl a k (hlt k hk))).2 _ (getD_mem _ _ _ (ha.rowLt q hq k (hlt k hk)))
  have hrule := hca q hq
  unfold blockChargeOf at hrule
  rw [show List.zipWith (fun (l : Leg) qi => l.getCharge qi) a.lcs q = chs a.lcs q from rfl,
    csum_remove_split a ax hnd hlt q hql, csum_append _ _ _ vK vS] at hrule
  have lK := csum_length _ _ vK
  have lS := csum_length _ _ vS
  rw [← hrule, foldl_csub _ _ vS _ (by rw [makeValid_length, cadd_length, lK, lS]; simp),
    charge_remove_algebra _ _ _ lK lS]
  rfl

/-- legs of a tensor whose legs are a sub-selection of the legs of `a` -/
theorem legsValid_keep (a r : Arr α) (hva : LegsValid a) (hm : r.mods = a.mods) (keep : List Nat)
    (hk : ∀ k ∈ keep, k < a.rank) (hl : r.lcs = keep.map a.lc) : LegsValid r := by
  intro l hl'
  rw [hl] at hl'
  obtain ⟨k, hk', rfl⟩ := List.mem_map.1 hl'
  rw [hm]
  exact hva _ (Arr.lc_mem_lcs_sl a k (hk k hk'))

theorem lcs_pick (legs : List ALeg) (keep : List Nat) :
    (pick legs keep default).map ALeg.leg = keep.map (fun k => (legs.getD k default).leg) := by
  simp [pick, List.map_map, Function.comp_def]

section zero
variable [Zero α]

/-- **`take_slice(indices, axes)`** (`ax.Nodup`: as in `C01_toDense_takeSlice` — neither tenpy nor the model checks for
repeated axes) -/
theorem chargeRule_takeSlice (a r : Arr α) (ha : a.WF) (hc : a.ChargeRule) (hv : LegsValid a)
    (indices : List Int) (axes : List Ax) (ax : List Nat) (hax : a.getLegIndices axes = .ok ax) (hnd : ax.Nodup)
    (h : a.takeSlice indices axes = .ok r) : r.ChargeRule ∧ LegsValid r := by
  have hw := W.of ha
  have hlt := Arr.getLegIndices_lt_sl a ha.1 axes ax hax
  unfold Arr.takeSlice at h
  simp only [hax, bind, Except.bind, pure, Except.pure, throw, throwThe, MonadExceptOf.throw] at h
  split at h
  · cases h
  split at h
  · injection h with h; subst h; exact ⟨hc, hv⟩
  cases hpos : (ax.zip indices).mapM (fun xi => Arr.qindexOf (a.lc xi.1) xi.2) with
  | error e => simp [hpos] at h
  | ok pos =>
    simp only [hpos] at h
    split at h
    · cases h
    injection h with h
    subst h
    rename_i hlen _ _
    have hlen' : ax.length = indices.length := by simpa using hlen
    have hpl : pos.length = ax.length := by
      rw [mapM_ok_length_pj _ _ _ hpos, List.length_zip, hlen', Nat.min_self]
    constructor
    · intro q' hq'
      have hq'' : q' ∈ (List.filter (fun rb => (ax.zip pos).all (fun xp => rb.1.getD xp.1 0 == xp.2.1))
          (a.qdata.zip a.data)).map (fun rb => pick rb.1 (Dense.keepAx a.rank ax) 0) := hq'
      obtain ⟨rb, hrb, rfl⟩ := List.mem_map.1 hq''
      obtain ⟨hmem, hall⟩ := List.mem_filter.1 hrb
      have hqm := (List.of_mem_zip hmem).1
      show blockChargeOf a.mods ((pick a.legs (Dense.keepAx a.rank ax) default).map ALeg.leg) _ = makeValid a.mods _
      rw [lcs_pick]
      have := removed_charge a hw hc hv ax hnd hlt rb.1 hqm
      rw [show (Dense.keepAx a.rank ax).map a.lc = (Dense.keepAx a.rank ax).map (fun k => (a.legs.getD k default).leg)
        from rfl] at this
      rw [this]
      congr 1
      rw [← List.foldl_map (f := fun (xp : Nat × Nat × Nat) => (a.lc xp.1).getCharge xp.2.1) (g := csub)]
      congr 1
      have hfst : (ax.zip pos).map (·.1) = ax := List.map_fst_zip (by omega)
      conv => lhs; rw [← hfst, List.map_map]
      apply List.map_congr_left
      intro xp hxp
      have := List.all_eq_true.1 hall xp hxp
      simp only [Function.comp, beq_iff_eq] at this ⊢
      rw [this]
    · exact legsValid_keep a _ hv rfl (Dense.keepAx a.rank ax)
        (fun k hk => ((Dense.mem_keepAx _ _ _).1 hk).1) (lcs_pick _ _)

/-- extra requirement for the charge rule of `squeeze`: every stored block sits at block index 0 of the squeezed legs
(true whenever the squeezed legs have a single block; a leg of length 1 with additional *empty* blocks would break
the rule, because `squeeze` subtracts `get_charge(0)`). Decidable per instance. -/
def SqueezeQ (a : Arr α) (axes : Option (List Ax)) : Prop :=
  ∀ ax, a.squeezeAx axes = .ok ax → ∀ row ∈ a.qdata, ∀ k ∈ ax, row.getD k 0 = 0

/-- **`squeeze(axes)`** (tensor result) -/
theorem chargeRule_squeeze (a r : Arr α) (ha : a.WF) (hc : a.ChargeRule) (hv : LegsValid a)
    (axes : Option (List Ax)) (hq0 : SqueezeQ a axes) (h : a.squeeze axes = .ok (.arr r)) :
    r.ChargeRule ∧ LegsValid r := by
  have hw := W.of ha
  cases hax : a.squeezeAx axes with
  | error e =>
    rw [Arr.squeeze_eq_body, hax] at h
    cases h
  | ok ax =>
    obtain ⟨hr, _, hdup, _⟩ := Arr.squeeze_arr_eq a r axes ax hax h
    have hlt := Arr.squeezeAx_lt a ha.1 axes ax hax
    have hnd : ax.Nodup := nodup_of_eraseDups_length ax.length ax (Nat.le_refl _) hdup
    subst hr
    constructor
    · intro q' hq'
      have hq'' : q' ∈ a.qdata.map (fun r => pick r (Dense.keepAx a.rank ax) 0) := hq'
      obtain ⟨q, hqm, rfl⟩ := List.mem_map.1 hq''
      show blockChargeOf a.mods ((pick a.legs (Dense.keepAx a.rank ax) default).map ALeg.leg) _ = makeValid a.mods _
      rw [lcs_pick]
      have := removed_charge a hw hc hv ax hnd hlt q hqm
      rw [show (Dense.keepAx a.rank ax).map a.lc = (Dense.keepAx a.rank ax).map (fun k => (a.legs.getD k default).leg)
        from rfl] at this
      rw [this]
      congr 1
      rw [← List.foldl_map (f := fun (k : Nat) => (a.lc k).getCharge 0) (g := csub)]
      congr 1
      apply List.map_congr_left
      intro k hk
      rw [hq0 ax hax q hqm k hk]
    · exact legsValid_keep a _ hv rfl (Dense.keepAx a.rank ax)
        (fun k hk => ((Dense.mem_keepAx _ _ _).1 hk).1) (lcs_pick _ _)

end zero
end TenpyModel.C01C
