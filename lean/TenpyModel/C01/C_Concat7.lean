import TenpyModel.C01.C_Concat6
/-!
C01 part C — `concatenate`: the final theorems (namespace `TenpyModel.C01C`).

* `concatenate_ok_iff` — the call returns `.ok` iff the axis resolves on the first operand and every operand passes
  the four checks of the compatibility loop (`Compat`).
* `concatenate_checks` — what the checks give for every operand.
* `concatenate_spec` — dense form `= np.concatenate` of the dense forms, shape, the leg on the axis, labels, total
  charge, `_qdata_sorted = False`, block list, and `r.WF`.
* `concatenate_entry` — the entry-wise form, in both directions.
* `concatenate_hrank_of_not_last`, `concatenate_rank_counterexample` — about the side hypothesis `hrank`.

Side hypothesis beyond `WF`: `hrank : ∀ a ∈ rest, k < a.rank` — every operand has the stacking axis. The shape check
of the code (`a.shape[:k] == first.shape[:k]`, `a.shape[k+1:] == first.shape[k+1:]`) forces `a.rank = first.rank`
unless the axis is the *last* one and the operand has exactly one leg less; in that corner tenpy raises `IndexError`
at `a.legs[axis]`, while the model reads a default leg and returns a malformed tensor
(`concatenate_rank_counterexample`).
-/
namespace TenpyModel.C01C
open TenpyModel.Core TenpyModel.C01B Cat

variable {α : Type}

/-- the call succeeds exactly when the argument checks pass -/
theorem concatenate_ok_iff (first : Arr α) (rest : List (Arr α)) (axis : Ax) :
    (∃ r, Arr.concatenate (first :: rest) axis = .ok r)
      ↔ ∃ k, first.getLegIndex axis = .ok k ∧ ∀ a ∈ first :: rest, Compat first k a := by
  constructor
  · rintro ⟨r, h⟩
    obtain ⟨k, hk, hc, _⟩ := concatenate_ok first rest axis r h
    exact ⟨k, hk, hc⟩
  · rintro ⟨k, hk, hc⟩
    refine ⟨catRes first rest k, ?_⟩
    rw [concatenate_eq, hk]
    simp only
    rw [if_pos hc]

/-- the context of the proofs from the hypotheses of the final theorems -/
theorem Cat.ctx_of_ok (first : Arr α) (rest : List (Arr α)) (axis : Ax) (r : Arr α)
    (hwf : ∀ a ∈ first :: rest, a.WF) (h : Arr.concatenate (first :: rest) axis = .ok r)
    (k : Nat) (hk : first.getLegIndex axis = .ok k) (hrank : ∀ a ∈ rest, k < a.rank) :
    Ctx first rest k ∧ r = catRes first rest k := by
  obtain ⟨k', hk', hc, hr⟩ := concatenate_ok first rest axis r h
  rw [hk] at hk'
  injection hk' with hk'
  subst hk'
  have hlt := getLegIndex_lt first (hwf first (by simp)).1 axis k hk
  refine ⟨⟨hwf, hlt, hc, ?_⟩, hr⟩
  intro a ha
  rcases List.mem_cons.1 ha with rfl | ha'
  · rfl
  · exact (hc a ha).rank_eq hlt (hrank a ha')

/-- when the axis is not the last one the checks already force equal ranks -/
theorem concatenate_hrank_of_not_last (first : Arr α) (rest : List (Arr α)) (axis : Ax) (r : Arr α)
    (h : Arr.concatenate (first :: rest) axis = .ok r) (k : Nat) (hk : first.getLegIndex axis = .ok k)
    (hlast : k + 1 < first.rank) : ∀ a ∈ rest, k < a.rank := by
  obtain ⟨k', hk', hc, _⟩ := concatenate_ok first rest axis r h
  rw [hk] at hk'
  injection hk' with hk'
  subst hk'
  intro a ha
  have := (hc a (by simp [ha])).rank_eq_of_not_last hlast
  omega

/-- **what the checks of `concatenate` give**: every operand has the rank, `chinfo.mod`, total charge of the first,
the shape of the first except on the axis, and legs off the axis that pass `test_equal` with the first's -/
theorem concatenate_checks (first : Arr α) (rest : List (Arr α)) (axis : Ax) (r : Arr α)
    (hwf : ∀ a ∈ first :: rest, a.WF) (h : Arr.concatenate (first :: rest) axis = .ok r)
    (k : Nat) (hk : first.getLegIndex axis = .ok k) (hrank : ∀ a ∈ rest, k < a.rank) :
    k < first.rank ∧ ∀ a ∈ first :: rest,
      a.rank = first.rank ∧ a.mods = first.mods ∧ a.qtotal = first.qtotal
      ∧ a.shape = first.shape.set k (a.lc k).indLen
      ∧ ∀ m, m < first.rank → m ≠ k → (a.lc m).testEqual (first.lc m) = true := by
  obtain ⟨c, _⟩ := Cat.ctx_of_ok first rest axis r hwf h k hk hrank
  refine ⟨c.hk, fun a ha => ?_⟩
  have hc := c.compat a ha
  have hr := c.rank a ha
  refine ⟨hr, hc.2.1, hc.2.2.1, hc.shape_eq hr, fun m hm hmk => ?_⟩
  rw [← Arr.lc_eq a m (by rw [hr]; exact hm), ← Arr.lc_eq first m hm]
  exact hc.testEqual m hm hmk

/-- **`concatenate(arrays, axis)` is `np.concatenate`**: for well-formed operands, whenever the call returns `.ok r`,
with `k` the resolved axis of the first operand: dense form, shape, legs (leg `k` is the plain leg `N` whose block
sizes / charge rows are those of the operands' legs `k` appended, charges negated where `qconj` differs), labels and
total charge of the first operand, `_qdata_sorted = False`, data blocks appended, and `r.WF`. -/
theorem concatenate_spec [Zero α] (first : Arr α) (rest : List (Arr α)) (axis : Ax) (r : Arr α)
    (hwf : ∀ a ∈ first :: rest, a.WF) (h : Arr.concatenate (first :: rest) axis = .ok r)
    (k : Nat) (hk : first.getLegIndex axis = .ok k) (hrank : ∀ a ∈ rest, k < a.rank) :
    r.toDense = Dense.concatenate ((first :: rest).map Arr.toDense) k
    ∧ r.shape = first.shape.set k (((first :: rest).map (fun a => (a.lc k).indLen)).sum)
    ∧ (∃ N : Leg, r.legs = first.legs.set k (.plain N)
        ∧ N.mods = first.mods ∧ N.qconj = (first.lc k).qconj
        ∧ N.slices = slicesOfSizes ((first :: rest).flatMap (fun a => (a.lc k).blockSizes))
        ∧ N.charges = (first :: rest).flatMap (fun a =>
            if (a.lc k).qconj = (first.lc k).qconj then (a.lc k).charges
            else (a.lc k).charges.map (fun c => makeValid first.mods (cneg c)))
        ∧ N.blockSizes = (first :: rest).flatMap (fun a => (a.lc k).blockSizes)
        ∧ N.blockNumber = ((first :: rest).map (fun a => (a.lc k).blockNumber)).sum
        ∧ N.indLen = ((first :: rest).map (fun a => (a.lc k).indLen)).sum
        ∧ N.ShapeOK)
    ∧ r.labels = first.labels ∧ r.qtotal = first.qtotal ∧ r.mods = first.mods ∧ r.qdataSorted = false
    ∧ r.data = (first :: rest).flatMap (·.data) ∧ r.qdata.length = r.data.length
    ∧ r.WF := by
  obtain ⟨c, rfl⟩ := Cat.ctx_of_ok first rest axis r hwf h k hk hrank
  refine ⟨c.toDense_res, c.shape_res, ⟨catLeg first.mods (first.lc k).qconj ((first :: rest).map (·.lc k)), rfl, rfl,
    rfl, ?_, ?_, ?_, ?_, ?_, catLeg_shapeOK _ _ _ c.shapes⟩, rfl, rfl, rfl, rfl, rfl, c.len_res, c.WF_res⟩
  · rw [catLeg_slices, List.flatMap_map]
  · rw [catLeg_charges, List.flatMap_map]; rfl
  · rw [catLeg_blockSizes, List.flatMap_map]
  · rw [catLeg_blockNumber, List.map_map]; rfl
  · rw [catLeg_indLen _ _ _ c.shapes, List.map_map]; rfl

/-- **entries of `concatenate`**: (1) for every operand `a` (the operands `pre` come before it) and every in-range
multi-index `idx` of `a`: `r[idx with idx[k] + off] = a[idx]`, `off` = total length on the axis of `pre`;
(2) every in-range multi-index of `r` arises this way from exactly the operand whose range contains `idx[k]`. -/
theorem concatenate_entry [Zero α] (first : Arr α) (rest : List (Arr α)) (axis : Ax) (r : Arr α)
    (hwf : ∀ a ∈ first :: rest, a.WF) (h : Arr.concatenate (first :: rest) axis = .ok r)
    (k : Nat) (hk : first.getLegIndex axis = .ok k) (hrank : ∀ a ∈ rest, k < a.rank) :
    (∀ pre a post, first :: rest = pre ++ a :: post → ∀ idx, InRange idx a.shape →
        r.entry (idx.set k (idx.getD k 0 + (pre.map (fun b => (b.lc k).indLen)).sum)) = a.entry idx)
    ∧ (∀ idx, InRange idx r.shape → ∃ pre a post, first :: rest = pre ++ a :: post
        ∧ (pre.map (fun b => (b.lc k).indLen)).sum ≤ idx.getD k 0
        ∧ idx.getD k 0 < (pre.map (fun b => (b.lc k).indLen)).sum + (a.lc k).indLen
        ∧ InRange (idx.set k (idx.getD k 0 - (pre.map (fun b => (b.lc k).indLen)).sum)) a.shape
        ∧ r.entry idx = a.entry (idx.set k (idx.getD k 0 - (pre.map (fun b => (b.lc k).indLen)).sum))) := by
  obtain ⟨c, rfl⟩ := Cat.ctx_of_ok first rest axis r hwf h k hk hrank
  have hoff : ∀ pre : List (Arr α), offOf k pre = (pre.map (fun a => (a.lc k).indLen)).sum := by
    intro pre; unfold offOf; rw [List.map_map]; rfl
  have hkS : k < first.shape.length := by rw [Arr.shape_length]; exact c.hk
  refine ⟨fun pre a post hd idx hi => ?_, fun idx hidx => ?_⟩
  · rw [← hoff]; exact c.entry pre post a hd idx hi
  · rw [c.shape_res] at hidx
    have hx : idx.getD k 0 < ((first :: rest).map (fun a => (a.lc k).indLen)).sum := by
      have := hidx.getD_lt' k (by rw [List.length_set]; exact hkS)
      rwa [getD_set_eq_pj _ _ _ _ hkS] at this
    obtain ⟨pre, a, post, hd, h1, h2⟩ := exists_split_of_lt_sum _ _ _ hx
    have ha : a ∈ first :: rest := by rw [hd]; simp
    have hil : idx.length = first.shape.length := by rw [hidx.length_eq, List.length_set]
    have hi0 : InRange (idx.set k (idx.getD k 0 - (pre.map (fun b => (b.lc k).indLen)).sum)) a.shape := by
      rw [(c.compat a ha).shape_eq (c.rank a ha)]
      exact InRange_set_set hidx hkS (by omega)
    refine ⟨pre, a, post, hd, h1, h2, hi0, ?_⟩
    have e1 := c.entry pre post a hd _ hi0
    rw [hoff, getD_set_eq_pj _ _ _ _ (by rw [hil]; exact hkS), List.set_set, Nat.sub_add_cancel h1,
      set_getD_self_pj] at e1
    exact e1

end TenpyModel.C01C
