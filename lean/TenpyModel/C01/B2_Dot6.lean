import TenpyModel.C01.B2_Dot5
/-!
C01 part B2 — structure of the output list of `_tensordot_worker` for sorted triple lists: which rows are present
(exactly the pairs of keep-rows with a common contracted key), their blocks, lexicographic order of the rows.
-/
namespace TenpyModel.C01B2
open TenpyModel.Core TenpyModel.C01B

variable {α : Type}

section ctx
variable [CommSemiring α]
set_option linter.unusedSectionVars false

/-- the two sorted row lists of the worker -/
structure Ctx (a b : Arr α) (k : Nat) (aT bT : List (List Nat × Nat × Blk α)) : Prop where
  h : DotHyp a b k
  pa : aT.Perm (aRows0 a k (cbn a k))
  sa : Sorted3 (a.rank - k) aT
  pb : bT.Perm (bRows0 b k (cbn a k))
  sb : Sorted3 (b.rank - k) bT

variable {a b : Arr α} {k : Nat} {aT bT : List (List Nat × Nat × Blk α)}

theorem groupKeep_def (L : List (List Nat × Nat × Blk α)) :
    Arr.groupKeep L = Arr.groupRuns (L.map (fun x => (x.1, (x.2.1, x.2.2)))) := rfl

/-- an element of `aT` comes from a stored row of `a` -/
theorem Ctx.memA (c : Ctx a b k aT bT) (x : List Nat × Nat × Blk α) (hx : x ∈ aT) :
    ∃ rb ∈ a.qdata.zip a.data, x = (rb.1.take (a.rank - k), Arr.fKey (cbn a k) (rb.1.drop (a.rank - k)), rb.2) := by
  obtain ⟨rb, hrb, e⟩ := List.mem_map.1 (c.pa.mem_iff.1 hx)
  exact ⟨rb, hrb, e.symm⟩

theorem Ctx.memB (c : Ctx a b k aT bT) (x : List Nat × Nat × Blk α) (hx : x ∈ bT) :
    ∃ rb ∈ b.qdata.zip b.data, x = (rb.1.drop k, Arr.fKey (cbn a k) (rb.1.take k), rb.2) := by
  obtain ⟨rb, hrb, e⟩ := List.mem_map.1 (c.pb.mem_iff.1 hx)
  exact ⟨rb, hrb, e.symm⟩

/-- facts about a group of `a` -/
theorem Ctx.groupA (c : Ctx a b k aT bT) (ga : List Nat × List (Nat × Blk α)) (hg : ga ∈ Arr.groupKeep aT) :
    ga.2 = grp aT ga.1 ∧ ga.1.length = a.rank - k
    ∧ InRange ga.1 ((a.lcs.take (a.rank - k)).map Leg.blockNumber) := by
  obtain ⟨g1, _, _, g4⟩ := c.sa.groups
  rw [groupKeep_def] at hg
  refine ⟨(g1 ga hg).1, g4 ga hg, ?_⟩
  have := groupRuns_keys_sub _ ga hg
  rw [List.map_map] at this
  obtain ⟨x, hx, hxe⟩ := List.mem_map.1 this
  obtain ⟨rb, hrb, rfl⟩ := c.memA x hx
  rw [← hxe]
  exact (c.h.rowA rb.1 (List.of_mem_zip hrb).1).2.1

theorem Ctx.groupB (c : Ctx a b k aT bT) (gb : List Nat × List (Nat × Blk α)) (hg : gb ∈ Arr.groupKeep bT) :
    gb.2 = grp bT gb.1 ∧ gb.1.length = b.rank - k
    ∧ InRange gb.1 ((b.lcs.drop k).map Leg.blockNumber) := by
  obtain ⟨g1, _, _, g4⟩ := c.sb.groups
  rw [groupKeep_def] at hg
  refine ⟨(g1 gb hg).1, g4 gb hg, ?_⟩
  have := groupRuns_keys_sub _ gb hg
  rw [List.map_map] at this
  obtain ⟨x, hx, hxe⟩ := List.mem_map.1 this
  obtain ⟨rb, hrb, rfl⟩ := c.memB x hx
  rw [← hxe]
  exact (c.h.rowB rb.1 (List.of_mem_zip hrb).1).2.2

/-- a non-empty fibre is a group -/
theorem groupA_exists {cut : Nat} {L : List (List Nat × Nat × Blk α)} (hs : Sorted3 cut L) (qi : List Nat)
    (hne : grp L qi ≠ []) : ∃ g ∈ Arr.groupKeep L, g.1 = qi ∧ g.2 = grp L qi := by
  obtain ⟨g1, _, g3, _⟩ := hs.groups
  have : ∃ y, y ∈ grp L qi := List.exists_mem_of_ne_nil _ hne
  obtain ⟨y, hy⟩ := this
  rw [mem_grp] at hy
  obtain ⟨x, hx, hxe, _⟩ := hy
  obtain ⟨g, hg, hge⟩ := List.mem_map.1 (g3 x hx)
  refine ⟨g, hg, hge.trans hxe, ?_⟩
  rw [(g1 g hg).1, hge, hxe]

/-- the keys of the groups: sorted and pairwise different -/
theorem group_keys_strict {cut : Nat} {L : List (List Nat × Nat × Blk α)} (hs : Sorted3 cut L) :
    (Arr.groupKeep L).Pairwise (fun g g' => lexLE (g.1.map Int.ofNat) (g'.1.map Int.ofNat) = true ∧ g.1 ≠ g'.1) := by
  obtain ⟨_, g2, _, _⟩ := hs.groups
  have h1 := hs.group_keys_sorted
  rw [List.pairwise_map] at h1
  rw [List.nodup_iff_pairwise_ne, List.pairwise_map] at g2
  exact h1.and g2

/-- members of `_iter_common_sorted` of two fibres: blocks of stored rows with matching contracted parts -/
theorem Ctx.mem_common (c : Ctx a b k aT bT) (qi qj : List Nat) (p : Blk α × Blk α)
    (hp : p ∈ Arr.commonSorted (grp aT qi) (grp bT qj)) :
    ∃ qa qb, (qa, p.1) ∈ a.qdata.zip a.data ∧ (qb, p.2) ∈ b.qdata.zip b.data
      ∧ qa.take (a.rank - k) = qi ∧ qb.drop k = qj ∧ qa.drop (a.rank - k) = qb.take k := by
  rw [commonSorted_eq _ _ (c.sa.grp_keys qi) (c.sb.grp_keys qj), List.mem_filterMap] at hp
  obtain ⟨x, hx, hf⟩ := hp
  cases hfind : (grp bT qj).find? (fun y => y.1 == x.1) with
  | none => rw [hfind] at hf; simp at hf
  | some y =>
    rw [hfind] at hf
    simp only [Option.map_some, Option.some.injEq] at hf
    have hy := List.mem_of_find?_eq_some hfind
    have hkey : y.1 = x.1 := by simpa using List.find?_some hfind
    rw [mem_grp] at hx hy
    obtain ⟨tx, htx, etx, rfl⟩ := hx
    obtain ⟨ty, hty, ety, rfl⟩ := hy
    obtain ⟨ra, hra, rfl⟩ := c.memA tx htx
    obtain ⟨rb, hrb, rfl⟩ := c.memB ty hty
    simp only at etx ety hkey hf
    obtain ⟨_, _, r3⟩ := c.h.rowA ra.1 (List.of_mem_zip hra).1
    obtain ⟨_, s2, _⟩ := c.h.rowB rb.1 (List.of_mem_zip hrb).1
    rw [← c.h.bnC] at s2
    have := fKey_inj _ _ _ r3 s2 hkey.symm
    refine ⟨ra.1, rb.1, ?_, ?_, etx, ety, this⟩
    · rw [← hf]; exact hra
    · rw [← hf]; exact hrb

/-- shape of the block-level contraction of two stored blocks -/
theorem Ctx.pair_shape (c : Ctx a b k aT bT) (qa qb : List Nat) (A B : Blk α)
    (hA : (qa, A) ∈ a.qdata.zip a.data) (hB : (qb, B) ∈ b.qdata.zip b.data) :
    (Dense.tensordot A B k).shape
      = blockShapeOf (a.lcs.take (a.rank - k)) (qa.take (a.rank - k)) ++ blockShapeOf (b.lcs.drop k) (qb.drop k) := by
  rw [tensordot_shape, c.h.wa.blkShape _ hA, c.h.wb.blkShape _ hB]
  have hr : A.rank = a.rank := by
    unfold Dense.rank
    rw [c.h.wa.blkShape _ hA, blockShapeOf_length _ _ (by rw [c.h.wa.rowLen _ (List.of_mem_zip hA).1, lcs_length]),
      lcs_length]
  rw [hr]
  unfold blockShapeOf
  rw [List.take_zipWith, List.drop_zipWith]

/-- every member of `_iter_common_sorted qi qj` contracts to a block of the shape of the new row -/
theorem Ctx.common_shape (c : Ctx a b k aT bT) (qi qj : List Nat) (p : Blk α × Blk α)
    (hp : p ∈ Arr.commonSorted (grp aT qi) (grp bT qj)) :
    (Dense.tensordot p.1 p.2 k).shape = blockShapeOf (a.lcs.take (a.rank - k)) qi ++ blockShapeOf (b.lcs.drop k) qj := by
  obtain ⟨qa, qb, hA, hB, e1, e2, _⟩ := c.mem_common qi qj p hp
  rw [c.pair_shape qa qb p.1 p.2 hA hB, e1, e2]

/-- with the charge rule, a common contracted key implies that the charge filter lets the pair pass -/
theorem Ctx.common_ok (c : Ctx a b k aT bT)
    (hok : ∀ qa ∈ a.qdata, ∀ qb ∈ b.qdata, qa.drop (a.rank - k) = qb.take k →
      okPair a b k (qa.take (a.rank - k)) (qb.drop k) = true)
    (qi qj : List Nat) (hne : Arr.commonSorted (grp aT qi) (grp bT qj) ≠ []) : okPair a b k qi qj = true := by
  obtain ⟨p, hp⟩ := List.exists_mem_of_ne_nil _ hne
  obtain ⟨qa, qb, hA, hB, e1, e2, e3⟩ := c.mem_common qi qj p hp
  rw [← e1, ← e2]
  exact hok qa (List.of_mem_zip hA).1 qb (List.of_mem_zip hB).1 e3

/-- a row of the output -/
theorem Ctx.out_mem (c : Ctx a b k aT bT) (e : List Nat × Blk α)
    (he : e ∈ outOf a b k (Arr.groupKeep aT) (Arr.groupKeep bT)) :
    ∃ qi qj p ps, qi.length = a.rank - k ∧ qj.length = b.rank - k
      ∧ InRange qi ((a.lcs.take (a.rank - k)).map Leg.blockNumber) ∧ InRange qj ((b.lcs.drop k).map Leg.blockNumber)
      ∧ Arr.commonSorted (grp aT qi) (grp bT qj) = p :: ps ∧ e = (qi ++ qj, foldBlk k p ps) := by
  rw [mem_outOf] at he
  obtain ⟨gb, hgb, ga, hga, hphi⟩ := he
  obtain ⟨_, p, ps, hc, rfl⟩ := phi_some a b k gb ga e hphi
  obtain ⟨a1, a2, a3⟩ := c.groupA ga hga
  obtain ⟨b1, b2, b3⟩ := c.groupB gb hgb
  rw [a1, b1] at hc
  exact ⟨ga.1, gb.1, p, ps, a2, b2, a3, b3, hc, rfl⟩

/-- presence: keep-rows with a common contracted key (passing the filter) give a row of the output -/
theorem Ctx.out_present (c : Ctx a b k aT bT) (qi qj : List Nat) (p : Blk α × Blk α) (ps : List (Blk α × Blk α))
    (hc : Arr.commonSorted (grp aT qi) (grp bT qj) = p :: ps) (hok : okPair a b k qi qj = true) :
    (qi ++ qj, foldBlk k p ps) ∈ outOf a b k (Arr.groupKeep aT) (Arr.groupKeep bT) := by
  have hna : grp aT qi ≠ [] := by
    intro e; rw [e, commonSorted_nil_left] at hc; simp at hc
  have hnb : grp bT qj ≠ [] := by
    intro e; rw [e, commonSorted_nil_right] at hc; simp at hc
  obtain ⟨ga, hga, ga1, ga2⟩ := groupA_exists c.sa qi hna
  obtain ⟨gb, hgb, gb1, gb2⟩ := groupA_exists c.sb qj hnb
  rw [mem_outOf]
  refine ⟨gb, hgb, ga, hga, ?_⟩
  rw [phi_of a b k gb ga p ps (by rw [ga1, gb1]; exact hok) (by rw [ga2, gb2]; exact hc), ga1, gb1]

/-- absence: no common contracted key, no row -/
theorem Ctx.out_absent (c : Ctx a b k aT bT) (qi qj : List Nat) (hqi : qi.length = a.rank - k)
    (hc : Arr.commonSorted (grp aT qi) (grp bT qj) = []) :
    ∀ e ∈ outOf a b k (Arr.groupKeep aT) (Arr.groupKeep bT), e.1 ≠ qi ++ qj := by
  intro e he heq
  obtain ⟨qi', qj', p, ps, l1, _, _, _, hc', rfl⟩ := c.out_mem e he
  simp only at heq
  obtain ⟨e1, e2⟩ := List.append_inj heq (l1.trans hqi.symm)
  rw [e1, e2, hc] at hc'
  simp at hc'

/-- the rows of the output are lexsorted and pairwise different -/
theorem Ctx.out_sorted (c : Ctx a b k aT bT) :
    (outOf a b k (Arr.groupKeep aT) (Arr.groupKeep bT)).Pairwise
      (fun x y => lexLE (x.1.map Int.ofNat) (y.1.map Int.ofNat) = true ∧ x.1 ≠ y.1) := by
  unfold outOf
  rw [List.pairwise_flatMap]
  constructor
  · intro gb hgb
    rw [List.pairwise_filterMap]
    refine (group_keys_strict c.sa).imp_of_mem (fun {ga ga'} hga hga' hgg => ?_)
    intro e he e' he'
    obtain ⟨_, p, ps, _, rfl⟩ := phi_some a b k gb ga e he
    obtain ⟨_, p', ps', _, rfl⟩ := phi_some a b k gb ga' e' he'
    have l1 := (c.groupA ga hga).2.1
    have l2 := (c.groupA ga' hga').2.1
    simp only
    rw [lexLE_append_nat _ _ _ _ (l1.trans l2.symm) rfl, if_pos rfl]
    refine ⟨hgg.1, fun heq => hgg.2 ?_⟩
    exact (List.append_inj heq (l1.trans l2.symm)).1
  · refine (group_keys_strict c.sb).imp_of_mem (fun {gb gb'} hgb hgb' hgg => ?_)
    intro e he e' he'
    obtain ⟨ga, hga, hphi⟩ := List.mem_filterMap.1 he
    obtain ⟨ga', hga', hphi'⟩ := List.mem_filterMap.1 he'
    obtain ⟨_, p, ps, _, rfl⟩ := phi_some a b k gb ga e hphi
    obtain ⟨_, p', ps', _, rfl⟩ := phi_some a b k gb' ga' e' hphi'
    have l1 := (c.groupA ga hga).2.1
    have l2 := (c.groupA ga' hga').2.1
    have m1 := (c.groupB gb hgb).2.1
    have m2 := (c.groupB gb' hgb').2.1
    simp only
    rw [lexLE_append_nat _ _ _ _ (l1.trans l2.symm) (m1.trans m2.symm), if_neg hgg.2]
    refine ⟨hgg.1, fun heq => hgg.2 ?_⟩
    exact (List.append_inj heq (l1.trans l2.symm)).2

end ctx
end TenpyModel.C01B2
