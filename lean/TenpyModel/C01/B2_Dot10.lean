import TenpyModel.C01.B2_Dot9
import TenpyModel.C01.B2_Inner2
/-!
C01 part B2 — `tensordot(a, b, axes=(axes_a, axes_b))`: `_tensordot_transpose_axes` moves the contracted legs of `a` to
the end and those of `b` to the front (transposition by a permutation, skipped when it is the identity) and the call
continues as `tensordot(a', b', k)`; composition with part A's transpose theorem.
-/
namespace TenpyModel.C01B2
open TenpyModel.Core TenpyModel.C01B
open TenpyModel.Core.Arr (permuteList)

variable {α : Type}

/-- the transposition step of `_tensordot_transpose_axes`: nothing is done for the identity -/
def trOp [Zero α] (x : Arr α) (p : List Nat) : Arr α := if p = List.range x.rank then x else x.itransposeFast p

theorem trOp_eq [Zero α] (x : Arr α) (p : List Nat) :
    (if p = List.range x.rank then x else x.itransposeFast p) = trOp x p := rfl

theorem permuteList_range {β} (l : List β) (d : β) : permuteList l (List.range l.length) d = l :=
  map_getD_range l d

/-- what the transposition step does to a well-formed tensor obeying the charge rule -/
theorem trOp_spec [Zero α] (x : Arr α) (p : List Nat) (hx : x.WF) (hp : IsPerm p x.rank) :
    (trOp x p).WF ∧ (trOp x p).toDense = x.toDense.transpose p
    ∧ (trOp x p).legs = permuteList x.legs p default ∧ (trOp x p).labels = permuteList x.labels p none
    ∧ (trOp x p).qtotal = x.qtotal ∧ (trOp x p).mods = x.mods ∧ (trOp x p).rank = x.rank
    ∧ (x.ChargeRule → (trOp x p).ChargeRule) ∧ (LegsValid x → LegsValid (trOp x p)) := by
  unfold trOp
  split
  · rename_i e
    subst e
    refine ⟨hx, Arr.toDense_transpose_range x, ?_, ?_, rfl, rfl, rfl, id, id⟩
    · exact (permuteList_range x.legs default).symm
    · have := permuteList_range x.labels none
      rw [hx.1] at this
      exact this.symm
  · refine ⟨Arr.WF_itransposeFast x p hx hp, Arr.toDense_itransposeFast x p hx hp, rfl, rfl, rfl, rfl, ?_,
      chargeRule_itransposeFast x p (W.of hx) hp, legsValid_itransposeFast x p hp⟩
    simp [Arr.rank, Arr.itransposeFast, permuteList, hp.len]

section pair
variable [CommSemiring α]
set_option linter.unusedSectionVars false

/-- `_tensordot_transpose_axes(a, b, (axes_a, axes_b))`: the two permutations and the final checks -/
theorem transposeAxes_pair (cy : Bool) (a b a' b' : Arr α) (ha : a.WF) (hb : b.WF) (xa xb : List Ax) (k' : Nat)
    (h : Arr.tensordotTransposeAxes cy a b (.pair xa xb) = .ok (a', b', k')) :
    ∃ ia ib, a.getLegIndices xa = .ok ia ∧ b.getLegIndices xb = .ok ib ∧ ia.length = ib.length
      ∧ IsPerm ((List.range a.rank).filter (fun i => !ia.contains i) ++ ia) a.rank
      ∧ IsPerm (ib ++ (List.range b.rank).filter (fun i => !ib.contains i)) b.rank
      ∧ a' = trOp a ((List.range a.rank).filter (fun i => !ia.contains i) ++ ia)
      ∧ b' = trOp b (ib ++ (List.range b.rank).filter (fun i => !ib.contains i))
      ∧ k' = ia.length ∧ a.mods = b.mods
      ∧ ¬(k' > a'.rank ∨ k' > b'.rank)
      ∧ (List.zipWith Leg.testContractible (a'.lcs.drop (a'.rank - k')) (b'.lcs.take k')).all id = true := by
  unfold Arr.tensordotTransposeAxes at h
  simp only [bind, Except.bind] at h
  split at h
  · cases h
  · rename_i hm
    cases hia : a.getLegIndices xa with
    | error e => rw [hia] at h; cases h
    | ok ia =>
      cases hib : b.getLegIndices xb with
      | error e => rw [hia, hib] at h; cases h
      | ok ib =>
        rw [hia, hib] at h
        simp only at h
        split at h
        · cases h
        · rename_i hlen
          split at h
          · cases h
          · rename_i hperm
            simp only [pure, Except.pure, trOp_eq] at h
            split at h
            · cases h
            · rename_i hk
              split at h
              · cases h
              · rename_i hc
                simp only [Except.ok.injEq, Prod.mk.injEq] at h
                obtain ⟨rfl, rfl, rfl⟩ := h
                have hia' := Arr.getLegIndices_lt a ha.1 xa ia hia
                have hib' := Arr.getLegIndices_lt b hb.1 xb ib hib
                have hpa : IsPerm ((List.range a.rank).filter (fun i => !ia.contains i) ++ ia) a.rank := by
                  apply IsPerm.of_checks (by omega) (by omega)
                  intro k hk
                  rcases List.mem_append.1 hk with h1 | h1
                  · have := (List.mem_filter.1 h1).1
                    simpa using this
                  · exact hia'.2 k h1
                have hpb : IsPerm (ib ++ (List.range b.rank).filter (fun i => !ib.contains i)) b.rank := by
                  apply IsPerm.of_checks (by omega) (by omega)
                  intro k hk
                  rcases List.mem_append.1 hk with h1 | h1
                  · exact hib'.2 k h1
                  · have := (List.mem_filter.1 h1).1
                    simpa using this
                exact ⟨ia, ib, rfl, rfl, by omega, hpa, hpb, rfl, rfl, rfl, by simpa using hm, hk, by simpa using hc⟩

/-- after the transposition step the call is `tensordot(a', b', k)` -/
theorem transposeAxes_int_of (cy : Bool) (a' b' : Arr α) (k' : Nat) (hm : a'.mods = b'.mods)
    (hk : ¬(k' > a'.rank ∨ k' > b'.rank))
    (hc : (List.zipWith Leg.testContractible (a'.lcs.drop (a'.rank - k')) (b'.lcs.take k')).all id = true) :
    Arr.tensordotTransposeAxes cy a' b' (.int (k' : Int)) = .ok (a', b', k') := by
  unfold Arr.tensordotTransposeAxes
  simp only [bind, Except.bind, pure, Except.pure]
  rw [if_neg (by simpa using hm)]
  have hk0 : ¬ ((k' : Int) < 0) := by omega
  simp only [hk0, if_false, Int.toNat_natCast]
  rw [if_neg hk, if_neg (by simpa using hc)]

/-- `tensordot(a, b, (axes_a, axes_b)) = tensordot(a', b', k)` with the transposed operands -/
theorem tensordot_pair_eq (cy : Bool) (a b : Arr α) (ha : a.WF) (hb : b.WF) (xa xb : List Ax) (v : Val α)
    (h : Arr.tensordot cy a b (.pair xa xb) = .ok v) :
    ∃ ia ib, a.getLegIndices xa = .ok ia ∧ b.getLegIndices xb = .ok ib ∧ ia.length = ib.length
      ∧ IsPerm ((List.range a.rank).filter (fun i => !ia.contains i) ++ ia) a.rank
      ∧ IsPerm (ib ++ (List.range b.rank).filter (fun i => !ib.contains i)) b.rank
      ∧ Arr.tensordot cy (trOp a ((List.range a.rank).filter (fun i => !ia.contains i) ++ ia))
          (trOp b (ib ++ (List.range b.rank).filter (fun i => !ib.contains i))) (.int (ia.length : Int)) = .ok v := by
  cases ht : Arr.tensordotTransposeAxes cy a b (.pair xa xb) with
  | error e =>
    unfold Arr.tensordot at h
    rw [ht] at h
    simp [bind, Except.bind] at h
  | ok t =>
    obtain ⟨a', b', k'⟩ := t
    obtain ⟨ia, ib, h1, h2, h3, h4, h5, rfl, rfl, rfl, hm, hk, hc⟩ := transposeAxes_pair cy a b a' b' ha hb xa xb k' ht
    refine ⟨ia, ib, h1, h2, h3, h4, h5, ?_⟩
    have hm' : (trOp a ((List.range a.rank).filter (fun i => !ia.contains i) ++ ia)).mods
        = (trOp b (ib ++ (List.range b.rank).filter (fun i => !ib.contains i))).mods := by
      rw [(trOp_spec a _ ha h4).2.2.2.2.2.1, (trOp_spec b _ hb h5).2.2.2.2.2.1, hm]
    have hint := transposeAxes_int_of cy _ _ ia.length hm' hk hc
    unfold Arr.tensordot at h ⊢
    rw [ht] at h
    rw [hint]
    exact h

/-- the same as an equation, given the value of `_tensordot_transpose_axes` -/
theorem tensordot_pair_of (cy : Bool) (a b a' b' : Arr α) (ha : a.WF) (hb : b.WF) (xa xb : List Ax) (k' : Nat)
    (ht : Arr.tensordotTransposeAxes cy a b (.pair xa xb) = .ok (a', b', k')) :
    Arr.tensordot cy a b (.pair xa xb) = Arr.tensordot cy a' b' (.int (k' : Int)) := by
  obtain ⟨ia, ib, _, _, _, h4, h5, rfl, rfl, rfl, hm, hk, hc⟩ := transposeAxes_pair cy a b a' b' ha hb xa xb k' ht
  have hm' : (trOp a ((List.range a.rank).filter (fun i => !ia.contains i) ++ ia)).mods
      = (trOp b (ib ++ (List.range b.rank).filter (fun i => !ib.contains i))).mods := by
    rw [(trOp_spec a _ ha h4).2.2.2.2.2.1, (trOp_spec b _ hb h5).2.2.2.2.2.1, hm]
  have hint := transposeAxes_int_of cy _ _ ia.length hm' hk hc
  unfold Arr.tensordot
  rw [ht, hint]

end pair
end TenpyModel.C01B2
