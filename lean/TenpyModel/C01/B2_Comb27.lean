import TenpyModel.C01.B2_Comb26
/-!
C01 part B2 — part 27 (labels): `split_legs ∘ combine_legs` for the public `combine_legs` restores the labels of
`a` (permuted by `transp` when a transposition was needed).
-/
namespace TenpyModel.C01B2.Comb
open TenpyModel.Core TenpyModel.C01B
open Arr (permuteList)

variable {α : Type} [Zero α]

/-- labels after `split_legs ∘ combine_legs`, no transposition -/
theorem split_combineLegs_id_labels (a r a' : Arr α) (ha : a.WF) (cl : List (List Ax)) (newAxes : Option (List Int))
    (pipes : Option (List (Option ALeg))) (qconj : List (Option Int)) (ps0 : List ALeg) (cli0 : List (List Nat))
    (na0 : List Nat) (hps : a.combineMakePipes cl pipes qconj = .ok ps0) (hcli : cl.mapM a.getLegIndices = .ok cli0)
    (hnt : Arr.combineNewAxes a.rank cli0 newAxes = .ok (na0, List.range a.rank))
    (hP : PipesOK2 a cli0 ps0) (hN : na0.Nodup)
    (hq : ∀ s, some s ∈ a.labels → s.toList.head? ≠ some '?')
    (hpc : ∀ c ∈ cli0, c ≠ [] ∧ ∀ s ∈ pick (cLabels a) c "", Label.Piece s.toList)
    (h : a.combineLegs cl newAxes pipes qconj = .ok r)
    (hs : r.splitLegs (some ((pick na0 (Arr.argsortInt (na0.map Int.ofNat)) 0).map
      (fun k => Ax.idx (Int.ofNat k)))) = .ok a') :
    a'.labels = a.labels := by
  obtain ⟨hcall, hstd, _, hl1, hl2, _⟩ :=
    combineLegs_places_id a r ha cl newAxes pipes qconj ps0 cli0 na0 hps hcli hnt hP.ok hN h
  have hr := reordered_of a.rank cli0 newAxes na0 _ hnt hN
  have hp : (Arr.argsortInt (na0.map Int.ofNat)).Perm (List.range cli0.length) := by
    rw [← hr.len]; exact argsort_perm na0
  have hne : pick cli0 (Arr.argsortInt (na0.map Int.ofNat)) [] ≠ [] := by
    obtain ⟨_, _, _, _, hcl, _⟩ := combineLegs_unfold a r cl newAxes pipes qconj h
    intro e
    have h1 := congrArg List.length e
    rw [pick_length, hp.length_eq, List.length_range] at h1
    have h2 := (mapM_except_ok _ _ _ hcli).1
    exact hcl (List.length_eq_zero_iff.1 (by simpa [h1] using h2.symm))
  have hlab : (cLabels a).length = a.rank := by simp [cLabels]
  have := split_combine_labels a r a' ha _ _ _ (cLabels a) hl1 hl2 (pipesOK2_pick a cli0 ps0 _ hp hP) hstd hne hlab
    (by
      intro g hg
      rw [pick_length] at hg
      have hlt : (Arr.argsortInt (na0.map Int.ofNat)).getD g 0 < cli0.length := perm_range_lt _ _ hp g hg
      have e : (pick cli0 (Arr.argsortInt (na0.map Int.ofNat)) []).getD g []
          = cli0.getD ((Arr.argsortInt (na0.map Int.ofNat)).getD g 0) [] := by
        unfold pick
        rw [getD_map' _ _ g 0 [] hg]
      rw [e]
      exact hpc _ (getD_mem cli0 _ [] hlt)) hcall hs
  rw [this, cLabels_mkLabel a ha.1 hq]

omit [Zero α] in
theorem cLabels_getD (a : Arr α) (hl : a.labels.length = a.rank)
    (hq : ∀ s, some s ∈ a.labels → s.toList.head? ≠ some '?') (i : Nat) (hi : i < a.rank) :
    mkLabel ((cLabels a).getD i "") = a.labels.getD i none := by
  have := cLabels_mkLabel a hl hq
  have h2 : ((cLabels a).map mkLabel).getD i none = a.labels.getD i none := by rw [this]
  rw [getD_map' _ _ i "" none (by simp [cLabels, hi])] at h2
  exact h2

/-- labels after `split_legs ∘ combine_legs`, with the transposition `transp` -/
theorem split_combineLegs_tr_labels (a r a' : Arr α) (ha : a.WF) (cl : List (List Ax)) (newAxes : Option (List Int))
    (pipes : Option (List (Option ALeg))) (qconj : List (Option Int)) (ps0 : List ALeg) (cli0 : List (List Nat))
    (na0 transp : List Nat) (hps : a.combineMakePipes cl pipes qconj = .ok ps0)
    (hcli : cl.mapM a.getLegIndices = .ok cli0)
    (hnt : Arr.combineNewAxes a.rank cli0 newAxes = .ok (na0, transp)) (htr : transp ≠ List.range a.rank)
    (hP : PipesOK2 a cli0 ps0) (hN : na0.Nodup)
    (hq : ∀ s, some s ∈ a.labels → s.toList.head? ≠ some '?')
    (hpc : ∀ c ∈ cli0, c ≠ [] ∧ ∀ s ∈ pick (cLabels a) c "", Label.Piece s.toList)
    (h : a.combineLegs cl newAxes pipes qconj = .ok r)
    (hs : r.splitLegs (some ((pick na0 (Arr.argsortInt (na0.map Int.ofNat)) 0).map
      (fun k => Ax.idx (Int.ofNat k)))) = .ok a') :
    a'.labels = permuteList a.labels transp none := by
  obtain ⟨hperm, htWF, htD, htl, hcall, hstd, _, hl1, hl2, _⟩ :=
    combineLegs_places_tr a r ha cl newAxes pipes qconj ps0 cli0 na0 transp hps hcli hnt htr hP.ok hN h
  have hr := reordered_of a.rank cli0 newAxes na0 _ hnt hN
  have hp : (Arr.argsortInt (na0.map Int.ofNat)).Perm (List.range cli0.length) := by
    rw [← hr.len]; exact argsort_perm na0
  have hcl0 : ∀ x ∈ cli0.flatten, x < a.rank := by
    intro x hx
    obtain ⟨c, hc, hxc⟩ := List.mem_flatten.1 hx
    obtain ⟨axs, _, hax⟩ := (mapM_except_ok _ _ _ hcli).2 c hc
    exact (Arr.getLegIndices_lt a ha.1 axs c hax).2 x hxc
  have hcl1 : ∀ x ∈ (pick cli0 (Arr.argsortInt (na0.map Int.ofNat)) []).flatten, x < a.rank :=
    fun x hx => hcl0 x ((pick_perm cli0 _ [] hp).flatten.mem_iff.1 hx)
  have hne : (pick cli0 (Arr.argsortInt (na0.map Int.ofNat)) []).map
      (fun c => c.map (fun x => (inversePerm transp).getD x 0)) ≠ [] := by
    obtain ⟨_, _, _, _, hcl, _⟩ := combineLegs_unfold a r cl newAxes pipes qconj h
    intro e
    have h1 := congrArg List.length e
    rw [List.length_map, pick_length, hp.length_eq, List.length_range] at h1
    have h2 := (mapM_except_ok _ _ _ hcli).1
    exact hcl (List.length_eq_zero_iff.1 (by simpa [h1] using h2.symm))
  have hp2 := pipesOK2_transposed a (cTransposed a transp) _ _ transp hperm hcl1 htl
    (pipesOK2_pick a cli0 ps0 _ hp hP)
  have hrank : (cTransposed a transp).rank = a.rank := by
    show (cTransposed a transp).legs.length = _
    rw [htl, permuteList_length, hperm.len]
  -- the labels handed to the worker
  have hlabs : (cTransposed a transp).labels.map (fun l => l.getD "") = transp.map (fun i => (cLabels a).getD i "") := by
    show (permuteList ((cLabels a).map some) transp none).map (fun l => l.getD "") = _
    unfold permuteList
    rw [List.map_map]
    apply List.map_congr_left
    intro i hi
    obtain ⟨j, hj, rfl⟩ := List.getElem_of_mem hi
    have hlt : transp[j] < a.rank := by
      have := hperm.lt j (by rw [← hperm.len]; exact hj)
      rwa [getD_lt transp j 0 hj] at this
    simp only [Function.comp]
    rw [getD_map' _ _ _ "" none (by simp [cLabels, hlt])]
    rfl
  have hlen : ((cTransposed a transp).labels.map (fun l => l.getD "")).length = (cTransposed a transp).rank := by
    rw [hlabs, List.length_map, hperm.len, hrank]
  have := split_combine_labels (cTransposed a transp) r a' htWF _ _ _ _ hl1 hl2 hp2 hstd hne hlen (by
      intro g hg
      rw [List.length_map, pick_length] at hg
      have hlt : (Arr.argsortInt (na0.map Int.ofNat)).getD g 0 < cli0.length := perm_range_lt _ _ hp g hg
      have e : ((pick cli0 (Arr.argsortInt (na0.map Int.ofNat)) []).map
            (fun c => c.map (fun x => (inversePerm transp).getD x 0))).getD g []
          = (cli0.getD ((Arr.argsortInt (na0.map Int.ofNat)).getD g 0) []).map
              (fun x => (inversePerm transp).getD x 0) := by
        rw [getD_map' _ _ g [] [] (by rw [pick_length]; exact hg)]
        unfold pick
        rw [getD_map' _ _ g 0 [] hg]
      rw [e]
      have hmem := getD_mem cli0 _ [] hlt
      obtain ⟨hc1, hc2⟩ := hpc _ hmem
      refine ⟨by intro e'; apply hc1; simpa using e', ?_⟩
      intro s hs'
      apply hc2 s
      -- the picked labels are the same as for the original group
      have hx : ∀ x ∈ cli0.getD ((Arr.argsortInt (na0.map Int.ofNat)).getD g 0) [], x < a.rank :=
        fun x hx => hcl0 x (List.mem_flatten.2 ⟨_, hmem, hx⟩)
      rw [hlabs] at hs'
      unfold pick at hs' ⊢
      rw [List.map_map] at hs'
      obtain ⟨x, hx', rfl⟩ := List.mem_map.1 hs'
      refine List.mem_map.2 ⟨x, hx', ?_⟩
      have hxr := hx x hx'
      simp only [Function.comp]
      rw [inversePerm_getD transp x (by rw [hperm.len]; exact hxr),
        getD_map' _ _ _ 0 "" (by rw [hperm.len]; exact hperm.idxOf_lt x hxr), hperm.getD_idxOf x hxr]) hcall hs
  rw [this, hlabs, List.map_map]
  unfold permuteList
  apply List.map_congr_left
  intro i hi
  obtain ⟨j, hj, rfl⟩ := List.getElem_of_mem hi
  have hlt : transp[j] < a.rank := by
    have := hperm.lt j (by rw [← hperm.len]; exact hj)
    rwa [getD_lt transp j 0 hj] at this
  exact cLabels_getD a ha.1 hq _ hlt

end TenpyModel.C01B2.Comb
