import TenpyModel.C01.C_Concat10
import TenpyModel.C01.C_GetItem2
import TenpyModel.C01.C_Sort13
import TenpyModel.C01.C_Charge9
import TenpyModel.C01.C_ChargeEx
import TenpyModel.C01.C_ChargeEx2
import TenpyModel.C01.C_ChargeEx3
import TenpyModel.C01.C_ChargeEx5
import TenpyModel.C01.C_ChargeEx6
import TenpyModel.C01.C_ChargeEx7
import TenpyModel.C01.C_CombR3
import TenpyModel.C01.C_CombR7
import TenpyModel.C01.C_ProgR6
import TenpyModel.C01.C_ProgABCEx
/-!
C01 — block-sparse tensor algebra agrees with dense numpy algebra, part C:
`concatenate`, `sort_legcharge`, integer `__getitem__`, and preservation of the charge rule (`Arr.ChargeRule`) and of
`LegsValid` by the contraction-type and fusion operations (so that chains of theorems need no side condition).

Helper lemmas: `C01/C_Concat*.lean` (`TenpyModel.C01C.Cat`), `C_GetItem*.lean` (`…Get`), `C_Sort*.lean` (`…SortLc`),
`C_Charge*.lean`; all in the namespace `TenpyModel.C01C`. Scalars: `[Zero α]` unless a part-B lemma needs
`[CommSemiring α]`. Standing hypotheses: the decidable storage invariant `Arr.WF` of the operands and "the model call
returned `.ok`".
-/
open TenpyModel.Core TenpyModel.C01B TenpyModel.C01B2 TenpyModel.C01C TenpyModel.C01C.Cat TenpyModel.C01C.Get

/-! ## concatenate -/

/-- **`concatenate(arrays, axis)`** (n-ary, axis by index or label): for well-formed operands, whenever the model call
returns `.ok r` (its checks: equal `chinfo`, equal `qtotal`, the other legs `test_equal`, equal shapes off the axis):
`to_ndarray(r) = np.concatenate([to_ndarray(a) …], k)`; the leg `k` of the result is the plain leg whose blocks /
charges are those of the operands' legs `k` appended (charges negated where `qconj` differs, as coded), all other legs,
the labels, `qtotal` and `chinfo` are those of the first operand; the blocks are the operands' blocks in order
(`_qdata_sorted = False`); `r` is well formed. `hrank` (every operand has the axis) is automatic unless the axis is the
last one (`C01_concatenate_hrank`); without it the model returns a malformed tensor where tenpy raises
(`C01_concatenate_rank_counterexample`). -/
theorem C01_toDense_concatenate {α : Type} [Zero α] (first : Arr α) (rest : List (Arr α)) (axis : Ax) (r : Arr α)
    (hwf : ∀ a ∈ first :: rest, a.WF) (h : Arr.concatenate (first :: rest) axis = .ok r)
    (k : Nat) (hk : first.getLegIndex axis = .ok k) (hrank : ∀ a ∈ rest, k < a.rank) :
    r.toDense = Dense.concatenate ((first :: rest).map Arr.toDense) k
    ∧ r.shape = first.shape.set k (((first :: rest).map (fun a => (a.lc k).indLen)).sum)
    ∧ (∃ N : Leg, r.legs = first.legs.set k (.plain N)
        ∧ N.mods = first.mods ∧ N.qconj = (first.lc k).qconj
        ∧ N.slices = slicesOfSizes ((first :: rest).flatMap (fun a => (a.lc k).blockSizes))
        ∧ N.charges = (first :: rest).flatMap (fun a =>
            if (a.lc k).qconj = (first.lc k).qconj then (a.lc k).charges
            else (a.lc k).charges.map (fun c => makeValid first.mods (cneg c)))
        ∧ N.blockSizes = (first :: rest).flatMap (fun a => (a.lc k).blockSizes)
        ∧ N.blockNumber = ((first :: rest).map (fun a => (a.lc k).blockNumber)).sum
        ∧ N.indLen = ((first :: rest).map (fun a => (a.lc k).indLen)).sum
        ∧ N.ShapeOK)
    ∧ r.labels = first.labels ∧ r.qtotal = first.qtotal ∧ r.mods = first.mods ∧ r.qdataSorted = false
    ∧ r.data = (first :: rest).flatMap (·.data) ∧ r.qdata.length = r.data.length
    ∧ r.WF :=
  concatenate_spec first rest axis r hwf h k hk hrank

/-- entry form: the entry `idx` of operand `a` (preceded by the operands `pre`) sits at `idx[k] + Σ len(pre)`; and every
index of the result comes from exactly that operand whose range of the axis contains `idx[k]` -/
theorem C01_concatenate_entry {α : Type} [Zero α] (first : Arr α) (rest : List (Arr α)) (axis : Ax) (r : Arr α)
    (hwf : ∀ a ∈ first :: rest, a.WF) (h : Arr.concatenate (first :: rest) axis = .ok r)
    (k : Nat) (hk : first.getLegIndex axis = .ok k) (hrank : ∀ a ∈ rest, k < a.rank) :
    (∀ pre a post, first :: rest = pre ++ a :: post → ∀ idx, InRange idx a.shape →
        r.entry (idx.set k (idx.getD k 0 + (pre.map (fun b => (b.lc k).indLen)).sum)) = a.entry idx)
    ∧ (∀ idx, InRange idx r.shape → ∃ pre a post, first :: rest = pre ++ a :: post
        ∧ (pre.map (fun b => (b.lc k).indLen)).sum ≤ idx.getD k 0
        ∧ idx.getD k 0 < (pre.map (fun b => (b.lc k).indLen)).sum + (a.lc k).indLen
        ∧ InRange (idx.set k (idx.getD k 0 - (pre.map (fun b => (b.lc k).indLen)).sum)) a.shape
        ∧ r.entry idx = a.entry (idx.set k (idx.getD k 0 - (pre.map (fun b => (b.lc k).indLen)).sum))) :=
  concatenate_entry first rest axis r hwf h k hk hrank

/-- when the call succeeds: exactly the four checks of the loop hold for every operand (`Cat.Compat`, decidable), and
consequently equal ranks / `chinfo` / `qtotal`, shapes equal off the axis, the other legs `test_equal` -/
theorem C01_concatenate_checks {α : Type} (first : Arr α) (rest : List (Arr α)) (axis : Ax) :
    ((∃ r, Arr.concatenate (first :: rest) axis = .ok r)
      ↔ ∃ k, first.getLegIndex axis = .ok k ∧ ∀ a ∈ first :: rest, Compat first k a)
    ∧ (∀ r, (∀ a ∈ first :: rest, a.WF) → Arr.concatenate (first :: rest) axis = .ok r →
        ∀ k, first.getLegIndex axis = .ok k → (∀ a ∈ rest, k < a.rank) →
        k < first.rank ∧ ∀ a ∈ first :: rest,
          a.rank = first.rank ∧ a.mods = first.mods ∧ a.qtotal = first.qtotal
          ∧ a.shape = first.shape.set k (a.lc k).indLen
          ∧ ∀ m, m < first.rank → m ≠ k → (a.lc m).testEqual (first.lc m) = true) :=
  ⟨concatenate_ok_iff first rest axis, fun r hwf h k hk hrank => concatenate_checks first rest axis r hwf h k hk hrank⟩

/-- `hrank` is automatic when the axis is not the last one -/
theorem C01_concatenate_hrank {α : Type} (first : Arr α) (rest : List (Arr α)) (axis : Ax) (r : Arr α)
    (h : Arr.concatenate (first :: rest) axis = .ok r) (k : Nat) (hk : first.getLegIndex axis = .ok k)
    (hlast : k + 1 < first.rank) : ∀ a ∈ rest, k < a.rank :=
  concatenate_hrank_of_not_last first rest axis r h k hk hlast

/-- **the side hypothesis `hrank` is needed for the model**: stacking along the *last* axis of a rank-2 tensor, an
operand with one leg less passes all checks; the model then returns a malformed tensor, tenpy raises `IndexError` at
`a.legs[axis]` (model deviation in `Arr.concatenate`: a rank check is missing; reported) -/
theorem C01_concatenate_rank_counterexample :
    C01Example.t.WF ∧ ExCat.s1.WF ∧ C01Example.t.getLegIndex (.idx 1) = .ok 1 ∧ ¬ (1 < ExCat.s1.rank)
    ∧ ∃ r, Arr.concatenate [C01Example.t, ExCat.s1] (.idx 1) = .ok r ∧ ¬ r.WF :=
  concatenate_rank_counterexample

/-- non-vacuity: `concatenate([t, t2, t], 'a')` (U(1)×Z₃; `t2` has the opposite `qconj` on the axis, so its charges are
negated; 3 + 2 + 3 blocks on the axis): the call succeeds, the theorem applies, and the dense side is the stacked array -/
example : ∃ r, Arr.concatenate (C01Example.t :: ExCat.ops) (.lbl "a") = .ok r
    ∧ r.toDense = Dense.concatenate [C01Example.t.toDense, ExCat.t2.toDense, C01Example.t.toDense] 0 ∧ r.WF := by
  obtain ⟨r, h⟩ := (C01_concatenate_checks C01Example.t ExCat.ops (.lbl "a")).1.2 ⟨0, by decide, by decide⟩
  obtain ⟨h1, _, _, _, _, _, _, _, _, h9⟩ :=
    C01_toDense_concatenate C01Example.t ExCat.ops (.lbl "a") r ExCat.hyps.1 h 0 ExCat.hyps.2.1 ExCat.hyps.2.2
  exact ⟨r, h, h1, h9⟩
example : Dense.concatenate [C01Example.t.toDense, ExCat.t2.toDense, C01Example.t.toDense] 0
    = ⟨[11, 3], ([0, 0, 0, 0, 0, 0, 0, 0, 0, 5, -7, 0] ++ [1, 2, 0, 3, 4, 0, 0, 0, 9] ++ [0, 0, 0, 0, 0, 0, 0, 0, 0, 5, -7, 0])⟩ := by
  decide
example (r : Arr Int) (h : Arr.concatenate (C01Example.t :: ExCat.ops) (.lbl "a") = .ok r) :
    r.entry [4, 1] = 2 ∧ r.entry [10, 1] = -7 := by
  obtain ⟨e1, _⟩ := C01_concatenate_entry C01Example.t ExCat.ops (.lbl "a") r ExCat.hyps.1 h 0 ExCat.hyps.2.1 ExCat.hyps.2.2
  have a1 := e1 [C01Example.t] ExCat.t2 [C01Example.t] rfl [0, 1] (by decide)
  have a2 := e1 [C01Example.t, ExCat.t2] C01Example.t [] rfl [3, 1] (by decide)
  exact ⟨a1.trans (by decide), a2.trans (by decide)⟩
example (r : Arr Int) (h : Arr.concatenate (C01Example.t :: ExCat.ops) (.lbl "a") = .ok r) : ∀ a ∈ ExCat.ops, 0 < a.rank :=
  C01_concatenate_hrank _ _ _ r h 0 (by decide) (by decide)

/-! ## sort_legcharge -/

/-- **`sort_legcharge(sort, bunch)`** (one bool per leg; = `combine_legs` with one-leg pipes, pipes replaced by plain
legs, labels restored): whenever the call returns `.ok (perms, cp)`: every `perms[k]` is a permutation of
`range(shape[k])` (the identity for legs that are neither sorted nor bunched; otherwise the flat permutation of the
one-leg pipe, `SortLc.pipePerm`); `to_ndarray(cp) = to_ndarray(a)[np.ix_(*perms)]` (entry form and `Dense.ix`); untouched
legs are unchanged, a selected leg becomes the plain leg of the one-leg pipe: same length and `qconj`, and — for a sane
leg (`Leg.WF` of C06) — `to_qflat` permuted by `perms[k]`, sane, sorted / bunched as requested (`C06_sort_qflat`,
`C06_bunch_qflat`); labels and `chinfo` kept, `qtotal = make_valid(qtotal)`, `_qdata_sorted = True`; `cp` well formed.
(Model deviation, reported: with nothing selected the model returns `IndexError`, tenpy returns a shallow copy.) -/
theorem C01_toDense_sortLegcharge {α : Type} [Zero α] (a : Arr α) (ha : a.WF) (sort bunch : List Bool)
    (perms : List (List Nat)) (cp : Arr α) (h : a.sortLegcharge sort bunch = .ok (perms, cp)) :
    (sort.length = a.rank ∧ bunch.length = a.rank)
    ∧ (perms.length = a.rank
      ∧ (∀ k, k < a.rank → (perms.getD k []).Perm (List.range (a.shape.getD k 0)))
      ∧ (∀ k, k < a.rank → (sort.getD k false || bunch.getD k false) = false →
          perms.getD k [] = List.range (a.shape.getD k 0))
      ∧ (∀ k, k < a.rank → (sort.getD k false || bunch.getD k false) = true →
          perms.getD k [] = SortLc.pipePerm (a.lc k)
            (Pipe.init [a.lc k] (a.lc k).qconj (sort.getD k false) (bunch.getD k false))))
    ∧ (cp.shape = a.shape
      ∧ (∀ idx, InRange idx a.shape → cp.entry idx = a.entry (List.zipWith (fun p i => p.getD i 0) perms idx))
      ∧ cp.toDense = Dense.ix a.toDense perms)
    ∧ (cp.rank = a.rank
      ∧ (∀ k, k < a.rank → (sort.getD k false || bunch.getD k false) = false →
          cp.legs.getD k default = a.legs.getD k default)
      ∧ (∀ k, k < a.rank → (sort.getD k false || bunch.getD k false) = true →
          cp.legs.getD k default
            = .plain (Pipe.init [a.lc k] (a.lc k).qconj (sort.getD k false) (bunch.getD k false)).leg
          ∧ (cp.lc k).indLen = (a.lc k).indLen ∧ (cp.lc k).qconj = (a.lc k).qconj
          ∧ ((a.lc k).WF →
              (cp.lc k).toQflat = (perms.getD k []).map ((a.lc k).toQflat.getD · [])
              ∧ (cp.lc k).WF ∧ (cp.lc k).sane = true
              ∧ (sort.getD k false = true → (cp.lc k).sorted = true ∧ (cp.lc k).isSorted = true)
              ∧ (bunch.getD k false = true → (cp.lc k).bunched = true ∧ (cp.lc k).isBunched = true))))
    ∧ (cp.labels = a.labels ∧ cp.mods = a.mods ∧ cp.qtotal = makeValid a.mods a.qtotal ∧ cp.qdataSorted = true)
    ∧ cp.WF :=
  sortLegcharge_spec a ha sort bunch perms cp h

/-- the same as iterated `np.take` along every axis (the reference operation of `C01_toDense_permute`), and the one-axis
case `to_ndarray(cp) = np.take(to_ndarray(a), perms[j], j)` -/
theorem C01_toDense_sortLegcharge_take {α : Type} [Zero α] (a : Arr α) (ha : a.WF) (sort bunch : List Bool)
    (perms : List (List Nat)) (cp : Arr α) (h : a.sortLegcharge sort bunch = .ok (perms, cp)) :
    cp.toDense = SortLc.takeIter a.toDense perms a.rank
    ∧ ∀ j, j < a.rank → (∀ k, k < a.rank → k ≠ j → (sort.getD k false || bunch.getD k false) = false) →
        cp.toDense = Dense.takeList a.toDense j (perms.getD j [])
        ∧ (perms.getD j []).Perm (List.range (a.shape.getD j 0))
        ∧ (∀ k, k < a.rank → k ≠ j → perms.getD k [] = List.range (a.shape.getD k 0)
            ∧ cp.legs.getD k default = a.legs.getD k default) :=
  ⟨sortLegcharge_takeIter a ha sort bunch perms cp h, fun j hj hone => sortLegcharge_single a ha sort bunch perms cp h j hj hone⟩

/-- non-vacuity (`Comb.Ex.t3`: rank 3 over U(1)×Z₃, leg 0 with sectors `[0,1],[1,2],[0,1]` — unsorted, non-adjacent
duplicate; two stored blocks): sort + bunch leg 0, sort leg 2; the two blocks merge into one, the dense array is
genuinely permuted -/
example : Comb.Ex.t3.WF ∧ (∀ l ∈ Comb.Ex.t3.lcs, l.WF ∧ l.sane = true) := by decide
example : ∃ perms cp, Comb.Ex.t3.sortLegcharge [true, false, true] [true, false, false] = .ok (perms, cp)
    ∧ perms = [[0, 3, 1, 2], [0, 1, 2], [1, 0, 2, 3]]
    ∧ cp.toDense = Dense.ix Comb.Ex.t3.toDense perms ∧ cp.WF ∧ cp.labels = Comb.Ex.t3.labels := by
  obtain ⟨pc, h⟩ : ∃ pc, Comb.Ex.t3.sortLegcharge [true, false, true] [true, false, false] = .ok pc := ⟨_, rfl⟩
  obtain ⟨perms, cp⟩ := pc
  obtain ⟨_, _, ⟨_, _, h3⟩, _, ⟨h5, _⟩, h6⟩ := C01_toDense_sortLegcharge Comb.Ex.t3 (by decide) _ _ perms cp h
  refine ⟨perms, cp, h, ?_, h3, h6, h5⟩
  have : (Comb.Ex.t3.sortLegcharge [true, false, true] [true, false, false]).toOption.map (·.1)
      = some [[0, 3, 1, 2], [0, 1, 2], [1, 0, 2, 3]] := by decide
  rw [h] at this
  simpa [Except.toOption] using this
example : Dense.ix Comb.Ex.t3.toDense [[0, 3, 1, 2], [0, 1, 2], [1, 0, 2, 3]] ≠ Comb.Ex.t3.toDense := by decide
example : (Comb.Ex.t3.sortLegcharge [true, false, true] [true, false, false]).toOption.map (fun pc => pc.2.qdata)
    = some [[0, 0, 0]] := by decide
example : ∃ perms cp, Comb.Ex.t3.sortLegcharge [true, false, false] [true, false, false] = .ok (perms, cp)
    ∧ cp.toDense = Dense.takeList Comb.Ex.t3.toDense 0 (perms.getD 0 []) := by
  obtain ⟨pc, h⟩ : ∃ pc, Comb.Ex.t3.sortLegcharge [true, false, false] [true, false, false] = .ok pc := ⟨_, rfl⟩
  obtain ⟨perms, cp⟩ := pc
  exact ⟨perms, cp, h, ((C01_toDense_sortLegcharge_take Comb.Ex.t3 (by decide) _ _ perms cp h).2 0 (by decide)
    (by decide)).1⟩

/-! ## integer `__getitem__` -/

/-- **`a[i_0, …, i_{rank-1}]`** (`getItemInt`, one integer per leg; the only `__getitem__` the model has at the tensor
level — advanced indexing / `__setitem__` exist only as dense-level `spec` steps of the driver): for a well-formed tensor
obeying the charge rule the call returns `to_ndarray(a)[normalised indices]` (negative indices + length), and raises
`IndexError` exactly when some index is out of range; more indices than legs: `IndexError` (`C01_getItemInt_too_many`).
The charge rule is needed (`C01_getItemInt_chargeRule_counterexample`): `get_block` answers 0 for a block of the wrong
charge even if it is stored. -/
theorem C01_getItemInt {α : Type} [Zero α] (a : Arr α) (ha : a.WF) (hc : a.ChargeRule) (inds : List Int)
    (hl : inds.length = a.rank) :
    (∀ x, a.getItemInt inds = .ok x →
        IndsOK a.shape inds ∧ InRange (normInds a.shape inds) a.shape
        ∧ x = a.entry (normInds a.shape inds) ∧ x = a.toDense.get 0 (normInds a.shape inds))
    ∧ (a.getItemInt inds = .error .indexError ↔ ¬ IndsOK a.shape inds)
    ∧ (∀ e, a.getItemInt inds = .error e → e = .indexError)
    ∧ (IndsOK a.shape inds ↔ ∀ m, m < a.rank →
        -(a.shape.getD m 0 : Int) ≤ inds.getD m 0 ∧ inds.getD m 0 < (a.shape.getD m 0 : Int)) :=
  getItemInt_spec a ha hc inds hl

theorem C01_getItemInt_too_many {α : Type} [Zero α] (a : Arr α) (inds : List Int) (h : a.rank < inds.length) :
    a.getItemInt inds = .error .indexError :=
  getItemInt_too_many a inds h

/-- the closed form, natural indices, and the chain `concatenate` → `__getitem__` -/
theorem C01_getItemInt_eq {α : Type} [Zero α] (a : Arr α) (ha : a.WF) (hc : a.ChargeRule) :
    (∀ inds : List Int, inds.length = a.rank →
      a.getItemInt inds = if IndsOK a.shape inds then .ok (a.entry (normInds a.shape inds)) else .error .indexError)
    ∧ (∀ idx, InRange idx a.shape → a.getItemInt (idx.map Int.ofNat) = .ok (a.entry idx)) :=
  ⟨fun inds hl => getItemInt_eq a ha hc inds hl, fun idx h => getItemInt_nat a ha hc idx h⟩

theorem C01_getItemInt_chargeRule_counterexample :
    ExGet.tw.WF ∧ ¬ ExGet.tw.ChargeRule ∧ ExGet.tw.getItemInt [3, 1] = .ok 0 ∧ ExGet.tw.toDense.get 0 [3, 1] = -7 :=
  getItemInt_chargeRule_counterexample

example : C01Example.t.WF ∧ C01Example.t.ChargeRule ∧ C01Example.t.rank = 2 ∧ C01Example.t.shape = [4, 3] := by decide
example (x : Int) (h : C01Example.t.getItemInt [-1, -2] = .ok x) : x = C01Example.t.toDense.get 0 [3, 1] ∧ x = -7 := by
  obtain ⟨_, _, _, h4⟩ := (C01_getItemInt C01Example.t (by decide) (by decide) [-1, -2] rfl).1 x h
  exact ⟨h4.trans (by decide), h4.trans (by decide)⟩
example : C01Example.t.getItemInt [4, 0] = .error .indexError :=
  (C01_getItemInt C01Example.t (by decide) (by decide) [4, 0] rfl).2.1.2 (by decide)
example : C01Example.t.getItemInt [1, 2, 0] = .error .indexError := C01_getItemInt_too_many _ _ (by decide)
example : C01Example.t.getItemInt [3, 0] = .ok 5 :=
  ((C01_getItemInt_eq C01Example.t (by decide) (by decide)).2 [3, 0] (by decide)).trans (by decide)

/-! ## the charge rule of results -/

/-- **`outer`, `tensordot` (every `axes`, every branch), `trace`** return tensors that obey the charge rule and have
valid legs, given that the operands do. Together with `r.WF` from `C01_toDense_tensordot(_axes)` / `C01_toDense_trace` /
`C01_WF_outer` the hypotheses of the dense theorems are closed under these operations. -/
theorem C01_chargeRule_products {α : Type} [CommSemiring α] (a b : Arr α) (ha : a.WF) (hb : b.WF)
    (hca : a.ChargeRule) (hcb : b.ChargeRule) (hva : LegsValid a) (hvb : LegsValid b) :
    (∀ r, a.outer b = .ok r → r.ChargeRule ∧ LegsValid r)
    ∧ (∀ cy axes r, Arr.tensordot cy a b axes = .ok (.arr r) → r.ChargeRule ∧ LegsValid r)
    ∧ (∀ l1 l2 r, a.trace l1 l2 = .ok (.arr r) → r.ChargeRule ∧ LegsValid r) :=
  ⟨fun r h => chargeRule_outer a b r ha hb hca hcb hva hvb h,
   fun cy axes r h => chargeRule_tensordot cy a b ha hb hca hcb hva hvb axes r h,
   fun l1 l2 r h => chargeRule_trace a ha hca hva l1 l2 r h⟩

/-- the rows of a tensor-valued `tensordot(a, b, k)` are pairs of stored rows with equal contracted parts (all branches;
no charge rule needed) — C02's "rows are pairs" for the value-carrying model -/
theorem C01_tensordot_rows {α : Type} [CommSemiring α] (cy : Bool) (a b : Arr α) (ha : a.WF) (hb : b.WF) (k : Nat)
    (r : Arr α) (h : Arr.tensordot cy a b (.int (k : Int)) = .ok (.arr r)) :
    ∀ q ∈ r.qdata, ∃ qa ∈ a.qdata, ∃ qb ∈ b.qdata,
      qa.drop (a.rank - k) = qb.take k ∧ q = qa.take (a.rank - k) ++ qb.drop k :=
  (tensordot_int_rows cy a b (W.of ha) (W.of hb) k r h).2.2.2.2.2.2

/-- **`combine_legs`** (standard form and the public call with or without its transposition step): the result obeys
the charge rule and has valid legs. `PipesQ` (every pipe has `qconj = ±1`, decidable) is needed: the model's `Pipe.init`
does not check `qconj` (tenpy's `test_sanity` does) and with `qconj = 2` the charge rule breaks
(`C_ChargeEx2.lean` has the `decide`d counterexample). -/
theorem C01_chargeRule_combineLegs {α : Type} [Zero α] (a r : Arr α) (ha : a.WF) (hca : a.ChargeRule)
    (hva : LegsValid a) :
    (∀ (cl : List (List Nat)) (newAxes : List Nat) (pipes : List ALeg) (labels : List String),
        newAxes.length = cl.length → pipes.length = cl.length → Comb.PipesOK a cl pipes →
        Comb.StdForm a.rank cl newAxes → PipesQ pipes → a.combineStd cl newAxes pipes labels = .ok r →
        r.ChargeRule ∧ LegsValid r)
    ∧ (∀ (cl : List (List Ax)) (newAxes : Option (List Int)) (pipes : Option (List (Option ALeg)))
        (qconj : List (Option Int)) (ps0 : List ALeg) (cli0 : List (List Nat)) (na0 transp : List Nat),
        a.combineMakePipes cl pipes qconj = .ok ps0 → cl.mapM a.getLegIndices = .ok cli0 →
        Arr.combineNewAxes a.rank cli0 newAxes = .ok (na0, transp) → Comb.PipesOK a cli0 ps0 → na0.Nodup →
        PipesQ ps0 → a.combineLegs cl newAxes pipes qconj = .ok r → r.ChargeRule ∧ LegsValid r) :=
  ⟨fun cl newAxes pipes labels hl1 hl2 hp hs hq h =>
      chargeRule_combineStd a r ha hca hva cl newAxes pipes labels hl1 hl2 hp hs hq h,
   fun cl newAxes pipes qconj ps0 cli0 na0 transp hps hcli hnt hP hN hQ h =>
      chargeRule_combineLegs a r ha hca hva cl newAxes pipes qconj ps0 cli0 na0 transp hps hcli hnt hP hN hQ h⟩

/-- **`split_legs`** of any well-formed tensor obeying the charge rule whose pipe legs are genuine pipes over valid
incoming legs (`SplitLegOK`, decidable: `Arr.WF` / `LegsValid` say nothing about the incoming legs of a pipe): all three
branches, incl. the explicit zero blocks the worker creates -/
theorem C01_chargeRule_splitLegs {α : Type} [Zero α] (a r : Arr α) (ha : a.WF) (hca : a.ChargeRule) (hva : LegsValid a)
    (hS : ∀ l ∈ a.legs, l.isPipe = true → SplitLegOK a.mods l) (axes : Option (List Ax))
    (h : a.splitLegs axes = .ok r) : r.ChargeRule ∧ LegsValid r :=
  chargeRule_splitLegs a r ha hca hva hS axes h

/-- **`concatenate`**: charge rule and valid legs of the result (`hq`: the legs on the axis have `qconj = ±1`) -/
theorem C01_chargeRule_concatenate {α : Type} (first : Arr α) (rest : List (Arr α)) (axis : Ax) (r : Arr α)
    (hwf : ∀ a ∈ first :: rest, a.WF) (hc : ∀ a ∈ first :: rest, a.ChargeRule)
    (hv : ∀ a ∈ first :: rest, LegsValid a) (h : Arr.concatenate (first :: rest) axis = .ok r)
    (k : Nat) (hk : first.getLegIndex axis = .ok k) (hrank : ∀ a ∈ rest, k < a.rank)
    (hq : ∀ b ∈ first :: rest, (b.lc k).qconj = 1 ∨ (b.lc k).qconj = -1) : r.ChargeRule ∧ LegsValid r :=
  concatenate_chargeRule first rest axis r hwf hc hv h k hk hrank hq

/-- non-vacuity: the worker branch `m2 ⋅₁ m` (4 × 3 stored blocks, duplicate sectors), the outer product `t ⊗ v`, the
trace of `s3`, `combine_legs` of `t3` with and without transposition, `split_legs` of the combined tensor, the
concatenation of three tensors — hypotheses by `decide`, the calls succeed -/
example : ∃ r, Arr.tensordot false C01ExampleB2.m2 C01ExampleB.m (.int 1) = .ok (.arr r) ∧ r.ChargeRule ∧ LegsValid r := by
  obtain ⟨r, hr⟩ := tensordot_int_isOk false C01ExampleB2.m2 C01ExampleB.m 1 rfl (by decide) (by decide) (by decide)
  exact ⟨r, hr, (C01_chargeRule_products C01ExampleB2.m2 C01ExampleB.m (by decide) (by decide) (by decide) (by decide)
    (by decide) (by decide)).2.1 false _ r hr⟩
example : ∃ r, C01Example.t.outer C01ExampleB.v = .ok r ∧ r.ChargeRule ∧ LegsValid r ∧ r.qdata ≠ [] := by
  obtain ⟨r, hr⟩ := Ex.ok_of_isSome (C01Example.t.outer C01ExampleB.v) (by decide)
  refine ⟨r, hr, ?_⟩
  obtain ⟨h1, h2⟩ := (C01_chargeRule_products C01Example.t C01ExampleB.v (by decide) (by decide) (by decide)
    (by decide) (by decide) (by decide)).1 r hr
  refine ⟨h1, h2, ?_⟩
  have : (C01Example.t.outer C01ExampleB.v).toOption.map (fun r => decide (r.qdata ≠ [])) = some true := by decide
  rw [hr] at this
  simpa [Except.toOption] using this
example : ∃ r, C01ExampleB2T.s3.trace (.lbl "a") (.lbl "a*") = .ok (.arr r) ∧ r.ChargeRule ∧ LegsValid r := by
  obtain ⟨r, hr⟩ := Ex.arr_of_okArr (C01ExampleB2T.s3.trace (.lbl "a") (.lbl "a*")) (by decide)
  exact ⟨r, hr, (C01_chargeRule_products C01ExampleB2T.s3 C01ExampleB2T.s3 (by decide) (by decide) (by decide)
    (by decide) (by decide) (by decide)).2.2 _ _ r hr⟩
example : ∃ r, Comb.Ex.t3.combineStd [[1, 2]] [1] [Comb.Ex.pBC] ["a", "b", "?2"] = .ok r ∧ r.ChargeRule ∧ LegsValid r := by
  obtain ⟨r, hr⟩ := Ex2.ok_of_isSome (Comb.Ex.t3.combineStd [[1, 2]] [1] [Comb.Ex.pBC] ["a", "b", "?2"]) (by decide)
  exact ⟨r, hr, (C01_chargeRule_combineLegs Comb.Ex.t3 r (by decide) (by decide) (by decide)).1 _ _ _ _ rfl rfl
    Ex2.pipesOK_pBC (by decide) (by decide) hr⟩
example (r : Arr Int) (h : Arr.concatenate (C01Example.t :: ExCat.ops) (.lbl "a") = .ok r) : r.ChargeRule ∧ LegsValid r :=
  C01_chargeRule_concatenate _ _ _ r ExCat.hyps.1 ExCat.hyps2.1 ExCat.hyps2.2.1 h 0 ExCat.hyps.2.1 ExCat.hyps.2.2 ExCat.hyps2.2.2

/-! ## the charge rule under the part-A operations, `sort_legcharge`, and the default `combine_legs` / `split_legs` chain -/

/-- **every part-A operation preserves the charge rule and the validity of the legs** (given the side hypotheses the
dense theorems of part A already carry): conj, transpose, iswapaxes, add_trivial_leg, iscale_axis, take_slice,
squeeze (`SqueezeQ`: the stored blocks sit in block 0 of the squeezed legs — needed, see
`C01_squeeze_chargeRule_counterexample`), iproject, permute, isort_qdata, ibinary_blockwise and both kernel variants of
iadd_prefactor_other (new `self` and the operand after the call; `a.mods = b.mods` is not implied by the model's checks
at the level of `Arr`) -/
theorem C01_chargeRule_partA {α : Type} [Zero α] [Add α] [Mul α] [DecidableEq α] (a : Arr α) (ha : a.WF)
    (hc : a.ChargeRule) (hv : LegsValid a) :
    (∀ st : α → α, (a.conj st).ChargeRule ∧ LegsValid (a.conj st))
    ∧ (∀ axes r, a.transpose axes = .ok r → r.ChargeRule ∧ LegsValid r)
    ∧ (∀ x1 x2 r, a.iswapaxes x1 x2 = .ok r → r.ChargeRule ∧ LegsValid r)
    ∧ (∀ axis label qconj r, a.addTrivialLeg axis label qconj = .ok r → r.ChargeRule ∧ LegsValid r)
    ∧ (∀ s axis r, a.iscaleAxis s axis = .ok r → r.ChargeRule ∧ LegsValid r)
    ∧ (∀ indices axes ax r, a.getLegIndices axes = .ok ax → ax.Nodup → a.takeSlice indices axes = .ok r →
        r.ChargeRule ∧ LegsValid r)
    ∧ (∀ axes r, SqueezeQ a axes → a.squeeze axes = .ok (.arr r) → r.ChargeRule ∧ LegsValid r)
    ∧ (∀ masks axes ax r, a.getLegIndices axes = .ok ax → ax.Nodup → a.iproject masks axes = .ok r →
        r.ChargeRule ∧ LegsValid r)
    ∧ (∀ perm axis k r, a.getLegIndex axis = .ok k → perm.Perm (List.range (a.lc k).indLen) →
        (a.mods.length = 0 → ∀ c ∈ (a.lc k).charges, c = []) → a.permute perm axis = .ok r →
        r.ChargeRule ∧ LegsValid r)
    ∧ (a.isortQdata.ChargeRule ∧ LegsValid a.isortQdata)
    ∧ (∀ (f : α → α → α) b r b', b.WF → a.mods = b.mods → b.ChargeRule → LegsValid b →
        a.ibinaryBlockwise f b = .ok (r, b') → (r.ChargeRule ∧ LegsValid r) ∧ (b'.ChargeRule ∧ LegsValid b'))
    ∧ (∀ cy p b r b', b.WF → a.mods = b.mods → b.ChargeRule → LegsValid b →
        a.iaddPrefactorOther cy p b = .ok (r, b') → (r.ChargeRule ∧ LegsValid r) ∧ (b'.ChargeRule ∧ LegsValid b')) :=
  ⟨fun st => chargeRule_conj st a hc hv,
   fun axes r h => chargeRule_transpose a r ha hc hv axes h,
   fun x1 x2 r h => chargeRule_iswapaxes a r ha hc hv x1 x2 h,
   fun axis label qconj r h => chargeRule_addTrivialLeg a r ha hc hv axis label qconj h,
   fun s axis r h => chargeRule_iscaleAxis a r hc hv s axis h,
   fun indices axes ax r hax hnd h => chargeRule_takeSlice a r ha hc hv indices axes ax hax hnd h,
   fun axes r hq h => chargeRule_squeeze a r ha hc hv axes hq h,
   fun masks axes ax r hax hnd h => chargeRule_iproject a r ha hc hv masks axes ax hax hnd h,
   fun perm axis k r hk hp hcl h => chargeRule_permute a r ha hc hv perm axis k hk hp hcl h,
   chargeRule_isortQdata a ha hc hv,
   fun f b r b' hb hm hcb hvb h => chargeRule_ibinaryBlockwise f a b r b' ha hb hm hc hcb hv hvb h,
   fun cy p b r b' hb hm hcb hvb h => chargeRule_iaddPrefactorOther cy a b r b' p ha hb hm hc hcb hv hvb h⟩

/-- `SqueezeQ` is needed: a unit leg whose *empty* first block carries another charge than the stored block — the operand
is well formed, obeys the charge rule and has no block of extent 0 along the squeezed axis, the squeezed tensor violates
the charge rule (`squeeze` subtracts `get_charge(0)`) -/
theorem C01_squeeze_chargeRule_counterexample :
    Ex5.tu2.WF ∧ Ex5.tu2.ChargeRule ∧ LegsValid Ex5.tu2
    ∧ (∀ row ∈ Ex5.tu2.qdata, ∀ k ∈ [0], (Ex5.tu2.lc k).blockSizes.getD (row.getD k 0) 0 ≠ 0)
    ∧ (match Ex5.tu2.squeeze (some [.idx 0]) with
        | .ok (.arr r) => some (decide r.ChargeRule, r.qtotal, r.qdata) | _ => none)
      = some (false, [-2, 0], [[0]]) := by decide

example (r : Arr Int) (h : C01Example.t.transpose (some [.lbl "b*", .idx 0]) = .ok r) : r.ChargeRule ∧ LegsValid r :=
  (C01_chargeRule_partA C01Example.t (by decide) (by decide) (by decide)).2.1 _ r h
example (r b' : Arr Int) (h : C01CoreExample.a.iaddPrefactorOther true 2 C01CoreExample.b = .ok (r, b')) :
    (r.ChargeRule ∧ LegsValid r) ∧ (b'.ChargeRule ∧ LegsValid b') :=
  (C01_chargeRule_partA C01CoreExample.a (by decide) (by decide) (by decide)).2.2.2.2.2.2.2.2.2.2.2 true 2 _ r b'
    (by decide) (by decide) (by decide) (by decide) h

/-- **`sort_legcharge`, the default `combine_legs` call, and `split_legs` after it** keep the charge rule and the
validity of the legs — hypotheses on the operand only: its legs have direction ±1 (`LegsQ`, decidable; tenpy's
`test_sanity` checks it, `Arr.WF` / `LegsValid` do not), the `qconj` arguments are ±1, nested pipe legs are genuine
pipes (`SplitLegOK`); the results of `combine_legs` again satisfy `SplitLegOK` -/
theorem C01_chargeRule_fusion {α : Type} [Zero α] (a : Arr α) (ha : a.WF) (hc : a.ChargeRule) (hv : LegsValid a)
    (hq : LegsQ a) :
    (∀ sort bunch perms cp, a.sortLegcharge sort bunch = .ok (perms, cp) → cp.ChargeRule ∧ LegsValid cp)
    ∧ (∀ cl qconj r, (∀ q, some q ∈ qconj → q = 1 ∨ q = -1) → (∀ c ∈ cl, c ≠ []) →
        a.combineLegs cl none none qconj = .ok r →
        (r.ChargeRule ∧ LegsValid r)
        ∧ ((∀ l ∈ a.legs, l.isPipe = true → SplitLegOK a.mods l) →
            (∀ l ∈ r.legs, l.isPipe = true → SplitLegOK r.mods l)
            ∧ ∀ axes a', r.splitLegs axes = .ok a' → a'.ChargeRule ∧ LegsValid a')) :=
  ⟨fun sort bunch perms cp h => chargeRule_sortLegcharge a ha hc hv hq sort bunch perms cp h,
   fun cl qconj r hqc hne h =>
    ⟨chargeRule_combineLegs_default a r ha hc hv hq cl qconj hqc hne h,
     fun hS => ⟨combineLegs_default_splitLegOK a r ha hv hq hS cl qconj hqc hne h,
       fun axes a' hs => chargeRule_split_combineLegs a r a' ha hc hv hq hS cl qconj hqc hne h axes hs⟩⟩⟩

example : ∃ r, Comb.Ex.t3.combineLegs [[.idx 2, .idx 0]] none none [some 1] = .ok r ∧ r.ChargeRule ∧ LegsValid r
    ∧ ∀ axes a', r.splitLegs axes = .ok a' → a'.ChargeRule ∧ LegsValid a' := by
  obtain ⟨r, hr⟩ := Ex2.ok_of_isSome (Comb.Ex.t3.combineLegs [[.idx 2, .idx 0]] none none [some 1]) (by decide)
  have hqc : ∀ q : Int, some q ∈ [some (1 : Int)] → q = 1 ∨ q = -1 := by
    intro q hq
    left
    simpa using hq
  obtain ⟨h1, h2⟩ := (C01_chargeRule_fusion Comb.Ex.t3 (by decide) (by decide) (by decide) (by decide)).2
    [[.idx 2, .idx 0]] [some 1] r hqc (by decide) hr
  exact ⟨r, hr, h1.1, h1.2, (h2 (by decide)).2⟩

/-- **programs over part A and the products with closed charge invariants**: inputs well formed, obeying the charge rule,
with valid legs over one `chinfo`; side conditions only part A's documented ones and `SqueezeQ` at the embedded part-A
programs (`SideABQ`) — nothing about the charge rule of intermediate results: dense form and labels of the result are
those of the reference semantics, and the result again satisfies all invariants. (Closes the side condition of
`C01_programAB`.) -/
theorem C01_programAB_closed {α : Type} [CommRing α] [DecidableEq α] (st : α → α) (hst : st 0 = 0) (cy : Bool)
    (m : List Nat) (env : List (Arr α)) (henv : ∀ a ∈ env, a.WF ∧ a.ChargeRule ∧ LegsValid a)
    (hm : ∀ a ∈ env, a.mods = m) (p : C01ProgAB α) (r : Arr α) (hside : SideABQ st cy env p)
    (h : C01ProgAB.evalArr st cy env p = .ok r) :
    r.toDense = (C01ProgAB.evalRef st (env.map Arr.toLD) p).d
    ∧ r.labels = (C01ProgAB.evalRef st (env.map Arr.toLD) p).labels
    ∧ r.WF ∧ r.ChargeRule ∧ LegsValid r ∧ r.mods = m
    ∧ C01ProgAB.Side st cy env p :=
  have h1 := progAB_spec_mods st hst cy m env henv hm p r hside h
  ⟨h1.1, h1.2.1, h1.2.2.1, h1.2.2.2.1, h1.2.2.2.2.1, h1.2.2.2.2.2,
    (progAB_chargeRule st hst cy env henv p r (sideAB_of_sideABQ st hst cy m env henv hm p hside).1 h).1⟩

/-- `(-m2) ⋅₁ m` (worker branch of `tensordot`): no charge-rule side condition -/
example : ∃ r, C01ExampleB2.pAB.evalArr id false [C01ExampleB2.m2, C01ExampleB.m] = .ok r
    ∧ r.toDense = (C01ProgAB.evalRef id [C01ExampleB2.m2.toLD, C01ExampleB.m.toLD] C01ExampleB2.pAB).d
    ∧ r.WF ∧ r.ChargeRule ∧ LegsValid r := by
  obtain ⟨r, hr⟩ := tensordot_int_isOk false C01ExampleB2.m2.neg C01ExampleB.m 1 rfl (by decide) (by decide) (by decide)
  have he : C01ExampleB2.pAB.evalArr id false [C01ExampleB2.m2, C01ExampleB.m] = .ok r := by
    have e1 : (C01ProgAB.partA (.neg (.input 0)) (.input 0) (.input 0)).evalArr id false
        [C01ExampleB2.m2, C01ExampleB.m] = .ok C01ExampleB2.m2.neg := rfl
    have e2 : (C01ProgAB.input 1).evalArr id false [C01ExampleB2.m2, C01ExampleB.m] = .ok C01ExampleB.m := rfl
    simp only [C01ExampleB2.pAB, C01ProgAB.evalArr, bind, Except.bind] at e1 e2 ⊢
    simp only [e1, e2, C01ProgAB.dotArr, hr]
  obtain ⟨h1, _, h3, h4, h5, _⟩ := C01_programAB_closed id rfl false [1, 3] _ (by decide) (by decide) _ r
    Ex5.sideABQ_pAB he
  exact ⟨r, he, h1, h3, h4, h5⟩

/-! ## combine_legs / split_legs / programs on reference objects that carry the legs -/

/-- **`combine_legs(groups, qconj=…)`** (the public default call; groups by index or label; with or without the
transposition step; all three branches): the result, seen as a reference object (numpy array, labels, legs,
`chinfo.mod`), is `refCombine` of the operand's reference object — a function that reads no block list: transpose by
`transp`, place `R[combIdx idx] = A_t[idx]` (`combIdx` = `map_incoming_flat` of each group's pipe, bijective), legs =
spectators + pipes, labels `'(a.b)'`; and the result is well formed -/
theorem C01_toDense_combineLegs {α : Type} [Zero α] (a r : Arr α) (ha : a.WF) (cl : List (List Ax))
    (qconj : List (Option Int)) (hne : ∀ c ∈ cl, c ≠ []) (h : a.combineLegs cl none none qconj = .ok r) :
    r.toR = refCombine a.toR cl qconj ∧ r.WF
    ∧ ((∀ l ∈ a.legs, l.isPipe = true → CombR.PipeLegOK l) → ∀ l ∈ r.legs, l.isPipe = true → CombR.PipeLegOK l) :=
  ⟨(combineLegs_specR a r ha cl qconj hne h).1, (combineLegs_specR a r ha cl qconj hne h).2,
    fun hp => CombR.combineLegs_pipeLegOK a r ha cl qconj hne h hp⟩

/-- **`split_legs(axes)`** of *any* well-formed tensor whose pipe legs are genuine pipes over well-shaped incoming legs
(`CombR.PipeLegOK`, decidable — not only results of `combine_legs`; all three branches): the result as a reference
object is `refSplit` of the operand's: `R[idx] = A[idx with each group of sub-indices replaced by map_incoming_flat of
its pipe]` (`CombR.splitIdx_getD`), legs = the incoming legs in place of the pipes, labels split by `_split_leg_label`;
well formed. Results of `combine_legs` satisfy `PipeLegOK` (`CombR.combineLegs_pipeLegOK`), hence the composite. -/
theorem C01_toDense_splitLegs {α : Type} [Zero α] (a r : Arr α) (ha : a.WF) (axes : Option (List Ax))
    (hp : ∀ l ∈ a.legs, l.isPipe = true → CombR.PipeLegOK l) (h : a.splitLegs axes = .ok r) :
    r.toR = refSplit a.toR axes ∧ r.WF :=
  splitLegs_specR a r ha axes hp h

/-- non-vacuity: `t3.combine_legs([1, 2], qconj=+1)` and `t3.combine_legs([2, 'a'])` (transposition, group by label)
against `refCombine`; `c3t` (a tensor with a pipe as first leg, unsorted blocks, *not* a literal `combine_legs` output)
split against `refSplit`; the reference values are genuinely permuted arrays -/
example : Comb.Ex.t3.WF ∧ CombREx.c3t.WF ∧ (∀ l ∈ CombREx.c3t.legs, l.isPipe = true → CombR.PipeLegOK l) := by decide
example : ∃ r, Comb.Ex.t3.combineLegs [[.idx 2, .lbl "a"]] none none [some 1] = .ok r
    ∧ r.toR = refCombine Comb.Ex.t3.toR [[.idx 2, .lbl "a"]] [some 1] ∧ r.WF := by
  obtain ⟨r, hr⟩ := Ex2.ok_of_isSome (Comb.Ex.t3.combineLegs [[.idx 2, .lbl "a"]] none none [some 1]) (by decide)
  obtain ⟨h1, h2, _⟩ := C01_toDense_combineLegs Comb.Ex.t3 r (by decide) _ _ (by decide) hr
  exact ⟨r, hr, h1, h2⟩
example : (refCombine Comb.Ex.t3.toR [[.idx 1, .idx 2]] [some 1]).d.get 0 [3, 1] = -7
    ∧ (refCombine Comb.Ex.t3.toR [[.idx 1, .idx 2]] [some 1]).d.shape = [4, 12] := by decide +kernel
example : ∃ r, CombREx.c3t.splitLegs none = .ok r ∧ r.toR = refSplit CombREx.c3t.toR none ∧ r.WF := by
  obtain ⟨r, hr⟩ := Ex2.ok_of_isSome (CombREx.c3t.splitLegs none) (by decide)
  exact ⟨r, hr, C01_toDense_splitLegs CombREx.c3t r (by decide) none (by decide) hr⟩

/-! ## programs -/

open TenpyModel.Core.C01SSA in
/-- **`C01_programABC`: all finite programs** in single-assignment form whose steps are whole part-A/B expression
programs (`ab p`: neg, scale, conj, complex_conj, transpose, iswapaxes, add_trivial_leg, take_slice, squeeze,
iscale_axis, iproject, permute, ibinary_blockwise, iadd_prefactor_other, outer, tensordot by integer or axis pair,
trace), `combine_legs`, `split_legs`, `concatenate` and `sort_legcharge`, each applied to earlier values and appending
its result. Reference objects carry the legs (`RObj` = numpy array + labels + legs + `chinfo.mod`), because the dense
semantics of fusion / sorting depends on the leg charges. For every environment of well-formed tensors, if the model
run returns `.ok env'` and the side conditions hold (`C01StepC.Side`: part A's documented conditions and the charge rule
of `tensordot` operands inside `ab` steps, no empty group, genuine pipes, every operand of `concatenate` has the axis),
then **every value of the model run, seen as a reference object, is the value of the reference run**, and all values
are well formed. Induction over the program (`C01SSA.run_spec`). -/
theorem C01_programABC {α : Type} [CommRing α] [DecidableEq α] (st : α → α) (hst : st 0 = 0) (cy : Bool)
    (prog : C01StepC.Prog α) (env env' : List (Arr α)) (hw : ∀ a ∈ env, a.WF)
    (hs : C01StepC.Side st hst cy env prog) (h : C01StepC.runArr st hst cy env prog = .ok env') :
    env'.map Arr.toR = C01StepC.runRef st hst (env.map Arr.toR) prog
    ∧ (∀ a ∈ env', a.WF) ∧ env'.length = env.length + prog.length := by
  obtain ⟨h1, h2, h3⟩ := run_spec (C01StepC.specs st hst cy prog) env env' hw hs h
  refine ⟨?_, h2, ?_⟩
  · rw [h1, C01StepC.runRef_cy]
  · rw [← h3]
    simp [C01StepC.specs, C01StepC.specsQ]

open TenpyModel.Core.C01SSA in
/-- **the same with closed charge invariants**: from an environment of tensors that are well formed, obey the charge
rule, have valid legs and share `chinfo.mod = m` (`Inv m`), under the *reduced* side conditions `C01StepC.SideQ` (part
A's documented conditions + `SqueezeQ`; directions ±1 of the legs involved in `combine_legs` / `sort_legcharge` /
`concatenate`; `SplitLegOK` for `split_legs`; no hypothesis about the charge rule of any intermediate value): the full side
conditions hold, every value is the reference value, and every value again satisfies `Inv m` -/
theorem C01_programABC_closed {α : Type} [CommRing α] [DecidableEq α] (st : α → α) (hst : st 0 = 0) (cy : Bool)
    (m : List Nat) (prog : C01StepC.Prog α) (env env' : List (Arr α)) (hw : ∀ a ∈ env, Inv m a)
    (hs : C01StepC.SideQ st hst cy env prog) (h : C01StepC.runArr st hst cy env prog = .ok env') :
    C01StepC.Side st hst cy env prog
    ∧ env'.map Arr.toR = C01StepC.runRef st hst (env.map Arr.toR) prog
    ∧ (∀ a ∈ env', a.WF ∧ a.ChargeRule ∧ LegsValid a ∧ a.mods = m) := by
  obtain ⟨h1, h2, h3⟩ := run_specQ (C01StepC.specsQ st hst cy prog) m env env' hw hs h
  refine ⟨h1, ?_, h3⟩
  rw [h2]
  exact C01StepC.runRef_cy st hst cy _ prog

/-- non-vacuity (`ExABC.prog` on `t3`: `v1 = combine_legs([1,2], +1)`, `v2 = v1.split_legs()`,
`v3 = v2.sort_legcharge([T,F,T],[T,F,F])`, `v4 = concatenate([v2, v2], 1)`, `v5 = -v4`): the run succeeds, the invariants
and the reduced side conditions hold, hence every value is the reference value; the reference values are computed from
`t3`'s reference object alone -/
example : C01StepC.runArr id rfl false [Comb.Ex.t3] ExABC.prog
    = .ok [Comb.Ex.t3, ExABC.v1, ExABC.v2, ExABC.v3, ExABC.v4, ExABC.v5] := ExABC.run_ok
example : [Comb.Ex.t3, ExABC.v1, ExABC.v2, ExABC.v3, ExABC.v4, ExABC.v5].map Arr.toR
      = C01StepC.runRef id rfl [Comb.Ex.t3.toR] ExABC.prog
    ∧ ExABC.v5.WF ∧ ExABC.v5.ChargeRule ∧ LegsValid ExABC.v5 := by
  obtain ⟨_, h2, h3⟩ := C01_programABC_closed id rfl false [1, 3] ExABC.prog [Comb.Ex.t3] _ ExABC.inv0 ExABC.sideQ
    ExABC.run_ok
  have h5 := h3 ExABC.v5 (by simp)
  exact ⟨h2, h5.1, h5.2.1, h5.2.2.1⟩
example : [Comb.Ex.t3, ExABC.v1, ExABC.v2, ExABC.v3, ExABC.v4, ExABC.v5].map Arr.toR
    = C01StepC.runRef id rfl [Comb.Ex.t3.toR] ExABC.prog :=
  (C01_programABC id rfl false ExABC.prog [Comb.Ex.t3] _ (fun a ha => (ExABC.inv0 a ha).1)
    (C01_programABC_closed id rfl false [1, 3] ExABC.prog [Comb.Ex.t3] _ ExABC.inv0 ExABC.sideQ ExABC.run_ok).1
    ExABC.run_ok).1
example : ExABC.v1.shape = [4, 12] ∧ ExABC.v2.toDense = Comb.Ex.t3.toDense ∧ ExABC.v3.toDense ≠ ExABC.v2.toDense
    ∧ ExABC.v4.shape = [4, 6, 4] := by decide
