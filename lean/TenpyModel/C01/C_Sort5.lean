import TenpyModel.C01.C_Sort4
/-!
C01 part C — `sort_legcharge`, part 5: the steps of `Arr.sortLegcharge` (`sortLegcharge_unfold`), and the arguments
`combine_legs` derives from its call: the groups by index (`getLegIndices_sel`) and the pipes that
`_combine_legs_make_pipes` accepts (`makePipes_sel`: the given one-leg pipes, unchanged).
-/
namespace TenpyModel.C01C.SortLc
open TenpyModel.Core TenpyModel.C01B TenpyModel.C01B2.Comb

variable {α : Type}

/-- the axes `sort_legcharge` touches -/
def sAxes (rank : Nat) (sort bunch : List Bool) : List Nat :=
  (List.range rank).filter (fun k => sort.getD k false || bunch.getD k false)

/-- `LegPipe([leg_k], qconj=leg_k.qconj, sort=sort[k], bunch=bunch[k])` -/
def sPipe (a : Arr α) (sort bunch : List Bool) (k : Nat) : Pipe :=
  Pipe.init [a.lc k] (a.lc k).qconj (sort.getD k false) (bunch.getD k false)

def sPipeLeg (a : Arr α) (sort bunch : List Bool) (k : Nat) : ALeg :=
  .pipe (sPipe a sort bunch k) [a.legs.getD k default]

def sPipes (a : Arr α) (sort bunch : List Bool) : List ALeg :=
  (sAxes a.rank sort bunch).map (sPipeLeg a sort bunch)

/-- the groups as passed to `combine_legs` -/
def sCl (rank : Nat) (sort bunch : List Bool) : List (List Ax) :=
  (sAxes rank sort bunch).map (fun k => [Ax.idx (Int.ofNat k)])

theorem sAxes_asc (rank : Nat) (sort bunch : List Bool) : (sAxes rank sort bunch).Pairwise (· < ·) :=
  List.Pairwise.filter _ List.pairwise_lt_range

theorem sAxes_lt (rank : Nat) (sort bunch : List Bool) : ∀ x ∈ sAxes rank sort bunch, x < rank :=
  fun _ hx => List.mem_range.1 (List.mem_filter.1 hx).1

theorem sAxes_mem (rank : Nat) (sort bunch : List Bool) (k : Nat) (hk : k < rank) :
    (sAxes rank sort bunch).contains k = (sort.getD k false || bunch.getD k false) := by
  by_cases h : (sort.getD k false || bunch.getD k false) = true
  · rw [h]
    simp only [List.contains_iff_mem]
    exact List.mem_filter.2 ⟨List.mem_range.2 hk, h⟩
  · have h' : (sort.getD k false || bunch.getD k false) = false := by simpa using h
    rw [h']
    apply Bool.eq_false_iff.2
    intro hc
    simp only [List.contains_iff_mem] at hc
    exact h (List.mem_filter.1 hc).2

/-- the perm reported for axis `k`, read off the result `r` of `combine_legs` -/
def sPermOf (a r : Arr α) (axes : List Nat) (k : Nat) : List Nat :=
  if axes.contains k then
    match (Arr.pipeOf (r.legs.getD k default)).perm with
    | none => List.range (a.shape.getD k 0)
    | some pm => (a.lc k).permFlatFromPermQind (inversePerm pm)
  else List.range (a.shape.getD k 0)

/-- the legs of the result: pipes converted back to `LegCharge`s -/
def sLegsOf (r : Arr α) (axes : List Nat) (rank : Nat) : List ALeg :=
  (List.range rank).map (fun k =>
    if axes.contains k then (r.legs.getD k default).toLegCharge else r.legs.getD k default)

/-- the steps of `Arr.sortLegcharge` -/
theorem sortLegcharge_unfold [Zero α] (a : Arr α) (sort bunch : List Bool) (perms : List (List Nat)) (cp : Arr α)
    (h : a.sortLegcharge sort bunch = .ok (perms, cp)) :
    sort.length = a.rank ∧ bunch.length = a.rank
    ∧ ∃ r, a.combineLegs (sCl a.rank sort bunch) none (some ((sPipes a sort bunch).map some)) [none] = .ok r
      ∧ perms = (List.range a.rank).map (sPermOf a r (sAxes a.rank sort bunch))
      ∧ cp = { r with labels := a.labels, legs := sLegsOf r (sAxes a.rank sort bunch) a.rank } := by
  unfold Arr.sortLegcharge at h
  simp only [bind, Except.bind, pure, Except.pure, throw, throwThe, MonadExceptOf.throw] at h
  split at h
  · simp at h
  rename_i hlen
  split at h
  · simp at h
  rename_i r hr
  simp only [Except.ok.injEq, Prod.mk.injEq] at h
  have hl : sort.length = a.rank ∧ bunch.length = a.rank := by
    constructor
    · by_cases e : sort.length = a.rank
      · exact e
      · exact absurd (Or.inl e) hlen
    · by_cases e : bunch.length = a.rank
      · exact e
      · exact absurd (Or.inr e) hlen
  refine ⟨hl.1, hl.2, r, hr, h.1.symm, h.2.symm⟩

theorem getLegIndices_sel (a : Arr α) (axes : List Nat) (hlt : ∀ x ∈ axes, x < a.rank) :
    (axes.map (fun k => [Ax.idx (Int.ofNat k)])).mapM a.getLegIndices = .ok (sGroups axes) := by
  induction axes with
  | nil => rfl
  | cons k axes ih =>
    have e := getLegIndices_idx_ok a [k] (by intro j hj; rw [List.mem_singleton.1 hj]; exact hlt k (by simp))
    rw [List.map_cons, List.mapM_cons]
    simp only [List.map_cons, List.map_nil] at e
    rw [e, ih (fun j hj => hlt j (by simp [hj]))]
    rfl

end TenpyModel.C01C.SortLc

namespace TenpyModel.C01C.SortLc
open TenpyModel.Core TenpyModel.C01B TenpyModel.C01B2.Comb
variable {α : Type}

theorem makePipes_sel (a : Arr α) (sort bunch : List Bool) (ps0 : List ALeg)
    (hps : a.combineMakePipes (sCl a.rank sort bunch) (some ((sPipes a sort bunch).map some)) [none] = .ok ps0) :
    ps0 = sPipes a sort bunch := by
  unfold Arr.combineMakePipes at hps
  simp only [bind, Except.bind, pure, Except.pure, Option.getD_some] at hps
  split at hps
  · simp [throw, throwThe, MonadExceptOf.throw] at hps
  generalize (if [none].length = 1 ∧ 1 < (sCl a.rank sort bunch).length then
    List.replicate (sCl a.rank sort bunch).length (([none] : List (Option Int)).headD none) else [none]) = qc at hps
  split at hps
  · simp [throw, throwThe, MonadExceptOf.throw] at hps
  have hn : (sCl a.rank sort bunch).length = (sAxes a.rank sort bunch).length := by simp [sCl]
  have hlen := (mapM_except_ok _ _ _ hps).1
  rw [List.length_range, hn] at hlen
  apply ext_getD _ _ default (by rw [hlen]; simp [sPipes])
  intro g hg
  rw [hlen] at hg
  have hgi := mapM_except_getD _ _ _ hps 0 default g (by rw [List.length_range, hn]; exact hg)
  rw [getD_range _ _ (by rw [hn]; exact hg)] at hgi
  have hk : (sAxes a.rank sort bunch).getD g 0 < a.rank := sAxes_lt _ _ _ _ (getD_mem _ g 0 hg)
  have e1 : (List.map some (sPipes a sort bunch)).getD g none
      = some (sPipeLeg a sort bunch ((sAxes a.rank sort bunch).getD g 0)) := by
    rw [getD_map' _ _ g default none (by simp [sPipes]; exact hg), sPipes, getD_map' _ _ g 0 default hg]
  have e2 : (sCl a.rank sort bunch).getD g [] = [Ax.idx (Int.ofNat ((sAxes a.rank sort bunch).getD g 0))] := by
    rw [sCl, getD_map' _ _ g 0 [] hg]
  have e3 := getLegIndices_idx_ok a [(sAxes a.rank sort bunch).getD g 0]
    (by intro j hj; rw [List.mem_singleton.1 hj]; exact hk)
  simp only [List.map_cons, List.map_nil] at e3
  have e4 : (sPipe a sort bunch ((sAxes a.rank sort bunch).getD g 0)).legs
      = [a.lc ((sAxes a.rank sort bunch).getD g 0)] := Pipe.init_legs _ _ _ _
  rw [sPipes, getD_map' _ _ g 0 default hg]
  simp only [e1, e2, e3, sPipeLeg, e4, List.headD_cons, List.length_cons, List.length_nil, ne_eq, not_true_eq_false,
    if_false] at hgi
  split at hgi
  · simp [throw, throwThe, MonadExceptOf.throw] at hgi
  · simp only [Except.ok.injEq] at hgi
    exact hgi.symm

end TenpyModel.C01C.SortLc
