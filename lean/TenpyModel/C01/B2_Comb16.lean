import TenpyModel.C01.B2_Comb15
/-!
C01 part B2 — part 16: the situation after `combine_legs` (`CS`: operand, result, groups, new axes, pipes) with the
facts needed to analyse `split_legs`: axis descriptions by position, the pipe of every group, and
`splitLegList r.legs new_axes = a.legs` (the incoming legs come back in place).
-/
namespace TenpyModel.C01B2.Comb
open TenpyModel.Core TenpyModel.C01B

variable {α : Type}

/-- the pipes are `LegPipe`s over the legs of the groups, with exactly these legs as incoming legs -/
def PipesOK2 (a : Arr α) (cl : List (List Nat)) (pipes : List ALeg) : Prop :=
  ∀ g, g < cl.length → ∃ qconj sort bunch,
    pipes.getD g default = .pipe (Pipe.init (pick a.lcs (cl.getD g []) default) qconj sort bunch)
      (pick a.legs (cl.getD g []) default)

theorem PipesOK2.ok {a : Arr α} {cl : List (List Nat)} {pipes : List ALeg} (h : PipesOK2 a cl pipes) :
    PipesOK a cl pipes := by
  intro g hg
  obtain ⟨qconj, sort, bunch, e⟩ := h g hg
  exact ⟨qconj, sort, bunch, _, e⟩

/-- axis description at position `k` -/
def cSpecK (n : Nat) (cl : List (List Nat)) (nonComb na : List Nat) (ps : List ALeg) (k : Nat) : AxS :=
  if na.contains k then .new (sP ps (na.idxOf k)) (cl.getD (na.idxOf k) [])
  else .old (nonComb.getD ((cNonNew n na).idxOf k) 0)

theorem cSpecs_eq (n : Nat) (cl : List (List Nat)) (nonComb na : List Nat) (ps : List ALeg) :
    cSpecs n cl nonComb na (cPs ps) = (List.range n).map (cSpecK n cl nonComb na ps) := rfl

/-- the situation after `r = combineStd a cl na ps` -/
structure CS (a r : Arr α) (cl : List (List Nat)) (na : List Nat) (ps : List ALeg) : Prop where
  wa : W a
  wr : W r
  hl1 : na.length = cl.length
  hl2 : ps.length = cl.length
  pipes : PipesOK2 a cl ps
  std : StdForm a.rank cl na
  legs : r.legs = cLegs a cl na ps

namespace CS
variable {a r : Arr α} {cl : List (List Nat)} {na : List Nat} {ps : List ALeg}

/-- rank of the result -/
def n (_ : CS a r cl na ps) : Nat := (cNonComb a.rank cl).length + cl.length
/-- the axis descriptions -/
def specs (_ : CS a r cl na ps) : List AxS :=
  cSpecs ((cNonComb a.rank cl).length + cl.length) cl (cNonComb a.rank cl) na (cPs ps)
def specK (_ : CS a r cl na ps) (k : Nat) : AxS :=
  cSpecK ((cNonComb a.rank cl).length + cl.length) cl (cNonComb a.rank cl) na ps k

theorem specs_eq (c : CS a r cl na ps) : c.specs = (List.range c.n).map c.specK := rfl

theorem specs_map {β} (c : CS a r cl na ps) (f : AxS → β) : c.specs.map f = (List.range c.n).map (fun k => f (c.specK k)) := by
  rw [c.specs_eq, List.map_map]; rfl

theorem rank_r (c : CS a r cl na ps) : r.rank = c.n := by
  show r.legs.length = _
  rw [c.legs]
  exact (cLegs_getD a cl na ps c.hl1 c.hl2 c.std).1

theorem valid (c : CS a r cl na ps) : ∀ s ∈ c.specs, s.Valid a.lcs :=
  cSpecs_valid a cl na ps c.hl1 c.hl2 c.pipes.ok c.std

theorem parts (c : CS a r cl na ps) : (c.specs.map AxS.part).flatten = List.range a.rank := by
  have := c.std.2.2
  rw [← cSpecs_parts _ _ _ _ (cPs ps)] at this
  exact this

theorem lcs_r (c : CS a r cl na ps) : r.lcs = c.specs.map (AxS.leg a.lcs) := by
  unfold Arr.lcs
  rw [c.legs]
  exact cLegs_lcs a cl na ps c.hl1 c.hl2 (c.pipes.ok.isPipe c.hl2) c.std

theorem specK_mem (c : CS a r cl na ps) (k : Nat) (hk : k < c.n) : c.specK k ∈ c.specs := by
  rw [c.specs_eq]
  exact List.mem_map.2 ⟨k, List.mem_range.2 hk, rfl⟩

theorem na_nodup (c : CS a r cl na ps) : na.Nodup := c.std.1.imp (fun h => Nat.ne_of_lt h)

theorem na_lt (c : CS a r cl na ps) (g : Nat) (hg : g < na.length) : na.getD g 0 < c.n :=
  c.std.2.1 _ (getD_mem na g 0 hg)

theorem idxOf_na (c : CS a r cl na ps) (g : Nat) (hg : g < na.length) : na.idxOf (na.getD g 0) = g := by
  rw [getD_lt na g 0 hg]
  exact c.na_nodup.idxOf_getElem g hg

theorem contains_na (_ : CS a r cl na ps) (g : Nat) (hg : g < na.length) : na.contains (na.getD g 0) = true := by
  simpa using getD_mem na g 0 hg

theorem na_idxOf (_ : CS a r cl na ps) (k : Nat) (hk : na.contains k = true) :
    na.idxOf k < na.length ∧ na.getD (na.idxOf k) 0 = k := by
  have hm : k ∈ na := by simpa using hk
  have hlt := List.idxOf_lt_length_of_mem hm
  refine ⟨hlt, ?_⟩
  rw [getD_lt na _ 0 hlt]
  exact List.getElem_idxOf hlt

/-- the description of a pipe axis -/
theorem specK_new (c : CS a r cl na ps) (g : Nat) (hg : g < na.length) :
    c.specK (na.getD g 0) = .new (sP ps g) (cl.getD g []) := by
  unfold specK cSpecK
  rw [if_pos (c.contains_na g hg), c.idxOf_na g hg]

/-- the pipe of group `g` -/
theorem pipe_g (c : CS a r cl na ps) (g : Nat) (hg : g < na.length) :
    (∀ x ∈ cl.getD g [], x < a.lcs.length)
    ∧ ∃ qconj sort bunch, sP ps g = Pipe.init (pick a.lcs (cl.getD g []) default) qconj sort bunch := by
  have := c.valid _ (c.specK_mem _ (c.na_lt g hg))
  rw [c.specK_new g hg] at this
  exact this

/-- the leg of the result at a pipe axis -/
theorem legs_new (c : CS a r cl na ps) (g : Nat) (hg : g < na.length) :
    r.legs.getD (na.getD g 0) default = ps.getD g default := by
  rw [c.legs, (cLegs_getD a cl na ps c.hl1 c.hl2 c.std).2 _ (c.na_lt g hg), if_pos (c.contains_na g hg),
    c.idxOf_na g hg]

theorem pipeOf_new (c : CS a r cl na ps) (g : Nat) (hg : g < na.length) :
    Arr.pipeOf (r.legs.getD (na.getD g 0) default) = sP ps g := by
  rw [c.legs_new g hg]
  unfold sP
  rw [cPs_eq ps (c.pipes.ok.isPipe c.hl2), getD_map' _ _ g default dPipe (by rw [c.hl2, ← c.hl1]; exact hg)]

/-- **the incoming legs come back**: `split_legs` of the new axes restores the legs of the operand -/
theorem splitLegList_eq (c : CS a r cl na ps) : Arr.splitLegList r.legs na = a.legs := by
  unfold Arr.splitLegList
  have hlen : r.legs.length = c.n := c.rank_r
  rw [hlen, List.flatMap_def]
  have hparts := c.std.2.2
  have e := eq_flatten_pick a.legs _ default (by rw [hparts]; rfl)
  conv_rhs => rw [e]
  congr 1
  unfold cParts
  rw [List.map_map]
  apply List.map_congr_left
  intro k hk
  have hk' : k < c.n := List.mem_range.1 hk
  simp only [Function.comp]
  rw [c.legs, (cLegs_getD a cl na ps c.hl1 c.hl2 c.std).2 k hk']
  by_cases hc : na.contains k = true
  · rw [if_pos hc, if_pos hc, if_pos hc]
    obtain ⟨hg, _⟩ := c.na_idxOf k hc
    obtain ⟨qconj, sort, bunch, e⟩ := c.pipes (na.idxOf k) (by rw [← c.hl1]; exact hg)
    rw [e]
    rfl
  · rw [if_neg hc, if_neg hc, if_neg hc]
    rfl

theorem splitLegList_lcs (c : CS a r cl na ps) : (Arr.splitLegList r.legs na).map ALeg.leg = a.lcs := by
  rw [c.splitLegList_eq]; rfl

end CS
end TenpyModel.C01B2.Comb
