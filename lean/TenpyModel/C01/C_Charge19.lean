import TenpyModel.C01.C_Charge18
import TenpyModel.C01.C_Charge8
import TenpyModel.C01.B2_Comb29
/-!
C01 part C — chaining `combine_legs` / `split_legs`:
* `hQ_default`: the pipes made by the default call `combine_legs(groups, qconj=…)` have direction `±1` (given `LegsQ a` and
  `qconj` arguments in `{None, +1, -1}`);
* `combine_splitLegOK`: the result of `combine_legs` satisfies the hypothesis `SplitLegOK` of `chargeRule_splitLegs`;
* `chargeRule_split_combine`: hence `split_legs(combine_legs(a, …))` obeys the charge rule with no hypothesis on the
  intermediate tensor.
-/
namespace TenpyModel.C01C
open TenpyModel.Core TenpyModel.C01B TenpyModel.C01B2 TenpyModel.C01B2.Comb

variable {α : Type}

theorem mem_of_getD_some {β} (L : List (Option β)) (g : Nat) (q : β) (h : L.getD g none = some q) : some q ∈ L := by
  by_cases hg : g < L.length
  · rw [← h]; exact getD_mem L g none hg
  · rw [List.getD_eq_getElem?_getD, List.getElem?_eq_none (by omega)] at h
    cases h

theorem mem_of_replicate_headD {β} (L : List (Option β)) (n g : Nat) (q : β)
    (h : (List.replicate n (L.headD none)).getD g none = some q) : some q ∈ L := by
  have := mem_of_getD_some _ g q h
  have e := (List.mem_replicate.1 this).2
  cases L with
  | nil => cases e
  | cons x L => simp only [List.headD_cons] at e; rw [e]; simp

/-- **`hQ_default`**: `_combine_legs_make_pipes` with `pipes=None` builds pipes of direction `qconj[i]` resp. the direction
of the first leg of the group -/
theorem hQ_default (a : Arr α) (ha : a.labels.length = a.rank) (hq : LegsQ a) (cl : List (List Ax))
    (qconj : List (Option Int)) (hqc : ∀ q, some q ∈ qconj → q = 1 ∨ q = -1) (ps0 : List ALeg)
    (cli0 : List (List Nat)) (hps : a.combineMakePipes cl none qconj = .ok ps0)
    (hcli : cl.mapM a.getLegIndices = .ok cli0) : PipesQ ps0 := by
  have hcl := (mapM_except_ok _ _ _ hcli).1
  have key : ∀ g, g < cli0.length → (ps0.getD g default).leg.qconj = 1 ∨ (ps0.getD g default).leg.qconj = -1 := by
    unfold Arr.combineMakePipes at hps
    simp only [bind, Except.bind, pure, Except.pure, Option.getD_none, List.length_replicate, ne_eq,
      not_true_eq_false, if_false] at hps
    split at hps
    all_goals
      split at hps
      · simp [throw, throwThe, MonadExceptOf.throw] at hps
      intro g hg
      rw [hcl] at hg
      have hgi := mapM_except_getD _ _ _ hps 0 default g (by simpa using hg)
      rw [getD_range _ _ hg] at hgi
      have hci := mapM_except_getD _ _ _ hcli [] [] g hg
      rw [getD_replicate' _ _ _ _ hg] at hgi
      simp only at hgi
      split at hgi
      · rename_i q heq
        rw [hci] at hgi
        simp only [Except.ok.injEq] at hgi
        rw [← hgi, mkPipe_eq a _ q]
        show (Pipe.init _ q true true).leg.qconj = 1 ∨ (Pipe.init _ q true true).leg.qconj = -1
        rw [(Pipe.init_mods_qconj _ q true true).2]
        apply hqc
        first
          | exact mem_of_replicate_headD _ _ _ _ heq
          | exact mem_of_getD_some _ _ _ heq
      · split at hgi
        · simp [throw, throwThe, MonadExceptOf.throw] at hgi
        · split at hgi
          · simp at hgi
          · rename_i v hv
            rw [hci] at hgi
            simp only [Except.ok.injEq] at hgi
            rw [← hgi, mkPipe_eq a _ _]
            show (Pipe.init _ (a.lc v).qconj true true).leg.qconj = 1 ∨ (Pipe.init _ (a.lc v).qconj true true).leg.qconj = -1
            rw [(Pipe.init_mods_qconj _ (a.lc v).qconj true true).2]
            have hvlt : v < a.rank := Arr.getLegIndex_lt a ha _ v hv
            exact hq _ (getD_mem a.legs v default hvlt)
  have hlen : ps0.length = cli0.length := by
    have h1 := (mapM_except_ok _ _ _ hcli).1
    unfold Arr.combineMakePipes at hps
    simp only [bind, Except.bind, pure, Except.pure, Option.getD_none, List.length_replicate, ne_eq,
      not_true_eq_false, if_false] at hps
    split at hps
    all_goals
      split at hps
      · simp [throw, throwThe, MonadExceptOf.throw] at hps
      have := (mapM_except_ok _ _ _ hps).1
      simp only [List.length_range] at this
      omega
  intro x hx
  obtain ⟨i, hi, rfl⟩ := List.getElem_of_mem hx
  have := key i (by omega)
  rw [getD_lt _ _ _ hi] at this
  exact this

/-! ### the result of `combine_legs` can be split again -/

/-- the pipes of `PipesOK2` over legs satisfying the invariants are consistent `LegPipe`s -/
theorem splitLegOK_pipe (a : Arr α) (hw : W a) (hv : LegsValid a) (c : List Nat) (hc : ∀ x ∈ c, x < a.rank)
    (qc : Int) (hqc : qc = 1 ∨ qc = -1) (sort bunch : Bool) :
    SplitLegOK a.mods (.pipe (Pipe.init (pick a.lcs c default) qc sort bunch) (pick a.legs c default)) := by
  have hsub : (pick a.legs c default).map ALeg.leg = pick a.lcs c default := by
    unfold pick Arr.lcs
    rw [List.map_map]
    apply List.map_congr_left
    intro x _
    exact (getD_map_leg a.legs x).symm
  have hqe := (Pipe.init_mods_qconj (pick a.lcs c default) qc sort bunch).2
  refine ⟨⟨(sort, bunch), by cases sort <;> cases bunch <;> simp, by rw [hsub, hqe]⟩, by rw [hqe]; exact hqc, ?_⟩
  intro l hl
  rw [hsub] at hl
  obtain ⟨x, hx, rfl⟩ := List.mem_map.1 hl
  have hm : a.lcs.getD x default ∈ a.lcs := getD_mem _ _ _ (by rw [lcs_length]; exact hc x hx)
  exact ⟨hw.shapes _ hm, (hv _ hm).1, (hv _ hm).2⟩

/-- members of the legs of the result of `combineStd` -/
theorem mem_cLegs (a : Arr α) (cl : List (List Nat)) (newAxes : List Nat) (pipes : List ALeg) (l : ALeg)
    (h : l ∈ cLegs a cl newAxes pipes) : l ∈ pipes ∨ l ∈ a.legs ∨ l = default := by
  unfold cLegs insFold at h
  have : ∀ (L : List (Nat × ALeg)) (base : List ALeg),
      l ∈ L.foldl (fun (ls : List ALeg) np => Dense.insertAt ls (Arr.insertPos ls.length np.1) np.2) base →
      l ∈ L.map (·.2) ∨ l ∈ base := by
    intro L
    induction L with
    | nil => intro base h; exact Or.inr h
    | cons np L ih =>
      intro base h
      rw [List.foldl_cons] at h
      rcases ih _ h with h1 | h1
      · exact Or.inl (by simp [h1])
      · unfold Dense.insertAt at h1
        rcases List.mem_append.1 h1 with h2 | h2
        · exact Or.inr (List.mem_of_mem_take h2)
        · rcases List.mem_cons.1 h2 with h3 | h3
          · exact Or.inl (by simp [h3])
          · exact Or.inr (List.mem_of_mem_drop h3)
  rcases this _ _ h with h1 | h1
  · obtain ⟨np, hnp, e⟩ := List.mem_map.1 h1
    exact Or.inl (e ▸ (List.of_mem_zip hnp).2)
  · obtain ⟨x, _, rfl⟩ := List.mem_map.1 h1
    by_cases hx : x < a.legs.length
    · exact Or.inr (Or.inl (getD_mem _ _ _ hx))
    · right; right
      rw [List.getD_eq_getElem?_getD, List.getElem?_eq_none (by omega)]; rfl

section zero
variable [Zero α]

/-- **`combine_splitLegOK`** (standard form): every pipe leg of the result of `combine_legs` satisfies `SplitLegOK` —
the new pipes by `PipesOK2` + `PipesQ`, the old (nested) ones by hypothesis -/
theorem combine_splitLegOK (a r : Arr α) (ha : a.WF) (hv : LegsValid a)
    (hS : ∀ l ∈ a.legs, l.isPipe = true → SplitLegOK a.mods l)
    (cl : List (List Nat)) (newAxes : List Nat) (pipes : List ALeg) (labels : List String)
    (hl2 : pipes.length = cl.length) (hcl : ∀ x ∈ cl.flatten, x < a.rank)
    (hpipes : PipesOK2 a cl pipes) (hq : PipesQ pipes)
    (h : a.combineStd cl newAxes pipes labels = .ok r) :
    ∀ l ∈ r.legs, l.isPipe = true → SplitLegOK r.mods l := by
  have hw := W.of ha
  obtain ⟨hlegs, hmods, _⟩ := combineStd_out a hw cl newAxes pipes labels r h
  intro l hl hp
  rw [hlegs] at hl
  rw [hmods]
  rcases mem_cLegs a cl newAxes pipes l hl with h1 | h1 | h1
  · obtain ⟨g, hg, rfl⟩ := List.getElem_of_mem h1
    obtain ⟨qc, sort, bunch, e⟩ := hpipes g (by omega)
    rw [getD_lt _ _ _ hg] at e
    rw [e]
    have hqg := hq _ h1
    rw [e] at hqg
    have hqe := (Pipe.init_mods_qconj (pick a.lcs (cl.getD g []) default) qc sort bunch).2
    refine splitLegOK_pipe a hw hv _ (fun x hx => hcl x (List.mem_flatten.2 ⟨_, getD_mem cl g [] (by omega), hx⟩))
      qc ?_ sort bunch
    have : (ALeg.pipe (Pipe.init (pick a.lcs (cl.getD g []) default) qc sort bunch)
        (pick a.legs (cl.getD g []) default)).leg.qconj = qc := hqe
    rw [this] at hqg
    exact hqg
  · exact hS l h1 hp
  · rw [h1] at hp
    cases hp

/-- **`split_legs ∘ combine_legs`, charge rule** (standard form): no hypothesis about the intermediate tensor -/
theorem chargeRule_split_combineStd (a r a' : Arr α) (ha : a.WF) (hc : a.ChargeRule) (hv : LegsValid a)
    (hS : ∀ l ∈ a.legs, l.isPipe = true → SplitLegOK a.mods l)
    (cl : List (List Nat)) (newAxes : List Nat) (pipes : List ALeg) (labels : List String)
    (hl1 : newAxes.length = cl.length) (hl2 : pipes.length = cl.length) (hcl : ∀ x ∈ cl.flatten, x < a.rank)
    (hpipes : PipesOK2 a cl pipes) (hstd : StdForm a.rank cl newAxes) (hq : PipesQ pipes)
    (h : a.combineStd cl newAxes pipes labels = .ok r) (axes : Option (List Ax)) (hs : r.splitLegs axes = .ok a') :
    a'.ChargeRule ∧ LegsValid a' := by
  obtain ⟨c, v⟩ := chargeRule_combineStd a r ha hc hv cl newAxes pipes labels hl1 hl2 hpipes.ok hstd hq h
  exact chargeRule_splitLegs r a' (combine_WF a r ha cl newAxes pipes labels hl1 hl2 hpipes.ok hstd h) c v
    (combine_splitLegOK a r ha hv hS cl newAxes pipes labels hl2 hcl hpipes hq h) axes hs

end zero
end TenpyModel.C01C
