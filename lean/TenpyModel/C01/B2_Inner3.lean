import TenpyModel.C01.B2_Inner2
/-!
C01 part B2 — `inner` with general `axes` (a pair of axis lists, or `'labels'`), step 2: what the model's call does
(`innerPre`: the operand `a'` on which `_inner_worker` is called; `innerTail`: the checks and the worker), and the
permutation it applies to `a`.
-/
namespace TenpyModel.C01B2
open TenpyModel.Core TenpyModel.C01B
open TenpyModel.Core.Arr (permuteList)

variable {α : Type}

/-- for an explicit pair of axis lists: the (possibly transposed) operand `a'` -/
def innerMid [Zero α] (a b : Arr α) (xa xb : List Ax) : Except Err (Arr α) := do
  let ia ← a.getLegIndices xa
  let ib ← b.getLegIndices xb
  if ia.length ≠ a.rank ∨ ib.length ≠ b.rank then throw .valueError
  let ia := pick ia (Arr.argsortInt (ib.map Int.ofNat)) 0
  if ia ≠ List.range a.rank then a.itranspose (some (ia.map (fun i => Ax.idx (Int.ofNat i)))) else pure a

/-- `innerMid` in continuation-passing form (the text of the model with the rest of `inner` abstracted as `k`) -/
def innerMidK [Zero α] {β : Type} (a b : Arr α) (xa xb : List Ax) (k : Arr α → Except Err β) : Except Err β := do
  let ia ← a.getLegIndices xa
  let ib ← b.getLegIndices xb
  if ia.length ≠ a.rank ∨ ib.length ≠ b.rank then throw .valueError
  let ia := pick ia (Arr.argsortInt (ib.map Int.ofNat)) 0
  let a' ← if ia ≠ List.range a.rank then a.itranspose (some (ia.map (fun i => Ax.idx (Int.ofNat i)))) else pure a
  k a'

/-- the first part of `inner` (same text as in the model) followed by an arbitrary continuation `k` -/
def innerK [Zero α] {β : Type} (a b : Arr α) (axes : Arr.InnerAxes) (doConj : Bool) (k : Arr α → Except Err β) :
    Except Err β := do
  let a' ← match axes with
    | .range => pure a
    | _ => do
      let (xa, xb) ← match axes with
        | .pair xa xb => pure (xa, xb)
        | _ =>
          if a.labels.contains none then throw .typeError
          let la := a.labels.map (fun l => Ax.lbl (l.getD ""))
          if doConj then pure (la, la)
          else pure (la, a.labels.map (fun l => Ax.lbl (Label.conj (l.getD ""))))
      let ia ← a.getLegIndices xa
      let ib ← b.getLegIndices xb
      if ia.length ≠ a.rank ∨ ib.length ≠ b.rank then throw .valueError
      let ia := pick ia (Arr.argsortInt (ib.map Int.ofNat)) 0
      if ia ≠ List.range a.rank then a.itranspose (some (ia.map (fun i => Ax.idx (Int.ofNat i)))) else pure a
  k a'

/-- the second part of `inner`: checks and `_inner_worker` -/
def innerTail [Add α] [Mul α] [Zero α] (st : α → α) (a' b : Arr α) (doConj : Bool) : Except Err α := do
  if a'.mods ≠ b.mods then throw .valueError
  let ok := if doConj then Arr.legsEqual a'.lcs b.lcs
            else (List.zipWith Leg.testContractible a'.lcs b.lcs).all id
  if !ok then throw .valueError
  return Arr.innerWorker st a' b doConj

theorem inner_eq [Add α] [Mul α] [Zero α] (st : α → α) (a b : Arr α) (axes : Arr.InnerAxes) (doConj : Bool) :
    Arr.inner st a b axes doConj = (do
      if a.rank ≠ b.rank then throw .valueError
      innerK a b axes doConj (fun a' => innerTail st a' b doConj)) := rfl

theorem innerK_pair [Zero α] {β : Type} (a b : Arr α) (xa xb : List Ax) (doConj : Bool)
    (k : Arr α → Except Err β) : innerK a b (.pair xa xb) doConj k = innerMidK a b xa xb k := rfl

theorem innerK_range [Zero α] {β : Type} (a b : Arr α) (doConj : Bool)
    (k : Arr α → Except Err β) : innerK a b .range doConj k = k a := rfl

theorem innerTail_ok [Add α] [Mul α] [Zero α] (st : α → α) (a' b : Arr α) (doConj : Bool) (x : α)
    (h : innerTail st a' b doConj = .ok x) :
    a'.mods = b.mods
    ∧ (if doConj then Arr.legsEqual a'.lcs b.lcs else (List.zipWith Leg.testContractible a'.lcs b.lcs).all id) = true
    ∧ x = Arr.innerWorker st a' b doConj := by
  unfold innerTail at h
  simp only [bind, Except.bind, pure, Except.pure] at h
  split at h
  · simp [throw, throwThe, MonadExceptOf.throw] at h
  · rename_i hm
    cases doConj
    · simp only [Bool.false_eq_true, if_false] at h ⊢
      split at h
      · simp [throw, throwThe, MonadExceptOf.throw] at h
      · rename_i hok
        simp only [Except.ok.injEq] at h
        exact ⟨by simpa using hm, by simpa using hok, h.symm⟩
    · simp only [if_true] at h ⊢
      split at h
      · simp [throw, throwThe, MonadExceptOf.throw] at h
      · rename_i hok
        simp only [Except.ok.injEq] at h
        exact ⟨by simpa using hm, by simpa using hok, h.symm⟩

/-- the axis lists `inner` works with (`none` for `axes='range'`): the given pair, or the labels of `a` against
their conjugates (the same labels for `do_conj=True`) -/
def innerAxLists (a : Arr α) (axes : Arr.InnerAxes) (doConj : Bool) : Option (List Ax × List Ax) :=
  match axes with
  | .range => none
  | .pair xa xb => some (xa, xb)
  | .labels =>
    some (a.labels.map (fun l => Ax.lbl (l.getD "")),
          if doConj then a.labels.map (fun l => Ax.lbl (l.getD ""))
          else a.labels.map (fun l => Ax.lbl (Label.conj (l.getD ""))))

/-- continuation-passing form, explicit pair: the operand is `innerMid`, then the continuation runs -/
theorem innerMidK_ok [Zero α] {β : Type} (a b : Arr α) (xa xb : List Ax) (k : Arr α → Except Err β) (y : β)
    (h : innerMidK a b xa xb k = .ok y) : ∃ a', innerMid a b xa xb = .ok a' ∧ k a' = .ok y := by
  unfold innerMidK at h
  unfold innerMid
  cases h1 : a.getLegIndices xa with
  | error e => simp [h1, bind, Except.bind] at h
  | ok ia =>
    cases h2 : b.getLegIndices xb with
    | error e => simp [h1, h2, bind, Except.bind] at h
    | ok ib =>
      simp only [h1, h2, bind, Except.bind, pure, Except.pure] at h ⊢
      split at h
      · simp [throw, throwThe, MonadExceptOf.throw] at h
      · rename_i hlen
        rw [if_neg hlen]
        split at h
        · rename_i hne
          rw [if_pos hne]
          cases hit : a.itranspose (some ((pick ia (Arr.argsortInt (ib.map Int.ofNat)) 0).map
              (fun i => Ax.idx (Int.ofNat i)))) with
          | error e => rw [hit] at h; simp at h
          | ok a' => rw [hit] at h; exact ⟨a', rfl, h⟩
        · rename_i hid
          rw [if_neg hid]
          exact ⟨a, rfl, h⟩

/-- continuation-passing form of the first part of `inner`: the operand `a'` is `a` for `axes='range'`, otherwise
`innerMid` of the axis lists `innerAxLists`; then the continuation runs -/
theorem innerK_ok [Zero α] {β : Type} (a b : Arr α) (axes : Arr.InnerAxes) (doConj : Bool)
    (k : Arr α → Except Err β) (y : β) (h : innerK a b axes doConj k = .ok y) :
    ∃ a', (match innerAxLists a axes doConj with
            | none => a' = a
            | some (xa, xb) => innerMid a b xa xb = .ok a') ∧ k a' = .ok y := by
  cases axes with
  | range => exact ⟨a, rfl, h⟩
  | pair xa xb => exact innerMidK_ok a b xa xb k y h
  | labels =>
    unfold innerK at h
    by_cases hc : a.labels.contains none = true
    · simp only [hc, if_true] at h
      simp [throw, throwThe, MonadExceptOf.throw, bind, Except.bind] at h
    · cases doConj
      · simp only [hc, Bool.false_eq_true, if_false] at h
        exact innerMidK_ok a b (a.labels.map (fun (l : Label) => Ax.lbl (l.getD "")))
          (a.labels.map (fun (l : Label) => Ax.lbl (Label.conj (l.getD "")))) k y h
      · simp only [hc, Bool.false_eq_true, if_false, if_true] at h
        exact innerMidK_ok a b (a.labels.map (fun (l : Label) => Ax.lbl (l.getD "")))
          (a.labels.map (fun (l : Label) => Ax.lbl (l.getD ""))) k y h

/-- `itranspose` with explicit axes, including the stored blocks of the result -/
theorem itranspose_some [Zero α] (a r : Arr α) (axs : List Ax) (h : a.itranspose (some axs) = .ok r) :
    ∃ ax, a.getLegIndices axs = .ok ax ∧ ax.length = a.rank ∧ ax.eraseDups.length = a.rank
      ∧ ((ax = List.range a.rank ∧ r = a) ∨ (ax ≠ List.range a.rank ∧ r = a.itransposeFast ax)) := by
  simp only [Arr.itranspose, bind, Except.bind] at h
  cases hax : a.getLegIndices axs with
  | error e => simp [hax] at h
  | ok ax =>
    simp only [hax] at h
    split at h
    · simp [throw, throwThe, MonadExceptOf.throw] at h
    · rename_i hchk
      have hchk' : ax.length = a.rank ∧ ax.eraseDups.length = a.rank := by
        constructor
        · exact Classical.byContradiction (fun hh => hchk (Or.inl hh))
        · exact Classical.byContradiction (fun hh => hchk (Or.inr hh))
      refine ⟨ax, rfl, hchk'.1, hchk'.2, ?_⟩
      split at h
      · rename_i hid
        simp only [pure, Except.pure, Except.ok.injEq] at h
        exact Or.inl ⟨hid, h.symm⟩
      · rename_i hid
        simp only [pure, Except.pure, Except.ok.injEq] at h
        exact Or.inr ⟨hid, h.symm⟩

/-- the operand for an explicit pair of axis lists: `a` itself when the permutation is the identity, otherwise
`a` transposed by the permutation `pick ia (argsort ib)` -/
theorem innerMid_ok [Zero α] (a b : Arr α) (ha : a.WF) (xa xb : List Ax) (a' : Arr α)
    (h : innerMid a b xa xb = .ok a') :
    ∃ ia ib, a.getLegIndices xa = .ok ia ∧ b.getLegIndices xb = .ok ib
      ∧ IsPerm (pick ia (Arr.argsortInt (ib.map Int.ofNat)) 0) a.rank
      ∧ ((pick ia (Arr.argsortInt (ib.map Int.ofNat)) 0 = List.range a.rank ∧ a' = a)
        ∨ a' = a.itransposeFast (pick ia (Arr.argsortInt (ib.map Int.ofNat)) 0)) := by
  unfold innerMid at h
  cases h1 : a.getLegIndices xa with
  | error e => simp [h1, bind, Except.bind] at h
  | ok ia =>
    cases h2 : b.getLegIndices xb with
    | error e => simp [h1, h2, bind, Except.bind] at h
    | ok ib =>
      simp only [h1, h2, bind, Except.bind, pure, Except.pure] at h
      split at h
      · simp [throw, throwThe, MonadExceptOf.throw] at h
      · refine ⟨ia, ib, rfl, rfl, ?_⟩
        split at h
        · rename_i hne
          -- a real transposition
          obtain ⟨ax, hax, hl, hd, hcase⟩ := itranspose_some a a' _ h
          have hax' := getLegIndices_natIdx a _ ax hax
          subst hax'
          obtain ⟨_, hlt⟩ := Arr.getLegIndices_lt a ha.1 _ _ hax
          have hp := IsPerm.of_checks hl hd hlt
          rcases hcase with ⟨hid, _⟩ | ⟨_, hr⟩
          · exact absurd hid hne
          · exact ⟨hp, Or.inr hr⟩
        · rename_i hid
          simp only [ne_eq, Decidable.not_not] at hid
          simp only [Except.ok.injEq] at h
          exact ⟨hid ▸ isPerm_range a.rank, Or.inl ⟨hid, h.symm⟩⟩

end TenpyModel.C01B2
