import TenpyModel.Core.ArrDot
/-! Helper lemmas about `Dense` and `Arr.toDense` (C01). -/
namespace TenpyModel.Core

theorem getD_map_zero {α β} (f : α → β) (l : List α) (i : Nat) (z : α) :
    (l.map f).getD i (f z) = f (l.getD i z) := by
  simp only [List.getD_eq_getElem?_getD, List.getElem?_map]
  cases l[i]? <;> simp

namespace Dense
variable {α : Type}

theorem get_map {β} (f : α → β) (z : α) (d : Dense α) (idx : List Nat) :
    (d.map f).get (f z) idx = f (d.get z idx) := by
  unfold Dense.get Dense.map
  simp only
  split
  · exact getD_map_zero f d.vals _ z
  · rfl

theorem map_ofFn {β} (f : α → β) (shape : List Nat) (g : List Nat → α) :
    (ofFn shape g).map f = ofFn shape (fun idx => f (g idx)) := by
  simp [ofFn, Dense.map, List.map_map, Function.comp_def]

theorem ofFn_congr (shape : List Nat) (g h : List Nat → α) (hgh : ∀ idx, g idx = h idx) :
    ofFn shape g = ofFn shape h := by
  have : g = h := funext hgh
  rw [this]

end Dense

namespace ALeg

theorem conj_leg (l : ALeg) : l.conj.leg = l.leg.conj := by
  cases l with
  | plain l => simp [ALeg.conj, ALeg.leg]
  | pipe p subs => simp [ALeg.conj, ALeg.leg, Pipe.conj]

end ALeg

theorem Leg.conj_locate (l : Leg) (i : Nat) : l.conj.locate i = l.locate i := rfl
theorem Leg.conj_indLen (l : Leg) : l.conj.indLen = l.indLen := rfl

namespace Arr
variable {α : Type}

theorem find_zip_map [Zero α] (qd : List (List Nat)) (data : List (Blk α)) (g : Blk α → Blk α) (q : List Nat) :
    ((qd.zip (data.map g)).reverse.find? (fun rb => rb.1 == q))
      = ((qd.zip data).reverse.find? (fun rb => rb.1 == q)).map (fun rb => (rb.1, g rb.2)) := by
  rw [List.zip_map_right, ← List.map_reverse, List.find?_map]
  rfl

/-- entries of a block-wise mapped tensor -/
theorem entry_iunaryBlockwise [Zero α] (f : α → α) (hf : f 0 = 0) (a : Arr α) (idx : List Nat) :
    (a.iunaryBlockwise f).entry idx = f (a.entry idx) := by
  unfold Arr.entry Arr.iunaryBlockwise
  simp only [Arr.lcs]
  rw [find_zip_map]
  cases h : ((a.qdata.zip a.data).reverse.find? fun rb => rb.1 == _) with
  | none => simp [hf]
  | some rb =>
    simp only [Option.map_some]
    have := Dense.get_map f 0 rb.2 (List.map (fun x => x.2) (List.zipWith (fun l i => l.locate i) (List.map ALeg.leg a.legs) idx))
    rw [hf] at this
    exact this

theorem shape_iunaryBlockwise (f : α → α) (a : Arr α) : (a.iunaryBlockwise f).shape = a.shape := rfl

theorem toDense_iunaryBlockwise [Zero α] (f : α → α) (hf : f 0 = 0) (a : Arr α) :
    (a.iunaryBlockwise f).toDense = a.toDense.map f := by
  unfold Arr.toDense
  rw [Dense.map_ofFn, shape_iunaryBlockwise]
  exact Dense.ofFn_congr _ _ _ (entry_iunaryBlockwise f hf a)

/-- a tensor without stored blocks is zero -/
theorem entry_noBlocks [Zero α] (a : Arr α) (h : a.qdata = []) (idx : List Nat) : a.entry idx = 0 := by
  unfold Arr.entry
  simp [h]

theorem lcs_conj_map (legs : List ALeg) : (legs.map ALeg.conj).map ALeg.leg = (legs.map ALeg.leg).map Leg.conj := by
  simp [List.map_map, Function.comp_def, ALeg.conj_leg]

theorem zipWith_locate_conj (ls : List Leg) (idx : List Nat) :
    List.zipWith (fun l i => l.locate i) (ls.map Leg.conj) idx = List.zipWith (fun l i => l.locate i) ls idx := by
  induction ls generalizing idx with
  | nil => simp
  | cons l ls ih => cases idx with
    | nil => simp
    | cons i is => simp [ih, Leg.conj_locate]

theorem locate_congr (l l' : Leg) (h : l.slices = l'.slices) (i : Nat) : l.locate i = l'.locate i := by
  simp [Leg.locate, h]

theorem indLen_congr (l l' : Leg) (h : l.slices = l'.slices) : l.indLen = l'.indLen := by
  simp [Leg.indLen, h]

/-- the dense form only depends on the *slices* of the legs (not on charges, direction or flags) -/
theorem toDense_congr_slices [Zero α] (a b : Arr α) (hq : a.qdata = b.qdata) (hd : a.data = b.data)
    (hs : a.lcs.map Leg.slices = b.lcs.map Leg.slices) : a.toDense = b.toDense := by
  have hloc : ∀ idx : List Nat, List.zipWith (fun l i => l.locate i) a.lcs idx
      = List.zipWith (fun l i => l.locate i) b.lcs idx := by
    have : ∀ (xs ys : List Leg), xs.map Leg.slices = ys.map Leg.slices → ∀ idx : List Nat,
        List.zipWith (fun l i => l.locate i) xs idx = List.zipWith (fun l i => l.locate i) ys idx := by
      intro xs
      induction xs with
      | nil => intro ys h idx; cases ys <;> simp_all
      | cons x xs ih =>
        intro ys h idx
        cases ys with
        | nil => simp at h
        | cons y ys =>
          simp only [List.map_cons, List.cons.injEq] at h
          cases idx with
          | nil => simp
          | cons i is => simp [locate_congr x y h.1, ih ys h.2 is]
    exact this _ _ hs
  have hshape : a.shape = b.shape := by
    have : ∀ (xs ys : List Leg), xs.map Leg.slices = ys.map Leg.slices → xs.map Leg.indLen = ys.map Leg.indLen := by
      intro xs
      induction xs with
      | nil => intro ys h; cases ys <;> simp_all
      | cons x xs ih =>
        intro ys h
        cases ys with
        | nil => simp at h
        | cons y ys =>
          simp only [List.map_cons, List.cons.injEq] at h
          simp [indLen_congr x y h.1, ih ys h.2]
    exact this _ _ hs
  unfold Arr.toDense
  rw [hshape]
  refine Dense.ofFn_congr _ _ _ (fun idx => ?_)
  unfold Arr.entry
  rw [hloc idx, hq, hd]

theorem getD_set_map {β γ} (f : β → γ) (l : List β) (k : Nat) (x : β) (h : k < l.length → f x = f (l[k]?.getD x)) :
    (l.set k x).map f = l.map f := by
  induction l generalizing k with
  | nil => simp
  | cons y ys ih =>
    cases k with
    | zero => simp at h; simp [h]
    | succ k =>
      simp only [List.set_cons_succ, List.map_cons, List.cons.injEq, true_and]
      apply ih
      intro hk
      have := h (by simp; omega)
      simpa using this

/-- `gauge_total_charge` leaves the dense form unchanged and sets the requested total charge -/
theorem toDense_gaugeTotalCharge [Zero α] (a r : Arr α) (axis : Ax) (newq : Option Charge) (nc : Option Int)
    (h : a.gaugeTotalCharge axis newq nc = .ok r) :
    r.toDense = a.toDense ∧ r.qtotal = makeValid a.mods (newq.getD (czero a.mods.length)) ∧ r.labels = a.labels := by
  unfold Arr.gaugeTotalCharge at h
  cases hk : a.getLegIndex axis with
  | error e => simp [hk, bind, Except.bind] at h
  | ok k =>
    simp only [hk, bind, Except.bind, pure, Except.pure] at h
    split at h
    · simp [throw, throwThe, MonadExceptOf.throw] at h
    · simp only [Except.ok.injEq] at h
      subst h
      refine ⟨?_, rfl, rfl⟩
      refine toDense_congr_slices _ a (by rfl) (by rfl) ?_
      simp only [Arr.lcs, List.map_map]
      apply getD_set_map
      intro hk'
      simp [Function.comp, ALeg.leg, Leg.fromQind, Leg.mk', Arr.lc, List.getD_eq_getElem?_getD]
      cases hget : a.legs[k]? with
      | none => simp [List.getElem?_eq_none_iff] at hget; omega
      | some l => simp
end Arr
end TenpyModel.Core
