import TenpyModel.C01.B2_Dot1
/-!
C01 part B2 — the dense side of `tensordot(a, b, k)`: the entry `Σ_c a[i ++ c] * b[c ++ j]` of `np.tensordot` is the
sum, over the stored blocks of `a` whose keep-part is the block index of `i`, of the entry of the block-level
`np.tensordot` with the matching stored block of `b` (if there is one).
-/
namespace TenpyModel.C01B2
open TenpyModel.Core TenpyModel.C01B

variable {α : Type}

/-! ### forward lookup in a key-functional block list -/

theorem find_zip_some {β} (q : List (List Nat)) (d : List β) (hnd : q.Nodup) (e : List Nat × β) (he : e ∈ q.zip d) :
    (q.zip d).find? (fun rb => rb.1 == e.1) = some e := by
  cases h : (q.zip d).find? (fun rb => rb.1 == e.1) with
  | none =>
    have := List.find?_eq_none.1 h e he
    simp at this
  | some x =>
    have hx := List.mem_of_find?_eq_some h
    have hp := List.find?_some h
    rw [zip_fst_inj q d hnd x hx e he (eq_of_beq hp)]

theorem find_zip_none {β} (q : List (List Nat)) (d : List β) (r : List Nat) (h : r ∉ q) :
    (q.zip d).find? (fun rb => rb.1 == r) = none := by
  apply List.find?_eq_none.2
  intro x hx
  have := (List.of_mem_zip hx).1
  simp only [beq_iff_eq]
  intro e
  exact h (e ▸ this)

/-! ### splitting indices at the cut -/

theorem lcs_take_len (a : Arr α) (n : Nat) (h : n ≤ a.rank) : (a.lcs.take n).length = n := by
  rw [List.length_take, lcs_length]; omega

theorem qw_split_a (a : Arr α) (n : Nat) (hn : n ≤ a.rank) (i c : List Nat) (hi : i.length = n) :
    qOf a.lcs (i ++ c) = qOf (a.lcs.take n) i ++ qOf (a.lcs.drop n) c
    ∧ wOf a.lcs (i ++ c) = wOf (a.lcs.take n) i ++ wOf (a.lcs.drop n) c := by
  have hl : i.length = (a.lcs.take n).length := by rw [hi, lcs_take_len a n hn]
  constructor
  · conv => lhs; rw [← List.take_append_drop n a.lcs]
    exact qOf_append _ _ _ _ hl
  · conv => lhs; rw [← List.take_append_drop n a.lcs]
    exact wOf_append _ _ _ _ hl

theorem blockShapeOf_append (ls ms : List Leg) (u v : List Nat) (h : u.length = ls.length) :
    blockShapeOf (ls ++ ms) (u ++ v) = blockShapeOf ls u ++ blockShapeOf ms v := by
  unfold blockShapeOf
  rw [List.zipWith_append h.symm]

theorem blockShapeOf_split (ls : List Leg) (q : List Nat) (n : Nat) :
    blockShapeOf ls q = blockShapeOf (ls.take n) (q.take n) ++ blockShapeOf (ls.drop n) (q.drop n) := by
  unfold blockShapeOf
  rw [← List.take_zipWith, ← List.drop_zipWith, List.take_append_drop]

theorem blockShapeOf_length (ls : List Leg) (q : List Nat) (h : q.length = ls.length) :
    (blockShapeOf ls q).length = ls.length := by
  unfold blockShapeOf
  rw [List.length_zipWith, h, Nat.min_self]

section dense
set_option linter.unusedSectionVars false
variable [CommSemiring α]

/-- summand contributed by the stored block `rb` of `a`: the `(wi ++ wj)` entry of its block-level `np.tensordot`
with the stored block of `b` at `contracted part ++ qj` -/
def term (a b : Arr α) (k : Nat) (qj wi wj : List Nat) (rb : List Nat × Blk α) : α :=
  match (b.qdata.zip b.data).find? (fun rb' => rb'.1 == rb.1.drop (a.rank - k) ++ qj) with
  | some rb' => (Dense.tensordot rb.2 rb'.2 k).get 0 (wi ++ wj)
  | none => 0

/-- standing assumptions on the operands of `tensordot(a, b, k)` after the argument checks -/
structure DotHyp (a b : Arr α) (k : Nat) : Prop where
  wa : W a
  wb : W b
  hka : k ≤ a.rank
  hkb : k ≤ b.rank
  hss : (a.lcs.drop (a.rank - k)).map Leg.slices = (b.lcs.take k).map Leg.slices

theorem DotHyp.shapesC {a b : Arr α} {k : Nat} (h : DotHyp a b k) : ∀ l ∈ a.lcs.drop (a.rank - k), l.Shape :=
  fun l hl => h.wa.shapes l (List.mem_of_mem_drop hl)

theorem DotHyp.shapesC' {a b : Arr α} {k : Nat} (h : DotHyp a b k) : ∀ l ∈ b.lcs.take k, l.Shape :=
  fun l hl => h.wb.shapes l (List.mem_of_mem_take hl)

theorem DotHyp.bnC {a b : Arr α} {k : Nat} (h : DotHyp a b k) :
    (a.lcs.drop (a.rank - k)).map Leg.blockNumber = (b.lcs.take k).map Leg.blockNumber :=
  blockNumbers_of_slices _ _ h.hss h.shapesC h.shapesC'

theorem DotHyp.lenC {a b : Arr α} {k : Nat} (h : DotHyp a b k) : (a.lcs.drop (a.rank - k)).length = k := by
  have := h.hka
  rw [List.length_drop, lcs_length]; omega

/-- a stored row of `a` splits into keep-part (length `cut`) and contracted part (in range) -/
theorem DotHyp.rowA {a b : Arr α} {k : Nat} (h : DotHyp a b k) (q : List Nat) (hq : q ∈ a.qdata) :
    (q.take (a.rank - k)).length = a.rank - k
    ∧ InRange (q.take (a.rank - k)) ((a.lcs.take (a.rank - k)).map Leg.blockNumber)
    ∧ InRange (q.drop (a.rank - k)) ((a.lcs.drop (a.rank - k)).map Leg.blockNumber) := by
  have hl := h.wa.rowLen q hq
  have hin := h.wa.rowIn' q hq
  have h1 : (q.take (a.rank - k)).length = a.rank - k := by rw [List.length_take, hl]; omega
  have hin' : InRange (q.take (a.rank - k) ++ q.drop (a.rank - k))
      ((a.lcs.take (a.rank - k)).map Leg.blockNumber ++ (a.lcs.drop (a.rank - k)).map Leg.blockNumber) := by
    rw [List.take_append_drop, ← List.map_append, List.take_append_drop]; exact hin
  have := (InRange_append (by rw [h1, List.length_map, lcs_take_len a _ (Nat.sub_le _ _)])).1 hin'
  exact ⟨h1, this.1, this.2⟩

theorem DotHyp.rowB {a b : Arr α} {k : Nat} (h : DotHyp a b k) (q : List Nat) (hq : q ∈ b.qdata) :
    (q.take k).length = k
    ∧ InRange (q.take k) ((b.lcs.take k).map Leg.blockNumber)
    ∧ InRange (q.drop k) ((b.lcs.drop k).map Leg.blockNumber) := by
  have hl := h.wb.rowLen q hq
  have hin := h.wb.rowIn' q hq
  have hkb := h.hkb
  have h1 : (q.take k).length = k := by rw [List.length_take, hl]; omega
  have hin' : InRange (q.take k ++ q.drop k) ((b.lcs.take k).map Leg.blockNumber ++ (b.lcs.drop k).map Leg.blockNumber) := by
    rw [List.take_append_drop, ← List.map_append, List.take_append_drop]; exact hin
  have := (InRange_append (by rw [h1, List.length_map, lcs_take_len b _ hkb])).1 hin'
  exact ⟨h1, this.1, this.2⟩

/-- the sum over one contracted block index `qc`, when the two blocks are stored -/
theorem block_pair (a b : Arr α) (k : Nat) (h : DotHyp a b k) (qi qc qj wi wj : List Nat) (A B : Blk α)
    (hA : (qi ++ qc, A) ∈ a.qdata.zip a.data) (hB : (qc ++ qj, B) ∈ b.qdata.zip b.data)
    (hqi : qi.length = a.rank - k) (hqc : qc.length = k)
    (hwi : InRange wi (blockShapeOf (a.lcs.take (a.rank - k)) qi))
    (hwj : InRange wj (blockShapeOf (b.lcs.drop k) qj)) :
    (Dense.tensordot A B k).get 0 (wi ++ wj)
      = ((Dense.allIdx (blockShapeOf (a.lcs.drop (a.rank - k)) qc)).map
          (fun w => A.get 0 (wi ++ w) * B.get 0 (w ++ wj))).sum := by
  have hka := h.hka
  have hkb := h.hkb
  have hAs : A.shape = blockShapeOf (a.lcs.take (a.rank - k)) qi ++ blockShapeOf (a.lcs.drop (a.rank - k)) qc := by
    rw [h.wa.blkShape _ hA]
    conv => lhs; rw [← List.take_append_drop (a.rank - k) a.lcs]
    exact blockShapeOf_append _ _ _ _ (by rw [hqi, lcs_take_len a _ (Nat.sub_le _ _)])
  have hBs : B.shape = blockShapeOf (b.lcs.take k) qc ++ blockShapeOf (b.lcs.drop k) qj := by
    rw [h.wb.blkShape _ hB]
    conv => lhs; rw [← List.take_append_drop k b.lcs]
    exact blockShapeOf_append _ _ _ _ (by rw [hqc, lcs_take_len b _ hkb])
  have hl1 : (blockShapeOf (a.lcs.take (a.rank - k)) qi).length = a.rank - k := by
    rw [blockShapeOf_length _ _ (by rw [hqi, lcs_take_len a _ (Nat.sub_le _ _)]), lcs_take_len a _ (Nat.sub_le _ _)]
  have hl2 : (blockShapeOf (a.lcs.drop (a.rank - k)) qc).length = k := by
    rw [blockShapeOf_length _ _ (by rw [hqc, h.lenC]), h.lenC]
  have hl3 : (blockShapeOf (b.lcs.take k) qc).length = k := by
    rw [blockShapeOf_length _ _ (by rw [hqc, lcs_take_len b _ hkb]), lcs_take_len b _ hkb]
  have hAr : A.rank - k = a.rank - k := by
    unfold Dense.rank; rw [hAs, List.length_append, hl1, hl2]; omega
  have hAt : A.shape.take (A.rank - k) = blockShapeOf (a.lcs.take (a.rank - k)) qi := by
    rw [hAr, hAs, List.take_left' hl1]
  have hAd : A.shape.drop (A.rank - k) = blockShapeOf (a.lcs.drop (a.rank - k)) qc := by
    rw [hAr, hAs, List.drop_left' hl1]
  have hBt : B.shape.take k = blockShapeOf (b.lcs.take k) qc := by rw [hBs, List.take_left' hl3]
  have hBd : B.shape.drop k = blockShapeOf (b.lcs.drop k) qj := by rw [hBs, List.drop_left' hl3]
  have c3 := (congr_slices _ _ h.hss).2.2.1
  rw [get_tensordot A B k (by rw [hBt, hAd, c3]) wi wj (by rw [hAt]; exact hwi) (by rw [hBd]; exact hwj), hAd]

/-- `np.tensordot` of the dense forms, entry `(i ++ j)`: block by block -/
theorem dense_side (a b : Arr α) (k : Nat) (h : DotHyp a b k) (i j : List Nat)
    (hi : InRange i ((a.lcs.take (a.rank - k)).map Leg.indLen)) (hj : InRange j ((b.lcs.drop k).map Leg.indLen)) :
    (Dense.tensordot a.toDense b.toDense k).get 0 (i ++ j)
      = (((a.qdata.zip a.data).filter (fun rb => rb.1.take (a.rank - k) = qOf (a.lcs.take (a.rank - k)) i)).map
          (term a b k (qOf (b.lcs.drop k) j) (wOf (a.lcs.take (a.rank - k)) i) (wOf (b.lcs.drop k) j))).sum := by
  have hka := h.hka
  have hkb := h.hkb
  have ha := h.wa
  have hb := h.wb
  obtain ⟨c1, c2, c3, c4, c5⟩ := congr_slices _ _ h.hss
  have hil : i.length = a.rank - k := by
    rw [hi.length_eq, List.length_map, lcs_take_len a _ (Nat.sub_le _ _)]
  have hra : a.toDense.rank = a.rank := by simp [Dense.rank, toDense_shape, Arr.shape, lcs_length]
  have hsa_t : a.toDense.shape.take (a.toDense.rank - k) = (a.lcs.take (a.rank - k)).map Leg.indLen := by
    rw [hra, toDense_shape, Arr.shape, List.map_take]
  have hsa_d : a.toDense.shape.drop (a.toDense.rank - k) = (a.lcs.drop (a.rank - k)).map Leg.indLen := by
    rw [hra, toDense_shape, Arr.shape, List.map_drop]
  have hsb_d : b.toDense.shape.drop k = (b.lcs.drop k).map Leg.indLen := by
    rw [toDense_shape, Arr.shape, List.map_drop]
  have hsb_t : b.toDense.shape.take k = (b.lcs.take k).map Leg.indLen := by
    rw [toDense_shape, Arr.shape, List.map_take]
  -- locate i and j
  obtain ⟨li1, li2, li3⟩ := locate_idx _ (fun l hl => ha.shapes l (List.mem_of_mem_take hl)) i hi
  obtain ⟨lj1, lj2, lj3⟩ := locate_idx _ (fun l hl => hb.shapes l (List.mem_of_mem_drop hl)) j hj
  have hqil : (qOf (a.lcs.take (a.rank - k)) i).length = a.rank - k := by
    rw [qOf_length _ _ (by rw [hil, lcs_take_len a _ (Nat.sub_le _ _)]), lcs_take_len a _ (Nat.sub_le _ _)]
  -- step 1: entry of the dense tensordot
  rw [get_tensordot a.toDense b.toDense k (by rw [hsb_t, hsa_d, c5]) i j (by rw [hsa_t]; exact hi)
    (by rw [hsb_d]; exact hj), hsa_d]
  have hstep : ∀ c ∈ Dense.allIdx ((a.lcs.drop (a.rank - k)).map Leg.indLen),
      a.toDense.get 0 (i ++ c) * b.toDense.get 0 (c ++ j) = a.entry (i ++ c) * b.entry (c ++ j) := by
    intro c hc
    have hcr : InRange c ((a.lcs.drop (a.rank - k)).map Leg.indLen) := (mem_allIdx _ _).1 hc
    have h1 : InRange (i ++ c) a.shape := by
      rw [shape_eq, ← List.take_append_drop (a.rank - k) a.lcs, List.map_append]
      exact (InRange_append hi.length_eq).2 ⟨hi, hcr⟩
    have h2 : InRange (c ++ j) b.shape := by
      rw [shape_eq, ← List.take_append_drop k b.lcs, List.map_append, ← c5]
      exact (InRange_append hcr.length_eq).2 ⟨hcr, hj⟩
    rw [toDense_get a _ h1, toDense_get b _ h2]
  rw [sum_map_congr _ _ _ hstep, sum_blocks _ h.shapesC (fun c => a.entry (i ++ c) * b.entry (c ++ j))]
  -- the block index and within-block position of the operands' entries
  have hloc : ∀ qc, InRange qc ((a.lcs.drop (a.rank - k)).map Leg.blockNumber) →
      ∀ w, InRange w (blockShapeOf (a.lcs.drop (a.rank - k)) qc) →
      qOf a.lcs (i ++ List.zipWith (· + ·) (blockStartOf (a.lcs.drop (a.rank - k)) qc) w)
          = qOf (a.lcs.take (a.rank - k)) i ++ qc
      ∧ wOf a.lcs (i ++ List.zipWith (· + ·) (blockStartOf (a.lcs.drop (a.rank - k)) qc) w)
          = wOf (a.lcs.take (a.rank - k)) i ++ w
      ∧ qOf b.lcs (List.zipWith (· + ·) (blockStartOf (a.lcs.drop (a.rank - k)) qc) w ++ j)
          = qc ++ qOf (b.lcs.drop k) j
      ∧ wOf b.lcs (List.zipWith (· + ·) (blockStartOf (a.lcs.drop (a.rank - k)) qc) w ++ j)
          = w ++ wOf (b.lcs.drop k) j := by
    intro qc hqc w hw
    obtain ⟨l1, l2, l3⟩ := locate_blocks _ h.shapesC qc w hqc hw
    obtain ⟨s1, s2⟩ := qw_split_a a (a.rank - k) (Nat.sub_le _ _) i _ hil
    have hcl : (List.zipWith (· + ·) (blockStartOf (a.lcs.drop (a.rank - k)) qc) w).length = k := by
      rw [l1.length_eq, List.length_map, h.lenC]
    obtain ⟨t1, t2⟩ := qw_split_a b k hkb (List.zipWith (· + ·) (blockStartOf (a.lcs.drop (a.rank - k)) qc) w)
      j hcl
    rw [s1, s2, t1, t2, ← c1, ← c2, l2, l3]
    exact ⟨rfl, rfl, rfl, rfl⟩
  -- step 2: restrict the sum over contracted block indices to the stored rows of `a` with keep-part `qi`
  let G : List Nat → α := fun qc =>
    ((Dense.allIdx (blockShapeOf (a.lcs.drop (a.rank - k)) qc)).map (fun w =>
      a.entry (i ++ List.zipWith (· + ·) (blockStartOf (a.lcs.drop (a.rank - k)) qc) w)
        * b.entry (List.zipWith (· + ·) (blockStartOf (a.lcs.drop (a.rank - k)) qc) w ++ j))).sum
  let F := (a.qdata.zip a.data).filter (fun rb => rb.1.take (a.rank - k) = qOf (a.lcs.take (a.rank - k)) i)
  have hFmem : ∀ rb ∈ F, rb ∈ a.qdata.zip a.data ∧ rb.1.take (a.rank - k) = qOf (a.lcs.take (a.rank - k)) i := by
    intro rb hrb
    have := List.mem_filter.1 hrb
    exact ⟨this.1, by simpa using this.2⟩
  have hFnd : (F.map (fun rb => rb.1.drop (a.rank - k))).Nodup := by
    apply List.Nodup.map_on
    · intro x hx y hy e
      obtain ⟨x1, x2⟩ := hFmem x hx
      obtain ⟨y1, y2⟩ := hFmem y hy
      apply zip_fst_inj _ _ ha.nodup x x1 y y1
      rw [← List.take_append_drop (a.rank - k) x.1, ← List.take_append_drop (a.rank - k) y.1, x2, y2, e]
    · apply List.Nodup.sublist List.filter_sublist
      have : ((a.qdata.zip a.data).map (·.1)).Nodup := by rw [map_fst_zip' _ _ ha.len]; exact ha.nodup
      exact List.Nodup.of_map _ this
  have hsupp : ((gridC ((a.lcs.drop (a.rank - k)).map Leg.blockNumber)).map G).sum
      = ((F.map (fun rb => rb.1.drop (a.rank - k))).map G).sum := by
    apply sum_support _ _ G (Pipe.gridC_nodup _) hFnd
    · intro qc hqc
      obtain ⟨rb, hrb, rfl⟩ := List.mem_map.1 hqc
      exact (mem_gridC _ _).2 (h.rowA rb.1 (List.of_mem_zip (hFmem rb hrb).1).1).2.2
    · intro qc hqc hnq
      apply sum_map_zero
      intro w hw
      obtain ⟨e1, _, _, _⟩ := hloc qc ((mem_gridC _ _).1 hqc) w ((mem_allIdx _ _).1 hw)
      rw [entry_of_not_mem a _ ?_, zero_mul]
      rw [e1]
      intro hmem
      obtain ⟨A, hA⟩ := mem_zip_of_mem_left _ _ ha.len _ hmem
      apply hnq
      refine List.mem_map.2 ⟨(_, A), List.mem_filter.2 ⟨hA, ?_⟩, ?_⟩
      · simp only [decide_eq_true_eq]; rw [List.take_left' hqil]
      · simp only; rw [List.drop_left' hqil]
  rw [hsupp, List.map_map]
  -- step 3: term by term
  apply sum_map_congr
  intro rb hrb
  obtain ⟨hm, htake⟩ := hFmem rb hrb
  obtain ⟨q, A⟩ := rb
  simp only [Function.comp] at htake ⊢
  obtain ⟨r1, r2, r3⟩ := h.rowA q (List.of_mem_zip hm).1
  have hqeq : qOf (a.lcs.take (a.rank - k)) i ++ q.drop (a.rank - k) = q := by
    rw [← htake, List.take_append_drop]
  have hA : (qOf (a.lcs.take (a.rank - k)) i ++ q.drop (a.rank - k), A) ∈ a.qdata.zip a.data := by
    rw [hqeq]; exact hm
  have hqcl : (q.drop (a.rank - k)).length = k := by rw [r3.length_eq, List.length_map, h.lenC]
  unfold term
  simp only
  by_cases hmb : q.drop (a.rank - k) ++ qOf (b.lcs.drop k) j ∈ b.qdata
  · obtain ⟨B, hB⟩ := mem_zip_of_mem_left _ _ hb.len _ hmb
    rw [find_zip_some _ _ hb.nodup _ hB]
    simp only
    rw [block_pair a b k h _ _ _ _ _ A B hA hB hqil hqcl li2 lj2]
    apply sum_map_congr
    intro w hw
    obtain ⟨e1, e2, e3, e4⟩ := hloc _ r3 w ((mem_allIdx _ _).1 hw)
    rw [entry_of_mem a ha.nodup _ A (by rw [e1]; exact hA), entry_of_mem b hb.nodup _ B (by rw [e3]; exact hB), e2, e4]
  · rw [find_zip_none _ _ _ hmb]
    simp only
    apply sum_map_zero
    intro w hw
    obtain ⟨_, _, e3, _⟩ := hloc _ r3 w ((mem_allIdx _ _).1 hw)
    rw [entry_of_not_mem b _ (by rw [e3]; exact hmb), mul_zero]

end dense
end TenpyModel.C01B2
