import TenpyModel.C01.B2_Comb20
/-!
C01 part B2 — part 21: `split_legs ∘ combine_legs` for the public `combine_legs` (with and without the
transposition step), and `split_legs()` without arguments when no spectator leg is a pipe.
-/
namespace TenpyModel.C01B2.Comb
open TenpyModel.Core TenpyModel.C01B
open Arr (permuteList)

variable {α : Type}

theorem pipesOK2_pick (a : Arr α) (cli0 : List (List Nat)) (ps0 : List ALeg) (order : List Nat)
    (hp : order.Perm (List.range cli0.length)) (h : PipesOK2 a cli0 ps0) :
    PipesOK2 a (pick cli0 order []) (pick ps0 order default) := by
  intro g hg
  rw [pick_length] at hg
  have hlt : order.getD g 0 < cli0.length := perm_range_lt order _ hp g hg
  unfold pick
  rw [getD_map' _ _ g 0 default hg, getD_map' _ _ g 0 [] hg]
  exact h _ hlt

theorem pipesOK2_transposed (a t : Arr α) (cl : List (List Nat)) (ps : List ALeg) (transp : List Nat)
    (hp : IsPerm transp a.rank) (hcl : ∀ x ∈ cl.flatten, x < a.rank)
    (ht : t.legs = permuteList a.legs transp default) (h : PipesOK2 a cl ps) :
    PipesOK2 t (cl.map (fun c => c.map (fun x => (inversePerm transp).getD x 0))) ps := by
  have htl : t.lcs = permuteList a.lcs transp default := by
    unfold Arr.lcs permuteList
    rw [ht]
    unfold permuteList
    rw [List.map_map]
    apply List.map_congr_left
    intro k _
    exact (getD_map_leg a.legs k).symm
  intro g hg
  rw [List.length_map] at hg
  obtain ⟨qconj, sort, bunch, e⟩ := h g hg
  refine ⟨qconj, sort, bunch, ?_⟩
  rw [e, getD_map' _ _ g [] [] hg]
  have hx : ∀ x ∈ cl.getD g [], x < a.rank :=
    fun x hx => hcl x (List.mem_flatten.2 ⟨_, getD_mem cl g [] hg, hx⟩)
  have e1 : pick t.lcs ((cl.getD g []).map (fun x => (inversePerm transp).getD x 0)) default
      = pick a.lcs (cl.getD g []) default := by
    unfold pick
    rw [List.map_map]
    apply List.map_congr_left
    intro x hx'
    have hxr := hx x hx'
    simp only [Function.comp]
    rw [htl, inversePerm_getD transp x (by rw [hp.len]; exact hxr),
      permuteList_getD _ _ _ _ (by rw [hp.len]; exact hp.idxOf_lt x hxr), hp.getD_idxOf x hxr]
  have e2 : pick t.legs ((cl.getD g []).map (fun x => (inversePerm transp).getD x 0)) default
      = pick a.legs (cl.getD g []) default := by
    unfold pick
    rw [List.map_map]
    apply List.map_congr_left
    intro x hx'
    have hxr := hx x hx'
    simp only [Function.comp]
    rw [ht, inversePerm_getD transp x (by rw [hp.len]; exact hxr),
      permuteList_getD _ _ _ _ (by rw [hp.len]; exact hp.idxOf_lt x hxr), hp.getD_idxOf x hxr]
  rw [e1, e2]

/-- `_combine_legs_make_pipes` with `pipes=None`: pipes over the legs of the groups, these legs as incoming legs -/
theorem makePipes_none2 (a : Arr α) (cl : List (List Ax)) (qconj : List (Option Int)) (ps0 : List ALeg)
    (cli0 : List (List Nat)) (hps : a.combineMakePipes cl none qconj = .ok ps0)
    (hcli : cl.mapM a.getLegIndices = .ok cli0) : PipesOK2 a cli0 ps0 := by
  have hcl := (mapM_except_ok _ _ _ hcli).1
  unfold Arr.combineMakePipes at hps
  simp only [bind, Except.bind, pure, Except.pure, Option.getD_none, List.length_replicate, ne_eq,
    not_true_eq_false, if_false] at hps
  split at hps
  all_goals
    split at hps
    · simp [throw, throwThe, MonadExceptOf.throw] at hps
    intro g hg
    rw [hcl] at hg
    have hgi := mapM_except_getD _ _ _ hps 0 default g (by simpa using hg)
    rw [getD_range _ _ hg] at hgi
    have hci := mapM_except_getD _ _ _ hcli [] [] g hg
    rw [getD_replicate' _ _ _ _ hg] at hgi
    simp only at hgi
    split at hgi
    · rename_i q _
      rw [hci] at hgi
      simp only [Except.ok.injEq] at hgi
      exact ⟨q, true, true, by rw [← hgi]; exact mkPipe_eq a _ q⟩
    · split at hgi
      · simp [throw, throwThe, MonadExceptOf.throw] at hgi
      · split at hgi
        · simp at hgi
        · rename_i v _
          rw [hci] at hgi
          simp only [Except.ok.injEq] at hgi
          exact ⟨(a.lc v).qconj, true, true, by rw [← hgi]; exact mkPipe_eq a _ _⟩

section zero
variable [Zero α]

/-- **`split_legs ∘ combine_legs = id`, public `combine_legs`, no transposition needed** -/
theorem split_combineLegs_id (a r a' : Arr α) (ha : a.WF) (cl : List (List Ax)) (newAxes : Option (List Int))
    (pipes : Option (List (Option ALeg))) (qconj : List (Option Int)) (ps0 : List ALeg) (cli0 : List (List Nat))
    (na0 : List Nat) (hps : a.combineMakePipes cl pipes qconj = .ok ps0) (hcli : cl.mapM a.getLegIndices = .ok cli0)
    (hnt : Arr.combineNewAxes a.rank cli0 newAxes = .ok (na0, List.range a.rank))
    (hP : PipesOK2 a cli0 ps0) (hN : na0.Nodup)
    (h : a.combineLegs cl newAxes pipes qconj = .ok r)
    (hs : r.splitLegs (some ((pick na0 (Arr.argsortInt (na0.map Int.ofNat)) 0).map
      (fun k => Ax.idx (Int.ofNat k)))) = .ok a') :
    a'.legs = a.legs ∧ a'.toDense = a.toDense ∧ (∀ idx, InRange idx a.shape → a'.entry idx = a.entry idx)
    ∧ a'.mods = a.mods ∧ a'.qtotal = makeValid a.mods a.qtotal ∧ a'.labels.length = a.rank := by
  obtain ⟨hcall, hstd, _, hl1, hl2, _⟩ :=
    combineLegs_places_id a r ha cl newAxes pipes qconj ps0 cli0 na0 hps hcli hnt hP.ok hN h
  have hr := reordered_of a.rank cli0 newAxes na0 _ hnt hN
  have hp : (Arr.argsortInt (na0.map Int.ofNat)).Perm (List.range cli0.length) := by
    rw [← hr.len]; exact argsort_perm na0
  have hne : pick cli0 (Arr.argsortInt (na0.map Int.ofNat)) [] ≠ [] := by
    obtain ⟨_, _, _, _, hcl, _⟩ := combineLegs_unfold a r cl newAxes pipes qconj h
    intro e
    have h1 := congrArg List.length e
    rw [pick_length, hp.length_eq, List.length_range] at h1
    have h2 := (mapM_except_ok _ _ _ hcli).1
    exact hcl (List.length_eq_zero_iff.1 (by simpa [h1] using h2.symm))
  exact split_combine a r a' ha _ _ _ _ hl1 hl2 (pipesOK2_pick a cli0 ps0 _ hp hP) hstd hne hcall hs

/-- **`split_legs ∘ combine_legs` = the transposition `combine_legs` had to make**, public `combine_legs` -/
theorem split_combineLegs_tr (a r a' : Arr α) (ha : a.WF) (cl : List (List Ax)) (newAxes : Option (List Int))
    (pipes : Option (List (Option ALeg))) (qconj : List (Option Int)) (ps0 : List ALeg) (cli0 : List (List Nat))
    (na0 transp : List Nat) (hps : a.combineMakePipes cl pipes qconj = .ok ps0)
    (hcli : cl.mapM a.getLegIndices = .ok cli0)
    (hnt : Arr.combineNewAxes a.rank cli0 newAxes = .ok (na0, transp)) (htr : transp ≠ List.range a.rank)
    (hP : PipesOK2 a cli0 ps0) (hN : na0.Nodup)
    (h : a.combineLegs cl newAxes pipes qconj = .ok r)
    (hs : r.splitLegs (some ((pick na0 (Arr.argsortInt (na0.map Int.ofNat)) 0).map
      (fun k => Ax.idx (Int.ofNat k)))) = .ok a') :
    IsPerm transp a.rank ∧ a'.legs = permuteList a.legs transp default
    ∧ a'.toDense = a.toDense.transpose transp
    ∧ a'.mods = a.mods ∧ a'.qtotal = makeValid a.mods a.qtotal ∧ a'.labels.length = a.rank := by
  obtain ⟨hperm, htWF, htD, htl, hcall, hstd, _, hl1, hl2, _⟩ :=
    combineLegs_places_tr a r ha cl newAxes pipes qconj ps0 cli0 na0 transp hps hcli hnt htr hP.ok hN h
  have hr := reordered_of a.rank cli0 newAxes na0 _ hnt hN
  have hp : (Arr.argsortInt (na0.map Int.ofNat)).Perm (List.range cli0.length) := by
    rw [← hr.len]; exact argsort_perm na0
  have hcl0 : ∀ x ∈ cli0.flatten, x < a.rank := by
    intro x hx
    obtain ⟨c, hc, hxc⟩ := List.mem_flatten.1 hx
    obtain ⟨axs, _, hax⟩ := (mapM_except_ok _ _ _ hcli).2 c hc
    exact (Arr.getLegIndices_lt a ha.1 axs c hax).2 x hxc
  have hcl1 : ∀ x ∈ (pick cli0 (Arr.argsortInt (na0.map Int.ofNat)) []).flatten, x < a.rank :=
    fun x hx => hcl0 x ((pick_perm cli0 _ [] hp).flatten.mem_iff.1 hx)
  have hne : (pick cli0 (Arr.argsortInt (na0.map Int.ofNat)) []).map
      (fun c => c.map (fun x => (inversePerm transp).getD x 0)) ≠ [] := by
    obtain ⟨_, _, _, _, hcl, _⟩ := combineLegs_unfold a r cl newAxes pipes qconj h
    intro e
    have h1 := congrArg List.length e
    rw [List.length_map, pick_length, hp.length_eq, List.length_range] at h1
    have h2 := (mapM_except_ok _ _ _ hcli).1
    exact hcl (List.length_eq_zero_iff.1 (by simpa [h1] using h2.symm))
  have hp2 := pipesOK2_transposed a (cTransposed a transp) _ _ transp hperm hcl1 htl
    (pipesOK2_pick a cli0 ps0 _ hp hP)
  have hmain := split_combine (cTransposed a transp) r a' htWF _ _ _ _ hl1 hl2 hp2 hstd hne hcall hs
  have hrank : (cTransposed a transp).rank = a.rank := by
    show (cTransposed a transp).legs.length = _
    rw [htl, permuteList_length, hperm.len]
  exact ⟨hperm, by rw [hmain.1, htl], by rw [hmain.2.1, htD], hmain.2.2.2.1, hmain.2.2.2.2.1,
    by rw [hmain.2.2.2.2.2, hrank]⟩

end zero
end TenpyModel.C01B2.Comb
