import Mathlib.Data.List.Nodup
import TenpyModel.C06.Props
/-!
C01 part C — `sort_legcharge`, part 1: list lemmas (`inverse_permutation` is an involution on permutations, entries of a
`flatMap` addressed by prefix sums) and the flat permutation `perm_flat_from_perm_qind` entry by entry.
-/
namespace TenpyModel.C01C.SortLc
open TenpyModel.Core

theorem inversePerm_length (p : List Nat) : (inversePerm p).length = p.length := by simp [inversePerm]

theorem inversePerm_getD (p : List Nat) (x : Nat) (hx : x < p.length) : (inversePerm p).getD x 0 = p.idxOf x := by
  unfold inversePerm
  rw [getD_map' _ _ x 0 0 (by simpa using hx), getD_range _ _ hx]

theorem inversePerm_nodup (p : List Nat) (h : p.Perm (List.range p.length)) : (inversePerm p).Nodup := by
  unfold inversePerm
  apply List.Nodup.map_on _ List.nodup_range
  intro x hx y hy e
  have hx' : x ∈ p := h.mem_iff.2 hx
  have hy' : y ∈ p := h.mem_iff.2 hy
  have h1 := List.getElem_idxOf (List.idxOf_lt_length_iff.2 hx')
  have h2 := List.getElem_idxOf (List.idxOf_lt_length_iff.2 hy')
  rw [← h1, ← h2]
  simp only [e]

theorem inversePerm_perm (p : List Nat) (h : p.Perm (List.range p.length)) :
    (inversePerm p).Perm (List.range p.length) := by
  apply (List.perm_ext_iff_of_nodup (inversePerm_nodup p h) List.nodup_range).2
  intro y
  constructor
  · intro hy
    unfold inversePerm at hy
    obtain ⟨x, hx, rfl⟩ := List.mem_map.1 hy
    have hx' : x ∈ p := h.mem_iff.2 hx
    exact List.mem_range.2 (List.idxOf_lt_length_iff.2 hx')
  · intro hy
    have hy' : y < p.length := List.mem_range.1 hy
    unfold inversePerm
    refine List.mem_map.2 ⟨p[y], h.mem_iff.1 (List.getElem_mem hy'), ?_⟩
    exact List.Nodup.idxOf_getElem (h.nodup_iff.2 List.nodup_range) y hy'

/-- `inverse_permutation` is an involution on permutations of `0 … n-1` -/
theorem inversePerm_invol (p : List Nat) (h : p.Perm (List.range p.length)) : inversePerm (inversePerm p) = p := by
  have hnd : p.Nodup := h.nodup_iff.2 List.nodup_range
  apply ext_getD _ _ 0 (by rw [inversePerm_length, inversePerm_length])
  intro j hj
  rw [inversePerm_length, inversePerm_length] at hj
  rw [inversePerm_getD _ j (by rw [inversePerm_length]; exact hj)]
  have hm : p.getD j 0 < p.length := by
    have := perm_range_lt p _ h j hj
    exact this
  have hq : (inversePerm p).getD (p.getD j 0) 0 = j := by
    rw [inversePerm_getD p _ hm, getD_lt p j 0 hj]
    exact List.Nodup.idxOf_getElem hnd j hj
  have hlt : p.getD j 0 < (inversePerm p).length := by rw [inversePerm_length]; exact hm
  have := List.Nodup.idxOf_getElem (inversePerm_nodup p h) (p.getD j 0) hlt
  rw [← getD_lt _ _ 0 hlt, hq] at this
  exact this

/-- an entry of a `flatMap`, addressed by (piece number, position in the piece) -/
theorem flatMap_psum_getD {β γ} (f : β → List γ) (d : γ) (b0 : β) : ∀ (L : List β) (j w : Nat), j < L.length →
    w < (f (L.getD j b0)).length →
    (L.flatMap f).getD (psum (L.map (fun x => (f x).length)) j + w) d = (f (L.getD j b0)).getD w d := by
  intro L
  induction L with
  | nil => intro j w hj; simp at hj
  | cons x L ih =>
    intro j w hj hw
    cases j with
    | zero =>
      simp only [List.getD_cons_zero] at hw ⊢
      rw [List.flatMap_cons, psum_zero, Nat.zero_add, getD_append_left' _ _ _ _ hw]
    | succ j =>
      simp only [List.getD_cons_succ] at hw ⊢
      rw [List.flatMap_cons, List.map_cons, psum_cons_succ, Nat.add_assoc, getD_append_right']
      exact ih j w (by simpa using hj) hw

/-- the sizes of the pieces of `perm_flat_from_perm_qind` -/
theorem permFlat_sizes {l : Leg} (h : l.Shape) (p : List Nat) (hp : ∀ q ∈ p, q < l.blockNumber) :
    p.map (fun q => ((List.range (l.slices.getD (q + 1) 0 - l.slices.getD q 0)).map (· + l.slices.getD q 0)).length)
      = p.map (fun q => l.blockSizes.getD q 0) := by
  apply List.map_congr_left
  intro q hq
  rw [List.length_map, List.length_range, h.slices_succ q (hp q hq), Nat.add_sub_cancel_left]

/-- `perm_flat_from_perm_qind(perm_qind)`, entry by entry: position `Σ_{j' < j} size(p[j']) + w` carries the flat index
`slices[p[j]] + w` -/
theorem permFlat_getD {l : Leg} (h : l.Shape) (p : List Nat) (hp : ∀ q ∈ p, q < l.blockNumber) (j w : Nat)
    (hj : j < p.length) (hw : w < l.blockSizes.getD (p.getD j 0) 0) :
    (l.permFlatFromPermQind p).getD (psum (p.map (fun q => l.blockSizes.getD q 0)) j + w) 0
      = l.slices.getD (p.getD j 0) 0 + w := by
  have hq : p.getD j 0 < l.blockNumber := hp _ (getD_mem p j 0 hj)
  have hlen : ((List.range (l.slices.getD (p.getD j 0 + 1) 0 - l.slices.getD (p.getD j 0) 0)).map
      (· + l.slices.getD (p.getD j 0) 0)).length = l.blockSizes.getD (p.getD j 0) 0 := by
    rw [List.length_map, List.length_range, h.slices_succ _ hq, Nat.add_sub_cancel_left]
  unfold Leg.permFlatFromPermQind
  rw [← permFlat_sizes h p hp]
  rw [flatMap_psum_getD (fun q => (List.range (l.slices.getD (q + 1) 0 - l.slices.getD q 0)).map
    (· + l.slices.getD q 0)) 0 0 p j w hj (by rw [hlen]; exact hw)]
  rw [getD_map' _ _ w 0 0 (by rw [List.length_range, ← List.length_range (n := _ - _), ← List.length_map, hlen]; exact hw),
    getD_range _ _ (by rw [← List.length_range (n := _ - _), ← List.length_map, hlen]; exact hw)]
  omega

end TenpyModel.C01C.SortLc
