import TenpyModel.C01.B2_Comb3
/-!
C01 part B2 — part 4: all axes of the result together. If the result stores, per distinct target row, the fold of
the `setBlock`s of the source blocks with that row (`GroupSpec`), then `r[ix idx] = a[idx]` (`spec_entry`).
-/
namespace TenpyModel.C01B2.Comb
open TenpyModel.Core TenpyModel.C01B

variable {α : Type}

/-- what `combineRow` computes, in terms of the axis descriptions -/
def specRow (lcs : List Leg) (specs : List AxS) (q : List Nat) : List Nat × List Nat × List Nat :=
  (specs.map (AxS.row q), specs.map (AxS.start q), specs.map (AxS.shp lcs q))

/-- the source rows of the worker -/
def sRows (a : Arr α) (specs : List AxS) : List ((List Nat × List Nat × List Nat) × Blk α) :=
  (a.qdata.zip a.data).map (fun rb => (specRow a.lcs specs rb.1, rb.2))

/-- the index map of `combine_legs`: every group of indices is replaced by its `map_incoming_flat` -/
def specIdx (specs : List AxS) (idx : List Nat) : List Nat := specs.map (AxS.ix idx)

theorem sbCond_map {β} (L : List β) (a n x : β → Nat) :
    sbCond (L.map a) (L.map n) (L.map x) = true ↔ ∀ s ∈ L, a s ≤ x s ∧ x s < a s + n s := by
  induction L with
  | nil => simp [sbCond]
  | cons y L ih =>
    simp only [sbCond, List.map_cons, List.zip_cons_cons, List.zipWith_cons_cons, List.all_cons, List.length_cons,
      Bool.and_eq_true, id_eq, decide_eq_true_eq, beq_iff_eq, Nat.add_right_cancel_iff, List.mem_cons,
      forall_eq_or_imp] at ih ⊢
    rw [← ih]
    tauto

theorem flatIdx_sub_map {β} (L : List β) (n x a : β → Nat) :
    Dense.flatIdx (L.map n) (List.zipWith (fun i s => i - s) (L.map x) (L.map a))
      = dot (L.map (fun s => x s - a s)) (makeStrideC (L.map n)) := by
  rw [flatIdx_eq]
  congr 1
  induction L with
  | nil => rfl
  | cons y L ih => simp only [List.map_cons, List.zipWith_cons_cons, ih]

theorem eq_of_parts (P : List (List Nat)) (q q' : List Nat) (n : Nat) (hP : P.flatten = List.range n)
    (hq : q.length = n) (hq' : q'.length = n) (h : ∀ c ∈ P, pick q c 0 = pick q' c 0) : q = q' := by
  rw [eq_flatten_pick q P 0 (by rw [hq]; exact hP), eq_flatten_pick q' P 0 (by rw [hq']; exact hP)]
  congr 1
  exact List.map_congr_left h

theorem flatten_parts {β} (specs : List AxS) (l : List β) (d : β)
    (hstd : (specs.map AxS.part).flatten = List.range l.length) :
    (specs.map (fun s => pick l s.part d)).flatten = l := by
  have := eq_flatten_pick l (specs.map AxS.part) d hstd
  rw [List.map_map] at this
  exact this.symm

/-- the C-order index inside the reshaped source block is the C-order index inside the source block -/
theorem win_flat (lcs : List Leg) (hs : ∀ l ∈ lcs, l.Shape) (idx : List Nat)
    (hi : InRange idx (lcs.map Leg.indLen)) (specs : List AxS) (hv : ∀ s ∈ specs, s.Valid lcs)
    (hstd : (specs.map AxS.part).flatten = List.range lcs.length) :
    dot (specs.map (AxS.win lcs idx)) (makeStrideC (specs.map (AxS.shp lcs (qOf lcs idx))))
      = dot (wOf lcs idx) (makeStrideC (blockShapeOf lcs (qOf lcs idx))) := by
  have hil : idx.length = lcs.length := by rw [hi.length_eq, List.length_map]
  obtain ⟨hq, hw, _⟩ := locate_idx lcs hs idx hi
  have hL : specs.map (AxS.win lcs idx) = specs.map (fun s =>
      dot (pick (wOf lcs idx) s.part 0) (makeStrideC (pick (blockShapeOf lcs (qOf lcs idx)) s.part 0))) :=
    List.map_congr_left (fun s hs' => AxS.win_eq lcs idx hil s (hv s hs'))
  have hS : specs.map (AxS.shp lcs (qOf lcs idx)) = specs.map (fun s =>
      (pick (blockShapeOf lcs (qOf lcs idx)) s.part 0).prod) :=
    List.map_congr_left (fun s hs' => AxS.shp_eq lcs hs _ hq s (hv s hs'))
  rw [hL, hS, ← dot_flatten specs (fun s => pick (wOf lcs idx) s.part 0)
    (fun s => pick (blockShapeOf lcs (qOf lcs idx)) s.part 0) (fun s _ => by rw [pick_length, pick_length])]
  have hwl : (wOf lcs idx).length = lcs.length := by simp [wOf, hil]
  have hbl : (blockShapeOf lcs (qOf lcs idx)).length = lcs.length := by rw [← hw.length_eq]; exact hwl
  rw [flatten_parts specs (wOf lcs idx) 0 (by rw [hwl]; exact hstd),
    flatten_parts specs (blockShapeOf lcs (qOf lcs idx)) 0 (by rw [hbl]; exact hstd)]

section zero
variable [Zero α]

/-- **combine places entries where the pipes' index maps say** (result described by `GroupSpec`) -/
theorem spec_entry (a : Arr α) (ha : W a) (specs : List AxS) (hv : ∀ s ∈ specs, s.Valid a.lcs)
    (hstd : (specs.map AxS.part).flatten = List.range a.rank) (r : Arr α)
    (hlcs : r.lcs = specs.map (AxS.leg a.lcs)) (G : List (List Nat × List (List Nat × List Nat × Blk α)))
    (hG : GroupSpec G (sRows a specs)) (hzip : r.qdata.zip r.data = G.map (fun g => (g.1, cFold r.lcs g)))
    (idx : List Nat) (hi : InRange idx a.shape) :
    InRange (specIdx specs idx) r.shape ∧ r.entry (specIdx specs idx) = a.entry idx := by
  have hstd' : (specs.map AxS.part).flatten = List.range a.lcs.length := by rw [lcs_length]; exact hstd
  obtain ⟨hq, hw, hsum⟩ := locate_idx a.lcs ha.shapes idx hi
  have hil : idx.length = a.lcs.length := by rw [hi.length_eq, shape_eq, List.length_map]
  have hpl := fun s hs => AxS.place a.lcs ha.shapes idx hi s (hv s hs)
  have hqr : qOf r.lcs (specIdx specs idx) = specs.map (AxS.row (qOf a.lcs idx)) := by
    rw [hlcs]; unfold specIdx; rw [qOf_map]
    exact List.map_congr_left (fun s hs => by rw [(hpl s hs).2.1])
  have hwr : wOf r.lcs (specIdx specs idx)
      = specs.map (fun s => s.start (qOf a.lcs idx) + s.win a.lcs idx) := by
    rw [hlcs]; unfold specIdx; rw [wOf_map]
    exact List.map_congr_left (fun s hs => by rw [(hpl s hs).2.1])
  have hrange : InRange (specIdx specs idx) r.shape := by
    rw [shape_eq, hlcs, List.map_map]
    exact InRange_map specs _ _ (fun s hs => (hpl s hs).1)
  refine ⟨hrange, ?_⟩
  have hkf : ∀ x ∈ r.qdata.zip r.data, ∀ y ∈ r.qdata.zip r.data, x.1 = y.1 → x = y := by
    rw [hzip]
    intro x hx y hy e
    obtain ⟨g, hg, rfl⟩ := List.mem_map.1 hx
    obtain ⟨g', hg', rfl⟩ := List.mem_map.1 hy
    rw [nodup_key_eq G hG.nodup g g' hg hg' e]
  have hwflat := win_flat a.lcs ha.shapes idx hi specs hv hstd'
  -- the value read from a group with the key of `idx`
  have hgroup : ∀ g ∈ G, g.1 = specs.map (AxS.row (qOf a.lcs idx)) →
      (cFold r.lcs g).get 0 (specs.map (fun s => s.start (qOf a.lcs idx) + s.win a.lcs idx)) = a.entry idx := by
    intro g hg hgk
    unfold cFold
    have hshape0 : blockShapeOf r.lcs g.1
        = specs.map (fun s => (s.leg a.lcs).blockSizes.getD (s.row (qOf a.lcs idx)) 0) := by
      rw [hgk, hlcs, blockShapeOf_map]
    apply fold_setBlock (fun s : List Nat × List Nat × Blk α => s.1) (fun s => s.2.2.reshape s.2.1)
      _ (a.entry idx) g.2 _ (zeros_good _)
    · show InRange _ (blockShapeOf r.lcs g.1)
      rw [hshape0]
      apply InRange_map
      intro s hs
      have := hpl s hs
      omega
    · intro s hs hc z
      have hmem := hG.sound g hg s hs
      obtain ⟨rb, hrb, hrbe⟩ := List.mem_map.1 hmem
      simp only [specRow, Prod.mk.injEq] at hrbe
      obtain ⟨⟨hk', hs1, hs2⟩, hblk⟩ := hrbe
      have hq' := ha.rowIn' rb.1 (List.of_mem_zip hrb).1
      simp only [Dense.reshape] at hc ⊢
      rw [← hs1, ← hs2] at hc ⊢
      rw [sbCond_map] at hc
      have hrows : ∀ s ∈ specs, s.row rb.1 = s.row (qOf a.lcs idx) := by
        rw [hgk] at hk'
        exact List.map_inj_left.1 hk'
      have hqq : qOf a.lcs idx = rb.1 := by
        apply eq_of_parts (specs.map AxS.part) _ _ a.rank hstd
          (by rw [qOf_length _ _ hil, lcs_length]) (ha.rowLen _ (List.of_mem_zip hrb).1)
        intro c hc'
        obtain ⟨s, hs', rfl⟩ := List.mem_map.1 hc'
        have := hpl s hs'
        exact AxS.disjoint a.lcs ha.shapes s (hv s hs') _ _ hq hq' (hrows s hs').symm
          (s.start (qOf a.lcs idx) + s.win a.lcs idx) (by omega) (by omega) (hc s hs').1 (hc s hs').2
      rw [← hqq, flatIdx_sub_map]
      have e1 : specs.map (fun s => s.start (qOf a.lcs idx) + s.win a.lcs idx - s.start (qOf a.lcs idx))
          = specs.map (AxS.win a.lcs idx) := List.map_congr_left (fun s _ => by omega)
      rw [e1, hwflat]
      have hmem' : (qOf a.lcs idx, s.2.2) ∈ a.qdata.zip a.data := by rw [hqq, ← hblk]; exact hrb
      rw [entry_of_mem a ha.nodup idx s.2.2 hmem', get_inRange 0 _ _ (by rw [ha.blkShape _ hmem']; exact hw),
        ha.blkShape _ hmem']
      have hlt : dot (wOf a.lcs idx) (makeStrideC (blockShapeOf a.lcs (qOf a.lcs idx))) < s.2.2.vals.length := by
        rw [ha.blkGood _ hmem', ha.blkShape _ hmem']
        exact dot_stride_lt _ _ hw
      rw [getD_lt _ _ z hlt, getD_lt _ _ 0 hlt]
    · by_cases hma : qOf a.lcs idx ∈ a.qdata
      · left
        obtain ⟨ba, hba⟩ := mem_zip_of_mem_left _ _ ha.len _ hma
        have he : (specRow a.lcs specs (qOf a.lcs idx), ba) ∈ sRows a specs := List.mem_map.2 ⟨_, hba, rfl⟩
        obtain ⟨g', hg', hk', hm'⟩ := hG.complete _ he
        have : g' = g := nodup_key_eq G hG.nodup g' g hg' hg (by rw [hk', hgk]; rfl)
        subst this
        refine ⟨_, hm', ?_⟩
        simp only [Dense.reshape, specRow]
        rw [sbCond_map]
        intro s hs
        have := hpl s hs
        omega
      · right
        rw [entry_of_not_mem a idx hma, zeros_get]
  by_cases hex : ∃ g ∈ G, g.1 = specs.map (AxS.row (qOf a.lcs idx))
  · obtain ⟨g, hg, hgk⟩ := hex
    have hmem : (qOf r.lcs (specIdx specs idx), cFold r.lcs g) ∈ r.qdata.zip r.data := by
      rw [hzip, hqr, ← hgk]
      exact List.mem_map.2 ⟨g, hg, rfl⟩
    rw [entry_of_mem' r hkf _ _ hmem, hwr]
    exact hgroup g hg hgk
  · have hzero : a.entry idx = 0 := by
      apply entry_of_not_mem
      intro hma
      obtain ⟨ba, hba⟩ := mem_zip_of_mem_left _ _ ha.len _ hma
      have he : (specRow a.lcs specs (qOf a.lcs idx), ba) ∈ sRows a specs := List.mem_map.2 ⟨_, hba, rfl⟩
      obtain ⟨g', hg', hk', _⟩ := hG.complete _ he
      exact hex ⟨g', hg', hk'⟩
    rw [hzero]
    apply entry_of_not_mem'
    rw [hzip, hqr]
    intro e he heq
    obtain ⟨g, hg, rfl⟩ := List.mem_map.1 he
    exact hex ⟨g, hg, heq⟩

end zero
end TenpyModel.C01B2.Comb
