import TenpyModel.C01.C_Charge19
import TenpyModel.C01.C_Charge2
import TenpyModel.C01.C_Charge3
/-!
C01 part C — the default call `combine_legs(groups, qconj=…)` without side hypotheses, and preservation of `LegsQ`
(directions `±1`) by the operations whose result legs are legs of the operands.
-/
namespace TenpyModel.C01C
open TenpyModel.Core TenpyModel.C01B TenpyModel.C01B2 TenpyModel.C01B2.Comb
open TenpyModel.Core.Arr (permuteList)

variable {α : Type}

section zero
variable [Zero α]

/-- **the default call `a.combine_legs(groups, qconj=…)`** (`pipes = None`, `new_axes = None`, non-empty groups given by
index or label, `qconj` entries in `{None, +1, -1}`, legs of direction `±1`): charge rule and valid legs of the result
with no further hypothesis — `hP`, `hN`, `hQ` of `chargeRule_combineLegs` are discharged -/
theorem chargeRule_combineLegs_default (a r : Arr α) (ha : a.WF) (hc : a.ChargeRule) (hv : LegsValid a)
    (hq : LegsQ a) (cl : List (List Ax)) (qconj : List (Option Int)) (hqc : ∀ q, some q ∈ qconj → q = 1 ∨ q = -1)
    (hne : ∀ c ∈ cl, c ≠ []) (h : a.combineLegs cl none none qconj = .ok r) : r.ChargeRule ∧ LegsValid r := by
  obtain ⟨ps0, cli0, na0, transp, hps, hcli, hnt, hP2, hN, _⟩ := combineLegs_default_hyps2 a r ha cl qconj hne h
  exact chargeRule_combineLegs a r ha hc hv cl none none qconj ps0 cli0 na0 transp hps hcli hnt hP2.ok hN
    (hQ_default a ha.1 hq cl qconj hqc ps0 cli0 hps hcli) h

/-- `LegsQ` of the result of `combineStd` -/
theorem legsQ_combineStd (a r : Arr α) (ha : a.WF) (hq : LegsQ a) (cl : List (List Nat)) (newAxes : List Nat)
    (pipes : List ALeg) (labels : List String) (hpq : PipesQ pipes)
    (h : a.combineStd cl newAxes pipes labels = .ok r) : LegsQ r := by
  obtain ⟨hlegs, _⟩ := combineStd_out a (W.of ha) cl newAxes pipes labels r h
  intro l hl
  rw [hlegs] at hl
  rcases mem_cLegs a cl newAxes pipes l hl with h1 | h1 | h1
  · exact hpq l h1
  · exact hq l h1
  · rw [h1]; exact Or.inl rfl

end zero

/-! ### `LegsQ` under the operations whose legs come from the operands -/

theorem legsQ_of_sub (a r : Arr α) (hq : LegsQ a) (h : ∀ l ∈ r.legs, l ∈ a.legs ∨ l = default) : LegsQ r := by
  intro l hl
  rcases h l hl with h1 | h1
  · exact hq l h1
  · rw [h1]; exact Or.inl rfl

theorem mem_permuteList {β} (l : List β) (p : List Nat) (d x : β) (h : x ∈ permuteList l p d) : x ∈ l ∨ x = d := by
  obtain ⟨i, _, rfl⟩ := List.mem_map.1 h
  by_cases hi : i < l.length
  · exact Or.inl (getD_mem l i d hi)
  · right; rw [List.getD_eq_getElem?_getD, List.getElem?_eq_none (by omega)]; rfl

theorem legsQ_itransposeFast [Zero α] (a : Arr α) (axes : List Nat) (hq : LegsQ a) : LegsQ (a.itransposeFast axes) :=
  legsQ_of_sub a _ hq (fun l hl => mem_permuteList a.legs axes default l hl)

theorem legsQ_conj (st : α → α) (a : Arr α) (hq : LegsQ a) : LegsQ (a.conj st) := by
  intro l hl
  have hl' : l ∈ a.legs.map ALeg.conj := hl
  obtain ⟨l0, hl0, rfl⟩ := List.mem_map.1 hl'
  rw [ALeg.conj_leg]
  have := hq l0 hl0
  show -l0.leg.qconj = 1 ∨ -l0.leg.qconj = -1
  omega

section semiring
variable [CommSemiring α]
set_option linter.unusedSectionVars false

theorem legsQ_outer (a b r : Arr α) (hqa : LegsQ a) (hqb : LegsQ b) (h : a.outer b = .ok r) : LegsQ r := by
  obtain ⟨hlegs, _⟩ := outer_ok a b r h
  intro l hl
  rw [hlegs] at hl
  rcases List.mem_append.1 hl with h1 | h1
  · exact hqa l h1
  · exact hqb l h1

theorem legsQ_trOp (x : Arr α) (p : List Nat) (hq : LegsQ x) : LegsQ (trOp x p) := by
  unfold trOp
  split
  · exact hq
  · exact legsQ_itransposeFast x p hq

theorem legsQ_tensordot (cy : Bool) (a b : Arr α) (ha : a.WF) (hb : b.WF) (hqa : LegsQ a) (hqb : LegsQ b)
    (axes : Arr.DotAxes) (r : Arr α) (h : Arr.tensordot cy a b axes = .ok (.arr r)) : LegsQ r := by
  have key : ∀ (a b : Arr α), a.WF → b.WF → LegsQ a → LegsQ b → ∀ k : Nat,
      Arr.tensordot cy a b (.int (k : Int)) = .ok (.arr r) → LegsQ r := by
    intro a b ha hb hqa hqb k h
    obtain ⟨_, _, _, _, hlegs, _⟩ := tensordot_int_rows cy a b (W.of ha) (W.of hb) k r h
    intro l hl
    rw [hlegs] at hl
    rcases List.mem_append.1 hl with h1 | h1
    · exact hqa l (List.mem_of_mem_take h1)
    · exact hqb l (List.mem_of_mem_drop h1)
  cases axes with
  | int z =>
    have hz := tensordot_int_nonneg cy a b z _ h
    rw [hz] at h
    exact key a b ha hb hqa hqb _ h
  | pair xa xb =>
    obtain ⟨ia, ib, _, _, _, hpa, hpb, hint⟩ := tensordot_pair_eq cy a b ha hb xa xb _ h
    obtain ⟨wa', _⟩ := trOp_spec a _ ha hpa
    obtain ⟨wb', _⟩ := trOp_spec b _ hb hpb
    exact key _ _ wa' wb' (legsQ_trOp a _ hqa) (legsQ_trOp b _ hqb) _ hint

theorem legsQ_trace (a : Arr α) (ha : a.WF) (hq : LegsQ a) (l1 l2 : Ax) (r : Arr α)
    (h : a.trace l1 l2 = .ok (.arr r)) : LegsQ r := by
  have hr : a.rank ≠ 2 := by
    intro h2
    have := (trace_scalar a (W.of ha) l1 l2 _ h h2).1
    cases this
  obtain ⟨ax1, ax2, _, _, _, _, hv⟩ := TenpyModel.C01B2.trace_unfold a l1 l2 _ h hr
  simp only [Val.arr.injEq] at hv
  subst hv
  apply legsQ_of_sub a _ hq
  intro l hl
  have hl' : l ∈ pick a.legs (Dense.keepAx a.rank [ax1, ax2]) default := hl
  obtain ⟨i, _, rfl⟩ := List.mem_map.1 hl'
  by_cases hi : i < a.legs.length
  · exact Or.inl (getD_mem _ _ _ hi)
  · right; rw [List.getD_eq_getElem?_getD, List.getElem?_eq_none (by omega)]; rfl

end semiring
end TenpyModel.C01C
