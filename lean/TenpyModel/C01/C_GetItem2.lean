import TenpyModel.C01.C_GetItem1
import TenpyModel.C01.Props
/-!
C01 part C — integer `__getitem__`: the final theorem `getItemInt_spec`, the short-tuple behaviour of the model
(`getItemInt_short`), the need for the charge rule (`getItemInt_chargeRule_counterexample`), examples.
-/
namespace TenpyModel.C01C
open TenpyModel.Core Get

variable {α : Type}

/-- **integer `__getitem__` is indexing of `to_ndarray()`**: for a well-formed tensor obeying the charge rule and as
many integer indices as legs,
* a returned value is the entry of the dense form at the normalised indices (`i < 0 ↦ i + n`), which are in range;
* `IndexError` is returned exactly when some index is out of range, and no other error occurs;
* "in range" position by position: `-n_m ≤ i_m < n_m`. -/
theorem getItemInt_spec [Zero α] (a : Arr α) (ha : a.WF) (hc : a.ChargeRule) (inds : List Int)
    (hl : inds.length = a.rank) :
    (∀ x, a.getItemInt inds = .ok x →
        IndsOK a.shape inds ∧ InRange (normInds a.shape inds) a.shape
        ∧ x = a.entry (normInds a.shape inds) ∧ x = a.toDense.get 0 (normInds a.shape inds))
    ∧ (a.getItemInt inds = .error .indexError ↔ ¬ IndsOK a.shape inds)
    ∧ (∀ e, a.getItemInt inds = .error e → e = .indexError)
    ∧ (IndsOK a.shape inds ↔ ∀ m, m < a.rank →
        -(a.shape.getD m 0 : Int) ≤ inds.getD m 0 ∧ inds.getD m 0 < (a.shape.getD m 0 : Int)) := by
  have heq := getItemInt_eq a ha hc inds hl
  have hls : inds.length = a.shape.length := by rw [hl, Arr.shape_length]
  refine ⟨fun x hx => ?_, ?_, fun e he => ?_, ?_⟩
  · rw [heq] at hx
    by_cases hok : IndsOK a.shape inds
    · rw [if_pos hok] at hx
      have hin := normInds_inRange a.shape inds hls hok
      have hxe : x = a.entry (normInds a.shape inds) := (Except.ok.inj hx).symm
      refine ⟨hok, hin, hxe, ?_⟩
      rw [hxe]
      exact (Dense.get_ofFn 0 a.shape a.entry _ hin).symm
    · rw [if_neg hok] at hx
      cases hx
  · rw [heq]
    by_cases hok : IndsOK a.shape inds
    · rw [if_pos hok]
      constructor
      · intro h; cases h
      · intro h; exact absurd hok h
    · rw [if_neg hok]
      exact ⟨fun _ => hok, fun _ => rfl⟩
  · rw [heq] at he
    by_cases hok : IndsOK a.shape inds
    · rw [if_pos hok] at he
      cases he
    · rw [if_neg hok] at he
      exact (Except.error.inj he).symm
  · rw [indsOK_iff a.shape inds hls, Arr.shape_length]
    rfl

/-- what the model does for a **short** index tuple (tenpy returns a sub-tensor there, which `getItemInt` does not
model): the `zip` truncates, the look-up of the short block-index row finds nothing, the result is `0` -/
theorem getItemInt_short [Zero α] (a : Arr α) (ha : a.WF) (inds : List Int) (hl : inds.length < a.rank) :
    a.getItemInt inds = if IndsOK a.shape inds then .ok 0 else .error .indexError := by
  unfold Arr.getItemInt
  simp only [bind, Except.bind, pure, Except.pure, throw, throwThe, MonadExceptOf.throw]
  have hsh : a.lcs.map Leg.indLen = a.shape := rfl
  rw [if_neg (by omega), mapM_qindexOf, hsh]
  by_cases hok : IndsOK a.shape inds
  · rw [if_pos hok, if_pos hok]
    simp only
    split
    · rfl
    · have hnone : (a.qdata.zip a.data).find? (fun rb => rb.1 ==
          (List.zipWith (fun l i => l.locate i) a.lcs (normInds a.shape inds)).map (·.1)) = none := by
        apply List.find?_eq_none.2
        intro rb hrb hbeq
        have h1 := (ha.block rb.1 rb.2 hrb).2.2.1
        have h2 := congrArg List.length (eq_of_beq hbeq)
        rw [h1] at h2
        simp only [List.length_map, List.length_zipWith, normInds, Arr.lcs_length, Arr.shape_length] at h2
        omega
      rw [hnone]
  · rw [if_neg hok, if_neg hok]

/-- non-negative in-range indices are accepted and are their own normalisation -/
theorem Get.nat_inds (shape idx : List Nat) (h : InRange idx shape) :
    IndsOK shape (idx.map Int.ofNat) ∧ normInds shape (idx.map Int.ofNat) = idx := by
  induction shape generalizing idx with
  | nil =>
    cases idx with
    | nil => exact ⟨by simp [IndsOK], rfl⟩
    | cons _ _ => exact h.elim
  | cons n shape ih =>
    cases idx with
    | nil => exact h.elim
    | cons i idx =>
      obtain ⟨h1, h2⟩ := ih idx h.2
      have hi : i < n := h.1
      constructor
      · unfold IndsOK at h1 ⊢
        simp only [List.map_cons, List.zip_cons_cons, List.mem_cons, forall_eq_or_imp]
        refine ⟨?_, h1⟩
        unfold IdxOK
        simp only [Int.ofNat_eq_natCast]
        omega
      · unfold normInds at h2 ⊢
        simp only [List.map_cons, List.zipWith_cons_cons, h2, List.cons.injEq, and_true]
        unfold normIdx
        simp only [Int.ofNat_eq_natCast]
        rw [if_neg (by omega)]
        simp

/-- **`a[i_0, …]` for an in-range multi-index of naturals is the entry** -/
theorem getItemInt_nat [Zero α] (a : Arr α) (ha : a.WF) (hc : a.ChargeRule) (idx : List Nat)
    (h : InRange idx a.shape) : a.getItemInt (idx.map Int.ofNat) = .ok (a.entry idx) := by
  obtain ⟨h1, h2⟩ := Get.nat_inds a.shape idx h
  rw [getItemInt_eq a ha hc _ (by rw [List.length_map, h.length_eq, Arr.shape_length]), if_pos h1, h2]

/-! ### examples -/

namespace ExGet
/-- `C01Example.t` with a wrong total charge: well formed, but the stored block violates the charge rule -/
def tw : Arr Int := { C01Example.t with qtotal := [0, 0] }
end ExGet

example : C01Example.t.WF ∧ C01Example.t.ChargeRule ∧ C01Example.t.rank = 2 ∧ C01Example.t.shape = [4, 3] := by decide

/-- an `Except` value as a pair of options (equality of `Except` values is not decidable by instance) -/
def ExGet.view (x : Except Err Int) : Option Int × Option Err :=
  match x with
  | .ok v => (some v, none)
  | .error e => (none, some e)

theorem ExGet.view_ok (x : Except Err Int) (v : Int) (h : ExGet.view x = (some v, none)) : x = .ok v := by
  cases x with
  | ok w => simp only [ExGet.view, Prod.mk.injEq, Option.some.injEq, and_true] at h; rw [h]
  | error e => simp [ExGet.view] at h

theorem ExGet.view_error (x : Except Err Int) (e : Err) (h : ExGet.view x = (none, some e)) : x = .error e := by
  cases x with
  | ok w => simp [ExGet.view] at h
  | error e' => simp only [ExGet.view, Prod.mk.injEq, Option.some.injEq, true_and] at h; rw [h]

/-- runs of the model: stored entry, negative indices, admissible but unstored block, inadmissible block,
index out of range (both signs), too many indices -/
example : C01Example.t.getItemInt [3, 1] = .ok (-7) ∧ C01Example.t.getItemInt [-1, -2] = .ok (-7)
    ∧ C01Example.t.getItemInt [0, 0] = .ok 0 ∧ C01Example.t.getItemInt [1, 2] = .ok 0
    ∧ C01Example.t.getItemInt [4, 0] = .error .indexError ∧ C01Example.t.getItemInt [0, -4] = .error .indexError
    ∧ C01Example.t.getItemInt [1, 2, 0] = .error .indexError :=
  ⟨ExGet.view_ok _ _ (by decide), ExGet.view_ok _ _ (by decide), ExGet.view_ok _ _ (by decide), ExGet.view_ok _ _ (by decide),
    ExGet.view_error _ _ (by decide), ExGet.view_error _ _ (by decide), ExGet.view_error _ _ (by decide)⟩

/-- `getItemInt_spec` on the instance `t[-1, -2]`: the value is `to_ndarray()[3, 1]` -/
example (x : Int) (h : C01Example.t.getItemInt [-1, -2] = .ok x) :
    x = C01Example.t.toDense.get 0 [3, 1] ∧ x = -7 := by
  obtain ⟨_, _, _, h4⟩ := (getItemInt_spec C01Example.t (by decide) (by decide) [-1, -2] rfl).1 x h
  have : normInds C01Example.t.shape [-1, -2] = [3, 1] := by decide
  rw [this] at h4
  exact ⟨h4, h4.trans (by decide)⟩

/-- `getItemInt_spec` on the instance `t[4, 0]`: `IndexError` because an index is out of range -/
example : C01Example.t.getItemInt [4, 0] = .error .indexError :=
  (getItemInt_spec C01Example.t (by decide) (by decide) [4, 0] rfl).2.1.2 (by decide)

example : C01Example.t.getItemInt [1, 2, 0] = .error .indexError := getItemInt_too_many _ _ (by decide)

example : C01Example.t.getItemInt [3, 0] = .ok 5 :=
  (getItemInt_nat C01Example.t (by decide) (by decide) [3, 0] (by decide)).trans (congrArg Except.ok (by decide))

/-- a short tuple: the model answers `0` (not what tenpy returns, see `getItemInt_short`) -/
example : C01Example.t.getItemInt [3] = .ok 0 := by
  rw [getItemInt_short C01Example.t (by decide) [3] (by decide), if_pos (by decide)]

/-- **the charge rule is needed**: with a stored block of the wrong charge (`WF` holds), `__getitem__` answers `0`
(`get_block` raises for the inadmissible charge and the error is caught) while `to_ndarray()` shows the entry -/
theorem getItemInt_chargeRule_counterexample :
    ExGet.tw.WF ∧ ¬ ExGet.tw.ChargeRule ∧ ExGet.tw.getItemInt [3, 1] = .ok 0 ∧ ExGet.tw.toDense.get 0 [3, 1] = -7 :=
  ⟨by decide, by decide, ExGet.view_ok _ _ (by decide), by decide⟩

end TenpyModel.C01C
