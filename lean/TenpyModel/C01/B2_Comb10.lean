import TenpyModel.C01.B2_Comb9
/-!
C01 part B2 — part 10: the transposition step of `combine_legs`: after `itranspose(transp)` the groups (renumbered by
the inverse permutation) are in standard form. Ingredients: the spectator axes keep their relative order in
`transp`, so the spectator axes of the transposed tensor are the images of the old ones, in order.
-/
namespace TenpyModel.C01B2.Comb
open TenpyModel.Core TenpyModel.C01B

variable {α : Type}

theorem getLegIndex_idx (a : Arr α) (k j : Nat) (h : a.getLegIndex (.idx (Int.ofNat k)) = .ok j) : j = k := by
  simp only [Arr.getLegIndex] at h
  have hk : (0 : Int) ≤ Int.ofNat k := Int.natCast_nonneg k
  split at h
  · omega
  · split at h
    · simp at h
    · simp only [Except.ok.injEq] at h
      rw [← h]
      simp

theorem getLegIndices_idx (a : Arr α) (l ax : List Nat)
    (h : a.getLegIndices (l.map (fun i => Ax.idx (Int.ofNat i))) = .ok ax) : ax = l := by
  have hl := (mapM_except_ok _ _ _ h).1
  rw [List.length_map] at hl
  apply ext_getD _ _ 0 hl
  intro i hi
  have := mapM_except_getD _ _ _ h (Ax.idx 0) 0 i (by rw [List.length_map]; omega)
  rw [getD_map' _ _ i 0 (Ax.idx 0) (by omega)] at this
  exact getLegIndex_idx a _ _ this

theorem sublist_idxOf_pairwise (l s : List Nat) (hn : l.Nodup) (hs : s.Sublist l) :
    (s.map (fun x => l.idxOf x)).Pairwise (· < ·) := by
  induction hs with
  | slnil => simp
  | @cons s l x hs ih =>
    have hn' := List.nodup_cons.1 hn
    have := ih hn'.2
    rw [List.pairwise_map] at this ⊢
    refine this.imp_of_mem ?_
    intro a b ha hb hab
    have hax : a ≠ x := fun e => hn'.1 (e ▸ hs.subset ha)
    have hbx : b ≠ x := fun e => hn'.1 (e ▸ hs.subset hb)
    rw [List.idxOf_cons_ne _ (Ne.symm hax), List.idxOf_cons_ne _ (Ne.symm hbx)]
    omega
  | @cons_cons s l x hs ih =>
    have hn' := List.nodup_cons.1 hn
    have := ih hn'.2
    rw [List.pairwise_map] at this
    rw [List.map_cons, List.pairwise_cons]
    refine ⟨?_, ?_⟩
    · intro y hy
      obtain ⟨b, hb, rfl⟩ := List.mem_map.1 hy
      have hbx : b ≠ x := fun e => hn'.1 (e ▸ hs.subset hb)
      rw [List.idxOf_cons_self, List.idxOf_cons_ne _ (Ne.symm hbx)]
      omega
    · rw [List.pairwise_map]
      refine this.imp_of_mem ?_
      intro a b ha hb hab
      have hax : a ≠ x := fun e => hn'.1 (e ▸ hs.subset ha)
      have hbx : b ≠ x := fun e => hn'.1 (e ▸ hs.subset hb)
      rw [List.idxOf_cons_ne _ (Ne.symm hax), List.idxOf_cons_ne _ (Ne.symm hbx)]
      omega

theorem insertAt_sublist {β} (l : List β) (i : Nat) (x : β) : l.Sublist (Dense.insertAt l i x) := by
  unfold Dense.insertAt
  conv_lhs => rw [← List.take_append_drop i l]
  exact List.Sublist.append (List.Sublist.refl _) (List.sublist_cons_self _ _)

theorem insFold_sublist {β} (pos : List Nat) : ∀ (items base : List β), base.Sublist (insFold base pos items) := by
  induction pos with
  | nil => intro items base; simp [insFold]
  | cons x pos ih =>
    intro items base
    cases items with
    | nil => simp [insFold]
    | cons y items =>
      have := ih items (Dense.insertAt base (Arr.insertPos base.length (x : Int)) y)
      simp only [insFold, List.zip_cons_cons, List.foldl_cons] at this ⊢
      exact (insertAt_sublist _ _ _).trans this

theorem inversePerm_getD (p : List Nat) (x : Nat) (hx : x < p.length) : (inversePerm p).getD x 0 = p.idxOf x := by
  unfold inversePerm
  rw [getD_map' _ _ x 0 0 (by simpa using hx), getD_range _ _ hx]

/-- the spectator axes after the transposition are the images of the spectator axes, in order -/
theorem nonComb_transposed (rank : Nat) (cl : List (List Nat)) (transp : List Nat) (hp : IsPerm transp rank)
    (hcl : ∀ x ∈ cl.flatten, x < rank) (hsub : (cNonComb rank cl).Sublist transp) :
    cNonComb rank (cl.map (fun c => c.map (fun x => (inversePerm transp).getD x 0)))
      = (cNonComb rank cl).map (fun x => (inversePerm transp).getD x 0) := by
  have hnd : transp.Nodup := hp.perm.nodup_iff.2 List.nodup_range
  have hinv : ∀ x, x < rank → (inversePerm transp).getD x 0 = transp.idxOf x :=
    fun x hx => inversePerm_getD transp x (by rw [hp.len]; exact hx)
  have e1 : (cNonComb rank cl).map (fun x => (inversePerm transp).getD x 0)
      = (cNonComb rank cl).map (fun x => transp.idxOf x) :=
    List.map_congr_left (fun x hx => hinv x (cNonComb_lt rank cl x hx))
  have hflat : (cl.map (fun c => c.map (fun x => (inversePerm transp).getD x 0))).flatten
      = cl.flatten.map (fun x => transp.idxOf x) := by
    rw [← List.map_flatten]
    exact List.map_congr_left (fun x hx => hinv x (hcl x hx))
  rw [e1]
  symm
  apply List.Perm.eq_of_pairwise (le := (· < ·))
  · intro a b _ _ h1 h2; omega
  · exact sublist_idxOf_pairwise transp _ hnd hsub
  · unfold cNonComb
    exact List.Pairwise.filter _ List.pairwise_lt_range
  · apply (List.perm_ext_iff_of_nodup ?_ ?_).2
    · intro y
      constructor
      · intro hy
        obtain ⟨x, hx, rfl⟩ := List.mem_map.1 hy
        have hxr := cNonComb_lt rank cl x hx
        have hxn : x ∉ cl.flatten := by
          have := (List.mem_filter.1 hx).2
          simpa using this
        unfold cNonComb
        refine List.mem_filter.2 ⟨List.mem_range.2 (hp.idxOf_lt x hxr), ?_⟩
        rw [hflat]
        simp only [Bool.not_eq_eq_eq_not, Bool.not_true, List.contains_eq_mem, decide_eq_false_iff_not, List.mem_map,
          not_exists, not_and]
        intro x' hx' e
        have h1 := hp.getD_idxOf x' (hcl x' hx')
        have h2 := hp.getD_idxOf x hxr
        rw [e] at h1
        exact hxn (by rw [← h2, h1]; exact hx')
      · intro hy
        unfold cNonComb at hy
        obtain ⟨hyr, hyn⟩ := List.mem_filter.1 hy
        have hyr' : y < rank := List.mem_range.1 hyr
        rw [hflat] at hyn
        simp only [Bool.not_eq_eq_eq_not, Bool.not_true, List.contains_eq_mem, decide_eq_false_iff_not, List.mem_map,
          not_exists, not_and] at hyn
        refine List.mem_map.2 ⟨transp.getD y 0, ?_, hp.idxOf_getD y hyr'⟩
        unfold cNonComb
        refine List.mem_filter.2 ⟨List.mem_range.2 (hp.lt y hyr'), ?_⟩
        simp only [Bool.not_eq_eq_eq_not, Bool.not_true, List.contains_eq_mem, decide_eq_false_iff_not]
        intro hm
        exact hyn _ hm (hp.idxOf_getD y hyr')
    · exact (sublist_idxOf_pairwise transp _ hnd hsub).imp (fun h => Nat.ne_of_lt h)
    · unfold cNonComb
      exact List.Nodup.filter _ List.nodup_range

theorem transp_map_inv (rank : Nat) (transp : List Nat) (hp : IsPerm transp rank) :
    transp.map (fun x => (inversePerm transp).getD x 0) = List.range rank := by
  apply ext_getD _ _ 0 (by simp [hp.len])
  intro j hj
  rw [List.length_map, hp.len] at hj
  rw [getD_map' _ _ j 0 0 (by rw [hp.len]; exact hj), getD_range _ _ hj,
    inversePerm_getD transp _ (by rw [hp.len]; exact hp.lt j hj), hp.idxOf_getD j hj]

/-- after the transposition the renumbered groups are in standard form -/
theorem stdForm_transposed (rank : Nat) (cli0 : List (List Nat)) (na0 transp : List Nat)
    (hr : Reordered rank cli0 na0 transp) (hp : IsPerm transp rank) (hcl : ∀ x ∈ cli0.flatten, x < rank) :
    StdForm rank ((pick cli0 (Arr.argsortInt (na0.map Int.ofNat)) []).map
        (fun c => c.map (fun x => (inversePerm transp).getD x 0)))
      (pick na0 (Arr.argsortInt (na0.map Int.ofNat)) 0) := by
  have hperm : (Arr.argsortInt (na0.map Int.ofNat)).Perm (List.range cli0.length) := by
    rw [← hr.len]; exact argsort_perm na0
  have hcll : (pick cli0 (Arr.argsortInt (na0.map Int.ofNat)) []).length = cli0.length := by
    rw [pick_length, (argsort_perm na0).length_eq, List.length_range, hr.len]
  have hcl' : ∀ x ∈ (pick cli0 (Arr.argsortInt (na0.map Int.ofNat)) []).flatten, x < rank :=
    fun x hx => hcl x ((pick_perm cli0 _ [] hperm).flatten.mem_iff.1 hx)
  have hsub : (cNonComb rank (pick cli0 (Arr.argsortInt (na0.map Int.ofNat)) [])).Sublist transp := by
    rw [hr.nonComb, hr.transp]
    have := (insFold_sublist (pick na0 (Arr.argsortInt (na0.map Int.ofNat)) 0)
      (pick cli0 (Arr.argsortInt (na0.map Int.ofNat)) []) ((cNonComb rank cli0).map (fun x => [x]))).flatten
    have e : ((cNonComb rank cli0).map (fun x => [x])).flatten = cNonComb rank cli0 := by
      induction cNonComb rank cli0 with
      | nil => rfl
      | cons x l ih => simp [ih]
    rwa [e] at this
  have hnc := nonComb_transposed rank _ transp hp hcl' hsub
  rw [hr.nonComb] at hnc
  unfold StdForm
  rw [hnc, List.length_map, List.length_map, hcll]
  refine ⟨hr.asc, hr.lt, ?_⟩
  have hpe := cParts_eq_insFold ((pick cli0 (Arr.argsortInt (na0.map Int.ofNat)) []).map
      (fun c => c.map (fun x => (inversePerm transp).getD x 0)))
    ((cNonComb rank cli0).map (fun x => (inversePerm transp).getD x 0))
    (pick na0 (Arr.argsortInt (na0.map Int.ofNat)) 0) (by rw [List.length_map, pick_length, pick_length]) hr.asc
    (by rw [List.length_map, List.length_map, hcll]; exact hr.lt)
  rw [List.length_map, List.length_map, hcll] at hpe
  rw [hpe]
  have e2 : ((cNonComb rank cli0).map (fun x => (inversePerm transp).getD x 0)).map (fun x => [x])
      = ((cNonComb rank cli0).map (fun x => [x])).map (fun c => c.map (fun x => (inversePerm transp).getD x 0)) := by
    rw [List.map_map, List.map_map]; rfl
  rw [e2, ← insFold_map, ← List.map_flatten, ← hr.transp]
  exact transp_map_inv rank transp hp

end TenpyModel.C01B2.Comb
