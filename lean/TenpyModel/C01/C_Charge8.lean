import TenpyModel.C01.C_Charge7
import TenpyModel.C01.B2_Comb15
import TenpyModel.C01.B2_Comb11
/-!
C01 part C — `split_legs`, step 2: the three branches of the model (`stored_blocks == 0`, the one-block shortcut,
`_split_legs_worker`) produce rows of the form `SplitRow`.
-/
namespace TenpyModel.C01C
open TenpyModel.Core TenpyModel.C01B TenpyModel.C01B2 TenpyModel.C01B2.Comb

variable {α : Type}

section zero
variable [Zero α]

/-- the tensor `split_legs` builds before it sets the labels -/
def splitRes (a : Arr α) (ax : List Nat) : Arr α :=
  if a.storedBlocks = 0 then { a with legs := Arr.splitLegList a.legs ax }
  else if a.storedBlocks = 1 ∧ ax.all (fun k => (Arr.pipeOf (a.legs.getD k default)).qMap.length == 1) then
    let legs' := Arr.splitLegList a.legs ax
    let q := a.qdata.headD []
    let row := (List.range a.rank).flatMap (fun k =>
      if ax.contains k then ((Arr.pipeOf (a.legs.getD k default)).qMap.headD []).drop 3 else [q.getD k 0])
    { a with legs := legs', qdata := [row],
             data := [(a.data.headD ⟨[], []⟩).reshape (blockShapeOf (legs'.map ALeg.leg) row)] }
  else a.splitWorker ax

/-- the axis list `split_legs` works with -/
def splitAx (a : Arr α) (axes : Option (List Ax)) : Except Err (List Nat) :=
  match axes with
  | none => pure ((List.range a.rank).filter (fun k => (a.legs.getD k default).isPipe))
  | some xs => do
    let idx ← a.getLegIndices xs
    let s := pick idx (Arr.argsortInt (idx.map Int.ofNat)) 0
    if s.eraseDups.length ≠ s.length then throw .valueError
    pure s

/-- … and what it does with it -/
def splitTail (a : Arr α) (ax : List Nat) : Except Err (Arr α) := do
  if ax.any (fun k => !(a.legs.getD k default).isPipe) then throw .valueError
  if ax.isEmpty then return a
  let labels ← ax.reverse.foldlM (fun (ls : List Label) k => do
    let parts ← Arr.splitLabel (ls.getD k none) (Arr.subLegs (a.legs.getD k default)).length
    pure (ls.take k ++ parts ++ ls.drop (k + 1))) a.labels
  (splitRes a ax).isetLegLabels labels

theorem splitLegs_eq (a : Arr α) (axes : Option (List Ax)) :
    a.splitLegs axes = (splitAx a axes) >>= splitTail a := by
  cases axes with
  | none => rfl
  | some xs =>
    simp only [Arr.splitLegs, splitAx, splitTail, bind, Except.bind, pure, Except.pure]
    cases a.getLegIndices xs with
    | error e => rfl
    | ok idx =>
      simp only
      split <;> rfl

/-- the steps of `Arr.splitLegs` -/
theorem splitLegs_cases (a r : Arr α) (axes : Option (List Ax)) (h : a.splitLegs axes = .ok r) :
    ∃ ax : List Nat, (∀ k ∈ ax, (a.legs.getD k default).isPipe = true)
      ∧ ((ax = [] ∧ r = a) ∨ (ax ≠ [] ∧ ∃ labels, (splitRes a ax).isetLegLabels labels = .ok r)) := by
  rw [splitLegs_eq] at h
  cases hax : splitAx a axes with
  | error e => rw [hax] at h; cases h
  | ok ax =>
    rw [hax] at h
    have h' : splitTail a ax = .ok r := h
    unfold splitTail at h'
    simp only [bind, Except.bind, pure, Except.pure] at h'
    split at h'
    · simp [throw, throwThe, MonadExceptOf.throw] at h'
    · rename_i hpipe
      refine ⟨ax, ?_, ?_⟩
      · intro k hk
        have := hpipe
        simp only [List.any_eq_true, Bool.not_eq_true', not_exists, not_and, Bool.not_eq_false] at this
        exact this k hk
      · split at h'
        · rename_i he
          simp only [Except.ok.injEq] at h'
          exact Or.inl ⟨List.isEmpty_iff.1 he, h'.symm⟩
        · rename_i he
          refine Or.inr ⟨fun e => he (by rw [e]; rfl), ?_⟩
          split at h'
          · cases h'
          · rename_i labels _
            exact ⟨labels, h'⟩

end zero

/-- lengths of the block lists of `_split_legs_worker` -/
theorem splitWorker_len [Zero α] (a : Arr α) (ha : W a) (ax : List Nat) :
    (a.splitWorker ax).qdata.length = (a.splitWorker ax).data.length := by
  unfold Arr.splitWorker
  simp only
  split
  · exact ha.len
  · simp

/-- the pipes at the split axes, as the list `ps` of the normal form `splitWorker_zip` -/
theorem sP_axes (a : Arr α) (ax : List Nat) (hp : ∀ k ∈ ax, (a.legs.getD k default).isPipe = true) (g : Nat)
    (hg : g < ax.length) :
    sP (ax.map (fun k => a.legs.getD k default)) g = Arr.pipeOf (a.legs.getD (ax.getD g 0) default) := by
  unfold sP
  rw [cPs_eq _ (by
    intro x hx
    obtain ⟨k, hk, rfl⟩ := List.mem_map.1 hx
    exact hp k hk), List.map_map, getD_map' _ _ g 0 dPipe hg]
  rfl

section rows
variable [Zero α]

/-- **the rows of `split_legs`** (before the labels are set): every row belongs to a stored row as a `SplitRow` -/
theorem splitRes_rows (a : Arr α) (ha : W a) (ax : List Nat)
    (hp : ∀ k ∈ ax, (a.legs.getD k default).isPipe = true)
    (hS : ∀ l ∈ a.legs, l.isPipe = true → SplitLegOK a.mods l) :
    (splitRes a ax).mods = a.mods ∧ (splitRes a ax).qtotal = a.qtotal
    ∧ (splitRes a ax).legs = Arr.splitLegList a.legs ax
    ∧ ∀ row ∈ (splitRes a ax).qdata, ∃ q ∈ a.qdata, SplitRow a ax q row := by
  unfold splitRes
  split
  · -- no blocks
    rename_i h0
    refine ⟨rfl, rfl, rfl, ?_⟩
    intro row hrow
    have : a.qdata = [] := List.length_eq_zero_iff.1 (by rw [ha.len]; exact h0)
    simp only [this] at hrow
    cases hrow
  · split
    · -- the one-block shortcut
      rename_i h0 h1
      refine ⟨rfl, rfl, rfl, ?_⟩
      intro row hrow
      simp only [List.mem_singleton] at hrow
      obtain ⟨q, hq⟩ := List.length_eq_one_iff.1 (ha.len.trans h1.1)
      have hqm : q ∈ a.qdata := by rw [hq]; simp
      refine ⟨q, hqm, fun _ => 0, ?_, ?_⟩
      · intro k hk hc
        have hkm : k ∈ ax := by simpa using hc
        have hpk := hp k hkm
        have hlen1 : (Arr.pipeOf (a.legs.getD k default)).qMap.length = 1 := by
          have := List.all_eq_true.1 h1.2 k hkm
          simpa using this
        have hok := hS _ (getD_mem a.legs k default hk) hpk
        have hlt := ha.rowLt q hqm k hk
        cases hx : a.legs.getD k default with
        | plain l => rw [hx] at hpk; simp [ALeg.isPipe] at hpk
        | pipe p subs =>
          rw [hx] at hok hlen1
          have hlk : a.lc k = p.leg := by unfold Arr.lc; rw [hx]; rfl
          rw [hlk] at hlt
          simp only [Arr.pipeOf] at hlen1 ⊢
          obtain ⟨⟨sb, _, e⟩, _, _⟩ := hok
          have S : p.SlicesOK := by rw [e]; exact Pipe.slicesOK _ _ _ _
          have hne := S.nonempty _ hlt
          have hlast := Pipe.SlicesOK.mono_last S (q.getD k 0 + 1) (by omega)
          omega
      · rw [hrow, hq, List.flatMap_def]
        simp only [List.headD_cons]
        congr 1
        apply List.map_congr_left
        intro k _
        unfold splitPiece
        rw [show ∀ (l : List (List Nat)), l.headD [] = l.getD 0 [] from fun l => by cases l <;> rfl]
    · -- the worker
      rename_i h0 h1
      obtain ⟨hlegs, hzip⟩ := splitWorker_zip a ax (ax.map (fun k => a.legs.getD k default))
        (fun g hg => (sP_axes a ax hp g hg).symm) h0
      refine ⟨by unfold Arr.splitWorker; simp only; split <;> rfl,
        by unfold Arr.splitWorker; simp only; split <;> rfl, hlegs, ?_⟩
      intro row hrow
      obtain ⟨blk, hmem⟩ := mem_zip_of_mem_left _ _ (splitWorker_len a ha ax) row hrow
      rw [hzip] at hmem
      obtain ⟨rb, hrb, hmem⟩ := List.mem_flatMap.1 hmem
      obtain ⟨combo, hcombo, he⟩ := List.mem_map.1 hmem
      have hqm := (List.of_mem_zip hrb).1
      have hrow' : row = sNewrow a.rank ax (ax.map (fun k => a.legs.getD k default)) rb.1 combo := by
        have := congrArg Prod.fst he
        exact this.symm
      have hcin := (mem_gridC _ _).1 hcombo
      refine ⟨rb.1, hqm, fun k => combo.getD (ax.idxOf k) 0
        + (Arr.pipeOf (a.legs.getD k default)).qMapSlices.getD (rb.1.getD k 0) 0, ?_, ?_⟩
      · intro k hk hc
        have hkm : k ∈ ax := by simpa using hc
        obtain ⟨hg, hgk⟩ := Dense.getD_idxOf_mem_sl ax k hkm
        refine ⟨Nat.le_add_left _ _, ?_⟩
        have := hcin.getD_lt (ax.idxOf k) (by rw [hcin.length_eq]; simpa [sCnts] using hg)
        unfold sCnts sSl at this
        rw [getD_map' _ _ _ 0 0 (by simpa using hg), getD_range _ _ hg, sP_axes a ax hp _ hg, hgk] at this
        beta_reduce
        omega
      · rw [hrow']
        unfold sNewrow
        congr 1
        apply List.map_congr_left
        intro k _
        unfold sPiece splitPiece
        by_cases hc : ax.contains k = true
        · rw [if_pos hc, if_pos hc]
          have hkm : k ∈ ax := by simpa using hc
          obtain ⟨hg, hgk⟩ := Dense.getD_idxOf_mem_sl ax k hkm
          unfold sRowG sSl
          rw [sP_axes a ax hp _ hg, hgk]
        · rw [if_neg hc, if_neg hc]

/-- **(d) `split_legs`** (axes by index or label, or all pipes; all three branches): the result obeys the charge rule
and has valid legs, provided the pipe legs of the operand are consistent `LegPipe`s (`SplitLegOK`, decidable — what
`LegPipe.test_sanity` checks: the outgoing charges are the fused incoming charges, direction `±1`, incoming legs over the
same `chinfo`). -/
theorem chargeRule_splitLegs (a r : Arr α) (ha : a.WF) (hca : a.ChargeRule) (hva : LegsValid a)
    (hS : ∀ l ∈ a.legs, l.isPipe = true → SplitLegOK a.mods l) (axes : Option (List Ax))
    (h : a.splitLegs axes = .ok r) : r.ChargeRule ∧ LegsValid r := by
  obtain ⟨ax, hp, hcase⟩ := splitLegs_cases a r axes h
  rcases hcase with ⟨_, rfl⟩ | ⟨_, labels, hl⟩
  · exact ⟨hca, hva⟩
  · obtain ⟨hr, _⟩ := isetLegLabels_ok _ r labels hl
    obtain ⟨hm, hq, hlegs, hrows⟩ := splitRes_rows a (W.of ha) ax hp hS
    have hlcs : r.lcs = (Arr.splitLegList a.legs ax).map ALeg.leg := by
      rw [hr]; show (splitRes a ax).legs.map ALeg.leg = _; rw [hlegs]
    have hmods : r.mods = a.mods := by rw [hr]; exact hm
    have hqt : r.qtotal = a.qtotal := by rw [hr]; exact hq
    have hqd : r.qdata = (splitRes a ax).qdata := by rw [hr]
    constructor
    · intro row hrow
      rw [hqd] at hrow
      obtain ⟨q, hqm, hsr⟩ := hrows row hrow
      rw [hmods, hlcs, hqt, splitRow_charge a (W.of ha) hva ax
        (fun k hk hc => by
          have hkm : k ∈ ax := by simpa using hc
          exact ⟨hp k hkm, hS _ (getD_mem a.legs k default hk) (hp k hkm)⟩) q hqm row hsr]
      exact hca q hqm
    · intro l hl
      rw [hlcs, splitLegList_lcs] at hl
      rw [hmods]
      obtain ⟨piece, hpiece, hlp⟩ := List.mem_flatten.1 hl
      obtain ⟨k, hk, rfl⟩ := List.mem_map.1 hpiece
      have hk' : k < a.legs.length := List.mem_range.1 hk
      by_cases hc : ax.contains k = true
      · rw [if_pos hc] at hlp
        have hkm : k ∈ ax := by simpa using hc
        have hok := hS _ (getD_mem a.legs k default hk') (hp k hkm)
        cases hx : a.legs.getD k default with
        | plain l' =>
          have := hp k hkm
          rw [hx] at this
          simp [ALeg.isPipe] at this
        | pipe p subs =>
          rw [hx] at hok hlp
          have := hok.2.2 l hlp
          exact ⟨this.2.1, this.2.2⟩
      · rw [if_neg hc] at hlp
        simp only [List.mem_singleton] at hlp
        rw [hlp]
        apply hva
        exact List.mem_map.2 ⟨_, getD_mem a.legs k default hk', rfl⟩

end rows
end TenpyModel.C01C
