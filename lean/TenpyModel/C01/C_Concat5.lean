import TenpyModel.C01.C_Concat4
/-!
C01 part C — `concatenate`, step 5: the result is well formed (`Arr.WF`): rows pairwise distinct and in range of the
new legs, blocks of the right shape, `_qdata_sorted = False`.
-/
namespace TenpyModel.C01C.Cat
open TenpyModel.Core TenpyModel.C01B

variable {α : Type}

theorem catQ_length (k s : Nat) (arrays : List (Arr α)) (hl : ∀ a ∈ arrays, a.qdata.length = a.data.length) :
    (catQ k s arrays).length = (arrays.flatMap (·.data)).length := by
  induction arrays generalizing s with
  | nil => rfl
  | cons a rest ih =>
    simp only [catQ, List.flatMap_cons, List.length_append, List.length_map]
    rw [ih _ (fun b hb => hl b (by simp [hb])), hl a (by simp)]

/-- rows of the operands after `s` blocks have block index `≥ s` on the axis -/
theorem catQ_ge (k s : Nat) (arrays : List (Arr α)) (hlen : ∀ a ∈ arrays, ∀ r ∈ a.qdata, k < r.length) :
    ∀ r ∈ catQ k s arrays, s ≤ r.getD k 0 := by
  induction arrays generalizing s with
  | nil => intro r hr; simp [catQ] at hr
  | cons a rest ih =>
    intro r hr
    rw [catQ, List.mem_append] at hr
    rcases hr with hr | hr
    · obtain ⟨q, hq, rfl⟩ := List.mem_map.1 hr
      rw [shiftRow_getD_eq _ _ _ (hlen a (by simp) q hq)]
      omega
    · have := ih (s + (a.lc k).blockNumber) (fun b hb => hlen b (by simp [hb])) r hr
      omega

theorem catQ_nodup (k s : Nat) (arrays : List (Arr α)) (hnd : ∀ a ∈ arrays, a.qdata.Nodup)
    (hlen : ∀ a ∈ arrays, ∀ r ∈ a.qdata, r.length = a.rank) (hk : ∀ a ∈ arrays, k < a.rank)
    (hlt : ∀ a ∈ arrays, ∀ r ∈ a.qdata, r.getD k 0 < (a.lc k).blockNumber) : (catQ k s arrays).Nodup := by
  induction arrays generalizing s with
  | nil => simp [catQ]
  | cons a rest ih =>
    rw [catQ, List.nodup_append]
    refine ⟨?_, ?_, ?_⟩
    · apply List.Nodup.map_on _ (hnd a (by simp))
      intro x hx y hy e
      exact shiftRow_inj k s x y (by rw [hlen a (by simp) x hx, hlen a (by simp) y hy])
        (by rw [hlen a (by simp) x hx]; exact hk a (by simp)) e
    · exact ih _ (fun b hb => hnd b (by simp [hb])) (fun b hb => hlen b (by simp [hb]))
        (fun b hb => hk b (by simp [hb])) (fun b hb => hlt b (by simp [hb]))
    · intro x hx y hy e
      obtain ⟨q, hq, rfl⟩ := List.mem_map.1 hx
      have h1 := catQ_ge k (s + (a.lc k).blockNumber) rest
        (fun b hb r hr => by rw [hlen b (by simp [hb]) r hr]; exact hk b (by simp [hb])) y hy
      rw [← e, shiftRow_getD_eq _ _ _ (by rw [hlen a (by simp) q hq]; exact hk a (by simp))] at h1
      have := hlt a (by simp) q hq
      omega

theorem lc_set_eq (legs : List ALeg) (k : Nat) (N : Leg) (hk : k < legs.length) :
    ((legs.set k (.plain N)).getD k default).leg = N := by
  rw [getD_set_eq_pj _ _ _ _ hk]; rfl

theorem lc_set_ne (legs : List ALeg) (k m : Nat) (N : Leg) (h : k ≠ m) :
    ((legs.set k (.plain N)).getD m default).leg = (legs.getD m default).leg := by
  rw [getD_set_ne_pj _ _ _ _ _ h]

namespace Ctx
variable {first : Arr α} {rest : List (Arr α)} {k : Nat}

theorem rank_res (first : Arr α) (rest : List (Arr α)) (k : Nat) : (catRes first rest k).rank = first.rank := by
  unfold Arr.rank catRes
  simp

theorem len_res (c : Ctx first rest k) : (catRes first rest k).qdata.length = (catRes first rest k).data.length :=
  catQ_length k 0 (first :: rest) (fun a ha => (c.wf a ha).2.1)

theorem nodup_res (c : Ctx first rest k) : (catRes first rest k).qdata.Nodup :=
  catQ_nodup k 0 (first :: rest) (fun a ha => (W.of (c.wf a ha)).nodup) (fun a ha => (W.of (c.wf a ha)).rowLen)
    (fun a ha => by rw [c.rank a ha]; exact c.hk)
    (fun a ha r hr => (W.of (c.wf a ha)).rowLt r hr k (by rw [c.rank a ha]; exact c.hk))

/-- every stored row of the result is a shifted stored row of an operand -/
theorem mem_res (c : Ctx first rest k) (e : List Nat × Blk α)
    (he : e ∈ (catRes first rest k).qdata.zip (catRes first rest k).data) :
    ∃ pre a post, first :: rest = pre ++ a :: post ∧ ∃ rb ∈ a.qdata.zip a.data,
      e = (shiftRow k (shiftOf k pre) rb.1, rb.2) := by
  rw [c.zip_res] at he
  obtain ⟨pre, a, post, hd, rb, hrb, he⟩ := (mem_catRows _ _ _ _).1 he
  exact ⟨pre, a, post, hd, rb, hrb, by rw [he, Nat.zero_add]⟩

theorem legs_shapeOK (c : Ctx first rest k) : ∀ l ∈ (catRes first rest k).lcs, l.ShapeOK := by
  intro l hl
  rw [lcs_res] at hl
  rcases List.mem_or_eq_of_mem_set hl with h | h
  · exact (c.wf first (by simp)).2.2.2.1 l h
  · rw [h]; exact catLeg_shapeOK _ _ _ c.shapes

theorem WF_res (c : Ctx first rest k) : (catRes first rest k).WF := by
  refine ⟨?_, c.len_res, c.nodup_res, c.legs_shapeOK, ?_, ?_, ?_⟩
  · rw [rank_res]; exact (c.wf first (by simp)).1
  · intro row hrow
    obtain ⟨b, hb⟩ := mem_zip_of_mem_left _ _ c.len_res row hrow
    obtain ⟨pre, a, post, hd, rb, hrb, he⟩ := c.mem_res _ hb
    have ha : a ∈ first :: rest := by rw [hd]; simp
    have w := W.of (c.wf a ha)
    have hr := c.rank a ha
    have m1 := (List.of_mem_zip hrb).1
    have hrow' : row = shiftRow k (shiftOf k pre) rb.1 := (Prod.ext_iff.1 he).1
    have hs := c.shapes
    rw [hd, List.map_append, List.map_cons] at hs
    rw [rank_res, hrow', shiftRow_length, w.rowLen _ m1, hr]
    refine ⟨rfl, fun m hm => ?_⟩
    unfold Arr.lc
    show _ < (((first.legs.set k _).getD m default).leg).blockNumber
    by_cases hmk : k = m
    · subst hmk
      rw [lc_set_eq _ _ _ hm, shiftRow_getD_eq _ _ _ (by rw [w.rowLen _ m1, hr]; exact hm), Nat.add_comm, hd,
        List.map_append, List.map_cons]
      exact catLeg_block_lt _ _ _ _ _ _ (w.rowLt _ m1 k (by rw [hr]; exact hm))
    · rw [lc_set_ne _ _ _ _ hmk, shiftRow_getD_ne _ _ _ _ hmk]
      have h1 := w.rowLt _ m1 m (by rw [hr]; exact hm)
      have hsl := (c.compat a ha).slices m hm (fun e => hmk e.symm)
      rw [Arr.lc_eq a m (by rw [hr]; exact hm), Arr.lc_eq first m hm] at hsl
      have wf := W.of (c.wf first (by simp))
      have s1 : (a.lc m).Shape := by
        rw [← Arr.lc_eq a m (by rw [hr]; exact hm)]
        exact w.shapes _ (getD_mem _ _ _ (by rw [Arr.lcs_length, hr]; exact hm))
      have s2 : (first.lc m).Shape := by
        rw [← Arr.lc_eq first m hm]
        exact wf.shapes _ (getD_mem _ _ _ (by rw [Arr.lcs_length]; exact hm))
      rw [blockNumber_congr _ _ s1 s2 hsl] at h1
      exact h1
  · intro e he
    obtain ⟨pre, a, post, hd, rb, hrb, rfl⟩ := c.mem_res _ he
    have ha : a ∈ first :: rest := by rw [hd]; simp
    have hwf := c.wf a ha
    have w := W.of hwf
    have hr := c.rank a ha
    have m1 := (List.of_mem_zip hrb).1
    have hb := hwf.2.2.2.2.2.1 rb hrb
    refine ⟨?_, hb.2⟩
    simp only
    rw [lcs_res, (c.emb pre post a hd).blockShape_eq rb.1 (by rw [w.rowLen _ m1, Arr.lcs_length])
      (by rw [Arr.lc_eq a k (by rw [hr]; exact c.hk)]; exact w.rowLt _ m1 k (by rw [hr]; exact c.hk))]
    exact hb.1
  · intro h
    exact absurd h (by simp [catRes])

end Ctx

end TenpyModel.C01C.Cat
