import TenpyModel.C01.C_ProgR2
/-!
C01 part C — every finite program over the operations of part A agrees with the reference semantics on reference
objects **with legs** (`C01ProgA.evalArr_specR`): dense form, labels, legs and `chinfo.mod` of the result are those
computed by `evalRefR` from the reference objects of the operands; the result is well formed.
-/
namespace TenpyModel.Core
open Arr (permuteList swapList)
open TenpyModel.C01C.ProgR

namespace C01ProgA
variable {α : Type}

/-- **all finite programs of part A, legs included** -/
theorem evalArr_specR [Zero α] [Neg α] [Add α] [Mul α] [DecidableEq α] (st : α → α) (hst : st 0 = 0)
    (hneg : -(0 : α) = 0) (hz : ∀ x : α, x * 0 = 0) (hz' : ∀ s : α, 0 * s = 0) (hadd : ∀ x : α, x + 0 = x)
    (env : List (Arr α)) (henv : ∀ a ∈ env, a.WF) (p : C01ProgA α) :
    ∀ r, Side st env p → evalArr st env p = .ok r → r.toR = evalRefR st (env.map Arr.toR) p ∧ r.WF := by
  induction p with
  | input i =>
    intro r _ h
    simp only [evalArr] at h
    cases hi : env[i]? with
    | none => simp [hi] at h
    | some a =>
      simp only [hi, Except.ok.injEq] at h
      subst h
      refine ⟨?_, henv a (List.mem_of_getElem? hi)⟩
      simp only [evalRefR, List.getD_eq_getElem?_getD, List.getElem?_map, hi, Option.map_some, Option.getD_some]
  | neg p ih =>
    intro r hs h
    simp only [evalArr] at h
    obtain ⟨a, hp, h⟩ := bind_ok h
    simp only [pure, Except.pure, Except.ok.injEq] at h
    subst h
    obtain ⟨hx, hw⟩ := ih a hs hp
    refine ⟨?_, Arr.WF_iunaryBlockwise _ a hw⟩
    simp only [evalRefR, ← hx]
    exact Arr.toR_eq _ _ _ _ _ (Arr.toDense_iunaryBlockwise _ hneg a) rfl rfl rfl
  | scale s p ih =>
    intro r hs h
    simp only [evalArr] at h
    obtain ⟨a, hp, h⟩ := bind_ok h
    simp only [pure, Except.pure, Except.ok.injEq] at h
    subst h
    obtain ⟨hx, hw⟩ := ih a hs hp
    refine ⟨?_, Arr.WF_iscalePrefactor a s hw⟩
    simp only [evalRefR, ← hx]
    exact Arr.toR_eq _ _ _ _ _ (Arr.toDense_iscalePrefactor hz hz' a s) (Arr.iscalePrefactor_labels a s)
      (iscalePrefactor_mods a s).2 (iscalePrefactor_mods a s).1
  | conj p ih =>
    intro r hs h
    simp only [evalArr] at h
    obtain ⟨a, hp, h⟩ := bind_ok h
    simp only [pure, Except.pure, Except.ok.injEq] at h
    subst h
    obtain ⟨hx, hw⟩ := ih a hs hp
    refine ⟨?_, Arr.WF_conj st a hw⟩
    simp only [evalRefR, ← hx]
    exact Arr.toR_eq _ _ _ _ _ (Arr.toDense_conj st hst a) rfl rfl rfl
  | complexConj p ih =>
    intro r hs h
    simp only [evalArr] at h
    obtain ⟨a, hp, h⟩ := bind_ok h
    simp only [pure, Except.pure, Except.ok.injEq] at h
    subst h
    obtain ⟨hx, hw⟩ := ih a hs hp
    refine ⟨?_, Arr.WF_iunaryBlockwise _ a hw⟩
    simp only [evalRefR, ← hx]
    exact Arr.toR_eq _ _ _ _ _ (Arr.toDense_iunaryBlockwise _ hst a) rfl rfl rfl
  | transpose axes p ih =>
    intro r hs h
    simp only [evalArr] at h
    obtain ⟨a, hp, h⟩ := bind_ok h
    obtain ⟨hx, hw⟩ := ih a hs hp
    obtain ⟨ax, _, h1, h2, h3, h4, h5, _, h7, h8, _⟩ := Arr.itranspose_spec a r axes hw h
    refine ⟨?_, h8⟩
    simp only [evalRefR, ← hx, Arr.toR_ld, Arr.toR_d, Arr.toR_labels, Arr.toR_legs, Arr.toR_mods]
    have hax : transposeAx a.toLD axes = ax := by
      cases axes with
      | none => simp only [transposeAx, Arr.toLD_rank]; exact (h1 rfl).symm
      | some xs => exact Arr.toLD_axs a xs ax (h2 xs rfl)
    rw [hax]
    exact Arr.toR_eq _ _ _ _ _ h3 h5 h4 h7
  | swapaxes x1 x2 p ih =>
    intro r hs h
    simp only [evalArr] at h
    obtain ⟨a, hp, h⟩ := bind_ok h
    obtain ⟨hx, hw⟩ := ih a hs hp
    obtain ⟨i, j, hi, hj, _, _, h5, h6, h7, _, h9, h10, _⟩ := Arr.iswapaxes_spec a r x1 x2 hw h
    refine ⟨?_, h10⟩
    simp only [evalRefR, ← hx, Arr.toR_ld, Arr.toR_d, Arr.toR_labels, Arr.toR_legs, Arr.toR_mods]
    rw [Arr.toLD_ax a x1 i hi, Arr.toLD_ax a x2 j hj, show a.toDense.rank = a.rank from Arr.toLD_rank a]
    exact Arr.toR_eq _ _ _ _ _ h5 h7 h6 h9
  | addTrivialLeg axis label qconj p ih =>
    intro r hs h
    simp only [evalArr] at h
    obtain ⟨a, hp, h⟩ := bind_ok h
    obtain ⟨hx, hw⟩ := ih a hs hp
    obtain ⟨h1, h2, h3, _⟩ := Arr.toDense_addTrivialLeg a r axis label qconj hw h
    refine ⟨?_, Arr.WF_addTrivialLeg a r axis label qconj hw h⟩
    simp only [evalRefR, ← hx, Arr.toR_d, Arr.toR_labels, Arr.toR_legs, Arr.toR_mods]
    rw [show a.toDense.rank = a.rank from Arr.toLD_rank a]
    exact Arr.toR_eq _ _ _ _ _ h1 h2 h3 (addTrivialLeg_mods a r axis label qconj h)
  | takeSlice indices axes p ih =>
    intro r hs h
    simp only [evalArr] at h
    obtain ⟨a, hp, h⟩ := bind_ok h
    obtain ⟨hx, hw⟩ := ih a hs.1 hp
    obtain ⟨ax, hax⟩ := Arr.takeSlice_ax a r indices axes h
    have hnd := hs.2 a ax hp hax
    obtain ⟨h1, _, h3, h4⟩ := Arr.toDense_takeSlice a r indices axes hw ax hax hnd h
    refine ⟨?_, Arr.WF_takeSlice a r indices axes hw ax hax hnd h⟩
    simp only [evalRefR, ← hx, Arr.toR_ld, Arr.toR_d, Arr.toR_labels, Arr.toR_legs, Arr.toR_mods]
    rw [Arr.toLD_axs a axes ax hax]
    by_cases hne : ax = []
    · rw [if_pos hne, h3 hne]
    · rw [if_neg hne, show a.toDense.rank = a.rank from Arr.toLD_rank a]
      exact Arr.toR_eq _ _ _ _ _ h1 (h4 hne).1 (h4 hne).2.1 (takeSlice_mods a r indices axes h)
  | squeeze axes p ih =>
    intro r hs h
    simp only [evalArr] at h
    obtain ⟨a, hp, h⟩ := bind_ok h
    obtain ⟨hx, hw⟩ := ih a hs.1 hp
    obtain ⟨v, hv, h⟩ := bind_ok h
    cases v with
    | scalar x => simp [throw, throwThe, MonadExceptOf.throw] at h
    | arr r' =>
      simp only [pure, Except.pure, Except.ok.injEq] at h
      subst h
      obtain ⟨h1, h2, h3⟩ := Arr.squeeze_arr_spec a r' axes hw (hs.2 a hp) hv
      obtain ⟨h4, h5⟩ := squeeze_arr_specR a r' axes hw (hs.2 a hp) hv
      refine ⟨?_, h3⟩
      simp only [evalRefR, ← hx, Arr.toR_ld, Arr.toR_d, Arr.toR_labels, Arr.toR_legs, Arr.toR_mods]
      exact Arr.toR_eq _ _ _ _ _ h1 h2 h4 h5
  | scaleAxis s axis p ih =>
    intro r hs h
    simp only [evalArr] at h
    obtain ⟨a, hp, h⟩ := bind_ok h
    obtain ⟨hx, hw⟩ := ih a hs hp
    obtain ⟨k, hk⟩ := Arr.iscaleAxis_ax a r s axis h
    obtain ⟨h1, h2, h3, _, h5⟩ := Arr.toDense_iscaleAxis hz' a r s axis hw k hk h
    refine ⟨?_, h5⟩
    simp only [evalRefR, ← hx, Arr.toR_ld, Arr.toR_d, Arr.toR_labels, Arr.toR_legs, Arr.toR_mods]
    rw [Arr.toLD_ax a axis k hk]
    exact Arr.toR_eq _ _ _ _ _ h1 h3 h2 (iscaleAxis_mods a r s axis h)
  | project masks axes p ih =>
    intro r hs h
    simp only [evalArr] at h
    obtain ⟨a, hp, h⟩ := bind_ok h
    obtain ⟨hx, hw⟩ := ih a hs.1 hp
    obtain ⟨ax, hax, hcase⟩ := Arr.iproject_ax a r masks axes h
    have hnd := hs.2 a ax hp hax
    simp only [evalRefR, ← hx, Arr.toR_ld, Arr.toR_d, Arr.toR_labels, Arr.toR_legs, Arr.toR_mods]
    rw [Arr.toLD_axs a axes ax hax]
    rcases hcase with ⟨he, hr⟩ | ⟨hne, bmasks, hbm⟩
    · rw [if_pos he, hr]
      exact ⟨rfl, hw⟩
    · obtain ⟨h1, h2, _, h4⟩ := Arr.toDense_iproject_full a r masks axes hw ax hax hnd bmasks hbm h
      obtain ⟨h5, h6⟩ := iproject_legs a r masks axes hw ax hax hnd bmasks hbm h
      refine ⟨?_, h4⟩
      rw [if_neg hne]
      have hb : (masks.zip ax).map (fun mk => maskBools (a.toDense.shape.getD mk.2 0) mk.1) = bmasks :=
        Arr.mapM_except_eq_map _ _ _ _ (fun mk y hy => by
          show maskBools (a.shape.getD mk.2 0) mk.1 = y
          unfold maskBools
          rw [hy]) hbm
      rw [hb]
      exact Arr.toR_eq _ _ _ _ _ h1 h2 h5 h6
  | permute perm axis p ih =>
    intro r hs h
    simp only [evalArr] at h
    obtain ⟨a, hp, h⟩ := bind_ok h
    obtain ⟨hx, hw⟩ := ih a hs.1 hp
    obtain ⟨k, hk⟩ := Arr.permute_ax a r perm axis h
    obtain ⟨hperm, hcl⟩ := hs.2 a k hp hk
    obtain ⟨h1, h2, _, h4⟩ := Arr.toDense_permute a r perm axis hw k hk hperm hcl h
    obtain ⟨h5, h6⟩ := permute_legs a r perm axis k hk h
    refine ⟨?_, h4⟩
    simp only [evalRefR, ← hx, Arr.toR_ld, Arr.toR_d, Arr.toR_labels, Arr.toR_legs, Arr.toR_mods]
    rw [Arr.toLD_ax a axis k hk]
    exact Arr.toR_eq _ _ _ _ _ h1 h2 h5 h6
  | binary f p q ihp ihq =>
    intro r hs h
    simp only [evalArr] at h
    obtain ⟨a, hp, h⟩ := bind_ok h
    obtain ⟨b, hq, h⟩ := bind_ok h
    obtain ⟨rb, hrb, h⟩ := bind_ok h
    simp only [pure, Except.pure, Except.ok.injEq] at h
    subst h
    obtain ⟨hxa, hwa⟩ := ihp a hs.2.1 hp
    obtain ⟨hxb, hwb⟩ := ihq b hs.2.2 hq
    obtain ⟨_, h1, h2, h3, _, h5, _⟩ := Arr.ibinaryBlockwise_spec f hs.1 a b rb.1 rb.2 hwa hwb hrb
    refine ⟨?_, h5⟩
    simp only [evalRefR, ← hxa, ← hxb, Arr.toR_d, Arr.toR_labels, Arr.toR_legs, Arr.toR_mods]
    rw [show b.toDense.rank = b.rank from Arr.toLD_rank b]
    exact Arr.toR_eq _ _ _ _ _ h1 h3 h2 (ibinaryBlockwise_mods f a b rb hrb)
  | addPrefactor cy c p q ihp ihq =>
    intro r hs h
    simp only [evalArr] at h
    obtain ⟨a, hp, h⟩ := bind_ok h
    obtain ⟨b, hq, h⟩ := bind_ok h
    obtain ⟨rb, hrb, h⟩ := bind_ok h
    simp only [pure, Except.pure, Except.ok.injEq] at h
    subst h
    obtain ⟨hxa, hwa⟩ := ihp a hs.1 hp
    obtain ⟨hxb, hwb⟩ := ihq b hs.2 hq
    obtain ⟨_, h1, h2, h3, _, h5, _⟩ := Arr.iaddPrefactorOther_spec hz hz' hadd cy a b rb.1 rb.2 c hwa hwb hrb
    refine ⟨?_, h5⟩
    simp only [evalRefR, ← hxa, ← hxb, Arr.toR_d, Arr.toR_labels, Arr.toR_legs, Arr.toR_mods]
    rw [show b.toDense.rank = b.rank from Arr.toLD_rank b]
    exact Arr.toR_eq _ _ _ _ _ h1 h3 h2 (iaddPrefactorOther_mods cy a b c rb hrb)

end C01ProgA
end TenpyModel.Core
