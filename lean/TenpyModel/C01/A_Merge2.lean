import TenpyModel.C01.A_Merge1
import TenpyModel.C01.MergeProofs
/-!
C01 — the merge loop of `ibinary_blockwise`, part 2: the `while i < Na or j < Nb` loop (`mergeGo`) over two
lists of (key, row, block) triples with strictly increasing keys, where equal keys mean equal rows.
* `mergeGo_mem`    : where every output block comes from (no hypotheses);
* `mergeGo_find`   : the output block found for a row `q` is `f`-combination of the blocks found in the inputs;
* `mergeGo_sorted` : the keys of the output rows are strictly increasing again.
-/
namespace TenpyModel.Core.Arr
variable {α : Type}

/-- (key, row, block) -/
abbrev KB (α : Type) := Nat × List Nat × Blk α

/-- the block the merge stores for row `q`, given the blocks of the two operands stored for `q` (if any) -/
def mcomb [Zero α] (f : α → α → α) (q : List Nat) : Option (KB α) → Option (KB α) → Option (List Nat × Blk α)
  | some x, some y => some (q, Dense.zipWith f x.2.2 y.2.2)
  | some x, none => some (q, x.2.2.map (fun v => f v 0))
  | none, some y => some (q, y.2.2.map (f 0))
  | none, none => none

/-- provenance of an output block -/
def FromAB [Zero α] (f : α → α → α) (as bs : List (KB α)) (o : List Nat × Blk α) : Prop :=
  (∃ x ∈ as, o = (x.2.1, x.2.2.map (fun v => f v 0))) ∨ (∃ y ∈ bs, o = (y.2.1, y.2.2.map (f 0)))
  ∨ (∃ x ∈ as, ∃ y ∈ bs, x.1 = y.1 ∧ o = (x.2.1, Dense.zipWith f x.2.2 y.2.2))

theorem FromAB.mono [Zero α] {f : α → α → α} {as as' bs bs' : List (KB α)} {o : List Nat × Blk α}
    (h : FromAB f as bs o) (ha : ∀ x ∈ as, x ∈ as') (hb : ∀ y ∈ bs, y ∈ bs') : FromAB f as' bs' o := by
  rcases h with ⟨x, hx, e⟩ | ⟨y, hy, e⟩ | ⟨x, hx, y, hy, e⟩
  · exact Or.inl ⟨x, ha x hx, e⟩
  · exact Or.inr (Or.inl ⟨y, hb y hy, e⟩)
  · exact Or.inr (Or.inr ⟨x, ha x hx, y, hb y hy, e⟩)

theorem mergeGo_mem [Zero α] (f : α → α → α) (as bs : List (KB α)) :
    ∀ o ∈ mergeGo f as bs, FromAB f as bs o := by
  fun_induction mergeGo f as bs with
  | case1 => intro o ho; simp at ho
  | case2 b bs ih =>
    intro o ho
    rcases List.mem_cons.1 ho with rfl | ho
    · exact Or.inr (Or.inl ⟨b, by simp, rfl⟩)
    · exact (ih o ho).mono (fun x hx => hx) (fun y hy => List.mem_cons_of_mem _ hy)
  | case3 a as ih =>
    intro o ho
    rcases List.mem_cons.1 ho with rfl | ho
    · exact Or.inl ⟨a, by simp, rfl⟩
    · exact (ih o ho).mono (fun x hx => List.mem_cons_of_mem _ hx) (fun y hy => hy)
  | case4 a as b bs h ih =>
    intro o ho
    rcases List.mem_cons.1 ho with rfl | ho
    · exact Or.inr (Or.inr ⟨a, by simp, b, by simp, h, rfl⟩)
    · exact (ih o ho).mono (fun x hx => List.mem_cons_of_mem _ hx) (fun y hy => List.mem_cons_of_mem _ hy)
  | case5 a as b bs h1 h2 ih =>
    intro o ho
    rcases List.mem_cons.1 ho with rfl | ho
    · exact Or.inr (Or.inl ⟨b, by simp, rfl⟩)
    · exact (ih o ho).mono (fun x hx => hx) (fun y hy => List.mem_cons_of_mem _ hy)
  | case6 a as b bs h1 h2 ih =>
    intro o ho
    rcases List.mem_cons.1 ho with rfl | ho
    · exact Or.inl ⟨a, by simp, rfl⟩
    · exact (ih o ho).mono (fun x hx => List.mem_cons_of_mem _ hx) (fun y hy => hy)

/-- every output row is a row of one of the inputs -/
theorem mergeGo_mem_row [Zero α] (f : α → α → α) (as bs : List (KB α)) (o : List Nat × Blk α)
    (ho : o ∈ mergeGo f as bs) : (∃ x ∈ as, o.1 = x.2.1) ∨ (∃ y ∈ bs, o.1 = y.2.1) := by
  rcases mergeGo_mem f as bs o ho with ⟨x, hx, e⟩ | ⟨y, hy, e⟩ | ⟨x, hx, y, hy, _, e⟩
  · exact Or.inl ⟨x, hx, by rw [e]⟩
  · exact Or.inr ⟨y, hy, by rw [e]⟩
  · exact Or.inl ⟨x, hx, by rw [e]⟩

theorem find?_cons_pos' {β} (p : β → Bool) (x : β) (l : List β) (h : p x = true) :
    (x :: l).find? p = some x := by simp [h]

theorem find?_cons_neg' {β} (p : β → Bool) (x : β) (l : List β) (h : ¬ p x = true) :
    (x :: l).find? p = l.find? p := by simp [h]

/-- a row whose key is below all keys of a list is not in the list -/
theorem find?_none_of_lt (key : List Nat → Nat) (q : List Nat) (k : Nat) (l : List (KB α))
    (hl : ∀ x ∈ l, x.1 = key x.2.1) (hk : key q = k) (hlt : ∀ x ∈ l, k < x.1) :
    l.find? (fun x => x.2.1 == q) = none := by
  refine List.find?_eq_none.2 (fun x hx hpx => ?_)
  have e : x.2.1 = q := eq_of_beq hpx
  have h1 := hl x hx
  have h2 := hlt x hx
  rw [e, hk] at h1
  omega

/-- the block found in the output for row `q` -/
theorem mergeGo_find [Zero α] (f : α → α → α) (key : List Nat → Nat) (P : List Nat → Prop)
    (hinj : ∀ r s, P r → P s → key r = key s → r = s) (q : List Nat) (as bs : List (KB α))
    (hA : ∀ x ∈ as, P x.2.1 ∧ x.1 = key x.2.1) (hB : ∀ y ∈ bs, P y.2.1 ∧ y.1 = key y.2.1)
    (hsa : as.Pairwise (fun x y => x.1 < y.1)) (hsb : bs.Pairwise (fun x y => x.1 < y.1)) :
    (mergeGo f as bs).find? (fun o => o.1 == q)
      = mcomb f q (as.find? (fun x => x.2.1 == q)) (bs.find? (fun y => y.2.1 == q)) := by
  fun_induction mergeGo f as bs with
  | case1 => rfl
  | case2 b bs ih =>
    have ih' := ih (fun _ h => nomatch h) (fun y hy => hB y (List.mem_cons_of_mem _ hy)) List.Pairwise.nil
      (List.pairwise_cons.1 hsb).2
    by_cases hq : (b.2.1 == q) = true
    · have e : b.2.1 = q := eq_of_beq hq
      rw [find?_cons_pos' _ _ _ (by exact hq), find?_cons_pos' (fun y : KB α => y.2.1 == q) b bs hq, e]
      rfl
    · rw [find?_cons_neg' _ _ _ (by exact hq), find?_cons_neg' (fun y : KB α => y.2.1 == q) b bs hq]
      exact ih'
  | case3 a as ih =>
    have ih' := ih (fun x hx => hA x (List.mem_cons_of_mem _ hx)) (fun _ h => nomatch h)
      (List.pairwise_cons.1 hsa).2 List.Pairwise.nil
    by_cases hq : (a.2.1 == q) = true
    · have e : a.2.1 = q := eq_of_beq hq
      rw [find?_cons_pos' _ _ _ (by exact hq), find?_cons_pos' (fun y : KB α => y.2.1 == q) a as hq, e]
      rfl
    · rw [find?_cons_neg' _ _ _ (by exact hq), find?_cons_neg' (fun y : KB α => y.2.1 == q) a as hq]
      exact ih'
  | case4 a as b bs h ih =>
    have ih' := ih (fun x hx => hA x (List.mem_cons_of_mem _ hx)) (fun y hy => hB y (List.mem_cons_of_mem _ hy))
      (List.pairwise_cons.1 hsa).2 (List.pairwise_cons.1 hsb).2
    have pa := hA a (by simp)
    have pb := hB b (by simp)
    have hrow : a.2.1 = b.2.1 := hinj _ _ pa.1 pb.1 (by rw [← pa.2, ← pb.2, h])
    by_cases hq : (a.2.1 == q) = true
    · have hq' : (b.2.1 == q) = true := by rw [← hrow]; exact hq
      have e : a.2.1 = q := eq_of_beq hq
      rw [find?_cons_pos' _ _ _ (by exact hq), find?_cons_pos' (fun y : KB α => y.2.1 == q) a as hq,
        find?_cons_pos' (fun y : KB α => y.2.1 == q) b bs hq', e]
      rfl
    · have hq' : ¬ (b.2.1 == q) = true := by rw [← hrow]; exact hq
      rw [find?_cons_neg' _ _ _ (by exact hq), find?_cons_neg' (fun y : KB α => y.2.1 == q) a as hq,
        find?_cons_neg' (fun y : KB α => y.2.1 == q) b bs hq']
      exact ih'
  | case5 a as b bs h1 h2 ih =>
    have ih' := ih hA (fun y hy => hB y (List.mem_cons_of_mem _ hy)) hsa (List.pairwise_cons.1 hsb).2
    by_cases hq : (b.2.1 == q) = true
    · have e : b.2.1 = q := eq_of_beq hq
      have hnone : (a :: as).find? (fun x => x.2.1 == q) = none := by
        refine find?_none_of_lt key q b.1 (a :: as) (fun x hx => (hA x hx).2) ?_ ?_
        · rw [← e]; exact (hB b (by simp)).2.symm
        · intro x hx
          rcases List.mem_cons.1 hx with rfl | hx
          · exact h2
          · have := (List.pairwise_cons.1 hsa).1 x hx
            omega
      rw [find?_cons_pos' _ _ _ (by exact hq), find?_cons_pos' (fun y : KB α => y.2.1 == q) b bs hq, hnone, e]
      rfl
    · rw [find?_cons_neg' _ _ _ (by exact hq), find?_cons_neg' (fun y : KB α => y.2.1 == q) b bs hq]
      exact ih'
  | case6 a as b bs h1 h2 ih =>
    have ih' := ih (fun x hx => hA x (List.mem_cons_of_mem _ hx)) hB (List.pairwise_cons.1 hsa).2 hsb
    by_cases hq : (a.2.1 == q) = true
    · have e : a.2.1 = q := eq_of_beq hq
      have hnone : (b :: bs).find? (fun x => x.2.1 == q) = none := by
        refine find?_none_of_lt key q a.1 (b :: bs) (fun x hx => (hB x hx).2) ?_ ?_
        · rw [← e]; exact (hA a (by simp)).2.symm
        · intro x hx
          rcases List.mem_cons.1 hx with rfl | hx
          · omega
          · have := (List.pairwise_cons.1 hsb).1 x hx
            omega
      rw [find?_cons_pos' _ _ _ (by exact hq), find?_cons_pos' (fun y : KB α => y.2.1 == q) a as hq, hnone, e]
      rfl
    · rw [find?_cons_neg' _ _ _ (by exact hq), find?_cons_neg' (fun y : KB α => y.2.1 == q) a as hq]
      exact ih'

/-- lower bound for the keys of the output rows -/
theorem mergeGo_lb [Zero α] (f : α → α → α) (key : List Nat → Nat) (as bs : List (KB α))
    (hA : ∀ x ∈ as, x.1 = key x.2.1) (hB : ∀ y ∈ bs, y.1 = key y.2.1) (k : Nat)
    (ha : ∀ x ∈ as, k < x.1) (hb : ∀ y ∈ bs, k < y.1) : ∀ o ∈ mergeGo f as bs, k < key o.1 := by
  intro o ho
  rcases mergeGo_mem_row f as bs o ho with ⟨x, hx, e⟩ | ⟨y, hy, e⟩
  · rw [e, ← hA x hx]; exact ha x hx
  · rw [e, ← hB y hy]; exact hb y hy

/-- the keys of the output rows are strictly increasing -/
theorem mergeGo_sorted [Zero α] (f : α → α → α) (key : List Nat → Nat) (as bs : List (KB α))
    (hA : ∀ x ∈ as, x.1 = key x.2.1) (hB : ∀ y ∈ bs, y.1 = key y.2.1)
    (hsa : as.Pairwise (fun x y => x.1 < y.1)) (hsb : bs.Pairwise (fun x y => x.1 < y.1)) :
    (mergeGo f as bs).Pairwise (fun o o' => key o.1 < key o'.1) := by
  fun_induction mergeGo f as bs with
  | case1 => exact List.Pairwise.nil
  | case2 b bs ih =>
    have hB' : ∀ y ∈ bs, y.1 = key y.2.1 := fun y hy => hB y (List.mem_cons_of_mem _ hy)
    refine List.pairwise_cons.2 ⟨?_, ih (fun _ h => nomatch h) hB' List.Pairwise.nil (List.pairwise_cons.1 hsb).2⟩
    have := mergeGo_lb f key [] bs (fun _ h => nomatch h) hB' b.1 (fun _ h => nomatch h)
      (List.pairwise_cons.1 hsb).1
    intro o ho
    have h1 := this o ho
    rw [hB b (by simp)] at h1
    exact h1
  | case3 a as ih =>
    have hA' : ∀ x ∈ as, x.1 = key x.2.1 := fun x hx => hA x (List.mem_cons_of_mem _ hx)
    refine List.pairwise_cons.2 ⟨?_, ih hA' (fun _ h => nomatch h) (List.pairwise_cons.1 hsa).2 List.Pairwise.nil⟩
    have := mergeGo_lb f key as [] hA' (fun _ h => nomatch h) a.1 (List.pairwise_cons.1 hsa).1
      (fun _ h => nomatch h)
    intro o ho
    have h1 := this o ho
    rw [hA a (by simp)] at h1
    exact h1
  | case4 a as b bs h ih =>
    have hA' : ∀ x ∈ as, x.1 = key x.2.1 := fun x hx => hA x (List.mem_cons_of_mem _ hx)
    have hB' : ∀ y ∈ bs, y.1 = key y.2.1 := fun y hy => hB y (List.mem_cons_of_mem _ hy)
    refine List.pairwise_cons.2 ⟨?_, ih hA' hB' (List.pairwise_cons.1 hsa).2 (List.pairwise_cons.1 hsb).2⟩
    have := mergeGo_lb f key as bs hA' hB' a.1 (List.pairwise_cons.1 hsa).1
      (fun y hy => by rw [h]; exact (List.pairwise_cons.1 hsb).1 y hy)
    intro o ho
    have h1 := this o ho
    rw [hA a (by simp)] at h1
    exact h1
  | case5 a as b bs h1 h2 ih =>
    have hB' : ∀ y ∈ bs, y.1 = key y.2.1 := fun y hy => hB y (List.mem_cons_of_mem _ hy)
    refine List.pairwise_cons.2 ⟨?_, ih hA hB' hsa (List.pairwise_cons.1 hsb).2⟩
    have := mergeGo_lb f key (a :: as) bs hA hB' b.1 (fun x hx => by
        rcases List.mem_cons.1 hx with rfl | hx
        · exact h2
        · have := (List.pairwise_cons.1 hsa).1 x hx
          omega) (List.pairwise_cons.1 hsb).1
    intro o ho
    have h3 := this o ho
    rw [hB b (by simp)] at h3
    exact h3
  | case6 a as b bs h1 h2 ih =>
    have hA' : ∀ x ∈ as, x.1 = key x.2.1 := fun x hx => hA x (List.mem_cons_of_mem _ hx)
    refine List.pairwise_cons.2 ⟨?_, ih hA' hB (List.pairwise_cons.1 hsa).2 hsb⟩
    have := mergeGo_lb f key as (b :: bs) hA' hB a.1 (List.pairwise_cons.1 hsa).1 (fun y hy => by
        rcases List.mem_cons.1 hy with rfl | hy
        · omega
        · have := (List.pairwise_cons.1 hsb).1 y hy
          omega)
    intro o ho
    have h3 := this o ho
    rw [hA a (by simp)] at h3
    exact h3

/-- strictly increasing keys: the rows are pairwise distinct -/
theorem nodup_of_keys {β} (key : List Nat → Nat) (l : List (List Nat × β))
    (h : l.Pairwise (fun o o' => key o.1 < key o'.1)) : (l.map Prod.fst).Nodup := by
  rw [List.nodup_iff_pairwise_ne, List.pairwise_map]
  exact h.imp (fun hlt e => by rw [e] at hlt; exact Nat.lt_irrefl _ hlt)

end TenpyModel.Core.Arr
