import TenpyModel.C01.B_Outer
import TenpyModel.C01.B_Inner
import TenpyModel.C01.B_Trace
import TenpyModel.C01.B_Combine
import TenpyModel.C01.B_Dot
import TenpyModel.C01.B_Charge
import TenpyModel.C01.Props
/-!
C01 part B — contraction-type operations and leg fusion of the block-sparse tensor model `Arr` agree with the dense
specification `Dense` (numpy semantics), for every commutative (semi)ring of scalars and all tensors satisfying the
decidable storage invariant `Arr.WF` (`Core/ArrWF.lean`) whenever the model's own argument checks pass
(`op … = .ok r`). Helper lemmas: `C01/B_*.lean` (namespace `TenpyModel.C01B`); what is open: notes/C01.md.
-/
open TenpyModel.Core TenpyModel.C01B

/-! ## outer -/

/-- `outer(a, b)`: `to_ndarray(outer(a, b))[i ++ j] = a[i] * b[j]`, i.e. the dense form is `np.multiply.outer` of the
dense forms; the total charge is the (reduced) sum, the legs are concatenated, the labels are those of `a` and `b`
with colliding ones dropped. -/
theorem C01_toDense_outer {α : Type} [CommSemiring α] (a b r : Arr α) (ha : a.WF) (hb : b.WF)
    (h : a.outer b = .ok r) :
    r.toDense = Dense.outer a.toDense b.toDense
    ∧ (∀ i j, InRange i a.shape → InRange j b.shape → r.entry (i ++ j) = a.entry i * b.entry j)
    ∧ r.qtotal = makeValid a.mods (cadd a.qtotal b.qtotal)
    ∧ r.legs = a.legs ++ b.legs
    ∧ r.labels = Label.dropDuplicate a.labels b.labels := by
  obtain ⟨h1, _, h3, h4, _⟩ := outer_ok a b r h
  exact ⟨outer_toDense a b r (W.of ha) (W.of hb) h, outer_entry a b r (W.of ha) (W.of hb) h, h3, h1, h4⟩

namespace C01ExampleB
open C01Example
/-- a second tensor over the same charges: one leg, two stored blocks in unsorted order, `qtotal = (1, 2)` -/
def legC : Leg := ⟨[1, 3], [0, 1, 2, 4], [[1, 2], [0, 0], [1, 2]], 1, false, false⟩
def v : Arr Int :=
  { mods := [1, 3], legs := [.plain legC], qtotal := [1, 2], labels := [some "b*"],
    qdata := [[2], [0]], data := [⟨[2], [3, 4]⟩, ⟨[1], [2]⟩], qdataSorted := false }
/-- a tensor contractible with `t` leg by leg (conjugate legs), both admissible blocks stored (the duplicate sector
twice), block list not sorted, `qtotal = (1, 2)` -/
def u : Arr Int :=
  { mods := [1, 3], legs := [.plain legA.conj, .plain legB.conj], qtotal := [1, 2], labels := [some "a*", some "b"],
    qdata := [[2, 0], [0, 0]], data := [⟨[1, 2], [2, 3]⟩, ⟨[1, 2], [1, 1]⟩], qdataSorted := false }
/-- a square tensor: legs `legA`, `legA.conj`; blocks (0,0), (2,0) [duplicate sector off the diagonal], (1,1) -/
def m : Arr Int :=
  { mods := [1, 3], legs := [.plain legA, .plain legA.conj], qtotal := [0, 0], labels := [some "p", some "p*"],
    qdata := [[0, 0], [2, 0], [1, 1]], data := [⟨[1, 1], [7]⟩, ⟨[1, 1], [100]⟩, ⟨[2, 2], [1, 2, 3, 4]⟩],
    qdataSorted := false }
end C01ExampleB

example : C01Example.t.WF ∧ C01ExampleB.v.WF ∧ C01ExampleB.u.WF ∧ C01ExampleB.m.WF := by decide
example : C01ExampleB.u.ChargeRule ∧ C01Example.t.ChargeRule ∧ C01ExampleB.m.ChargeRule := by decide
example : (C01Example.t.outer C01ExampleB.v).toOption.map (fun r => (r.toDense, r.qtotal, r.qdata))
    = some (Dense.outer C01Example.t.toDense C01ExampleB.v.toDense, [0, 0], [[2, 0, 2], [2, 0, 0]]) := by decide
example : (C01Example.t.outer C01ExampleB.v).toOption.map (·.labels) = some [some "a", none, none] := by decide

/-! ## inner

Full statement (open part in brackets):

  theorem C01_toDense_inner (st) (hst : st 0 = 0) (a b : Arr α) (ha : a.WF) (hb : b.WF)
      [ha' : a.ChargeRule] [hb' : b.ChargeRule] [legs valid over `a.mods`] (axes : InnerAxes) (doConj : Bool) (x : α)
      (h : Arr.inner st a b axes doConj = .ok x) :
      x = Dense.inner (if doConj then (a'.toDense).map st else a'.toDense) b.toDense
  with `a'` = `a` transposed as `axes` says.

Proved: `axes = 'range'` (no transposition; the transposed case is the composition with part A's
`C01_toDense_transpose` applied to the operand `a'` on which `_inner_worker` is called), with the charge pre-check of
`_inner_worker` (`qtotal_b ± qtotal_a ≠ 0 → return 0`) covered by the hypothesis `hch`: "if the check fires, no block
index is stored in both tensors" — a consequence of the charge rule (`Arr.ChargeRule`, property C02) for
contractible legs, not derived here.
-/

/-- `inner(a, b, axes='range', do_conj)` = `Σ_i st?(a[i]) * b[i]`: the pairing of blocks through
`_iter_common_sorted` on F-style keys (sorted by key first unless `_qdata_sorted` says they are) yields exactly the
block indices stored in both tensors. -/
theorem C01_toDense_inner_partial {α : Type} [CommSemiring α] (st : α → α) (hst : st 0 = 0) (a b : Arr α)
    (ha : a.WF) (hb : b.WF) (doConj : Bool) (x : α) (h : Arr.inner st a b .range doConj = .ok x)
    (hch : makeValid a.mods (if doConj then csub b.qtotal a.qtotal else cadd b.qtotal a.qtotal) ≠ czero a.mods.length →
      ∀ q ∈ a.qdata, q ∉ b.qdata) :
    x = Dense.inner (if doConj then a.toDense.map st else a.toDense) b.toDense := by
  obtain ⟨hr, _, hok, hx⟩ := inner_range_ok st a b doConj x h
  rw [hx]
  exact innerWorker_eq st hst a b (W.of ha) (W.of hb) (slices_of_inner_checks a b doConj hr hok) doConj hch

/-- `inner(a, b, axes='range', do_conj=False)` = `Σ_i a[i] * b[i]`, **without** side hypothesis: for tensors obeying
the charge rule (`Arr.ChargeRule`: every stored block has the total charge — what C02 proves to be invariant) whose
legs carry charge rows of the width of `chinfo` (`LegsValid`, part of `test_sanity`), the charge pre-check of
`_inner_worker` can only fire when no block index is stored in both operands, so returning 0 is right. -/
theorem C01_toDense_inner {α : Type} [CommSemiring α] (a b : Arr α) (ha : a.WF) (hb : b.WF)
    (hca : a.ChargeRule) (hcb : b.ChargeRule) (hvb : LegsValid b) (x : α)
    (h : Arr.inner id a b .range false = .ok x) : x = Dense.inner a.toDense b.toDense := by
  obtain ⟨hr, hm, hok, _⟩ := inner_range_ok id a b false x h
  have := C01_toDense_inner_partial id rfl a b ha hb false x h
    (hch_of_chargeRule a b (W.of hb) hm hr (by simpa using hok) hca hcb hvb)
  simpa using this

/-- the worker itself (as called by `inner` after its transposition and by `tensordot` for a full contraction) -/
theorem C01_innerWorker {α : Type} [CommSemiring α] (st : α → α) (hst : st 0 = 0) (a b : Arr α)
    (ha : a.WF) (hb : b.WF) (hss : a.lcs.map Leg.slices = b.lcs.map Leg.slices) (doConj : Bool)
    (hch : makeValid a.mods (if doConj then csub b.qtotal a.qtotal else cadd b.qtotal a.qtotal) ≠ czero a.mods.length →
      ∀ q ∈ a.qdata, q ∉ b.qdata) :
    Arr.innerWorker st a b doConj = Dense.inner (if doConj then a.toDense.map st else a.toDense) b.toDense :=
  innerWorker_eq st hst a b (W.of ha) (W.of hb) hss doConj hch

/-- non-vacuity: all hypotheses hold for the example pair (`t` has a missing block, `u` an unsorted block list), the
argument checks of `inner` pass, and the theorem computes the value -/
example : Arr.inner id C01Example.t C01ExampleB.u .range false = .ok (-11) := by
  have h : Arr.inner id C01Example.t C01ExampleB.u .range false
      = .ok (Arr.innerWorker id C01Example.t C01ExampleB.u false) := rfl
  rw [h, C01_innerWorker id rfl C01Example.t C01ExampleB.u (by decide) (by decide) (by decide) false (by decide)]
  decide
/-- the unconditional theorem applied to the example pair (charge rule and leg validity are `decide`d) -/
example : Arr.innerWorker id C01Example.t C01ExampleB.u false = -11 := by
  have h : Arr.inner id C01Example.t C01ExampleB.u .range false
      = .ok (Arr.innerWorker id C01Example.t C01ExampleB.u false) := rfl
  rw [C01_toDense_inner C01Example.t C01ExampleB.u (by decide) (by decide) (by decide) (by decide) (by decide) _ h]
  decide
/-- the hypothesis `hch` holds in the example because the check does not fire -/
example : makeValid C01Example.t.mods (cadd C01ExampleB.u.qtotal C01Example.t.qtotal) = czero 2 := by decide

/-! ## trace

Full statement: `trace(a, leg1, leg2) = .ok (.arr r) → r.toDense = Dense.trace a.toDense ax1 ax2` (+ labels, legs,
`qtotal`) for tensors of rank > 2 — open (dictionary accumulation of the partial traces per remaining block index).
Proved: the branch for rank 2, which returns the scalar `Σ_t a[t, t]`.
-/

/-- `trace` of a rank-2 tensor: the sum over the stored diagonal blocks of their traces is `Σ_t a[t, t]`
(= the sum of `np.trace(to_ndarray(a))`); the two legs have the same length -/
theorem C01_toDense_trace_partial {α : Type} [CommSemiring α] (a : Arr α) (ha : a.WF) (l1 l2 : Ax) (v : Val α)
    (h : a.trace l1 l2 = .ok v) (hr : a.rank = 2) :
    v = .scalar (((List.range (a.shape.getD 0 0)).map (fun t => a.entry [t, t])).sum)
    ∧ v = .scalar (Dense.sum (Dense.trace a.toDense 0 1).vals)
    ∧ a.shape.getD 0 0 = a.shape.getD 1 0 :=
  trace_scalar a (W.of ha) l1 l2 v h hr

example : (match C01ExampleB.m.trace (.lbl "p") (.lbl "p*") with | .ok (.scalar x) => some x | _ => none)
    = some (Dense.sum (Dense.trace C01ExampleB.m.toDense 0 1).vals) := by decide
example : Dense.sum (Dense.trace C01ExampleB.m.toDense 0 1).vals = 12 := by decide

/-! ## combine_legs (C06: "the pipe's index map agrees with where tensor entries are placed")

Full statement: for `combine_legs(a, groups, new_axes, pipes)` with any number of groups and spectator legs,
`entry r (…, map_incoming_flat_g(idx_g), …) = entry a (…, idx_g, …)` (standard form, then through the transposition
step via part A's transpose theorem).
Proved: the standard-form call that fuses **all** legs of `a` into one pipe (any number of legs, any outgoing
direction, sort / bunch on or off; no-block, one-block and `_combine_legs_worker` branches). Spectator legs and
several groups add only index bookkeeping (`combineRow`, `reshape` with outer factors) — open.
-/

/-- all legs fused into one `LegPipe`: the entry of the result at `map_incoming_flat(idx)` is the entry of `a` at
`idx`, for every in-range index tuple; `map_incoming_flat` is a bijection onto the indices of the new leg
(`C06_mapIncomingFlat_bijective`), so this determines the result completely. Total charge, legs as documented. -/
theorem C01_combine_places_partial {α : Type} [Zero α] (a r : Arr α) (ha : a.WF) (qconj : Int) (sort bunch : Bool)
    (labels : List String)
    (h : a.combineStd [List.range a.rank] [0] [ALeg.mkPipe a.legs qconj sort bunch] labels = .ok r) :
    (∀ idx, InRange idx a.shape →
      ∃ f, (Pipe.init a.lcs qconj sort bunch).mapIncomingFlat (idx.map Int.ofNat) = some f
        ∧ f < (Pipe.init a.lcs qconj sort bunch).leg.indLen ∧ r.entry [f] = a.entry idx)
    ∧ r.legs = [ALeg.mkPipe a.legs qconj sort bunch]
    ∧ r.shape = [(Pipe.init a.lcs qconj sort bunch).leg.indLen]
    ∧ r.qtotal = makeValid a.mods a.qtotal := by
  have hl := (combineStd_all a (W.of ha) (Pipe.init a.lcs qconj sort bunch) a.legs labels r h)
  refine ⟨fun idx hi => combine_all_entry a (W.of ha) qconj sort bunch labels r h idx hi, hl.1, ?_, hl.2.2.1⟩
  simp [Arr.shape, Arr.lcs, hl.1, ALeg.leg]

namespace C01ExampleB
/-- `t.combine_legs([0, 1], qconj=+1)` through the public entry point -/
def tc : Except Err (Arr Int) := C01Example.t.combineLegs [[.idx 0, .idx 1]] none none [some 1]
end C01ExampleB

/-- the public `combine_legs` call is the standard-form call of the theorem -/
example : (C01ExampleB.tc.toOption.map (fun r => (r.qdata, r.data, r.qtotal)))
    = ((C01Example.t.combineStd [List.range 2] [0] [ALeg.mkPipe C01Example.t.legs 1 true true] ["a", "b*"]).toOption.map
        (fun r => (r.qdata, r.data, r.qtotal))) := by decide
/-- every entry is where `map_incoming_flat` says (the pipe is sorted: the map is not the row-major reshape) -/
example : (match C01ExampleB.tc with
    | .ok r => (Dense.allIdx C01Example.t.shape).all (fun idx =>
        match (Pipe.init C01Example.t.lcs 1 true true).mapIncomingFlat (idx.map Int.ofNat) with
        | some f => r.entry [f] == C01Example.t.entry idx
        | none => false)
    | .error _ => false) = true := by decide
example : (Pipe.init C01Example.t.lcs 1 true true).mapIncomingFlat [3, 1] = some 5
    ∧ C01ExampleB.tc.toOption.map (fun r => r.toDense) = some ⟨[12], [0, 0, 0, 0, 5, -7, 0, 0, 0, 0, 0, 0]⟩ := by decide

/-! ## tensordot

Full statement (after `_tensordot_transpose_axes`, i.e. for `axes = k`: the last `k` legs of `a` with the first `k`
legs of `b`; the general `axes` pair is the composition with part A's transpose theorem):

  theorem C01_toDense_tensordot (a b : Arr α) (ha : a.WF) (hb : b.WF) [charge rule for both] (k : Nat) (r : Arr α)
      (h : Arr.tensordot cy a b (.int k) = .ok (.arr r)) :
      r.toDense = Dense.tensordot a.toDense b.toDense k        -- (a ⋅ₖ b)[i ++ j] = Σ_c a[i ++ c] * b[c ++ j]

Proved below: every branch of `tensordot` except `_tensordot_worker` and the one-block shortcut —
full contraction (→ `_inner_worker`, scalar result), an operand without stored blocks, `k = 0` (→ `outer`).
Open: `_tensordot_worker` (ingredients available in `C01/B_*.lean`: `sum_blocks` — the sum over contracted indices
block by block —, `fKey_lt/fKey_inj`, `commonSorted_eq` — the common contracted keys —, `groupRuns_spec` — the groups
of equal keep-rows —, `get_tensordot`; missing: their assembly over the lexsorted `(key, keep-row)` lists and the
lemma that the charge filter `a_charges == b_charges_match` only skips pairs without common contracted key, which
needs the charge rule) and the `stored_blocks == 1` shortcut.
-/

/-- `tensordot(a, b, axes=k)`, special-case branches: result dense = `np.tensordot` of the dense forms; legs, total
charge and labels as documented. (Charge rule and `LegsValid` are only used by the full contraction.) -/
theorem C01_toDense_tensordot_partial {α : Type} [CommSemiring α] (cy : Bool) (a b : Arr α) (ha : a.WF) (hb : b.WF)
    (hca : a.ChargeRule) (hcb : b.ChargeRule) (hvb : LegsValid b)
    (k : Nat) (v : Val α) (h : Arr.tensordot cy a b (.int (k : Int)) = .ok v) :
    (k = a.rank ∧ k = b.rank → v = .scalar (Dense.inner a.toDense b.toDense))
    ∧ (¬(k = a.rank ∧ k = b.rank) → (a.storedBlocks = 0 ∨ b.storedBlocks = 0) →
        ∃ r, v = .arr r ∧ r.toDense = Dense.tensordot a.toDense b.toDense k
          ∧ r.legs = a.legs.take (a.rank - k) ++ b.legs.drop k
          ∧ r.qtotal = makeValid a.mods (cadd a.qtotal b.qtotal)
          ∧ r.labels = Label.dropDuplicate (a.labels.take (a.rank - k)) (b.labels.drop k))
    ∧ (¬(k = a.rank ∧ k = b.rank) → ¬(a.storedBlocks = 0 ∨ b.storedBlocks = 0) →
        ¬(a.storedBlocks = 1 ∧ b.storedBlocks = 1) → k = 0 →
        ∃ r, v = .arr r ∧ r.toDense = Dense.tensordot a.toDense b.toDense k
          ∧ r.legs = a.legs ++ b.legs
          ∧ r.qtotal = makeValid a.mods (cadd a.qtotal b.qtotal)
          ∧ r.labels = Label.dropDuplicate a.labels b.labels) := by
  obtain ⟨hm, hka, hkb, hc⟩ := tensordot_checks cy a b k v h
  refine tensordot_special cy a b (W.of ha) (W.of hb) k v h (fun hfull => ?_)
  have hr : a.rank = b.rank := by omega
  refine hch_of_chargeRule a b (W.of hb) hm hr ?_ hca hcb hvb
  have e1 : a.lcs.drop (a.rank - k) = a.lcs := by rw [hfull.1]; simp
  have e2 : b.lcs.take k = b.lcs := List.take_of_length_le (by rw [lcs_length]; omega)
  rw [e1, e2] at hc
  exact hc

namespace C01ExampleB
open C01Example
/-- no stored block; first leg contractible with the last leg of `t` -/
def w : Arr Int :=
  { mods := [1, 3], legs := [.plain legB.conj, .plain legC], qtotal := [0, 1], labels := [some "b", some "c"],
    qdata := [], data := [], qdataSorted := true }
end C01ExampleB

example : C01ExampleB.w.WF := by decide
/-- operand without blocks, one contracted leg -/
example : (match Arr.tensordot false C01Example.t C01ExampleB.w (.int 1) with
    | .ok (.arr r) => some (r.toDense, r.qtotal) | _ => none)
    = some (Dense.tensordot C01Example.t.toDense C01ExampleB.w.toDense 1, [-1, 2]) := by decide
/-- `k = 0` -/
example : (match Arr.tensordot false C01Example.t C01ExampleB.v (.int 0) with
    | .ok (.arr r) => some r.toDense | _ => none)
    = some (Dense.tensordot C01Example.t.toDense C01ExampleB.v.toDense 0) := by decide
/-- full contraction: the hypotheses hold and the theorem gives the value -/
example : ∃ x, Arr.tensordot false C01Example.t C01ExampleB.u (.int 2) = .ok (.scalar x) ∧ x = -11 := by
  refine ⟨_, rfl, ?_⟩
  have := C01_innerWorker id rfl C01Example.t C01ExampleB.u (by decide) (by decide) (by decide) false (by decide)
  simp only [Bool.false_eq_true, if_false] at this
  rw [this]
  decide
example : LegsValid C01ExampleB.u ∧ LegsValid C01ExampleB.w ∧ LegsValid C01ExampleB.v := by decide
