import TenpyModel.C01.A_Transpose2
/-!
C01 part A — ingredients of the binary operations other than the merge itself: `_transpose_same_labels`,
well-formedness of block-wise mapped tensors, `np.transpose` commutes with entry-wise maps.
-/
namespace TenpyModel.Core
open Arr (permuteList)

/-- `get_leg_index` only looks at the labels and the rank -/
def axIndex (labels : List Label) (rank : Nat) : Ax → Except Err Nat
  | .lbl s =>
    let i := labels.idxOf (some s)
    if i < labels.length then .ok i else .error .keyError
  | .idx i =>
    let i' := if i < 0 then i + rank else i
    if i' ≥ rank ∨ i' < 0 then .error .valueError else .ok i'.toNat

theorem Arr.getLegIndex_eq_axIndex {α : Type} (a : Arr α) (x : Ax) : a.getLegIndex x = axIndex a.labels a.rank x := by
  cases x <;> rfl

/-- the permutation `_transpose_same_labels(other)` applies, as a function of the two label lists only -/
def sameLabelsAx (labels : List Label) (rank : Nat) (other : List Label) : List Nat :=
  if labels = other then List.range rank
  else if labels.contains none ∨ other.contains none then List.range rank
  else if labels.all (other.contains ·) ∧ other.all (labels.contains ·) then
    match (other.map (fun l => Ax.lbl (l.getD ""))).mapM (axIndex labels rank) with
    | .ok ax => if ax.length ≠ rank ∨ ax.eraseDups.length ≠ rank then List.range rank else ax
    | .error _ => List.range rank
  else List.range rank

namespace Dense
variable {α : Type}

theorem transpose_map [Zero α] (g : α → α) (hg : g 0 = 0) (d : Dense α) (axes : List Nat) :
    (d.map g).transpose axes = (d.transpose axes).map g := by
  rw [transpose_eq_ofFn, transpose_eq_ofFn, map_ofFn]
  show ofFn (permuteList d.shape axes 0) _ = ofFn (permuteList d.shape axes 0) _
  apply ofFn_congr
  intro idx
  have := get_map g 0 d (unperm axes d.shape.length idx)
  rw [hg] at this
  exact this

theorem zipWith_map_right (f : α → α → α) (g : α → α) (x y : Dense α) :
    Dense.zipWith f x (y.map g) = Dense.zipWith (fun u v => f u (g v)) x y := by
  unfold Dense.zipWith Dense.map
  simp only [List.zipWith_map_right]

end Dense

namespace Arr
variable {α : Type}

/-- block-wise maps keep the storage invariants -/
theorem WF_iunaryBlockwise (f : α → α) (a : Arr α) (ha : a.WF) : (a.iunaryBlockwise f).WF := by
  obtain ⟨h1, h2, h3, h4, h5, h6, h7⟩ := ha
  refine ⟨h1, ?_, h3, h4, h5, ?_, h7⟩
  · show a.qdata.length = (a.data.map _).length
    rw [List.length_map]; exact h2
  · intro rb hrb
    have hz : (a.iunaryBlockwise f).qdata.zip (a.iunaryBlockwise f).data
        = (a.qdata.zip a.data).map (fun rb => (rb.1, rb.2.map f)) := by
      show a.qdata.zip (a.data.map _) = _
      rw [List.zip_map_right]
      rfl
    rw [hz] at hrb
    obtain ⟨⟨r0, b0⟩, hrb0, rfl⟩ := List.mem_map.1 hrb
    obtain ⟨hs, hv⟩ := h6 (r0, b0) hrb0
    exact ⟨hs, by show (b0.vals.map f).length = _; rw [List.length_map]; exact hv⟩

theorem WF_noBlocks (a : Arr α) (ha : a.WF) : ({ a with qdata := [], data := [], qdataSorted := true } : Arr α).WF := by
  obtain ⟨h1, _, _, h4, _, _, _⟩ := ha
  refine ⟨h1, rfl, List.nodup_nil, h4, ?_, ?_, ?_⟩
  · intro r hr; simp at hr
  · intro rb hrb; simp at hrb
  · intro _; show isLexsorted [] = true; decide

theorem WF_iscalePrefactor [Mul α] [Zero α] [DecidableEq α] (a : Arr α) (s : α) (ha : a.WF) :
    (a.iscalePrefactor s).WF := by
  unfold iscalePrefactor
  split
  · exact WF_noBlocks a ha
  · exact WF_iunaryBlockwise _ a ha

theorem WF_conj (st : α → α) (a : Arr α) (ha : a.WF) : (a.conj st).WF := by
  have h := WF_iunaryBlockwise st a ha
  obtain ⟨h1, h2, h3, h4, h5, h6, h7⟩ := h
  have hl : (a.conj st).lcs = (a.iunaryBlockwise st).lcs.map Leg.conj := by
    show (a.legs.map ALeg.conj).map ALeg.leg = (a.legs.map ALeg.leg).map Leg.conj
    exact lcs_conj_map a.legs
  have hrank : (a.conj st).rank = (a.iunaryBlockwise st).rank := by
    show (a.legs.map ALeg.conj).length = a.legs.length
    rw [List.length_map]
  refine ⟨?_, h2, h3, ?_, ?_, ?_, h7⟩
  · show (a.labels.map _).length = _
    rw [List.length_map, hrank]; exact h1
  · intro l hl'
    rw [hl] at hl'
    obtain ⟨l0, hl0, rfl⟩ := List.mem_map.1 hl'
    exact h4 l0 hl0
  · intro r hr
    rw [hrank]
    refine ⟨(h5 r hr).1, ?_⟩
    intro k hk
    have := (h5 r hr).2 k hk
    have hlc : (a.conj st).lc k = ((a.iunaryBlockwise st).lc k).conj := by
      unfold lc
      show ((a.legs.map ALeg.conj).getD k default).leg = ((a.legs.getD k default).leg).conj
      rw [getD_map' ALeg.conj a.legs k default default hk, ALeg.conj_leg]
    rw [hlc]
    exact this
  · intro rb hrb
    obtain ⟨hs, hv⟩ := h6 rb hrb
    refine ⟨?_, hv⟩
    rw [hs, hl]
    -- block sizes do not see the direction of the legs
    have : ∀ (ls : List Leg) (q : List Nat), blockShapeOf (ls.map Leg.conj) q = blockShapeOf ls q := by
      intro ls
      induction ls with
      | nil => intro q; rfl
      | cons l ls ih =>
        intro q
        cases q with
        | nil => rfl
        | cons x xs =>
          show l.conj.blockSizes.getD x 0 :: blockShapeOf (ls.map Leg.conj) xs = l.blockSizes.getD x 0 :: blockShapeOf ls xs
          rw [ih xs]
          rfl
    exact (this _ _).symm

/-- `_transpose_same_labels(other_labels)`: returns either the tensor itself or a transposed copy; in both cases a
transposition by a permutation `ax` of the axes (the identity in the first case) -/
theorem transposeSameLabels_spec [Zero α] (b : Arr α) (other : List Label) (hb : b.WF) :
    ∃ ax : List Nat, IsPerm ax b.rank
      ∧ (b.transposeSameLabels other).1.toDense = b.toDense.transpose ax
      ∧ (b.transposeSameLabels other).1.legs = permuteList b.legs ax default
      ∧ (b.transposeSameLabels other).1.labels = permuteList b.labels ax none
      ∧ (b.transposeSameLabels other).1.qtotal = b.qtotal
      ∧ (b.transposeSameLabels other).1.WF
      ∧ ((b.transposeSameLabels other).2 = false → (b.transposeSameLabels other).1 = b ∧ ax = List.range b.rank) := by
  have hid : ∃ ax : List Nat, IsPerm ax b.rank ∧ b.toDense = b.toDense.transpose ax
      ∧ b.legs = permuteList b.legs ax default ∧ b.labels = permuteList b.labels ax none ∧ b.qtotal = b.qtotal
      ∧ b.WF ∧ ((false : Bool) = false → b = b ∧ ax = List.range b.rank) := by
    refine ⟨List.range b.rank, isPerm_range _, toDense_transpose_range b, (permuteList_range b.legs default).symm,
      ?_, rfl, hb, fun _ => ⟨rfl, rfl⟩⟩
    have := permuteList_range b.labels none
    rw [hb.1] at this
    exact this.symm
  unfold transposeSameLabels
  split
  · exact hid
  · split
    · exact hid
    · split
      · cases ht : b.transpose (some (other.map (fun l => Ax.lbl (l.getD "")))) with
        | error e => exact hid
        | ok t =>
          obtain ⟨ax, hp, _, _, h3, h4, h5, h6, _, h8, _⟩ := itranspose_spec b t _ hb ht
          exact ⟨ax, hp, h3, h4, h5, h6, h8, fun hh => by simp at hh⟩
      · exact hid

/-- `_transpose_same_labels` transposes by `sameLabelsAx` -/
theorem transposeSameLabels_ax [Zero α] (b : Arr α) (other : List Label) (hb : b.WF) :
    IsPerm (sameLabelsAx b.labels b.rank other) b.rank
      ∧ (b.transposeSameLabels other).1.toDense = b.toDense.transpose (sameLabelsAx b.labels b.rank other)
      ∧ (b.transposeSameLabels other).1.WF
      ∧ ((b.transposeSameLabels other).2 = false → (b.transposeSameLabels other).1 = b) := by
  have hid : IsPerm (List.range b.rank) b.rank ∧ b.toDense = b.toDense.transpose (List.range b.rank) ∧ b.WF
      ∧ ((false : Bool) = false → b = b) :=
    ⟨isPerm_range _, toDense_transpose_range b, hb, fun _ => rfl⟩
  unfold transposeSameLabels sameLabelsAx
  split
  · exact hid
  · split
    · exact hid
    · split
      · have hmap : (other.map (fun l => Ax.lbl (l.getD ""))).mapM (axIndex b.labels b.rank)
            = b.getLegIndices (other.map (fun l => Ax.lbl (l.getD ""))) := by
          unfold getLegIndices
          congr 1
        rw [hmap]
        cases hax : b.getLegIndices (other.map (fun l => Ax.lbl (l.getD ""))) with
        | error e =>
          have ht : b.transpose (some (other.map (fun l => Ax.lbl (l.getD "")))) = .error e := by
            simp only [transpose, copy, itranspose, hax, bind, Except.bind]
          rw [ht]
          exact hid
        | ok ax =>
          simp only
          by_cases hchk : ax.length ≠ b.rank ∨ ax.eraseDups.length ≠ b.rank
          · have ht : b.transpose (some (other.map (fun l => Ax.lbl (l.getD "")))) = .error .valueError := by
              simp only [transpose, copy, itranspose, hax, bind, Except.bind, hchk, if_true, throw, throwThe,
                MonadExceptOf.throw]
            rw [ht, if_pos hchk]
            exact hid
          · rw [if_neg hchk]
            cases ht : b.transpose (some (other.map (fun l => Ax.lbl (l.getD "")))) with
            | error e =>
              exfalso
              simp only [transpose, copy, itranspose, hax, bind, Except.bind, hchk, if_false, pure,
                Except.pure] at ht
              by_cases hid' : ax = List.range b.rank <;> simp [hid'] at ht
            | ok t =>
              obtain ⟨ax', hp, _, h2, h3, _, _, _, _, h8, _⟩ := itranspose_spec b t _ hb ht
              have := h2 _ rfl
              rw [hax] at this
              injection this with this
              subst this
              exact ⟨hp, h3, h8, fun hh => by simp at hh⟩
      · exact hid

end Arr
end TenpyModel.Core
