import TenpyModel.C01.B2_Comb6
/-!
C01 part B2 — part 7: the result of `combineStd` is well-formed (`Arr.WF`): legs of the right shape, rows in range,
blocks of the shape of their row, truthful `_qdata_sorted` claim.
-/
namespace TenpyModel.C01B2.Comb
open TenpyModel.Core TenpyModel.C01B

variable {α : Type}

/-- the groups of the worker are non-empty -/
theorem worker_nonempty (rows : List ((List Nat × List Nat × List Nat) × Blk α)) :
    ∀ g ∈ Arr.groupRuns ((pick rows (lexsortNat (rows.map (fun x => x.1.1))) (([], [], []), ⟨[], []⟩)).map
      (fun r => (r.1.1, r.1.2.1, r.1.2.2, r.2))), g.2 ≠ [] := by
  obtain ⟨_, hsorted⟩ := pick_lexsort rows (fun x => x.1.1) (([], [], []), ⟨[], []⟩)
  have hadj := adj_of_sorted (β := List Nat × List Nat × Blk α)
    (fun a b : List Nat => lexLE (a.map Int.ofNat) (b.map Int.ofNat) = true)
    (fun a b => natRows_lexLE_antisymm a b)
    ((pick rows (lexsortNat (rows.map (fun x => x.1.1))) (([], [], []), ⟨[], []⟩)).map
      (fun r => (r.1.1, r.1.2.1, r.1.2.2, r.2)))
    (by rw [List.pairwise_map]; exact hsorted)
  intro g hg
  exact ((groupRuns_spec _ hadj).1 g hg).2

/-- the block index of the result, for any source block index in range -/
theorem AxS.row_lt (lcs : List Leg) (hs : ∀ l ∈ lcs, l.Shape) (q : List Nat)
    (hq : InRange q (lcs.map Leg.blockNumber)) (s : AxS) (hv : s.Valid lcs) :
    s.row q < (s.leg lcs).blockNumber := by
  cases s with
  | new p c =>
    obtain ⟨hc, qconj, sort, bunch, rfl⟩ := hv
    obtain ⟨sizes1, L⟩ := Pipe.located (pick lcs c default) qconj sort bunch (pick_shapes lcs hs c hc)
    exact (L.loc _ (pick_inRange_blk lcs q hq c hc)).2.2.2.2.2.1
  | old x =>
    have hx : x < lcs.length := hv
    have := hq.getD_lt x (by rw [hq.length_eq, List.length_map]; exact hx)
    rwa [getD_map' Leg.blockNumber lcs x default 0 hx] at this

section zero
variable [Zero α]

theorem cFold_shape_good (lcs : List Leg) (g : List Nat × List (List Nat × List Nat × Blk α)) :
    (cFold lcs g).shape = blockShapeOf lcs g.1 ∧ Good (cFold lcs g) := by
  unfold cFold
  have : ∀ (vs : List (List Nat × List Nat × Blk α)) (d : Dense α), Good d →
      (vs.foldl (fun nb s => nb.setBlock s.1 (s.2.2.reshape s.2.1)) d).shape = d.shape
      ∧ Good (vs.foldl (fun nb s => nb.setBlock s.1 (s.2.2.reshape s.2.1)) d) := by
    intro vs
    induction vs with
    | nil => intro d hd; exact ⟨rfl, hd⟩
    | cons s vs ih =>
      intro d hd
      rw [List.foldl_cons]
      have := ih _ (setBlock_good d hd s.1 (s.2.2.reshape s.2.1))
      rw [setBlock_shape] at this
      exact this
  exact this g.2 _ (zeros_good _)

/-- `combineStd` with non-empty groups (strengthening of `combineStd_out`) -/
theorem combineStd_nonempty (a : Arr α) (ha : W a) (cl : List (List Nat)) (newAxes : List Nat) (pipes : List ALeg)
    (labels : List String) (r : Arr α) (h : a.combineStd cl newAxes pipes labels = .ok r) :
    ∀ row ∈ r.qdata, ∃ rb ∈ a.qdata.zip a.data,
      row = (Arr.combineRow a.lcs (cLegs a cl newAxes pipes).length cl (cNonComb a.rank cl) newAxes
        (cNonNew (cLegs a cl newAxes pipes).length newAxes) (cPs pipes) rb.1).1 := by
  unfold Arr.combineStd at h
  simp only [bind, Except.bind, pure, Except.pure] at h
  split at h
  · simp at h
  · rename_i v hz
    obtain ⟨hv, _⟩ := zeros_ok2 _ _ _ _ _ hz
    clear hz
    subst hv
    split at h
    · simp only [Except.ok.injEq] at h
      subst h
      intro row hrow
      simp at hrow
    · split at h
      · rename_i h1
        have hlen : (a.qdata.zip a.data).length = 1 := by
          simp only [List.length_zip, ha.len]
          simpa [Arr.storedBlocks] using h1
        obtain ⟨rb, hrb⟩ := List.length_eq_one_iff.1 hlen
        simp only [hrb, List.map_cons, List.map_nil, Except.ok.injEq] at h
        subst h
        intro row hrow
        simp only [List.mem_singleton] at hrow
        exact ⟨rb, by rw [hrb]; simp, hrow⟩
      · simp only [Except.ok.injEq] at h
        subst h
        intro row hrow
        obtain ⟨g, hg, rfl⟩ := List.mem_map.1 hrow
        have hne := worker_nonempty (cRowsG a cl newAxes pipes) g hg
        obtain ⟨s, hs⟩ := List.exists_mem_of_ne_nil _ hne
        have hmem := (groupSpec_worker (cRowsG a cl newAxes pipes)).sound g hg s hs
        obtain ⟨rb, hrb, hrbe⟩ := List.mem_map.1 hmem
        refine ⟨rb, hrb, ?_⟩
        have := congrArg (fun x => x.1.1) hrbe
        exact this.symm

/-- **the result of `combine_legs` (standard form) is well-formed** -/
theorem combine_WF (a r : Arr α) (ha : a.WF) (cl : List (List Nat)) (newAxes : List Nat) (pipes : List ALeg)
    (labels : List String) (hl1 : newAxes.length = cl.length) (hl2 : pipes.length = cl.length)
    (hpipes : PipesOK a cl pipes) (hstd : StdForm a.rank cl newAxes)
    (h : a.combineStd cl newAxes pipes labels = .ok r) : r.WF := by
  have hw := W.of ha
  obtain ⟨hlegs, hmods, hqt, hlab, hsorted, G, hG, hqd, hdt, hsort⟩ := combineStd_out a hw cl newAxes pipes labels r h
  have hne := combineStd_nonempty a hw cl newAxes pipes labels r h
  have hlen := (cLegs_getD a cl newAxes pipes hl1 hl2 hstd).1
  have hvalid := cSpecs_valid a cl newAxes pipes hl1 hl2 hpipes hstd
  have hps : (cPs pipes).length = cl.length := by rw [cPs_eq pipes (hpipes.isPipe hl2), List.length_map, hl2]
  have hlcs : r.lcs = (cSpecs ((cNonComb a.rank cl).length + cl.length) cl (cNonComb a.rank cl) newAxes
      (cPs pipes)).map (AxS.leg a.lcs) := by
    unfold Arr.lcs
    rw [hlegs]
    exact cLegs_lcs a cl newAxes pipes hl1 hl2 (hpipes.isPipe hl2) hstd
  have hrank : r.rank = (cNonComb a.rank cl).length + cl.length := by
    show r.legs.length = _
    rw [hlegs, hlen]
  refine ⟨hlab, by rw [hqd, hdt]; simp, by rw [hqd]; exact hG.nodup, ?_, ?_, ?_, ?_⟩
  · intro l hl
    rw [hlcs] at hl
    obtain ⟨s, hs, rfl⟩ := List.mem_map.1 hl
    have := AxS.leg_shape a.lcs hw.shapes s (hvalid s hs)
    exact ⟨this.len, this.head, this.mono⟩
  · intro row hrow
    obtain ⟨rb, hrb, rfl⟩ := hne row hrow
    rw [hlen, combineRow_specs a.lcs _ cl _ newAxes (cPs pipes) rb.1 hps hl1]
    have hq' := hw.rowIn' rb.1 (List.of_mem_zip hrb).1
    refine ⟨by simp [specRow, cSpecs, hrank], ?_⟩
    intro k hk
    rw [hrank] at hk
    have hlc : r.lc k = r.lcs.getD k default := by
      unfold Arr.lc Arr.lcs
      rw [getD_map_leg]
    rw [hlc, hlcs]
    simp only [specRow]
    have hkl : k < (cSpecs ((cNonComb a.rank cl).length + cl.length) cl (cNonComb a.rank cl) newAxes
        (cPs pipes)).length := by simp [cSpecs, hk]
    rw [getD_map' _ _ k (AxS.old 0) 0 hkl, getD_map' _ _ k (AxS.old 0) default hkl]
    exact AxS.row_lt a.lcs hw.shapes rb.1 hq' _ (hvalid _ (getD_mem _ k _ hkl))
  · intro rb hrb
    rw [hqd, hdt, zip_map_same] at hrb
    obtain ⟨g, _, rfl⟩ := List.mem_map.1 hrb
    have := cFold_shape_good r.lcs g
    refine ⟨this.1, ?_⟩
    rw [prod_eq]
    exact this.2
  · intro _
    unfold isLexsorted lexsortNat
    rw [hqd, lexsort_of_sorted]
    · simp [natRows]
    · unfold natRows
      rw [List.pairwise_map]
      exact hsort

end zero
end TenpyModel.C01B2.Comb
