import TenpyModel.C01.B2_Comb18
/-!
C01 part B2 — part 19: the `stored_blocks == 1` shortcut of `split_legs` produces the block of the worker
(`CS.oneblock_zip`); the steps of `Arr.splitLegs` on the new axes of a combined tensor (`CS.split_core`).
-/
namespace TenpyModel.C01B2.Comb
open TenpyModel.Core TenpyModel.C01B

variable {α : Type}

theorem headD_eq_getD {β} (l : List β) (d : β) : l.headD d = l.getD 0 d := by cases l <;> rfl

/-- the argsort of a strictly ascending list is the identity -/
theorem argsort_of_sorted (l : List Nat) (h : l.Pairwise (· < ·)) :
    pick l (Arr.argsortInt (l.map Int.ofNat)) 0 = l := by
  have : Arr.argsortInt (l.map Int.ofNat) = List.range l.length := by
    unfold Arr.argsortInt
    rw [lexsort_of_sorted]
    · simp
    · rw [List.pairwise_map, List.pairwise_map]
      refine h.imp ?_
      intro x y hxy
      rw [lexLE_single]
      show (x : Int) ≤ (y : Int)
      omega
  rw [this, pick_range]

theorem SplitSpec.of_eq [Zero α] {lcs : List Leg} {specs : List AxS} {r a' a'' : Arr α}
    (h : SplitSpec lcs specs r a') (hq : a''.qdata = a'.qdata) (hd : a''.data = a'.data) :
    SplitSpec lcs specs r a'' :=
  ⟨by rw [hq, hd]; exact h.key, fun idx hi blk hb => by rw [hq, hd]; exact h.fwd idx hi blk hb,
   by rw [hq, hd]; exact h.bwd⟩

namespace CS
variable {a r : Arr α} {cl : List (List Nat)} {na : List Nat} {ps : List ALeg}

/-- a pipe with a single `q_map` row: that row covers its whole block -/
theorem single_row (c : CS a r cl na ps) (g : Nat) (hg : g < na.length) (h1 : (sP ps g).qMap.length = 1)
    (I : Nat) (hI : I < (sP ps g).leg.blockNumber) :
    (sP ps g).qMapSlices.getD I 0 = 0 ∧ (sP ps g).qMapSlices.getD (I + 1) 0 = 1
    ∧ ((sP ps g).qMap.getD 0 []).getD 0 0 = 0
    ∧ ((sP ps g).qMap.getD 0 []).getD 1 0 = (sP ps g).leg.blockSizes.getD I 0 := by
  obtain ⟨hc, qconj, sort, bunch, hp⟩ := c.pipe_g g hg
  have S := Pipe.slicesOK (pick a.lcs (cl.getD g []) default) qconj sort bunch
  rw [← hp] at S
  have n1 := S.nonempty I hI
  have n2 := Pipe.SlicesOK.mono_last S (I + 1) (by omega)
  rw [h1] at n2
  have e0 : (sP ps g).qMapSlices.getD I 0 = 0 := by omega
  have e1 : (sP ps g).qMapSlices.getD (I + 1) 0 = 1 := by omega
  have s1 := S.start I hI
  have s2 := S.stop I hI
  rw [e0] at s1
  rw [e1] at s2
  exact ⟨e0, e1, s1, s2⟩

theorem lc_new (c : CS a r cl na ps) (g : Nat) (hg : g < na.length) : r.lc (na.getD g 0) = (sP ps g).leg := by
  unfold Arr.lc
  obtain ⟨qc, so, bu, e⟩ := c.pipes g (by rw [← c.hl1]; exact hg)
  rw [← c.pipeOf_new g hg, c.legs_new g hg, e]
  rfl

/-- the `stored_blocks == 1` shortcut writes the block the worker would write -/
theorem oneblock_zip [Zero α] (c : CS a r cl na ps) (h1 : r.storedBlocks = 1)
    (hall : na.all (fun k => (Arr.pipeOf (r.legs.getD k default)).qMap.length == 1) = true) :
    [((List.range r.rank).flatMap (fun k =>
        if na.contains k then ((Arr.pipeOf (r.legs.getD k default)).qMap.headD []).drop 3
        else [(r.qdata.headD []).getD k 0]),
      (r.data.headD ⟨[], []⟩).reshape (blockShapeOf a.lcs ((List.range r.rank).flatMap (fun k =>
        if na.contains k then ((Arr.pipeOf (r.legs.getD k default)).qMap.headD []).drop 3
        else [(r.qdata.headD []).getD k 0]))))]
    = (r.qdata.zip r.data).flatMap (fun rb => (gridC (sCnts na ps rb.1)).map (sElem a.lcs c.n na ps rb)) := by
  have hlen : (r.qdata.zip r.data).length = 1 := by
    simp only [List.length_zip, c.wr.len]
    simpa [Arr.storedBlocks] using h1
  obtain ⟨rb, hrb⟩ := List.length_eq_one_iff.1 hlen
  have hqd : r.qdata = [rb.1] := by
    have := congrArg (List.map Prod.fst) hrb
    rw [List.map_fst_zip (by rw [c.wr.len])] at this
    simpa using this
  have hdt : r.data = [rb.2] := by
    have := congrArg (List.map Prod.snd) hrb
    rw [List.map_snd_zip (by rw [c.wr.len])] at this
    simpa using this
  have hmem : rb ∈ r.qdata.zip r.data := by rw [hrb]; simp
  have hq' : rb.1 ∈ r.qdata := by rw [hqd]; simp
  have hq'l : rb.1.length = c.n := by rw [c.wr.rowLen _ hq', c.rank_r]
  rw [hrb, hqd, hdt]
  simp only [List.headD_cons, List.flatMap_cons, List.flatMap_nil, List.append_nil]
  -- every pipe has a single row
  have hone : ∀ g, g < na.length → (sP ps g).qMap.length = 1 := by
    intro g hg
    have := List.all_eq_true.1 hall _ (getD_mem na g 0 hg)
    rw [c.pipeOf_new g hg] at this
    simpa using this
  have hI : ∀ g, g < na.length → rb.1.getD (na.getD g 0) 0 < (sP ps g).leg.blockNumber := by
    intro g hg
    have := c.wr.rowLt _ hq' (na.getD g 0) (by rw [c.rank_r]; exact c.na_lt g hg)
    rwa [c.lc_new g hg] at this
  have hcnts : sCnts na ps rb.1 = (List.range na.length).map (fun _ => 1) := by
    unfold sCnts
    apply List.map_congr_left
    intro g hg
    have hg' := List.mem_range.1 hg
    obtain ⟨e0, e1, _, _⟩ := c.single_row g hg' (hone g hg') _ (hI g hg')
    unfold sSl
    rw [e0, e1]
  rw [hcnts, Pipe.gridC_ones _ (by intro n hn; obtain ⟨_, _, rfl⟩ := List.mem_map.1 hn; rfl)]
  simp only [List.map_cons, List.map_nil, List.cons.injEq, and_true]
  have hz : ∀ g, (((List.range na.length).map (fun _ => 1)).map (fun _ => 0)).getD g 0 = 0 := by
    intro g
    rw [List.getD_eq_getElem?_getD]
    cases h : (((List.range na.length).map (fun _ => 1)).map (fun _ => 0))[g]? with
    | none => rfl
    | some x =>
      have := List.mem_of_getElem? h
      simp only [List.map_map, List.mem_map] at this
      obtain ⟨_, _, rfl⟩ := this
      rfl
  have hrow : ∀ g, g < na.length →
      sRowG na ps rb.1 (((List.range na.length).map (fun _ => 1)).map (fun _ => 0)) g = (sP ps g).qMap.getD 0 [] := by
    intro g hg
    unfold sRowG
    rw [hz g]
    obtain ⟨e0, _, _, _⟩ := c.single_row g hg (hone g hg) _ (hI g hg)
    unfold sSl
    rw [e0]
  have e1 : sNewrow c.n na ps rb.1 (((List.range na.length).map (fun _ => 1)).map (fun _ => 0))
      = (List.range r.rank).flatMap (fun k =>
          if na.contains k then ((Arr.pipeOf (r.legs.getD k default)).qMap.headD []).drop 3 else [rb.1.getD k 0]) := by
    unfold sNewrow
    rw [c.rank_r, List.flatMap_def]
    congr 1
    apply List.map_congr_left
    intro k _
    unfold sPiece
    by_cases hc : na.contains k = true
    · obtain ⟨hg, hk⟩ := c.na_idxOf k hc
      rw [if_pos hc, if_pos hc, hrow _ hg, headD_eq_getD]
      have := c.pipeOf_new _ hg
      rw [hk] at this
      rw [this]
    · rw [if_neg hc, if_neg hc]
  have e2 : sBeg c.n na ps rb.1 (((List.range na.length).map (fun _ => 1)).map (fun _ => 0))
      = (List.range rb.2.shape.length).map (fun _ => 0) := by
    unfold sBeg
    have hsl : rb.2.shape.length = c.n := by
      rw [c.wr.blkShape _ hmem]
      simp [blockShapeOf, lcs_length, c.rank_r, hq'l]
    rw [hsl]
    apply List.map_congr_left
    intro k _
    by_cases hc : na.contains k = true
    · obtain ⟨hg, _⟩ := c.na_idxOf k hc
      rw [if_pos hc, hrow _ hg]
      exact (c.single_row _ hg (hone _ hg) _ (hI _ hg)).2.2.1
    · rw [if_neg hc]
  have e3 : sShp c.n na ps rb.1 (((List.range na.length).map (fun _ => 1)).map (fun _ => 0)) rb.2 = rb.2.shape := by
    unfold sShp
    have hsl : rb.2.shape.length = c.n := by
      rw [c.wr.blkShape _ hmem]
      simp [blockShapeOf, lcs_length, c.rank_r, hq'l]
    conv_rhs => rw [← map_getD_range rb.2.shape 0, hsl]
    apply List.map_congr_left
    intro k hk
    have hk' : k < c.n := List.mem_range.1 hk
    by_cases hc : na.contains k = true
    · obtain ⟨hg, hkg⟩ := c.na_idxOf k hc
      rw [if_pos hc, hrow _ hg]
      obtain ⟨_, _, s1, s2⟩ := c.single_row _ hg (hone _ hg) _ (hI _ hg)
      rw [s1, s2, c.wr.blkShape _ hmem]
      have hkl : k < r.lcs.length := by rw [lcs_length, c.rank_r]; exact hk'
      rw [blockShapeOf_getD r.lcs _ k hkl (by rw [hq'l, lcs_length, c.rank_r])]
      have : r.lcs.getD k default = (sP ps (na.idxOf k)).leg := by
        have := c.lc_new _ hg
        rw [hkg] at this
        rw [← this]
        unfold Arr.lc Arr.lcs
        rw [getD_map_leg]
      rw [this, hkg]
      omega
    · rw [if_neg hc]
  unfold sElem
  simp only [e1, e2, e3]
  rw [getBlock_full rb.2 (c.wr.blkGood _ hmem)]

/-- the steps of `split_legs` on the new axes of a combined tensor -/
theorem split_core [Zero α] (c : CS a r cl na ps) (hne : cl ≠ []) (a' : Arr α)
    (h : r.splitLegs (some (na.map (fun k => Ax.idx (Int.ofNat k)))) = .ok a') :
    a'.legs = a.legs ∧ a'.mods = r.mods ∧ a'.qtotal = r.qtotal ∧ a'.labels.length = a.rank
    ∧ SplitSpec a.lcs c.specs r a' := by
  generalize hxs : na.map (fun k => Ax.idx (Int.ofNat k)) = xs at h
  unfold Arr.splitLegs at h
  simp only [bind, Except.bind, pure, Except.pure, throw, throwThe, MonadExceptOf.throw] at h
  cases hidx : r.getLegIndices xs with
  | error e => simp [hidx] at h
  | ok idx =>
    simp only [hidx] at h
    rw [← hxs] at hidx
    have := getLegIndices_idx r na idx hidx
    subst this
    rw [argsort_of_sorted idx c.std.1] at h
    split at h
    · simp at h
    split at h
    · simp at h
    split at h
    · rename_i hemp
      have : idx = [] := by simpa using hemp
      rw [this] at c
      exact absurd (List.length_eq_zero_iff.1 (c.hl1.symm.trans rfl)) hne
    split at h
    · simp at h
    rename_i v _
    obtain ⟨ha', hvl⟩ := isetLegLabels_ok _ a' v h
    subst ha'
    by_cases h0 : r.storedBlocks = 0
    · simp only [h0, if_true] at hvl ⊢
      refine ⟨c.splitLegList_eq, trivial, trivial, ?_, c.empty_spec _ h0 ?_⟩
      · rw [hvl]
        show (Arr.splitLegList r.legs idx).length = a.rank
        rw [c.splitLegList_eq]; rfl
      · show r.qdata = []
        have : r.data = [] := List.length_eq_zero_iff.1 h0
        have hl := c.wr.len
        rw [this] at hl
        exact List.length_eq_zero_iff.1 hl
    · simp only [h0, if_false] at hvl ⊢
      split at hvl
      · rename_i h1
        rw [if_pos h1]
        refine ⟨c.splitLegList_eq, rfl, rfl, ?_, ?_⟩
        · rw [hvl]
          show (Arr.splitLegList r.legs idx).length = a.rank
          rw [c.splitLegList_eq]; rfl
        · apply c.spec_of_zip
          have := c.oneblock_zip h1.1 h1.2
          rw [← this, c.splitLegList_lcs]
          rfl
      · rename_i h1
        rw [if_neg h1]
        obtain ⟨wl, ws⟩ := c.worker_spec h0
        refine ⟨wl, ?_, ?_, ?_, ws.of_eq rfl rfl⟩
        · unfold Arr.splitWorker; rw [if_neg h0]
        · unfold Arr.splitWorker; rw [if_neg h0]
        · rw [hvl]
          show (r.splitWorker idx).legs.length = a.rank
          rw [wl]; rfl

end CS
end TenpyModel.C01B2.Comb
