import TenpyModel.C01.C_Concat3
/-!
C01 part C — `concatenate`, step 4: the stored (row, block) pairs of the result are exactly the pairs of the
operands with the row shifted on the axis; rows are pairwise distinct; and the **entry theorem**: for every operand
`a` (with the operands `pre` before it) and every in-range multi-index `idx` of `a`,
`r[idx with idx[k] + off] = a[idx]`, `off` = total length on the axis of the operands in `pre`.
-/
namespace TenpyModel.C01C.Cat
open TenpyModel.Core TenpyModel.C01B

variable {α : Type}

/-- number of blocks on the axis of the operands `pre` -/
def shiftOf (k : Nat) (pre : List (Arr α)) : Nat := ((pre.map (·.lc k)).map Leg.blockNumber).sum
/-- total length on the axis of the operands `pre` -/
def offOf (k : Nat) (pre : List (Arr α)) : Nat := ((pre.map (·.lc k)).map Leg.indLen).sum

theorem shiftOf_cons (k : Nat) (a : Arr α) (pre : List (Arr α)) :
    shiftOf k (a :: pre) = (a.lc k).blockNumber + shiftOf k pre := by simp [shiftOf]

theorem shiftOf_nil (k : Nat) : shiftOf k ([] : List (Arr α)) = 0 := rfl

/-! ### rows -/

theorem mem_catRows (k s : Nat) (arrays : List (Arr α)) (e : List Nat × Blk α) :
    e ∈ catRows k s arrays ↔ ∃ pre a post, arrays = pre ++ a :: post ∧
      ∃ rb ∈ a.qdata.zip a.data, e = (shiftRow k (s + shiftOf k pre) rb.1, rb.2) := by
  induction arrays generalizing s with
  | nil => simp [catRows]
  | cons a rest ih =>
    rw [catRows, List.mem_append, ih]
    constructor
    · rintro (h | ⟨pre, b, post, hd, rb, hrb, he⟩)
      · obtain ⟨rb, hrb, rfl⟩ := List.mem_map.1 h
        exact ⟨[], a, rest, rfl, rb, hrb, by rw [shiftOf_nil, Nat.add_zero]⟩
      · exact ⟨a :: pre, b, post, by rw [hd]; rfl, rb, hrb, by rw [he, shiftOf_cons, Nat.add_assoc]⟩
    · rintro ⟨pre, b, post, hd, rb, hrb, he⟩
      cases pre with
      | nil =>
        simp only [List.nil_append, List.cons.injEq] at hd
        obtain ⟨rfl, rfl⟩ := hd
        left
        rw [shiftOf_nil, Nat.add_zero] at he
        exact List.mem_map.2 ⟨rb, hrb, he.symm⟩
      | cons c pre =>
        simp only [List.cons_append, List.cons.injEq] at hd
        obtain ⟨rfl, rfl⟩ := hd
        right
        exact ⟨pre, b, post, rfl, rb, hrb, by rw [he, shiftOf_cons, Nat.add_assoc]⟩

theorem shiftRow_length (k s : Nat) (r : List Nat) : (shiftRow k s r).length = r.length := by simp [shiftRow]

theorem shiftRow_getD_eq (k s : Nat) (r : List Nat) (hk : k < r.length) : (shiftRow k s r).getD k 0 = r.getD k 0 + s :=
  getD_set_eq_pj _ _ _ _ hk

theorem shiftRow_getD_ne (k s m : Nat) (r : List Nat) (h : k ≠ m) : (shiftRow k s r).getD m 0 = r.getD m 0 :=
  getD_set_ne_pj _ _ _ _ _ h

theorem shiftRow_inj (k s : Nat) (r q : List Nat) (hl : r.length = q.length) (hk : k < r.length)
    (e : shiftRow k s r = shiftRow k s q) : r = q := by
  apply ext_getD _ _ 0 hl
  intro m _
  have := congrArg (fun l => l.getD m 0) e
  by_cases hmk : k = m
  · subst hmk
    rw [shiftRow_getD_eq _ _ _ hk, shiftRow_getD_eq _ _ _ (by omega)] at this
    omega
  · rwa [shiftRow_getD_ne _ _ _ _ hmk, shiftRow_getD_ne _ _ _ _ hmk] at this

/-- two decompositions of a list whose "prefix weight + inner position" agree coincide -/
theorem split_inj {β} (g : β → Nat) (pre pre' post post' : List β) (a a' : β) (q q' : Nat)
    (hd : pre ++ a :: post = pre' ++ a' :: post') (hq : q < g a) (hq' : q' < g a')
    (h : (pre.map g).sum + q = (pre'.map g).sum + q') : pre = pre' ∧ a = a' ∧ post = post' ∧ q = q' := by
  have p1 : psum ((pre ++ a :: post).map g) pre.length = (pre.map g).sum := by
    simp [psum]
  have p2 : psum ((pre ++ a :: post).map g) pre'.length = (pre'.map g).sum := by
    rw [hd]; simp [psum]
  have l1 : pre.length < ((pre ++ a :: post).map g).length := by simp
  have l2 : pre'.length < ((pre ++ a :: post).map g).length := by rw [hd]; simp
  have g1 : ((pre ++ a :: post).map g).getD pre.length 0 = g a := by
    simp [List.getD_eq_getElem?_getD]
  have g2 : ((pre ++ a :: post).map g).getD pre'.length 0 = g a' := by
    rw [hd]; simp [List.getD_eq_getElem?_getD]
  obtain ⟨e1, e2⟩ := psum_add_inj _ pre.length q pre'.length q' l1 l2 (by rw [g1]; exact hq) (by rw [g2]; exact hq')
    (by rw [p1, p2]; exact h)
  obtain ⟨e3, e4⟩ := List.append_inj hd e1
  simp only [List.cons.injEq] at e4
  exact ⟨e3, e4.1, e4.2, e2⟩

/-! ### the context of a successful call -/

/-- standing assumptions: operands well formed, checks passed, all operands have the rank of the first -/
structure Ctx (first : Arr α) (rest : List (Arr α)) (k : Nat) : Prop where
  wf : ∀ a ∈ first :: rest, a.WF
  hk : k < first.rank
  compat : ∀ a ∈ first :: rest, Compat first k a
  rank : ∀ a ∈ first :: rest, a.rank = first.rank

namespace Ctx
variable {first : Arr α} {rest : List (Arr α)} {k : Nat}

theorem shapes (c : Ctx first rest k) : ∀ l ∈ (first :: rest).map (·.lc k), l.Shape := by
  intro l hl
  obtain ⟨a, ha, rfl⟩ := List.mem_map.1 hl
  have hw := W.of (c.wf a ha)
  apply hw.shapes
  rw [← Arr.lc_eq a k (by rw [c.rank a ha]; exact c.hk)]
  exact getD_mem _ _ _ (by rw [Arr.lcs_length, c.rank a ha]; exact c.hk)

theorem lcs_res (first : Arr α) (rest : List (Arr α)) (k : Nat) :
    (catRes first rest k).lcs
      = first.lcs.set k (catLeg first.mods (first.lc k).qconj ((first :: rest).map (·.lc k))) := by
  unfold Arr.lcs catRes
  simp only [List.map_set]
  rfl

theorem zip_res (c : Ctx first rest k) :
    (catRes first rest k).qdata.zip (catRes first rest k).data = catRows k 0 (first :: rest) :=
  catRows_zip k 0 (first :: rest) (fun a ha => (c.wf a ha).2.1)

/-- the embedding of the operand `a` into the result -/
theorem emb (c : Ctx first rest k) (pre post : List (Arr α)) (a : Arr α) (hd : first :: rest = pre ++ a :: post) :
    Emb first.lcs a.lcs k (catLeg first.mods (first.lc k).qconj ((first :: rest).map (·.lc k)))
      (offOf k pre) (shiftOf k pre) := by
  have ha : a ∈ first :: rest := by rw [hd]; simp
  have hr := c.rank a ha
  have hs := c.shapes
  rw [hd, List.map_append, List.map_cons] at hs
  have hlc : a.lcs.getD k default = a.lc k := Arr.lc_eq a k (by rw [hr]; exact c.hk)
  refine ⟨by rw [Arr.lcs_length, Arr.lcs_length, hr], by rw [Arr.lcs_length]; exact c.hk, ?_, ?_, ?_⟩
  · intro m hm hmk
    rw [Arr.lcs_length] at hm
    exact (c.compat a ha).slices m hm hmk
  · intro x hx
    rw [hlc] at hx ⊢
    rw [hd, List.map_append, List.map_cons]
    exact catLeg_locate _ _ _ _ _ hs x hx
  · intro q hq
    rw [hlc] at hq ⊢
    rw [hd, List.map_append, List.map_cons]
    exact catLeg_blockSizes_getD _ _ _ _ _ hs q hq

/-- stored rows of the result are pairwise distinct (as (row, block) pairs: the row determines the pair) -/
theorem key_fun (c : Ctx first rest k) :
    ∀ x ∈ catRows k 0 (first :: rest), ∀ y ∈ catRows k 0 (first :: rest), x.1 = y.1 → x = y := by
  intro x hx y hy e
  obtain ⟨pre, a, post, hd, rb, hrb, rfl⟩ := (mem_catRows _ _ _ _).1 hx
  obtain ⟨pre', a', post', hd', rb', hrb', rfl⟩ := (mem_catRows _ _ _ _).1 hy
  simp only [Nat.zero_add] at e ⊢
  have ha : a ∈ first :: rest := by rw [hd]; simp
  have ha' : a' ∈ first :: rest := by rw [hd']; simp
  have w := W.of (c.wf a ha)
  have w' := W.of (c.wf a' ha')
  have hk1 : k < a.rank := by rw [c.rank a ha]; exact c.hk
  have hk2 : k < a'.rank := by rw [c.rank a' ha']; exact c.hk
  have m1 := (List.of_mem_zip hrb).1
  have m2 := (List.of_mem_zip hrb').1
  have ek := congrArg (fun l => l.getD k 0) e
  rw [shiftRow_getD_eq _ _ _ (by rw [w.rowLen _ m1]; exact hk1),
    shiftRow_getD_eq _ _ _ (by rw [w'.rowLen _ m2]; exact hk2)] at ek
  obtain ⟨e1, e2, e3, e4⟩ := split_inj (fun b : Arr α => (b.lc k).blockNumber) pre pre' post post' a a'
    (rb.1.getD k 0) (rb'.1.getD k 0) (hd.symm.trans hd') (w.rowLt _ m1 k hk1) (w'.rowLt _ m2 k hk2)
    (by
      have t1 : (pre.map (fun b : Arr α => (b.lc k).blockNumber)).sum = shiftOf k pre := by
        unfold shiftOf; rw [List.map_map]; rfl
      have t2 : (pre'.map (fun b : Arr α => (b.lc k).blockNumber)).sum = shiftOf k pre' := by
        unfold shiftOf; rw [List.map_map]; rfl
      rw [t1, t2]; omega)
  subst e1; subst e2
  have : rb.1 = rb'.1 := shiftRow_inj k _ _ _ (by rw [w.rowLen _ m1, w.rowLen _ m2])
    (by rw [w.rowLen _ m1]; exact hk1) e
  have := zip_fst_inj _ _ w.nodup rb hrb rb' hrb' this
  rw [this]

/-- **entries of the result** -/
theorem entry [Zero α] (c : Ctx first rest k) (pre post : List (Arr α)) (a : Arr α)
    (hd : first :: rest = pre ++ a :: post) (idx : List Nat) (hi : InRange idx a.shape) :
    (catRes first rest k).entry (idx.set k (idx.getD k 0 + offOf k pre)) = a.entry idx := by
  have ha : a ∈ first :: rest := by rw [hd]; simp
  have w := W.of (c.wf a ha)
  have hk1 : k < a.rank := by rw [c.rank a ha]; exact c.hk
  have e := c.emb pre post a hd
  have hq := e.qidx_eq idx hi
  have hw := e.widx_eq idx hi
  rw [← lcs_res, ← qOf_eq_qidx, ← qOf_eq_qidx] at hq
  rw [← lcs_res, ← wOf_eq_widx, ← wOf_eq_widx] at hw
  rw [Nat.add_comm]
  have hloc := locate_idx a.lcs w.shapes idx hi
  by_cases hm : qOf a.lcs idx ∈ a.qdata
  · obtain ⟨b, hb⟩ := mem_zip_of_mem_left _ _ w.len _ hm
    have hmem : (qOf (catRes first rest k).lcs (idx.set k (offOf k pre + idx.getD k 0)), b)
        ∈ (catRes first rest k).qdata.zip (catRes first rest k).data := by
      rw [c.zip_res, hq]
      exact (mem_catRows _ _ _ _).2 ⟨pre, a, post, hd, (qOf a.lcs idx, b), hb, by rw [Nat.zero_add]⟩
    rw [entry_of_mem' _ (by rw [c.zip_res]; exact c.key_fun) _ b hmem, hw, entry_of_mem a w.nodup idx b hb]
  · rw [entry_of_not_mem a idx hm]
    apply entry_of_not_mem'
    rw [c.zip_res, hq]
    intro x hx hxe
    obtain ⟨pre', a', post', hd', rb', hrb', rfl⟩ := (mem_catRows _ _ _ _).1 hx
    simp only [Nat.zero_add] at hxe
    have ha' : a' ∈ first :: rest := by rw [hd']; simp
    have w' := W.of (c.wf a' ha')
    have hk2 : k < a'.rank := by rw [c.rank a' ha']; exact c.hk
    have m2 := (List.of_mem_zip hrb').1
    have hql : (qOf a.lcs idx).length = a.rank := by
      rw [qOf_length _ _ (by rw [hi.length_eq, shape_eq, List.length_map]), lcs_length]
    have hqk : (qOf a.lcs idx).getD k 0 < (a.lc k).blockNumber := by
      have := hloc.1.getD_lt' k (by rw [List.length_map, lcs_length]; exact hk1)
      rwa [getD_map' Leg.blockNumber a.lcs k default 0 (by rw [lcs_length]; exact hk1), Arr.lc_eq a k hk1] at this
    have ek := congrArg (fun l => l.getD k 0) hxe
    rw [shiftRow_getD_eq _ _ _ (by rw [w'.rowLen _ m2]; exact hk2),
      shiftRow_getD_eq _ _ _ (by rw [hql]; exact hk1)] at ek
    obtain ⟨e1, e2, e3, e4⟩ := split_inj (fun b : Arr α => (b.lc k).blockNumber) pre' pre post' post a' a
      (rb'.1.getD k 0) ((qOf a.lcs idx).getD k 0) (hd'.symm.trans hd) (w'.rowLt _ m2 k hk2) hqk
      (by
        have t1 : (pre.map (fun b : Arr α => (b.lc k).blockNumber)).sum = shiftOf k pre := by
          unfold shiftOf; rw [List.map_map]; rfl
        have t2 : (pre'.map (fun b : Arr α => (b.lc k).blockNumber)).sum = shiftOf k pre' := by
          unfold shiftOf; rw [List.map_map]; rfl
        rw [t1, t2]; omega)
    have e1' := e1.symm
    have e2' := e2.symm
    subst e1'; subst e2'
    have : rb'.1 = qOf a.lcs idx := shiftRow_inj k _ _ _ (by rw [w.rowLen _ m2, hql])
      (by rw [w.rowLen _ m2]; exact hk1) hxe
    exact hm (this ▸ m2)

end Ctx

end TenpyModel.C01C.Cat
