import TenpyModel.C01.C_Charge4
import TenpyModel.C01.B2_Comb13
/-!
C01 part C — `combine_legs` in standard form (`combineStd`): the result obeys the charge rule and has valid legs.
-/
namespace TenpyModel.C01C
open TenpyModel.Core TenpyModel.C01B TenpyModel.C01B2 TenpyModel.C01B2.Comb

variable {α : Type}

/-- width of a fused charge -/
theorem fuse_length (legs : List Leg) (qconj : Int)
    (hv : ∀ l ∈ legs, ∀ c ∈ l.charges, c.length = (Pipe.gMods legs).length)
    (qis : List Nat) (hin : InRange qis (Pipe.gSubq legs)) :
    (Pipe.fuse (Pipe.gMods legs) legs qconj qis).length = (Pipe.gMods legs).length := by
  unfold Pipe.fuse Pipe.fuseRaw
  rw [makeValid_length, csum_length, Nat.min_self]
  intro c hc
  obtain ⟨lq, hlq, rfl⟩ := List.mem_map.1 hc
  simp only [cscale, List.length_map]
  have hl := (List.of_mem_zip hlq).1
  apply hv _ hl
  apply getD_mem
  obtain ⟨i, hi, hlqe⟩ := List.getElem_of_mem hlq
  have hi' : i < legs.length ∧ i < qis.length := by simpa using hi
  have h1 : lq = (legs[i], qis[i]) := by rw [← hlqe]; simp
  have := hin.getD_lt i hi'.2
  unfold Pipe.gSubq at this
  rw [getD_map' Leg.blockNumber legs i default 0 hi'.1, getD_lt _ _ _ hi'.2, getD_lt _ _ _ hi'.1] at this
  rw [h1]
  exact this

/-- every charge row of the outgoing leg of a pipe has the width of `chinfo` -/
theorem pipe_charges_length (legs : List Leg) (qconj : Int) (sort bunch : Bool) (hsh : ∀ l ∈ legs, l.Shape)
    (hv : ∀ l ∈ legs, ∀ c ∈ l.charges, c.length = (Pipe.gMods legs).length) :
    ∀ c ∈ (Pipe.init legs qconj sort bunch).leg.charges, c.length = (Pipe.gMods legs).length := by
  intro c hc
  obtain ⟨I, hI, rfl⟩ := List.getElem_of_mem hc
  have S := Pipe.slicesOK legs qconj sort bunch
  have hI' : I < (Pipe.init legs qconj sort bunch).leg.blockNumber := hI
  have hne := S.nonempty I hI'
  have hsec := (S.sector I hI' _ (Nat.le_refl _) hne).1
  have hlast := Pipe.SlicesOK.mono_last S (I + 1) (by omega)
  have hj : (Pipe.init legs qconj sort bunch).qMapSlices.getD I 0 < (Pipe.init legs qconj sort bunch).qMap.length := by
    omega
  have hf := Pipe.fusion_rule legs qconj sort bunch _ hj
  rw [hsec, getD_lt _ _ _ hI] at hf
  rw [hf]
  exact fuse_length legs qconj hv _ (qMap_row_inv legs qconj sort bunch hsh _ hj).1

/-- directions of the pipes: `±1` (part of `LegCharge.test_sanity`; `LegPipe.__init__` does not check it) -/
def PipesQ (pipes : List ALeg) : Prop := ∀ x ∈ pipes, x.leg.qconj = 1 ∨ x.leg.qconj = -1

instance (pipes : List ALeg) : Decidable (PipesQ pipes) := by unfold PipesQ; infer_instance

section zero
variable [Zero α]

/-- the argument check of `zeros` inside `combineStd`: all legs of the result are legs over `chinfo` -/
theorem combineStd_legs_mods (a : Arr α) (cl : List (List Nat)) (newAxes : List Nat) (pipes : List ALeg)
    (labels : List String) (r : Arr α) (h : a.combineStd cl newAxes pipes labels = .ok r) :
    ∀ l ∈ cLegs a cl newAxes pipes, l.leg.mods = a.mods := by
  unfold Arr.combineStd at h
  simp only [bind, Except.bind, pure, Except.pure] at h
  split at h
  · simp at h
  · rename_i v hz
    unfold Arr.zeros at hz
    split at hz
    · simp at hz
    · split at hz
      · simp at hz
      · rename_i hany
        intro l hl
        simp only [List.any_eq_true, not_exists, not_and, ne_eq, decide_eq_true_eq, Decidable.not_not] at hany
        exact hany l hl

omit [Zero α] in
/-- the `AxS` description of the result axes: directions of the pipe axes -/
theorem cSpecs_axQ (a : Arr α) (cl : List (List Nat)) (newAxes : List Nat) (pipes : List ALeg)
    (hl1 : newAxes.length = cl.length) (hl2 : pipes.length = cl.length) (hpipes : PipesOK a cl pipes)
    (hq : PipesQ pipes) :
    ∀ s ∈ cSpecs ((cNonComb a.rank cl).length + cl.length) cl (cNonComb a.rank cl) newAxes (cPs pipes), AxQ s := by
  intro s hs
  unfold cSpecs at hs
  obtain ⟨k, _, rfl⟩ := List.mem_map.1 hs
  by_cases hc : newAxes.contains k = true
  · rw [if_pos hc]
    have hm : k ∈ newAxes := by simpa using hc
    have hg := List.idxOf_lt_length_of_mem hm
    show ((cPs pipes).getD (newAxes.idxOf k) dPipe).leg.qconj = 1 ∨ _
    rw [cPs_eq pipes (hpipes.isPipe hl2), getD_map' _ _ _ default dPipe (by omega)]
    have hmem := getD_mem pipes (newAxes.idxOf k) default (by omega)
    have := hq _ hmem
    have hp := hpipes.isPipe hl2 _ hmem
    cases hx : pipes.getD (newAxes.idxOf k) default with
    | plain l => rw [hx] at hp; simp [ALeg.isPipe] at hp
    | pipe p subs => rw [hx] at this; exact this
  · rw [if_neg hc]; trivial

/-- **(d) `combine_legs` in standard form**: the result obeys the charge rule and has valid legs. Hypotheses as for
`C01_combine_places` plus the directions `±1` of the pipes (`PipesQ`, decidable). -/
theorem chargeRule_combineStd (a r : Arr α) (ha : a.WF) (hca : a.ChargeRule) (hva : LegsValid a)
    (cl : List (List Nat)) (newAxes : List Nat) (pipes : List ALeg) (labels : List String)
    (hl1 : newAxes.length = cl.length) (hl2 : pipes.length = cl.length)
    (hpipes : PipesOK a cl pipes) (hstd : StdForm a.rank cl newAxes) (hq : PipesQ pipes)
    (h : a.combineStd cl newAxes pipes labels = .ok r) : r.ChargeRule ∧ LegsValid r := by
  have hw := W.of ha
  obtain ⟨hlegs, hmods, hqt, _, _, _⟩ := combineStd_out a hw cl newAxes pipes labels r h
  have hne := combineStd_nonempty a hw cl newAxes pipes labels r h
  have hlen := (cLegs_getD a cl newAxes pipes hl1 hl2 hstd).1
  have hvalid := cSpecs_valid a cl newAxes pipes hl1 hl2 hpipes hstd
  have hps : (cPs pipes).length = cl.length := by rw [cPs_eq pipes (hpipes.isPipe hl2), List.length_map, hl2]
  have hlcs : r.lcs = (cSpecs ((cNonComb a.rank cl).length + cl.length) cl (cNonComb a.rank cl) newAxes
      (cPs pipes)).map (AxS.leg a.lcs) := by
    unfold Arr.lcs
    rw [hlegs]
    exact cLegs_lcs a cl newAxes pipes hl1 hl2 (hpipes.isPipe hl2) hstd
  have hlm := combineStd_legs_mods a cl newAxes pipes labels r h
  have hmod : ∀ s ∈ cSpecs ((cNonComb a.rank cl).length + cl.length) cl (cNonComb a.rank cl) newAxes (cPs pipes),
      (s.leg a.lcs).mods = a.mods := by
    intro s hs
    have : s.leg a.lcs ∈ r.lcs := by rw [hlcs]; exact List.mem_map.2 ⟨s, hs, rfl⟩
    have this' : s.leg a.lcs ∈ r.legs.map ALeg.leg := this
    obtain ⟨l, hl, e⟩ := List.mem_map.1 this'
    rw [← e]
    exact hlm l (by rw [← hlegs]; exact hl)
  have hparts : ((cSpecs ((cNonComb a.rank cl).length + cl.length) cl (cNonComb a.rank cl) newAxes
      (cPs pipes)).map AxS.part).flatten = List.range a.lcs.length := by
    rw [cSpecs_parts, lcs_length]; exact hstd.2.2
  have hwidth : ∀ l ∈ a.lcs, ∀ c ∈ l.charges, c.length = a.mods.length := fun l hl => (hva l hl).2
  constructor
  · intro row hrow
    obtain ⟨rb, hrb, rfl⟩ := hne row hrow
    have hqm := (List.of_mem_zip hrb).1
    rw [hlen, combineRow_specs a.lcs _ cl _ newAxes (cPs pipes) rb.1 hps hl1, hmods, hlcs, hqt]
    show blockChargeOf a.mods _ (List.map (AxS.row rb.1) _) = _
    rw [specs_charge a.mods a.lcs hw.shapes hwidth rb.1 (hw.rowIn' rb.1 hqm) _ hvalid
      (cSpecs_axQ a cl newAxes pipes hl1 hl2 hpipes hq) hmod hparts, ← hca rb.1 hqm]
    unfold blockChargeOf
    rw [makeValid_idem]
  · intro l hl
    rw [hlcs] at hl
    obtain ⟨s, hs, rfl⟩ := List.mem_map.1 hl
    rw [hmods]
    refine ⟨hmod s hs, ?_⟩
    have hm := hmod s hs
    have hv := hvalid s hs
    cases s with
    | new p c =>
      obtain ⟨hc, qconj, sort, bunch, rfl⟩ := hv
      have hg : Pipe.gMods (pick a.lcs c default) = a.mods := by
        rw [← (Pipe.init_mods_qconj (pick a.lcs c default) qconj sort bunch).1]; exact hm
      have := pipe_charges_length (pick a.lcs c default) qconj sort bunch (pick_shapes a.lcs hw.shapes c hc) (by
        rw [hg]
        intro l hl
        obtain ⟨x, hx, rfl⟩ := List.mem_map.1 hl
        exact hwidth _ (getD_mem a.lcs x default (hc x hx)))
      rw [hg] at this
      exact this
    | old x =>
      have hx : x < a.lcs.length := hv
      exact hwidth _ (getD_mem a.lcs x default hx)

end zero
end TenpyModel.C01C
