import TenpyModel.C01.A_Program
import TenpyModel.C01.A_Slice5
import TenpyModel.C01.A_Permute3
/-!
C01 part A — every finite program over the operations of part A commutes with `toDense` and propagates the labels
as documented: induction over programs (`C01ProgA.evalArr_spec`), using the per-operation theorems and the fact
that every operation preserves the storage invariant `Arr.WF`.
-/
namespace TenpyModel.Core
open Arr (permuteList swapList)

theorem bind_ok {ε β γ : Type} {x : Except ε β} {f : β → Except ε γ} {r : γ} (h : bind x f = .ok r) :
    ∃ a, x = .ok a ∧ f a = .ok r := by
  cases x with
  | error e => simp [bind, Except.bind] at h
  | ok a => exact ⟨a, rfl, h⟩

namespace Arr
variable {α : Type}

theorem toLD_eq [Zero α] (r : Arr α) (d : Dense α) (l : List Label) (h1 : r.toDense = d) (h2 : r.labels = l) :
    r.toLD = ⟨d, l⟩ := by
  subst h1; subst h2; rfl

theorem iscalePrefactor_labels [Mul α] [Zero α] [DecidableEq α] (a : Arr α) (s : α) :
    (a.iscalePrefactor s).labels = a.labels := by
  unfold iscalePrefactor
  split <;> rfl

theorem takeSlice_ax [Zero α] (a r : Arr α) (indices : List Int) (axes : List Ax)
    (h : a.takeSlice indices axes = .ok r) : ∃ ax, a.getLegIndices axes = .ok ax := by
  unfold takeSlice at h
  obtain ⟨ax, hax, _⟩ := bind_ok h
  exact ⟨ax, hax⟩

theorem iscaleAxis_ax [Mul α] [Zero α] (a r : Arr α) (s : List α) (axis : Ax)
    (h : a.iscaleAxis s axis = .ok r) : ∃ k, a.getLegIndex axis = .ok k := by
  unfold iscaleAxis at h
  obtain ⟨k, hk, _⟩ := bind_ok h
  exact ⟨k, hk⟩

theorem permute_ax [Zero α] (a r : Arr α) (perm : List Nat) (axis : Ax)
    (h : a.permute perm axis = .ok r) : ∃ k, a.getLegIndex axis = .ok k := by
  unfold permute at h
  obtain ⟨k, hk, _⟩ := bind_ok h
  exact ⟨k, hk⟩

theorem iproject_ax [Zero α] (a r : Arr α) (masks : List Mask) (axes : List Ax)
    (h : a.iproject masks axes = .ok r) :
    ∃ ax, a.getLegIndices axes = .ok ax ∧ ((ax = [] ∧ r = a) ∨
      (ax ≠ [] ∧ ∃ bmasks, (masks.zip ax).mapM (fun mk => mk.1.toBools (a.shape.getD mk.2 0)) = .ok bmasks)) := by
  unfold iproject at h
  cases hax : a.getLegIndices axes with
  | error e =>
    simp only [hax, bind, Except.bind] at h
    cases h
  | ok ax =>
    refine ⟨ax, rfl, ?_⟩
    simp only [hax, bind, Except.bind, pure, Except.pure] at h
    split at h
    · simp [throw, throwThe, MonadExceptOf.throw] at h
    · split at h
      · rename_i he
        simp only [Except.ok.injEq] at h
        exact Or.inl ⟨by simpa using he, h.symm⟩
      · rename_i he
        refine Or.inr ⟨by simpa using he, ?_⟩
        cases hbm : (masks.zip ax).mapM (fun mk => mk.1.toBools (a.shape.getD mk.2 0)) with
        | error e =>
          simp only [hbm] at h
          cases h
        | ok bm => exact ⟨bm, rfl⟩

theorem toDense_conj [Zero α] (st : α → α) (hst : st 0 = 0) (a : Arr α) :
    (a.conj st).toDense = a.toDense.map st := by
  rw [← Arr.toDense_iunaryBlockwise st hst a]
  unfold Arr.toDense
  have hshape : (a.conj st).shape = (a.iunaryBlockwise st).shape := by
    simp [Arr.shape, Arr.lcs, Arr.conj, Arr.iunaryBlockwise, List.map_map, Function.comp_def, ALeg.conj_leg,
      Leg.conj_indLen]
  rw [hshape]
  refine Dense.ofFn_congr _ _ _ (fun idx => ?_)
  unfold Arr.entry
  simp only [Arr.lcs, Arr.conj, Arr.iunaryBlockwise]
  rw [Arr.lcs_conj_map, Arr.zipWith_locate_conj]

theorem toDense_iscalePrefactor [Mul α] [Zero α] [DecidableEq α] (hz : ∀ x : α, x * 0 = 0)
    (hz' : ∀ s : α, 0 * s = 0) (a : Arr α) (s : α) :
    (a.iscalePrefactor s).toDense = a.toDense.map (fun x => x * s) := by
  unfold Arr.iscalePrefactor
  split
  · rename_i hs
    subst hs
    unfold Arr.toDense
    rw [Dense.map_ofFn]
    refine Dense.ofFn_congr _ _ _ (fun idx => ?_)
    rw [hz]
    exact Arr.entry_noBlocks _ rfl idx
  · exact Arr.toDense_iunaryBlockwise _ (hz' s) a

/-- the documented-but-unchecked requirement of `squeeze`: no stored block has extent 0 along a squeezed axis
(tenpy raises in that case — a known finding, see notes/C01.md — while the model builds a malformed block) -/
def SqueezeOK (a : Arr α) (axes : Option (List Ax)) : Prop :=
  ∀ ax, a.squeezeAx axes = .ok ax →
    ∀ row ∈ a.qdata, ∀ k ∈ ax, (a.lc k).blockSizes.getD (row.getD k 0) 0 ≠ 0

theorem squeeze_arr_spec [Zero α] (a r : Arr α) (axes : Option (List Ax)) (hw : a.WF) (hok : a.SqueezeOK axes)
    (h : a.squeeze axes = .ok (.arr r)) :
    r.toDense = a.toDense.squeeze (C01ProgA.squeezeAx a.toLD axes)
      ∧ r.labels = pick a.labels (C01ProgA.keepOf a.toLD.d.rank (C01ProgA.squeezeAx a.toLD axes)) none
      ∧ r.WF := by
  cases hax : a.squeezeAx axes with
  | error e =>
    rw [squeeze_eq_body, hax] at h
    cases h
  | ok ax =>
    obtain ⟨h1, h2, _, _, _, h6⟩ := toDense_squeeze_arr a r axes hw ax hax (hok ax hax) h
    have hsq : C01ProgA.squeezeAx a.toLD axes = ax := by
      cases axes with
      | none =>
        simp only [squeezeAx, Except.ok.injEq] at hax
        rw [← hax]
        simp only [C01ProgA.squeezeAx, toLD_rank]
        rfl
      | some xs => exact toLD_axs a xs ax hax
    rw [hsq, toLD_rank]
    exact ⟨h1, h2, h6⟩

end Arr

namespace C01ProgA
variable {α : Type}

/-- side conditions of a program: the requirements the operations document but do not check
(`f 0 0 = 0` for `ibinary_blockwise`; no repeated axis in `take_slice` / `iproject`; no stored block of extent 0
along a squeezed axis — tenpy raises there, see notes/C01.md; `perm` a permutation of the leg's indices in `permute`) -/
def Side [Zero α] [Neg α] [Add α] [Mul α] [DecidableEq α] (st : α → α) (env : List (Arr α)) : C01ProgA α → Prop
  | .input _ => True
  | .neg p => Side st env p
  | .scale _ p => Side st env p
  | .conj p => Side st env p
  | .complexConj p => Side st env p
  | .transpose _ p => Side st env p
  | .swapaxes _ _ p => Side st env p
  | .addTrivialLeg _ _ _ p => Side st env p
  | .scaleAxis _ _ p => Side st env p
  | .takeSlice _ axes p =>
    Side st env p ∧ ∀ a ax, evalArr st env p = .ok a → a.getLegIndices axes = .ok ax → ax.Nodup
  | .squeeze axes p =>
    Side st env p ∧ ∀ a, evalArr st env p = .ok a → a.SqueezeOK axes
  | .project _ axes p =>
    Side st env p ∧ ∀ a ax, evalArr st env p = .ok a → a.getLegIndices axes = .ok ax → ax.Nodup
  | .permute perm axis p =>
    Side st env p ∧ ∀ a k, evalArr st env p = .ok a → a.getLegIndex axis = .ok k →
      perm.Perm (List.range (a.lc k).indLen) ∧ (a.mods.length = 0 → ∀ c ∈ (a.lc k).charges, c = [])
  | .binary f p q => f 0 0 = 0 ∧ Side st env p ∧ Side st env q
  | .addPrefactor _ _ p q => Side st env p ∧ Side st env q

/-- **all finite programs**: if the block-sparse evaluation succeeds on well-formed operands (and the documented
side conditions hold), its result has the dense form and the labels computed by the reference semantics on labelled
dense tensors, and is well formed. -/
theorem evalArr_spec [Zero α] [Neg α] [Add α] [Mul α] [DecidableEq α] (st : α → α) (hst : st 0 = 0)
    (hneg : -(0 : α) = 0) (hz : ∀ x : α, x * 0 = 0) (hz' : ∀ s : α, 0 * s = 0) (hadd : ∀ x : α, x + 0 = x)
    (env : List (Arr α)) (henv : ∀ a ∈ env, a.WF) (p : C01ProgA α) :
    ∀ r, Side st env p → evalArr st env p = .ok r → r.toLD = evalRef st (env.map Arr.toLD) p ∧ r.WF := by
  induction p with
  | input i =>
    intro r _ h
    simp only [evalArr] at h
    cases hi : env[i]? with
    | none => simp [hi] at h
    | some a =>
      simp only [hi, Except.ok.injEq] at h
      subst h
      refine ⟨?_, henv a (List.mem_of_getElem? hi)⟩
      simp only [evalRef, List.getD_eq_getElem?_getD, List.getElem?_map, hi, Option.map_some, Option.getD_some]
  | neg p ih =>
    intro r hs h
    simp only [evalArr] at h
    obtain ⟨a, hp, h⟩ := bind_ok h
    simp only [pure, Except.pure, Except.ok.injEq] at h
    subst h
    obtain ⟨hx, hw⟩ := ih a hs hp
    refine ⟨?_, Arr.WF_iunaryBlockwise _ a hw⟩
    simp only [evalRef, ← hx]
    exact Arr.toLD_eq _ _ _ (Arr.toDense_iunaryBlockwise _ hneg a) rfl
  | scale s p ih =>
    intro r hs h
    simp only [evalArr] at h
    obtain ⟨a, hp, h⟩ := bind_ok h
    simp only [pure, Except.pure, Except.ok.injEq] at h
    subst h
    obtain ⟨hx, hw⟩ := ih a hs hp
    refine ⟨?_, Arr.WF_iscalePrefactor a s hw⟩
    simp only [evalRef, ← hx]
    exact Arr.toLD_eq _ _ _ (Arr.toDense_iscalePrefactor hz hz' a s) (Arr.iscalePrefactor_labels a s)
  | conj p ih =>
    intro r hs h
    simp only [evalArr] at h
    obtain ⟨a, hp, h⟩ := bind_ok h
    simp only [pure, Except.pure, Except.ok.injEq] at h
    subst h
    obtain ⟨hx, hw⟩ := ih a hs hp
    refine ⟨?_, Arr.WF_conj st a hw⟩
    simp only [evalRef, ← hx]
    exact Arr.toLD_eq _ _ _ (Arr.toDense_conj st hst a) rfl
  | complexConj p ih =>
    intro r hs h
    simp only [evalArr] at h
    obtain ⟨a, hp, h⟩ := bind_ok h
    simp only [pure, Except.pure, Except.ok.injEq] at h
    subst h
    obtain ⟨hx, hw⟩ := ih a hs hp
    refine ⟨?_, Arr.WF_iunaryBlockwise _ a hw⟩
    simp only [evalRef, ← hx]
    exact Arr.toLD_eq _ _ _ (Arr.toDense_iunaryBlockwise _ hst a) rfl
  | transpose axes p ih =>
    intro r hs h
    simp only [evalArr] at h
    obtain ⟨a, hp, h⟩ := bind_ok h
    obtain ⟨hx, hw⟩ := ih a hs hp
    obtain ⟨ax, _, h1, h2, h3, _, h5, _, _, h8, _⟩ := Arr.itranspose_spec a r axes hw h
    refine ⟨?_, h8⟩
    simp only [evalRef, ← hx]
    have hax : transposeAx a.toLD axes = ax := by
      cases axes with
      | none => simp only [transposeAx, Arr.toLD_rank]; exact (h1 rfl).symm
      | some xs => exact Arr.toLD_axs a xs ax (h2 xs rfl)
    rw [hax]
    exact Arr.toLD_eq _ _ _ h3 h5
  | swapaxes x1 x2 p ih =>
    intro r hs h
    simp only [evalArr] at h
    obtain ⟨a, hp, h⟩ := bind_ok h
    obtain ⟨hx, hw⟩ := ih a hs hp
    obtain ⟨i, j, hi, hj, _, _, h5, _, h7, _, _, h10, _⟩ := Arr.iswapaxes_spec a r x1 x2 hw h
    refine ⟨?_, h10⟩
    simp only [evalRef, ← hx]
    rw [Arr.toLD_ax a x1 i hi, Arr.toLD_ax a x2 j hj, Arr.toLD_rank]
    exact Arr.toLD_eq _ _ _ h5 h7
  | addTrivialLeg axis label qconj p ih =>
    intro r hs h
    simp only [evalArr] at h
    obtain ⟨a, hp, h⟩ := bind_ok h
    obtain ⟨hx, hw⟩ := ih a hs hp
    obtain ⟨h1, h2, _, _⟩ := Arr.toDense_addTrivialLeg a r axis label qconj hw h
    refine ⟨?_, Arr.WF_addTrivialLeg a r axis label qconj hw h⟩
    simp only [evalRef, ← hx]
    rw [Arr.toLD_rank]
    exact Arr.toLD_eq _ _ _ h1 h2
  | takeSlice indices axes p ih =>
    intro r hs h
    simp only [evalArr] at h
    obtain ⟨a, hp, h⟩ := bind_ok h
    obtain ⟨hx, hw⟩ := ih a hs.1 hp
    obtain ⟨ax, hax⟩ := Arr.takeSlice_ax a r indices axes h
    have hnd := hs.2 a ax hp hax
    obtain ⟨h1, _, h3, h4⟩ := Arr.toDense_takeSlice a r indices axes hw ax hax hnd h
    refine ⟨?_, Arr.WF_takeSlice a r indices axes hw ax hax hnd h⟩
    simp only [evalRef, ← hx]
    rw [Arr.toLD_axs a axes ax hax]
    by_cases hne : ax = []
    · rw [if_pos hne, h3 hne]
    · rw [if_neg hne, Arr.toLD_rank]
      exact Arr.toLD_eq _ _ _ h1 (h4 hne).1
  | squeeze axes p ih =>
    intro r hs h
    simp only [evalArr] at h
    obtain ⟨a, hp, h⟩ := bind_ok h
    obtain ⟨hx, hw⟩ := ih a hs.1 hp
    obtain ⟨v, hv, h⟩ := bind_ok h
    cases v with
    | scalar x => simp [throw, throwThe, MonadExceptOf.throw] at h
    | arr r' =>
      simp only [pure, Except.pure, Except.ok.injEq] at h
      subst h
      obtain ⟨h1, h2, h3⟩ := Arr.squeeze_arr_spec a r' axes hw (hs.2 a hp) hv
      refine ⟨?_, h3⟩
      simp only [evalRef, ← hx]
      exact Arr.toLD_eq _ _ _ h1 h2
  | scaleAxis s axis p ih =>
    intro r hs h
    simp only [evalArr] at h
    obtain ⟨a, hp, h⟩ := bind_ok h
    obtain ⟨hx, hw⟩ := ih a hs hp
    obtain ⟨k, hk⟩ := Arr.iscaleAxis_ax a r s axis h
    obtain ⟨h1, _, h3, _, h5⟩ := Arr.toDense_iscaleAxis hz' a r s axis hw k hk h
    refine ⟨?_, h5⟩
    simp only [evalRef, ← hx]
    rw [Arr.toLD_ax a axis k hk]
    exact Arr.toLD_eq _ _ _ h1 h3
  | project masks axes p ih =>
    intro r hs h
    simp only [evalArr] at h
    obtain ⟨a, hp, h⟩ := bind_ok h
    obtain ⟨hx, hw⟩ := ih a hs.1 hp
    obtain ⟨ax, hax, hcase⟩ := Arr.iproject_ax a r masks axes h
    have hnd := hs.2 a ax hp hax
    simp only [evalRef, ← hx]
    rw [Arr.toLD_axs a axes ax hax]
    rcases hcase with ⟨he, hr⟩ | ⟨hne, bmasks, hbm⟩
    · rw [if_pos he, hr]
      exact ⟨rfl, hw⟩
    · obtain ⟨h1, h2, _, h4⟩ := Arr.toDense_iproject_full a r masks axes hw ax hax hnd bmasks hbm h
      refine ⟨?_, h4⟩
      rw [if_neg hne]
      have hb : (masks.zip ax).map (fun mk => maskBools (a.toLD.d.shape.getD mk.2 0) mk.1) = bmasks :=
        Arr.mapM_except_eq_map _ _ _ _ (fun mk y hy => by
          show maskBools (a.shape.getD mk.2 0) mk.1 = y
          unfold maskBools
          rw [hy]) hbm
      rw [hb]
      exact Arr.toLD_eq _ _ _ h1 h2
  | permute perm axis p ih =>
    intro r hs h
    simp only [evalArr] at h
    obtain ⟨a, hp, h⟩ := bind_ok h
    obtain ⟨hx, hw⟩ := ih a hs.1 hp
    obtain ⟨k, hk⟩ := Arr.permute_ax a r perm axis h
    obtain ⟨hperm, hcl⟩ := hs.2 a k hp hk
    obtain ⟨h1, h2, _, h4⟩ := Arr.toDense_permute a r perm axis hw k hk hperm hcl h
    refine ⟨?_, h4⟩
    simp only [evalRef, ← hx]
    rw [Arr.toLD_ax a axis k hk]
    exact Arr.toLD_eq _ _ _ h1 h2
  | binary f p q ihp ihq =>
    intro r hs h
    simp only [evalArr] at h
    obtain ⟨a, hp, h⟩ := bind_ok h
    obtain ⟨b, hq, h⟩ := bind_ok h
    obtain ⟨rb, hrb, h⟩ := bind_ok h
    simp only [pure, Except.pure, Except.ok.injEq] at h
    subst h
    obtain ⟨hxa, hwa⟩ := ihp a hs.2.1 hp
    obtain ⟨hxb, hwb⟩ := ihq b hs.2.2 hq
    obtain ⟨_, h1, _, h3, _, h5, _⟩ := Arr.ibinaryBlockwise_spec f hs.1 a b rb.1 rb.2 hwa hwb hrb
    refine ⟨?_, h5⟩
    simp only [evalRef, ← hxa, ← hxb]
    rw [Arr.toLD_rank]
    exact Arr.toLD_eq _ _ _ h1 h3
  | addPrefactor cy c p q ihp ihq =>
    intro r hs h
    simp only [evalArr] at h
    obtain ⟨a, hp, h⟩ := bind_ok h
    obtain ⟨b, hq, h⟩ := bind_ok h
    obtain ⟨rb, hrb, h⟩ := bind_ok h
    simp only [pure, Except.pure, Except.ok.injEq] at h
    subst h
    obtain ⟨hxa, hwa⟩ := ihp a hs.1 hp
    obtain ⟨hxb, hwb⟩ := ihq b hs.2 hq
    obtain ⟨_, h1, _, h3, _, h5, _⟩ := Arr.iaddPrefactorOther_spec hz hz' hadd cy a b rb.1 rb.2 c hwa hwb hrb
    refine ⟨?_, h5⟩
    simp only [evalRef, ← hxa, ← hxb]
    rw [Arr.toLD_rank]
    exact Arr.toLD_eq _ _ _ h1 h3

end C01ProgA
end TenpyModel.Core
