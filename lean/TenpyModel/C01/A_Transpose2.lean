import Mathlib.Data.List.Nodup
import TenpyModel.C01.A_Transpose
/-!
C01 part A — transposition, continued: well-formedness is preserved, and the public wrappers `itranspose`,
`transpose`, `iswapaxes` (argument checks, label / index axes, identity shortcut).
-/
namespace TenpyModel.Core
open Arr (permuteList swapList)

theorem mapM_except_ok {β γ ε : Type} (f : β → Except ε γ) (l : List β) (r : List γ) (h : l.mapM f = .ok r) :
    r.length = l.length ∧ ∀ y ∈ r, ∃ x ∈ l, f x = .ok y := by
  induction l generalizing r with
  | nil =>
    simp only [List.mapM_nil, pure, Except.pure, Except.ok.injEq] at h
    subst h
    simp
  | cons x xs ih =>
    rw [List.mapM_cons] at h
    cases hx : f x with
    | error e => simp [hx, bind, Except.bind] at h
    | ok y =>
      cases hxs : xs.mapM f with
      | error e => simp [hx, hxs, bind, Except.bind] at h
      | ok ys =>
        simp only [hx, hxs, bind, Except.bind, pure, Except.pure, Except.ok.injEq] at h
        subst h
        obtain ⟨h1, h2⟩ := ih ys hxs
        refine ⟨by simp [h1], ?_⟩
        intro y' hy'
        rcases List.mem_cons.1 hy' with rfl | hy'
        · exact ⟨x, by simp, hx⟩
        · obtain ⟨x', hx', hf⟩ := h2 y' hy'
          exact ⟨x', by simp [hx'], hf⟩

theorem permuteList_range {β} (l : List β) (d : β) : permuteList l (List.range l.length) d = l :=
  take?_range l d

theorem isPerm_range (n : Nat) : IsPerm (List.range n) n := IsPerm.of_perm (List.Perm.refl _)

theorem isPerm_range_reverse (n : Nat) : IsPerm (List.range n).reverse n :=
  IsPerm.of_perm (List.reverse_perm _)

theorem unperm_range (n : Nat) (l : List Nat) (hl : l.length = n) : unperm (List.range n) n l = l := by
  have h1 := (isPerm_range n).permute_unperm l hl
  have h2 : (unperm (List.range n) n l).length = n := unperm_length _ _ _
  have h3 := permuteList_range (unperm (List.range n) n l) 0
  rw [h2] at h3
  rw [← h3, h1]

/-- transposing with the identity permutation changes nothing -/
theorem Dense.transpose_range {α : Type} [Zero α] (shape : List Nat) (g : List Nat → α) :
    (Dense.ofFn shape g).transpose (List.range shape.length) = Dense.ofFn shape g := by
  rw [Dense.transpose_eq_ofFn]
  show Dense.ofFn (permuteList shape (List.range shape.length) 0) _ = _
  rw [permuteList_range]
  apply Dense.ofFn_congr_mem
  intro idx hidx
  show (Dense.ofFn shape g).get 0 (unperm (List.range shape.length) shape.length idx) = g idx
  rw [unperm_range _ _ hidx.length_eq, Dense.get_ofFn 0 shape g idx hidx]

namespace IsPerm
variable {axes : List Nat} {n : Nat}

theorem zipWith_permute_both {β δ} (h : IsPerm axes n) (f : β → Nat → δ) (xs : List β) (dx : β) (d : δ)
    (hxs : xs.length = n) (ys : List Nat) (hys : ys.length = n) :
    List.zipWith f (permuteList xs axes dx) (permuteList ys axes 0) = permuteList (List.zipWith f xs ys) axes d := by
  rw [h.zipWith_permute f xs dx d hxs _ (by rw [permuteList_length, h.len]), h.unperm_permute ys hys]

theorem mem_lt (h : IsPerm axes n) (k : Nat) (hk : k ∈ axes) : k < n := by
  obtain ⟨j, hj, rfl⟩ := List.getElem_of_mem hk
  have := h.lt j (by rw [← h.len]; exact hj)
  rwa [getD_lt axes j 0 hj] at this

theorem perm (h : IsPerm axes n) : axes.Perm (List.range n) := by
  have hsub : List.range n ⊆ axes := by
    intro k hk
    have hk' : k < n := by simpa using hk
    have := h.idxOf_lt k hk'
    exact List.idxOf_lt_length_iff.1 (by rw [h.len]; exact this)
  exact ((List.subperm_of_subset List.nodup_range hsub).perm_of_length_le (by simp [h.len])).symm

end IsPerm

namespace Arr
variable {α : Type}

theorem lc_itransposeFast [Zero α] (a : Arr α) (axes : List Nat) (k : Nat) (hk : k < axes.length) :
    (a.itransposeFast axes).lc k = a.lc (axes.getD k 0) := by
  unfold lc
  show ((permuteList a.legs axes default).getD k default).leg = _
  rw [permuteList_getD _ _ _ _ hk]

/-- transposition preserves the storage invariants (the sortedness claim is dropped) -/
theorem WF_itransposeFast [Zero α] (a : Arr α) (axes : List Nat) (ha : a.WF) (hp : IsPerm axes a.rank) :
    (a.itransposeFast axes).WF := by
  obtain ⟨h1, h2, h3, h4, h5, h6, _⟩ := ha
  have hrank : (a.itransposeFast axes).rank = a.rank := by
    show (permuteList a.legs axes default).length = _
    rw [permuteList_length, hp.len]
  refine ⟨?_, ?_, ?_, ?_, ?_, ?_, ?_⟩
  · rw [hrank]
    show (permuteList a.labels axes none).length = _
    rw [permuteList_length, hp.len]
  · show (a.qdata.map _).length = (a.data.map _).length
    simp [h2]
  · show (a.qdata.map _).Nodup
    apply List.Nodup.map_on _ h3
    intro r hr s hs e
    exact hp.permute_inj r s (h5 r hr).1 (h5 s hs).1 e
  · intro l hl
    rw [lcs_itransposeFast] at hl
    obtain ⟨k, hk, rfl⟩ := List.mem_map.1 hl
    exact h4 _ (getD_mem a.lcs k default (by rw [lcs_length]; exact hp.mem_lt k hk))
  · intro r' hr'
    obtain ⟨r, hr, rfl⟩ := List.mem_map.1 hr'
    rw [hrank]
    refine ⟨by rw [permuteList_length, hp.len], ?_⟩
    intro k hk
    have hk' : k < axes.length := by rw [hp.len]; exact hk
    rw [permuteList_getD _ _ _ _ hk', lc_itransposeFast a axes k hk']
    exact (h5 r hr).2 _ (hp.lt k hk)
  · intro rb hrb
    have hz : (a.itransposeFast axes).qdata.zip (a.itransposeFast axes).data
        = (a.qdata.zip a.data).map (fun rb => (permuteList rb.1 axes 0, rb.2.transpose axes)) := by
      show (a.qdata.map _).zip (a.data.map _) = _
      rw [List.zip_map]
      rfl
    rw [hz] at hrb
    obtain ⟨⟨r0, b0⟩, hrb0, rfl⟩ := List.mem_map.1 hrb
    obtain ⟨hs, hv⟩ := h6 (r0, b0) hrb0
    have hr0 := h5 r0 (List.of_mem_zip hrb0).1
    dsimp only at hs hv ⊢
    refine ⟨?_, ?_⟩
    · show permuteList b0.shape axes 0 = _
      rw [lcs_itransposeFast, blockShapeOf_eq_zipWith,
        hp.zipWith_permute_both _ a.lcs default 0 (lcs_length a) r0 hr0.1, hs, blockShapeOf_eq_zipWith]
    · rw [Dense.transpose_eq_ofFn]
      show ((Dense.allIdx _).map _).length = Dense.prod _
      rw [List.length_map, Dense.allIdx_length]
      rfl
  · intro hf
    exact absurd hf (by simp [itransposeFast])

theorem getLegIndex_lt (a : Arr α) (hl : a.labels.length = a.rank) (x : Ax) (k : Nat)
    (h : a.getLegIndex x = .ok k) : k < a.rank := by
  cases x with
  | lbl s =>
    simp only [getLegIndex] at h
    split at h
    · simp only [Except.ok.injEq] at h; omega
    · simp at h
  | idx i =>
    simp only [getLegIndex] at h
    split at h <;> split at h <;> first | (simp at h; done) | (simp only [Except.ok.injEq] at h; omega)

theorem getLegIndices_lt (a : Arr α) (hl : a.labels.length = a.rank) (axs : List Ax) (ax : List Nat)
    (h : a.getLegIndices axs = .ok ax) : ax.length = axs.length ∧ ∀ k ∈ ax, k < a.rank := by
  obtain ⟨h1, h2⟩ := mapM_except_ok _ _ _ h
  refine ⟨h1, ?_⟩
  intro k hk
  obtain ⟨x, _, hx⟩ := h2 k hk
  exact getLegIndex_lt a hl x k hx

/-- transposition by the identity -/
theorem toDense_transpose_range [Zero α] (a : Arr α) : a.toDense = a.toDense.transpose (List.range a.rank) := by
  unfold toDense
  have := Dense.transpose_range a.shape a.entry
  rw [shape_length] at this
  exact this.symm

/-- **`Array.itranspose(axes)`**: whenever the call succeeds, the effective axes `ax` (`None` = reversed) form a
permutation; the dense form is `np.transpose(·, ax)`, legs and labels are permuted, the total charge is unchanged,
the result is well formed, and the cached sortedness claim is dropped unless the call was the identity shortcut. -/
theorem itranspose_spec [Zero α] (a r : Arr α) (axes : Option (List Ax)) (ha : a.WF)
    (h : a.itranspose axes = .ok r) :
    ∃ ax : List Nat, IsPerm ax a.rank
      ∧ (axes = none → ax = (List.range a.rank).reverse)
      ∧ (∀ axs, axes = some axs → a.getLegIndices axs = .ok ax)
      ∧ r.toDense = a.toDense.transpose ax
      ∧ r.legs = permuteList a.legs ax default
      ∧ r.labels = permuteList a.labels ax none
      ∧ r.qtotal = a.qtotal ∧ r.mods = a.mods ∧ r.WF
      ∧ ((axes = none ∨ ax ≠ List.range a.rank) → r.qdataSorted = false) := by
  cases axes with
  | none =>
    simp only [itranspose, Except.ok.injEq] at h
    subst h
    have hp := isPerm_range_reverse a.rank
    exact ⟨_, hp, fun _ => rfl, fun _ hh => by simp at hh, toDense_itransposeFast a _ ha hp, rfl, rfl, rfl, rfl,
      WF_itransposeFast a _ ha hp, fun _ => rfl⟩
  | some axs =>
    simp only [itranspose, bind, Except.bind] at h
    cases hax : a.getLegIndices axs with
    | error e => simp [hax] at h
    | ok ax =>
      simp only [hax] at h
      obtain ⟨_, hlt⟩ := getLegIndices_lt a ha.1 axs ax hax
      split at h
      · simp [throw, throwThe, MonadExceptOf.throw] at h
      · rename_i hchk
        have hchk' : ax.length = a.rank ∧ ax.eraseDups.length = a.rank := by
          constructor
          · exact Classical.byContradiction (fun hh => hchk (Or.inl hh))
          · exact Classical.byContradiction (fun hh => hchk (Or.inr hh))
        have hp : IsPerm ax a.rank := IsPerm.of_checks hchk'.1 hchk'.2 hlt
        split at h
        · rename_i hid
          simp only [pure, Except.pure, Except.ok.injEq] at h
          subst h
          subst hid
          refine ⟨_, hp, fun hh => by simp at hh, fun axs' hh => by cases hh; exact hax,
            toDense_transpose_range a, ?_, ?_, rfl, rfl, ha, ?_⟩
          · have := permuteList_range a.legs default
            exact this.symm
          · have := permuteList_range a.labels none
            rw [ha.1] at this
            exact this.symm
          · intro hh
            rcases hh with hh | hh
            · simp at hh
            · exact absurd rfl hh
        · simp only [pure, Except.pure, Except.ok.injEq] at h
          subst h
          exact ⟨_, hp, fun hh => by simp at hh, fun axs' hh => by cases hh; exact hax,
            toDense_itransposeFast a _ ha hp, rfl, rfl, rfl, rfl, WF_itransposeFast a _ ha hp, fun _ => rfl⟩

/-! ### `iswapaxes` -/

theorem swapList_getD {β} (l : List β) (i j : Nat) (d : β) (hi : i < l.length) (hj : j < l.length) (k : Nat) :
    (swapList l i j d).getD k d = if k = j then l.getD i d else if k = i then l.getD j d else l.getD k d := by
  unfold swapList
  simp only [List.getD_eq_getElem?_getD, List.getElem?_set, List.length_set]
  by_cases hkj : k = j
  · subst hkj; simp [hj]
  · have hjk : ¬ j = k := fun e => hkj e.symm
    simp only [hjk, if_false, hkj]
    by_cases hki : k = i
    · subst hki; simp [hi]
    · have hik : ¬ i = k := fun e => hki e.symm
      simp [hik, hki]

theorem swapList_length {β} (l : List β) (i j : Nat) (d : β) : (swapList l i j d).length = l.length := by
  simp [swapList]

theorem swapList_eq_permuteList {β} (l : List β) (i j : Nat) (d : β) (hi : i < l.length) (hj : j < l.length) :
    swapList l i j d = permuteList l (swapList (List.range l.length) i j 0) d := by
  apply ext_getD _ _ d
  · rw [swapList_length, permuteList_length, swapList_length, List.length_range]
  · intro k hk
    rw [swapList_length] at hk
    rw [permuteList_getD _ _ _ _ (by rw [swapList_length, List.length_range]; exact hk),
      swapList_getD l i j d hi hj k,
      swapList_getD (List.range l.length) i j 0 (by simpa using hi) (by simpa using hj) k]
    by_cases hkj : k = j
    · subst hkj
      simp only [↓reduceIte, getD_range _ _ hi]
    · by_cases hki : k = i
      · subst hki
        simp only [hkj, ↓reduceIte, getD_range _ _ hj]
      · simp only [hkj, hki, ↓reduceIte, getD_range _ _ hk]

theorem set_getD_self {β} (l : List β) (i : Nat) (d : β) : l.set i (l.getD i d) = l := by
  apply List.ext_getElem (by simp)
  intro k h1 h2
  simp only [List.getElem_set]
  split
  · rename_i h
    subst h
    simp [List.getD_eq_getElem?_getD, h2]
  · rfl

theorem swapList_self {β} (l : List β) (i : Nat) (d : β) : swapList l i i d = l := by
  unfold swapList
  rw [set_getD_self, set_getD_self]

theorem swap_perm (n i j : Nat) (hi : i < n) (hj : j < n) : IsPerm (swapList (List.range n) i j 0) n := by
  apply IsPerm.of_perm
  have hi' : i < (List.range n).length := by simpa using hi
  have hj' : j < (List.range n).length := by simpa using hj
  have hmap : swapList (List.range n) i j 0
      = (List.range n).map (fun k => if k = j then i else if k = i then j else k) := by
    apply ext_getD _ _ 0 (by rw [swapList_length, List.length_map])
    intro k hk
    rw [swapList_length, List.length_range] at hk
    rw [swapList_getD _ i j 0 hi' hj' k, getD_map' _ _ k 0 0 (by simpa using hk), getD_range _ _ hk,
      getD_range _ _ hi, getD_range _ _ hj]
  rw [hmap]
  have hnodup : ((List.range n).map (fun k => if k = j then i else if k = i then j else k)).Nodup := by
    apply List.Nodup.map_on _ List.nodup_range
    intro x _ y _ hxy
    split at hxy <;> split at hxy <;> (try split at hxy) <;> (try split at hxy) <;> omega
  have hsub : (List.range n).map (fun k => if k = j then i else if k = i then j else k) ⊆ List.range n := by
    intro x hx
    obtain ⟨k, hk, rfl⟩ := List.mem_map.1 hx
    have hk' : k < n := by simpa using hk
    simp only [List.mem_range]
    split
    · exact hi
    · split
      · exact hj
      · exact hk'
  exact (List.subperm_of_subset hnodup hsub).perm_of_length_le (by simp)

/-- **`Array.iswapaxes`** is a transposition by the swap permutation -/
theorem iswapaxes_spec [Zero α] (a r : Arr α) (x1 x2 : Ax) (ha : a.WF) (h : a.iswapaxes x1 x2 = .ok r) :
    ∃ i j, a.getLegIndex x1 = .ok i ∧ a.getLegIndex x2 = .ok j ∧ i < a.rank ∧ j < a.rank
      ∧ r.toDense = a.toDense.transpose (swapList (List.range a.rank) i j 0)
      ∧ r.legs = swapList a.legs i j default ∧ r.labels = swapList a.labels i j none
      ∧ r.qtotal = a.qtotal ∧ r.mods = a.mods ∧ r.WF ∧ (i ≠ j → r.qdataSorted = false) := by
  simp only [iswapaxes, bind, Except.bind] at h
  cases hi : a.getLegIndex x1 with
  | error e => simp [hi] at h
  | ok i =>
    cases hj : a.getLegIndex x2 with
    | error e => simp [hi, hj] at h
    | ok j =>
      simp only [hi, hj] at h
      have hi' := getLegIndex_lt a ha.1 x1 i hi
      have hj' := getLegIndex_lt a ha.1 x2 j hj
      refine ⟨i, j, rfl, rfl, hi', hj', ?_⟩
      split at h
      · rename_i hij
        simp only [pure, Except.pure, Except.ok.injEq] at h
        subst h
        subst hij
        rw [swapList_self, swapList_self, swapList_self]
        exact ⟨toDense_transpose_range a, rfl, rfl, rfl, rfl, ha, fun hh => absurd rfl hh⟩
      · simp only [pure, Except.pure, Except.ok.injEq] at h
        have hp := swap_perm a.rank i j hi' hj'
        have hr : r = a.itransposeFast (swapList (List.range a.rank) i j 0) := by
          subst h
          unfold itransposeFast
          have e1 := swapList_eq_permuteList a.legs i j default hi' hj'
          have e2 := swapList_eq_permuteList a.labels i j none (by rw [ha.1]; exact hi') (by rw [ha.1]; exact hj')
          rw [ha.1] at e2
          rw [e1, e2]
          rfl
        rw [hr]
        refine ⟨toDense_itransposeFast a _ ha hp, ?_, ?_, rfl, rfl, WF_itransposeFast a _ ha hp, fun _ => rfl⟩
        · exact (swapList_eq_permuteList a.legs i j default hi' hj').symm
        · have e2 := swapList_eq_permuteList a.labels i j none (by rw [ha.1]; exact hi') (by rw [ha.1]; exact hj')
          rw [ha.1] at e2
          exact e2.symm

end Arr
end TenpyModel.Core
