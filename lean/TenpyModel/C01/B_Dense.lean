import Mathlib.Algebra.BigOperators.Group.Finset.Basic
import Mathlib.Algebra.BigOperators.Ring.List
import Mathlib.Tactic.Ring
import TenpyModel.Core.ArrWF
import TenpyModel.C06.ListProofs
import TenpyModel.C06.LegProofs
/-!
C01 part B — helper lemmas about the dense specification `Dense`: multi-indices (`allIdx` = `gridC`), `get` of
`ofFn`, extensionality, sums, and the entry-wise meaning of `Dense.tensordot` / `Dense.inner`.
All names live in the namespace `TenpyModel.C01B` (no clashes with the helper files of part A).
-/
namespace TenpyModel.C01B
open TenpyModel.Core

/-! ### lists -/

theorem getD_toArray {α} (l : List α) (i : Nat) (d : α) : l.toArray.getD i d = l.getD i d := by
  simp [Array.getD, List.getD_eq_getElem?_getD]
  split <;> rename_i h
  · simp [List.getElem?_eq_getElem h]
  · simp [List.getElem?_eq_none (Nat.le_of_not_lt h)]

theorem sum_flatMap' {α β} [AddCommMonoid β] (L : List α) (f : α → List β) :
    (L.flatMap f).sum = (L.map (fun x => (f x).sum)).sum := by
  induction L with
  | nil => rfl
  | cons x L ih => simp [List.flatMap_cons, ih]

theorem sum_map_zero {α β} [AddCommMonoid β] (L : List α) (f : α → β) (h : ∀ x ∈ L, f x = 0) :
    (L.map f).sum = 0 := by
  induction L with
  | nil => rfl
  | cons x L ih =>
    simp only [List.map_cons, List.sum_cons]
    rw [h x (by simp), ih (fun y hy => h y (by simp [hy]))]
    simp

theorem sum_map_congr {α β} [AddCommMonoid β] (L : List α) (f g : α → β) (h : ∀ x ∈ L, f x = g x) :
    (L.map f).sum = (L.map g).sum := by
  rw [List.map_congr_left h]

/-- a sum over a duplicate-free list `G` whose summand vanishes outside the duplicate-free sub-collection `L` -/
theorem sum_support {ι β} [DecidableEq ι] [AddCommMonoid β] (G L : List ι) (F : ι → β) (hG : G.Nodup)
    (hL : L.Nodup) (hsub : ∀ x ∈ L, x ∈ G) (hz : ∀ x ∈ G, x ∉ L → F x = 0) :
    (G.map F).sum = (L.map F).sum := by
  rw [← List.sum_toFinset F hG, ← List.sum_toFinset F hL]
  symm
  apply Finset.sum_subset
  · intro x hx
    simp only [List.mem_toFinset] at hx ⊢
    exact hsub x hx
  · intro x hx hx'
    simp only [List.mem_toFinset] at hx hx'
    exact hz x hx hx'

/-- `Dense.sum` (a left fold) is the list sum -/
theorem dsum_eq {α} [AddCommMonoid α] (l : List α) : Dense.sum l = l.sum := by
  unfold Dense.sum
  exact List.sum_eq_foldl.symm

/-! ### shapes and multi-indices -/

theorem prod_eq (l : List Nat) : Dense.prod l = l.prod := by
  unfold Dense.prod
  rw [foldl_mul]; simp

theorem allIdx_eq : ∀ s : List Nat, Dense.allIdx s = gridC s
  | [] => rfl
  | n :: rest => by simp [Dense.allIdx, gridC, allIdx_eq rest]

theorem strides_eq : ∀ s : List Nat, Dense.strides s = makeStrideC s
  | [] => rfl
  | n :: rest => by simp [Dense.strides, makeStrideC, strides_eq rest, Dense.prod]

theorem flatIdx_eq (s idx : List Nat) : Dense.flatIdx s idx = dot idx (makeStrideC s) := by
  unfold Dense.flatIdx dot
  rw [strides_eq]

theorem inRange_iff (s idx : List Nat) : Dense.inRange s idx = true ↔ InRange idx s := by
  induction idx generalizing s with
  | nil => cases s <;> simp [Dense.inRange, InRange]
  | cons i idx ih =>
    cases s with
    | nil => simp [Dense.inRange, InRange]
    | cons n s =>
      have := ih s
      simp only [Dense.inRange, Bool.and_eq_true, beq_iff_eq, List.all_eq_true] at this
      simp only [Dense.inRange, List.length_cons, Bool.and_eq_true, beq_iff_eq, Nat.add_right_cancel_iff,
        List.zipWith_cons_cons, List.all_cons, id_eq, decide_eq_true_eq, InRange, List.all_eq_true]
      rw [← this]
      constructor
      · rintro ⟨h1, h2, h3⟩; exact ⟨h2, h1, h3⟩
      · rintro ⟨h2, h1, h3⟩; exact ⟨h1, h2, h3⟩

theorem mem_allIdx (s idx : List Nat) : idx ∈ Dense.allIdx s ↔ InRange idx s := by
  rw [allIdx_eq]; exact mem_gridC idx s

theorem allIdx_nodup (s : List Nat) : (Dense.allIdx s).Nodup := by
  rw [allIdx_eq]
  -- injectivity of the C-stride encoding on the grid
  rw [List.nodup_iff_injective_getElem]
  intro ⟨i, hi⟩ ⟨j, hj⟩ e
  simp only at e
  have h1 := (gridC_index s i hi).1
  have h2 := (gridC_index s j hj).1
  rw [getD_lt _ _ _ hi] at h1
  rw [getD_lt _ _ _ hj] at h2
  rw [e] at h1
  exact Fin.ext (by simp only; omega)

theorem allIdx_length (s : List Nat) : (Dense.allIdx s).length = s.prod := by
  rw [allIdx_eq]; exact gridC_length s

theorem InRange_append {u v s t : List Nat} (h : u.length = s.length) :
    InRange (u ++ v) (s ++ t) ↔ InRange u s ∧ InRange v t := by
  induction u generalizing s with
  | nil => cases s with
    | nil => simp [InRange]
    | cons _ _ => simp at h
  | cons x u ih =>
    cases s with
    | nil => simp at h
    | cons n s =>
      simp only [List.length_cons, Nat.add_right_cancel_iff] at h
      simp only [List.cons_append, InRange, ih h, and_assoc]

theorem allIdx_append (s t : List Nat) :
    Dense.allIdx (s ++ t) = (Dense.allIdx s).flatMap (fun u => (Dense.allIdx t).map (fun v => u ++ v)) := by
  induction s with
  | nil => simp [Dense.allIdx]
  | cons n s ih =>
    simp only [List.cons_append, Dense.allIdx, ih, List.flatMap_assoc, List.map_flatMap, List.flatMap_map,
      List.map_map]
    rfl

theorem dot_append (u v s t : List Nat) (h : u.length = s.length) : dot (u ++ v) (s ++ t) = dot u s + dot v t := by
  induction u generalizing s with
  | nil => cases s with
    | nil => simp
    | cons _ _ => simp at h
  | cons x u ih =>
    cases s with
    | nil => simp at h
    | cons n s =>
      simp only [List.length_cons, Nat.add_right_cancel_iff] at h
      simp only [List.cons_append, dot_cons, ih s h]; omega

theorem dot_map_mul (u s : List Nat) (k : Nat) : dot u (s.map (· * k)) = dot u s * k := by
  induction u generalizing s with
  | nil => simp
  | cons x u ih =>
    cases s with
    | nil => simp
    | cons n s => simp only [List.map_cons, dot_cons, ih s]; ring

theorem makeStrideC_append (s t : List Nat) :
    makeStrideC (s ++ t) = (makeStrideC s).map (· * t.prod) ++ makeStrideC t := by
  induction s with
  | nil => simp [makeStrideC]
  | cons n s ih =>
    simp only [List.cons_append, makeStrideC_cons, ih, List.map_cons, List.prod_append]

/-- row-major flat index of a concatenated multi-index -/
theorem flat_append (u v s t : List Nat) (h : u.length = s.length) :
    dot (u ++ v) (makeStrideC (s ++ t)) = dot u (makeStrideC s) * t.prod + dot v (makeStrideC t) := by
  rw [makeStrideC_append, dot_append _ _ _ _ (by simp [makeStrideC_length, h]), dot_map_mul]

/-- the flat indices of the grid rows are `0, 1, …` -/
theorem map_flat_allIdx (s : List Nat) :
    (Dense.allIdx s).map (fun c => dot c (makeStrideC s)) = List.range s.prod := by
  rw [allIdx_eq]
  apply ext_getD _ _ 0 (by simp [gridC_length])
  intro i hi
  simp only [List.length_map] at hi
  rw [getD_map' _ _ i [] 0 hi, (gridC_index s i hi).1, getD_range _ _ (by rw [← gridC_length]; exact hi)]

/-! ### `get` -/

variable {α : Type}

/-- a dense tensor with as many values as its shape says -/
def Good (d : Dense α) : Prop := d.vals.length = d.shape.prod

theorem get_inRange (z : α) (d : Dense α) (idx : List Nat) (h : InRange idx d.shape) :
    d.get z idx = d.vals.getD (dot idx (makeStrideC d.shape)) z := by
  unfold Dense.get
  rw [if_pos ((inRange_iff _ _).2 h), flatIdx_eq]

theorem get_not_inRange (z : α) (d : Dense α) (idx : List Nat) (h : ¬ InRange idx d.shape) : d.get z idx = z := by
  unfold Dense.get
  rw [if_neg (fun h' => h ((inRange_iff _ _).1 h'))]

theorem get_ofFn (z : α) (s : List Nat) (f : List Nat → α) (idx : List Nat) (h : InRange idx s) :
    (Dense.ofFn s f).get z idx = f idx := by
  rw [get_inRange z _ idx h]
  simp only [Dense.ofFn, allIdx_eq]
  have hlt := dot_stride_lt idx s h
  rw [← gridC_length] at hlt
  rw [getD_map' _ _ _ [] z hlt, gridC_getD idx s h]

theorem ofFn_good (s : List Nat) (f : List Nat → α) : Good (Dense.ofFn s f) := by
  simp [Good, Dense.ofFn, allIdx_length]

theorem ofFn_congr_mem (s : List Nat) (g h : List Nat → α) (hgh : ∀ idx, InRange idx s → g idx = h idx) :
    Dense.ofFn s g = Dense.ofFn s h := by
  simp only [Dense.ofFn, Dense.mk.injEq, true_and]
  exact List.map_congr_left (fun idx hidx => hgh idx ((mem_allIdx s idx).1 hidx))

/-- a good dense tensor is determined by its shape and its entries -/
theorem eq_ofFn_get (z : α) (d : Dense α) (hd : Good d) : d = Dense.ofFn d.shape (d.get z) := by
  cases d with
  | mk shape vals =>
    simp only [Dense.ofFn, Dense.mk.injEq, true_and]
    simp only [Good] at hd
    apply ext_getD _ _ z (by simp [allIdx_length, hd])
    intro i hi
    have hi' : i < (Dense.allIdx shape).length := by rw [allIdx_length, ← hd]; exact hi
    rw [getD_map' _ _ i [] z hi']
    have hg : i < (gridC shape).length := by rw [← allIdx_eq]; exact hi'
    obtain ⟨h1, h2⟩ := gridC_index shape i hg
    rw [allIdx_eq, get_inRange z _ _ h2, h1]

theorem ext_get (z : α) (a b : Dense α) (hs : a.shape = b.shape) (ha : Good a) (hb : Good b)
    (h : ∀ idx, InRange idx a.shape → a.get z idx = b.get z idx) : a = b := by
  rw [eq_ofFn_get z a ha, eq_ofFn_get z b hb, ← hs]
  exact ofFn_congr_mem _ _ _ h

end TenpyModel.C01B
