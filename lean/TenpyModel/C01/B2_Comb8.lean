import TenpyModel.C01.B2_Comb7
import TenpyModel.C01.A_Transpose2
/-!
C01 part B2 — part 8: the public `combine_legs`: the steps of `Arr.combineLegs` (`combineLegs_unfold`),
`_combine_legs_new_axes` (`combineNewAxes_unfold`: range of the new axes, `transp` as a fold of insertions),
stable argsort of the new axes.
-/
namespace TenpyModel.C01B2.Comb
open TenpyModel.Core TenpyModel.C01B

variable {α : Type}

/-- the labels `combine_legs` works with (`'?#'` for anonymous legs) -/
def cLabels (a : Arr α) : List String :=
  (List.range a.rank).map (fun i => match a.labels.getD i none with
    | some l => l
    | none => "?" ++ toString i)

/-- the groups in the order of `transp`, before flattening -/
def cT (rank : Nat) (cl : List (List Nat)) (na : List Nat) : List (List Nat) :=
  (Arr.argsortInt (na.map Int.ofNat)).foldl (fun (t : List (List Nat)) s =>
    Dense.insertAt t (Arr.insertPos t.length (na.getD s 0)) (cl.getD s [])) ((cNonComb rank cl).map (fun x => [x]))

section zero
variable [Zero α]

/-- the steps of `Arr.combineLegs` -/
theorem combineLegs_unfold (a r : Arr α) (cl : List (List Ax)) (newAxes : Option (List Int))
    (pipes : Option (List (Option ALeg))) (qconj : List (Option Int))
    (h : a.combineLegs cl newAxes pipes qconj = .ok r) :
    ∃ ps0 cli0 na0 transp, cl ≠ [] ∧ a.combineMakePipes cl pipes qconj = .ok ps0
      ∧ cl.mapM a.getLegIndices = .ok cli0 ∧ cli0.flatten.eraseDups.length = cli0.flatten.length
      ∧ Arr.combineNewAxes a.rank cli0 newAxes = .ok (na0, transp)
      ∧ ((transp = List.range a.rank ∧
            a.combineStd (pick cli0 (Arr.argsortInt (na0.map Int.ofNat)) [])
              (pick na0 (Arr.argsortInt (na0.map Int.ofNat)) 0)
              (pick ps0 (Arr.argsortInt (na0.map Int.ofNat)) default) (cLabels a) = .ok r)
        ∨ (transp ≠ List.range a.rank ∧ ∃ r1 r2, a.isetLegLabels ((cLabels a).map some) = .ok r1
            ∧ r1.itranspose (some (transp.map (fun i => Ax.idx (Int.ofNat i)))) = .ok r2
            ∧ r2.combineStd ((pick cli0 (Arr.argsortInt (na0.map Int.ofNat)) []).map
                  (fun c => c.map (fun x => (inversePerm transp).getD x 0)))
                (pick na0 (Arr.argsortInt (na0.map Int.ofNat)) 0)
                (pick ps0 (Arr.argsortInt (na0.map Int.ofNat)) default)
                (r2.labels.map (fun l => l.getD "")) = .ok r)) := by
  unfold Arr.combineLegs at h
  simp only [bind, Except.bind, throw, throwThe, MonadExceptOf.throw] at h
  split at h
  · simp at h
  rename_i hne
  split at h
  · simp at h
  rename_i ps0 hps
  split at h
  · simp at h
  rename_i cli0 hcli
  split at h
  · simp at h
  rename_i hdup
  split at h
  · simp at h
  rename_i nt hnt
  obtain ⟨na0, transp⟩ := nt
  refine ⟨ps0, cli0, na0, transp, by intro e; apply hne; simp [e], hps, hcli, Decidable.not_not.1 hdup, hnt, ?_⟩
  simp only at h
  split at h
  · rename_i htr
    right
    refine ⟨htr, ?_⟩
    split at h
    · simp at h
    rename_i r1 hr1
    split at h
    · simp at h
    rename_i r2 hr2
    exact ⟨r1, r2, hr1, hr2, h⟩
  · rename_i htr
    exact Or.inl ⟨Decidable.not_not.1 htr, h⟩

end zero

theorem filter_length_lt_of_mem {β} (l : List β) (p : β → Bool) (x : β) (hx : x ∈ l) (hp : p x = false) :
    (l.filter p).length < l.length := by
  induction l with
  | nil => simp at hx
  | cons y l ih =>
    rw [List.filter_cons]
    rcases List.mem_cons.1 hx with rfl | hx'
    · rw [hp]
      have := List.length_filter_le p l
      simp only [Bool.false_eq_true, if_false, List.length_cons]
      omega
    · have := ih hx'
      split <;> simp only [List.length_cons] <;> omega

/-- `_combine_legs_new_axes` -/
theorem combineNewAxes_unfold (rank : Nat) (cl : List (List Nat)) (newAxes : Option (List Int)) (na transp : List Nat)
    (h : Arr.combineNewAxes rank cl newAxes = .ok (na, transp)) :
    na.length = cl.length ∧ (∀ x ∈ na, x < (cNonComb rank cl).length + cl.length)
    ∧ transp = (cT rank cl na).flatten := by
  cases newAxes with
  | none =>
    simp only [Arr.combineNewAxes, bind, Except.bind, pure, Except.pure, Except.ok.injEq, Prod.mk.injEq] at h
    obtain ⟨rfl, rfl⟩ := h
    refine ⟨by simp, ?_, rfl⟩
    intro x hx
    obtain ⟨y, hy, rfl⟩ := List.mem_map.1 hx
    have h1 := List.length_filter_le (fun z => decide (z < y)) (cNonComb rank cl)
    have h2 : ((cl.map (fun c => c.headD 0)).filter (fun z => decide (z < y))).length
        < (cl.map (fun c => c.headD 0)).length :=
      filter_length_lt_of_mem _ _ y hy (by simp)
    rw [List.length_map] at h2
    show (List.filter (fun z => decide (z < y)) (cNonComb rank cl)).length + _ < _
    omega
  | some nas =>
    simp only [Arr.combineNewAxes, bind, Except.bind, pure, Except.pure] at h
    split at h
    · simp [throw, throwThe, MonadExceptOf.throw] at h
    rename_i hl
    split at h
    · simp at h
    rename_i na' hna
    simp only [Except.ok.injEq, Prod.mk.injEq] at h
    obtain ⟨rfl, rfl⟩ := h
    obtain ⟨m1, m2⟩ := mapM_except_ok _ nas na' hna
    refine ⟨by rw [m1]; exact Decidable.not_not.1 hl, ?_, rfl⟩
    intro x hx
    obtain ⟨y, _, hy⟩ := m2 x hx
    show x < (List.filter (fun x => !cl.flatten.contains x) (List.range rank)).length + cl.length
    split at hy
    · split at hy
      · simp [throw, throwThe, MonadExceptOf.throw] at hy
      · simp only [Except.ok.injEq] at hy
        omega
    · split at hy
      · simp [throw, throwThe, MonadExceptOf.throw] at hy
      · simp only [Except.ok.injEq] at hy
        omega

/-! ### stable argsort -/

theorem argsort_perm (l : List Nat) : (Arr.argsortInt (l.map Int.ofNat)).Perm (List.range l.length) := by
  have := lexsort_perm ((l.map Int.ofNat).map (fun x => [x]))
  simpa [Arr.argsortInt] using this

theorem lexLE_single (x y : Int) : lexLE [x] [y] = true ↔ x ≤ y := by
  have : lexLE [x] [y] = (if x < y then true else if y < x then false else true) := rfl
  rw [this]
  split
  · simp; omega
  · split
    · simp; omega
    · simp; omega

theorem argsort_sorted (l : List Nat) :
    (pick l (Arr.argsortInt (l.map Int.ofNat)) 0).Pairwise (· ≤ ·) := by
  have hs := take?_lexsort_sorted ((l.map Int.ofNat).map (fun x => [x]))
  have hp := argsort_perm l
  have e : ∀ p : List Nat, (∀ i ∈ p, i < l.length) →
      take? ((l.map Int.ofNat).map (fun x => [x])) p [] = (pick l p 0).map (fun x => [Int.ofNat x]) := by
    intro p hp
    induction p with
    | nil => rfl
    | cons i p ih =>
      simp only [take?, pick, List.map_cons] at ih ⊢
      rw [ih (fun j hj => hp j (by simp [hj]))]
      congr 1
      rw [getD_map' _ _ i 0 [] (by simpa using hp i (by simp)), getD_map' _ _ i 0 0 (hp i (by simp))]
  have e' := e (lexsort ((l.map Int.ofNat).map (fun x => [x]))) (fun i hi => by
    have := hp.mem_iff.1 (by simpa [Arr.argsortInt] using hi)
    simpa using this)
  rw [e', List.pairwise_map] at hs
  refine hs.imp ?_
  intro x y hxy
  have := (lexLE_single _ _).1 hxy
  simpa using this

theorem pick_perm {β} (l : List β) (p : List Nat) (d : β) (h : p.Perm (List.range l.length)) : (pick l p d).Perm l :=
  take?_perm l d p h

theorem argsort_strict (l : List Nat) (hn : l.Nodup) :
    (pick l (Arr.argsortInt (l.map Int.ofNat)) 0).Pairwise (· < ·) := by
  have h1 := argsort_sorted l
  have h2 : (pick l (Arr.argsortInt (l.map Int.ofNat)) 0).Nodup :=
    (pick_perm l _ 0 (argsort_perm l)).nodup_iff.2 hn
  exact (h1.and h2).imp (fun h => by omega)

/-- the fold of `_combine_legs_new_axes` is the fold of `combineStd` over the reordered lists -/
theorem foldl_order_insFold {β} (na : List Nat) (items : List β) (d : β) (order : List Nat) :
    ∀ base : List β, order.foldl (fun (t : List β) s =>
        Dense.insertAt t (Arr.insertPos t.length (na.getD s 0)) (items.getD s d)) base
      = insFold base (pick na order 0) (pick items order d) := by
  induction order with
  | nil => intro base; rfl
  | cons s order ih =>
    intro base
    rw [List.foldl_cons, ih]
    rfl

end TenpyModel.C01B2.Comb
