import TenpyModel.C01.C_Charge6
import TenpyModel.C01.C_Charge10
import TenpyModel.C01.C_Sort8
/-!
C01 part C — `sort_legcharge`: `combine_legs` with one-leg pipes `LegPipe([leg], qconj=leg.qconj, sort, bunch)`, then the
pipes are replaced by their `LegCharge` view. The result obeys the charge rule and has valid legs.
-/
namespace TenpyModel.C01C
open TenpyModel.Core TenpyModel.C01B TenpyModel.C01B2 TenpyModel.C01B2.Comb TenpyModel.C01C.SortLc

variable {α : Type}

/-- the directions of all legs are `±1` (part of `LegCharge.test_sanity`; decidable) -/
def LegsQ (a : Arr α) : Prop := ∀ l ∈ a.legs, l.leg.qconj = 1 ∨ l.leg.qconj = -1

instance (a : Arr α) : Decidable (LegsQ a) := by unfold LegsQ; infer_instance

/-- the one-leg pipes of `sort_legcharge` point in the direction of their leg -/
theorem pipesQ_sel (a : Arr α) (hq : LegsQ a) (sort bunch : List Bool) : PipesQ (sPipes a sort bunch) := by
  intro x hx
  obtain ⟨k, hk, rfl⟩ := List.mem_map.1 hx
  have hk' : k < a.rank := sAxes_lt _ _ _ _ hk
  have e : (sPipeLeg a sort bunch k).leg.qconj = (a.lc k).qconj :=
    (Pipe.init_mods_qconj [a.lc k] (a.lc k).qconj (sort.getD k false) (bunch.getD k false)).2
  rw [e]
  exact hq _ (getD_mem a.legs k default hk')

/-- **`sort_legcharge(sort, bunch)`** -/
theorem chargeRule_sortLegcharge [Zero α] (a : Arr α) (ha : a.WF) (hc : a.ChargeRule) (hv : LegsValid a)
    (hq : LegsQ a) (sort bunch : List Bool) (perms : List (List Nat)) (cp : Arr α)
    (h : a.sortLegcharge sort bunch = .ok (perms, cp)) : cp.ChargeRule ∧ LegsValid cp := by
  obtain ⟨_, _, r, hcall, hlen, hget, _, hcp⟩ := sort_core a ha sort bunch perms cp h
  have hstd := stdForm_sel a.rank _ (sAxes_asc a.rank sort bunch) (sAxes_lt _ _ _)
  obtain ⟨c, v⟩ := chargeRule_combineStd a r ha hc hv _ _ _ _ (sGroups_length _).symm
    (by rw [sPipes_length, sGroups_length]) (pipesOK_sel a sort bunch) hstd (pipesQ_sel a hq sort bunch) hcall
  have hl : cp.lcs = r.lcs := by
    rw [hcp]; exact sRes_lcs a r sort bunch hlen hget
  exact chargeRule_of_same r cp (by rw [hcp]) hl (by rw [hcp]) (by rw [hcp]) c v

end TenpyModel.C01C
