import TenpyModel.C01.B_DenseOps
import TenpyModel.C01.SortProofs
import TenpyModel.C06.PipeMapProofs
/-!
C01 part B — helper lemmas about the block-sparse model `Arr`: block lookup under duplicate-free `_qdata`,
the per-leg `(qindex, within)` decomposition of flat indices, and the decomposition of a sum over all
multi-indices into a sum over blocks and positions within the block.
-/
namespace TenpyModel.C01B
open TenpyModel.Core

/-! ### association lists with functional keys -/

theorem find_rev_mem {β} (L : List (List Nat × β)) (hk : ∀ x ∈ L, ∀ y ∈ L, x.1 = y.1 → x = y)
    (e : List Nat × β) (he : e ∈ L) : L.reverse.find? (fun rb => rb.1 == e.1) = some e := by
  cases h : L.reverse.find? (fun rb => rb.1 == e.1) with
  | none =>
    have := List.find?_eq_none.1 h e (List.mem_reverse.2 he)
    simp at this
  | some x =>
    have hx := List.mem_reverse.1 (List.mem_of_find?_eq_some h)
    have hp := List.find?_some h
    rw [hk x hx e he (eq_of_beq hp)]

theorem find_rev_none {β} (L : List (List Nat × β)) (q : List Nat) (h : ∀ e ∈ L, e.1 ≠ q) :
    L.reverse.find? (fun rb => rb.1 == q) = none := by
  apply List.find?_eq_none.2
  intro x hx
  simpa using h x (List.mem_reverse.1 hx)

/-! ### (qindex, within) -/

/-- block indices of a multi-index -/
def qOf (ls : List Leg) (idx : List Nat) : List Nat := (List.zipWith (fun l i => l.locate i) ls idx).map (·.1)
/-- positions within the blocks -/
def wOf (ls : List Leg) (idx : List Nat) : List Nat := (List.zipWith (fun l i => l.locate i) ls idx).map (·.2)

@[simp] theorem qOf_cons (l : Leg) (ls : List Leg) (i : Nat) (idx : List Nat) :
    qOf (l :: ls) (i :: idx) = (l.locate i).1 :: qOf ls idx := rfl
@[simp] theorem wOf_cons (l : Leg) (ls : List Leg) (i : Nat) (idx : List Nat) :
    wOf (l :: ls) (i :: idx) = (l.locate i).2 :: wOf ls idx := rfl

theorem qOf_append (ls ms : List Leg) (u v : List Nat) (h : u.length = ls.length) :
    qOf (ls ++ ms) (u ++ v) = qOf ls u ++ qOf ms v := by
  unfold qOf
  rw [List.zipWith_append h.symm, List.map_append]

theorem wOf_append (ls ms : List Leg) (u v : List Nat) (h : u.length = ls.length) :
    wOf (ls ++ ms) (u ++ v) = wOf ls u ++ wOf ms v := by
  unfold wOf
  rw [List.zipWith_append h.symm, List.map_append]

theorem qOf_length (ls : List Leg) (idx : List Nat) (h : idx.length = ls.length) : (qOf ls idx).length = ls.length := by
  simp [qOf, h]

theorem locate_spec {l : Leg} (h : l.Shape) (x : Nat) (hx : x < l.indLen) :
    (l.locate x).1 < l.blockNumber ∧ l.slices.getD (l.locate x).1 0 ≤ x ∧
      x < l.slices.getD ((l.locate x).1 + 1) 0 ∧ l.slices.getD (l.locate x).1 0 + (l.locate x).2 = x :=
  Leg.locateQ_spec h x hx

/-- inside block `q` at position `w`: `locate` finds `(q, w)` -/
theorem locate_block {l : Leg} (h : l.Shape) (q w : Nat) (hq : q < l.blockNumber) (hw : w < l.blockSizes.getD q 0) :
    l.slices.getD q 0 + w < l.indLen ∧ l.locate (l.slices.getD q 0 + w) = (q, w) := by
  have hlen := h.sizes_len
  have e1 := h.slices_getD q (Nat.le_of_lt hq)
  have hlt : l.slices.getD q 0 + w < l.indLen := by
    rw [e1, h.indLen_eq]; exact psum_add_lt _ _ _ (by rw [hlen]; exact hq) hw
  refine ⟨hlt, ?_⟩
  obtain ⟨a1, a2, a3, a4⟩ := locate_spec h _ hlt
  have e2 := h.slices_getD (l.locate (l.slices.getD q 0 + w)).1 (Nat.le_of_lt a1)
  have e3 := h.slices_succ _ a1
  have := psum_add_inj l.blockSizes (l.locate (l.slices.getD q 0 + w)).1 (l.locate (l.slices.getD q 0 + w)).2 q w
    (by rw [hlen]; exact a1) (by rw [hlen]; exact hq) (by omega) hw (by omega)
  exact Prod.ext this.1 this.2

theorem blockShapeOf_cons (l : Leg) (ls : List Leg) (q : Nat) (qs : List Nat) :
    blockShapeOf (l :: ls) (q :: qs) = l.blockSizes.getD q 0 :: blockShapeOf ls qs := rfl
theorem blockStartOf_cons (l : Leg) (ls : List Leg) (q : Nat) (qs : List Nat) :
    blockStartOf (l :: ls) (q :: qs) = l.slices.getD q 0 :: blockStartOf ls qs := rfl

/-- multi-index version of `locate_block` -/
theorem locate_blocks (ls : List Leg) (hs : ∀ l ∈ ls, l.Shape) (q w : List Nat)
    (hq : InRange q (ls.map Leg.blockNumber)) (hw : InRange w (blockShapeOf ls q)) :
    InRange (List.zipWith (· + ·) (blockStartOf ls q) w) (ls.map Leg.indLen)
    ∧ qOf ls (List.zipWith (· + ·) (blockStartOf ls q) w) = q
    ∧ wOf ls (List.zipWith (· + ·) (blockStartOf ls q) w) = w := by
  induction ls generalizing q w with
  | nil =>
    cases q with
    | nil => cases w with
      | nil => simp [InRange, qOf, wOf, blockStartOf]
      | cons _ _ => exact hw.elim
    | cons _ _ => exact hq.elim
  | cons l ls ih =>
    cases q with
    | nil => exact hq.elim
    | cons q0 q =>
      cases w with
      | nil => exact hw.elim
      | cons w0 w =>
        obtain ⟨b1, b2⟩ := locate_block (hs l (by simp)) q0 w0 hq.1 hw.1
        obtain ⟨i1, i2, i3⟩ := ih (fun m hm => hs m (by simp [hm])) q w hq.2 hw.2
        simp only [blockStartOf_cons, List.zipWith_cons_cons, List.map_cons, InRange, qOf_cons, wOf_cons, b2, i2, i3]
        exact ⟨⟨b1, i1⟩, trivial, trivial⟩

/-- every in-range multi-index lies in a block -/
theorem locate_idx (ls : List Leg) (hs : ∀ l ∈ ls, l.Shape) (idx : List Nat)
    (hi : InRange idx (ls.map Leg.indLen)) :
    InRange (qOf ls idx) (ls.map Leg.blockNumber) ∧ InRange (wOf ls idx) (blockShapeOf ls (qOf ls idx))
    ∧ List.zipWith (· + ·) (blockStartOf ls (qOf ls idx)) (wOf ls idx) = idx := by
  induction ls generalizing idx with
  | nil =>
    cases idx with
    | nil => simp [InRange, qOf, wOf, blockStartOf, blockShapeOf]
    | cons _ _ => exact hi.elim
  | cons l ls ih =>
    cases idx with
    | nil => exact hi.elim
    | cons x idx =>
      have hl := hs l (by simp)
      obtain ⟨a1, a2, a3, a4⟩ := locate_spec hl x hi.1
      obtain ⟨i1, i2, i3⟩ := ih (fun m hm => hs m (by simp [hm])) idx hi.2
      have e3 := hl.slices_succ _ a1
      simp only [qOf_cons, wOf_cons, List.map_cons, InRange, blockShapeOf_cons, blockStartOf_cons,
        List.zipWith_cons_cons, i3, a4]
      exact ⟨⟨a1, i1⟩, ⟨by omega, i2⟩, trivial⟩

/-! ### sums over all multi-indices, block by block -/

section sums
variable {β : Type} [AddCommMonoid β]

theorem sum_comm' {ι κ} (L1 : List ι) (L2 : List κ) (F : ι → κ → β) :
    (L1.map (fun a => (L2.map (F a)).sum)).sum = (L2.map (fun b => (L1.map (fun a => F a b)).sum)).sum := by
  induction L1 with
  | nil => simp
  | cons a L1 ih =>
    simp only [List.map_cons, List.sum_cons, ih]
    rw [← List.sum_map_add]

theorem sum_range_blocks (s : List Nat) (g : Nat → β) :
    ((List.range s.sum).map g).sum
      = ((List.range s.length).map (fun q => ((List.range (s.getD q 0)).map (fun w => g (psum s q + w))).sum)).sum := by
  induction s generalizing g with
  | nil => simp
  | cons a s ih =>
    rw [List.sum_cons, List.range_add, List.map_append, List.sum_append, List.length_cons, List.range_succ_eq_map]
    simp only [List.map_cons, List.sum_cons, List.map_map, List.getD_cons_zero, psum_zero, Nat.zero_add]
    congr 1
    have := ih (fun x => g (a + x))
    simp only [Function.comp_def] at this ⊢
    rw [this]
    apply sum_map_congr
    intro q _
    simp only [List.getD_cons_succ, psum_cons_succ, Nat.add_assoc]

/-- one leg: `Σ_x g x = Σ_q Σ_{w < size q} g (slices[q] + w)` -/
theorem sum_leg_blocks {l : Leg} (h : l.Shape) (g : Nat → β) :
    ((List.range l.indLen).map g).sum
      = ((List.range l.blockNumber).map (fun q =>
          ((List.range (l.blockSizes.getD q 0)).map (fun w => g (l.slices.getD q 0 + w))).sum)).sum := by
  rw [h.indLen_eq, sum_range_blocks, h.sizes_len]
  apply sum_map_congr
  intro q hq
  rw [h.slices_getD q (Nat.le_of_lt (List.mem_range.1 hq))]

/-- all legs: a sum over all multi-indices = sum over block tuples of the sum over the block -/
theorem sum_blocks (ls : List Leg) (hs : ∀ l ∈ ls, l.Shape) (f : List Nat → β) :
    ((Dense.allIdx (ls.map Leg.indLen)).map f).sum
      = ((gridC (ls.map Leg.blockNumber)).map (fun q =>
          ((Dense.allIdx (blockShapeOf ls q)).map (fun w => f (List.zipWith (· + ·) (blockStartOf ls q) w))).sum)).sum := by
  induction ls generalizing f with
  | nil => simp [Dense.allIdx, gridC, blockShapeOf, blockStartOf]
  | cons l ls ih =>
    have hl := hs l (by simp)
    have hls : ∀ m ∈ ls, m.Shape := fun m hm => hs m (by simp [hm])
    simp only [List.map_cons, Dense.allIdx, gridC]
    rw [List.map_flatMap, sum_flatMap', List.map_flatMap, sum_flatMap']
    simp only [List.map_map, Function.comp_def]
    rw [sum_leg_blocks hl (fun i => ((Dense.allIdx (ls.map Leg.indLen)).map (fun t => f (i :: t))).sum)]
    apply sum_map_congr
    intro q0 _
    simp only [blockShapeOf_cons, blockStartOf_cons, Dense.allIdx, List.map_flatMap, sum_flatMap', List.map_map,
      Function.comp_def, List.zipWith_cons_cons]
    -- Σ_w0 Σ_t … = Σ_q Σ_w0 Σ_w …
    have : ∀ w0, ((Dense.allIdx (ls.map Leg.indLen)).map (fun t => f ((l.slices.getD q0 0 + w0) :: t))).sum
        = ((gridC (ls.map Leg.blockNumber)).map (fun q =>
            ((Dense.allIdx (blockShapeOf ls q)).map (fun w =>
              f ((l.slices.getD q0 0 + w0) :: List.zipWith (· + ·) (blockStartOf ls q) w))).sum)).sum :=
      fun w0 => ih hls (fun t => f ((l.slices.getD q0 0 + w0) :: t))
    simp only [this]
    rw [sum_comm']

end sums

end TenpyModel.C01B
