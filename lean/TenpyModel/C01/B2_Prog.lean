import TenpyModel.C01.B2_Dot10
import TenpyModel.C01.A_Program2
import TenpyModel.C01.B2_Trace5
import TenpyModel.C01.B_Trace
/-!
C01 part B2 — finite programs over the operations of part A *and* the contraction-type operations that are now fully
proved (`outer`, `tensordot` with an integer or with a pair of axis lists): syntax, evaluation on the block-sparse
model, reference semantics on labelled dense tensors, and the induction.
-/
namespace TenpyModel.Core
open Arr (permuteList)
open TenpyModel.C01B TenpyModel.C01B2

/-- finite programs over part A's operations and the products. `partA p x y` runs the part-A program `p` on the two
computed operands `x`, `y` (its `input 0`, `input 1`). -/
inductive C01ProgAB (α : Type) where
  | input (i : Nat)
  | partA (p : C01ProgA α) (x y : C01ProgAB α)
  | outer (x y : C01ProgAB α)
  | tensordot (k : Nat) (x y : C01ProgAB α)
  | tensordotAxes (xa xb : List Ax) (x y : C01ProgAB α)
  | trace (l1 l2 : Ax) (x : C01ProgAB α)

namespace C01ProgAB
variable {α : Type}

/-- a tensor-valued `tensordot` (a full contraction returns a scalar: outside these programs) -/
def dotArr [Add α] [Mul α] [Zero α] (cy : Bool) (a b : Arr α) (axes : Arr.DotAxes) : Except Err (Arr α) :=
  match Arr.tensordot cy a b axes with
  | .ok (.arr r) => .ok r
  | .ok (.scalar _) => .error .typeError
  | .error e => .error e

/-- a tensor-valued `trace` (rank 2 returns a scalar: outside these programs) -/
def traceArr [Add α] [Zero α] (a : Arr α) (l1 l2 : Ax) : Except Err (Arr α) :=
  match a.trace l1 l2 with
  | .ok (.arr r) => .ok r
  | .ok (.scalar _) => .error .typeError
  | .error e => .error e

/-- evaluation on the block-sparse model -/
def evalArr [Zero α] [Neg α] [Add α] [Mul α] [DecidableEq α] (st : α → α) (cy : Bool) (env : List (Arr α)) :
    C01ProgAB α → Except Err (Arr α)
  | .input i => match env[i]? with
    | some a => .ok a
    | none => .error .indexError
  | .partA p x y => do
    let a ← evalArr st cy env x
    let b ← evalArr st cy env y
    p.evalArr st [a, b]
  | .outer x y => do
    let a ← evalArr st cy env x
    let b ← evalArr st cy env y
    a.outer b
  | .tensordot k x y => do
    let a ← evalArr st cy env x
    let b ← evalArr st cy env y
    dotArr cy a b (.int (k : Int))
  | .tensordotAxes xa xb x y => do
    let a ← evalArr st cy env x
    let b ← evalArr st cy env y
    dotArr cy a b (.pair xa xb)
  | .trace l1 l2 x => do
    let a ← evalArr st cy env x
    traceArr a l1 l2

/-- the permutations of `_tensordot_transpose_axes` on a labelled dense tensor -/
def dotPa (x : LDense α) (xa : List Ax) : List Nat :=
  (List.range x.d.rank).filter (fun i => !(x.axs xa).contains i) ++ x.axs xa
def dotPb (y : LDense α) (xb : List Ax) : List Nat :=
  y.axs xb ++ (List.range y.d.rank).filter (fun i => !(y.axs xb).contains i)

/-- reference semantics: numpy on the values, the documented label rules on the labels -/
def evalRef [Zero α] [Neg α] [Add α] [Mul α] (st : α → α) (env : List (LDense α)) : C01ProgAB α → LDense α
  | .input i => env.getD i ⟨⟨[], []⟩, []⟩
  | .partA p x y => p.evalRef st [evalRef st env x, evalRef st env y]
  | .outer x y =>
    let u := evalRef st env x
    let v := evalRef st env y
    ⟨Dense.outer u.d v.d, Label.dropDuplicate u.labels v.labels⟩
  | .tensordot k x y =>
    let u := evalRef st env x
    let v := evalRef st env y
    ⟨Dense.tensordot u.d v.d k, Label.dropDuplicate (u.labels.take (u.d.rank - k)) (v.labels.drop k)⟩
  | .tensordotAxes xa xb x y =>
    let u := evalRef st env x
    let v := evalRef st env y
    let k := (u.axs xa).length
    ⟨Dense.tensordot (u.d.transpose (dotPa u xa)) (v.d.transpose (dotPb v xb)) k,
     Label.dropDuplicate ((permuteList u.labels (dotPa u xa) none).take (u.d.rank - k))
       ((permuteList v.labels (dotPb v xb) none).drop k)⟩
  | .trace l1 l2 x =>
    let u := evalRef st env x
    ⟨Dense.trace u.d (u.ax l1) (u.ax l2),
     pick u.labels ((List.range u.d.rank).filter (fun k => k ≠ u.ax l1 ∧ k ≠ u.ax l2)) none⟩

/-- side conditions: those of part A at every embedded part-A program; charge rule and valid leg charges of the two
operands of every `tensordot` (closure of these under the operations is property C02) -/
def Side [Zero α] [Neg α] [Add α] [Mul α] [DecidableEq α] (st : α → α) (cy : Bool) (env : List (Arr α)) :
    C01ProgAB α → Prop
  | .input _ => True
  | .partA p x y => Side st cy env x ∧ Side st cy env y ∧
      ∀ a b, evalArr st cy env x = .ok a → evalArr st cy env y = .ok b → p.Side st [a, b]
  | .outer x y => Side st cy env x ∧ Side st cy env y
  | .tensordot _ x y => Side st cy env x ∧ Side st cy env y ∧
      ∀ a b, evalArr st cy env x = .ok a → evalArr st cy env y = .ok b →
        a.ChargeRule ∧ b.ChargeRule ∧ LegsValid a ∧ LegsValid b
  | .tensordotAxes _ _ x y => Side st cy env x ∧ Side st cy env y ∧
      ∀ a b, evalArr st cy env x = .ok a → evalArr st cy env y = .ok b →
        a.ChargeRule ∧ b.ChargeRule ∧ LegsValid a ∧ LegsValid b
  | .trace _ _ x => Side st cy env x

theorem traceArr_ok [Add α] [Zero α] (a r : Arr α) (l1 l2 : Ax) (h : traceArr a l1 l2 = .ok r) :
    a.trace l1 l2 = .ok (.arr r) := by
  unfold traceArr at h
  split at h
  · rename_i r' hr
    simp only [Except.ok.injEq] at h
    rw [hr, h]
  · simp at h
  · simp at h

theorem dotArr_ok [Add α] [Mul α] [Zero α] (cy : Bool) (a b r : Arr α) (axes : Arr.DotAxes)
    (h : dotArr cy a b axes = .ok r) : Arr.tensordot cy a b axes = .ok (.arr r) := by
  unfold dotArr at h
  split at h
  · rename_i r' hr
    simp only [Except.ok.injEq] at h
    rw [hr, h]
  · simp at h
  · simp at h

theorem toLD_eq [Zero α] (r : Arr α) (x : LDense α) (h : r.toLD = x) : r.toDense = x.d ∧ r.labels = x.labels :=
  ⟨congrArg LDense.d h, congrArg LDense.labels h⟩

/-- **all finite programs over part A and the products** -/
theorem evalArr_spec [CommRing α] [DecidableEq α] (st : α → α) (hst : st 0 = 0) (cy : Bool)
    (env : List (Arr α)) (henv : ∀ a ∈ env, a.WF) (p : C01ProgAB α) :
    ∀ r, Side st cy env p → evalArr st cy env p = .ok r → r.toLD = evalRef st (env.map Arr.toLD) p ∧ r.WF := by
  induction p with
  | input i =>
    intro r _ h
    simp only [evalArr] at h
    cases hi : env[i]? with
    | none => simp [hi] at h
    | some a =>
      simp only [hi, Except.ok.injEq] at h
      subst h
      refine ⟨?_, henv a (List.mem_of_getElem? hi)⟩
      simp only [evalRef, List.getD_eq_getElem?_getD, List.getElem?_map, hi, Option.map_some, Option.getD_some]
  | partA p x y ihx ihy =>
    intro r hs h
    simp only [evalArr, bind, Except.bind] at h
    cases hx : evalArr st cy env x with
    | error e => rw [hx] at h; simp at h
    | ok a =>
      cases hy : evalArr st cy env y with
      | error e => rw [hx, hy] at h; simp at h
      | ok b =>
        rw [hx, hy] at h
        simp only at h
        obtain ⟨ea, wa⟩ := ihx a hs.1 hx
        obtain ⟨eb, wb⟩ := ihy b hs.2.1 hy
        have := C01ProgA.evalArr_spec st hst neg_zero mul_zero zero_mul add_zero [a, b]
          (fun c hc => by
            rcases List.mem_cons.1 hc with rfl | hc
            · exact wa
            · have : c = b := by simpa using hc
              subst this; exact wb) p r (hs.2.2 a b hx hy) h
        refine ⟨?_, this.2⟩
        rw [this.1]
        simp only [evalRef, List.map_cons, List.map_nil, ea, eb]
  | outer x y ihx ihy =>
    intro r hs h
    simp only [evalArr, bind, Except.bind] at h
    cases hx : evalArr st cy env x with
    | error e => rw [hx] at h; simp at h
    | ok a =>
      cases hy : evalArr st cy env y with
      | error e => rw [hx, hy] at h; simp at h
      | ok b =>
        rw [hx, hy] at h
        simp only at h
        obtain ⟨ea, wa⟩ := ihx a hs.1 hx
        obtain ⟨eb, wb⟩ := ihy b hs.2 hy
        obtain ⟨da, la⟩ := toLD_eq a _ ea
        obtain ⟨db, lb⟩ := toLD_eq b _ eb
        obtain ⟨_, _, _, h4, _⟩ := outer_ok a b r h
        refine ⟨?_, outer_WF a b r (W.of wa) (W.of wb) h⟩
        simp only [evalRef, Arr.toLD, outer_toDense a b r (W.of wa) (W.of wb) h, h4, da, db, la, lb]
  | tensordot k x y ihx ihy =>
    intro r hs h
    simp only [evalArr, bind, Except.bind] at h
    cases hx : evalArr st cy env x with
    | error e => rw [hx] at h; simp at h
    | ok a =>
      cases hy : evalArr st cy env y with
      | error e => rw [hx, hy] at h; simp at h
      | ok b =>
        rw [hx, hy] at h
        simp only at h
        obtain ⟨ea, wa⟩ := ihx a hs.1 hx
        obtain ⟨eb, wb⟩ := ihy b hs.2.1 hy
        obtain ⟨da, la⟩ := toLD_eq a _ ea
        obtain ⟨db, lb⟩ := toLD_eq b _ eb
        obtain ⟨ca, cb, va, vb⟩ := hs.2.2 a b hx hy
        have hdot := dotArr_ok cy a b r _ h
        have hnf : ¬(k = a.rank ∧ k = b.rank) := by
          intro hf
          have := (tensordot_special cy a b (W.of wa) (W.of wb) k _ hdot
            (fun hfull => hch_of_chargeRule a b (W.of wb) (tensordot_checks cy a b k _ hdot).1 (by omega)
              (by
                have hc := (tensordot_checks cy a b k _ hdot).2.2.2
                have e1 : a.lcs.drop (a.rank - k) = a.lcs := by rw [hfull.1]; simp
                have e2 : b.lcs.take k = b.lcs := List.take_of_length_le (by rw [lcs_length]; omega)
                rw [e1, e2] at hc
                exact hc) ca cb vb)).1 hf
          cases this
        obtain ⟨r', hv, hd, _, _, hlab, hwf⟩ := tensordot_int cy a b (W.of wa) (W.of wb) ca cb va vb k _ hdot hnf
        cases hv
        refine ⟨?_, hwf⟩
        have hr : a.rank = (evalRef st (env.map Arr.toLD) x).d.rank := by rw [← ea]; exact (Arr.toLD_rank a).symm
        simp only [evalRef, Arr.toLD, hd, hlab, da, db, la, lb, hr]
  | tensordotAxes xa xb x y ihx ihy =>
    intro r hs h
    simp only [evalArr, bind, Except.bind] at h
    cases hx : evalArr st cy env x with
    | error e => rw [hx] at h; simp at h
    | ok a =>
      cases hy : evalArr st cy env y with
      | error e => rw [hx, hy] at h; simp at h
      | ok b =>
        rw [hx, hy] at h
        simp only at h
        obtain ⟨ea, wa⟩ := ihx a hs.1 hx
        obtain ⟨eb, wb⟩ := ihy b hs.2.1 hy
        obtain ⟨da, la⟩ := toLD_eq a _ ea
        obtain ⟨db, lb⟩ := toLD_eq b _ eb
        obtain ⟨ca, cb, va, vb⟩ := hs.2.2 a b hx hy
        have hdot := dotArr_ok cy a b r _ h
        obtain ⟨ia, ib, h1, h2, h3, hpa, hpb, hint⟩ := tensordot_pair_eq cy a b wa wb xa xb _ hdot
        obtain ⟨wa', da', la', laba', qa', ma', ra', ca', va'⟩ := trOp_spec a _ wa hpa
        obtain ⟨wb', db', lb', labb', qb', mb', rb', cb', vb'⟩ := trOp_spec b _ wb hpb
        have hnf : ¬(ia.length = (trOp a ((List.range a.rank).filter (fun i => !ia.contains i) ++ ia)).rank
            ∧ ia.length = (trOp b (ib ++ (List.range b.rank).filter (fun i => !ib.contains i))).rank) := by
          intro hf
          have hchk := tensordot_checks cy _ _ ia.length _ hint
          have := (tensordot_special cy _ _ (W.of wa') (W.of wb') ia.length _ hint
            (fun hfull => hch_of_chargeRule _ _ (W.of wb') hchk.1 (by omega)
              (by
                have hc := hchk.2.2.2
                have e1 : ∀ (z : Arr α), ia.length = z.rank → z.lcs.drop (z.rank - ia.length) = z.lcs := by
                  intro z hz; rw [hz]; simp
                have e2 : ∀ (z : Arr α), ia.length = z.rank → z.lcs.take ia.length = z.lcs := by
                  intro z hz; exact List.take_of_length_le (by rw [lcs_length]; omega)
                rw [e1 _ hfull.1, e2 _ hfull.2] at hc
                exact hc) (ca' ca) (cb' cb) (vb' vb))).1 hf
          cases this
        obtain ⟨r', hv, hd, _, _, hlab, hwf⟩ := tensordot_int cy _ _ (W.of wa') (W.of wb') (ca' ca) (cb' cb) (va' va)
          (vb' vb) ia.length _ hint hnf
        cases hv
        refine ⟨?_, hwf⟩
        have hra : a.rank = (evalRef st (env.map Arr.toLD) x).d.rank := by rw [← ea]; exact (Arr.toLD_rank a).symm
        have hrb : b.rank = (evalRef st (env.map Arr.toLD) y).d.rank := by rw [← eb]; exact (Arr.toLD_rank b).symm
        have hia : (evalRef st (env.map Arr.toLD) x).axs xa = ia := by rw [← ea]; exact Arr.toLD_axs a xa ia h1
        have hib : (evalRef st (env.map Arr.toLD) y).axs xb = ib := by rw [← eb]; exact Arr.toLD_axs b xb ib h2
        rw [ra'] at hlab
        simp only [evalRef, Arr.toLD, hd, hlab, da', db', laba', labb', dotPa, dotPb, hia, hib, ← hra, ← hrb, da, db,
          la, lb]
  | trace l1 l2 x ihx =>
    intro r hs h
    simp only [evalArr, bind, Except.bind] at h
    cases hx : evalArr st cy env x with
    | error e => rw [hx] at h; simp at h
    | ok a =>
      rw [hx] at h
      simp only at h
      obtain ⟨ea, wa⟩ := ihx a hs hx
      obtain ⟨da, la⟩ := toLD_eq a _ ea
      have htr := traceArr_ok a r l1 l2 h
      have hr2 : a.rank ≠ 2 := by
        intro h2
        have := (trace_scalar a (W.of wa) l1 l2 _ htr h2).1
        cases this
      obtain ⟨ax1, ax2, r', g1, g2, _, _, _, _, hv, hd, _, _, _, _, hlab, _, _, _, hwf⟩ :=
        trace_arr a wa l1 l2 _ htr hr2
      cases hv
      refine ⟨?_, hwf⟩
      have hra : a.rank = (evalRef st (env.map Arr.toLD) x).d.rank := by rw [← ea]; exact (Arr.toLD_rank a).symm
      have h1 : (evalRef st (env.map Arr.toLD) x).ax l1 = ax1 := by rw [← ea]; exact Arr.toLD_ax a l1 ax1 g1
      have h2 : (evalRef st (env.map Arr.toLD) x).ax l2 = ax2 := by rw [← ea]; exact Arr.toLD_ax a l2 ax2 g2
      simp only [evalRef, Arr.toLD, hd, hlab, h1, h2, ← hra, da, la]

end C01ProgAB
end TenpyModel.Core
