import TenpyModel.C01.A_Merge2
import TenpyModel.C01.PropsMerge
import TenpyModel.C01.PropsSort
/-!
C01 — the merge loop of `ibinary_blockwise`, part 3: helper lemmas connecting the abstract merge (part 2) with
the tensor model: what `LegCharge.test_equal` gives (equal slices), what only depends on slices (block numbers,
block shapes), row bounds as `InRange`, the entry of a tensor as a lookup in the un-reversed block list.
-/
namespace TenpyModel.Core

/-! ### legs -/

theorem Leg.slices_of_testEqual (x y : Leg) (h : x.testEqual y = true) : x.slices = y.slices := by
  unfold Leg.testEqual Leg.eq? at h
  split at h
  · simp at h
  · simp at h
    exact h.1

theorem Leg.blockNumber_eq (l : Leg) (h : l.ShapeOK) : l.blockNumber = l.slices.length - 1 := by
  unfold Leg.blockNumber
  have := h.1
  omega

theorem blockNumbers_congr (xs ys : List Leg) (hx : ∀ l ∈ xs, l.ShapeOK) (hy : ∀ l ∈ ys, l.ShapeOK)
    (hs : xs.map Leg.slices = ys.map Leg.slices) : xs.map Leg.blockNumber = ys.map Leg.blockNumber := by
  have e : ∀ (zs : List Leg), (∀ l ∈ zs, l.ShapeOK) →
      zs.map Leg.blockNumber = (zs.map Leg.slices).map (fun s => s.length - 1) := by
    intro zs hz
    rw [List.map_map]
    exact List.map_congr_left (fun l hl => Leg.blockNumber_eq l (hz l hl))
  rw [e xs hx, e ys hy, hs]

theorem blockShapeOf_congr (xs ys : List Leg) (hs : xs.map Leg.slices = ys.map Leg.slices) (q : List Nat) :
    blockShapeOf xs q = blockShapeOf ys q := by
  induction xs generalizing ys q with
  | nil => cases ys with
    | nil => rfl
    | cons _ _ => simp at hs
  | cons x xs ih => cases ys with
    | nil => simp at hs
    | cons y ys =>
      simp only [List.map_cons, List.cons.injEq] at hs
      cases q with
      | nil => rfl
      | cons i is =>
        simp only [blockShapeOf, List.zipWith_cons_cons, List.cons.injEq]
        exact ⟨by simp [Leg.blockSizes, hs.1], ih ys hs.2 is⟩

/-! ### lists of pairs -/

theorem fst_inj_of_nodup {β γ} (l : List (β × γ)) (h : (l.map Prod.fst).Nodup) :
    ∀ x ∈ l, ∀ y ∈ l, x.1 = y.1 → x = y := by
  induction l with
  | nil => intro x hx; simp at hx
  | cons p ps ih =>
    simp only [List.map_cons, List.nodup_cons] at h
    intro x hx y hy hxy
    rcases List.mem_cons.1 hx with hxp | hx <;> rcases List.mem_cons.1 hy with hyp | hy
    · rw [hxp, hyp]
    · have : p.1 ∈ ps.map Prod.fst := by rw [← hxp, hxy]; exact List.mem_map.2 ⟨y, hy, rfl⟩
      exact absurd this h.1
    · have : p.1 ∈ ps.map Prod.fst := by rw [← hyp, ← hxy]; exact List.mem_map.2 ⟨x, hx, rfl⟩
      exact absurd this h.1
    · exact ih h.2 x hx y hy hxy

/-- with pairwise distinct rows "the last stored block wins" is "the first stored block wins" -/
theorem find?_reverse_of_nodup {γ} (l : List (List Nat × γ)) (h : (l.map Prod.fst).Nodup) (q : List Nat) :
    l.reverse.find? (fun rb => rb.1 == q) = l.find? (fun rb => rb.1 == q) := by
  refine find?_perm_unique _ (List.reverse_perm l) (fun x hx y hy hpx hpy => ?_)
  have e1 : x.1 = q := eq_of_beq hpx
  have e2 : y.1 = q := eq_of_beq hpy
  exact fst_inj_of_nodup l h x (List.mem_reverse.1 hx) y (List.mem_reverse.1 hy) (e1.trans e2.symm)

theorem zip_map_fst_snd {β γ} (m : List (β × γ)) : (m.map (fun x => x.1)).zip (m.map (fun x => x.2)) = m := by
  induction m with
  | nil => rfl
  | cons p ps ih => simp only [List.map_cons, List.zip_cons_cons, ih]

theorem pairwise_keyed {β} (key : List Nat → Nat) (qs : List (List Nat)) (ds : List β)
    (h : (qs.map key).Pairwise (· < ·)) :
    ((qs.zip ds).map (fun rb => (key rb.1, rb.1, rb.2))).Pairwise (fun x y => x.1 < y.1) := by
  induction qs generalizing ds with
  | nil => simp
  | cons r rs ih =>
    cases ds with
    | nil => simp
    | cons d ds =>
      simp only [List.map_cons, List.pairwise_cons] at h
      simp only [List.zip_cons_cons, List.map_cons, List.pairwise_cons]
      refine ⟨fun y hy => ?_, ih ds h.2⟩
      obtain ⟨rb, hrb, rfl⟩ := List.mem_map.1 hy
      obtain ⟨r', d'⟩ := rb
      exact h.1 _ (List.mem_map.2 ⟨r', (List.of_mem_zip hrb).1, rfl⟩)

/-! ### blocks -/

namespace Dense
variable {α : Type}

theorem get_map0 [Zero α] (g : α → α) (hg : g 0 = 0) (x : Dense α) (w : List Nat) :
    (x.map g).get 0 w = g (x.get 0 w) := by
  have := Dense.get_map g 0 x w
  rw [hg] at this
  exact this

theorem zipWith_blockOK (f : α → α → α) (x y : Dense α) (sh : List Nat)
    (hx : x.shape = sh ∧ x.vals.length = Dense.prod x.shape)
    (hy : y.shape = sh ∧ y.vals.length = Dense.prod y.shape) :
    (Dense.zipWith f x y).shape = sh
      ∧ (Dense.zipWith f x y).vals.length = Dense.prod (Dense.zipWith f x y).shape := by
  refine ⟨hx.1, ?_⟩
  simp only [Dense.zipWith, List.length_zipWith]
  rw [hx.2, hy.2, hx.1, hy.1]
  exact Nat.min_self _

theorem map_blockOK (g : α → α) (x : Dense α) (sh : List Nat)
    (hx : x.shape = sh ∧ x.vals.length = Dense.prod x.shape) :
    (x.map g).shape = sh ∧ (x.map g).vals.length = Dense.prod (x.map g).shape := by
  refine ⟨hx.1, ?_⟩
  simp only [Dense.map, List.length_map]
  exact hx.2

end Dense

namespace Arr
variable {α : Type}

theorem slices_of_legsEqual (xs ys : List Leg) (hl : xs.length = ys.length) (h : legsEqual xs ys = true) :
    xs.map Leg.slices = ys.map Leg.slices := by
  induction xs generalizing ys with
  | nil => cases ys with
    | nil => rfl
    | cons _ _ => simp at hl
  | cons x xs ih => cases ys with
    | nil => simp at hl
    | cons y ys =>
      simp only [List.length_cons, Nat.add_right_cancel_iff] at hl
      unfold legsEqual at h
      simp only [List.zipWith_cons_cons, List.all_cons, Bool.and_eq_true, id] at h
      simp only [List.map_cons, List.cons.injEq]
      exact ⟨Leg.slices_of_testEqual x y h.1, ih ys hl h.2⟩

/-- what `binaryCheck` establishes -/
theorem of_binaryCheck (a b : Arr α) (h : binaryCheck a b = .ok ()) :
    a.rank = b.rank ∧ a.lcs.map Leg.slices = b.lcs.map Leg.slices ∧ a.qtotal = b.qtotal := by
  unfold binaryCheck at h
  split at h
  · cases h
  · split at h
    · cases h
    · split at h
      · cases h
      · rename_i h1 h2 h3
        have hr : a.rank = b.rank := Decidable.not_not.1 h1
        have hle : legsEqual a.lcs b.lcs = true := by simpa using h2
        refine ⟨hr, slices_of_legsEqual _ _ ?_ hle, Decidable.not_not.1 h3⟩
        simpa [Arr.lcs, Arr.rank] using hr

theorem blockNumbers_length (a : Arr α) : a.blockNumbers.length = a.rank := by
  simp [Arr.blockNumbers, Arr.lcs, Arr.rank]

theorem lc_blockNumber (a : Arr α) (k : Nat) (hk : k < a.rank) :
    a.blockNumbers.getD k 0 = (a.lc k).blockNumber := by
  unfold Arr.blockNumbers Arr.lcs Arr.lc
  rw [List.map_map]
  exact getD_map' _ a.legs k default 0 hk

/-- the row condition of `WF`, as `InRange` -/
theorem inRange_of_rowOK (a : Arr α) (r : List Nat)
    (h : r.length = a.rank ∧ ∀ k, k < a.rank → r.getD k 0 < (a.lc k).blockNumber) :
    InRange r a.blockNumbers := by
  refine InRange_of_getD r _ (by rw [blockNumbers_length]; exact h.1) (fun k hk => ?_)
  rw [blockNumbers_length] at hk
  rw [lc_blockNumber a k hk]
  exact h.2 k hk

/-- slices-equal tensors: rank, block numbers -/
theorem rank_of_slices (a b : Arr α) (hs : a.lcs.map Leg.slices = b.lcs.map Leg.slices) : a.rank = b.rank := by
  have := congrArg List.length hs
  simpa [Arr.lcs, Arr.rank] using this

/-- `b` over the legs of `a` (same slices) is again well formed -/
theorem WF_withLegs (a b : Arr α) (ha : a.WF) (hb : b.WF) (hs : a.lcs.map Leg.slices = b.lcs.map Leg.slices) :
    ({ b with legs := a.legs } : Arr α).WF := by
  have hr : a.rank = b.rank := rank_of_slices a b hs
  have hbn : a.blockNumbers = b.blockNumbers := blockNumbers_congr _ _ ha.2.2.2.1 hb.2.2.2.1 hs
  refine ⟨hb.1.trans hr.symm, hb.2.1, hb.2.2.1, ha.2.2.2.1, ?_, ?_, hb.2.2.2.2.2.2⟩
  · intro r hr'
    obtain ⟨h1, h2⟩ := hb.2.2.2.2.1 r hr'
    refine ⟨h1.trans hr.symm, fun k hk => ?_⟩
    have hk' : k < b.rank := hr ▸ hk
    have := h2 k hk'
    rw [← lc_blockNumber b k hk', ← hbn, lc_blockNumber a k hk] at this
    exact this
  · intro rb hrb
    obtain ⟨s1, s2⟩ := hb.2.2.2.2.2.1 rb hrb
    exact ⟨s1.trans (blockShapeOf_congr _ _ hs rb.1).symm, s2⟩

/-! ### entries as lookups -/

/-- block index of a multi-index -/
def qOf (ls : List Leg) (idx : List Nat) : List Nat := (List.zipWith (fun l i => l.locate i) ls idx).map (·.1)
/-- index within the block -/
def wOf (ls : List Leg) (idx : List Nat) : List Nat := (List.zipWith (fun l i => l.locate i) ls idx).map (·.2)

def getBlk [Zero α] (o : Option (List Nat × Blk α)) (w : List Nat) : α :=
  match o with
  | none => 0
  | some (_, b) => b.get 0 w

theorem entry_def [Zero α] (a : Arr α) (idx : List Nat) :
    a.entry idx = getBlk ((a.qdata.zip a.data).reverse.find? (fun rb => rb.1 == qOf a.lcs idx)) (wOf a.lcs idx) :=
  rfl

theorem entry_eq_find [Zero α] (a : Arr α) (hlen : a.qdata.length = a.data.length) (hnd : a.qdata.Nodup)
    (idx : List Nat) :
    a.entry idx = getBlk ((a.qdata.zip a.data).find? (fun rb => rb.1 == qOf a.lcs idx)) (wOf a.lcs idx) := by
  rw [entry_def, find?_reverse_of_nodup _ (by rw [List.map_fst_zip (Nat.le_of_eq hlen)]; exact hnd)]

/-- keyed triple of a stored (row, block) pair -/
def toK (key : List Nat → Nat) (rb : List Nat × Blk α) : KB α := (key rb.1, rb.1, rb.2)

theorem getBlk_mcomb [Zero α] (f : α → α → α) (hf : f 0 0 = 0) (key : List Nat → Nat) (q w : List Nat)
    (A B : Option (List Nat × Blk α))
    (hshape : ∀ x y, A = some x → B = some y → x.2.shape = y.2.shape ∧ x.2.vals.length = y.2.vals.length) :
    getBlk (mcomb f q (A.map (toK key)) (B.map (toK key))) w = f (getBlk A w) (getBlk B w) := by
  rcases A with _ | ⟨r, x⟩ <;> rcases B with _ | ⟨s, y⟩
  · simp only [Option.map_none, mcomb, getBlk]
    exact hf.symm
  · simp only [Option.map_none, Option.map_some, mcomb, getBlk, toK]
    exact Dense.get_map0 (f 0) hf y w
  · simp only [Option.map_none, Option.map_some, mcomb, getBlk, toK]
    exact Dense.get_map0 (fun v => f v 0) hf x w
  · simp only [Option.map_some, mcomb, getBlk, toK]
    have := hshape (r, x) (s, y) rfl rfl
    exact Dense.get_zipWith f hf x y this.1 this.2 w

end Arr
end TenpyModel.Core
