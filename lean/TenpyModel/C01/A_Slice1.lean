import TenpyModel.C01.A_Entry
import TenpyModel.C01.Props
/-!
C01 part A — `add_trivial_leg` commutes with `toDense` (`np.expand_dims`) and preserves well-formedness.
-/
namespace TenpyModel.Core

namespace Dense

theorem map_insertAt_sl {β γ} (f : β → γ) (l : List β) (i : Nat) (x : β) :
    (insertAt l i x).map f = insertAt (l.map f) i (f x) := by
  simp [insertAt, List.map_take, List.map_drop]

theorem zipWith_insertAt_sl {β γ δ} (f : β → γ → δ) (xs : List β) (ys : List γ) (i : Nat) (x : β) (y : γ)
    (h : xs.length = ys.length) :
    List.zipWith f (insertAt xs i x) (insertAt ys i y) = insertAt (List.zipWith f xs ys) i (f x y) := by
  induction i generalizing xs ys with
  | zero => simp [insertAt_zero]
  | succ i ih =>
    cases xs with
    | nil =>
      cases ys with
      | nil => simp [insertAt]
      | cons _ _ => simp at h
    | cons a xs =>
      cases ys with
      | nil => simp at h
      | cons b ys =>
        rw [insertAt_succ, insertAt_succ, List.zipWith_cons_cons, List.zipWith_cons_cons, insertAt_succ,
          ih xs ys (by simpa using h)]

theorem mem_insertAt_sl {β} (l : List β) (i : Nat) (x y : β) : y ∈ insertAt l i x ↔ y = x ∨ y ∈ l := by
  have e : y ∈ l ↔ y ∈ l.take i ∨ y ∈ l.drop i := by
    conv => lhs; rw [← List.take_append_drop i l]
    exact List.mem_append
  unfold insertAt
  rw [List.mem_append, List.mem_cons, e]
  constructor
  · rintro (h | h | h)
    · exact Or.inr (Or.inl h)
    · exact Or.inl h
    · exact Or.inr (Or.inr h)
  · rintro (h | h | h)
    · exact Or.inr (Or.inl h)
    · exact Or.inl h
    · exact Or.inr (Or.inr h)

theorem getD_insertAt_lt_sl {β} (l : List β) (i : Nat) (x d : β) (k : Nat) (hk : k < i) (hi : i ≤ l.length) :
    (insertAt l i x).getD k d = l.getD k d := by
  induction i generalizing l k with
  | zero => omega
  | succ i ih =>
    cases l with
    | nil => simp at hi
    | cons a l =>
      rw [insertAt_succ]
      cases k with
      | zero => rfl
      | succ k =>
        rw [List.getD_cons_succ, List.getD_cons_succ]
        exact ih l k (by omega) (by simpa using hi)

theorem getD_insertAt_eq_sl {β} (l : List β) (i : Nat) (x d : β) (hi : i ≤ l.length) :
    (insertAt l i x).getD i d = x := by
  induction i generalizing l with
  | zero => simp [insertAt_zero]
  | succ i ih =>
    cases l with
    | nil => simp at hi
    | cons a l =>
      rw [insertAt_succ, List.getD_cons_succ]
      exact ih l (by simpa using hi)

theorem getD_insertAt_gt_sl {β} (l : List β) (i : Nat) (x d : β) (k : Nat) (hk : i < k) (hi : i ≤ l.length) :
    (insertAt l i x).getD k d = l.getD (k - 1) d := by
  induction i generalizing l k with
  | zero =>
    rw [insertAt_zero]
    cases k with
    | zero => omega
    | succ k => simp
  | succ i ih =>
    cases l with
    | nil => simp at hi
    | cons a l =>
      rw [insertAt_succ]
      cases k with
      | zero => omega
      | succ k =>
        rw [List.getD_cons_succ, ih l k (by omega) (by simpa using hi)]
        have e : k + 1 - 1 = (k - 1) + 1 := by omega
        rw [e, List.getD_cons_succ]

theorem prod_insertAt_one_sl (S : List Nat) (i : Nat) : prod (insertAt S i 1) = prod S := by
  rw [prod_eq, prod_eq]
  unfold insertAt
  have e := congrArg List.prod (List.take_append_drop i S)
  rw [List.prod_append] at e
  rw [List.prod_append, List.prod_cons, Nat.one_mul, e]

end Dense

/-! ### lexicographic order under insertion of a constant column -/

theorem lexLE_go_insertAt_sl (a b : List Int) (i : Nat) (c : Int) (h : a.length = b.length) :
    lexLE.go (Dense.insertAt a i c) (Dense.insertAt b i c) = lexLE.go a b := by
  induction i generalizing a b with
  | zero => simp [Dense.insertAt_zero, lexLE.go]
  | succ i ih =>
    cases a with
    | nil =>
      cases b with
      | nil => simp [Dense.insertAt, lexLE.go]
      | cons _ _ => simp at h
    | cons x xs =>
      cases b with
      | nil => simp at h
      | cons y ys =>
        rw [Dense.insertAt_succ, Dense.insertAt_succ]
        simp only [lexLE.go]
        rw [ih xs ys (by simpa using h)]

theorem reverse_insertAt_sl {β} (l : List β) (i : Nat) (x : β) (h : i ≤ l.length) :
    (Dense.insertAt l i x).reverse = Dense.insertAt l.reverse (l.length - i) x := by
  unfold Dense.insertAt
  rw [List.reverse_append, List.reverse_cons, List.append_assoc, List.singleton_append,
    List.take_reverse, List.drop_reverse]
  have e : l.length - (l.length - i) = i := by omega
  rw [e]

theorem lexLE_insertAt_sl (a b : List Int) (i : Nat) (c : Int) (h : a.length = b.length) (hi : i ≤ a.length) :
    lexLE (Dense.insertAt a i c) (Dense.insertAt b i c) = lexLE a b := by
  unfold lexLE
  rw [reverse_insertAt_sl a i c hi, reverse_insertAt_sl b i c (h ▸ hi), ← h]
  exact lexLE_go_insertAt_sl _ _ _ _ (by simp [h])

theorem isLexsorted_iff_sl (rows : List (List Nat)) :
    isLexsorted rows = true ↔ (natRows rows).Pairwise (fun a b => lexLE a b = true) := by
  unfold isLexsorted lexsortNat
  constructor
  · intro h
    have h' := eq_of_beq h
    rw [← natRows_length] at h'
    exact sorted_of_lexsort _ h'
  · intro h
    rw [lexsort_of_sorted _ h, natRows_length]
    exact beq_self_eq_true _

/-- inserting a constant column into all rows does not change whether they are lexsorted -/
theorem isLexsorted_map_insertAt_sl (rows : List (List Nat)) (n i c : Nat) (hi : i ≤ n)
    (hr : ∀ r ∈ rows, r.length = n) (h : isLexsorted rows = true) :
    isLexsorted (rows.map (fun r => Dense.insertAt r i c)) = true := by
  rw [isLexsorted_iff_sl] at h ⊢
  unfold natRows at h ⊢
  rw [List.map_map, List.pairwise_map]
  rw [List.pairwise_map] at h
  refine h.imp_of_mem ?_
  intro r s hr' hs' hrs
  simp only [Function.comp]
  rw [Dense.map_insertAt_sl, Dense.map_insertAt_sl,
    lexLE_insertAt_sl _ _ _ _ (by simp [hr r hr', hr s hs']) (by simp [hr r hr', hi])]
  exact hrs

/-! ### `add_trivial_leg` -/

namespace Arr
variable {α : Type}
open Dense

theorem insertPos_le_sl (n : Nat) (i : Int) : insertPos n i ≤ n := by
  unfold insertPos
  split <;> split <;> omega

/-- the result of `add_trivial_leg` as a record: a new leg at `pos`, a new unit axis in every block, a new zero
column in `_qdata` -/
def addLeg (a : Arr α) (pos : Nat) (label : Label) (leg : Leg) : Arr α :=
  { a with legs := insertAt a.legs pos (.plain leg), labels := insertAt a.labels pos label,
           data := a.data.map (fun b => b.expandDims pos), qdata := a.qdata.map (fun r => insertAt r pos 0) }

theorem addTrivialLeg_eq (a r : Arr α) (axis : Int) (label : Label) (qconj : Int)
    (h : a.addTrivialLeg axis label qconj = .ok r) :
    r = a.addLeg (insertPos a.rank (if axis < 0 then axis + a.rank else axis)) label
      (Leg.fromQflat a.mods [czero a.mods.length] qconj) := by
  unfold addTrivialLeg at h
  simp only at h
  split at h
  · cases h
  · injection h with h
    rw [← h]
    rfl

theorem lcs_addLeg (a : Arr α) (pos : Nat) (label : Label) (leg : Leg) :
    (a.addLeg pos label leg).lcs = insertAt a.lcs pos leg := by
  unfold lcs addLeg
  simp only
  rw [map_insertAt_sl]
  rfl

theorem rank_addLeg (a : Arr α) (pos : Nat) (label : Label) (leg : Leg) :
    (a.addLeg pos label leg).rank = a.rank + 1 := by
  unfold rank addLeg
  simp only
  rw [insertAt_length]

theorem shape_addLeg (a : Arr α) (pos : Nat) (label : Label) (leg : Leg) (hs : leg.slices = [0, 1]) :
    (a.addLeg pos label leg).shape = insertAt a.shape pos 1 := by
  unfold shape
  rw [lcs_addLeg, map_insertAt_sl]
  have : leg.indLen = 1 := by simp [Leg.indLen, hs]
  rw [this]

theorem locate_unit_sl (leg : Leg) (hs : leg.slices = [0, 1]) : leg.locate 0 = (0, 0) := by
  simp [Leg.locate, Leg.bisectRight, hs]

theorem blockSizes_unit_sl (leg : Leg) (hs : leg.slices = [0, 1]) : leg.blockSizes = [1] := by
  simp [Leg.blockSizes, sizesOfSlices, hs]

theorem blockShapeOf_length_sl (lcs : List Leg) (q : List Nat) (h : q.length = lcs.length) :
    (blockShapeOf lcs q).length = lcs.length := by simp [blockShapeOf, h]

theorem entry_addLeg [Zero α] (a : Arr α) (ha : a.WF) (pos : Nat) (hpos : pos ≤ a.rank) (label : Label) (leg : Leg)
    (hs : leg.slices = [0, 1]) (idx : List Nat) (hidx : InRange idx a.shape) :
    (a.addLeg pos label leg).entry (insertAt idx pos 0) = a.entry idx := by
  have hlen : idx.length = a.lcs.length := by rw [hidx.length_eq, shape_length, lcs_length]
  have hloc := locate_unit_sl leg hs
  have hq : qidx (a.addLeg pos label leg).lcs (insertAt idx pos 0) = insertAt (qidx a.lcs idx) pos 0 := by
    rw [lcs_addLeg]
    unfold qidx
    rw [zipWith_insertAt_sl _ _ _ _ _ _ hlen.symm, hloc]
  have hw : widx (a.addLeg pos label leg).lcs (insertAt idx pos 0) = insertAt (widx a.lcs idx) pos 0 := by
    rw [lcs_addLeg]
    unfold widx
    rw [zipWith_insertAt_sl _ _ _ _ _ _ hlen.symm, hloc]
  obtain ⟨_, hwr⟩ := qw_inRange a.lcs ha.legs_ok idx hidx
  refine entry_rowmap_all a (a.addLeg pos label leg) (fun r => insertAt r pos 0) (fun _ b => b.expandDims pos) id rfl
    rfl ?_ idx _ hq ?_ ?_
  · exact (zipWith_const_left _ _ _ ha.2.1).symm
  · intro r hr e
    have h1 : removeAt (insertAt r pos 0) pos = removeAt (insertAt (qidx a.lcs idx) pos 0) pos := by rw [e]
    rwa [removeAt_insertAt _ _ _ (by rw [(ha.2.2.2.2.1 r hr).1]; exact hpos),
      removeAt_insertAt _ _ _ (by rw [qidx_length _ _ hlen, lcs_length]; exact hpos)] at h1
  · intro b hb
    obtain ⟨hsh, hvl, _, _⟩ := ha.block _ b hb
    rw [hw]
    have hwr' : InRange (widx a.lcs idx) b.shape := hsh ▸ hwr
    have hbl : pos ≤ b.shape.length := by
      rw [← hwr'.length_eq, widx_length _ _ hlen, lcs_length]; exact hpos
    have := get_reindex 0 b.shape (insertAt b.shape pos 1) (fun w => insertAt w pos 0)
      (allIdx_insertAt _ _ hbl) (b.get 0) _ hwr'
    have e : b.expandDims pos = ⟨insertAt b.shape pos 1, (allIdx b.shape).map (b.get 0)⟩ := by
      unfold expandDims
      rw [← vals_eq_map_get 0 b hvl]
    rw [e]
    exact this.1

theorem toDense_addLeg [Zero α] (a : Arr α) (ha : a.WF) (pos : Nat) (hpos : pos ≤ a.rank) (label : Label) (leg : Leg)
    (hs : leg.slices = [0, 1]) : (a.addLeg pos label leg).toDense = a.toDense.expandDims pos := by
  unfold toDense ofFn expandDims
  simp only
  rw [shape_addLeg _ _ _ _ hs, allIdx_insertAt _ _ (by rw [shape_length]; exact hpos), List.map_map]
  congr 1
  apply List.map_congr_left
  intro idx hidx
  exact entry_addLeg a ha pos hpos label leg hs idx ((mem_allIdx _ _).1 hidx)

/-- **`add_trivial_leg` is `np.expand_dims`** on the dense tensor; the new leg carries the zero charge, so the
total charge is unchanged -/
theorem toDense_addTrivialLeg [Zero α] (a r : Arr α) (axis : Int) (label : Label) (qconj : Int) (ha : a.WF)
    (h : a.addTrivialLeg axis label qconj = .ok r) :
    r.toDense = a.toDense.expandDims (insertPos a.rank (if axis < 0 then axis + a.rank else axis))
    ∧ r.labels = insertAt a.labels (insertPos a.rank (if axis < 0 then axis + a.rank else axis)) label
    ∧ r.legs = insertAt a.legs (insertPos a.rank (if axis < 0 then axis + a.rank else axis))
        (.plain (Leg.fromQflat a.mods [czero a.mods.length] qconj))
    ∧ r.qtotal = a.qtotal := by
  rw [addTrivialLeg_eq a r axis label qconj h]
  exact ⟨toDense_addLeg a ha _ (insertPos_le_sl _ _) label _ rfl, rfl, rfl, rfl⟩

theorem lc_addLeg (a : Arr α) (pos : Nat) (hpos : pos ≤ a.rank) (label : Label) (leg : Leg) (k : Nat) :
    (a.addLeg pos label leg).lc k = if k < pos then a.lc k else if k = pos then leg else a.lc (k - 1) := by
  unfold lc addLeg
  simp only
  split
  · rename_i hk
    rw [getD_insertAt_lt_sl _ _ _ _ _ hk hpos]
  · split
    · rename_i _ hk
      rw [hk, getD_insertAt_eq_sl _ _ _ _ hpos]
      rfl
    · rw [getD_insertAt_gt_sl _ _ _ _ _ (by omega) hpos]

/-- `add_trivial_leg` preserves the storage invariants — including the cached `_qdata_sorted` claim, which the
code inherits: a constant column does not change the lexicographic order of the rows -/
theorem WF_addLeg (a : Arr α) (ha : a.WF) (pos : Nat) (hpos : pos ≤ a.rank) (label : Label) (leg : Leg)
    (hs : leg.slices = [0, 1]) (hc : leg.charges.length = 1) : (a.addLeg pos label leg).WF := by
  obtain ⟨h1, h2, h3, h4, h5, h6, h7⟩ := ha
  refine ⟨?_, ?_, ?_, ?_, ?_, ?_, ?_⟩
  · rw [rank_addLeg]
    show (insertAt a.labels pos label).length = _
    rw [insertAt_length, h1]
  · show (a.qdata.map _).length = (a.data.map _).length
    rw [List.length_map, List.length_map, h2]
  · show (a.qdata.map _).Nodup
    unfold List.Nodup at h3 ⊢
    rw [List.pairwise_map]
    refine h3.imp_of_mem ?_
    intro r s hr hs' hne e
    apply hne
    have e1 : removeAt (insertAt r pos 0) pos = removeAt (insertAt s pos 0) pos := by rw [e]
    rwa [removeAt_insertAt _ _ _ (by rw [(h5 r hr).1]; exact hpos),
      removeAt_insertAt _ _ _ (by rw [(h5 s hs').1]; exact hpos)] at e1
  · intro l hl
    rw [lcs_addLeg, mem_insertAt_sl] at hl
    rcases hl with rfl | hl
    · refine ⟨by rw [hs, hc]; rfl, by rw [hs]; rfl, by rw [hs]; decide⟩
    · exact h4 l hl
  · intro r' hr'
    obtain ⟨r, hr, rfl⟩ := List.mem_map.1 hr'
    obtain ⟨hrl, hrk⟩ := h5 r hr
    refine ⟨by rw [insertAt_length, rank_addLeg, hrl], ?_⟩
    intro k hk
    rw [rank_addLeg] at hk
    rw [lc_addLeg _ _ hpos]
    split
    · rename_i hk'
      rw [getD_insertAt_lt_sl _ _ _ _ _ hk' (by rw [hrl]; exact hpos)]
      exact hrk k (by omega)
    · split
      · rename_i _ hk'
        rw [hk', getD_insertAt_eq_sl _ _ _ _ (by rw [hrl]; exact hpos)]
        unfold Leg.blockNumber
        omega
      · rw [getD_insertAt_gt_sl _ _ _ _ _ (by omega) (by rw [hrl]; exact hpos)]
        exact hrk (k - 1) (by omega)
  · intro rb hrb
    change rb ∈ (a.qdata.map _).zip (a.data.map _) at hrb
    rw [List.zip_map] at hrb
    obtain ⟨⟨r, b⟩, hm, rfl⟩ := List.mem_map.1 hrb
    obtain ⟨hsh, hvl⟩ := h6 (r, b) hm
    obtain ⟨hrl, _⟩ := h5 r (List.of_mem_zip hm).1
    simp only [Prod.map] at hsh hvl ⊢
    constructor
    · rw [lcs_addLeg]
      unfold blockShapeOf expandDims
      rw [zipWith_insertAt_sl _ _ _ _ _ _ (by rw [lcs_length, hrl]), blockSizes_unit_sl leg hs]
      simp only
      rw [hsh]
      rfl
    · unfold expandDims
      simp only
      rw [prod_insertAt_one_sl]
      exact hvl
  · intro hsrt
    exact isLexsorted_map_insertAt_sl a.qdata a.rank pos 0 hpos (fun r hr => (h5 r hr).1) (h7 hsrt)

theorem WF_addTrivialLeg (a r : Arr α) (axis : Int) (label : Label) (qconj : Int) (ha : a.WF)
    (h : a.addTrivialLeg axis label qconj = .ok r) : r.WF := by
  rw [addTrivialLeg_eq a r axis label qconj h]
  exact WF_addLeg a ha _ (insertPos_le_sl _ _) label _ rfl rfl

/-! non-vacuity: the U(1)×Z₃ tensor of `C01/Props` (duplicate sector, missing block, `qtotal ≠ 0`) -/
example : C01Example.t.WF := by decide
example : (C01Example.t.addTrivialLeg 1 (some "z") 1).toOption.map (fun r => (r.toDense, r.labels, r.qtotal))
    = some (C01Example.t.toDense.expandDims 1, [some "a", some "z", some "b*"], [-1, 1]) := by decide
example : (C01Example.t.addTrivialLeg 1 (some "z") 1).toOption.map (fun r => (r.qdata, decide r.WF))
    = some ([[2, 0, 0]], true) := by decide
example : (C01Example.t.addTrivialLeg 1 (some "z") 1).toOption.map (fun r => r.toDense)
    = some ⟨[4, 1, 3], [0, 0, 0, 0, 0, 0, 0, 0, 0, 5, -7, 0]⟩ := by decide
example : (C01Example.t.addTrivialLeg (-2) none (-1)).toOption.map (fun r => (r.toDense, r.qdata))
    = some (C01Example.t.toDense.expandDims 0, [[0, 2, 0]]) := by decide
/-- a label that is already in use is rejected -/
example : (C01Example.t.addTrivialLeg 0 (some "a") 1).toOption.map (fun r => r.toDense) = none := by decide

end Arr
end TenpyModel.Core
