import TenpyModel.C01.LabelProofs
/-!
C01 — label algebra (`Array._combine_leg_labels`, `_split_leg_label`, `_conj_leg_label`,
`_drop_duplicate_labels` of tenpy/linalg/np_conserved.py, modelled in Core/ArrLabel.lean).
-/
open TenpyModel.Core TenpyModel.Core.Label

/-- `split_legs` reverts the label of `combine_legs`: for every non-empty list of labels each of which is one
*piece* (non-empty, balanced parentheses, no '.' outside parentheses — atoms `a`, conjugated atoms `a*`, pipe
labels `(a.(b*.c))`, `?3` placeholders), splitting the combined label into `ls.length` parts gives the labels
back, with the `?#` placeholders of anonymous legs turned into `None`. -/
theorem C01_labels_split_combine (ls : List (List Char)) (hne : ls ≠ []) (hp : ∀ p ∈ ls, Piece p) :
    splitChars (some (combineChars ls)) ls.length
      = .ok (ls.map (fun p => if p.head? = some '?' then none else some p)) := by
  obtain ⟨p, ps, rfl⟩ := List.exists_cons_of_ne_nil hne
  have hp0 : Piece p := hp p (by simp)
  have hps : ∀ q ∈ ps, walk 0 q = some 0 := fun q hq => (hp q (by simp [hq])).2
  have hJ : joinDots (p :: ps) ≠ [] := joinDots_ne_nil p ps hp0.1
  have hsplit := splitTop_joinDots p ps hp0.2 hps []
  simp only [List.reverse_nil, List.nil_append] at hsplit
  obtain ⟨j, js, hj⟩ := List.exists_cons_of_ne_nil hJ
  have hlast : ('(' :: (joinDots (p :: ps) ++ [')'])).getLast? = some ')' := by
    simp [List.getLast?_cons, List.getLast?_append]
  have hlen : ¬ ('(' :: (joinDots (p :: ps) ++ [')'])).length ≤ 2 := by
    simp [hj]
  have hinner : (List.drop 1 ('(' :: (joinDots (p :: ps) ++ [')']))).dropLast = joinDots (p :: ps) := by
    simp
  have hnonempty : ((p :: ps).any (·.isEmpty)) = false := by
    simp only [List.any_eq_false]
    intro q hq
    have := (hp q hq).1
    cases q <;> simp_all
  unfold splitChars combineChars
  simp only [hlast, hlen, hinner, hsplit, hnonempty]
  simp

/-- non-vacuity: the documented example `'(a.b.(c.d))'` and an anonymous leg -/
example : splitChars (some (combineChars ["a".toList, "?1".toList, "(c.d*)".toList])) 3
    = .ok [some "a".toList, none, some "(c.d*)".toList] := by decide

example : Piece ['(', 'a', '.', '(', 'b', '*', '.', 'c', ')', ')'] := ⟨by decide, by decide⟩

/-- an unlabeled pipe splits into unlabeled legs -/
theorem C01_labels_split_none (n : Nat) : splitChars none n = .ok (List.replicate n none) := rfl

/-- conjugating an atomic label appends a star; conjugating again removes it -/
theorem C01_labels_conj_atom (l : List Char) (h : Atom l) :
    conjChars l = l ++ ['*'] ∧ conjChars (l ++ ['*']) = l := by
  have hplain : ∀ c ∈ l, c ≠ '.' ∧ c ≠ ')' := fun c hc => ⟨(h.2 c hc).2.2.1, (h.2 c hc).2.1⟩
  have hstar : ∀ c ∈ l, c ≠ '*' := fun c hc => (h.2 c hc).2.2.2
  have hlast : l.getLast? ≠ some ')' := by
    intro hl
    have := List.mem_of_getLast? hl
    exact (h.2 _ this).2.1 rfl
  constructor
  · unfold conjChars
    simp only [conjInsert_of_plain l hplain none, hlast, ne_eq, not_false_eq_true, if_true]
    rw [removeStarStar_plain_append l _ hstar]
    simp [removeStarStar]
  · have hplain' : ∀ c ∈ l ++ ['*'], c ≠ '.' ∧ c ≠ ')' := by
      intro c hc
      simp only [List.mem_append, List.mem_singleton] at hc
      rcases hc with hc | hc
      · exact hplain c hc
      · subst hc; decide
    have hlast' : (l ++ ['*']).getLast? ≠ some ')' := by simp
    unfold conjChars
    simp only [conjInsert_of_plain _ hplain' none, hlast', ne_eq, not_false_eq_true, if_true, List.append_assoc]
    rw [removeStarStar_plain_append l _ hstar]
    simp [removeStarStar]

/-- `_conj_leg_label` is an involution on atomic labels and on conjugated atomic labels -/
theorem C01_labels_conj_involutive_atom (l : List Char) (h : Atom l) :
    conjChars (conjChars l) = l ∧ conjChars (conjChars (l ++ ['*'])) = l ++ ['*'] := by
  obtain ⟨h1, h2⟩ := C01_labels_conj_atom l h
  exact ⟨by rw [h1, h2], by rw [h2, h1]⟩

example : Atom ['v', 'L'] := by
  refine ⟨by decide, ?_⟩
  intro c hc
  simp only [List.mem_cons, List.not_mem_nil, or_false] at hc
  rcases hc with rfl | rfl <;> exact ⟨by decide, by decide, by decide, by decide⟩

example : conjChars "(a.(b*.c))".toList = "(a*.(b.c*))".toList ∧
    conjChars (conjChars "(a.(b*.c))".toList) = "(a.(b*.c))".toList := by decide

/-- `_drop_duplicate_labels(a, b)` keeps one entry per leg of `a` and of `b` -/
theorem C01_labels_dropDuplicate_length {β : Type} [DecidableEq β] (a b : List (Option β)) :
    (dropDuplicate a b).length = a.length + b.length := by
  have key : ∀ (a b : List (Option β)), (dropDupGo a b).1.length = a.length ∧ (dropDupGo a b).2.length = b.length := by
    intro a
    induction a with
    | nil => intro b; simp [dropDupGo]
    | cons l as ih =>
      intro b
      simp only [dropDupGo]
      split
      · have := ih (b.set (b.idxOf l) none)
        simp [this.1, this.2]
      · have := ih b
        simp [this.1, this.2]
  simp [dropDuplicate, (key a b).1, (key a b).2]

/-- without a common label nothing is dropped -/
theorem C01_labels_dropDuplicate_disjoint {β : Type} [DecidableEq β] (a b : List (Option β))
    (h : ∀ l ∈ a, l ∉ b) : dropDuplicate a b = a ++ b := by
  have key : ∀ (a : List (Option β)), (∀ l ∈ a, l ∉ b) → dropDupGo a b = (a, b) := by
    intro a
    induction a with
    | nil => intro _; simp [dropDupGo]
    | cons l as ih =>
      intro h
      have hl : l ∉ b := h l (by simp)
      have := ih (fun x hx => h x (by simp [hx]))
      simp [dropDupGo, hl, this]
  simp [dropDuplicate, key a h]

/-- a collision drops both labels (documented rule of `tensordot`/`outer`) -/
example : dropDuplicate [some "a", none, some "b"] [some "b", some "c"] = [some "a", none, none, none, some "c"] := by
  decide
