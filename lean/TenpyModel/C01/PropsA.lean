import TenpyModel.C01.Props
import TenpyModel.C01.A_Transpose2
import TenpyModel.C01.A_Binary2
import TenpyModel.C01.A_Program2
import TenpyModel.C01.A_Fast
/-!
C01, part A — block-sparse tensor algebra agrees with dense numpy algebra: transposition, trivial legs, slicing,
squeezing, axis scaling, projection, and the merge of `ibinary_blockwise` — each for every tensor satisfying the
decidable storage invariant `Arr.WF` (Core/ArrWF.lean) and the argument checks the model (= the code) performs.

Scalars: any type with the operations the model uses; ring facts enter as explicit hypotheses, so every theorem
holds in every commutative ring. Helper lemmas: `A_*.lean`. Non-vacuity: `decide`d runs on `C01Example.t`
(U(1)×Z₃, duplicate sector, missing block, `qtotal ≠ 0`).
-/
open TenpyModel.Core
open TenpyModel.Core.Arr (permuteList swapList)

/-! ### transposition -/

/-- The body of `itranspose` (`Array_itranspose_fast`): for every well-formed tensor and every permutation `axes`
of its axes, the dense form of the transposed tensor is `np.transpose(dense, axes)`; legs and labels are permuted,
the sortedness claim is dropped, and the result is well formed again. -/
theorem C01_toDense_itransposeFast {α : Type} [Zero α] (a : Arr α) (axes : List Nat) (ha : a.WF)
    (hp : axes.Perm (List.range a.rank)) :
    (a.itransposeFast axes).toDense = a.toDense.transpose axes
    ∧ (a.itransposeFast axes).legs = permuteList a.legs axes default
    ∧ (a.itransposeFast axes).labels = permuteList a.labels axes none
    ∧ (a.itransposeFast axes).qtotal = a.qtotal
    ∧ (a.itransposeFast axes).qdataSorted = false
    ∧ (a.itransposeFast axes).WF :=
  ⟨Arr.toDense_itransposeFast a axes ha (IsPerm.of_perm hp), rfl, rfl, rfl, rfl,
    Arr.WF_itransposeFast a axes ha (IsPerm.of_perm hp)⟩

/-- `Array.itranspose(axes)` (axes given by index or label; `None` reverses): whenever the call succeeds, the
effective axis list `ax` is a permutation of `0 … rank-1` (this is what the argument checks establish), the dense
form is `np.transpose(dense, ax)`, legs and labels are permuted by `ax`, the total charge is kept, the result is
well formed, and `_qdata_sorted` is reset unless the call was the identity shortcut. -/
theorem C01_toDense_itranspose {α : Type} [Zero α] (a r : Arr α) (axes : Option (List Ax)) (ha : a.WF)
    (h : a.itranspose axes = .ok r) :
    ∃ ax : List Nat, ax.Perm (List.range a.rank)
      ∧ (axes = none → ax = (List.range a.rank).reverse)
      ∧ (∀ axs, axes = some axs → a.getLegIndices axs = .ok ax)
      ∧ r.toDense = a.toDense.transpose ax
      ∧ r.legs = permuteList a.legs ax default
      ∧ r.labels = permuteList a.labels ax none
      ∧ r.qtotal = a.qtotal ∧ r.WF
      ∧ ((axes = none ∨ ax ≠ List.range a.rank) → r.qdataSorted = false) := by
  obtain ⟨ax, hp, h1, h2, h3, h4, h5, h6, _, h8, h9⟩ := Arr.itranspose_spec a r axes ha h
  exact ⟨ax, hp.perm, h1, h2, h3, h4, h5, h6, h8, h9⟩

/-- `Array.transpose(axes)` = `copy().itranspose(axes)` -/
theorem C01_toDense_transpose {α : Type} [Zero α] (a r : Arr α) (axes : Option (List Ax)) (ha : a.WF)
    (h : a.transpose axes = .ok r) :
    ∃ ax : List Nat, ax.Perm (List.range a.rank)
      ∧ (axes = none → ax = (List.range a.rank).reverse)
      ∧ (∀ axs, axes = some axs → a.getLegIndices axs = .ok ax)
      ∧ r.toDense = a.toDense.transpose ax
      ∧ r.legs = permuteList a.legs ax default
      ∧ r.labels = permuteList a.labels ax none
      ∧ r.qtotal = a.qtotal ∧ r.WF
      ∧ ((axes = none ∨ ax ≠ List.range a.rank) → r.qdataSorted = false) :=
  C01_toDense_itranspose a r axes ha h

/-- `Array.iswapaxes(axis1, axis2)`: the dense form is `np.swapaxes` (= transposition by the swap permutation),
the two legs and labels are exchanged, `_qdata_sorted` is reset when the axes differ. -/
theorem C01_toDense_iswapaxes {α : Type} [Zero α] (a r : Arr α) (x1 x2 : Ax) (ha : a.WF)
    (h : a.iswapaxes x1 x2 = .ok r) :
    ∃ i j, a.getLegIndex x1 = .ok i ∧ a.getLegIndex x2 = .ok j ∧ i < a.rank ∧ j < a.rank
      ∧ r.toDense = a.toDense.transpose (swapList (List.range a.rank) i j 0)
      ∧ r.legs = swapList a.legs i j default ∧ r.labels = swapList a.labels i j none
      ∧ r.qtotal = a.qtotal ∧ r.WF ∧ (i ≠ j → r.qdataSorted = false) := by
  obtain ⟨i, j, h1, h2, h3, h4, h5, h6, h7, h8, _, h10, h11⟩ := Arr.iswapaxes_spec a r x1 x2 ha h
  exact ⟨i, j, h1, h2, h3, h4, h5, h6, h7, h8, h10, h11⟩

/-! non-vacuity -/
example : C01Example.t.WF ∧ C01Example.t.ChargeRule := by decide
example : (C01Example.t.transpose (some [.lbl "b*", .idx 0])).toOption.map
      (fun r => (r.toDense, r.labels, r.qdataSorted, r.qdata))
    = some (⟨[3, 4], [0, 0, 0, 5, 0, 0, 0, -7, 0, 0, 0, 0]⟩, [some "b*", some "a"], false, [[0, 2]]) := by decide
example : C01Example.t.toDense.transpose [1, 0] = ⟨[3, 4], [0, 0, 0, 5, 0, 0, 0, -7, 0, 0, 0, 0]⟩ := by decide
example : (C01Example.t.iswapaxes (.idx (-1)) (.lbl "a")).toOption.map (fun r => (r.toDense, r.labels))
    = some (⟨[3, 4], [0, 0, 0, 5, 0, 0, 0, -7, 0, 0, 0, 0]⟩, [some "b*", some "a"]) := by decide

/-! ### trivial legs, slicing -/

/-- `Array.add_trivial_leg(axis, label, qconj)` is `np.expand_dims` on the dense tensor (Python `list.insert`
position, negative axes allowed); the label and the trivial leg (one block of the zero charge) are inserted at that
position, the total charge is unchanged, the result is well formed. -/
theorem C01_toDense_addTrivialLeg {α : Type} [Zero α] (a r : Arr α) (axis : Int) (label : Label) (qconj : Int)
    (ha : a.WF) (h : a.addTrivialLeg axis label qconj = .ok r) :
    r.toDense = a.toDense.expandDims (Arr.insertPos a.rank (if axis < 0 then axis + a.rank else axis))
    ∧ r.labels = Dense.insertAt a.labels (Arr.insertPos a.rank (if axis < 0 then axis + a.rank else axis)) label
    ∧ r.legs = Dense.insertAt a.legs (Arr.insertPos a.rank (if axis < 0 then axis + a.rank else axis))
        (.plain (Leg.fromQflat a.mods [czero a.mods.length] qconj))
    ∧ r.qtotal = a.qtotal ∧ r.WF := by
  obtain ⟨h1, h2, h3, h4⟩ := Arr.toDense_addTrivialLeg a r axis label qconj ha h
  exact ⟨h1, h2, h3, h4, Arr.WF_addTrivialLeg a r axis label qconj ha h⟩

/-- `Array.take_slice(indices, axes)` is integer indexing `dense[…, i, …]` (`Dense.fixAxes`) with the normalised
(possibly negative) indices on the pairwise distinct axes `ax`; the remaining legs and labels are kept in order;
the new total charge is `make_valid(qtotal - Σ charge of the selected index)`; the result is well formed.
(`ax.Nodup`: like tenpy, the model does not check for repeated axes; `numpy` would.) -/
theorem C01_toDense_takeSlice {α : Type} [Zero α] (a r : Arr α) (indices : List Int) (axes : List Ax) (ha : a.WF)
    (ax : List Nat) (hax : a.getLegIndices axes = .ok ax) (hnd : ax.Nodup)
    (h : a.takeSlice indices axes = .ok r) :
    r.toDense = a.toDense.fixAxes ax
      (List.zipWith (fun k (i : Int) => (if i < 0 then i + (a.shape.getD k 0 : Int) else i).toNat) ax indices)
    ∧ ax.length = indices.length
    ∧ (ax = [] → r = a)
    ∧ (ax ≠ [] →
        r.labels = pick a.labels ((List.range a.rank).filter (fun x => !ax.contains x)) none
        ∧ r.legs = pick a.legs ((List.range a.rank).filter (fun x => !ax.contains x)) default
        ∧ ∃ pos, (ax.zip indices).mapM (fun xi => Arr.qindexOf (a.lc xi.1) xi.2) = .ok pos
            ∧ r.qtotal = makeValid a.mods
                ((ax.zip pos).foldl (fun q xp => csub q ((a.lc xp.1).getCharge xp.2.1)) a.qtotal))
    ∧ r.WF :=
  ⟨(Arr.toDense_takeSlice a r indices axes ha ax hax hnd h).1,
   (Arr.toDense_takeSlice a r indices axes ha ax hax hnd h).2.1,
   (Arr.toDense_takeSlice a r indices axes ha ax hax hnd h).2.2.1,
   (Arr.toDense_takeSlice a r indices axes ha ax hax hnd h).2.2.2,
   Arr.WF_takeSlice a r indices axes ha ax hax hnd h⟩

/-- `Array.squeeze(axes)` with a tensor result is `np.squeeze(dense, ax)` (`ax` = the given axes, or all axes of
length 1); the squeezed legs and labels disappear; the total charge is reduced by `get_charge(0)` of each squeezed
leg; the result is well formed. Hypothesis `hne`: no stored block has extent 0 along a squeezed axis — in that
situation tenpy raises (known finding, notes/C01.md) and the statement is false for the model
(`A_Slice5.lean`, example `bad`). -/
theorem C01_toDense_squeeze {α : Type} [Zero α] (a r : Arr α) (axes : Option (List Ax)) (ha : a.WF) (ax : List Nat)
    (hax : a.squeezeAx axes = .ok ax)
    (hne : ∀ row ∈ a.qdata, ∀ k ∈ ax, (a.lc k).blockSizes.getD (row.getD k 0) 0 ≠ 0)
    (h : a.squeeze axes = .ok (.arr r)) :
    r.toDense = a.toDense.squeeze ax
    ∧ r.labels = pick a.labels ((List.range a.rank).filter (fun x => !ax.contains x)) none
    ∧ r.legs = pick a.legs ((List.range a.rank).filter (fun x => !ax.contains x)) default
    ∧ r.qtotal = makeValid a.mods (ax.foldl (fun q k => csub q ((a.lc k).getCharge 0)) a.qtotal)
    ∧ (∀ k ∈ ax, k < a.rank ∧ a.shape.getD k 0 = 1) ∧ r.WF :=
  Arr.toDense_squeeze_arr a r axes ha ax hax hne h

/-- `squeeze` of all axes returns the only entry: the dense form is `[[…[x]…]]` (needs the charge rule, since
`__getitem__` answers 0 for an index whose block violates it without looking at the storage) -/
theorem C01_toDense_squeeze_scalar {α : Type} [Zero α] (a : Arr α) (x : α) (axes : Option (List Ax)) (ha : a.WF)
    (hc : a.ChargeRule) (h : a.squeeze axes = .ok (.scalar x)) :
    a.toDense = ⟨List.replicate a.rank 1, [x]⟩ :=
  Arr.toDense_squeeze_scalar a x axes ha hc h

/-- the hypothesis `hne` of `C01_toDense_squeeze` cannot be dropped: a well-formed tensor obeying the charge rule
with a stored block of extent 0 along the squeezed axis, on which the model's `squeeze` returns a tensor whose
dense form is not `np.squeeze` of the input and which is not well formed (tenpy itself raises on this input) -/
theorem C01_toDense_squeeze_counterexample :
    C01SliceExample.bad.WF ∧ C01SliceExample.bad.ChargeRule
    ∧ C01SliceExample.sqArr C01SliceExample.bad (some [.idx 0]) = some (⟨[3], [0, 0, 0]⟩, [some "b"], [-1, 0])
    ∧ C01SliceExample.sqRows C01SliceExample.bad (some [.idx 0]) = some ([[0], [0]], false)
    ∧ C01SliceExample.bad.toDense.squeeze [0] = ⟨[3], [5, -7, 0]⟩ := by decide

/-! non-vacuity of the squeeze theorems: `tz` = `t` with a trivial leg `z`; `tu` has a unit leg whose first block
is empty; `s11` has shape (1, 1) -/
example : C01SliceExample.tz.WF ∧ (C01SliceExample.tz.squeezeAx none).toOption = some [1]
    ∧ (∀ row ∈ C01SliceExample.tz.qdata, ∀ k ∈ [1],
        (C01SliceExample.tz.lc k).blockSizes.getD (row.getD k 0) 0 ≠ 0)
    ∧ C01SliceExample.sqArr C01SliceExample.tz none
        = some (⟨[4, 3], [0, 0, 0, 0, 0, 0, 0, 0, 0, 5, -7, 0]⟩, [some "a", some "b*"], [-1, 1])
    ∧ C01SliceExample.tz.toDense.squeeze [1] = ⟨[4, 3], [0, 0, 0, 0, 0, 0, 0, 0, 0, 5, -7, 0]⟩ := by decide
example : C01SliceExample.s11.WF ∧ C01SliceExample.s11.ChargeRule
    ∧ C01SliceExample.sqScalar C01SliceExample.s11 none = some 9
    ∧ C01SliceExample.s11.toDense = ⟨[1, 1], [9]⟩ := by decide

/-! ### axis scaling, projection -/

/-- `Array.iscale_axis(s, axis)`: `res[…, i, …] = dense[…, i, …] * s[i]`; legs, labels, total charge unchanged,
result well formed. Ring fact used: `0 * s = 0`. -/
theorem C01_toDense_scaleAxis {α : Type} [Mul α] [Zero α] (hz : ∀ s : α, 0 * s = 0) (a r : Arr α) (s : List α)
    (axis : Ax) (ha : a.WF) (k : Nat) (hk : a.getLegIndex axis = .ok k) (h : a.iscaleAxis s axis = .ok r) :
    r.toDense = a.toDense.scaleAxis s k ∧ r.legs = a.legs ∧ r.labels = a.labels ∧ r.qtotal = a.qtotal ∧ r.WF :=
  Arr.toDense_iscaleAxis hz a r s axis ha k hk h

/-- `Array.iproject(masks, axes)` (boolean or integer masks, pairwise distinct axes): the dense form is the
successive `np.compress(mask, ·, axis)`; labels and total charge unchanged; the result is well formed (including
the inherited sortedness claim: dropping blocks and renumbering them monotonically keeps `_qdata` lexsorted). -/
theorem C01_toDense_iproject {α : Type} [Zero α] (a r : Arr α) (masks : List Arr.Mask) (axes : List Ax) (ha : a.WF)
    (ax : List Nat) (hax : a.getLegIndices axes = .ok ax) (hnd : ax.Nodup)
    (bmasks : List (List Bool))
    (hbm : (masks.zip ax).mapM (fun mk => mk.1.toBools (a.shape.getD mk.2 0)) = .ok bmasks)
    (h : a.iproject masks axes = .ok r) :
    r.toDense = (bmasks.zip ax).foldl (fun d mk => d.compress mk.2 mk.1) a.toDense ∧ r.labels = a.labels
      ∧ r.qtotal = a.qtotal ∧ r.WF :=
  Arr.toDense_iproject_full a r masks axes ha ax hax hnd bmasks hbm h

/-- one mask, one axis: `np.compress(mask, dense, axis)` -/
theorem C01_toDense_iproject_single {α : Type} [Zero α] (a r : Arr α) (m : Arr.Mask) (x : Ax) (ha : a.WF) (k : Nat)
    (hk : a.getLegIndex x = .ok k) (bmask : List Bool) (hbm : m.toBools (a.shape.getD k 0) = .ok bmask)
    (h : a.iproject [m] [x] = .ok r) :
    r.toDense = a.toDense.compress k bmask ∧ r.labels = a.labels ∧ r.qtotal = a.qtotal ∧ r.WF :=
  Arr.toDense_iproject_single a r m x ha k hk bmask hbm h

/-- `Array.permute(perm, axis)`: `res[…, j, …] = dense[…, perm[j], …]` (`np.take(dense, perm, axis)`) for every
permutation `perm` of the indices of the leg; labels and total charge unchanged; the result (over the re-bunched
permuted leg) is well formed. `hcl`: a tensor without charges has empty charge rows (needed by
`_find_row_differences` in the bunching of the new leg; `Arr.WF` does not constrain the length of charge rows). -/
theorem C01_toDense_permute {α : Type} [Zero α] (a r : Arr α) (perm : List Nat) (axis : Ax) (ha : a.WF) (k : Nat)
    (hk : a.getLegIndex axis = .ok k) (hperm : perm.Perm (List.range (a.lc k).indLen))
    (hcl : a.mods.length = 0 → ∀ c ∈ (a.lc k).charges, c = []) (h : a.permute perm axis = .ok r) :
    r.toDense = a.toDense.takeList k perm ∧ r.labels = a.labels ∧ r.qtotal = a.qtotal ∧ r.WF :=
  Arr.toDense_permute a r perm axis ha k hk hperm hcl h

/-! non-vacuity (more runs: end of `A_Slice1.lean`, `A_Slice4.lean`, `A_Scale.lean`, `A_Project4.lean`) -/
example : (C01Example.t.addTrivialLeg 1 (some "z") 1).toOption.map (fun r => (r.toDense, r.labels, r.qtotal, r.qdata))
    = some (⟨[4, 1, 3], [0, 0, 0, 0, 0, 0, 0, 0, 0, 5, -7, 0]⟩, [some "a", some "z", some "b*"], [-1, 1], [[2, 0, 0]])
      := by decide
example : C01Example.t.toDense.expandDims 1 = ⟨[4, 1, 3], [0, 0, 0, 0, 0, 0, 0, 0, 0, 5, -7, 0]⟩ := by decide
example : (C01Example.t.takeSlice [-1] [.lbl "a"]).toOption.map (fun r => (r.toDense, r.labels, r.qtotal, r.qdata))
    = some (⟨[3], [5, -7, 0]⟩, [some "b*"], [-1, 0], [[0]]) := by decide
example : C01Example.t.toDense.fixAxes [0] [3] = ⟨[3], [5, -7, 0]⟩ := by decide
example : (C01Example.t.iscaleAxis [2, 3, 5] (.idx (-1))).toOption.map (fun r => r.toDense)
    = some ⟨[4, 3], [0, 0, 0, 0, 0, 0, 0, 0, 0, 10, -21, 0]⟩
    ∧ C01Example.t.toDense.scaleAxis [2, 3, 5] 1 = ⟨[4, 3], [0, 0, 0, 0, 0, 0, 0, 0, 0, 10, -21, 0]⟩ := by decide
example : (C01Example.t.iproject [.bools [false, true, false, true], .ints [1, -3]] [.idx 0, .lbl "b*"]).toOption.map
      (fun r => (r.toDense, r.qdata))
    = some (⟨[2, 2], [0, 0, 5, -7]⟩, [[1, 0]])
    ∧ (C01Example.t.toDense.compress 0 [false, true, false, true]).compress 1 [true, true, false]
      = ⟨[2, 2], [0, 0, 5, -7]⟩ := by decide
example : [3, 0, 2, 1].Perm (List.range (C01Example.t.lc 0).indLen)
    ∧ (C01Example.t.permute [3, 0, 2, 1] (.lbl "a")).toOption.map (fun r => (r.toDense, decide r.WF))
        = some (⟨[4, 3], [5, -7, 0, 0, 0, 0, 0, 0, 0, 0, 0, 0]⟩, true)
    ∧ C01Example.t.toDense.takeList 0 [3, 0, 2, 1] = ⟨[4, 3], [5, -7, 0, 0, 0, 0, 0, 0, 0, 0, 0, 0]⟩ := by decide

/-! ### binary block-wise operations: the merge of two lexsorted block lists -/

/-- **The merge loop of `ibinary_blockwise`** (the statement left open in `PropsMerge.lean`, general branch
included): for two well-formed tensors over legs with the same slices whose block lists are lexsorted, the
`while i < Na or j < Nb` loop over the F-stride keys produces a tensor whose dense form is the entry-wise `f` of the
dense forms — for every `f` with `f 0 0 = 0`. (Keys are strictly increasing along a lexsorted duplicate-free
`_qdata`: `fKey_lt` in `A_Merge1.lean`; loop invariant: `mergeGo_find` in `A_Merge2.lean`.) -/
theorem C01_toDense_mergeBlocks {α : Type} [Zero α] (f : α → α → α) (hf : f 0 0 = 0) (a b : Arr α)
    (ha : a.WF) (hb : b.WF) (hs : a.lcs.map Leg.slices = b.lcs.map Leg.slices)
    (hsa : isLexsorted a.qdata = true) (hsb : isLexsorted b.qdata = true) :
    ({ a with qdata := (Arr.mergeBlocks f a.blockNumbers a.qdata a.data b.qdata b.data).1,
              data := (Arr.mergeBlocks f a.blockNumbers a.qdata a.data b.qdata b.data).2 } : Arr α).toDense
      = Dense.zipWith f a.toDense b.toDense
    ∧ ({ a with qdata := (Arr.mergeBlocks f a.blockNumbers a.qdata a.data b.qdata b.data).1,
                data := (Arr.mergeBlocks f a.blockNumbers a.qdata a.data b.qdata b.data).2 } : Arr α).WF
    ∧ isLexsorted (Arr.mergeBlocks f a.blockNumbers a.qdata a.data b.qdata b.data).1 = true :=
  ⟨Arr.toDense_mergeBlocks f hf a b ha hb hs hsa hsb, Arr.WF_mergeBlocks f a b ha hb hs hsa hsb a.qdataSorted,
    Arr.isLexsorted_mergeBlocks f a b ha hb hs hsa hsb⟩

/-- **`self.ibinary_blockwise(f, other)`** for every `f` with `f 0 0 = 0` (the documented requirement): whenever
the call succeeds on well-formed operands, the new `self` is the entry-wise `f` of the dense forms, where `other`
is first transposed to the label order of `self` — by the permutation `sameLabelsAx other.labels rank self.labels`,
a function of the two label lists only (the identity unless both carry the same set of labels in a different order:
`_transpose_same_labels`); legs, labels and total charge of `self` are kept; the operand keeps its dense form, legs
and labels (it may have been lexsorted in place); both stay well formed. -/
theorem C01_toDense_add {α : Type} [Zero α] (f : α → α → α) (hf : f 0 0 = 0) (a b r b' : Arr α)
    (ha : a.WF) (hb : b.WF) (h : a.ibinaryBlockwise f b = .ok (r, b')) :
    (sameLabelsAx b.labels b.rank a.labels).Perm (List.range b.rank)
      ∧ r.toDense = Dense.zipWith f a.toDense (b.toDense.transpose (sameLabelsAx b.labels b.rank a.labels))
      ∧ r.legs = a.legs ∧ r.labels = a.labels ∧ r.qtotal = a.qtotal ∧ r.WF
      ∧ b'.toDense = b.toDense ∧ b'.legs = b.legs ∧ b'.labels = b.labels ∧ b'.WF := by
  obtain ⟨hp, rest⟩ := Arr.ibinaryBlockwise_spec f hf a b r b' ha hb h
  exact ⟨hp.perm, rest⟩

/-- with equal label lists (or unlabeled legs) no transposition takes place: plain entry-wise `f` -/
theorem C01_toDense_add_sameLabels {α : Type} [Zero α] (f : α → α → α) (hf : f 0 0 = 0) (a b r b' : Arr α)
    (ha : a.WF) (hb : b.WF) (hl : b.labels = a.labels) (h : a.ibinaryBlockwise f b = .ok (r, b')) :
    r.toDense = Dense.zipWith f a.toDense b.toDense := by
  obtain ⟨_, h1, _⟩ := C01_toDense_add f hf a b r b' ha hb h
  rw [h1]
  have : sameLabelsAx b.labels b.rank a.labels = List.range b.rank := by
    unfold sameLabelsAx
    rw [if_pos hl]
  rw [this, ← Arr.toDense_transpose_range b]

/-- **`self.iadd_prefactor_other(p, other)`** — `a + b` (`p = 1`), `a - b` (`p = -1`), `a + p * b` — for both
kernel variants (`cy`): the new `self` is `self + other * p` entry-wise (`other` transposed to the label order of
`self`), including the `p = 0` shortcuts. Ring facts used: `x * 0 = 0`, `0 * s = 0`, `x + 0 = x`. -/
theorem C01_toDense_iaddPrefactorOther {α : Type} [Zero α] [Add α] [Mul α] [DecidableEq α]
    (hz : ∀ x : α, x * 0 = 0) (hz' : ∀ s : α, 0 * s = 0) (hadd : ∀ x : α, x + 0 = x) (cy : Bool)
    (a b r b' : Arr α) (p : α) (ha : a.WF) (hb : b.WF) (h : a.iaddPrefactorOther cy p b = .ok (r, b')) :
    (sameLabelsAx b.labels b.rank a.labels).Perm (List.range b.rank)
      ∧ r.toDense = Dense.zipWith (fun x y => x + y * p) a.toDense
          (b.toDense.transpose (sameLabelsAx b.labels b.rank a.labels))
      ∧ r.legs = a.legs ∧ r.labels = a.labels ∧ r.qtotal = a.qtotal ∧ r.WF
      ∧ b'.toDense = b.toDense ∧ b'.legs = b.legs ∧ b'.labels = b.labels ∧ b'.WF := by
  obtain ⟨hp, rest⟩ := Arr.iaddPrefactorOther_spec hz hz' hadd cy a b r b' p ha hb h
  exact ⟨hp.perm, rest⟩

/-- `a - b` as `Dense.sub`: the instance `p = -1` in a ring where `y * -1 = -y` -/
theorem C01_toDense_sub {α : Type} [Zero α] [Add α] [Mul α] [Neg α] [One α] [DecidableEq α]
    (hz : ∀ x : α, x * 0 = 0) (hz' : ∀ s : α, 0 * s = 0) (hadd : ∀ x : α, x + 0 = x)
    (hneg : ∀ y : α, y * (-1) = -y) (cy : Bool)
    (a b r b' : Arr α) (ha : a.WF) (hb : b.WF) (h : a.iaddPrefactorOther cy (-1) b = .ok (r, b')) :
    r.toDense = Dense.sub a.toDense (b.toDense.transpose (sameLabelsAx b.labels b.rank a.labels)) := by
  obtain ⟨_, h1, _⟩ := C01_toDense_iaddPrefactorOther hz hz' hadd cy a b r b' (-1) ha hb h
  rw [h1]
  unfold Dense.sub
  congr 1
  funext x y
  rw [hneg]

/-! non-vacuity: two U(1)×Z₃ tensors with duplicate sectors on both legs, *different* stored rows (general branch
of the merge: one block of both, one of `a` only, one of `b` only), a block stored by neither, `qtotal ≠ 0`
(`C01CoreExample` in `A_Merge5.lean`). `mergeGo` is defined by well-founded recursion, so the run of the loop is
evaluated with its equation lemmas (`mergeBlocks_eval`) and everything else by `decide`. -/
example : C01CoreExample.a.WF ∧ C01CoreExample.b.WF ∧ C01CoreExample.a.qdata ≠ C01CoreExample.b.qdata := by decide
example : (C01CoreExample.a.ibinaryBlockwise (· + ·) C01CoreExample.b).toOption.map (fun rb => rb.1.toDense)
    = some ⟨[4, 4], [11, 22, 0, 0, 0, 0, 0, 0, 0, 0, 0, 0, 5, -7, 0, 3]⟩ := by
  have h1 : C01CoreExample.b.transposeSameLabels C01CoreExample.a.labels = (C01CoreExample.b, false) := by rfl
  simp only [Arr.ibinaryBlockwise, h1, C01CoreExample.check_ok, bind, Except.bind, pure, Except.pure,
    C01CoreExample.mergeBlocks_eval]
  decide
example : Dense.zipWith (· + ·) C01CoreExample.a.toDense C01CoreExample.b.toDense
    = ⟨[4, 4], [11, 22, 0, 0, 0, 0, 0, 0, 0, 0, 0, 0, 5, -7, 0, 3]⟩ := by decide

/-! ### finite programs over all operations of part A -/

/-- **All finite compositions.** For every program `p` (expression tree over: negation, scaling, `conj`,
`complex_conj`, `transpose`, `iswapaxes`, `add_trivial_leg`, `take_slice`, `squeeze`, `iscale_axis`, `iproject`, `permute`,
`ibinary_blockwise f`, `iadd_prefactor_other` in both kernel variants — with axes given by index or by label) and
all well-formed operands `env`: if the block-sparse evaluation succeeds and the documented side conditions hold
(`C01ProgA.Side`: `f 0 0 = 0`; no repeated axis in `take_slice` / `iproject`; no stored block of extent 0 along a
squeezed axis; `perm` a permutation in `permute`), then the result has the dense form *and the labels* that the reference semantics `evalRef` computes
from the dense forms and labels of the operands alone (numpy on the values, the documented label rules on the
labels), and it is well formed again — so the statement chains through every intermediate result.
Induction over programs, `C01ProgA.evalArr_spec`; extends `C01_program` of `Props.lean`. -/
theorem C01_programA {α : Type} [Zero α] [Neg α] [Add α] [Mul α] [DecidableEq α] (st : α → α) (hst : st 0 = 0)
    (hneg : -(0 : α) = 0) (hz : ∀ x : α, x * 0 = 0) (hz' : ∀ s : α, 0 * s = 0) (hadd : ∀ x : α, x + 0 = x)
    (env : List (Arr α)) (henv : ∀ a ∈ env, a.WF) (p : C01ProgA α) (r : Arr α)
    (hside : p.Side st env) (h : p.evalArr st env = .ok r) :
    r.toDense = (p.evalRef st (env.map Arr.toLD)).d ∧ r.labels = (p.evalRef st (env.map Arr.toLD)).labels ∧ r.WF := by
  obtain ⟨h1, h2⟩ := C01ProgA.evalArr_spec st hst hneg hz hz' hadd env henv p r hside h
  exact ⟨congrArg LDense.d h1, congrArg LDense.labels h1, h2⟩

/-- single-axis slices and projections always meet the side condition -/
theorem C01_programA_side_single {α : Type} (a : Arr α) (x : Ax) (ax : List Nat)
    (h : a.getLegIndices [x] = .ok ax) : ax.Nodup := by
  obtain ⟨hl, _⟩ := mapM_except_ok _ _ _ h
  match ax, hl with
  | [k], _ => simp

/-! non-vacuity: a program using labels, a binary operation, a trivial leg, a transposition by labels and a slice,
on the U(1)×Z₃ tensor `t`: `((t + 2·(−t)) .add_trivial_leg(1,'z') .transpose(['b*','z','a']))[:, 0, :]` = `−tᵀ` -/
namespace C01ProgExample
open C01ProgA
def p : C01ProgA Int :=
  .takeSlice [0] [.lbl "z"] (.transpose (some [.lbl "b*", .lbl "z", .lbl "a"])
    (.addTrivialLeg 1 (some "z") 1 (.addPrefactor true 2 (.input 0) (.neg (.input 0)))))

theorem side : p.Side id [C01Example.t] :=
  ⟨⟨trivial, trivial⟩, fun a ax _ hax => C01_programA_side_single a _ ax hax⟩

example : (p.evalArr id [C01Example.t]).toOption.map (fun r => (r.toDense, r.labels, r.qtotal))
    = some (⟨[3, 4], [0, 0, 0, -5, 0, 0, 0, 7, 0, 0, 0, 0]⟩, [some "b*", some "a"], [-1, 1]) := by decide
example : ((p.evalRef id [C01Example.t.toLD]).d, (p.evalRef id [C01Example.t.toLD]).labels)
    = (⟨[3, 4], [0, 0, 0, -5, 0, 0, 0, 7, 0, 0, 0, 0]⟩, [some "b*", some "a"]) := by decide
/-- the theorem instantiated -/
example (r : Arr Int) (h : p.evalArr id [C01Example.t] = .ok r) :
    r.toDense = (p.evalRef id [C01Example.t.toLD]).d ∧ r.labels = (p.evalRef id [C01Example.t.toLD]).labels ∧ r.WF :=
  C01_programA id rfl (by decide) Int.mul_zero Int.zero_mul Int.add_zero [C01Example.t]
    (fun a ha => by
      have : a = C01Example.t := by simpa using ha
      subst this
      decide) p r side h
end C01ProgExample

/-! ### `to_ndarray` -/

/-- **The two definitions of `to_ndarray` agree.** `Arr.toDenseFast` (the blocks are written one after the other
into a zero array — what `Array.to_ndarray` does and what the driver of `./check C01` evaluates) equals
`Arr.toDense` (the entry-wise definition every theorem above is about) for every well-formed tensor: the writes hit
pairwise different positions, each entry is written by the unique stored block containing it. -/
theorem C01_toDenseFast {α : Type} [Zero α] (a : Arr α) (ha : a.WF) : a.toDenseFast = a.toDense :=
  Arr.toDenseFast_eq_toDense a ha

example : C01CoreExample.a.toDenseFast = ⟨[4, 4], [1, 2, 0, 0, 0, 0, 0, 0, 0, 0, 0, 0, 5, -7, 0, 0]⟩
    ∧ C01CoreExample.a.toDense = ⟨[4, 4], [1, 2, 0, 0, 0, 0, 0, 0, 0, 0, 0, 0, 5, -7, 0, 0]⟩ := by decide
