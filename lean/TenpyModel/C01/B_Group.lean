import TenpyModel.C01.B_Key
/-!
C01 part B — `groupRuns` (grouping consecutive equal keys, `_find_row_differences` on a sorted key column) and
gathering along `np.lexsort`.
-/
namespace TenpyModel.C01B
open TenpyModel.Core

variable {κ β : Type} [DecidableEq κ]

theorem groupRuns_cons (k : κ) (v : β) (rest : List (κ × β)) :
    Arr.groupRuns ((k, v) :: rest) =
      match Arr.groupRuns rest with
      | (k', vs) :: gs => if k = k' then (k, v :: vs) :: gs else (k, [v]) :: (k', vs) :: gs
      | [] => [(k, [v])] := by
  rw [Arr.groupRuns]
  cases h : Arr.groupRuns rest with
  | nil => rfl
  | cons g gs => obtain ⟨k', vs⟩ := g; rfl

/-- the head group of `groupRuns` carries the key of the head element -/
theorem groupRuns_head (k : κ) (v : β) (rest : List (κ × β)) :
    ∃ vs gs, Arr.groupRuns ((k, v) :: rest) = (k, vs) :: gs := by
  rw [groupRuns_cons]
  cases h : Arr.groupRuns rest with
  | nil => exact ⟨_, _, rfl⟩
  | cons g gs =>
    obtain ⟨k', vs⟩ := g
    simp only
    split
    · exact ⟨_, _, rfl⟩
    · exact ⟨_, _, rfl⟩

/-- keys of the groups are keys of elements -/
theorem groupRuns_keys_sub (L : List (κ × β)) : ∀ g ∈ Arr.groupRuns L, g.1 ∈ L.map (·.1) := by
  induction L with
  | nil => intro g hg; simp [Arr.groupRuns] at hg
  | cons x L ih =>
    obtain ⟨k, v⟩ := x
    intro g hg
    rw [groupRuns_cons] at hg
    cases h : Arr.groupRuns L with
    | nil =>
      rw [h] at hg
      simp only [List.mem_singleton] at hg
      subst hg; simp
    | cons g' gs =>
      obtain ⟨k', vs⟩ := g'
      rw [h] at hg ih
      simp only at hg
      split at hg
      · rcases List.mem_cons.1 hg with rfl | hg
        · simp
        · have := ih g (by simp [hg]); simp only [List.map_cons, List.mem_cons]; exact Or.inr this
      · rcases List.mem_cons.1 hg with rfl | hg
        · simp
        · have := ih g hg; simp only [List.map_cons, List.mem_cons]; exact Or.inr this

/-- Elements whose keys are sorted w.r.t. a relation `R` such that `R x y ∧ R y x → x = y` style antisymmetry holds
in the form: a later key equal to an earlier one forces everything in between to be equal. We use the simple
sufficient condition "equal keys are adjacent": `Adj L`. -/
def Adj : List (κ × β) → Prop
  | [] => True
  | (k, _) :: rest => (∀ x ∈ rest, x.1 = k → ∀ y, rest.head? = some y → y.1 = k) ∧ Adj rest

/-- under `Adj`, the groups are exactly the fibres of the key map, in order: group of `k` = values with key `k` -/
theorem groupRuns_spec (L : List (κ × β)) (h : Adj L) :
    (∀ g ∈ Arr.groupRuns L, g.2 = (L.filter (fun x => x.1 = g.1)).map (·.2) ∧ g.2 ≠ [])
    ∧ ((Arr.groupRuns L).map (·.1)).Nodup
    ∧ (∀ x ∈ L, x.1 ∈ (Arr.groupRuns L).map (·.1)) := by
  induction L with
  | nil => simp [Arr.groupRuns]
  | cons x L ih =>
    obtain ⟨k, v⟩ := x
    obtain ⟨hadj, hrest⟩ := h
    obtain ⟨i1, i2, i3⟩ := ih hrest
    rw [groupRuns_cons]
    cases hg : Arr.groupRuns L with
    | nil =>
      have hL : L = [] := by
        cases L with
        | nil => rfl
        | cons y L' =>
          have := i3 y (by simp)
          rw [hg] at this; simp at this
      subst hL
      simp
    | cons g' gs =>
      obtain ⟨k', vs⟩ := g'
      rw [hg] at i1 i2 i3
      -- the head of `L` has key `k'`
      have hhead : ∃ y L', L = y :: L' ∧ y.1 = k' := by
        cases L with
        | nil => simp [Arr.groupRuns] at hg
        | cons y L' =>
          obtain ⟨ky, vy⟩ := y
          obtain ⟨vs', gs', e⟩ := groupRuns_head ky vy L'
          rw [e] at hg
          simp only [List.cons.injEq, Prod.mk.injEq] at hg
          exact ⟨_, _, rfl, hg.1.1⟩
      obtain ⟨y, L', hL, hy⟩ := hhead
      simp only
      by_cases hk : k = k'
      · subst hk
        rw [if_pos rfl]
        refine ⟨?_, ?_, ?_⟩
        · intro g hgm
          rcases List.mem_cons.1 hgm with rfl | hgm
          · have := (i1 (k, vs) (by simp)).1
            simp only at this
            simp [this]
          · have hne : g.1 ≠ k := by
              intro e
              have := List.nodup_cons.1 i2
              simp only [List.map_cons] at this
              exact this.1 (e ▸ List.mem_map.2 ⟨g, hgm, rfl⟩)
            have := i1 g (by simp [hgm])
            refine ⟨?_, this.2⟩
            rw [this.1]
            simp [List.filter_cons, Ne.symm hne]
        · simpa using i2
        · intro x hx
          rcases List.mem_cons.1 hx with rfl | hx
          · simp
          · simpa using i3 x hx
      · rw [if_neg hk]
        -- no element of `L` has key `k`
        have hnone : ∀ x ∈ L, x.1 ≠ k := by
          intro x hx e
          have := hadj x hx e y (by rw [hL]; rfl)
          exact hk (by rw [← this, hy])
        refine ⟨?_, ?_, ?_⟩
        · intro g hgm
          rcases List.mem_cons.1 hgm with rfl | hgm
          · simp only [List.filter_cons, decide_true, if_true, List.map_cons]
            have : L.filter (fun x => decide (x.1 = k)) = [] := by
              apply List.filter_eq_nil_iff.2
              intro x hx; simpa using hnone x hx
            simp [this]
          · have := i1 g hgm
            have hne : g.1 ≠ k := by
              intro e
              have hm := groupRuns_keys_sub L g (by rw [hg]; exact hgm)
              obtain ⟨x, hx, hxe⟩ := List.mem_map.1 hm
              exact hnone x hx (hxe.trans e)
            refine ⟨?_, this.2⟩
            rw [this.1]
            simp [List.filter_cons, Ne.symm hne]
        · simp only [List.map_cons, List.nodup_cons]
          refine ⟨?_, by simpa using i2⟩
          intro hm
          have : k ∈ ((k', vs) :: gs).map (·.1) := hm
          obtain ⟨g, hgm, hge⟩ := List.mem_map.1 this
          have hm' := groupRuns_keys_sub L g (by rw [hg]; exact hgm)
          obtain ⟨x, hx, hxe⟩ := List.mem_map.1 hm'
          exact hnone x hx (hxe.trans hge)
        · intro x hx
          rcases List.mem_cons.1 hx with rfl | hx
          · simp
          · have := i3 x hx
            simp only [List.map_cons, List.mem_cons] at this ⊢
            exact Or.inr this

/-- keys sorted by a total order with antisymmetry are adjacent -/
theorem adj_of_sorted (le : κ → κ → Prop) (hanti : ∀ a b, le a b → le b a → a = b)
    (L : List (κ × β)) (hs : L.Pairwise (fun x y => le x.1 y.1)) : Adj L := by
  induction L with
  | nil => trivial
  | cons x L ih =>
    obtain ⟨k, v⟩ := x
    obtain ⟨h1, h2⟩ := List.pairwise_cons.1 hs
    refine ⟨?_, ih h2⟩
    intro z hz hzk y hy
    cases L with
    | nil => simp at hz
    | cons y' L' =>
      simp only [List.head?_cons, Option.some.injEq] at hy
      subst hy
      have a1 := h1 y' (by simp)
      rcases List.mem_cons.1 hz with rfl | hz'
      · exact hzk
      · have a2 := (List.pairwise_cons.1 h2).1 z hz'
        rw [hzk] at a2
        exact (hanti _ _ a1 a2).symm

end TenpyModel.C01B
