import TenpyModel.C01.C_Charge21
import TenpyModel.C01.B2_CombEx
/-!
C01 part C — non-vacuity of `chargeRule_split_combineLegs` / `combineLegs_default_splitLegOK`: the public calls
`t3.combine_legs([2, 0])` (needs the transposition `[1, 2, 0]`) and `t3.combine_legs(['b', 2], qconj=None)` followed by
`split_legs`.
-/
namespace TenpyModel.C01C.Ex7
open TenpyModel.Core TenpyModel.C01B TenpyModel.C01B2 TenpyModel.C01B2.Comb TenpyModel.C01C

theorem ok_of_isSome {ε β} (x : Except ε β) (h : x.toOption.isSome = true) : ∃ r, x = .ok r := by
  cases x with
  | error e => simp [Except.toOption] at h
  | ok r => exact ⟨r, rfl⟩

example : ∃ r, Ex.t3.combineLegs [[.idx 2, .idx 0]] none none [some 1] = .ok r
    ∧ (∀ l ∈ r.legs, l.isPipe = true → SplitLegOK r.mods l)
    ∧ (∀ axes a', r.splitLegs axes = .ok a' → a'.ChargeRule ∧ LegsValid a')
    ∧ (r.splitLegs none).toOption.isSome = true := by
  obtain ⟨r, h⟩ := ok_of_isSome (Ex.t3.combineLegs [[.idx 2, .idx 0]] none none [some 1]) (by decide)
  have hqc : ∀ q, some q ∈ [some (1 : Int)] → q = 1 ∨ q = -1 := by
    intro q hq; simp only [List.mem_singleton, Option.some.injEq] at hq; exact Or.inl hq
  refine ⟨r, h, combineLegs_default_splitLegOK Ex.t3 r (by decide) (by decide) (by decide) (by decide) _ _ hqc
    (by decide) h, fun axes a' hs => chargeRule_split_combineLegs Ex.t3 r a' (by decide) (by decide) (by decide)
    (by decide) (by decide) _ _ hqc (by decide) h axes hs, ?_⟩
  have : ((Ex.t3.combineLegs [[.idx 2, .idx 0]] none none [some 1]).bind (fun r => r.splitLegs none)).toOption.isSome
      = true := by decide
  rw [h] at this
  exact this

/-- by evaluation: the split tensor stores blocks and obeys the rule -/
example : ((Ex.t3.combineLegs [[.lbl "b", .idx 2]] none none [none]).bind (fun r => r.splitLegs none)).toOption.map
      (fun a' => decide (a'.ChargeRule ∧ LegsValid a') && !a'.qdata.isEmpty) = some true := by decide

end TenpyModel.C01C.Ex7
