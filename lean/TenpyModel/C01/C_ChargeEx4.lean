import TenpyModel.C01.C_Charge9
import TenpyModel.C01.PropsB2
/-!
C01 part C — non-vacuity of the program theorem `progAB_spec` / `progAB_chargeRule_partial`:
`(-m2) ⋅₁ m` (`C01ExampleB2.pAB`: a part-A program below a `tensordot`, worker branch) and `trace(-s3, 'a', 'a*')`.
-/
namespace TenpyModel.C01C.Ex4
open TenpyModel.Core TenpyModel.C01B TenpyModel.C01B2 TenpyModel.C01C
open TenpyModel.Core.C01ProgAB

/-- the reduced side condition of `pAB`: only the result `-m2` of the embedded part-A program is inspected -/
theorem pAB_sideA : SideA id false [C01ExampleB2.m2, C01ExampleB.m] C01ExampleB2.pAB := by
  refine ⟨⟨trivial, trivial, fun a b ha hb => ⟨trivial, fun r hr => ?_⟩⟩, trivial⟩
  have e : (C01ProgAB.input 0).evalArr id false [C01ExampleB2.m2, C01ExampleB.m] = .ok C01ExampleB2.m2 := rfl
  rw [e] at ha hb
  cases ha
  cases hb
  have e2 : (C01ProgA.neg (.input 0)).evalArr id [C01ExampleB2.m2, C01ExampleB2.m2] = .ok C01ExampleB2.m2.neg := rfl
  rw [e2] at hr
  cases hr
  decide

example : ∀ a ∈ [C01ExampleB2.m2, C01ExampleB.m], a.WF ∧ a.ChargeRule ∧ LegsValid a := by decide

/-- the program runs; the theorem gives dense form, labels, well-formedness, charge rule and leg validity of the result,
and the full side condition of `C01_programAB` -/
example : ∃ r, C01ExampleB2.pAB.evalArr id false [C01ExampleB2.m2, C01ExampleB.m] = .ok r
    ∧ r.toDense = ⟨[4, 4], [-949, 0, 0, 0, 0, -7, -10, 0, 0, -15, -22, 0, -700, 0, 0, 0]⟩
    ∧ r.WF ∧ r.ChargeRule ∧ LegsValid r
    ∧ C01ExampleB2.pAB.Side id false [C01ExampleB2.m2, C01ExampleB.m] := by
  obtain ⟨r, hr⟩ := tensordot_int_isOk false C01ExampleB2.m2.neg C01ExampleB.m 1 rfl (by decide) (by decide)
    (by decide)
  have he : C01ExampleB2.pAB.evalArr id false [C01ExampleB2.m2, C01ExampleB.m] = .ok r := by
    have e1 : (C01ProgAB.partA (.neg (.input 0)) (.input 0) (.input 0)).evalArr id false
        [C01ExampleB2.m2, C01ExampleB.m] = .ok C01ExampleB2.m2.neg := rfl
    have e2 : (C01ProgAB.input 1).evalArr id false [C01ExampleB2.m2, C01ExampleB.m] = .ok C01ExampleB.m := rfl
    simp only [C01ExampleB2.pAB, C01ProgAB.evalArr, bind, Except.bind] at e1 e2 ⊢
    simp only [e1, e2, C01ProgAB.dotArr, hr]
  obtain ⟨h1, _, h3, h4, h5⟩ := progAB_spec id rfl false _ (by decide) _ r pAB_sideA he
  obtain ⟨hs, _⟩ := progAB_chargeRule_partial id rfl false _ (by decide) _ r pAB_sideA he
  refine ⟨r, he, ?_, h3, h4, h5, hs⟩
  rw [h1]; decide

end TenpyModel.C01C.Ex4
