import TenpyModel.C01.C_CombR4
import TenpyModel.C01.C_Charge8
/-!
C01 part C — `split_legs` on reference objects, part 2: **every** well-formed tensor `a` whose legs at the (ascending)
axes `ax` are genuine pipes is in the situation "`a` is the result of a standard-form `combine_legs`" (`CS`, B2_Comb16)
of the block-less tensor over the split legs (`splitFrame`): groups = the runs of positions of the incoming legs
(`splitGroups`), new axes = `ax`, pipes = the legs of `a` at `ax`. (`CS` only speaks about legs, so all of B2_Comb16–28
— `split_core`, `split_entry`, `split_WF` — applies to `a`, not only to results of `combine_legs`.)
-/
namespace TenpyModel.C01C.CombR
open TenpyModel.Core TenpyModel.C01B TenpyModel.C01B2 TenpyModel.C01B2.Comb

variable {α : Type}

/-- a leg that `split_legs` can split: a genuine `LegPipe` — built by `LegPipe.__init__` from the `LegCharge` views of
its incoming legs (any `sort` / `bunch`), which have consistent slices. Decidable. -/
def PipeLegOK : ALeg → Prop
  | .pipe p subs =>
      (∃ sb ∈ [(true, true), (true, false), (false, true), (false, false)],
          p = Pipe.init (subs.map ALeg.leg) p.leg.qconj sb.1 sb.2)
      ∧ ∀ s ∈ subs, s.leg.Shape
  | .plain _ => False

instance (l : ALeg) : Decidable (PipeLegOK l) := by
  cases l <;> unfold PipeLegOK <;> infer_instance

/-- the hypothesis of the charge-rule theorem for `split_legs` (`SplitLegOK`, C_Charge7) implies it -/
theorem PipeLegOK.of_splitLegOK (mods : List Nat) (l : ALeg) (hp : l.isPipe = true) (h : SplitLegOK mods l) :
    PipeLegOK l := by
  cases l with
  | plain _ => cases hp
  | pipe p subs =>
    obtain ⟨h1, _, h3⟩ := h
    exact ⟨h1, fun s hs => (h3 s.leg (List.mem_map.2 ⟨s, hs, rfl⟩)).1⟩

theorem PipeLegOK.eq {l : ALeg} (h : PipeLegOK l) : ∃ p subs qconj sort bunch,
    l = .pipe p subs ∧ p = Pipe.init (subs.map ALeg.leg) qconj sort bunch ∧ ∀ s ∈ subs, s.leg.Shape := by
  cases l with
  | plain _ => exact absurd h id
  | pipe p subs =>
    obtain ⟨⟨sb, _, e⟩, h2⟩ := h
    exact ⟨p, subs, _, _, _, rfl, e, h2⟩

/-- number of legs axis `k` is replaced by -/
def splitWidth (legs : List ALeg) (ax : List Nat) (k : Nat) : Nat :=
  if ax.contains k then (Arr.subLegs (legs.getD k default)).length else 1

/-- the legs axis `k` is replaced by -/
def splitSeg (legs : List ALeg) (ax : List Nat) (k : Nat) : List ALeg :=
  if ax.contains k then Arr.subLegs (legs.getD k default) else [legs.getD k default]

/-- positions (in the split tensor) of the incoming legs of every split axis -/
def splitGroups (legs : List ALeg) (ax : List Nat) : List (List Nat) := ax.map (segPart (splitWidth legs ax))

/-- the block-less tensor over the split legs -/
def splitFrame (a : Arr α) (ax : List Nat) : Arr α :=
  { mods := a.mods, legs := Arr.splitLegList a.legs ax, qtotal := [],
    labels := List.replicate (Arr.splitLegList a.legs ax).length none, qdata := [], data := [], qdataSorted := true }

theorem splitSeg_length (legs : List ALeg) (ax : List Nat) (k : Nat) :
    (splitSeg legs ax k).length = splitWidth legs ax k := by
  unfold splitSeg splitWidth
  split <;> rfl

theorem splitLegList_eq (legs : List ALeg) (ax : List Nat) :
    Arr.splitLegList legs ax = ((List.range legs.length).map (splitSeg legs ax)).flatten := by
  unfold Arr.splitLegList
  rw [List.flatMap_def]
  rfl

theorem splitFrame_rank (a : Arr α) (ax : List Nat) :
    (splitFrame a ax).rank = segOff (splitWidth a.legs ax) a.rank := by
  show (Arr.splitLegList a.legs ax).length = _
  rw [splitLegList_eq]
  exact segs_length _ _ _ (fun k _ => splitSeg_length a.legs ax k)

theorem splitWidth_one (legs : List ALeg) (ax : List Nat) (n : Nat) :
    ∀ k, k < n → ax.contains k = false → splitWidth legs ax k = 1 := by
  intro k _ hc
  unfold splitWidth
  rw [hc]
  rfl

/-- the legs of the split tensor on the positions of segment `k` -/
theorem pick_splitLegs (a : Arr α) (ax : List Nat) (k : Nat) (hk : k < a.rank) :
    pick (splitFrame a ax).legs (segPart (splitWidth a.legs ax) k) default = splitSeg a.legs ax k := by
  show pick (Arr.splitLegList a.legs ax) _ _ = _
  rw [splitLegList_eq]
  exact pick_seg _ _ _ _ (fun k _ => splitSeg_length a.legs ax k) k hk

theorem segPart_lt (a : Arr α) (ax : List Nat) (k : Nat) (hk : k < a.rank) :
    ∀ x ∈ segPart (splitWidth a.legs ax) k, x < (splitFrame a ax).rank := by
  intro x hx
  rw [splitFrame_rank]
  have h1 := (mem_segPart _ _ _).1 hx
  have h2 := segOff_mono (splitWidth a.legs ax) (k + 1) a.rank (by omega)
  have : segOff (splitWidth a.legs ax) (k + 1) = segOff (splitWidth a.legs ax) k + splitWidth a.legs ax k := rfl
  omega

section cs
variable (a : Arr α) (ax : List Nat)

theorem split_stdForm (hasc : ax.Pairwise (· < ·)) (hlt : ∀ k ∈ ax, k < a.rank) :
    StdForm (splitFrame a ax).rank (splitGroups a.legs ax) ax := by
  rw [splitFrame_rank]
  exact segs_stdForm _ _ _ hasc hlt (splitWidth_one a.legs ax a.rank)

theorem split_pipesOK2 (hlt : ∀ k ∈ ax, k < a.rank) (hp : ∀ k ∈ ax, PipeLegOK (a.legs.getD k default)) :
    PipesOK2 (splitFrame a ax) (splitGroups a.legs ax) (ax.map (fun k => a.legs.getD k default)) := by
  intro g hg
  have hg' : g < ax.length := by simpa [splitGroups] using hg
  have hkm : ax.getD g 0 ∈ ax := by rw [getD_lt _ _ _ hg']; exact List.getElem_mem _
  have hk := hlt _ hkm
  have hc : ax.contains (ax.getD g 0) = true := by simpa using hkm
  obtain ⟨p, subs, qconj, sort, bunch, el, ep, _⟩ := (hp _ hkm).eq
  have hseg : splitSeg a.legs ax (ax.getD g 0) = subs := by
    unfold splitSeg; rw [if_pos hc, el]; rfl
  have hcl : (splitGroups a.legs ax).getD g [] = segPart (splitWidth a.legs ax) (ax.getD g 0) := by
    unfold splitGroups; rw [getD_map' _ _ g 0 [] hg']
  refine ⟨qconj, sort, bunch, ?_⟩
  rw [getD_map' _ _ g 0 default hg', hcl, pick_splitLegs a ax _ hk, hseg]
  have : pick (splitFrame a ax).lcs (segPart (splitWidth a.legs ax) (ax.getD g 0)) default = subs.map ALeg.leg := by
    unfold Arr.lcs
    rw [pick_map ALeg.leg _ _ default default (segPart_lt a ax _ hk), pick_splitLegs a ax _ hk, hseg]
  rw [this, el, ep]

theorem split_W (ha : a.WF) (hp : ∀ k ∈ ax, PipeLegOK (a.legs.getD k default)) : W (splitFrame a ax) where
  labLen := by show (List.replicate _ none).length = _; rw [List.length_replicate]; rfl
  len := rfl
  nodup := List.nodup_nil
  shapes := by
    intro l hl
    obtain ⟨s, hs, rfl⟩ := List.mem_map.1 hl
    have hs' : s ∈ Arr.splitLegList a.legs ax := hs
    rw [splitLegList_eq] at hs'
    obtain ⟨seg, hseg, hmem⟩ := List.mem_flatten.1 hs'
    obtain ⟨k, hk, rfl⟩ := List.mem_map.1 hseg
    have hkr : k < a.rank := List.mem_range.1 hk
    have hmemk : a.legs.getD k default ∈ a.legs := by rw [getD_lt _ _ _ hkr]; exact List.getElem_mem _
    unfold splitSeg at hmem
    by_cases hc : ax.contains k = true
    · rw [if_pos hc] at hmem
      obtain ⟨p, subs, _, _, _, el, _, hsh⟩ := (hp k (by simpa using hc)).eq
      rw [el] at hmem
      exact hsh s hmem
    · rw [if_neg hc, List.mem_singleton] at hmem
      subst hmem
      exact (W.of ha).shapes _ (List.mem_map.2 ⟨_, hmemk, rfl⟩)
  rowLen := fun r hr => by cases hr
  rowLt := fun r hr => by cases hr
  blkShape := fun rb hrb => by cases hrb
  blkGood := fun rb hrb => by cases hrb
  sortedOK := fun _ => rfl

theorem split_legs_eq (hasc : ax.Pairwise (· < ·)) (hlt : ∀ k ∈ ax, k < a.rank) :
    a.legs = cLegs (splitFrame a ax) (splitGroups a.legs ax) ax (ax.map (fun k => a.legs.getD k default)) := by
  have hstd := split_stdForm a ax hasc hlt
  have hl1 : ax.length = (splitGroups a.legs ax).length := by simp [splitGroups]
  have hl2 : (ax.map (fun k => a.legs.getD k default)).length = (splitGroups a.legs ax).length := by
    simp [splitGroups]
  obtain ⟨hlen, hget⟩ := cLegs_getD (splitFrame a ax) (splitGroups a.legs ax) ax _ hl1 hl2 hstd
  have hrank : (cNonComb (splitFrame a ax).rank (splitGroups a.legs ax)).length + (splitGroups a.legs ax).length
      = a.rank := by
    rw [splitFrame_rank]
    exact segs_rank _ _ _ hasc hlt (splitWidth_one a.legs ax a.rank)
  rw [hrank] at hlen hget
  apply ext_getD _ _ default (by rw [hlen]; rfl)
  intro k hk
  have hk' : k < a.rank := hk
  rw [hget k hk']
  by_cases hc : ax.contains k = true
  · rw [if_pos hc]
    have hm : k ∈ ax := by simpa using hc
    rw [getD_map' _ _ _ 0 default (List.idxOf_lt_length_of_mem hm), na_getD_idxOf ax k hc]
  · rw [if_neg hc]
    have hc' : ax.contains k = false := by simpa using hc
    have hm : k ∈ cNonNew a.rank ax :=
      List.mem_filter.2 ⟨List.mem_range.2 hk', by show (!ax.contains k) = true; rw [hc']; rfl⟩
    have hi := List.idxOf_lt_length_of_mem hm
    have hnc : cNonComb (splitFrame a ax).rank (splitGroups a.legs ax)
        = (cNonNew a.rank ax).map (segOff (splitWidth a.legs ax)) := by
      rw [splitFrame_rank]
      exact segs_nonComb _ _ _ (splitWidth_one a.legs ax a.rank)
    rw [hnc, getD_map' _ _ _ 0 0 hi, getD_lt _ _ _ hi, List.getElem_idxOf hi]
    -- the single position of segment `k`
    have hp1 : segPart (splitWidth a.legs ax) k = [segOff (splitWidth a.legs ax) k] := by
      unfold segPart; rw [splitWidth_one a.legs ax a.rank k hk' hc']; rfl
    have := pick_splitLegs a ax k hk'
    rw [hp1] at this
    unfold splitSeg at this
    rw [if_neg hc] at this
    simpa [pick] using this.symm

/-- **a tensor with genuine pipes at `ax` is a "combined" tensor** -/
theorem cs_of_split (ha : a.WF) (hasc : ax.Pairwise (· < ·)) (hlt : ∀ k ∈ ax, k < a.rank)
    (hp : ∀ k ∈ ax, PipeLegOK (a.legs.getD k default)) :
    CS (splitFrame a ax) a (splitGroups a.legs ax) ax (ax.map (fun k => a.legs.getD k default)) where
  wa := split_W a ax ha hp
  wr := W.of ha
  hl1 := by simp [splitGroups]
  hl2 := by simp [splitGroups]
  pipes := split_pipesOK2 a ax hlt hp
  std := split_stdForm a ax hasc hlt
  legs := split_legs_eq a ax hasc hlt

end cs
end TenpyModel.C01C.CombR
