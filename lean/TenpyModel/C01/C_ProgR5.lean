import TenpyModel.C01.C_ProgR4
/-!
C01 part C — every finite program over part A's operations, `outer`, `tensordot` (integer or axis pair) and `trace`
agrees with the reference semantics on reference objects **with legs** (`C01ProgAB.evalArr_specR`).
-/
namespace TenpyModel.Core
open Arr (permuteList)
open TenpyModel.C01B TenpyModel.C01B2 TenpyModel.C01C.ProgR

namespace C01ProgAB
variable {α : Type}

theorem toR_parts [Zero α] (r : Arr α) (x : RObj α) (h : r.toR = x) :
    r.toDense = x.d ∧ r.labels = x.labels ∧ r.legs = x.legs ∧ r.mods = x.mods ∧ r.toLD = x.ld :=
  ⟨congrArg RObj.d h, congrArg RObj.labels h, congrArg RObj.legs h, congrArg RObj.mods h, congrArg RObj.ld h⟩

/-- **all finite programs over part A and the products, legs included** -/
theorem evalArr_specR [CommRing α] [DecidableEq α] (st : α → α) (hst : st 0 = 0) (cy : Bool)
    (env : List (Arr α)) (henv : ∀ a ∈ env, a.WF) (p : C01ProgAB α) :
    ∀ r, Side st cy env p → evalArr st cy env p = .ok r → r.toR = evalRefR st (env.map Arr.toR) p ∧ r.WF := by
  induction p with
  | input i =>
    intro r _ h
    simp only [evalArr] at h
    cases hi : env[i]? with
    | none => simp [hi] at h
    | some a =>
      simp only [hi, Except.ok.injEq] at h
      subst h
      refine ⟨?_, henv a (List.mem_of_getElem? hi)⟩
      simp only [evalRefR, List.getD_eq_getElem?_getD, List.getElem?_map, hi, Option.map_some, Option.getD_some]
  | partA p x y ihx ihy =>
    intro r hs h
    simp only [evalArr, bind, Except.bind] at h
    cases hx : evalArr st cy env x with
    | error e => rw [hx] at h; simp at h
    | ok a =>
      cases hy : evalArr st cy env y with
      | error e => rw [hx, hy] at h; simp at h
      | ok b =>
        rw [hx, hy] at h
        simp only at h
        obtain ⟨ea, wa⟩ := ihx a hs.1 hx
        obtain ⟨eb, wb⟩ := ihy b hs.2.1 hy
        have := C01ProgA.evalArr_specR st hst neg_zero mul_zero zero_mul add_zero [a, b]
          (fun c hc => by
            rcases List.mem_cons.1 hc with rfl | hc
            · exact wa
            · have : c = b := by simpa using hc
              subst this; exact wb) p r (hs.2.2 a b hx hy) h
        refine ⟨?_, this.2⟩
        rw [this.1]
        simp only [evalRefR, List.map_cons, List.map_nil, ea, eb]
  | outer x y ihx ihy =>
    intro r hs h
    simp only [evalArr, bind, Except.bind] at h
    cases hx : evalArr st cy env x with
    | error e => rw [hx] at h; simp at h
    | ok a =>
      cases hy : evalArr st cy env y with
      | error e => rw [hx, hy] at h; simp at h
      | ok b =>
        rw [hx, hy] at h
        simp only at h
        obtain ⟨ea, wa⟩ := ihx a hs.1 hx
        obtain ⟨eb, wb⟩ := ihy b hs.2 hy
        obtain ⟨h1, h2, _, h4, _⟩ := outer_ok a b r h
        refine ⟨?_, outer_WF a b r (W.of wa) (W.of wb) h⟩
        simp only [evalRefR, ← ea, ← eb, Arr.toR_d, Arr.toR_labels, Arr.toR_legs, Arr.toR_mods]
        exact Arr.toR_eq _ _ _ _ _ (outer_toDense a b r (W.of wa) (W.of wb) h) h4 h1 h2
  | tensordot k x y ihx ihy =>
    intro r hs h
    simp only [evalArr, bind, Except.bind] at h
    cases hx : evalArr st cy env x with
    | error e => rw [hx] at h; simp at h
    | ok a =>
      cases hy : evalArr st cy env y with
      | error e => rw [hx, hy] at h; simp at h
      | ok b =>
        rw [hx, hy] at h
        simp only at h
        obtain ⟨ea, wa⟩ := ihx a hs.1 hx
        obtain ⟨eb, wb⟩ := ihy b hs.2.1 hy
        obtain ⟨ca, cb, va, vb⟩ := hs.2.2 a b hx hy
        have hdot := dotArr_ok cy a b r _ h
        have hnf : ¬(k = a.rank ∧ k = b.rank) := by
          intro hf
          have := (tensordot_special cy a b (W.of wa) (W.of wb) k _ hdot
            (fun hfull => hch_of_chargeRule a b (W.of wb) (tensordot_checks cy a b k _ hdot).1 (by omega)
              (by
                have hc := (tensordot_checks cy a b k _ hdot).2.2.2
                have e1 : a.lcs.drop (a.rank - k) = a.lcs := by rw [hfull.1]; simp
                have e2 : b.lcs.take k = b.lcs := List.take_of_length_le (by rw [lcs_length]; omega)
                rw [e1, e2] at hc
                exact hc) ca cb vb)).1 hf
          cases this
        obtain ⟨r', hv, hd, hlegs, _, hlab, hwf⟩ := tensordot_int cy a b (W.of wa) (W.of wb) ca cb va vb k _ hdot hnf
        cases hv
        refine ⟨?_, hwf⟩
        simp only [evalRefR, ← ea, ← eb, Arr.toR_d, Arr.toR_labels, Arr.toR_legs, Arr.toR_mods]
        rw [show a.toDense.rank = a.rank from Arr.toLD_rank a]
        exact Arr.toR_eq _ _ _ _ _ hd hlab hlegs (tensordot_int_mods cy a b _ k hdot)
  | tensordotAxes xa xb x y ihx ihy =>
    intro r hs h
    simp only [evalArr, bind, Except.bind] at h
    cases hx : evalArr st cy env x with
    | error e => rw [hx] at h; simp at h
    | ok a =>
      cases hy : evalArr st cy env y with
      | error e => rw [hx, hy] at h; simp at h
      | ok b =>
        rw [hx, hy] at h
        simp only at h
        obtain ⟨ea, wa⟩ := ihx a hs.1 hx
        obtain ⟨eb, wb⟩ := ihy b hs.2.1 hy
        obtain ⟨ca, cb, va, vb⟩ := hs.2.2 a b hx hy
        have hdot := dotArr_ok cy a b r _ h
        obtain ⟨ia, ib, h1, h2, h3, hpa, hpb, hint⟩ := tensordot_pair_eq cy a b wa wb xa xb _ hdot
        obtain ⟨wa', da', la', laba', qa', ma', ra', ca', va'⟩ := trOp_spec a _ wa hpa
        obtain ⟨wb', db', lb', labb', qb', mb', rb', cb', vb'⟩ := trOp_spec b _ wb hpb
        have hnf : ¬(ia.length = (trOp a ((List.range a.rank).filter (fun i => !ia.contains i) ++ ia)).rank
            ∧ ia.length = (trOp b (ib ++ (List.range b.rank).filter (fun i => !ib.contains i))).rank) := by
          intro hf
          have hchk := tensordot_checks cy _ _ ia.length _ hint
          have := (tensordot_special cy _ _ (W.of wa') (W.of wb') ia.length _ hint
            (fun hfull => hch_of_chargeRule _ _ (W.of wb') hchk.1 (by omega)
              (by
                have hc := hchk.2.2.2
                have e1 : ∀ (z : Arr α), ia.length = z.rank → z.lcs.drop (z.rank - ia.length) = z.lcs := by
                  intro z hz; rw [hz]; simp
                have e2 : ∀ (z : Arr α), ia.length = z.rank → z.lcs.take ia.length = z.lcs := by
                  intro z hz; exact List.take_of_length_le (by rw [lcs_length]; omega)
                rw [e1 _ hfull.1, e2 _ hfull.2] at hc
                exact hc) (ca' ca) (cb' cb) (vb' vb))).1 hf
          cases this
        obtain ⟨r', hv, hd, hlegs, _, hlab, hwf⟩ := tensordot_int cy _ _ (W.of wa') (W.of wb') (ca' ca) (cb' cb)
          (va' va) (vb' vb) ia.length _ hint hnf
        cases hv
        have hmods := tensordot_int_mods cy _ _ _ ia.length hint
        refine ⟨?_, hwf⟩
        rw [ra'] at hlab hlegs
        rw [ma'] at hmods
        simp only [evalRefR, ← ea, ← eb, Arr.toR_ld, Arr.toR_d, Arr.toR_labels, Arr.toR_legs, Arr.toR_mods,
          dotPa, dotPb]
        rw [Arr.toLD_axs a xa ia h1, Arr.toLD_axs b xb ib h2,
          show a.toLD.d.rank = a.rank from Arr.toLD_rank a, show b.toLD.d.rank = b.rank from Arr.toLD_rank b,
          show a.toDense.rank = a.rank from Arr.toLD_rank a]
        rw [da', db'] at hd
        rw [laba', labb'] at hlab
        rw [la', lb'] at hlegs
        exact Arr.toR_eq _ _ _ _ _ hd hlab hlegs hmods
  | trace l1 l2 x ihx =>
    intro r hs h
    simp only [evalArr, bind, Except.bind] at h
    cases hx : evalArr st cy env x with
    | error e => rw [hx] at h; simp at h
    | ok a =>
      rw [hx] at h
      simp only at h
      obtain ⟨ea, wa⟩ := ihx a hs hx
      have htr := traceArr_ok a r l1 l2 h
      have hr2 : a.rank ≠ 2 := by
        intro h2
        have := (trace_scalar a (W.of wa) l1 l2 _ htr h2).1
        cases this
      obtain ⟨ax1, ax2, r', g1, g2, _, _, _, _, hv, hd, _, _, _, hlegs, hlab, _, hmods, _, hwf⟩ :=
        trace_arr a wa l1 l2 _ htr hr2
      cases hv
      refine ⟨?_, hwf⟩
      simp only [evalRefR, ← ea, Arr.toR_ld, Arr.toR_d, Arr.toR_labels, Arr.toR_legs, Arr.toR_mods]
      rw [Arr.toLD_ax a l1 ax1 g1, Arr.toLD_ax a l2 ax2 g2, show a.toDense.rank = a.rank from Arr.toLD_rank a]
      exact Arr.toR_eq _ _ _ _ _ hd hlab hlegs hmods

end C01ProgAB
end TenpyModel.Core
