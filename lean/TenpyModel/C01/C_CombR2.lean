import TenpyModel.C01.C_CombR1
/-!
C01 part C — `combine_legs` on reference objects, part 2: the reference semantics `refCombine` of the public default
call `x.combine_legs(groups, qconj=…)` (`new_axes = None`, `pipes = None`; groups by index or label) and the
refinement theorem `combineLegs_specR` (all branches: with / without the transposition step; no block, one block,
`_combine_legs_worker`).

`refCombine` never looks at a block list: the leg-level helpers (`getLegIndices`, `_combine_legs_make_pipes`,
`_combine_legs_new_axes`) are run on `x.frame` (the block-less tensor over the legs and labels of `x`); the array is
first transposed by `transp` (`np.transpose`; the identity when the groups are runs of consecutive legs in order) and
then its entries are placed: `R[combIdx idx] = d_t[idx]`, `combIdx` = `map_incoming_flat` of every group's pipe on the
group's sub-tuple, spectator indices kept.
-/
namespace TenpyModel.C01C
open TenpyModel.Core TenpyModel.C01B TenpyModel.C01B2 TenpyModel.C01B2.Comb
open Arr (permuteList)

variable {α : Type}

/-- reference semantics of `x.combine_legs(cl, qconj=qconj)`; `x` itself where the call raises -/
def refCombine [Zero α] (x : RObj α) (cl : List (List Ax)) (qconj : List (Option Int)) : RObj α :=
  match x.frame.combineMakePipes cl none qconj, cl.mapM x.frame.getLegIndices with
  | .ok ps0, .ok cli0 =>
    match Arr.combineNewAxes x.rank cli0 none with
    | .ok (na0, transp) =>
      -- groups / new axes / pipes sorted by new axis
      let order := Arr.argsortInt (na0.map Int.ofNat)
      -- the legs after `np.transpose(·, transp)`
      let t : Arr α := { x.frame with legs := permuteList x.legs transp default }
      CombR.refStd t (x.d.transpose transp)
        ((pick cli0 order []).map (fun c => c.map (fun i => (inversePerm transp).getD i 0)))
        (pick na0 order 0) (pick ps0 order default)
        (permuteList (cLabels x.frame) transp "")
    | .error _ => x
  | _, _ => x

namespace CombR

theorem permuteList_range' {β} (l : List β) (d : β) (n : Nat) (h : l.length = n) :
    permuteList l (List.range n) d = l := by
  subst h
  exact pick_range l d

theorem cLabels_length (a : Arr α) : (cLabels a).length = a.rank := by
  unfold cLabels; simp

/-- renumbering by the inverse of the identity permutation does nothing -/
theorem renumber_range (n : Nat) (cli : List (List Nat)) (h : ∀ c ∈ cli, ∀ x ∈ c, x < n) :
    cli.map (fun c => c.map (fun i => (inversePerm (List.range n)).getD i 0)) = cli := by
  conv => rhs; rw [← List.map_id cli]
  apply List.map_congr_left
  intro c hc
  conv => rhs; rw [id, ← List.map_id c]
  apply List.map_congr_left
  intro x hx
  have hx' := h c hc x hx
  rw [inversePerm_getD _ _ (by simpa using hx')]
  have := List.Nodup.idxOf_getElem (List.nodup_range (n := n)) x (by simpa using hx')
  simpa using this

/-- the string labels of the transposed tensor `combine_legs` works with -/
theorem cTransposed_labels [Zero α] (a : Arr α) (transp : List Nat) :
    (cTransposed a transp).labels.map (fun l => l.getD "") = permuteList (cLabels a) transp "" := by
  unfold cTransposed Arr.itransposeFast permuteList
  simp only [List.map_map]
  apply List.map_congr_left
  intro i _
  simp only [Function.comp]
  by_cases hi : i < (cLabels a).length
  · rw [getD_map' _ _ i "" none hi]
    rfl
  · have h1 : ((cLabels a).map some).getD i none = none := by
      rw [getD_ge _ _ _ (by simpa using hi)]
    have h2 : (cLabels a).getD i "" = "" := by
      rw [getD_ge _ _ _ (by omega)]
    rw [h1, h2]
    rfl

end CombR

section zero
variable [Zero α]

/-- **`combine_legs` on reference objects** — the public default call (`new_axes = None`, `pipes = None`, any `qconj`,
groups by index or label, non-empty groups): the observable content of the result (`to_ndarray`, labels, legs,
`chinfo.mod`) is the reference one, and the result is well formed. All branches of the code. -/
theorem combineLegs_specR (a r : Arr α) (ha : a.WF) (cl : List (List Ax)) (qconj : List (Option Int))
    (hne : ∀ c ∈ cl, c ≠ []) (h : a.combineLegs cl none none qconj = .ok r) :
    r.toR = refCombine a.toR cl qconj ∧ r.WF := by
  obtain ⟨ps0, cli0, na0, transp, hps, hcli, hnt, hP2, hN, _⟩ := combineLegs_default_hyps2 a r ha cl qconj hne h
  have hP := PipesOK2.ok hP2
  -- the leg-level helpers on the frame of `a.toR` are those on `a`
  have e1 : a.toR.frame.combineMakePipes cl none qconj = .ok ps0 := hps
  have e2 : cl.mapM a.toR.frame.getLegIndices = .ok cli0 := hcli
  have e3 : Arr.combineNewAxes a.toR.rank cli0 none = .ok (na0, transp) := hnt
  have hlt : ∀ c ∈ cli0, ∀ x ∈ c, x < a.rank := by
    intro c hc
    obtain ⟨axs, _, hax⟩ := (mapM_except_ok _ _ _ hcli).2 c hc
    exact (Arr.getLegIndices_lt a ha.1 axs c hax).2
  unfold refCombine
  simp only [e1, e2, e3]
  by_cases htr : transp = List.range a.rank
  · subst htr
    obtain ⟨hstdcall, hstd, hpo, hl1, hl2, hwf, _⟩ :=
      combineLegs_places_id a r ha cl none none qconj ps0 cli0 na0 hps hcli hnt hP hN h
    refine ⟨?_, hwf⟩
    rw [CombR.combineStd_specR a r ha _ _ _ _ hl1 hl2 hpo hstd hstdcall]
    have hren := CombR.renumber_range a.rank (pick cli0 (Arr.argsortInt (na0.map Int.ofNat)) []) (by
      intro c hc x hx
      obtain ⟨i, _, rfl⟩ := List.mem_map.1 hc
      by_cases hi : i < cli0.length
      · exact hlt _ (by rw [getD_lt _ _ _ hi]; exact List.getElem_mem _) x hx
      · rw [getD_ge _ _ _ (by omega)] at hx
        simp at hx)
    rw [hren]
    have hd : a.toR.d.transpose (List.range a.rank) = a.toDense := (Arr.toDense_transpose_range a).symm
    have hlab : permuteList (cLabels a.toR.frame) (List.range a.rank) "" = cLabels a :=
      CombR.permuteList_range' _ _ _ (CombR.cLabels_length a)
    rw [hd, hlab]
    apply CombR.refStd_congr
    · exact (CombR.permuteList_range' a.legs default a.rank rfl).symm
    · rfl
  · obtain ⟨_, htwf, htd, htl, hstdcall, hstd, hpo, hl1, hl2, hwf, _⟩ :=
      combineLegs_places_tr a r ha cl none none qconj ps0 cli0 na0 transp hps hcli hnt htr hP hN h
    refine ⟨?_, hwf⟩
    rw [CombR.combineStd_specR (cTransposed a transp) r htwf _ _ _ _ hl1 hl2 hpo hstd hstdcall]
    rw [htd, CombR.cTransposed_labels a transp]
    apply CombR.refStd_congr
    · exact htl
    · rfl

end zero
end TenpyModel.C01C
