import TenpyModel.C01.B2_Inner3
import TenpyModel.C01.PropsB
/-!
C01 part B2 — `inner` with general `axes`: `inner(a, b, axes, do_conj) = Σ_i st?(aᵀ[i]) · b[i]` where `aᵀ` is `a`
transposed by the permutation the code computes (`pick ia (argsort ib)`), composed from part A's transposition
theorem and the worker theorem of part B.
-/
namespace TenpyModel.C01B2
open TenpyModel.Core TenpyModel.C01B
open TenpyModel.Core.Arr (permuteList)

variable {α : Type} [CommSemiring α]

/-- `_inner_worker` on operands that passed the checks of `inner` (no side hypothesis beyond well-formedness, the
charge rule and valid leg charges) -/
theorem innerWorker_full (st : α → α) (hst : st 0 = 0) (a b : Arr α) (ha : a.WF) (hb : b.WF)
    (hca : a.ChargeRule) (hcb : b.ChargeRule) (hvb : LegsValid b) (doConj : Bool)
    (hr : a.rank = b.rank) (hm : a.mods = b.mods)
    (hok : (if doConj then Arr.legsEqual a.lcs b.lcs else (List.zipWith Leg.testContractible a.lcs b.lcs).all id) = true) :
    Arr.innerWorker st a b doConj = Dense.inner (if doConj then a.toDense.map st else a.toDense) b.toDense :=
  innerWorker_eq st hst a b (W.of ha) (W.of hb) (slices_of_inner_checks a b doConj hr hok) doConj
    (hch_both a b (W.of hb) hm hr doConj hok hca hcb hvb)

/-- `p` is the permutation `inner` applies to `a`: the identity for `axes='range'`, otherwise
`[ia[j] for j in argsort(ib)]` for the leg indices `ia`, `ib` of the two axis lists -/
def InnerPermOK (a b : Arr α) (axes : Arr.InnerAxes) (doConj : Bool) (p : List Nat) : Prop :=
  match innerAxLists a axes doConj with
  | none => p = List.range a.rank
  | some (xa, xb) => ∃ ia ib, a.getLegIndices xa = .ok ia ∧ b.getLegIndices xb = .ok ib
      ∧ p = pick ia (Arr.argsortInt (ib.map Int.ofNat)) 0

/-- **`inner(a, b, axes, do_conj)` for every form of `axes`** (`'range'`, a pair of axis lists by index or label,
`'labels'`) and both values of `do_conj` -/
theorem inner_axes (st : α → α) (hst : st 0 = 0) (a b : Arr α) (ha : a.WF) (hb : b.WF)
    (hca : a.ChargeRule) (hcb : b.ChargeRule) (hvb : LegsValid b) (axes : Arr.InnerAxes) (doConj : Bool) (x : α)
    (h : Arr.inner st a b axes doConj = .ok x) :
    ∃ p : List Nat, p.Perm (List.range a.rank) ∧ InnerPermOK a b axes doConj p
      ∧ x = Dense.inner (if doConj then (a.toDense.transpose p).map st else a.toDense.transpose p) b.toDense := by
  rw [inner_eq] at h
  have hr : a.rank = b.rank := by
    by_contra hne
    simp [hne, throw, throwThe, MonadExceptOf.throw, bind, Except.bind] at h
  have h' : innerK a b axes doConj (fun a' => innerTail st a' b doConj) = .ok x := by
    simpa [hr] using h
  obtain ⟨a', hpre, htail⟩ := innerK_ok a b axes doConj _ x h'
  obtain ⟨hm, hok, hx⟩ := innerTail_ok st a' b doConj x htail
  unfold InnerPermOK
  cases hal : innerAxLists a axes doConj with
  | none =>
    simp only [hal] at hpre
    rw [hpre] at hm hok hx
    refine ⟨List.range a.rank, List.Perm.refl _, rfl, ?_⟩
    rw [← Arr.toDense_transpose_range, hx]
    exact innerWorker_full st hst a b ha hb hca hcb hvb doConj hr hm hok
  | some xab =>
    obtain ⟨xa, xb⟩ := xab
    simp only [hal] at hpre
    obtain ⟨ia, ib, h1, h2, hp, hcase⟩ := innerMid_ok a b ha xa xb a' hpre
    refine ⟨_, hp.perm, ⟨ia, ib, h1, h2, rfl⟩, ?_⟩
    rcases hcase with ⟨hid, hcase⟩ | hcase
    · rw [hcase] at hm hok hx
      rw [hid, ← Arr.toDense_transpose_range, hx]
      exact innerWorker_full st hst a b ha hb hca hcb hvb doConj hr hm hok
    · rw [hcase] at hm hok hx
      have hrank : (a.itransposeFast (pick ia (Arr.argsortInt (ib.map Int.ofNat)) 0)).rank = a.rank := by
        show (permuteList a.legs _ default).length = _
        rw [permuteList_length, hp.len]
      rw [hx, innerWorker_full st hst _ b (Arr.WF_itransposeFast a _ ha hp) hb
        (chargeRule_itransposeFast a _ (W.of ha) hp hca) hcb hvb doConj (hrank.trans hr) hm hok,
        Arr.toDense_itransposeFast a _ ha hp]

/-- `inner(a, b, axes=(axes_a, axes_b), do_conj)` -/
theorem inner_pair (st : α → α) (hst : st 0 = 0) (a b : Arr α) (ha : a.WF) (hb : b.WF)
    (hca : a.ChargeRule) (hcb : b.ChargeRule) (hvb : LegsValid b) (xa xb : List Ax) (doConj : Bool) (x : α)
    (h : Arr.inner st a b (.pair xa xb) doConj = .ok x) :
    ∃ ia ib, a.getLegIndices xa = .ok ia ∧ b.getLegIndices xb = .ok ib
      ∧ (pick ia (Arr.argsortInt (ib.map Int.ofNat)) 0).Perm (List.range a.rank)
      ∧ x = Dense.inner
          (if doConj then (a.toDense.transpose (pick ia (Arr.argsortInt (ib.map Int.ofNat)) 0)).map st
           else a.toDense.transpose (pick ia (Arr.argsortInt (ib.map Int.ofNat)) 0)) b.toDense := by
  obtain ⟨p, hp, hspec, hx⟩ := inner_axes st hst a b ha hb hca hcb hvb _ doConj x h
  obtain ⟨ia, ib, h1, h2, rfl⟩ := hspec
  exact ⟨ia, ib, h1, h2, hp, hx⟩

/-- `inner(a, b, axes='labels', do_conj)`: the legs of `b` are looked up by the labels of `a` (`do_conj=True`) or by
their conjugates -/
theorem inner_labels (st : α → α) (hst : st 0 = 0) (a b : Arr α) (ha : a.WF) (hb : b.WF)
    (hca : a.ChargeRule) (hcb : b.ChargeRule) (hvb : LegsValid b) (doConj : Bool) (x : α)
    (h : Arr.inner st a b .labels doConj = .ok x) :
    ∃ ia ib, a.getLegIndices (a.labels.map (fun l => Ax.lbl (l.getD ""))) = .ok ia
      ∧ b.getLegIndices (if doConj then a.labels.map (fun l => Ax.lbl (l.getD ""))
                          else a.labels.map (fun l => Ax.lbl (Label.conj (l.getD "")))) = .ok ib
      ∧ (pick ia (Arr.argsortInt (ib.map Int.ofNat)) 0).Perm (List.range a.rank)
      ∧ x = Dense.inner
          (if doConj then (a.toDense.transpose (pick ia (Arr.argsortInt (ib.map Int.ofNat)) 0)).map st
           else a.toDense.transpose (pick ia (Arr.argsortInt (ib.map Int.ofNat)) 0)) b.toDense := by
  obtain ⟨p, hp, hspec, hx⟩ := inner_axes st hst a b ha hb hca hcb hvb _ doConj x h
  obtain ⟨ia, ib, h1, h2, rfl⟩ := hspec
  exact ⟨ia, ib, h1, h2, hp, hx⟩

end TenpyModel.C01B2
