import TenpyModel.C01.C_Sort6
/-!
C01 part C — `sort_legcharge`, part 7: the result of `sort_legcharge` in terms of the intermediate `combine_legs`
result (`sort_core`): legs, reported permutations, shape.
-/
namespace TenpyModel.C01C.SortLc
open TenpyModel.Core TenpyModel.C01B TenpyModel.C01B2.Comb

variable {α : Type}

/-- the permutation reported for axis `k` -/
def sPerm (a : Arr α) (sort bunch : List Bool) (k : Nat) : List Nat :=
  if (sAxes a.rank sort bunch).contains k then pipePerm (a.lc k) (sPipe a sort bunch k)
  else List.range (a.lc k).indLen

/-- the leg of the result at axis `k` -/
def sLeg (a : Arr α) (sort bunch : List Bool) (k : Nat) : ALeg :=
  if (sAxes a.rank sort bunch).contains k then .plain (sPipe a sort bunch k).leg else a.legs.getD k default

theorem shape_getD (a : Arr α) (k : Nat) (hk : k < a.rank) : a.shape.getD k 0 = (a.lc k).indLen := by
  unfold Arr.shape
  rw [getD_map' _ _ k default 0 (by rw [Arr.lcs_length]; exact hk), Arr.lc_eq a k hk]

theorem sPerm_perm (a : Arr α) (ha : a.WF) (sort bunch : List Bool) (k : Nat) (hk : k < a.rank) :
    (sPerm a sort bunch k).Perm (List.range (a.shape.getD k 0)) := by
  rw [shape_getD a k hk]
  unfold sPerm
  split
  · have hs : (a.lc k).Shape := by
      rw [← Arr.lc_eq a k hk]
      exact (Arr.WF.legs_ok ha _ (getD_mem _ _ _ (by rw [Arr.lcs_length]; exact hk))).shape
    exact pipePerm_perm _ hs _ _ _
  · exact List.Perm.refl _

theorem lc_shape (a : Arr α) (ha : a.WF) (k : Nat) (hk : k < a.rank) : (a.lc k).Shape := by
  rw [← Arr.lc_eq a k hk]
  exact (Arr.WF.legs_ok ha _ (getD_mem _ _ _ (by rw [Arr.lcs_length]; exact hk))).shape

/-- `sort_legcharge` through its `combine_legs` call -/
theorem sort_core [Zero α] (a : Arr α) (ha : a.WF) (sort bunch : List Bool) (perms : List (List Nat)) (cp : Arr α)
    (h : a.sortLegcharge sort bunch = .ok (perms, cp)) :
    sort.length = a.rank ∧ bunch.length = a.rank
    ∧ ∃ r, a.combineStd (sGroups (sAxes a.rank sort bunch)) (sAxes a.rank sort bunch) (sPipes a sort bunch) (cLabels a)
          = .ok r
      ∧ r.legs.length = a.rank
      ∧ (∀ k, k < a.rank → r.legs.getD k default
          = if (sAxes a.rank sort bunch).contains k then sPipeLeg a sort bunch k else a.legs.getD k default)
      ∧ perms = (List.range a.rank).map (sPerm a sort bunch)
      ∧ cp = { r with labels := a.labels, legs := (List.range a.rank).map (sLeg a sort bunch) } := by
  obtain ⟨hl1, hl2, r, hr, hp, hc⟩ := sortLegcharge_unfold a sort bunch perms cp h
  have hcall := combine_sel a r sort bunch hr
  have hstd := stdForm_sel a.rank _ (sAxes_asc a.rank sort bunch) (sAxes_lt _ _ _)
  obtain ⟨hlegs, hrank, _⟩ := combine_places a r ha _ _ _ _ (sGroups_length _).symm
    (by rw [sPipes_length, sGroups_length]) (pipesOK_sel a sort bunch) hstd hcall
  have hlen : r.legs.length = a.rank := by
    have : r.rank = a.rank := by rw [hrank, sel_n]
    exact this
  have hget : ∀ k, k < a.rank → r.legs.getD k default
      = if (sAxes a.rank sort bunch).contains k then sPipeLeg a sort bunch k else a.legs.getD k default := by
    intro k hk
    rw [hlegs]
    exact sel_legs_getD a sort bunch k hk
  refine ⟨hl1, hl2, r, hcall, hlen, hget, ?_, ?_⟩
  · rw [hp]
    apply List.map_congr_left
    intro k hk
    have hk' : k < a.rank := List.mem_range.1 hk
    unfold sPermOf sPerm
    rw [hget k hk', shape_getD a k hk']
    by_cases hc : (sAxes a.rank sort bunch).contains k = true
    · rw [if_pos hc, if_pos hc, if_pos hc]
      rfl
    · rw [if_neg hc, if_neg hc]
  · rw [hc]
    congr 1
    unfold sLegsOf
    apply List.map_congr_left
    intro k hk
    have hk' : k < a.rank := List.mem_range.1 hk
    unfold sLeg
    rw [hget k hk']
    by_cases hc : (sAxes a.rank sort bunch).contains k = true
    · rw [if_pos hc, if_pos hc, if_pos hc]
      rfl
    · rw [if_neg hc, if_neg hc, if_neg hc]

end TenpyModel.C01C.SortLc
