import TenpyModel.C01.C_Charge16
/-!
C01 part C — programs with products on inputs over a common `chinfo`: the only side conditions left are part A's
documented ones (`C01ProgA.Side`) and the `squeeze` clause (`SideQ`) at the embedded part-A programs.
-/
namespace TenpyModel.C01C
open TenpyModel.Core TenpyModel.C01B TenpyModel.C01B2

variable {α : Type}

section mods
variable [CommSemiring α]
set_option linter.unusedSectionVars false

/-- `tensordot` keeps `chinfo` -/
theorem mods_tensordot (cy : Bool) (a b : Arr α) (ha : a.WF) (hb : b.WF) (axes : Arr.DotAxes) (r : Arr α)
    (h : Arr.tensordot cy a b axes = .ok (.arr r)) : r.mods = a.mods := by
  cases axes with
  | int z =>
    have hz := tensordot_int_nonneg cy a b z _ h
    rw [hz] at h
    exact (tensordot_int_rows cy a b (W.of ha) (W.of hb) _ r h).2.2.2.1
  | pair xa xb =>
    obtain ⟨ia, ib, _, _, _, hpa, hpb, hint⟩ := tensordot_pair_eq cy a b ha hb xa xb _ h
    obtain ⟨wa', _, _, _, _, ma', _⟩ := trOp_spec a _ ha hpa
    obtain ⟨wb', _⟩ := trOp_spec b _ hb hpb
    rw [(tensordot_int_rows cy _ _ (W.of wa') (W.of wb') _ r hint).2.2.2.1, ma']

/-- `trace` keeps `chinfo` -/
theorem mods_trace (a : Arr α) (ha : a.WF) (l1 l2 : Ax) (r : Arr α) (h : a.trace l1 l2 = .ok (.arr r)) :
    r.mods = a.mods := by
  have hr : a.rank ≠ 2 := by
    intro h2
    have := (trace_scalar a (W.of ha) l1 l2 _ h h2).1
    cases this
  obtain ⟨ax1, ax2, _, _, _, _, hv⟩ := TenpyModel.C01B2.trace_unfold a l1 l2 _ h hr
  simp only [Val.arr.injEq] at hv
  rw [hv]; rfl

end mods

open TenpyModel.Core.C01ProgAB in
/-- side conditions of a program with products on inputs over a common `chinfo`: part A's `Side` and the `squeeze`
clause `SideQ` at every embedded part-A program -/
def SideABQ [Zero α] [Neg α] [Add α] [Mul α] [DecidableEq α] (st : α → α) (cy : Bool) (env : List (Arr α)) :
    C01ProgAB α → Prop
  | .input _ => True
  | .partA p x y => SideABQ st cy env x ∧ SideABQ st cy env y ∧
      ∀ a b, C01ProgAB.evalArr st cy env x = .ok a → C01ProgAB.evalArr st cy env y = .ok b →
        p.Side st [a, b] ∧ C01C.SideQ st [a, b] p
  | .outer x y => SideABQ st cy env x ∧ SideABQ st cy env y
  | .tensordot _ x y => SideABQ st cy env x ∧ SideABQ st cy env y
  | .tensordotAxes _ _ x y => SideABQ st cy env x ∧ SideABQ st cy env y
  | .trace _ _ x => SideABQ st cy env x

open TenpyModel.Core.C01ProgAB in
/-- `SideABQ` + common `chinfo` ⇒ `SideAB`, and every result lives over that `chinfo` -/
theorem sideAB_of_sideABQ [CommRing α] [DecidableEq α] (st : α → α) (hst : st 0 = 0) (cy : Bool) (m : List Nat)
    (env : List (Arr α)) (henv : ∀ a ∈ env, a.WF ∧ a.ChargeRule ∧ LegsValid a) (hm : ∀ a ∈ env, a.mods = m)
    (p : C01ProgAB α) :
    SideABQ st cy env p → SideAB st cy env p ∧ ∀ r, evalArr st cy env p = .ok r → r.mods = m := by
  induction p with
  | input i =>
    intro _
    refine ⟨trivial, fun r h => ?_⟩
    simp only [evalArr] at h
    cases hi : env[i]? with
    | none => simp [hi] at h
    | some a =>
      simp only [hi, Except.ok.injEq] at h
      subst h
      exact hm a (List.mem_of_getElem? hi)
  | partA p x y ihx ihy =>
    intro hs
    obtain ⟨sx, mx⟩ := ihx hs.1
    obtain ⟨sy, my⟩ := ihy hs.2.1
    have key : ∀ a b, evalArr st cy env x = .ok a → evalArr st cy env y = .ok b →
        (∀ c ∈ [a, b], c.WF ∧ c.ChargeRule ∧ LegsValid c) ∧ ∀ c ∈ [a, b], c.mods = m := by
      intro a b ha hb
      obtain ⟨_, wa, ca, va⟩ := progAB_chargeRule st hst cy env henv x a sx ha
      obtain ⟨_, wb, cb, vb⟩ := progAB_chargeRule st hst cy env henv y b sy hb
      constructor
      · intro c hc
        rcases List.mem_cons.1 hc with rfl | hc
        · exact ⟨wa, ca, va⟩
        · have : c = b := by simpa using hc
          subst this; exact ⟨wb, cb, vb⟩
      · intro c hc
        rcases List.mem_cons.1 hc with rfl | hc
        · exact mx _ ha
        · have : c = b := by simpa using hc
          subst this; exact my _ hb
    refine ⟨⟨sx, sy, fun a b ha hb => ⟨(hs.2.2 a b ha hb).1, ?_⟩⟩, fun r h => ?_⟩
    · obtain ⟨k1, k2⟩ := key a b ha hb
      exact sideC_of_sideQ st hst m [a, b] (fun c hc => (k1 c hc).1) k2 p (hs.2.2 a b ha hb).1 (hs.2.2 a b ha hb).2
    · simp only [evalArr, bind, Except.bind] at h
      cases hx : evalArr st cy env x with
      | error e => rw [hx] at h; simp at h
      | ok a =>
        cases hy : evalArr st cy env y with
        | error e => rw [hx, hy] at h; simp at h
        | ok b =>
          rw [hx, hy] at h
          simp only at h
          obtain ⟨k1, k2⟩ := key a b hx hy
          exact progA_mods st hst m [a, b] (fun c hc => (k1 c hc).1) k2 p r (hs.2.2 a b hx hy).1 h
  | outer x y ihx ihy =>
    intro hs
    obtain ⟨sx, mx⟩ := ihx hs.1
    obtain ⟨sy, _⟩ := ihy hs.2
    refine ⟨⟨sx, sy⟩, fun r h => ?_⟩
    simp only [evalArr, bind, Except.bind] at h
    cases hx : evalArr st cy env x with
    | error e => rw [hx] at h; simp at h
    | ok a =>
      cases hy : evalArr st cy env y with
      | error e => rw [hx, hy] at h; simp at h
      | ok b =>
        rw [hx, hy] at h
        simp only at h
        rw [(outer_ok a b r h).2.1]
        exact mx a hx
  | tensordot k x y ihx ihy =>
    intro hs
    obtain ⟨sx, mx⟩ := ihx hs.1
    obtain ⟨sy, _⟩ := ihy hs.2
    refine ⟨⟨sx, sy⟩, fun r h => ?_⟩
    simp only [evalArr, bind, Except.bind] at h
    cases hx : evalArr st cy env x with
    | error e => rw [hx] at h; simp at h
    | ok a =>
      cases hy : evalArr st cy env y with
      | error e => rw [hx, hy] at h; simp at h
      | ok b =>
        rw [hx, hy] at h
        simp only at h
        obtain ⟨_, wa, _⟩ := progAB_chargeRule st hst cy env henv x a sx hx
        obtain ⟨_, wb, _⟩ := progAB_chargeRule st hst cy env henv y b sy hy
        rw [mods_tensordot cy a b wa wb _ r (dotArr_ok cy a b r _ h)]
        exact mx a hx
  | tensordotAxes xa xb x y ihx ihy =>
    intro hs
    obtain ⟨sx, mx⟩ := ihx hs.1
    obtain ⟨sy, _⟩ := ihy hs.2
    refine ⟨⟨sx, sy⟩, fun r h => ?_⟩
    simp only [evalArr, bind, Except.bind] at h
    cases hx : evalArr st cy env x with
    | error e => rw [hx] at h; simp at h
    | ok a =>
      cases hy : evalArr st cy env y with
      | error e => rw [hx, hy] at h; simp at h
      | ok b =>
        rw [hx, hy] at h
        simp only at h
        obtain ⟨_, wa, _⟩ := progAB_chargeRule st hst cy env henv x a sx hx
        obtain ⟨_, wb, _⟩ := progAB_chargeRule st hst cy env henv y b sy hy
        rw [mods_tensordot cy a b wa wb _ r (dotArr_ok cy a b r _ h)]
        exact mx a hx
  | trace l1 l2 x ihx =>
    intro hs
    obtain ⟨sx, mx⟩ := ihx hs
    refine ⟨sx, fun r h => ?_⟩
    simp only [evalArr, bind, Except.bind] at h
    cases hx : evalArr st cy env x with
    | error e => rw [hx] at h; simp at h
    | ok a =>
      rw [hx] at h
      simp only at h
      obtain ⟨_, wa, _⟩ := progAB_chargeRule st hst cy env henv x a sx hx
      rw [mods_trace a wa l1 l2 r (traceArr_ok a r l1 l2 h)]
      exact mx a hx

/-- **`progAB_spec_mods`**: programs over part A's operations and the products on inputs over a common `chinfo` —
dense form and labels = reference semantics, result well formed, obeying the charge rule, with valid legs, over the
same `chinfo`; side conditions: part A's documented ones and the `squeeze` clause only. -/
theorem progAB_spec_mods [CommRing α] [DecidableEq α] (st : α → α) (hst : st 0 = 0) (cy : Bool) (m : List Nat)
    (env : List (Arr α)) (henv : ∀ a ∈ env, a.WF ∧ a.ChargeRule ∧ LegsValid a) (hm : ∀ a ∈ env, a.mods = m)
    (p : C01ProgAB α) (r : Arr α) (hside : SideABQ st cy env p) (h : C01ProgAB.evalArr st cy env p = .ok r) :
    r.toDense = (C01ProgAB.evalRef st (env.map Arr.toLD) p).d
    ∧ r.labels = (C01ProgAB.evalRef st (env.map Arr.toLD) p).labels
    ∧ r.WF ∧ r.ChargeRule ∧ LegsValid r ∧ r.mods = m := by
  obtain ⟨hs, hmods⟩ := sideAB_of_sideABQ st hst cy m env henv hm p hside
  obtain ⟨h1, h2, h3, h4, h5⟩ := progAB_spec_full st hst cy env henv p r hs h
  exact ⟨h1, h2, h3, h4, h5, hmods r h⟩

end TenpyModel.C01C
