import TenpyModel.C01.C_Concat8
import TenpyModel.C01.C_Concat9
import TenpyModel.C01.C_GetItem2
/-!
C01 part C — chaining `concatenate` with integer `__getitem__`: the result of `concatenate` is well formed and obeys
the charge rule, so `r[…]` (through `get_block`, with its charge pre-check) reads the operands' entries.
Non-vacuity of `concatenate_chargeRule`.
-/
namespace TenpyModel.C01C
open TenpyModel.Core TenpyModel.C01B Cat Get

variable {α : Type}

/-- **`concatenate(arrays, axis)[idx with idx[k] + off] = a[idx]`** through the public `__getitem__` -/
theorem getItemInt_concatenate [Zero α] (first : Arr α) (rest : List (Arr α)) (axis : Ax) (r : Arr α)
    (hwf : ∀ a ∈ first :: rest, a.WF) (hc : ∀ a ∈ first :: rest, a.ChargeRule)
    (hv : ∀ a ∈ first :: rest, LegsValid a)
    (h : Arr.concatenate (first :: rest) axis = .ok r)
    (k : Nat) (hk : first.getLegIndex axis = .ok k) (hrank : ∀ a ∈ rest, k < a.rank)
    (hq : ∀ b ∈ first :: rest, (b.lc k).qconj = 1 ∨ (b.lc k).qconj = -1)
    (pre post : List (Arr α)) (a : Arr α) (hd : first :: rest = pre ++ a :: post)
    (idx : List Nat) (hi : InRange idx a.shape) :
    r.getItemInt ((idx.set k (idx.getD k 0 + (pre.map (fun b => (b.lc k).indLen)).sum)).map Int.ofNat)
      = .ok (a.entry idx) := by
  have hwfr := (concatenate_spec first rest axis r hwf h k hk hrank).2.2.2.2.2.2.2.2.2
  have hcr := (concatenate_chargeRule first rest axis r hwf hc hv h k hk hrank hq).1
  obtain ⟨e1, _⟩ := concatenate_entry first rest axis r hwf h k hk hrank
  obtain ⟨hkf, hall⟩ := concatenate_checks first rest axis r hwf h k hk hrank
  have ha : a ∈ first :: rest := by rw [hd]; simp
  have hsh := (concatenate_spec first rest axis r hwf h k hk hrank).2.1
  have hin : InRange (idx.set k (idx.getD k 0 + (pre.map (fun b => (b.lc k).indLen)).sum)) r.shape := by
    rw [hsh]
    have hi' : InRange idx (first.shape.set k (a.lc k).indLen) := by rw [← (hall a ha).2.2.2.1]; exact hi
    have hkS : k < first.shape.length := by rw [Arr.shape_length]; exact hkf
    have hx : idx.getD k 0 < (a.lc k).indLen := by
      have := hi'.getD_lt' k (by rw [List.length_set]; exact hkS)
      rwa [getD_set_eq_pj _ _ _ _ hkS] at this
    apply InRange_set_set hi' hkS
    rw [hd, sum_map_append_cons]
    omega
  rw [getItemInt_nat r hwfr hcr _ hin, e1 pre a post hd idx hi]

/-- hypotheses of `concatenate_chargeRule` on the instance `concatenate([t, t2, t], 'a')` -/
theorem ExCat.hyps2 : (∀ a ∈ C01Example.t :: ExCat.ops, a.ChargeRule) ∧ (∀ a ∈ C01Example.t :: ExCat.ops, LegsValid a)
    ∧ (∀ b ∈ C01Example.t :: ExCat.ops, (b.lc 0).qconj = 1 ∨ (b.lc 0).qconj = -1) := by decide

/-- the operand `t2` has the opposite `qconj` on the axis: the negated-charges branch is exercised -/
example : (ExCat.t2.lc 0).qconj ≠ (C01Example.t.lc 0).qconj := by decide

example (r : Arr Int) (h : Arr.concatenate (C01Example.t :: ExCat.ops) (.lbl "a") = .ok r) :
    r.ChargeRule ∧ LegsValid r :=
  concatenate_chargeRule C01Example.t ExCat.ops (.lbl "a") r ExCat.hyps.1 ExCat.hyps2.1 ExCat.hyps2.2.1 h 0
    ExCat.hyps.2.1 ExCat.hyps.2.2 ExCat.hyps2.2.2

/-- the chain on the instance: `r[4, 1] = t2[0, 1] = 2` -/
example (r : Arr Int) (h : Arr.concatenate (C01Example.t :: ExCat.ops) (.lbl "a") = .ok r) :
    r.getItemInt [4, 1] = .ok 2 :=
  (getItemInt_concatenate C01Example.t ExCat.ops (.lbl "a") r ExCat.hyps.1 ExCat.hyps2.1 ExCat.hyps2.2.1 h 0
    ExCat.hyps.2.1 ExCat.hyps.2.2 ExCat.hyps2.2.2 [C01Example.t] [C01Example.t] ExCat.t2 rfl [0, 1] (by decide)).trans
    (congrArg Except.ok (by decide))

end TenpyModel.C01C
