import TenpyModel.C01.B2_Comb29
import TenpyModel.C01.C_RObj
/-!
C01 part C — `combine_legs` on reference objects, part 1: the reference semantics of the *standard-form* call
(`refStd`): legs, labels and `chinfo.mod` from the leg-level description, and the dense array by *placement*:
`R[combIdx idx] = d[idx]` for every index tuple `idx` of `d` (`placeDense`). `combineStd_specR`: the model's
`combineStd` (all three branches) returns exactly this. Nothing here looks at a block list.
-/
namespace TenpyModel.C01C.CombR
open TenpyModel.Core TenpyModel.C01B TenpyModel.C01B2 TenpyModel.C01B2.Comb

variable {α : Type}

/-- the dense array of shape `shape'` with `R[f idx] = d[idx]` for every index tuple `idx` of `d`
(0 where nothing is placed) -/
def placeDense [Zero α] (d : Dense α) (shape' : List Nat) (f : List Nat → List Nat) : Dense α :=
  Dense.ofFn shape' (fun idx' =>
    match (Dense.allIdx d.shape).find? (fun idx => f idx == idx') with
    | some idx => d.get 0 idx
    | none => 0)

/-- the labels of the result of the standard-form call on the string labels `labels` (`'?#'` for anonymous legs):
the pipe axes carry `_combine_leg_labels` of their group, the spectator axes inherit their label, `'?#'` placeholders
of spectator axes go back to `None`. (`n` = rank of the result) -/
def stdLabels (n : Nat) (cl : List (List Nat)) (na : List Nat) (ps : List ALeg) (labels : List String) : List Label :=
  (List.range (cLabs cl na ps labels).length).map (fun i =>
    if (cNonNew n na).contains i ∧ ((cLabs cl na ps labels).getD i "").toList.head? = some '?'
    then none else some ((cLabs cl na ps labels).getD i ""))

/-- reference semantics of `combine_legs` in standard form on the dense array `d` over the legs of `t` (only
`t.legs` and `t.mods` are read): groups `cl`, new axes `na`, pipes `ps`, string labels `labels` -/
def refStd [Zero α] (t : Arr α) (d : Dense α) (cl : List (List Nat)) (na : List Nat) (ps : List ALeg)
    (labels : List String) : RObj α :=
  ⟨placeDense d ((cLegs t cl na ps).map (fun l => l.leg.indLen)) (combIdx t cl na ps),
   stdLabels (cLegs t cl na ps).length cl na ps labels, cLegs t cl na ps, t.mods⟩

/-- `refStd` reads its tensor argument only through `legs` and `mods` -/
theorem refStd_congr [Zero α] (t t' : Arr α) (hl : t.legs = t'.legs) (hm : t.mods = t'.mods) (d : Dense α)
    (cl : List (List Nat)) (na : List Nat) (ps : List ALeg) (labels : List String) :
    refStd t d cl na ps labels = refStd t' d cl na ps labels := by
  have h1 : cLegs t cl na ps = cLegs t' cl na ps := by unfold cLegs Arr.rank; rw [hl]
  have h2 : combIdx t cl na ps = combIdx t' cl na ps := by
    funext idx; unfold combIdx Arr.rank; rw [hl]
  unfold refStd
  rw [h1, h2, hm]

section zero
variable [Zero α]

/-- a tensor whose entries are placed by an index map that reaches every position has the placed dense form -/
theorem placeDense_spec (r : Arr α) (d : Dense α) (f : List Nat → List Nat)
    (hd : ∀ idx, InRange idx d.shape → r.entry (f idx) = d.get 0 idx)
    (hsurj : ∀ idx', InRange idx' r.shape → ∃ idx, InRange idx d.shape ∧ f idx = idx') :
    r.toDense = placeDense d r.shape f := by
  apply toDense_eq_of_get r _ rfl (ofFn_good _ _)
  intro idx' hi'
  refine (get_ofFn 0 _ _ idx' hi').trans ?_
  obtain ⟨idx, hin, hf⟩ := hsurj idx' hi'
  cases hfind : (Dense.allIdx d.shape).find? (fun idx => f idx == idx') with
  | none =>
    have := List.find?_eq_none.1 hfind idx ((mem_allIdx _ _).2 hin)
    simp [hf] at this
  | some i0 =>
    have hp := List.find?_some hfind
    have hm := (mem_allIdx _ _).1 (List.mem_of_find?_eq_some hfind)
    have he : f i0 = idx' := by simpa using hp
    show d.get 0 i0 = r.entry idx'
    rw [← he, hd i0 hm]

/-- **`combine_legs` in standard form on reference objects** (all three branches of the code): legs, labels,
`chinfo.mod` and the dense array of the result are the reference ones. -/
theorem combineStd_specR (a r : Arr α) (ha : a.WF) (cl : List (List Nat)) (na : List Nat) (ps : List ALeg)
    (labels : List String) (hl1 : na.length = cl.length) (hl2 : ps.length = cl.length)
    (hpipes : PipesOK a cl ps) (hstd : StdForm a.rank cl na) (h : a.combineStd cl na ps labels = .ok r) :
    r.toR = refStd a a.toDense cl na ps labels := by
  obtain ⟨c1, _, c3, _, _, _, _, _, c9⟩ := combine_places a r ha cl na ps labels hl1 hl2 hpipes hstd h
  obtain ⟨_, b2⟩ := combIdx_bijective a r ha cl na ps labels hl1 hl2 hpipes hstd h
  have hlab := combineStd_labels a cl na ps labels r h
  have hshape : r.shape = (cLegs a cl na ps).map (fun l => l.leg.indLen) := by
    unfold Arr.shape Arr.lcs
    rw [c1, List.map_map]
    rfl
  have hdense : r.toDense = placeDense a.toDense r.shape (combIdx a cl na ps) := by
    apply placeDense_spec r a.toDense (combIdx a cl na ps)
    · intro idx hi
      rw [toDense_get a idx hi]
      exact (c9 idx hi).2
    · exact b2
  unfold Arr.toR refStd
  rw [hdense, hshape, hlab, c1, c3]
  rfl

end zero
end TenpyModel.C01C.CombR
