import TenpyModel.C01.A_Slice2
/-!
C01 part A — `take_slice(indices, axes)` is integer indexing of the dense tensor (`Dense.fixAxes`).
-/
namespace TenpyModel.Core

namespace Slice

/-- a successful `mapM` in `Except`, position by position -/
theorem mapM_ok_getD_sl {β γ ε : Type} (f : β → Except ε γ) (l : List β) (r : List γ) (h : l.mapM f = .ok r) :
    r.length = l.length ∧ ∀ j, j < l.length → ∀ (dx : β) (dy : γ), f (l.getD j dx) = .ok (r.getD j dy) := by
  induction l generalizing r with
  | nil =>
    simp only [List.mapM_nil, pure, Except.pure, Except.ok.injEq] at h
    subst h
    exact ⟨rfl, fun j hj => by simp at hj⟩
  | cons x xs ih =>
    rw [List.mapM_cons] at h
    cases hx : f x with
    | error e => simp [hx, bind, Except.bind] at h
    | ok y =>
      cases hxs : xs.mapM f with
      | error e => simp [hx, hxs, bind, Except.bind] at h
      | ok ys =>
        simp only [hx, hxs, bind, Except.bind, pure, Except.pure, Except.ok.injEq] at h
        subst h
        obtain ⟨h1, h2⟩ := ih ys hxs
        refine ⟨by simp [h1], ?_⟩
        intro j hj dx dy
        cases j with
        | zero => simpa using hx
        | succ j =>
          rw [List.getD_cons_succ, List.getD_cons_succ]
          exact h2 j (by simpa using hj) dx dy

theorem mapM_ok_mem_sl {β γ ε : Type} (f : β → Except ε γ) (l : List β) (r : List γ) (h : l.mapM f = .ok r)
    (y : γ) (hy : y ∈ r) : ∃ x ∈ l, f x = .ok y := by
  obtain ⟨h1, h2⟩ := mapM_ok_getD_sl f l r h
  obtain ⟨j, hj, rfl⟩ := List.mem_iff_getElem.1 hy
  have hj' : j < l.length := h1 ▸ hj
  refine ⟨l[j], List.getElem_mem hj', ?_⟩
  have := h2 j hj' l[j] r[j]
  rwa [getD_lt _ _ _ hj', getD_lt _ _ _ hj] at this

end Slice

namespace Arr
variable {α : Type}
open Dense

theorem getLegIndex_lt_sl (a : Arr α) (hl : a.labels.length = a.rank) (x : Ax) (k : Nat)
    (h : a.getLegIndex x = .ok k) : k < a.rank := by
  cases x with
  | lbl s =>
    simp only [getLegIndex] at h
    split at h
    · injection h with h
      omega
    · cases h
  | idx i =>
    simp only [getLegIndex] at h
    generalize (if i < 0 then i + (a.rank : Int) else i) = i' at h
    split at h
    · cases h
    · injection h with h
      omega

theorem getLegIndices_lt_sl (a : Arr α) (hl : a.labels.length = a.rank) (axes : List Ax) (ax : List Nat)
    (h : a.getLegIndices axes = .ok ax) : ∀ k ∈ ax, k < a.rank := by
  intro k hk
  obtain ⟨x, _, hx⟩ := Slice.mapM_ok_mem_sl _ _ _ h k hk
  exact getLegIndex_lt_sl a hl x k hx

/-- `get_qindex` of an integer index in range is `locate` of the normalised index -/
theorem qindexOf_ok_sl (l : Leg) (i : Int) (p : Nat × Nat) (h : qindexOf l i = .ok p) :
    0 ≤ (if i < 0 then i + (l.indLen : Int) else i) ∧ (if i < 0 then i + (l.indLen : Int) else i) < l.indLen
      ∧ p = l.locate (if i < 0 then i + (l.indLen : Int) else i).toNat := by
  unfold qindexOf at h
  cases hq : l.getQindex i with
  | none => simp [hq] at h
  | some p' =>
    simp only [hq, Except.ok.injEq] at h
    subst h
    unfold Leg.getQindex at hq
    simp only at hq
    generalize (if i < 0 then i + (l.indLen : Int) else i) = i' at hq ⊢
    split at hq
    · cases hq
    · split at hq
      · cases hq
      · injection hq with hq
        refine ⟨by omega, by omega, ?_⟩
        rw [← hq]
        rfl

/-- `d[()]`: fixing no axis returns the tensor -/
theorem fixAxes_nil [Zero α] (d : Dense α) (hd : d.vals.length = prod d.shape) (vals : List Nat) :
    d.fixAxes [] vals = d := by
  have hK : keepAx d.rank [] = List.range d.shape.length := by
    unfold keepAx Dense.rank
    simp
  rw [fixAxes_eq, gather_eq_ofFn, hK, map_getD_range]
  conv => rhs; rw [eq_ofFn_get 0 d hd]
  apply ofFn_congr_mem
  intro idx hidx
  congr 1
  apply ext_getD _ _ 0 (by rw [fullIdx_length, hidx.length_eq]; rfl)
  intro k hk
  rw [fullIdx_length] at hk
  have hk' : k < d.shape.length := hk
  rw [fullIdx_getD _ _ _ _ _ hk, if_neg (by simp), hK]
  have := idxOf_getD_nodup_sl (List.range d.shape.length) List.nodup_range k (by simpa using hk')
  rw [getD_range _ _ hk'] at this
  rw [this]

theorem toDense_complete_sl [Zero α] (a : Arr α) : a.toDense.vals.length = prod a.toDense.shape := by
  unfold toDense ofFn
  simp only [List.length_map, allIdx_length]

/-- the fixed index on axis `k` as a function of `k` -/
def sliceIdx (a : Arr α) (ax : List Nat) (indices : List Int) (k : Nat) : Nat :=
  (List.zipWith (fun k (i : Int) => (if i < 0 then i + (a.shape.getD k 0 : Int) else i).toNat) ax indices).getD
    (ax.idxOf k) 0

/-- `take_slice` with at least one axis is the `slice` record -/
theorem takeSlice_eq [Zero α] (a r : Arr α) (indices : List Int) (axes : List Ax) (ha : a.WF)
    (ax : List Nat) (hax : a.getLegIndices axes = .ok ax) (hnd : ax.Nodup) (hne : ax ≠ [])
    (h : a.takeSlice indices axes = .ok r) :
    ax.length = indices.length ∧ (∀ k ∈ ax, k < a.rank)
    ∧ (∀ k ∈ ax, a.sliceIdx ax indices k < (a.lc k).indLen)
    ∧ ∃ pos, (ax.zip indices).mapM (fun xi => qindexOf (a.lc xi.1) xi.2) = .ok pos
        ∧ r = a.slice ax (a.sliceIdx ax indices) (makeValid a.mods
            ((ax.zip pos).foldl (fun q xp => csub q ((a.lc xp.1).getCharge xp.2.1)) a.qtotal)) := by
  have hlt := getLegIndices_lt_sl a ha.1 axes ax hax
  unfold takeSlice at h
  simp only [hax, bind, Except.bind, pure, Except.pure, throw, throwThe, MonadExceptOf.throw] at h
  split at h
  · cases h
  rename_i hlen
  have hlen : ax.length = indices.length := by simpa using hlen
  split at h
  · rename_i he
    exact absurd (List.isEmpty_iff.1 he) hne
  cases hpos : (ax.zip indices).mapM (fun xi => qindexOf (a.lc xi.1) xi.2) with
  | error e => simp [hpos] at h
  | ok pos =>
    simp only [hpos] at h
    split at h
    · cases h
    injection h with h
    obtain ⟨hpl, hpg⟩ := Slice.mapM_ok_getD_sl _ _ _ hpos
    have hzl : (ax.zip indices).length = ax.length := by simp [hlen]
    -- position by position
    have hj : ∀ j, j < ax.length →
        a.sliceIdx ax indices (ax.getD j 0) < (a.lc (ax.getD j 0)).indLen
        ∧ pos.getD j (0, 0) = a.fixQ (a.sliceIdx ax indices) (ax.getD j 0) := by
      intro j hj
      have hk := hlt _ (getD_mem ax j 0 hj)
      have h1 := hpg j (by rw [hzl]; exact hj) (0, 0) (0, 0)
      rw [getD_zip ax indices 0 0 hlen j] at h1
      simp only at h1
      obtain ⟨q1, q2, q3⟩ := qindexOf_ok_sl _ _ _ h1
      have hs : a.sliceIdx ax indices (ax.getD j 0)
          = (if indices.getD j 0 < 0 then indices.getD j 0 + ((a.lc (ax.getD j 0)).indLen : Int)
              else indices.getD j 0).toNat := by
        unfold sliceIdx
        rw [idxOf_getD_nodup_sl ax hnd j hj, getD_zipWith' _ ax indices j 0 0 0 hj (hlen ▸ hj), shape_getD_sl a _ hk]
      refine ⟨by rw [hs]; omega, ?_⟩
      unfold fixQ
      rw [hs]
      exact q3
    have hposEq : pos = ax.map (a.fixQ (a.sliceIdx ax indices)) := by
      apply ext_getD _ _ (0, 0) (by rw [hpl, hzl, List.length_map])
      intro j hj'
      rw [hpl, hzl] at hj'
      rw [(hj j hj').2, getD_map' _ ax j 0 (0, 0) hj']
    refine ⟨hlen, hlt, ?_, pos, rfl, ?_⟩
    · intro k hk
      obtain ⟨h1, h2⟩ := getD_idxOf_mem_sl ax k hk
      have := (hj _ h1).1
      rwa [h2] at this
    · rw [← h]
      unfold slice
      simp only
      rw [← hposEq]

/-- **`take_slice` is integer indexing**: `r.to_ndarray() = a.to_ndarray()[…, i, …]` with the (normalised) indices on
the axes `ax`; the remaining legs / labels are kept in order and the total charge is reduced by the charges of the
selected indices. (`Nodup`: as tenpy, the model does not check for repeated axes.) -/
theorem toDense_takeSlice [Zero α] (a r : Arr α) (indices : List Int) (axes : List Ax) (ha : a.WF)
    (ax : List Nat) (hax : a.getLegIndices axes = .ok ax) (hnd : ax.Nodup)
    (h : a.takeSlice indices axes = .ok r) :
    r.toDense = a.toDense.fixAxes ax
      (List.zipWith (fun k (i : Int) => (if i < 0 then i + (a.shape.getD k 0 : Int) else i).toNat) ax indices)
    ∧ ax.length = indices.length
    ∧ (ax = [] → r = a)
    ∧ (ax ≠ [] →
        r.labels = pick a.labels ((List.range a.rank).filter (fun x => !ax.contains x)) none
        ∧ r.legs = pick a.legs ((List.range a.rank).filter (fun x => !ax.contains x)) default
        ∧ ∃ pos, (ax.zip indices).mapM (fun xi => qindexOf (a.lc xi.1) xi.2) = .ok pos
            ∧ r.qtotal = makeValid a.mods
                ((ax.zip pos).foldl (fun q xp => csub q ((a.lc xp.1).getCharge xp.2.1)) a.qtotal)) := by
  by_cases hne : ax = []
  · subst hne
    unfold takeSlice at h
    simp only [hax, bind, Except.bind, pure, Except.pure, throw, throwThe, MonadExceptOf.throw] at h
    split at h
    · cases h
    rename_i hlen
    simp only [List.isEmpty_nil, if_true] at h
    injection h with h
    subst h
    refine ⟨?_, by simpa using hlen, fun _ => rfl, fun h => absurd rfl h⟩
    rw [fixAxes_nil _ (toDense_complete_sl a)]
  · obtain ⟨hlen, hlt, hv, pos, hpos, hr⟩ := takeSlice_eq a r indices axes ha ax hax hnd hne h
    refine ⟨?_, hlen, fun e => absurd e hne, fun _ => ?_⟩
    · rw [hr, toDense_slice a ha ax hlt _ hv, fixAxes_eq]
      have : a.toDense.rank = a.rank := shape_length a
      rw [this]
      rfl
    · rw [hr]
      exact ⟨rfl, rfl, pos, hpos, rfl⟩

end Arr
end TenpyModel.Core
