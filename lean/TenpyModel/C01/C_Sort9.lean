import TenpyModel.C01.C_Sort8
/-!
C01 part C — `sort_legcharge`, part 9: the entry theorem (`sort_entry`):
`cp[idx] = a[perms_0[idx_0], perms_1[idx_1], …]` for every in-range index tuple, and the dense form
`cp.to_ndarray() = a.to_ndarray()[np.ix_(*perms)]` (`sort_toDense`).
-/
namespace TenpyModel.C01C.SortLc
open TenpyModel.Core TenpyModel.C01B TenpyModel.C01B2.Comb

variable {α : Type}

/-- the index tuple `[perms_0[idx_0], perms_1[idx_1], …]` -/
def ixIdx (perms : List (List Nat)) (idx : List Nat) : List Nat := List.zipWith (fun p i => p.getD i 0) perms idx

theorem sPerms_length (a : Arr α) (sort bunch : List Bool) :
    ((List.range a.rank).map (sPerm a sort bunch)).length = a.rank := by simp

theorem sPerms_getD (a : Arr α) (sort bunch : List Bool) (k : Nat) (hk : k < a.rank) :
    ((List.range a.rank).map (sPerm a sort bunch)).getD k [] = sPerm a sort bunch k := by
  rw [getD_map' _ _ k 0 [] (by simpa using hk), getD_range _ _ hk]

/-- the reported permutation of axis `k` undoes the placement map of the `combine_legs` call on axis `k` -/
theorem sPerm_combIdx (a : Arr α) (ha : a.WF) (sort bunch : List Bool) (idx : List Nat) (hi : InRange idx a.shape)
    (k : Nat) (hk : k < a.rank) :
    (sPerm a sort bunch k).getD
      ((combIdx a (sGroups (sAxes a.rank sort bunch)) (sAxes a.rank sort bunch) (sPipes a sort bunch) idx).getD k 0) 0
      = idx.getD k 0 := by
  have hlt : idx.getD k 0 < (a.lc k).indLen := by
    rw [← shape_getD a k hk]
    exact hi.getD_lt' k (by rw [Arr.shape_length]; exact hk)
  rw [sel_combIdx_getD a sort bunch idx k hk]
  unfold sPerm
  by_cases hc : (sAxes a.rank sort bunch).contains k = true
  · rw [if_pos hc, if_pos hc]
    obtain ⟨f, hf, _, hinv⟩ := onePipe_inv (a.lc k) (lc_shape a ha k hk) (a.lc k).qconj (sort.getD k false)
      (bunch.getD k false) _ hlt
    have : (sPipe a sort bunch k).mapIncomingFlat [(idx.getD k 0 : Int)] = some f := hf
    rw [this]
    exact hinv
  · rw [if_neg hc, if_neg hc, getD_range _ _ hlt]

/-- the gathered index tuple is in range -/
theorem ixIdx_inRange (a : Arr α) (ha : a.WF) (sort bunch : List Bool) (idx : List Nat) (hi : InRange idx a.shape) :
    InRange (ixIdx ((List.range a.rank).map (sPerm a sort bunch)) idx) a.shape := by
  have hlen2 : idx.length = a.rank := by rw [hi.length_eq, Arr.shape_length]
  unfold ixIdx
  apply InRange.of_getD _ _ (by rw [List.length_zipWith, sPerms_length, hlen2, Arr.shape_length]; simp)
  intro k hk
  rw [Arr.shape_length] at hk
  rw [TenpyModel.Core.getD_zipWith' _ _ _ k [] 0 0 (by rw [sPerms_length]; exact hk) (by rw [hlen2]; exact hk),
    sPerms_getD a sort bunch k hk]
  have hp := sPerm_perm a ha sort bunch k hk
  have hlt : idx.getD k 0 < (sPerm a sort bunch k).length := by
    rw [hp.length_eq, List.length_range]
    exact hi.getD_lt' k (by rw [Arr.shape_length]; exact hk)
  exact perm_range_lt _ _ hp _ hlt

section core
variable [Zero α] (a r : Arr α) (ha : a.WF) (sort bunch : List Bool)
  (hcall : a.combineStd (sGroups (sAxes a.rank sort bunch)) (sAxes a.rank sort bunch) (sPipes a sort bunch) (cLabels a)
    = .ok r)
  (hlen : r.legs.length = a.rank)
  (hget : ∀ k, k < a.rank → r.legs.getD k default
    = if (sAxes a.rank sort bunch).contains k then sPipeLeg a sort bunch k else a.legs.getD k default)
include ha hcall hlen hget

/-- **entries**: `cp[idx] = a[perms_0[idx_0], …]` -/
theorem sort_entry (idx' : List Nat) (hi' : InRange idx' a.shape) :
    (sRes a r sort bunch).entry idx' = a.entry (ixIdx ((List.range a.rank).map (sPerm a sort bunch)) idx') := by
  have hstd := stdForm_sel a.rank _ (sAxes_asc a.rank sort bunch) (sAxes_lt _ _ _)
  have hl1 := (sGroups_length (sAxes a.rank sort bunch)).symm
  have hl2 : (sPipes a sort bunch).length = (sGroups (sAxes a.rank sort bunch)).length := by
    rw [sPipes_length, sGroups_length]
  have hplace := (combine_places a r ha _ _ _ _ hl1 hl2 (pipesOK_sel a sort bunch) hstd hcall).2.2.2.2.2.2.2.2
  have hbij := (combIdx_bijective a r ha _ _ _ _ hl1 hl2 (pipesOK_sel a sort bunch) hstd hcall).2
  have hlcs := sRes_lcs a r sort bunch hlen hget
  have hshape : r.shape = a.shape := by
    rw [← sRes_shape a r sort bunch ha]
    show r.lcs.map Leg.indLen = (sRes a r sort bunch).lcs.map Leg.indLen
    rw [hlcs]
  rw [entry_congr (sRes a r sort bunch) r hlcs rfl rfl]
  obtain ⟨idx, hi, hc⟩ := hbij idx' (by rw [hshape]; exact hi')
  have hidx : ixIdx ((List.range a.rank).map (sPerm a sort bunch)) idx' = idx := by
    have hlen1 : idx.length = a.rank := by rw [hi.length_eq, Arr.shape_length]
    have hlen2 : idx'.length = a.rank := by rw [hi'.length_eq, Arr.shape_length]
    unfold ixIdx
    apply ext_getD _ _ 0 (by rw [List.length_zipWith, sPerms_length, hlen2, hlen1]; simp)
    intro k hk
    rw [List.length_zipWith, sPerms_length, hlen2, Nat.min_self] at hk
    rw [TenpyModel.Core.getD_zipWith' _ _ _ k [] 0 0 (by rw [sPerms_length]; exact hk) (by rw [hlen2]; exact hk),
      sPerms_getD a sort bunch k hk, ← hc]
    exact sPerm_combIdx a ha sort bunch idx hi k hk
  rw [hidx, ← hc]
  exact (hplace idx hi).2

/-- **dense form**: `cp.to_ndarray() = a.to_ndarray()[np.ix_(*perms)]` -/
theorem sort_toDense :
    (sRes a r sort bunch).toDense = Dense.ix a.toDense ((List.range a.rank).map (sPerm a sort bunch)) := by
  have hsh := sRes_shape a r sort bunch ha
  have hpl : ((List.range a.rank).map (sPerm a sort bunch)).map List.length = a.shape := by
    apply ext_getD _ _ 0 (by rw [List.length_map, sPerms_length, Arr.shape_length])
    intro k hk
    rw [List.length_map, sPerms_length] at hk
    rw [getD_map' _ _ k [] 0 (by rw [sPerms_length]; exact hk), sPerms_getD a sort bunch k hk,
      (sPerm_perm a ha sort bunch k hk).length_eq, List.length_range]
  unfold Dense.ix Arr.toDense
  rw [Dense.gather_eq_ofFn, hpl, hsh]
  apply Dense.ofFn_congr_mem
  intro idx hi
  rw [sort_entry a r ha sort bunch hcall hlen hget idx hi]
  exact (Dense.get_ofFn 0 a.shape a.entry _ (ixIdx_inRange a ha sort bunch idx hi)).symm

end core

end TenpyModel.C01C.SortLc
