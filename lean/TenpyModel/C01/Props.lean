import TenpyModel.C01.ArrProofs
/-!
C01 — block-sparse tensor algebra agrees with dense numpy algebra: property theorems about the model `Arr`
(lean/TenpyModel/Core/Arr*.lean) against the dense specification `Dense` (lean/TenpyModel/Core/Dense.lean).

Scalars: any type `α` with the operations used and the ring facts stated as explicit hypotheses (so the theorems
hold in every commutative (star-)ring: ℤ, ℤ[i], ℚ, ℝ, ℂ, and are instantiated without Mathlib in the examples).
What is proved here and what is still open: notes/C01.md.
-/
open TenpyModel.Core

/-- Block-wise application of `f` (with `f 0 = 0`, the documented requirement of `iunary_blockwise`) is the
pointwise application of `f` to the dense tensor — for every tensor, whatever its block structure. -/
theorem C01_toDense_unary {α : Type} [Zero α] (f : α → α) (hf : f 0 = 0) (a : Arr α) :
    (a.iunaryBlockwise f).toDense = a.toDense.map f :=
  Arr.toDense_iunaryBlockwise f hf a

/-- `-a` -/
theorem C01_toDense_neg {α : Type} [Zero α] [Neg α] (hneg : -(0 : α) = 0) (a : Arr α) :
    a.neg.toDense = a.toDense.neg :=
  Arr.toDense_iunaryBlockwise _ hneg a

/-- `a * s` / `iscale_prefactor(s)`, including the special case `s = 0` which drops all blocks -/
theorem C01_toDense_scale {α : Type} [Zero α] [Mul α] [DecidableEq α] (hz : ∀ x : α, x * 0 = 0)
    (hz' : ∀ s : α, 0 * s = 0) (a : Arr α) (s : α) :
    (a.iscalePrefactor s).toDense = a.toDense.map (fun x => x * s) := by
  unfold Arr.iscalePrefactor
  split
  · rename_i hs
    subst hs
    unfold Arr.toDense
    rw [Dense.map_ofFn]
    refine Dense.ofFn_congr _ _ _ (fun idx => ?_)
    rw [hz]
    exact Arr.entry_noBlocks _ rfl idx
  · exact Arr.toDense_iunaryBlockwise _ (hz' s) a

/-- `a.conj()`: dense form conjugated entry-wise (`st` = complex conjugation, `st 0 = 0`); total charge negated,
labels conjugated, every leg conjugated -/
theorem C01_toDense_conj {α : Type} [Zero α] (st : α → α) (hst : st 0 = 0) (a : Arr α) :
    (a.conj st).toDense = a.toDense.map st
    ∧ (a.conj st).qtotal = makeValid a.mods (cneg a.qtotal)
    ∧ (a.conj st).labels = a.labels.map Label.conjOpt
    ∧ (a.conj st).legs = a.legs.map ALeg.conj := by
  refine ⟨?_, rfl, rfl, rfl⟩
  rw [← Arr.toDense_iunaryBlockwise st hst a]
  unfold Arr.toDense
  have hshape : (a.conj st).shape = (a.iunaryBlockwise st).shape := by
    simp [Arr.shape, Arr.lcs, Arr.conj, Arr.iunaryBlockwise, List.map_map, Function.comp_def, ALeg.conj_leg,
      Leg.conj_indLen]
  rw [hshape]
  refine Dense.ofFn_congr _ _ _ (fun idx => ?_)
  unfold Arr.entry
  simp only [Arr.lcs, Arr.conj, Arr.iunaryBlockwise]
  rw [Arr.lcs_conj_map, Arr.zipWith_locate_conj]

/-- `complex_conj()`: data only -/
theorem C01_toDense_complexConj {α : Type} [Zero α] (st : α → α) (hst : st 0 = 0) (a : Arr α) :
    (a.complexConj st).toDense = a.toDense.map st :=
  Arr.toDense_iunaryBlockwise st hst a

/-- `gauge_total_charge(axis, newqtotal, new_qconj)`: the dense form and the labels are unchanged, the total
charge becomes the requested one (only the charges of one leg are shifted) -/
theorem C01_toDense_gaugeTotalCharge {α : Type} [Zero α] (a r : Arr α) (axis : Ax) (newq : Option Charge)
    (nc : Option Int) (h : a.gaugeTotalCharge axis newq nc = .ok r) :
    r.toDense = a.toDense ∧ r.qtotal = makeValid a.mods (newq.getD (czero a.mods.length)) ∧ r.labels = a.labels :=
  Arr.toDense_gaugeTotalCharge a r axis newq nc h

/-- the dense form of a tensor depends on its legs only through their slices (charges, directions and cached
flags are irrelevant): the basis of every "relabelling" operation (conj, gauge_total_charge, change of charges) -/
theorem C01_toDense_congr_slices {α : Type} [Zero α] (a b : Arr α) (hq : a.qdata = b.qdata) (hd : a.data = b.data)
    (hs : a.lcs.map Leg.slices = b.lcs.map Leg.slices) : a.toDense = b.toDense :=
  Arr.toDense_congr_slices a b hq hd hs

/-! ### finite programs over the operations proved so far -/

/-- programs (finite compositions) over the unary operations -/
inductive C01Prog (α : Type) where
  | input
  | neg (p : C01Prog α)
  | scale (s : α) (p : C01Prog α)
  | conj (p : C01Prog α)
  | complexConj (p : C01Prog α)

def C01Prog.evalArr {α : Type} [Zero α] [Neg α] [Mul α] [DecidableEq α] (st : α → α) (a : Arr α) : C01Prog α → Arr α
  | .input => a
  | .neg p => (p.evalArr st a).neg
  | .scale s p => (p.evalArr st a).iscalePrefactor s
  | .conj p => (p.evalArr st a).conj st
  | .complexConj p => (p.evalArr st a).complexConj st

def C01Prog.evalDense {α : Type} [Neg α] [Mul α] (st : α → α) (d : Dense α) : C01Prog α → Dense α
  | .input => d
  | .neg p => (p.evalDense st d).neg
  | .scale s p => (p.evalDense st d).map (fun x => x * s)
  | .conj p => (p.evalDense st d).map st
  | .complexConj p => (p.evalDense st d).map st

/-- every finite composition of the operations above commutes with `toDense` (induction over programs) -/
theorem C01_program {α : Type} [Zero α] [Neg α] [Mul α] [DecidableEq α] (st : α → α) (hst : st 0 = 0)
    (hneg : -(0 : α) = 0) (hz : ∀ x : α, x * 0 = 0) (hz' : ∀ s : α, 0 * s = 0) (a : Arr α) (p : C01Prog α) :
    (p.evalArr st a).toDense = p.evalDense st a.toDense := by
  induction p with
  | input => rfl
  | neg p ih => simp only [C01Prog.evalArr, C01Prog.evalDense, C01_toDense_neg hneg, ih]
  | scale s p ih => simp only [C01Prog.evalArr, C01Prog.evalDense, C01_toDense_scale hz hz', ih]
  | conj p ih => simp only [C01Prog.evalArr, C01Prog.evalDense, (C01_toDense_conj st hst _).1, ih]
  | complexConj p ih => simp only [C01Prog.evalArr, C01Prog.evalDense, C01_toDense_complexConj st hst, ih]

/-! ### non-vacuity: a U(1)×Z₃ tensor with duplicate sectors, a missing block and `qtotal ≠ 0` -/

namespace C01Example
def legA : Leg := ⟨[1, 3], [0, 1, 3, 4], [[0, 1], [1, 2], [0, 1]], 1, false, false⟩   -- duplicate sector [0,1]
def legB : Leg := ⟨[1, 3], [0, 2, 3], [[1, 0], [0, 1]], -1, false, true⟩
/-- blocks (0,0) and (2,0) have charge (0,1)-(1,0) = (-1,1) = qtotal; block (2,0) is stored, (0,0) is missing -/
def t : Arr Int :=
  { mods := [1, 3], legs := [.plain legA, .plain legB], qtotal := [-1, 1], labels := [some "a", some "b*"],
    qdata := [[2, 0]], data := [⟨[1, 2], [5, -7]⟩], qdataSorted := true }
end C01Example

example : C01Example.t.toDense = ⟨[4, 3], [0, 0, 0, 0, 0, 0, 0, 0, 0, 5, -7, 0]⟩ := by decide
example : (C01Example.t.conj id).labels = [some "a*", some "b"] ∧ (C01Example.t.conj id).qtotal = [1, 2] := by decide
example : (C01Example.t.gaugeTotalCharge (.lbl "b*") (some [0, 0]) none).toOption.map (fun r => (r.qtotal, r.toDense))
    = some ([0, 0], C01Example.t.toDense) := by decide
example : ((C01Prog.scale 3 (C01Prog.neg .input)).evalArr id C01Example.t).toDense
    = ⟨[4, 3], [0, 0, 0, 0, 0, 0, 0, 0, 0, -15, 21, 0]⟩ := by decide
