import TenpyModel.C01.SortProofs
/-! C01 — `isort_qdata` (the operation every binary operation trusts). -/
open TenpyModel.Core

/-- `isort_qdata()`: for every tensor whose block list is aligned (`qdata.length = data.length`) and free of
duplicate rows, the dense form is unchanged, the new block list is a permutation of the old one, the cached
claim is set, and — provided the old claim was truthful — the new `_qdata` really is lexsorted. -/
theorem C01_isort_qdata {α : Type} [Zero α] (a : Arr α) (hlen : a.qdata.length = a.data.length)
    (hnd : a.qdata.Nodup) (htruth : a.qdataSorted = true → isLexsorted a.qdata = true) :
    a.isortQdata.toDense = a.toDense
    ∧ (a.isortQdata.qdata.zip a.isortQdata.data).Perm (a.qdata.zip a.data)
    ∧ a.isortQdata.qdataSorted = true
    ∧ isLexsorted a.isortQdata.qdata = true := by
  unfold Arr.isortQdata
  split
  · rename_i hs
    exact ⟨rfl, List.Perm.refl _, hs, htruth hs⟩
  · split
    · rename_i _ hshort
      exact ⟨rfl, List.Perm.refl _, rfl, isLexsorted_short _ hshort⟩
    · have hperm : (lexsortNat a.qdata).Perm (List.range (a.qdata.zip a.data).length) := by
        have := lexsort_perm (natRows a.qdata)
        simpa [lexsortNat, natRows_length, List.length_zip, hlen] using this
      have hzip : ((pick a.qdata (lexsortNat a.qdata) []).zip (pick a.data (lexsortNat a.qdata) ⟨[], []⟩)).Perm
          (a.qdata.zip a.data) := by
        rw [pick_eq_take?, pick_eq_take?, zip_take? _ _ _ _ hlen]
        exact take?_perm' _ _ _ hperm
      refine ⟨?_, hzip, rfl, ?_⟩
      · unfold Arr.toDense
        refine Dense.ofFn_congr _ _ _ (fun idx => ?_)
        exact Arr.entry_congr_perm a
          ⟨a.mods, a.legs, a.qtotal, a.labels, pick a.qdata (lexsortNat a.qdata) [],
            pick a.data (lexsortNat a.qdata) ⟨[], []⟩, true⟩ rfl hzip hnd idx
      · exact isLexsorted_take?_lexsort a.qdata

/-- non-vacuity: an unsorted block list of three blocks gets sorted, dense form unchanged -/
example :
    let a : Arr Int := { mods := [], legs := [.plain ⟨[], [0, 1, 2], [[], []], 1, true, false⟩,
                                               .plain ⟨[], [0, 1, 2], [[], []], -1, true, false⟩],
                         qtotal := [], labels := [none, none], qdata := [[1, 1], [1, 0], [0, 1]],
                         data := [⟨[1, 1], [4]⟩, ⟨[1, 1], [3]⟩, ⟨[1, 1], [2]⟩], qdataSorted := false }
    a.isortQdata.qdata = [[1, 0], [0, 1], [1, 1]] ∧ a.isortQdata.toDense = a.toDense
      ∧ a.toDense = ⟨[2, 2], [0, 2, 3, 4]⟩ := by decide
