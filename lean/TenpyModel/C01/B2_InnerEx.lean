import TenpyModel.C01.B2_Inner4
/-!
C01 part B2 — non-vacuity of the `inner` lemmas (`do_conj=True`, general `axes`): concrete tensors over U(1)×Z₃ with
a duplicate sector, a missing block and unsorted block lists. `commonSorted` is defined by well-founded recursion,
so the value of `inner` is obtained through the lemma (the call returns `.ok _` by `rfl`, then the lemma, then
`decide` on the dense side).
-/
open TenpyModel.Core TenpyModel.C01B TenpyModel.C01B2

namespace C01ExampleB2I
open C01Example
/-- same legs as `C01Example.t` (`test_equal`), both admissible blocks stored, block list unsorted -/
def tb : Arr Int :=
  { mods := [1, 3], legs := [.plain legA, .plain legB], qtotal := [-1, 1], labels := [some "a", some "b*"],
    qdata := [[2, 0], [0, 0]], data := [⟨[1, 2], [2, 3]⟩, ⟨[1, 2], [1, 1]⟩], qdataSorted := false }
/-- same legs, another total charge `(0, 2)`: the block (1,0) -/
def tb2 : Arr Int :=
  { mods := [1, 3], legs := [.plain legA, .plain legB], qtotal := [0, 2], labels := [some "a", some "b*"],
    qdata := [[1, 0]], data := [⟨[2, 2], [1, 2, 3, 4]⟩], qdataSorted := true }
/-- `C01ExampleB.u` with its two legs exchanged: contractible with `t` after a transposition -/
def ut : Arr Int :=
  { mods := [1, 3], legs := [.plain legB.conj, .plain legA.conj], qtotal := [1, 2], labels := [some "b", some "a*"],
    qdata := [[0, 2], [0, 0]], data := [⟨[2, 1], [2, 3]⟩, ⟨[2, 1], [1, 1]⟩], qdataSorted := false }
end C01ExampleB2I

example : C01ExampleB2I.tb.WF ∧ C01ExampleB2I.tb2.WF ∧ C01ExampleB2I.ut.WF := by decide
example : C01ExampleB2I.tb.ChargeRule ∧ C01ExampleB2I.tb2.ChargeRule ∧ C01ExampleB2I.ut.ChargeRule := by decide
example : LegsValid C01ExampleB2I.tb ∧ LegsValid C01ExampleB2I.tb2 ∧ LegsValid C01ExampleB2I.ut := by decide

/-- `do_conj=True` (here with `st = negation` to make the place of the conjugation visible): the call passes its
checks and the lemma gives the value `Σ st(t[i]) · tb[i] = -(5·2 − 7·3) = 11` -/
example : ∃ x, Arr.inner (fun z => -z) C01Example.t C01ExampleB2I.tb .range true = .ok x ∧ x = 11 := by
  obtain ⟨x, h⟩ : ∃ x, Arr.inner (fun z => -z) C01Example.t C01ExampleB2I.tb .range true = .ok x := ⟨_, rfl⟩
  refine ⟨x, h, ?_⟩
  rw [inner_conj (fun z => -z) (by simp) C01Example.t C01ExampleB2I.tb (by decide) (by decide) (by decide) (by decide)
    (by decide) x h]
  decide

/-- `do_conj=True`, different total charges: the pre-check of `_inner_worker` fires and returns 0 — which is the
dense value because no block index is common (`hch_conj`) -/
example : Arr.inner id C01Example.t C01ExampleB2I.tb2 .range true = .ok 0 := rfl
example : Dense.inner (C01Example.t.toDense.map id) C01ExampleB2I.tb2.toDense = 0 := by decide
example : makeValid C01Example.t.mods (csub C01ExampleB2I.tb2.qtotal C01Example.t.qtotal) ≠ czero 2 := by decide

/-- general `axes` (by label, `a` has to be transposed): `ia = [1, 0]`, `ib = [0, 1]`, permutation `[1, 0]` -/
example : ∃ x, Arr.inner id C01Example.t C01ExampleB2I.ut (.pair [.lbl "b*", .lbl "a"] [.lbl "b", .lbl "a*"]) false
    = .ok x ∧ x = -11 := by
  obtain ⟨x, h⟩ : ∃ x, Arr.inner id C01Example.t C01ExampleB2I.ut
      (.pair [.lbl "b*", .lbl "a"] [.lbl "b", .lbl "a*"]) false = .ok x := ⟨_, rfl⟩
  refine ⟨x, h, ?_⟩
  obtain ⟨ia, ib, h1, h2, _, hx⟩ := inner_pair id rfl C01Example.t C01ExampleB2I.ut (by decide) (by decide) (by decide)
    (by decide) (by decide) _ _ false x h
  have e1 : C01Example.t.getLegIndices [.lbl "b*", .lbl "a"] = .ok [1, 0] := rfl
  have e2 : C01ExampleB2I.ut.getLegIndices [.lbl "b", .lbl "a*"] = .ok [0, 1] := rfl
  rw [e1] at h1
  rw [e2] at h2
  cases h1
  cases h2
  rw [hx]
  decide

/-- `axes='labels'`: the labels `a, b*` of `t` are looked up as `a*, b` in `ut` (`ib = [1, 0]`), permutation `[1, 0]` -/
example : ∃ x, Arr.inner id C01Example.t C01ExampleB2I.ut .labels false = .ok x ∧ x = -11 := by
  obtain ⟨x, h⟩ : ∃ x, Arr.inner id C01Example.t C01ExampleB2I.ut .labels false = .ok x := ⟨_, rfl⟩
  refine ⟨x, h, ?_⟩
  obtain ⟨ia, ib, h1, h2, _, hx⟩ := inner_labels id rfl C01Example.t C01ExampleB2I.ut (by decide) (by decide) (by decide)
    (by decide) (by decide) false x h
  have e1 : C01Example.t.getLegIndices (C01Example.t.labels.map (fun l => Ax.lbl (l.getD ""))) = .ok [0, 1] := rfl
  have e2 : C01ExampleB2I.ut.getLegIndices (if false = true then C01Example.t.labels.map (fun l => Ax.lbl (l.getD ""))
      else C01Example.t.labels.map (fun l => Ax.lbl (Label.conj (l.getD "")))) = .ok [1, 0] := rfl
  rw [e1] at h1
  rw [e2] at h2
  cases h1
  cases h2
  rw [hx]
  decide
example : Dense.transpose C01Example.t.toDense [1, 0] = ⟨[3, 4], [0, 0, 0, 5, 0, 0, 0, -7, 0, 0, 0, 0]⟩ := by decide
