import TenpyModel.C01.C_Charge20
import TenpyModel.C01.B2_Comb21
/-!
C01 part C — the result of the default call `combine_legs(groups, qconj=…)` (with or without the transposition step)
satisfies the hypothesis `SplitLegOK` of `chargeRule_splitLegs`; hence `split_legs(combine_legs(a, groups))` obeys the
charge rule for every tensor `a` satisfying the invariants.
-/
namespace TenpyModel.C01C
open TenpyModel.Core TenpyModel.C01B TenpyModel.C01B2 TenpyModel.C01B2.Comb
open TenpyModel.Core.Arr (permuteList)

variable {α : Type}

theorem flatten_pick_lt (cli0 : List (List Nat)) (order : List Nat) (n : Nat) (h : ∀ c ∈ cli0, ∀ x ∈ c, x < n) :
    ∀ x ∈ (pick cli0 order []).flatten, x < n := by
  intro x hx
  obtain ⟨c, hc, hxc⟩ := List.mem_flatten.1 hx
  obtain ⟨i, _, rfl⟩ := List.mem_map.1 hc
  by_cases hi : i < cli0.length
  · exact h _ (getD_mem cli0 i [] hi) x hxc
  · rw [List.getD_eq_getElem?_getD, List.getElem?_eq_none (by omega)] at hxc
    cases hxc

section zero
variable [Zero α]

/-- **`combine_splitLegOK`, public default call** -/
theorem combineLegs_default_splitLegOK (a r : Arr α) (ha : a.WF) (hv : LegsValid a) (hq : LegsQ a)
    (hS : ∀ l ∈ a.legs, l.isPipe = true → SplitLegOK a.mods l)
    (cl : List (List Ax)) (qconj : List (Option Int)) (hqc : ∀ q, some q ∈ qconj → q = 1 ∨ q = -1)
    (hne : ∀ c ∈ cl, c ≠ []) (h : a.combineLegs cl none none qconj = .ok r) :
    ∀ l ∈ r.legs, l.isPipe = true → SplitLegOK r.mods l := by
  obtain ⟨ps0, cli0, na0, transp, hps, hcli, hnt, hP2, hN, _⟩ := combineLegs_default_hyps2 a r ha cl qconj hne h
  have hQ := hQ_default a ha.1 hq cl qconj hqc ps0 cli0 hps hcli
  have hlt0 : ∀ c ∈ cli0, ∀ x ∈ c, x < a.rank := by
    intro c hc
    obtain ⟨axs, _, hax⟩ := (mapM_except_ok _ _ _ hcli).2 c hc
    exact (Arr.getLegIndices_lt a ha.1 axs c hax).2
  have hr := reordered_of a.rank cli0 none na0 _ hnt hN
  have hp : (Arr.argsortInt (na0.map Int.ofNat)).Perm (List.range cli0.length) := by
    rw [← hr.len]; exact argsort_perm na0
  have hpick := pipesOK2_pick a cli0 ps0 _ hp hP2
  have hflat := flatten_pick_lt cli0 (Arr.argsortInt (na0.map Int.ofNat)) a.rank hlt0
  by_cases htr : transp = List.range a.rank
  · subst htr
    obtain ⟨hcall, _, _, _, hl2, _⟩ :=
      combineLegs_places_id a r ha cl none none qconj ps0 cli0 na0 hps hcli hnt hP2.ok hN h
    exact combine_splitLegOK a r ha hv hS _ _ _ _ hl2 hflat hpick (pipesQ_pick ps0 _ hQ) hcall
  · obtain ⟨hperm, htWF, _, htlegs, hcall, _, _, _, hl2, _⟩ :=
      combineLegs_places_tr a r ha cl none none qconj ps0 cli0 na0 transp hps hcli hnt htr hP2.ok hN h
    have hvt : LegsValid (cTransposed a transp) :=
      legsValid_itransposeFast ({ a with labels := (cLabels a).map some } : Arr α) transp hperm hv
    have hSt : ∀ l ∈ (cTransposed a transp).legs, l.isPipe = true →
        SplitLegOK (cTransposed a transp).mods l := by
      intro l hl hp'
      rw [htlegs] at hl
      rcases mem_permuteList a.legs transp default l hl with h1 | h1
      · exact hS l h1 hp'
      · rw [h1] at hp'; cases hp'
    have hrank : (cTransposed a transp).rank = a.rank := by
      show (permuteList a.legs transp default).length = a.rank
      simp [permuteList, hperm.len]
    have hflat' : ∀ x ∈ ((pick cli0 (Arr.argsortInt (na0.map Int.ofNat)) []).map
        (fun c => c.map (fun x => (inversePerm transp).getD x 0))).flatten, x < (cTransposed a transp).rank := by
      intro x hx
      obtain ⟨c', hc', hxc⟩ := List.mem_flatten.1 hx
      obtain ⟨c, hc, rfl⟩ := List.mem_map.1 hc'
      obtain ⟨y, hy, rfl⟩ := List.mem_map.1 hxc
      have hylt : y < a.rank := hflat y (List.mem_flatten.2 ⟨c, hc, hy⟩)
      rw [hrank, inversePerm_getD transp y (by rw [hperm.len]; exact hylt)]
      exact hperm.idxOf_lt y hylt
    have hp2t := pipesOK2_transposed a (cTransposed a transp) _ _ transp hperm hflat htlegs hpick
    exact combine_splitLegOK (cTransposed a transp) r htWF hvt hSt _ _ _ _
      (by rw [hl2]) hflat' hp2t (pipesQ_pick ps0 _ hQ) hcall

/-- **`split_legs(combine_legs(a, groups, qconj=…))` obeys the charge rule** — public entry points, default arguments,
any way of naming the split axes; hypotheses only on `a` -/
theorem chargeRule_split_combineLegs (a r a' : Arr α) (ha : a.WF) (hc : a.ChargeRule) (hv : LegsValid a)
    (hq : LegsQ a) (hS : ∀ l ∈ a.legs, l.isPipe = true → SplitLegOK a.mods l)
    (cl : List (List Ax)) (qconj : List (Option Int)) (hqc : ∀ q, some q ∈ qconj → q = 1 ∨ q = -1)
    (hne : ∀ c ∈ cl, c ≠ []) (h : a.combineLegs cl none none qconj = .ok r)
    (axes : Option (List Ax)) (hs : r.splitLegs axes = .ok a') : a'.ChargeRule ∧ LegsValid a' := by
  obtain ⟨c, v⟩ := chargeRule_combineLegs_default a r ha hc hv hq cl qconj hqc hne h
  obtain ⟨ps0, cli0, na0, transp, hps, hcli, hnt, hP2, hN, _⟩ := combineLegs_default_hyps2 a r ha cl qconj hne h
  have hwf : r.WF := by
    by_cases htr : transp = List.range a.rank
    · subst htr
      exact (combineLegs_places_id a r ha cl none none qconj ps0 cli0 na0 hps hcli hnt hP2.ok hN h).2.2.2.2.2.1
    · exact (combineLegs_places_tr a r ha cl none none qconj ps0 cli0 na0 transp hps hcli hnt htr hP2.ok hN
        h).2.2.2.2.2.2.2.2.2.1
  exact chargeRule_splitLegs r a' hwf c v
    (combineLegs_default_splitLegOK a r ha hv hq hS cl qconj hqc hne h) axes hs

end zero
end TenpyModel.C01C
