import TenpyModel.C01.A_Slice4
/-!
C01 part A — `squeeze(axes)` is `np.squeeze` of the dense tensor (tensor result), provided no stored block has
extent 0 along a squeezed axis (tenpy raises for such a block, the model produces a malformed one: see the
counterexample at the end).
-/
namespace TenpyModel.Core

namespace Dense
variable {α : Type}

theorem fullIdx_congr_sl (n : Nat) (ax : List Nat) (u u' : Nat → Nat) (h : ∀ k, u k = u' k) :
    fullIdx n ax u = fullIdx n ax u' := by
  have : u = u' := funext h
  rw [this]

/-- `np.squeeze` as an integer index 0 on the squeezed axes -/
theorem squeeze_eq_gather_sl [Zero α] (d : Dense α) (hd : d.vals.length = prod d.shape) (ax : List Nat)
    (h1 : ∀ k ∈ ax, k < d.rank → d.shape.getD k 0 = 1) :
    d.squeeze ax = gather 0 d ((keepAx d.rank ax).map (fun k => d.shape.getD k 0)) (fullIdx d.rank ax (fun _ => 0)) := by
  have hS : (keepAx d.rank ax).map (fun k => d.shape.getD k 0) = filterIdx (fun k => !ax.contains k) d.shape :=
    pick_filter_eq_filterIdx d.shape _ 0
  have hall := allIdx_filterIdx d.shape (fun k => !ax.contains k) (fun k hk hp => h1 k (by simpa using hp) hk)
  rw [gather_eq_ofFn]
  unfold squeeze ofFn
  show (⟨(keepAx d.rank ax).map (fun k => d.shape.getD k 0), d.vals⟩ : Dense α) = _
  rw [hS, hall, List.map_map]
  congr 1
  conv => lhs; rw [vals_eq_map_get 0 d hd]
  apply List.map_congr_left
  intro w hw
  have hw' := (mem_allIdx _ _).1 hw
  simp only [Function.comp]
  congr 1
  have e : filterIdx (fun k => !ax.contains k) w = pick w (keepAx d.rank ax) 0 := by
    have := pick_filter_eq_filterIdx w (fun k => !ax.contains k) 0
    rw [hw'.length_eq] at this
    exact this.symm
  rw [e]
  refine (fullIdx_pick d.rank ax _ w hw'.length_eq ?_).symm
  intro k hk hk'
  have := hw'.getD_lt' k hk'
  rw [h1 k hk hk'] at this
  omega

theorem getD_all_zero_sl (ws : List Nat) (h : ∀ w ∈ ws, w = 0) (j : Nat) : ws.getD j 0 = 0 := by
  by_cases hj : j < ws.length
  · exact h _ (getD_mem ws j 0 hj)
  · exact getD_ge ws j 0 (by omega)

end Dense

namespace Leg

/-- in a leg of length 1, a block of non-zero extent is the block of index 0, and has extent 1 -/
theorem unit_block_sl {l : Leg} (h : l.Shape) (hl : l.indLen = 1) (q : Nat) (hq : q < l.blockNumber)
    (hs : l.blockSizes.getD q 0 ≠ 0) : l.locate 0 = (q, 0) ∧ l.blockSizes.getD q 0 = 1 := by
  have h1 := h.slices_succ q hq
  have h2 := mono_getD l.slices h.mono (q + 1) l.blockNumber (by omega) (by rw [h.len]; unfold blockNumber; omega)
  rw [← h.indLen_eq_getD, hl] at h2
  have h3 := locate_unique h q 0 hq (by omega) (by omega)
  exact ⟨by rw [h3, Nat.zero_sub], by omega⟩

end Leg

namespace Arr
variable {α : Type}
open Dense

/-- the axes that `squeeze(axes)` removes -/
def squeezeAx (a : Arr α) : Option (List Ax) → Except Err (List Nat)
  | none => .ok ((List.range a.rank).filter (fun k => a.shape.getD k 0 == 1))
  | some xs => a.getLegIndices xs

theorem squeezeAx_lt (a : Arr α) (hl : a.labels.length = a.rank) (axes : Option (List Ax)) (ax : List Nat)
    (h : a.squeezeAx axes = .ok ax) : ∀ k ∈ ax, k < a.rank := by
  cases axes with
  | none =>
    simp only [squeezeAx, Except.ok.injEq] at h
    subst h
    intro k hk
    have := (List.mem_filter.1 hk).1
    simpa using this
  | some xs => exact getLegIndices_lt_sl a hl xs ax h

/-- the record built by `squeeze` (tensor result) -/
def squeezed [Zero α] (a : Arr α) (ax : List Nat) : Arr α :=
  let keep := (List.range a.rank).filter (fun x => !ax.contains x)
  { a with legs := pick a.legs keep default,
           qtotal := makeValid a.mods (ax.foldl (fun q k => csub q ((a.lc k).getCharge 0)) a.qtotal),
           labels := pick a.labels keep none,
           data := a.data.map (fun b => b.squeeze ax), qdata := a.qdata.map (fun r => pick r keep 0) }

/-- `squeeze` after the axes have been resolved -/
def squeezeBody [Zero α] (a : Arr α) (ax : List Nat) : Except Err (Val α) := do
  if ax.any (fun k => a.shape.getD k 0 ≠ 1) then throw .valueError
  let keep := (List.range a.rank).filter (fun x => !ax.contains x)
  if keep.isEmpty then
    return .scalar (← a.getItemInt (List.replicate a.rank 0))
  if ax.eraseDups.length ≠ ax.length then throw .valueError
  let qtotal := makeValid a.mods (ax.foldl (fun q k => csub q ((a.lc k).getCharge 0)) a.qtotal)
  let r ← ({ a with legs := pick a.legs keep default, qtotal } : Arr α).isetLegLabels (pick a.labels keep none)
  return .arr { r with data := a.data.map (fun b => b.squeeze ax), qdata := a.qdata.map (fun r => pick r keep 0) }

theorem squeeze_eq_body [Zero α] (a : Arr α) (axes : Option (List Ax)) :
    a.squeeze axes = a.squeezeAx axes >>= a.squeezeBody := by
  cases axes <;> rfl

theorem squeeze_body_of_ok [Zero α] (a : Arr α) (axes : Option (List Ax)) (ax : List Nat)
    (hax : a.squeezeAx axes = .ok ax) : a.squeeze axes = a.squeezeBody ax := by
  rw [squeeze_eq_body, hax]
  rfl

/-- unfolding `squeeze` for a tensor result -/
theorem squeeze_arr_eq [Zero α] (a r : Arr α) (axes : Option (List Ax)) (ax : List Nat)
    (hax : a.squeezeAx axes = .ok ax) (h : a.squeeze axes = .ok (.arr r)) :
    r = a.squeezed ax ∧ (∀ k ∈ ax, a.shape.getD k 0 = 1) ∧ ax.eraseDups.length = ax.length
      ∧ keepAx a.rank ax ≠ [] := by
  rw [squeeze_body_of_ok a axes ax hax] at h
  unfold squeezeBody at h
  simp only [bind, Except.bind, pure, Except.pure, throw, throwThe, MonadExceptOf.throw] at h
  split at h
  · cases h
  rename_i hany
  split at h
  · cases hg : a.getItemInt (List.replicate a.rank 0) with
    | error e => simp [hg] at h
    | ok x => simp [hg] at h
  rename_i hkeep
  split at h
  · cases h
  rename_i hdup
  unfold isetLegLabels at h
  simp only at h
  split at h
  · cases h
  rename_i v heq
  split at heq
  · cases heq
  split at heq
  · cases heq
  simp only [Except.ok.injEq] at heq
  subst heq
  simp only [Except.ok.injEq, Val.arr.injEq] at h
  refine ⟨h.symm, ?_, by simpa using hdup, ?_⟩
  · intro k hk
    have := hany
    simp only [List.any_eq_true, not_exists, not_and] at this
    have h2 := this k hk
    simpa using h2
  · intro e
    apply hkeep
    unfold keepAx at e
    rw [e]
    rfl

/-- under `hne` every stored row passes the row filter of the slice at index 0 -/
theorem rowOK_squeeze (a : Arr α) (ha : a.WF) (ax : List Nat) (hlt : ∀ k ∈ ax, k < a.rank)
    (h1 : ∀ k ∈ ax, a.shape.getD k 0 = 1)
    (hne : ∀ row ∈ a.qdata, ∀ k ∈ ax, (a.lc k).blockSizes.getD (row.getD k 0) 0 ≠ 0)
    (row : List Nat) (hrow : row ∈ a.qdata) :
    a.rowOK ax (fun _ => 0) row = true ∧ ∀ k ∈ ax, (a.lc k).blockSizes.getD (row.getD k 0) 0 = 1 := by
  have hu : ∀ k ∈ ax, (a.lc k).locate 0 = (row.getD k 0, 0) ∧ (a.lc k).blockSizes.getD (row.getD k 0) 0 = 1 := by
    intro k hk
    have hs := (ha.legs_ok _ (lc_mem_lcs_sl a k (hlt k hk))).shape
    have hl : (a.lc k).indLen = 1 := by rw [← shape_getD_sl a k (hlt k hk)]; exact h1 k hk
    exact Leg.unit_block_sl hs hl _ ((ha.2.2.2.2.1 row hrow).2 k (hlt k hk)) (hne row hrow k hk)
  refine ⟨(rowOK_iff _ _ _ _).2 (fun k hk => ?_), fun k hk => (hu k hk).2⟩
  unfold fixQ
  rw [(hu k hk).1]

theorem squeezed_eq_slice [Zero α] (a : Arr α) (ha : a.WF) (ax : List Nat) (hlt : ∀ k ∈ ax, k < a.rank)
    (h1 : ∀ k ∈ ax, a.shape.getD k 0 = 1)
    (hne : ∀ row ∈ a.qdata, ∀ k ∈ ax, (a.lc k).blockSizes.getD (row.getD k 0) 0 ≠ 0) :
    a.squeezed ax = a.slice ax (fun _ => 0)
      (makeValid a.mods (ax.foldl (fun q k => csub q ((a.lc k).getCharge 0)) a.qtotal)) := by
  have hfil : (a.qdata.zip a.data).filter (fun rb => a.rowOK ax (fun _ => 0) rb.1) = a.qdata.zip a.data := by
    apply List.filter_eq_self.2
    intro rb hrb
    exact (rowOK_squeeze a ha ax hlt h1 hne rb.1 (List.of_mem_zip hrb).1).1
  have hws : ∀ j, ((ax.map (a.fixQ (fun _ => 0))).map (·.2)).getD j 0 = 0 := by
    apply getD_all_zero_sl
    intro w hw
    rw [List.map_map] at hw
    obtain ⟨k, _, rfl⟩ := List.mem_map.1 hw
    simp [fixQ, Leg.locate]
  have hqd : ((a.qdata.zip a.data).filter (fun rb => a.rowOK ax (fun _ => 0) rb.1)).map
      (fun rb => pick rb.1 (keepAx a.rank ax) 0) = a.qdata.map (fun r => pick r (keepAx a.rank ax) 0) := by
    rw [hfil]
    have : (a.qdata.zip a.data).map (fun rb => pick rb.1 (keepAx a.rank ax) 0)
        = ((a.qdata.zip a.data).map (·.1)).map (fun r => pick r (keepAx a.rank ax) 0) := by
      rw [List.map_map]; rfl
    rw [this, List.map_fst_zip (by rw [ha.2.1]; exact Nat.le_refl _)]
  have hdt : ((a.qdata.zip a.data).filter (fun rb => a.rowOK ax (fun _ => 0) rb.1)).map
      (fun rb => rb.2.fixAxes ax ((ax.map (a.fixQ (fun _ => 0))).map (·.2))) = a.data.map (fun b => b.squeeze ax) := by
    rw [hfil]
    have : a.data.map (fun b => b.squeeze ax)
        = (a.qdata.zip a.data).map (fun rb => rb.2.squeeze ax) := by
      conv => lhs; rw [← List.map_snd_zip (l₁ := a.qdata) (l₂ := a.data) (by rw [ha.2.1]; exact Nat.le_refl _)]
      rw [List.map_map]; rfl
    rw [this]
    apply List.map_congr_left
    intro rb hrb
    obtain ⟨hsh, hvl, hrl, _⟩ := ha.block rb.1 rb.2 hrb
    have hsz := (rowOK_squeeze a ha ax hlt h1 hne rb.1 (List.of_mem_zip hrb).1).2
    have hbr : rb.2.rank = a.rank := by
      unfold Dense.rank
      rw [hsh, blockShapeOf_length_sl _ _ (by rw [lcs_length, hrl]), lcs_length]
    rw [fixAxes_eq, squeeze_eq_gather_sl rb.2 hvl ax ?_, fullIdx_congr_sl _ _ _ (fun _ => 0) (fun k => hws _)]
    intro k hk hk'
    rw [hbr] at hk'
    rw [hsh]
    unfold blockShapeOf
    rw [getD_zipWith' _ _ _ _ default 0 0 (by rw [lcs_length]; exact hk') (by rw [hrl]; exact hk'), lc_eq a k hk']
    exact hsz k hk
  unfold squeezed slice
  simp only
  congr 1
  · exact hqd.symm
  · exact hdt.symm

/-- **`squeeze` (tensor result) is `np.squeeze`**: the squeezed legs / labels disappear, the total charge is reduced
by the charge `get_charge(0)` of each squeezed leg. `hne`: no stored block has extent 0 along a squeezed axis. -/
theorem toDense_squeeze_arr [Zero α] (a r : Arr α) (axes : Option (List Ax)) (ha : a.WF) (ax : List Nat)
    (hax : a.squeezeAx axes = .ok ax)
    (hne : ∀ row ∈ a.qdata, ∀ k ∈ ax, (a.lc k).blockSizes.getD (row.getD k 0) 0 ≠ 0)
    (h : a.squeeze axes = .ok (.arr r)) :
    r.toDense = a.toDense.squeeze ax
    ∧ r.labels = pick a.labels ((List.range a.rank).filter (fun x => !ax.contains x)) none
    ∧ r.legs = pick a.legs ((List.range a.rank).filter (fun x => !ax.contains x)) default
    ∧ r.qtotal = makeValid a.mods (ax.foldl (fun q k => csub q ((a.lc k).getCharge 0)) a.qtotal)
    ∧ (∀ k ∈ ax, k < a.rank ∧ a.shape.getD k 0 = 1) ∧ r.WF := by
  obtain ⟨hr, h1, _, _⟩ := squeeze_arr_eq a r axes ax hax h
  have hlt := squeezeAx_lt a ha.1 axes ax hax
  have hsl := squeezed_eq_slice a ha ax hlt h1 hne
  refine ⟨?_, by rw [hr]; rfl, by rw [hr]; rfl, by rw [hr]; rfl, fun k hk => ⟨hlt k hk, h1 k hk⟩, ?_⟩
  · rw [hr, hsl, toDense_slice a ha ax hlt _ (fun k hk => by
      rw [← shape_getD_sl a k (hlt k hk), h1 k hk]; exact Nat.zero_lt_one)]
    rw [squeeze_eq_gather_sl a.toDense (toDense_complete_sl a) ax (fun k hk _ => h1 k hk)]
    have : a.toDense.rank = a.rank := shape_length a
    rw [this]
    rfl
  · rw [hr, hsl]
    exact WF_slice a ha ax _ _

theorem WF_squeeze [Zero α] (a r : Arr α) (axes : Option (List Ax)) (ha : a.WF) (ax : List Nat)
    (hax : a.squeezeAx axes = .ok ax)
    (hne : ∀ row ∈ a.qdata, ∀ k ∈ ax, (a.lc k).blockSizes.getD (row.getD k 0) 0 ≠ 0)
    (h : a.squeeze axes = .ok (.arr r)) : r.WF :=
  (toDense_squeeze_arr a r axes ha ax hax hne h).2.2.2.2.2

/-! ### scalar result: all axes are squeezed -/

theorem allIdx_replicate_one_sl (n : Nat) : allIdx (List.replicate n 1) = [List.replicate n 0] := by
  induction n with
  | zero => rfl
  | succ n ih =>
    rw [List.replicate_succ, allIdx, ih]
    rfl

/-- `a[0, …, 0]` through `__getitem__` is the entry of the dense tensor (charge rule: a block whose charge differs
from `qtotal` is not stored) -/
theorem getItemInt_zeros [Zero α] (a : Arr α) (ha : a.WF) (hc : a.ChargeRule) (x : α)
    (h : a.getItemInt (List.replicate a.rank 0) = .ok x) : a.entry (List.replicate a.rank 0) = x := by
  unfold getItemInt at h
  simp only [bind, Except.bind, pure, Except.pure, throw, throwThe, MonadExceptOf.throw] at h
  split at h
  · rename_i hgt
    simp at hgt
  cases hpos : (a.lcs.zip (List.replicate a.rank (0 : Int))).mapM (fun li => qindexOf li.1 li.2) with
  | error e => simp [hpos] at h
  | ok pos =>
    simp only [hpos] at h
    obtain ⟨hpl, hpg⟩ := Slice.mapM_ok_getD_sl _ _ _ hpos
    have hzl : (a.lcs.zip (List.replicate a.rank (0 : Int))).length = a.rank := by simp [lcs_length]
    have hposEq : pos = List.zipWith (fun l i => l.locate i) a.lcs (List.replicate a.rank 0) := by
      apply ext_getD _ _ (0, 0) (by rw [hpl, hzl]; simp [lcs_length])
      intro j hj
      rw [hpl, hzl] at hj
      have h1 := hpg j (by rw [hzl]; exact hj) (default, 0) (0, 0)
      rw [getD_zip a.lcs (List.replicate a.rank (0 : Int)) default 0 (by simp [lcs_length]) j] at h1
      simp only at h1
      rw [getD_replicate' _ _ _ _ hj] at h1
      obtain ⟨_, _, q3⟩ := qindexOf_ok_sl _ _ _ h1
      rw [q3, getD_zipWith' _ _ _ j default 0 (0, 0) (by rw [lcs_length]; exact hj) (by simpa using hj),
        getD_replicate' _ _ _ _ hj]
      rfl
    have hq : pos.map (·.1) = qidx a.lcs (List.replicate a.rank 0) := by
      rw [hposEq, List.map_zipWith]; rfl
    have hw : pos.map (·.2) = widx a.lcs (List.replicate a.rank 0) := by
      rw [hposEq, List.map_zipWith]; rfl
    rw [hq, hw] at h
    -- the search order does not matter: the rows are pairwise distinct
    have hfind : (a.qdata.zip a.data).reverse.find? (fun rb => rb.1 == qidx a.lcs (List.replicate a.rank 0))
        = (a.qdata.zip a.data).find? (fun rb => rb.1 == qidx a.lcs (List.replicate a.rank 0)) := by
      apply find?_perm_unique _ (List.reverse_perm _)
      intro u hu w hw' pu pw
      exact zip_fst_inj a.qdata a.data ha.2.2.1 u (List.mem_reverse.1 hu) w (List.mem_reverse.1 hw')
        ((eq_of_beq pu).trans (eq_of_beq pw).symm)
    rw [entry_eq, hfind]
    split at h
    · rename_i hne
      injection h with h
      subst h
      cases hf : (a.qdata.zip a.data).find? (fun rb => rb.1 == qidx a.lcs (List.replicate a.rank 0)) with
      | none => rfl
      | some rb =>
        exfalso
        apply hne
        have hm := List.mem_of_find?_eq_some hf
        have hk : rb.1 = qidx a.lcs (List.replicate a.rank 0) := by
          have := List.find?_some hf
          exact eq_of_beq this
        rw [← hk]
        exact hc rb.1 (List.of_mem_zip hm).1
    · cases hf : (a.qdata.zip a.data).find? (fun rb => rb.1 == qidx a.lcs (List.replicate a.rank 0)) with
      | none =>
        rw [hf] at h
        injection h
      | some rb =>
        rw [hf] at h
        injection h

/-- **`squeeze` with a scalar result**: the tensor has shape `(1, …, 1)` and the scalar is its only entry -/
theorem toDense_squeeze_scalar [Zero α] (a : Arr α) (x : α) (axes : Option (List Ax)) (ha : a.WF)
    (hc : a.ChargeRule) (h : a.squeeze axes = .ok (.scalar x)) :
    a.toDense = ⟨List.replicate a.rank 1, [x]⟩ := by
  cases hax : a.squeezeAx axes with
  | error e =>
    rw [squeeze_eq_body, hax] at h
    cases h
  | ok ax =>
    rw [squeeze_body_of_ok a axes ax hax] at h
    unfold squeezeBody at h
    simp only [bind, Except.bind, pure, Except.pure, throw, throwThe, MonadExceptOf.throw] at h
    split at h
    · cases h
    rename_i hany
    split at h
    · rename_i hkeep
      cases hg : a.getItemInt (List.replicate a.rank 0) with
      | error e => simp [hg] at h
      | ok y =>
        simp only [hg, Except.ok.injEq, Val.scalar.injEq] at h
        subst h
        have hall : ∀ k, k < a.rank → a.shape.getD k 0 = 1 := by
          intro k hk
          have hm : k ∈ ax := by
            by_cases hm : k ∈ ax
            · exact hm
            · have : k ∈ keepAx a.rank ax := (mem_keepAx _ _ _).2 ⟨hk, hm⟩
              unfold keepAx at this
              rw [List.isEmpty_iff.1 hkeep] at this
              simp at this
          have := hany
          simp only [List.any_eq_true, not_exists, not_and] at this
          simpa using this k hm
        have hS : a.shape = List.replicate a.rank 1 := by
          apply ext_getD _ _ 0 (by simp [shape_length])
          intro k hk
          rw [shape_length] at hk
          rw [hall k hk, getD_replicate' _ _ _ _ hk]
        unfold toDense ofFn
        rw [hS, allIdx_replicate_one_sl]
        simp only [List.map_cons, List.map_nil]
        rw [getItemInt_zeros a ha hc y hg]
    · split at h
      · cases h
      unfold isetLegLabels at h
      simp only at h
      split at h
      · cases h
      · cases h

end Arr

/-! ### non-vacuity, and necessity of `hne` -/
namespace C01SliceExample
open C01Example

/-- result of `squeeze` as an option (tensor case): dense form, labels, total charge -/
def sqArr (a : Arr Int) (axes : Option (List Ax)) : Option (Dense Int × List Label × Charge) :=
  match a.squeeze axes with
  | .ok (.arr r) => some (r.toDense, r.labels, r.qtotal)
  | _ => none

/-- rows and well-formedness of the result -/
def sqRows (a : Arr Int) (axes : Option (List Ax)) : Option (List (List Nat) × Bool) :=
  match a.squeeze axes with
  | .ok (.arr r) => some (r.qdata, decide r.WF)
  | _ => none

def sqScalar (a : Arr Int) (axes : Option (List Ax)) : Option Int :=
  match a.squeeze axes with
  | .ok (.scalar x) => some x
  | _ => none

/-- `t` (U(1)×Z₃, duplicate sector, missing block, `qtotal ≠ 0`) with a trivial leg `z` in the middle -/
def tz : Arr Int :=
  { mods := [1, 3], legs := [.plain legA, .plain (Leg.fromQflat [1, 3] [[0, 0]] 1), .plain legB], qtotal := [-1, 1],
    labels := [some "a", some "z", some "b*"], qdata := [[2, 0, 0]], data := [⟨[1, 1, 2], [5, -7]⟩],
    qdataSorted := true }

example : (t.addTrivialLeg 1 (some "z") 1).toOption.map (fun r => (r.legs.map ALeg.leg, r.qdata, r.data))
    = some (tz.legs.map ALeg.leg, tz.qdata, tz.data) := by decide
example : tz.WF ∧ (tz.squeezeAx none).toOption = some [1] ∧ (tz.squeezeAx (some [.lbl "z"])).toOption = some [1]
    ∧ (∀ row ∈ tz.qdata, ∀ k ∈ [1], (tz.lc k).blockSizes.getD (row.getD k 0) 0 ≠ 0) := by decide
example : sqArr tz none = some (tz.toDense.squeeze [1], [some "a", some "b*"], [-1, 1])
    ∧ sqRows tz none = some ([[2, 0]], true) := by decide
example : sqArr tz (some [.lbl "z"]) = some (t.toDense, [some "a", some "b*"], [-1, 1]) := by decide
/-- a leg of length ≠ 1 cannot be squeezed -/
example : sqArr tz (some [.lbl "a"]) = none := by decide

/-- a unit leg whose first block is empty: the block of index 0 is block 1 -/
def legU : Leg := ⟨[1, 3], [0, 0, 1], [[0, 0], [0, 0]], 1, false, false⟩
def tu : Arr Int :=
  { mods := [1, 3], legs := [.plain legU, .plain legB], qtotal := [-1, 0], labels := [some "u", some "b"],
    qdata := [[1, 0]], data := [⟨[1, 2], [5, -7]⟩], qdataSorted := true }
example : tu.WF ∧ tu.ChargeRule ∧ (∀ row ∈ tu.qdata, ∀ k ∈ [0], (tu.lc k).blockSizes.getD (row.getD k 0) 0 ≠ 0) := by
  decide
example : sqArr tu (some [.idx 0]) = some (tu.toDense.squeeze [0], [some "b"], [-1, 0])
    ∧ sqRows tu (some [.idx 0]) = some ([[0]], true) ∧ tu.toDense.squeeze [0] = ⟨[3], [5, -7, 0]⟩ := by decide

/-- scalar result -/
def legV : Leg := ⟨[1, 3], [0, 1], [[1, 2]], -1, true, true⟩
def s11 : Arr Int :=
  { mods := [1, 3], legs := [.plain legU, .plain legV], qtotal := [-1, 1], labels := [some "u", none],
    qdata := [[1, 0]], data := [⟨[1, 1], [9]⟩], qdataSorted := true }
example : s11.WF ∧ s11.ChargeRule := by decide
example : sqScalar s11 none = some 9 ∧ s11.toDense = ⟨List.replicate s11.rank 1, [9]⟩ := by decide

/-- **`hne` is necessary**: a well-formed tensor obeying the charge rule with a stored block of extent 0 along the
squeezed axis (tenpy raises on it). The model's `squeeze` returns a tensor that is not well-formed (repeated row,
block with too few values) and whose dense form differs from `np.squeeze` of the input. -/
def bad : Arr Int :=
  { mods := [1, 3], legs := [.plain legU, .plain legB], qtotal := [-1, 0], labels := [some "u", some "b"],
    qdata := [[1, 0], [0, 0]], data := [⟨[1, 2], [5, -7]⟩, ⟨[0, 2], []⟩], qdataSorted := false }
example : bad.WF ∧ bad.ChargeRule ∧ (bad.squeezeAx (some [.idx 0])).toOption = some [0] := by decide
example : sqArr bad (some [.idx 0]) = some (⟨[3], [0, 0, 0]⟩, [some "b"], [-1, 0])
    ∧ sqRows bad (some [.idx 0]) = some ([[0], [0]], false) ∧ bad.toDense.squeeze [0] = ⟨[3], [5, -7, 0]⟩ := by decide

end C01SliceExample
end TenpyModel.Core
