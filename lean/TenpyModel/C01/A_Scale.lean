import TenpyModel.C01.A_Entry
import TenpyModel.C01.Props
/-!
C01 part A — `iscale_axis` commutes with `toDense`:
`(a.iscaleAxis s axis).toDense = a.toDense.scaleAxis s k`.
-/
namespace TenpyModel.Core

theorem zipWith_map_right_pj {β γ δ} (f : β → γ → δ) (g : β → γ) (l : List β) :
    List.zipWith f l (l.map g) = l.map (fun x => f x (g x)) := by
  induction l with
  | nil => rfl
  | cons x xs ih => simp [ih]

theorem getD_take_drop_pj {β} (s : List β) (sl sz w : Nat) (d : β) (hw : w < sz) :
    ((s.drop sl).take sz).getD w d = s.getD (sl + w) d := by
  simp [List.getD_eq_getElem?_getD, hw]

/-- members of `zip qd (zipWith g qd dt)` -/
theorem mem_zip_zipWith_pj {β γ δ} (g : β → γ → δ) (qd : List β) (dt : List γ) (r : β) (c : δ)
    (h : (r, c) ∈ qd.zip (List.zipWith g qd dt)) : ∃ b, (r, b) ∈ qd.zip dt ∧ c = g r b := by
  induction qd generalizing dt with
  | nil => simp at h
  | cons x xs ih =>
    cases dt with
    | nil => simp at h
    | cons y ys =>
      simp only [List.zipWith_cons_cons, List.zip_cons_cons, List.mem_cons, Prod.mk.injEq] at h ⊢
      rcases h with ⟨h1, h2⟩ | h
      · exact ⟨y, Or.inl ⟨h1, rfl⟩, by rw [h2, h1]⟩
      · obtain ⟨b, hb, hc⟩ := ih ys h
        exact ⟨b, Or.inr hb, hc⟩

namespace Dense
variable {α : Type}

theorem scaleAxis_ofFn [Mul α] [Zero α] (S : List Nat) (g : List Nat → α) (s : List α) (k : Nat) :
    scaleAxis (ofFn S g) s k = ofFn S (fun idx => g idx * s.getD (idx.getD k 0) 0) := by
  unfold scaleAxis ofFn
  simp only [zipWith_map_right_pj]

theorem scaleAxis_shape [Mul α] [Zero α] (b : Dense α) (s : List α) (k : Nat) : (b.scaleAxis s k).shape = b.shape := rfl

theorem scaleAxis_vals_length [Mul α] [Zero α] (b : Dense α) (s : List α) (k : Nat)
    (h : b.vals.length = prod b.shape) : (b.scaleAxis s k).vals.length = prod (b.scaleAxis s k).shape := by
  unfold scaleAxis
  simp only [List.length_zipWith, allIdx_length, h, Nat.min_self]

/-- entries of a block scaled along an axis -/
theorem get_scaleAxis [Mul α] [Zero α] (hz : ∀ s : α, 0 * s = 0) (b : Dense α) (s : List α) (k : Nat)
    (h : b.vals.length = prod b.shape) (w : List Nat) :
    (b.scaleAxis s k).get 0 w = b.get 0 w * s.getD (w.getD k 0) 0 := by
  by_cases hw : InRange w b.shape
  · have e : b.scaleAxis s k = ofFn b.shape (fun idx => b.get 0 idx * s.getD (idx.getD k 0) 0) := by
      conv => lhs; rw [eq_ofFn_get 0 b h]
      exact scaleAxis_ofFn _ _ _ _
    rw [e, get_ofFn 0 _ _ w hw]
  · rw [get_not_inRange 0 _ w (by rw [scaleAxis_shape]; exact hw), get_not_inRange 0 b w hw, hz]

end Dense

namespace Arr
variable {α : Type}

theorem getLegIndex_lt_pj (a : Arr α) (hl : a.labels.length = a.rank) (axis : Ax) (k : Nat)
    (hk : a.getLegIndex axis = .ok k) : k < a.rank := by
  cases axis with
  | lbl s =>
    simp only [getLegIndex] at hk
    split at hk
    · simp only [Except.ok.injEq] at hk; omega
    · simp at hk
  | idx i =>
    simp only [getLegIndex] at hk
    by_cases hi : i < 0
    · simp only [hi, if_true] at hk
      split at hk
      · simp at hk
      · simp only [Except.ok.injEq] at hk; omega
    · simp only [hi, if_false] at hk
      split at hk
      · simp at hk
      · simp only [Except.ok.injEq] at hk; omega

theorem shape_getD_pj (a : Arr α) (k : Nat) (hk : k < a.rank) : a.shape.getD k 0 = (a.lc k).indLen := by
  unfold shape
  rw [getD_map' Leg.indLen a.lcs k default 0 (by rw [lcs_length]; exact hk), lc_eq a k hk]

/-- **`iscale_axis`** multiplies the dense tensor along the axis; legs, labels, total charge are unchanged and the
storage invariants are preserved -/
theorem toDense_iscaleAxis [Mul α] [Zero α] (hz : ∀ s : α, 0 * s = 0) (a r : Arr α) (s : List α) (axis : Ax)
    (ha : a.WF) (k : Nat) (hk : a.getLegIndex axis = .ok k) (h : a.iscaleAxis s axis = .ok r) :
    r.toDense = a.toDense.scaleAxis s k ∧ r.legs = a.legs ∧ r.labels = a.labels ∧ r.qtotal = a.qtotal ∧ r.WF := by
  have hkr : k < a.rank := getLegIndex_lt_pj a ha.1 axis k hk
  unfold iscaleAxis at h
  simp only [hk, bind, Except.bind, pure, Except.pure] at h
  split at h
  · simp [throw, throwThe, MonadExceptOf.throw] at h
  · simp only [Except.ok.injEq] at h
    have hrl : r.legs = a.legs := by rw [← h]
    have hrq : r.qdata = a.qdata := by rw [← h]
    have hrd : r.data = List.zipWith (fun r b => b.scaleAxis ((s.drop ((a.lc k).slices.getD (r.getD k 0) 0)).take
          ((a.lc k).blockSizes.getD (r.getD k 0) 0)) k) a.qdata a.data := by rw [← h]
    have hrlcs : r.lcs = a.lcs := by unfold lcs; rw [hrl]
    have hrs : r.shape = a.shape := by unfold shape; rw [hrlcs]
    have hrr : r.rank = a.rank := by unfold rank; rw [hrl]
    refine ⟨?_, hrl, by rw [← h], by rw [← h], ?_⟩
    · -- dense form
      unfold toDense
      rw [Dense.scaleAxis_ofFn, hrs]
      apply Dense.ofFn_congr_mem
      intro idx hidx
      have hlen : idx.length = a.rank := by rw [hidx.length_eq, shape_length]
      have hlegs := ha.legs_ok
      obtain ⟨hq1, hq2⟩ := qw_inRange a.lcs hlegs idx hidx
      have hsh : (a.lc k).Shape := by
        have : a.lc k ∈ a.lcs := by
          rw [← lc_eq a k hkr]; exact getD_mem _ _ _ (by rw [lcs_length]; exact hkr)
        exact (hlegs _ this).shape
      have hik : idx.getD k 0 < (a.lc k).indLen := by
        have := hidx.getD_lt' k (by rw [shape_length]; exact hkr)
        rwa [shape_getD_pj a k hkr] at this
      have hqk : (qidx a.lcs idx).getD k 0 = ((a.lc k).locate (idx.getD k 0)).1 := by
        rw [qidx_getD a.lcs idx k (by rw [lcs_length]; exact hkr) (by omega), lc_eq a k hkr]
      have hwk : (widx a.lcs idx).getD k 0 = ((a.lc k).locate (idx.getD k 0)).2 := by
        rw [widx_getD a.lcs idx k (by rw [lcs_length]; exact hkr) (by omega), lc_eq a k hkr]
      refine entry_rowmap_all a r id
        (fun r b => b.scaleAxis ((s.drop ((a.lc k).slices.getD (r.getD k 0) 0)).take
          ((a.lc k).blockSizes.getD (r.getD k 0) 0)) k)
        (fun x => x * s.getD (idx.getD k 0) 0) (hz _) (by rw [hrq, List.map_id]) hrd idx idx (by rw [hrlcs]; rfl)
        (fun r _ e => e) ?_
      intro b hb
      obtain ⟨_, hbv, _, _⟩ := ha.block _ b hb
      show (b.scaleAxis _ k).get 0 (widx r.lcs idx) = _
      rw [hrlcs, Dense.get_scaleAxis hz b _ k hbv, hqk, hwk,
        getD_take_drop_pj s _ _ _ 0 (Leg.locate_within hsh _ hik), (Leg.locate_ok hsh _ hik).2.2.2]
    · -- invariants
      obtain ⟨w1, w2, w3, w4, w5, w6, w7⟩ := ha
      have hlc : ∀ j, r.lc j = a.lc j := fun j => by unfold lc; rw [hrl]
      refine ⟨by rw [hrr, ← w1, ← h], ?_, by rw [hrq]; exact w3, by rw [hrlcs]; exact w4, ?_, ?_,
        by rw [hrq, ← h]; exact w7⟩
      · rw [hrq, hrd, List.length_zipWith, ← w2, Nat.min_self]
      · rw [hrq, hrr]
        intro q hq
        refine ⟨(w5 q hq).1, fun j hj => ?_⟩
        rw [hlc]; exact (w5 q hq).2 j hj
      · rw [hrq, hrd, hrlcs]
        intro rb hrb
        obtain ⟨b, hb, hc⟩ := mem_zip_zipWith_pj _ a.qdata a.data rb.1 rb.2 hrb
        have := w6 (rb.1, b) hb
        rw [hc]
        exact ⟨this.1, Dense.scaleAxis_vals_length b _ k this.2⟩

end Arr
end TenpyModel.Core

/-! ### non-vacuity -/
section
open TenpyModel.Core

example : C01Example.t.WF := by decide
example : (C01Example.t.getLegIndex (.lbl "a")).toOption = some 0 := by decide
example : (C01Example.t.iscaleAxis [1, 2, 3, 4] (.lbl "a")).toOption.map (fun r => r.toDense)
    = some (C01Example.t.toDense.scaleAxis [1, 2, 3, 4] 0)
    ∧ C01Example.t.toDense.scaleAxis [1, 2, 3, 4] 0 = ⟨[4, 3], [0, 0, 0, 0, 0, 0, 0, 0, 0, 20, -28, 0]⟩ := by decide
example : (C01Example.t.iscaleAxis [2, 3, 5] (.idx (-1))).toOption.map (fun r => r.toDense)
    = some ⟨[4, 3], [0, 0, 0, 0, 0, 0, 0, 0, 0, 10, -21, 0]⟩ := by decide
end

