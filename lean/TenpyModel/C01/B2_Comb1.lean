import TenpyModel.C01.B_Combine
/-!
C01 part B2 — `combine_legs` with spectator legs and several groups. Part 1: list lemmas.
* the row-major flat index of a concatenation of index groups (`np.reshape` that merges consecutive axes),
* `pick` (gather by an index list) against `qOf` / `wOf` / `blockShapeOf`, `InRange` of mapped lists,
* a fold of `insertAt` with ascending positions, entry by entry.
-/
namespace TenpyModel.C01B2.Comb
open TenpyModel.Core TenpyModel.C01B

/-! ### merging consecutive axes -/

theorem prod_flatten_map {β} (L : List β) (g : β → List Nat) :
    (L.map g).flatten.prod = (L.map (fun x => (g x).prod)).prod := by
  induction L with
  | nil => simp
  | cons x L ih => simp only [List.map_cons, List.flatten_cons, List.prod_append, List.prod_cons, ih]

/-- C-order flat index of grouped indices = C-order flat index of the per-group flat indices -/
theorem dot_flatten {β} (L : List β) (f g : β → List Nat) (h : ∀ x ∈ L, (f x).length = (g x).length) :
    dot (L.map f).flatten (makeStrideC (L.map g).flatten)
      = dot (L.map (fun x => dot (f x) (makeStrideC (g x)))) (makeStrideC (L.map (fun x => (g x).prod))) := by
  induction L with
  | nil => simp [makeStrideC]
  | cons x L ih =>
    simp only [List.map_cons, List.flatten_cons]
    rw [flat_append _ _ _ _ (h x (by simp)), makeStrideC_cons, dot_cons, ih (fun y hy => h y (by simp [hy])),
      prod_flatten_map]

/-! ### `pick` -/

theorem pick_length {β} (l : List β) (c : List Nat) (d : β) : (pick l c d).length = c.length := by simp [pick]

theorem pick_flatten {β} (l : List β) (P : List (List Nat)) (d : β) :
    pick l P.flatten d = (P.map (fun c => pick l c d)).flatten := by
  simp [pick, List.map_flatten]

theorem pick_range {β} (l : List β) (d : β) : pick l (List.range l.length) d = l := map_getD_range l d

theorem pick_map {β γ} (f : β → γ) (l : List β) (c : List Nat) (d : β) (e : γ) (hc : ∀ x ∈ c, x < l.length) :
    pick (l.map f) c e = (pick l c d).map f := by
  simp only [pick, List.map_map]
  apply List.map_congr_left
  intro x hx
  exact getD_map' f l x d e (hc x hx)

/-- a list is the concatenation of its pieces along a partition of the positions -/
theorem eq_flatten_pick {β} (l : List β) (P : List (List Nat)) (d : β) (h : P.flatten = List.range l.length) :
    l = (P.map (fun c => pick l c d)).flatten := by
  rw [← pick_flatten, h, pick_range]

theorem qOf_getD (ls : List Leg) (idx : List Nat) (x : Nat) (h1 : x < ls.length) (h2 : idx.length = ls.length) :
    (qOf ls idx).getD x 0 = ((ls.getD x default).locate (idx.getD x 0)).1 := by
  unfold qOf
  rw [getD_map' _ _ x (default, 0) 0 (by simp [h2, h1])]
  rw [C01B.getD_zipWith' _ ls idx default 0 (default, 0) h2.symm x h1]

theorem wOf_getD (ls : List Leg) (idx : List Nat) (x : Nat) (h1 : x < ls.length) (h2 : idx.length = ls.length) :
    (wOf ls idx).getD x 0 = ((ls.getD x default).locate (idx.getD x 0)).2 := by
  unfold wOf
  rw [getD_map' _ _ x (default, 0) 0 (by simp [h2, h1])]
  rw [C01B.getD_zipWith' _ ls idx default 0 (default, 0) h2.symm x h1]

theorem blockShapeOf_getD (ls : List Leg) (q : List Nat) (x : Nat) (h1 : x < ls.length) (h2 : q.length = ls.length) :
    (blockShapeOf ls q).getD x 0 = (ls.getD x default).blockSizes.getD (q.getD x 0) 0 := by
  unfold blockShapeOf
  rw [C01B.getD_zipWith' _ ls q default 0 0 h2.symm x h1]

theorem qOf_map {β} (L : List β) (g : β → Leg) (h : β → Nat) :
    qOf (L.map g) (L.map h) = L.map (fun s => ((g s).locate (h s)).1) := by
  induction L with
  | nil => rfl
  | cons x L ih => simp only [List.map_cons, qOf_cons, ih]

theorem wOf_map {β} (L : List β) (g : β → Leg) (h : β → Nat) :
    wOf (L.map g) (L.map h) = L.map (fun s => ((g s).locate (h s)).2) := by
  induction L with
  | nil => rfl
  | cons x L ih => simp only [List.map_cons, wOf_cons, ih]

theorem blockShapeOf_map {β} (L : List β) (g : β → Leg) (h : β → Nat) :
    blockShapeOf (L.map g) (L.map h) = L.map (fun s => (g s).blockSizes.getD (h s) 0) := by
  induction L with
  | nil => rfl
  | cons x L ih => simp only [List.map_cons, blockShapeOf_cons, ih]

theorem pick_qOf (ls : List Leg) (idx : List Nat) (c : List Nat) (hc : ∀ x ∈ c, x < ls.length)
    (h2 : idx.length = ls.length) : qOf (pick ls c default) (pick idx c 0) = pick (qOf ls idx) c 0 := by
  unfold pick
  rw [qOf_map]
  apply List.map_congr_left
  intro x hx
  rw [qOf_getD ls idx x (hc x hx) h2]

theorem pick_wOf (ls : List Leg) (idx : List Nat) (c : List Nat) (hc : ∀ x ∈ c, x < ls.length)
    (h2 : idx.length = ls.length) : wOf (pick ls c default) (pick idx c 0) = pick (wOf ls idx) c 0 := by
  unfold pick
  rw [wOf_map]
  apply List.map_congr_left
  intro x hx
  rw [wOf_getD ls idx x (hc x hx) h2]

theorem pick_blockShapeOf (ls : List Leg) (q : List Nat) (c : List Nat) (hc : ∀ x ∈ c, x < ls.length)
    (h2 : q.length = ls.length) :
    blockShapeOf (pick ls c default) (pick q c 0) = pick (blockShapeOf ls q) c 0 := by
  unfold pick
  rw [blockShapeOf_map]
  apply List.map_congr_left
  intro x hx
  rw [blockShapeOf_getD ls q x (hc x hx) h2]

/-! ### `InRange` of mapped lists -/

theorem InRange_map {β} (L : List β) (f g : β → Nat) (h : ∀ s ∈ L, f s < g s) : InRange (L.map f) (L.map g) := by
  induction L with
  | nil => trivial
  | cons x L ih => exact ⟨h x (by simp), ih (fun s hs => h s (by simp [hs]))⟩

theorem InRange_pick (idx S : List Nat) (h : InRange idx S) (c : List Nat) (hc : ∀ x ∈ c, x < S.length) :
    InRange (pick idx c 0) (pick S c 0) := by
  unfold pick
  apply InRange_map
  intro x hx
  exact h.getD_lt x (by rw [h.length_eq]; exact hc x hx)

end TenpyModel.C01B2.Comb
