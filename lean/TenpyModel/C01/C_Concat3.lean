import TenpyModel.C01.C_Concat2
/-!
C01 part C — `concatenate`, step 3: what the compatibility checks give (equal rank, equal slices off the axis,
shapes), and how block indices / offsets / block shapes of an operand embed into the result (`Emb`): the legs off
the axis have the slices of the first operand's legs, the leg on the axis is embedded into the concatenated leg at
flat offset `off` and block offset `shift`.
-/
namespace TenpyModel.C01C.Cat
open TenpyModel.Core TenpyModel.C01B

variable {α : Type}

theorem qOf_eq_qidx (ls : List Leg) (idx : List Nat) : qOf ls idx = Arr.qidx ls idx := by
  unfold qOf Arr.qidx
  rw [List.map_zipWith]

theorem wOf_eq_widx (ls : List Leg) (idx : List Nat) : wOf ls idx = Arr.widx ls idx := by
  unfold wOf Arr.widx
  rw [List.map_zipWith]

theorem locate_congr (l l' : Leg) (h : l.slices = l'.slices) (x : Nat) : l.locate x = l'.locate x := by
  unfold Leg.locate
  rw [h]

theorem blockSizes_congr (l l' : Leg) (h : l.slices = l'.slices) : l.blockSizes = l'.blockSizes := by
  unfold Leg.blockSizes
  rw [h]

theorem indLen_congr (l l' : Leg) (h : l.slices = l'.slices) : l.indLen = l'.indLen := by
  unfold Leg.indLen
  rw [h]

theorem blockNumber_congr (l l' : Leg) (hl : l.Shape) (hl' : l'.Shape) (h : l.slices = l'.slices) :
    l.blockNumber = l'.blockNumber := by
  have h1 := hl.len
  have h2 := hl'.len
  rw [h] at h1
  unfold Leg.blockNumber
  omega

/-! ### consequences of the checks -/

theorem testEqual_slices (a b : Leg) (h : a.testEqual b = true) : a.slices = b.slices := by
  unfold Leg.testEqual Leg.eq? at h
  split at h
  · simp at h
  · simp only [beq_iff_eq, Option.some.injEq, Bool.and_eq_true] at h
    exact h.1

theorem legsEqual_pick (xs ys : List Leg) (is : List Nat)
    (h : Arr.legsEqual (pick xs is default) (pick ys is default) = true) :
    ∀ m ∈ is, (xs.getD m default).testEqual (ys.getD m default) = true := by
  induction is with
  | nil => intro m hm; simp at hm
  | cons i is ih =>
    unfold Arr.legsEqual pick at h ih
    simp only [List.map_cons, List.zipWith_cons_cons, List.all_cons, Bool.and_eq_true, id] at h
    intro m hm
    rcases List.mem_cons.1 hm with rfl | hm
    · exact h.1
    · exact ih h.2 m hm

theorem mem_notAxis (first : Arr α) (k m : Nat) : m ∈ notAxis first k ↔ m < first.rank ∧ m ≠ k := by
  unfold notAxis
  simp

/-- legs off the axis pass `test_equal` with those of the first operand -/
theorem Compat.testEqual {first a : Arr α} {k : Nat} (h : Compat first k a) (m : Nat) (hm : m < first.rank)
    (hmk : m ≠ k) : (a.lcs.getD m default).testEqual (first.lcs.getD m default) = true :=
  legsEqual_pick _ _ _ h.2.2.2 m ((mem_notAxis first k m).2 ⟨hm, hmk⟩)

theorem Compat.slices {first a : Arr α} {k : Nat} (h : Compat first k a) (m : Nat) (hm : m < first.rank)
    (hmk : m ≠ k) : (a.lcs.getD m default).slices = (first.lcs.getD m default).slices :=
  testEqual_slices _ _ (h.testEqual m hm hmk)

/-- operands that have the axis have the rank of the first operand -/
theorem Compat.rank_eq {first a : Arr α} {k : Nat} (h : Compat first k a) (hk : k < first.rank) (hka : k < a.rank) :
    a.rank = first.rank := by
  have := congrArg List.length h.1.2
  rw [List.length_drop, List.length_drop, Arr.shape_length, Arr.shape_length] at this
  omega

/-- the rank is forced by the shape check unless the axis is the last one -/
theorem Compat.rank_eq_of_not_last {first a : Arr α} {k : Nat} (h : Compat first k a) (hk : k + 1 < first.rank) :
    a.rank = first.rank := by
  have := congrArg List.length h.1.2
  rw [List.length_drop, List.length_drop, Arr.shape_length, Arr.shape_length] at this
  omega

theorem shape_getD (a : Arr α) (m : Nat) (hm : m < a.rank) : a.shape.getD m 0 = (a.lc m).indLen := by
  unfold Arr.shape
  rw [getD_map' Leg.indLen a.lcs m default 0 (by rw [Arr.lcs_length]; exact hm), Arr.lc_eq a m hm]

/-- shape of an operand = shape of the first operand with the own length on the axis -/
theorem Compat.shape_eq {first a : Arr α} {k : Nat} (h : Compat first k a) (hr : a.rank = first.rank) :
    a.shape = first.shape.set k (a.lc k).indLen := by
  apply ext_getD _ _ 0 (by rw [List.length_set, Arr.shape_length, Arr.shape_length, hr])
  intro m hm
  rw [Arr.shape_length] at hm
  rw [shape_getD a m hm]
  by_cases hmk : k = m
  · subst hmk
    rw [getD_set_eq_pj _ _ _ _ (by rw [Arr.shape_length, ← hr]; exact hm)]
  · rw [getD_set_ne_pj _ _ _ _ _ hmk, shape_getD first m (by rw [← hr]; exact hm), ← Arr.lc_eq a m hm,
      ← Arr.lc_eq first m (by rw [← hr]; exact hm)]
    exact indLen_congr _ _ (h.slices m (by rw [← hr]; exact hm) (fun e => hmk e.symm))

/-! ### embedding of an operand's indices into the result -/

/-- `al` = legs of an operand, `fl` = legs of the first operand, `N` = leg of the result on axis `k` -/
structure Emb (fl al : List Leg) (k : Nat) (N : Leg) (off shift : Nat) : Prop where
  len : al.length = fl.length
  hk : k < fl.length
  sl : ∀ m, m < fl.length → m ≠ k → (al.getD m default).slices = (fl.getD m default).slices
  loc : ∀ x, x < (al.getD k default).indLen →
    N.locate (off + x) = (shift + ((al.getD k default).locate x).1, ((al.getD k default).locate x).2)
  bs : ∀ q, q < (al.getD k default).blockNumber →
    N.blockSizes.getD (shift + q) 0 = (al.getD k default).blockSizes.getD q 0

namespace Emb
variable {fl al : List Leg} {k : Nat} {N : Leg} {off shift : Nat}

theorem idx_k_lt (e : Emb fl al k N off shift) (idx : List Nat) (hi : InRange idx (al.map Leg.indLen)) :
    idx.getD k 0 < (al.getD k default).indLen := by
  have := hi.getD_lt' k (by rw [List.length_map, e.len]; exact e.hk)
  rwa [getD_map' Leg.indLen al k default 0 (by rw [e.len]; exact e.hk)] at this

theorem idx_len (e : Emb fl al k N off shift) (idx : List Nat) (hi : InRange idx (al.map Leg.indLen)) :
    idx.length = fl.length := by rw [hi.length_eq, List.length_map, e.len]

/-- block indices: the one on the axis is shifted -/
theorem qidx_eq (e : Emb fl al k N off shift) (idx : List Nat) (hi : InRange idx (al.map Leg.indLen)) :
    Arr.qidx (fl.set k N) (idx.set k (off + idx.getD k 0)) = shiftRow k shift (Arr.qidx al idx) := by
  have hl := e.idx_len idx hi
  have hql : (Arr.qidx al idx).length = al.length := Arr.qidx_length _ _ (by rw [hl, e.len])
  apply ext_getD _ _ 0
  · unfold shiftRow
    rw [Arr.qidx_length _ _ (by rw [List.length_set, List.length_set, hl]), List.length_set, List.length_set, hql, e.len]
  · intro m hm
    rw [Arr.qidx_length _ _ (by rw [List.length_set, List.length_set, hl]), List.length_set] at hm
    rw [Arr.qidx_getD _ _ m (by rw [List.length_set]; exact hm) (by rw [List.length_set, hl]; exact hm)]
    unfold shiftRow
    by_cases hmk : k = m
    · subst hmk
      rw [getD_set_eq_pj _ _ _ _ hm, getD_set_eq_pj _ _ _ _ (by rw [hl]; exact hm),
        getD_set_eq_pj _ _ _ _ (by rw [hql, e.len]; exact hm), e.loc _ (e.idx_k_lt idx hi),
        Arr.qidx_getD _ _ k (by rw [e.len]; exact hm) (by rw [hl]; exact hm)]
      exact Nat.add_comm _ _
    · rw [getD_set_ne_pj _ _ _ _ _ hmk, getD_set_ne_pj _ _ _ _ _ hmk, getD_set_ne_pj _ _ _ _ _ hmk,
        Arr.qidx_getD _ _ m (by rw [e.len]; exact hm) (by rw [hl]; exact hm),
        locate_congr _ _ (e.sl m hm (fun h => hmk h.symm))]

/-- offsets inside the blocks are unchanged -/
theorem widx_eq (e : Emb fl al k N off shift) (idx : List Nat) (hi : InRange idx (al.map Leg.indLen)) :
    Arr.widx (fl.set k N) (idx.set k (off + idx.getD k 0)) = Arr.widx al idx := by
  have hl := e.idx_len idx hi
  have hwl : (Arr.widx al idx).length = al.length := Arr.widx_length _ _ (by rw [hl, e.len])
  apply ext_getD _ _ 0
  · rw [Arr.widx_length _ _ (by rw [List.length_set, List.length_set, hl]), List.length_set, hwl, e.len]
  · intro m hm
    rw [Arr.widx_length _ _ (by rw [List.length_set, List.length_set, hl]), List.length_set] at hm
    rw [Arr.widx_getD _ _ m (by rw [List.length_set]; exact hm) (by rw [List.length_set, hl]; exact hm),
      Arr.widx_getD _ _ m (by rw [e.len]; exact hm) (by rw [hl]; exact hm)]
    by_cases hmk : k = m
    · subst hmk
      rw [getD_set_eq_pj _ _ _ _ hm, getD_set_eq_pj _ _ _ _ (by rw [hl]; exact hm), e.loc _ (e.idx_k_lt idx hi)]
    · rw [getD_set_ne_pj _ _ _ _ _ hmk, getD_set_ne_pj _ _ _ _ _ hmk,
        locate_congr _ _ (e.sl m hm (fun h => hmk h.symm))]

/-- block shapes of shifted rows -/
theorem blockShape_eq (e : Emb fl al k N off shift) (row : List Nat) (hrl : row.length = al.length)
    (hrk : row.getD k 0 < (al.getD k default).blockNumber) :
    blockShapeOf (fl.set k N) (shiftRow k shift row) = blockShapeOf al row := by
  unfold shiftRow
  apply ext_getD _ _ 0
  · rw [Arr.blockShapeOf_length_pj _ _ (by rw [List.length_set, List.length_set, hrl, e.len]), List.length_set,
      Arr.blockShapeOf_length_pj _ _ hrl, e.len]
  · intro m hm
    rw [Arr.blockShapeOf_length_pj _ _ (by rw [List.length_set, List.length_set, hrl, e.len]), List.length_set] at hm
    rw [Arr.blockShapeOf_getD_pj _ _ m (by rw [List.length_set]; exact hm) (by rw [List.length_set, hrl, e.len]; exact hm),
      Arr.blockShapeOf_getD_pj _ _ m (by rw [e.len]; exact hm) (by rw [hrl, e.len]; exact hm)]
    by_cases hmk : k = m
    · subst hmk
      rw [getD_set_eq_pj _ _ _ _ hm, getD_set_eq_pj _ _ _ _ (by rw [hrl, e.len]; exact hm), Nat.add_comm,
        e.bs _ hrk]
    · rw [getD_set_ne_pj _ _ _ _ _ hmk, getD_set_ne_pj _ _ _ _ _ hmk,
        blockSizes_congr _ _ (e.sl m hm (fun h => hmk h.symm))]

end Emb

end TenpyModel.C01C.Cat
