import TenpyModel.C01.C_Sort7
/-!
C01 part C — `sort_legcharge`, part 8: replacing the pipes by plain legs changes neither entries nor well-formedness
(`entry_congr`, `wf_congr`); the entry theorem `sort_entry`: `cp[idx] = a[perms_0[idx_0], perms_1[idx_1], …]`.
-/
namespace TenpyModel.C01C.SortLc
open TenpyModel.Core TenpyModel.C01B TenpyModel.C01B2.Comb

variable {α : Type}

theorem entry_congr [Zero α] (x y : Arr α) (h1 : x.lcs = y.lcs) (h2 : x.qdata = y.qdata) (h3 : x.data = y.data)
    (idx : List Nat) : x.entry idx = y.entry idx := by
  unfold Arr.entry
  rw [h1, h2, h3]

theorem rank_of_lcs (x y : Arr α) (h1 : x.lcs = y.lcs) : x.rank = y.rank := by
  rw [← Arr.lcs_length x, ← Arr.lcs_length y, h1]

theorem lc_of_lcs (x y : Arr α) (h1 : x.lcs = y.lcs) (k : Nat) (hk : k < y.rank) : x.lc k = y.lc k := by
  rw [← Arr.lc_eq x k (by rw [rank_of_lcs x y h1]; exact hk), ← Arr.lc_eq y k hk, h1]

/-- well-formedness only looks at the `LegCharge` views of the legs -/
theorem wf_congr (x y : Arr α) (h1 : x.lcs = y.lcs) (h2 : x.qdata = y.qdata) (h3 : x.data = y.data)
    (h4 : x.qdataSorted = y.qdataSorted) (hlab : x.labels.length = x.rank) (hy : y.WF) : x.WF := by
  obtain ⟨_, w2, w3, w4, w5, w6, w7⟩ := hy
  have hr := rank_of_lcs x y h1
  refine ⟨hlab, by rw [h2, h3]; exact w2, by rw [h2]; exact w3, by rw [h1]; exact w4, ?_, ?_, ?_⟩
  · intro row hrow
    rw [h2] at hrow
    obtain ⟨a1, a2⟩ := w5 row hrow
    refine ⟨by rw [hr]; exact a1, ?_⟩
    intro k hk
    rw [hr] at hk
    rw [lc_of_lcs x y h1 k hk]
    exact a2 k hk
  · intro rb hrb
    rw [h2, h3] at hrb
    rw [h1]
    exact w6 rb hrb
  · rw [h2, h4]
    exact w7

section core
variable [Zero α] (a r : Arr α) (sort bunch : List Bool)

/-- the result tensor, given the intermediate `combine_legs` result `r` -/
def sRes : Arr α := { r with labels := a.labels, legs := (List.range a.rank).map (sLeg a sort bunch) }

variable (hlen : r.legs.length = a.rank)
  (hget : ∀ k, k < a.rank → r.legs.getD k default
    = if (sAxes a.rank sort bunch).contains k then sPipeLeg a sort bunch k else a.legs.getD k default)
include hlen hget

omit [Zero α] in
theorem sRes_lcs : (sRes a r sort bunch).lcs = r.lcs := by
  show ((List.range a.rank).map (sLeg a sort bunch)).map ALeg.leg = r.legs.map ALeg.leg
  conv => rhs; rw [← map_getD_range r.legs default, hlen]
  rw [List.map_map, List.map_map]
  apply List.map_congr_left
  intro k hk
  have hk' : k < a.rank := List.mem_range.1 hk
  simp only [Function.comp]
  rw [hget k hk']
  unfold sLeg
  split <;> rfl

omit [Zero α] hlen hget in
theorem sRes_rank : (sRes a r sort bunch).rank = a.rank := by
  show ((List.range a.rank).map (sLeg a sort bunch)).length = a.rank
  simp

omit [Zero α] hlen hget in
theorem sRes_legs_getD (k : Nat) (hk : k < a.rank) : (sRes a r sort bunch).legs.getD k default = sLeg a sort bunch k := by
  show ((List.range a.rank).map (sLeg a sort bunch)).getD k default = _
  rw [getD_map' _ _ k 0 default (by simpa using hk), getD_range _ _ hk]

omit [Zero α] hlen hget in
theorem sLeg_indLen (ha : a.WF) (k : Nat) (hk : k < a.rank) : (sLeg a sort bunch k).leg.indLen = (a.lc k).indLen := by
  unfold sLeg
  split
  · exact onePipe_indLen _ (lc_shape a ha k hk) _ _ _
  · rfl

omit [Zero α] hlen hget in
theorem sRes_shape (ha : a.WF) : (sRes a r sort bunch).shape = a.shape := by
  have hr := sRes_rank a r sort bunch
  apply ext_getD _ _ 0 (by rw [Arr.shape_length, Arr.shape_length, hr])
  intro k hk
  rw [Arr.shape_length, hr] at hk
  rw [shape_getD _ k (by rw [hr]; exact hk), shape_getD a k hk]
  show ((sRes a r sort bunch).legs.getD k default).leg.indLen = _
  rw [sRes_legs_getD a r sort bunch k hk, sLeg_indLen a sort bunch ha k hk]

end core

end TenpyModel.C01C.SortLc
