import TenpyModel.C01.A_Merge4
/-!
C01 — the merge loop of `ibinary_blockwise`, part 5: `isort_qdata` keeps a tensor well formed, and the body of
`ibinary_blockwise` after the label transposition (`binaryCheck`, `isort_qdata` of both operands, `mergeBlocks`)
computes the entry-wise `f` on the dense forms (`toDense_ibinaryCore`).
-/
namespace TenpyModel.Core.Arr
variable {α : Type}

/-- a tensor over the same legs whose block list is a permutation of the block list of a well-formed tensor -/
theorem WF_of_perm (a a' : Arr α) (ha : a.WF) (hlegs : a'.legs = a.legs) (hlab : a'.labels = a.labels)
    (hlen : a'.qdata.length = a'.data.length) (hp : (a'.qdata.zip a'.data).Perm (a.qdata.zip a.data))
    (hsorted : a'.qdataSorted = true → isLexsorted a'.qdata = true) : a'.WF := by
  have hq : a'.qdata.Perm a.qdata := by
    have := hp.map Prod.fst
    rwa [List.map_fst_zip (Nat.le_of_eq hlen), List.map_fst_zip (Nat.le_of_eq ha.2.1)] at this
  unfold Arr.WF Arr.rank Arr.lc Arr.lcs
  rw [hlegs, hlab]
  exact ⟨ha.1, hlen, hq.nodup_iff.2 ha.2.2.1, ha.2.2.2.1, fun r hr => ha.2.2.2.2.1 r (hq.mem_iff.1 hr),
    fun rb hrb => ha.2.2.2.2.2.1 rb (hp.mem_iff.1 hrb), hsorted⟩

theorem isortQdata_fields (a : Arr α) : a.isortQdata.legs = a.legs ∧ a.isortQdata.labels = a.labels := by
  unfold isortQdata
  split
  · exact ⟨rfl, rfl⟩
  · split <;> exact ⟨rfl, rfl⟩

theorem isortQdata_perm (a : Arr α) (hlen : a.qdata.length = a.data.length) :
    a.isortQdata.qdata.length = a.isortQdata.data.length
    ∧ (a.isortQdata.qdata.zip a.isortQdata.data).Perm (a.qdata.zip a.data) := by
  unfold isortQdata
  split
  · exact ⟨hlen, List.Perm.refl _⟩
  · split
    · exact ⟨hlen, List.Perm.refl _⟩
    · refine ⟨by simp [pick], ?_⟩
      have hperm : (lexsortNat a.qdata).Perm (List.range (a.qdata.zip a.data).length) := by
        have := lexsort_perm (natRows a.qdata)
        simpa [lexsortNat, natRows_length, List.length_zip, hlen] using this
      show ((pick a.qdata (lexsortNat a.qdata) []).zip (pick a.data (lexsortNat a.qdata) ⟨[], []⟩)).Perm _
      rw [pick_eq_take?, pick_eq_take?, zip_take? _ _ _ _ hlen]
      exact take?_perm' _ _ _ hperm

/-- after `isort_qdata` the block list is lexsorted, provided the old cached claim was truthful -/
theorem isortQdata_sorted (a : Arr α) (htruth : a.qdataSorted = true → isLexsorted a.qdata = true) :
    isLexsorted a.isortQdata.qdata = true := by
  unfold isortQdata
  split
  · rename_i hs
    exact htruth hs
  · split
    · rename_i _ hshort
      exact isLexsorted_short _ hshort
    · exact isLexsorted_take?_lexsort a.qdata

/-- `isort_qdata` keeps a tensor well formed -/
theorem WF_isortQdata (a : Arr α) (ha : a.WF) : a.isortQdata.WF :=
  WF_of_perm a a.isortQdata ha (isortQdata_fields a).1 (isortQdata_fields a).2 (isortQdata_perm a ha.2.1).1
    (isortQdata_perm a ha.2.1).2 (fun _ => isortQdata_sorted a ha.2.2.2.2.2.2)

/-- **The body of `ibinary_blockwise` after the label transposition**: both operands are lexsorted
(`isort_qdata`) and merged; the result is the entry-wise `f` of the dense forms, and the operand keeps its
dense form. Hypotheses: both operands well formed, the argument checks of the code pass, `f 0 0 = 0`. -/
theorem toDense_ibinaryCore [Zero α] (f : α → α → α) (hf : f 0 0 = 0) (a b : Arr α)
    (ha : a.WF) (hb : b.WF) (hchk : binaryCheck a b = .ok ()) :
    ({ a.isortQdata with
         qdata := (mergeBlocks f a.blockNumbers a.isortQdata.qdata a.isortQdata.data b.isortQdata.qdata b.isortQdata.data).1,
         data  := (mergeBlocks f a.blockNumbers a.isortQdata.qdata a.isortQdata.data b.isortQdata.qdata b.isortQdata.data).2 } : Arr α).toDense
      = Dense.zipWith f a.toDense b.toDense
    ∧ b.isortQdata.toDense = b.toDense := by
  obtain ⟨_, hs, _⟩ := of_binaryCheck a b hchk
  have hA1 := (C01_isort_qdata a ha.2.1 ha.2.2.1 ha.2.2.2.2.2.2).1
  have hB1 := (C01_isort_qdata b hb.2.1 hb.2.2.1 hb.2.2.2.2.2.2).1
  have hAl := (isortQdata_fields a).1
  have hBl := (isortQdata_fields b).1
  have hAbn : a.isortQdata.blockNumbers = a.blockNumbers := by
    unfold Arr.blockNumbers Arr.lcs
    rw [hAl]
  have hs' : a.isortQdata.lcs.map Leg.slices = b.isortQdata.lcs.map Leg.slices := by
    unfold Arr.lcs
    rw [hAl, hBl]
    exact hs
  have := toDense_mergeBlocks f hf a.isortQdata b.isortQdata (WF_isortQdata a ha) (WF_isortQdata b hb) hs'
    (isortQdata_sorted a ha.2.2.2.2.2.2) (isortQdata_sorted b hb.2.2.2.2.2.2)
  rw [hAbn, hA1, hB1] at this
  exact ⟨this, hB1⟩

/-- the result of the body of `ibinary_blockwise` is well formed (with the cached claim `_qdata_sorted = True`
of the sorted `self` being truthful) -/
theorem WF_ibinaryCore [Zero α] (f : α → α → α) (a b : Arr α)
    (ha : a.WF) (hb : b.WF) (hchk : binaryCheck a b = .ok ()) :
    ({ a.isortQdata with
         qdata := (mergeBlocks f a.blockNumbers a.isortQdata.qdata a.isortQdata.data b.isortQdata.qdata b.isortQdata.data).1,
         data  := (mergeBlocks f a.blockNumbers a.isortQdata.qdata a.isortQdata.data b.isortQdata.qdata b.isortQdata.data).2 } : Arr α).WF
    ∧ b.isortQdata.WF := by
  obtain ⟨_, hs, _⟩ := of_binaryCheck a b hchk
  have hAl := (isortQdata_fields a).1
  have hBl := (isortQdata_fields b).1
  have hAbn : a.isortQdata.blockNumbers = a.blockNumbers := by
    unfold Arr.blockNumbers Arr.lcs
    rw [hAl]
  have hs' : a.isortQdata.lcs.map Leg.slices = b.isortQdata.lcs.map Leg.slices := by
    unfold Arr.lcs
    rw [hAl, hBl]
    exact hs
  have := WF_mergeBlocks f a.isortQdata b.isortQdata (WF_isortQdata a ha) (WF_isortQdata b hb) hs'
    (isortQdata_sorted a ha.2.2.2.2.2.2) (isortQdata_sorted b hb.2.2.2.2.2.2) a.isortQdata.qdataSorted
  rw [hAbn] at this
  exact ⟨this, WF_isortQdata b hb⟩

end TenpyModel.Core.Arr

/-! ### non-vacuity: U(1)×Z₃, duplicate sectors on both legs, different stored rows, a missing block, `qtotal ≠ 0` -/

namespace TenpyModel.Core.C01CoreExample
def legA : Leg := ⟨[1, 3], [0, 1, 3, 4], [[0, 1], [1, 2], [0, 1]], 1, false, false⟩    -- duplicate sector [0,1]
def legB : Leg := ⟨[1, 3], [0, 2, 3, 4], [[1, 0], [0, 1], [1, 0]], -1, false, false⟩   -- duplicate sector [1,0]
/-- blocks of charge `qtotal = (-1, 1)`: (0,0), (2,0), (0,2), (2,2). `a` stores (2,0), (0,0) — not lexsorted;
`b` stores (0,0), (2,2); block (0,2) is stored by neither -/
def a : Arr Int :=
  { mods := [1, 3], legs := [.plain legA, .plain legB], qtotal := [-1, 1], labels := [some "a", some "b*"],
    qdata := [[2, 0], [0, 0]], data := [⟨[1, 2], [5, -7]⟩, ⟨[1, 2], [1, 2]⟩], qdataSorted := false }
def b : Arr Int :=
  { mods := [1, 3], legs := [.plain legA, .plain legB], qtotal := [-1, 1], labels := [some "a", some "b*"],
    qdata := [[0, 0], [2, 2]], data := [⟨[1, 2], [10, 20]⟩, ⟨[1, 1], [3]⟩], qdataSorted := true }
/-- the new `self` of `a.ibinary_blockwise(np.add, b)` -/
def merged : Arr Int :=
  { a.isortQdata with
      qdata := (Arr.mergeBlocks (· + ·) a.blockNumbers a.isortQdata.qdata a.isortQdata.data b.isortQdata.qdata b.isortQdata.data).1,
      data  := (Arr.mergeBlocks (· + ·) a.blockNumbers a.isortQdata.qdata a.isortQdata.data b.isortQdata.qdata b.isortQdata.data).2 }

/-- the hypotheses of `toDense_ibinaryCore` hold -/
example : a.WF ∧ b.WF := by decide
theorem check_ok : Arr.binaryCheck a b = .ok () := by rfl
/-- the general branch `aq ≠ bq` of `mergeBlocks` is taken -/
example : a.isortQdata.qdata = [[0, 0], [2, 0]] ∧ b.isortQdata.qdata = [[0, 0], [2, 2]] := by decide

/-- the keyed block lists the loop runs over (F-style keys 0, 2 and 0, 8) -/
theorem keyed_a : (a.isortQdata.qdata.zip a.isortQdata.data).map (Arr.toK (Arr.fKey a.blockNumbers))
    = [(0, [0, 0], ⟨[1, 2], [1, 2]⟩), (2, [2, 0], ⟨[1, 2], [5, -7]⟩)] := by decide
theorem keyed_b : (b.isortQdata.qdata.zip b.isortQdata.data).map (Arr.toK (Arr.fKey a.blockNumbers))
    = [(0, [0, 0], ⟨[1, 2], [10, 20]⟩), (8, [2, 2], ⟨[1, 1], [3]⟩)] := by decide

/-- the merge: one block of both, one of `a` only, one of `b` only (`mergeGo` is defined by well-founded
recursion, which `decide` cannot unfold: the loop is run with its equation lemmas) -/
theorem mergeBlocks_eval :
    Arr.mergeBlocks (· + ·) a.blockNumbers a.isortQdata.qdata a.isortQdata.data b.isortQdata.qdata b.isortQdata.data
      = ([[0, 0], [2, 0], [2, 2]], [⟨[1, 2], [11, 22]⟩, ⟨[1, 2], [5, -7]⟩, ⟨[1, 1], [3]⟩]) := by
  rw [Arr.mergeBlocks_general _ _ _ _ _ _ (by decide)]
  unfold Arr.mg
  rw [keyed_a, keyed_b]
  simp [Arr.mergeGo, Dense.zipWith, Dense.map]

theorem merged_eq : merged = { a.isortQdata with
    qdata := [[0, 0], [2, 0], [2, 2]], data := [⟨[1, 2], [11, 22]⟩, ⟨[1, 2], [5, -7]⟩, ⟨[1, 1], [3]⟩] } := by
  unfold merged
  rw [mergeBlocks_eval]

example : merged.toDense = ⟨[4, 4], [11, 22, 0, 0, 0, 0, 0, 0, 0, 0, 0, 0, 5, -7, 0, 3]⟩ := by
  rw [merged_eq]
  decide
example : Dense.zipWith (· + ·) a.toDense b.toDense
    = ⟨[4, 4], [11, 22, 0, 0, 0, 0, 0, 0, 0, 0, 0, 0, 5, -7, 0, 3]⟩ := by decide
/-- the theorems instantiated -/
example : merged.toDense = Dense.zipWith (· + ·) a.toDense b.toDense :=
  (Arr.toDense_ibinaryCore (· + ·) rfl a b (by decide) (by decide) check_ok).1
example : merged.WF := (Arr.WF_ibinaryCore (· + ·) a b (by decide) (by decide) check_ok).1
end TenpyModel.Core.C01CoreExample

