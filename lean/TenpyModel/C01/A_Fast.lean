import TenpyModel.C01.A_Entry
/-!
C01 part A — `Arr.toDenseFast` (what the driver of `./check C01` computes: the blocks are written into a zero
array) equals `Arr.toDense` (the entry-wise definition all theorems are about) for every well-formed tensor.
-/
namespace TenpyModel.Core

/-! ### writing into a list -/

theorem foldl_set_length {β} (W : List (Nat × β)) (l0 : List β) :
    (W.foldl (fun l pv => l.set pv.1 pv.2) l0).length = l0.length := by
  induction W generalizing l0 with
  | nil => rfl
  | cons pv W ih => rw [List.foldl_cons, ih, List.length_set]

/-- after a sequence of writes, position `j` holds the value of the last write to `j` (or the old value) -/
theorem foldl_set_getD {β} (W : List (Nat × β)) (l0 : List β) (j : Nat) (d : β) (hj : j < l0.length) :
    (W.foldl (fun l pv => l.set pv.1 pv.2) l0).getD j d
      = match W.reverse.find? (fun pv => pv.1 == j) with
        | some pv => pv.2
        | none => l0.getD j d := by
  induction W generalizing l0 with
  | nil => rfl
  | cons pv W ih =>
    rw [List.foldl_cons, ih (l0.set pv.1 pv.2) (by rw [List.length_set]; exact hj), List.reverse_cons,
      List.find?_append]
    cases hf : W.reverse.find? (fun pv => pv.1 == j) with
    | some qv => rfl
    | none =>
      simp only [Option.none_or, List.find?_cons, List.find?_nil]
      by_cases hp : pv.1 = j
      · have hb : (pv.1 == j) = true := by simp [hp]
        rw [hb]
        simp only
        rw [hp, List.getD_eq_getElem?_getD, List.getElem?_set_self hj]
        rfl
      · have hb : (pv.1 == j) = false := by simp [hp]
        rw [hb]
        simp only
        rw [List.getD_eq_getElem?_getD, List.getElem?_set_ne hp, ← List.getD_eq_getElem?_getD]

theorem foldl_setIfInBounds_toList {β γ} (L : List γ) (p : γ → Nat) (v : γ → β) (arr : Array β) :
    (L.foldl (fun (arr : Array β) x => arr.setIfInBounds (p x) (v x)) arr).toList
      = L.foldl (fun l x => l.set (p x) (v x)) arr.toList := by
  induction L generalizing arr with
  | nil => rfl
  | cons x L ih => rw [List.foldl_cons, List.foldl_cons, ih, Array.toList_setIfInBounds]

theorem foldl_toList_congr {β γ} (L : List γ) (f : Array β → γ → Array β) (g : List β → γ → List β)
    (h : ∀ arr x, (f arr x).toList = g arr.toList x) (arr : Array β) :
    (L.foldl f arr).toList = L.foldl g arr.toList := by
  induction L generalizing arr with
  | nil => rfl
  | cons x L ih => rw [List.foldl_cons, List.foldl_cons, ih, h]

theorem foldl_flatMap_eq {β γ δ} (L : List γ) (ws : γ → List δ) (f : β → δ → β) (b : β) :
    L.foldl (fun acc x => (ws x).foldl f acc) b = (L.flatMap ws).foldl f b := by
  induction L generalizing b with
  | nil => rfl
  | cons x L ih => rw [List.foldl_cons, List.flatMap_cons, List.foldl_append, ih]

/-! ### strides are linear -/

theorem dot_zipWith_add (s w st : List Nat) (h : s.length = w.length) :
    dot (List.zipWith (· + ·) s w) st = dot s st + dot w st := by
  induction s generalizing w st with
  | nil => cases w with
    | nil => simp
    | cons _ _ => simp at h
  | cons x s ih =>
    cases w with
    | nil => simp at h
    | cons y w =>
      cases st with
      | nil => simp
      | cons c st =>
        simp only [List.zipWith_cons_cons, dot_cons]
        rw [ih w st (by simpa using h), Nat.add_mul]
        omega

/-! ### the pairs (multi-index, value) of a complete block -/

theorem mem_zip_allIdx {β} (S : List Nat) (vals : List β) (d : β) (hv : vals.length = Dense.prod S) (w : List Nat)
    (x : β) : (w, x) ∈ (Dense.allIdx S).zip vals ↔ InRange w S ∧ x = vals.getD (Dense.flatIdx S w) d := by
  rw [Dense.allIdx_eq_gridC]
  have hlen : (gridC S).length = vals.length := by rw [gridC_length, hv, Dense.prod_eq]
  constructor
  · intro hm
    obtain ⟨k, hk, he⟩ := List.getElem_of_mem hm
    have hk1 : k < (gridC S).length := by
      rw [List.length_zip] at hk; omega
    have hk2 : k < vals.length := by rw [← hlen]; exact hk1
    rw [List.getElem_zip] at he
    injection he with he1 he2
    have hj := gridC_index S k hk1
    rw [getD_lt _ _ _ hk1, he1] at hj
    refine ⟨hj.2, ?_⟩
    rw [Dense.flatIdx_eq, hj.1, getD_lt _ _ _ hk2, he2]
  · rintro ⟨hw, hx⟩
    have hlt := dot_stride_lt w S hw
    rw [← gridC_length] at hlt
    have hk2 : dot w (makeStrideC S) < vals.length := by rw [← hlen]; exact hlt
    have hz : dot w (makeStrideC S) < ((gridC S).zip vals).length := by
      rw [List.length_zip]; omega
    have : ((gridC S).zip vals)[dot w (makeStrideC S)]'hz = (w, x) := by
      rw [List.getElem_zip]
      have h1 := gridC_getD w S hw
      rw [getD_lt _ _ _ hlt] at h1
      rw [h1, hx, Dense.flatIdx_eq, getD_lt _ _ _ hk2]
    rw [← this]
    exact List.getElem_mem hz

/-! ### block start + offset ↔ (block index, offset) -/

theorem blockStartOf_cons (l : Leg) (ls : List Leg) (q : Nat) (qs : List Nat) :
    blockStartOf (l :: ls) (q :: qs) = l.slices.getD q 0 :: blockStartOf ls qs := rfl

theorem start_add_spec (lcs : List Leg) (hl : ∀ l ∈ lcs, l.ShapeOK) (r w : List Nat)
    (hr : InRange r (lcs.map Leg.blockNumber)) (hw : InRange w (blockShapeOf lcs r)) :
    InRange (List.zipWith (· + ·) (blockStartOf lcs r) w) (lcs.map Leg.indLen)
      ∧ Arr.qidx lcs (List.zipWith (· + ·) (blockStartOf lcs r) w) = r
      ∧ Arr.widx lcs (List.zipWith (· + ·) (blockStartOf lcs r) w) = w := by
  induction lcs generalizing r w with
  | nil =>
    cases r with
    | nil => cases w with
      | nil => exact ⟨trivial, rfl, rfl⟩
      | cons _ _ => exact hw.elim
    | cons _ _ => exact hr.elim
  | cons l ls ih =>
    cases r with
    | nil => exact hr.elim
    | cons q qs =>
      cases w with
      | nil => exact hw.elim
      | cons x xs =>
        have hs := (hl l (by simp)).shape
        obtain ⟨h1, h2, h3⟩ := ih (fun m hm => hl m (by simp [hm])) qs xs hr.2 hw.2
        have hq : q < l.blockNumber := hr.1
        have hx : x < l.blockSizes.getD q 0 := hw.1
        have hloc := Leg.locate_block hs q x hq hx
        have hsucc := hs.slices_succ q hq
        have hlast : l.slices.getD (q + 1) 0 ≤ l.indLen := by
          rw [hs.indLen_eq_getD]
          have hbn : l.blockNumber = l.charges.length := rfl
          exact mono_getD l.slices hs.mono (q + 1) l.blockNumber (by omega) (by rw [hs.len]; omega)
        rw [blockStartOf_cons, List.zipWith_cons_cons, List.map_cons, Arr.qidx_cons, Arr.widx_cons, hloc, h2, h3]
        exact ⟨⟨by omega, h1⟩, rfl, rfl⟩

theorem start_add_qw (lcs : List Leg) (hl : ∀ l ∈ lcs, l.ShapeOK) (idx : List Nat)
    (h : InRange idx (lcs.map Leg.indLen)) :
    List.zipWith (· + ·) (blockStartOf lcs (Arr.qidx lcs idx)) (Arr.widx lcs idx) = idx := by
  induction lcs generalizing idx with
  | nil => cases idx with
    | nil => rfl
    | cons _ _ => exact h.elim
  | cons l ls ih =>
    cases idx with
    | nil => exact h.elim
    | cons i t =>
      have hs := (hl l (by simp)).shape
      rw [Arr.qidx_cons, Arr.widx_cons, blockStartOf_cons, List.zipWith_cons_cons,
        ih (fun m hm => hl m (by simp [hm])) t h.2, (Leg.locate_ok hs i h.1).2.2.2]

namespace Arr
variable {α : Type}

theorem WF.row_inRange {a : Arr α} (h : a.WF) (r : List Nat) (hr : r ∈ a.qdata) :
    InRange r (a.lcs.map Leg.blockNumber) := by
  obtain ⟨h1, h2⟩ := h.2.2.2.2.1 r hr
  apply InRange.of_getD _ _ (by rw [h1, List.length_map, lcs_length])
  intro k hk
  rw [List.length_map, lcs_length] at hk
  rw [getD_map' Leg.blockNumber a.lcs k default 0 (by rw [lcs_length]; exact hk), lc_eq a k hk]
  exact h2 k hk

/-- a stored block determines the entries over its index range -/
theorem entry_of_mem [Zero α] (a : Arr α) (ha : a.WF) (idx : List Nat) (b : Blk α)
    (hm : (qidx a.lcs idx, b) ∈ a.qdata.zip a.data) : a.entry idx = b.get 0 (widx a.lcs idx) := by
  rw [entry_eq]
  cases hf : (a.qdata.zip a.data).reverse.find? (fun rb => rb.1 == qidx a.lcs idx) with
  | none =>
    have := List.find?_eq_none.1 hf (qidx a.lcs idx, b) (List.mem_reverse.2 hm)
    simp at this
  | some rb =>
    have hmem : rb ∈ a.qdata.zip a.data := List.mem_reverse.1 (List.mem_of_find?_eq_some hf)
    have hkey : rb.1 = qidx a.lcs idx := by
      have := List.find?_some hf
      exact eq_of_beq this
    have := zip_fst_inj a.qdata a.data ha.2.2.1 rb hmem (qidx a.lcs idx, b) hm hkey
    rw [this]

theorem entry_of_not_mem [Zero α] (a : Arr α) (idx : List Nat)
    (hm : ∀ b, (qidx a.lcs idx, b) ∉ a.qdata.zip a.data) : a.entry idx = 0 := by
  rw [entry_eq]
  cases hf : (a.qdata.zip a.data).reverse.find? (fun rb => rb.1 == qidx a.lcs idx) with
  | none => rfl
  | some rb =>
    have hmem : rb ∈ a.qdata.zip a.data := List.mem_reverse.1 (List.mem_of_find?_eq_some hf)
    have hkey : rb.1 = qidx a.lcs idx := by
      have := List.find?_some hf
      exact eq_of_beq this
    exact absurd (by rw [← hkey]; exact hmem) (hm rb.2)

/-- all writes of `toDenseFast`: (flat position, value), block after block -/
def writes (a : Arr α) : List (Nat × α) :=
  (a.qdata.zip a.data).flatMap (fun rb =>
    (List.zip (Dense.allIdx rb.2.shape) rb.2.vals).map (fun iv =>
      (dot (blockStartOf a.lcs rb.1) (Dense.strides a.shape) + dot iv.1 (Dense.strides a.shape), iv.2)))

theorem toDenseFast_eq_writes [Zero α] (a : Arr α) :
    a.toDenseFast = ⟨a.shape, a.writes.foldl (fun l pv => l.set pv.1 pv.2) (List.replicate (Dense.prod a.shape) 0)⟩ := by
  unfold toDenseFast writes
  simp only
  congr 1
  rw [foldl_toList_congr _ _
    (fun l (rb : List Nat × Blk α) => ((List.zip (Dense.allIdx rb.2.shape) rb.2.vals).map (fun iv =>
      (dot (blockStartOf a.lcs rb.1) (Dense.strides a.shape) + dot iv.1 (Dense.strides a.shape), iv.2))).foldl
        (fun l pv => l.set pv.1 pv.2) l)]
  · rw [Array.toList_replicate]
    exact foldl_flatMap_eq _ _ _ _
  · intro arr rb
    rw [foldl_setIfInBounds_toList, List.foldl_map]

/-- where the writes go and what they write -/
theorem mem_writes [Zero α] (a : Arr α) (ha : a.WF) (p : Nat) (v : α) :
    (p, v) ∈ a.writes ↔ ∃ r b w, (r, b) ∈ a.qdata.zip a.data ∧ InRange w b.shape
      ∧ p = dot (List.zipWith (· + ·) (blockStartOf a.lcs r) w) (makeStrideC a.shape) ∧ v = b.get 0 w := by
  unfold writes
  simp only [List.mem_flatMap, List.mem_map, Prod.mk.injEq, Prod.exists]
  constructor
  · rintro ⟨r, b, hrb, w, x, hwx, hp, hv⟩
    obtain ⟨hbs, hbv, hrl, _⟩ := ha.block r b hrb
    obtain ⟨hw, hx⟩ := (mem_zip_allIdx b.shape b.vals 0 hbv w x).1 hwx
    refine ⟨r, b, w, hrb, hw, ?_, ?_⟩
    · rw [← hp, Dense.strides_eq, dot_zipWith_add]
      rw [hw.length_eq, hbs]
      simp [blockStartOf, blockShapeOf]
    · rw [← hv, hx]
      unfold Dense.get
      rw [(Dense.inRange_iff _ _).2 hw]
      rfl
  · rintro ⟨r, b, w, hrb, hw, hp, hv⟩
    obtain ⟨hbs, hbv, hrl, _⟩ := ha.block r b hrb
    refine ⟨r, b, hrb, w, b.vals.getD (Dense.flatIdx b.shape w) 0,
      (mem_zip_allIdx b.shape b.vals 0 hbv w _).2 ⟨hw, rfl⟩, ?_, ?_⟩
    · rw [hp, Dense.strides_eq, dot_zipWith_add]
      rw [hw.length_eq, hbs]
      simp [blockStartOf, blockShapeOf]
    · rw [hv]
      unfold Dense.get
      rw [(Dense.inRange_iff _ _).2 hw]
      rfl

/-- **`to_ndarray` by writing blocks = the entry-wise definition**, for every well-formed tensor -/
theorem toDenseFast_eq_toDense [Zero α] (a : Arr α) (ha : a.WF) : a.toDenseFast = a.toDense := by
  rw [toDenseFast_eq_writes]
  unfold toDense Dense.ofFn
  congr 1
  have hlenL : (a.writes.foldl (fun l pv => l.set pv.1 pv.2) (List.replicate (Dense.prod a.shape) 0)).length
      = Dense.prod a.shape := by rw [foldl_set_length, List.length_replicate]
  apply ext_getD _ _ 0 (by rw [hlenL, List.length_map, Dense.allIdx_length])
  intro j hj
  rw [hlenL] at hj
  have hjg : j < (gridC a.shape).length := by rw [gridC_length, ← Dense.prod_eq]; exact hj
  obtain ⟨hdot, hin⟩ := gridC_index a.shape j hjg
  rw [foldl_set_getD _ _ j 0 (by rw [List.length_replicate]; exact hj),
    getD_map' a.entry _ j [] 0 (by rw [Dense.allIdx_length]; exact hj), Dense.allIdx_eq_gridC]
  generalize hidx : (gridC a.shape).getD j [] = idx at hdot hin
  have hin' : InRange idx (a.lcs.map Leg.indLen) := hin
  cases hf : a.writes.reverse.find? (fun pv => pv.1 == j) with
  | some pv =>
    simp only
    have hmem : pv ∈ a.writes := List.mem_reverse.1 (List.mem_of_find?_eq_some hf)
    have hkey : pv.1 = j := by
      have := List.find?_some hf
      exact eq_of_beq this
    obtain ⟨r, b, w, hrb, hw, hp, hv⟩ := (mem_writes a ha pv.1 pv.2).1 hmem
    obtain ⟨hbs, _, _, _⟩ := ha.block r b hrb
    obtain ⟨s1, s2, s3⟩ := start_add_spec a.lcs ha.legs_ok r w (ha.row_inRange r (List.of_mem_zip hrb).1)
      (hbs ▸ hw)
    have heq : List.zipWith (· + ·) (blockStartOf a.lcs r) w = idx :=
      dot_stride_inj _ _ a.shape s1 hin (by rw [← hp, hkey, hdot])
    rw [heq] at s2 s3
    rw [hv, entry_of_mem a ha idx b (by rw [s2]; exact hrb), s3]
  | none =>
    simp only
    rw [getD_replicate' _ _ _ _ hj]
    symm
    apply entry_of_not_mem
    intro b hb
    obtain ⟨hbs, _, _, _⟩ := ha.block _ b hb
    have hw := (qw_inRange a.lcs ha.legs_ok idx hin').2
    have hwr : (dot idx (makeStrideC a.shape), b.get 0 (widx a.lcs idx)) ∈ a.writes :=
      (mem_writes a ha _ _).2 ⟨_, b, _, hb, hbs ▸ hw, by rw [start_add_qw a.lcs ha.legs_ok idx hin'], rfl⟩
    have := List.find?_eq_none.1 hf _ (List.mem_reverse.2 hwr)
    simp [hdot] at this

end Arr
end TenpyModel.Core
