import TenpyModel.C01.A_Project2
import TenpyModel.C01.B_Outer
/-!
C01 part C — `concatenate`, step 1: prefix sums over a decomposition `pre ++ x :: post`, and the leg that
`concatenate` builds on the stacking axis (`catLeg`: block sizes and charge rows of the operands' legs appended).
A flat index `off + x` of the new leg (`off` = total length of the legs before) lies in block `shift + q`
(`shift` = number of blocks before) at the same offset as `x` in block `q` of the operand's leg.
-/
namespace TenpyModel.C01C.Cat
open TenpyModel.Core

/-! ### lists -/

theorem psum_append_left (s t : List Nat) (q : Nat) (h : q ≤ s.length) : psum (s ++ t) q = psum s q := by
  unfold psum
  rw [List.take_append_of_le_length h]

theorem psum_append_right (s t : List Nat) (i : Nat) : psum (s ++ t) (s.length + i) = s.sum + psum t i := by
  unfold psum
  rw [List.take_length_add_append, List.sum_append]

/-- prefix sums of a concatenation of lists, at a position inside the part contributed by `x` -/
theorem psum_flatMap_mid {β} (pre post : List β) (x : β) (f : β → List Nat) (q : Nat) (hq : q ≤ (f x).length) :
    psum ((pre ++ x :: post).flatMap f) ((pre.flatMap f).length + q) = (pre.flatMap f).sum + psum (f x) q := by
  rw [List.flatMap_append, List.flatMap_cons, psum_append_right, psum_append_left _ _ _ hq]

theorem getD_flatMap_mid {β γ} (pre post : List β) (x : β) (f : β → List γ) (d : γ) (q : Nat)
    (hq : q < (f x).length) :
    ((pre ++ x :: post).flatMap f).getD ((pre.flatMap f).length + q) d = (f x).getD q d := by
  rw [List.flatMap_append, List.flatMap_cons, getD_append_right', getD_append_left' _ _ _ _ hq]

theorem length_flatMap_sum {β γ} (l : List β) (f : β → List γ) :
    (l.flatMap f).length = (l.map (fun x => (f x).length)).sum := by
  induction l with
  | nil => rfl
  | cons x l ih => simp [ih]

theorem sum_flatMap_sum {β} (l : List β) (f : β → List Nat) :
    (l.flatMap f).sum = (l.map (fun x => (f x).sum)).sum := by
  induction l with
  | nil => rfl
  | cons x l ih => simp [ih]

theorem sum_map_congr_mem {β} (l : List β) (f g : β → Nat) (h : ∀ x ∈ l, f x = g x) :
    (l.map f).sum = (l.map g).sum := by
  rw [List.map_congr_left h]

/-- an index below the total lies in exactly one summand -/
theorem exists_split_of_lt_sum {β} (l : List β) (g : β → Nat) (x : Nat) (hx : x < (l.map g).sum) :
    ∃ pre a post, l = pre ++ a :: post ∧ (pre.map g).sum ≤ x ∧ x < (pre.map g).sum + g a := by
  induction l generalizing x with
  | nil => simp at hx
  | cons a l ih =>
    by_cases h : x < g a
    · exact ⟨[], a, l, rfl, by simp, by simpa using h⟩
    · simp only [List.map_cons, List.sum_cons] at hx
      obtain ⟨pre, b, post, e, h1, h2⟩ := ih (x - g a) (by omega)
      refine ⟨a :: pre, b, post, by rw [e]; rfl, ?_, ?_⟩
      · simp only [List.map_cons, List.sum_cons]; omega
      · simp only [List.map_cons, List.sum_cons]; omega

theorem sum_map_append_cons {β} (pre post : List β) (a : β) (g : β → Nat) :
    ((pre ++ a :: post).map g).sum = (pre.map g).sum + g a + (post.map g).sum := by
  simp [List.sum_append, Nat.add_assoc]

/-! ### the concatenated leg -/

/-- the charge rows an operand's leg contributes (`make_valid(-charges)` when its `qconj` differs) -/
def catCharges (mods : List Nat) (qc : Int) (l : Leg) : List Charge :=
  if l.qconj = qc then l.charges else l.charges.map (fun c => makeValid mods (cneg c))

/-- the leg `concatenate` builds on the stacking axis from the operands' legs `ls` -/
def catLeg (mods : List Nat) (qc : Int) (ls : List Leg) : Leg :=
  Leg.fromQind mods (slicesOfSizes (ls.flatMap Leg.blockSizes)) (ls.flatMap (catCharges mods qc)) qc

theorem catCharges_length (mods : List Nat) (qc : Int) (l : Leg) : (catCharges mods qc l).length = l.blockNumber := by
  unfold catCharges Leg.blockNumber
  split <;> simp

theorem catLeg_slices (mods : List Nat) (qc : Int) (ls : List Leg) :
    (catLeg mods qc ls).slices = slicesOfSizes (ls.flatMap Leg.blockSizes) := rfl
theorem catLeg_charges (mods : List Nat) (qc : Int) (ls : List Leg) :
    (catLeg mods qc ls).charges = ls.flatMap (catCharges mods qc) := rfl
theorem catLeg_qconj (mods : List Nat) (qc : Int) (ls : List Leg) : (catLeg mods qc ls).qconj = qc := rfl
theorem catLeg_mods (mods : List Nat) (qc : Int) (ls : List Leg) : (catLeg mods qc ls).mods = mods := rfl

theorem catLeg_blockSizes (mods : List Nat) (qc : Int) (ls : List Leg) :
    (catLeg mods qc ls).blockSizes = ls.flatMap Leg.blockSizes := by
  unfold Leg.blockSizes
  rw [catLeg_slices]
  exact sizesOfSlices_slicesOfSizes _

theorem sizes_length_eq (ls : List Leg) (hs : ∀ l ∈ ls, l.Shape) :
    (ls.flatMap Leg.blockSizes).length = (ls.map Leg.blockNumber).sum := by
  rw [length_flatMap_sum]
  exact congrArg List.sum (List.map_congr_left (fun l hl => (hs l hl).sizes_len))

theorem sizes_sum_eq (ls : List Leg) (hs : ∀ l ∈ ls, l.Shape) :
    (ls.flatMap Leg.blockSizes).sum = (ls.map Leg.indLen).sum := by
  rw [sum_flatMap_sum]
  exact congrArg List.sum (List.map_congr_left (fun l hl => (hs l hl).indLen_eq.symm))

theorem catLeg_blockNumber (mods : List Nat) (qc : Int) (ls : List Leg) :
    (catLeg mods qc ls).blockNumber = (ls.map Leg.blockNumber).sum := by
  unfold Leg.blockNumber
  rw [catLeg_charges, length_flatMap_sum]
  exact congrArg List.sum (List.map_congr_left (fun l _ => catCharges_length mods qc l))

theorem catLeg_shape (mods : List Nat) (qc : Int) (ls : List Leg) (hs : ∀ l ∈ ls, l.Shape) :
    (catLeg mods qc ls).Shape := by
  refine ⟨?_, slicesOfSizes_head _, ?_⟩
  · rw [catLeg_slices, slicesOfSizes_length, sizes_length_eq ls hs]
    have := catLeg_blockNumber mods qc ls
    unfold Leg.blockNumber at this
    rw [this]
    rfl
  · rw [catLeg_slices]; exact slicesOfSizes_pairwise _

theorem catLeg_shapeOK (mods : List Nat) (qc : Int) (ls : List Leg) (hs : ∀ l ∈ ls, l.Shape) :
    (catLeg mods qc ls).ShapeOK :=
  let h := catLeg_shape mods qc ls hs
  ⟨h.len, h.head, h.mono⟩

/-- total length = sum of the lengths -/
theorem catLeg_indLen (mods : List Nat) (qc : Int) (ls : List Leg) (hs : ∀ l ∈ ls, l.Shape) :
    (catLeg mods qc ls).indLen = (ls.map Leg.indLen).sum := by
  unfold Leg.indLen
  rw [catLeg_slices, slicesOfSizes_getLastD]
  exact sizes_sum_eq ls hs

section mid
variable (mods : List Nat) (qc : Int) (pre post : List Leg) (L : Leg)
  (hs : ∀ l ∈ pre ++ L :: post, l.Shape)
include hs

theorem hs_pre : ∀ l ∈ pre, l.Shape := fun l hl => hs l (by simp [hl])
theorem hs_mid : L.Shape := hs L (by simp)

/-- slice boundaries of the part contributed by `L` -/
theorem catLeg_slices_getD (q : Nat) (hq : q ≤ L.blockNumber) :
    (catLeg mods qc (pre ++ L :: post)).slices.getD ((pre.map Leg.blockNumber).sum + q) 0
      = (pre.map Leg.indLen).sum + L.slices.getD q 0 := by
  have hL := hs_mid pre post L hs
  have hp := hs_pre pre post L hs
  rw [catLeg_slices, slicesOfSizes_getD _ _ ?_, ← sizes_length_eq pre hp,
    psum_flatMap_mid pre post L Leg.blockSizes q (by rw [hL.sizes_len]; exact hq), sizes_sum_eq pre hp,
    hL.slices_getD q hq]
  rw [sizes_length_eq _ hs, sum_map_append_cons]
  omega

theorem catLeg_blockSizes_getD (q : Nat) (hq : q < L.blockNumber) :
    (catLeg mods qc (pre ++ L :: post)).blockSizes.getD ((pre.map Leg.blockNumber).sum + q) 0
      = L.blockSizes.getD q 0 := by
  have hL := hs_mid pre post L hs
  have hp := hs_pre pre post L hs
  rw [catLeg_blockSizes, ← sizes_length_eq pre hp]
  exact getD_flatMap_mid pre post L Leg.blockSizes 0 q (by rw [hL.sizes_len]; exact hq)

omit hs in
theorem catLeg_charges_getD (q : Nat) (hq : q < L.blockNumber) :
    (catLeg mods qc (pre ++ L :: post)).charges.getD ((pre.map Leg.blockNumber).sum + q) []
      = (catCharges mods qc L).getD q [] := by
  rw [catLeg_charges]
  have : (pre.map Leg.blockNumber).sum = (pre.flatMap (catCharges mods qc)).length := by
    rw [length_flatMap_sum]
    exact congrArg List.sum (List.map_congr_left (fun l _ => (catCharges_length mods qc l).symm))
  rw [this]
  exact getD_flatMap_mid pre post L (catCharges mods qc) [] q (by rw [catCharges_length]; exact hq)

omit hs in
theorem catLeg_block_lt (q : Nat) (hq : q < L.blockNumber) :
    (pre.map Leg.blockNumber).sum + q < (catLeg mods qc (pre ++ L :: post)).blockNumber := by
  rw [catLeg_blockNumber, sum_map_append_cons]
  omega

/-- **position of a flat index of an operand's leg inside the concatenated leg** -/
theorem catLeg_locate (x : Nat) (hx : x < L.indLen) :
    (catLeg mods qc (pre ++ L :: post)).locate ((pre.map Leg.indLen).sum + x)
      = ((pre.map Leg.blockNumber).sum + (L.locate x).1, (L.locate x).2) := by
  have hL := hs_mid pre post L hs
  obtain ⟨h1, h2, h3, h4⟩ := Leg.locate_ok hL x hx
  have hN := catLeg_shape mods qc _ hs
  have s1 := catLeg_slices_getD mods qc pre post L hs (L.locate x).1 (Nat.le_of_lt h1)
  have s2 := catLeg_slices_getD mods qc pre post L hs ((L.locate x).1 + 1) h1
  rw [Leg.locate_unique hN _ _ (catLeg_block_lt mods qc pre post L _ h1) (by rw [s1]; omega)
    (by rw [Nat.add_assoc, s2]; omega), s1]
  congr 1
  omega

end mid

end TenpyModel.C01C.Cat
