import TenpyModel.C01.C_ProgABC
import TenpyModel.C01.B2_CombEx
/-!
C01 part C — a concrete program for the non-vacuity of `C01_programABC` (on `Comb.Ex.t3`: rank 3 over U(1)×Z₃,
duplicate sectors, two stored blocks in unsorted order):
`v1 = t3.combine_legs([1, 2], qconj=+1)`, `v2 = v1.split_legs()`, `v3 = v2.sort_legcharge([T,F,T], [T,F,F])[1]`,
`v4 = concatenate([v2, v2], 1)`, `v5 = -v4`.
-/
namespace TenpyModel.C01C.ExABC
open TenpyModel.Core TenpyModel.Core.C01SSA TenpyModel.C01B TenpyModel.C01B2.Comb.Ex

def okOr (e : Except Err (Arr Int)) : Arr Int := match e with | .ok r => r | .error _ => t3
def v1 : Arr Int := okOr (t3.combineLegs [[.idx 1, .idx 2]] none none [some 1])
def v2 : Arr Int := okOr (v1.splitLegs none)
def v3 : Arr Int :=
  okOr (match v2.sortLegcharge [true, false, true] [true, false, false] with | .ok pc => .ok pc.2 | .error e => .error e)
def v4 : Arr Int := okOr (Arr.concatenate [v2, v2] (.idx 1))
def v5 : Arr Int := v4.neg

def prog : C01StepC.Prog Int :=
  [(.combineLegs [[.idx 1, .idx 2]] [some 1], [0]), (.splitLegs none, [1]),
   (.sortLegcharge [true, false, true] [true, false, false], [2]), (.concatenate (.idx 1), [2, 2]),
   (.ab (.partA (.neg (.input 0)) (.input 0) (.input 0)), [4])]

/-- the model run succeeds and computes these five values -/
theorem run_ok : C01StepC.runArr id rfl false [t3] prog = .ok [t3, v1, v2, v3, v4, v5] := by rfl

/-- the start environment satisfies the invariants -/
theorem inv0 : ∀ a ∈ [t3], Inv [1, 3] a := by
  intro a ha
  have : a = t3 := by simpa using ha
  subst this
  exact ⟨by decide, by decide, by decide, rfl⟩

/-- the reduced side conditions of the five steps -/
theorem sideQ : C01StepC.SideQ id rfl false [t3] prog := by
  refine sideAllQ_cons _ _ _ _ [t3] v1 rfl rfl ⟨by decide, ?_, ?_⟩ ?_
  · intro q hq
    have : q = 1 := by simpa using hq
    exact Or.inl this
  · show ∀ a ∈ [t3], LegsQ a
    decide
  refine sideAllQ_cons _ _ _ _ [v1] v2 rfl rfl ?_ ?_
  · show ∀ a ∈ [v1], ∀ l ∈ a.legs, l.isPipe = true → SplitLegOK a.mods l
    decide
  refine sideAllQ_cons _ _ _ _ [v2] v3 rfl rfl ?_ ?_
  · show ∀ a ∈ [v2], LegsQ a
    decide
  refine sideAllQ_cons _ _ _ _ [v2, v2] v4 rfl rfl ?_ ?_
  · intro k hk
    have : k = 1 := by
      have e : v2.getLegIndex (.idx 1) = .ok 1 := rfl
      rw [e] at hk
      cases hk
      rfl
    subst this
    exact ⟨by decide, by decide⟩
  refine sideAllQ_cons _ _ _ _ [v4] v5 rfl rfl ?_ trivial
  exact ⟨trivial, trivial, fun a b _ _ => ⟨trivial, trivial⟩⟩

/-- the values are not trivial: the combined tensor has a sorted pipe, the sorted tensor differs from `v2`, the
concatenation has twice the length on axis 1 -/
example : v1.shape = [4, 12] ∧ v2.toDense = t3.toDense ∧ v3.toDense ≠ v2.toDense ∧ v4.shape = [4, 6, 4]
    ∧ v5.toDense = v4.toDense.neg := by decide

end TenpyModel.C01C.ExABC
