import TenpyModel.C01.B_Dense
import TenpyModel.C01.MergeProofs
/-!
C01 part B — entry-wise meaning of the dense specification functions `Dense.tensordot`, `Dense.outer`,
`Dense.inner`, `Dense.add` for good operands over a commutative semiring.
-/
namespace TenpyModel.C01B
open TenpyModel.Core

variable {α : Type}

theorem zipWith_eq_range {β γ δ} (f : β → γ → δ) (xs : List β) (ys : List γ) (dx : β) (dy : γ)
    (h : xs.length = ys.length) :
    List.zipWith f xs ys = (List.range xs.length).map (fun i => f (xs.getD i dx) (ys.getD i dy)) := by
  apply List.ext_getElem (by simp [h])
  intro i h1 h2
  simp only [List.length_zipWith, h, Nat.min_self] at h1
  simp [List.getD_eq_getElem?_getD, List.getElem?_eq_getElem (h ▸ h1 : i < xs.length), List.getElem?_eq_getElem h1]

section ring
variable [CommSemiring α]

theorem tensordot_shape (x y : Dense α) (k : Nat) :
    (Dense.tensordot x y k).shape = x.shape.take (x.rank - k) ++ y.shape.drop k := rfl

theorem tensordot_good (x y : Dense α) (k : Nat) : Good (Dense.tensordot x y k) := by
  simp only [Good, Dense.tensordot, List.length_flatMap, List.length_map, List.length_range, List.map_const',
    List.sum_replicate_nat, prod_eq, List.prod_append]

/-- `np.tensordot(x, y, k)[u ++ v] = Σ_c x[u ++ c] * y[c ++ v]` -/
theorem get_tensordot (x y : Dense α) (k : Nat)
    (hc : y.shape.take k = x.shape.drop (x.rank - k)) (u v : List Nat)
    (hu : InRange u (x.shape.take (x.rank - k))) (hv : InRange v (y.shape.drop k)) :
    (Dense.tensordot x y k).get 0 (u ++ v)
      = ((Dense.allIdx (x.shape.drop (x.rank - k))).map (fun c => x.get 0 (u ++ c) * y.get 0 (c ++ v))).sum := by
  have hin : InRange (u ++ v) (Dense.tensordot x y k).shape := by
    rw [tensordot_shape]; exact (InRange_append hu.length_eq).2 ⟨hu, hv⟩
  rw [get_inRange 0 _ _ hin, tensordot_shape, flat_append _ _ _ _ hu.length_eq]
  have hi := dot_stride_lt u _ hu
  have hj := dot_stride_lt v _ hv
  simp only [Dense.tensordot, prod_eq]
  rw [flatMap_uniform_getD (List.range (x.shape.take (x.rank - k)).prod) _ (y.shape.drop k).prod 0 (by simp) _ _
    (by simpa using hi) hj]
  rw [getD_map' _ _ _ 0 0 (by simpa using hj), dsum_eq]
  simp only [List.getElem_range, getD_range _ _ hj]
  rw [← map_flat_allIdx, List.map_map]
  apply sum_map_congr
  intro c hc'
  have hcr : InRange c (x.shape.drop (x.rank - k)) := (mem_allIdx _ _).1 hc'
  simp only [Function.comp, getD_toArray]
  have hxs : x.shape = x.shape.take (x.rank - k) ++ x.shape.drop (x.rank - k) := (List.take_append_drop _ _).symm
  have hys : y.shape = x.shape.drop (x.rank - k) ++ y.shape.drop k := by
    rw [← hc]; exact (List.take_append_drop _ _).symm
  have h1 : InRange (u ++ c) x.shape := by rw [hxs]; exact (InRange_append hu.length_eq).2 ⟨hu, hcr⟩
  have h2 : InRange (c ++ v) y.shape := by rw [hys]; exact (InRange_append hcr.length_eq).2 ⟨hcr, hv⟩
  rw [get_inRange 0 x _ h1, get_inRange 0 y _ h2]
  congr 2
  · conv => rhs; rw [hxs]
    rw [flat_append _ _ _ _ hu.length_eq]
  · conv => rhs; rw [hys]
    rw [flat_append _ _ _ _ hcr.length_eq]

/-- `np.multiply.outer(x, y)[u ++ v] = x[u] * y[v]` -/
theorem get_outer (x y : Dense α) (u v : List Nat)
    (hu : InRange u x.shape) (hv : InRange v y.shape) :
    (Dense.outer x y).get 0 (u ++ v) = x.get 0 u * y.get 0 v := by
  unfold Dense.outer
  have h0 : x.rank - 0 = x.shape.length := rfl
  rw [get_tensordot x y 0 (by simp [Dense.rank]) u v (by simpa [Dense.rank] using hu) (by simpa using hv)]
  simp [Dense.rank, Dense.allIdx]

theorem outer_shape (x y : Dense α) : (Dense.outer x y).shape = x.shape ++ y.shape := by
  simp [Dense.outer, tensordot_shape, Dense.rank]

/-- `Σ_c x[c] * y[c]` -/
theorem inner_eq (x y : Dense α) (hx : Good x) (hy : Good y) (hs : x.shape = y.shape) :
    Dense.inner x y = ((Dense.allIdx x.shape).map (fun c => x.get 0 c * y.get 0 c)).sum := by
  unfold Dense.inner
  have hl : x.vals.length = y.vals.length := by rw [hx, hy, hs]
  rw [dsum_eq, zipWith_eq_range _ _ _ 0 0 hl, hx, ← map_flat_allIdx, List.map_map]
  apply sum_map_congr
  intro c hc
  have hcr : InRange c x.shape := (mem_allIdx _ _).1 hc
  simp only [Function.comp]
  rw [get_inRange 0 x _ hcr, get_inRange 0 y _ (hs ▸ hcr), hs]

theorem get_add (x y : Dense α) (hs : x.shape = y.shape) (hl : x.vals.length = y.vals.length) (w : List Nat) :
    (Dense.add x y).get 0 w = x.get 0 w + y.get 0 w :=
  Dense.get_zipWith (· + ·) (by simp) x y hs hl w

theorem add_shape (x y : Dense α) : (Dense.add x y).shape = x.shape := rfl

theorem add_good (x y : Dense α) (hx : Good x) (hy : Good y) (hs : x.shape = y.shape) : Good (Dense.add x y) := by
  simp only [Good, Dense.add, Dense.zipWith, List.length_zipWith]
  rw [hx, hy, hs]; simp

end ring
end TenpyModel.C01B
