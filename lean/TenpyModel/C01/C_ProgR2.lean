import TenpyModel.C01.C_ProgR1
/-!
C01 part C — reference semantics of part A's programs on reference objects that carry legs (`RObj` = dense tensor,
labels, legs, `chinfo.mod`): `C01ProgA.evalRefR`. Values and labels are those of `C01ProgA.evalRef` (`evalRefR_ld`); the
legs follow the documented leg rules, written in terms of the operand only (axes resolved through its labels / rank as
`LDense.ax` does; a new leg is computed by the same leg-level function the model calls).
-/
namespace TenpyModel.Core
open Arr (permuteList swapList)
open TenpyModel.C01C.ProgR (projLegs permLegs)

namespace RObj
variable {α : Type}

/-- the reference object answered for an operand index out of range (never reached by a successful model run) -/
def empty : RObj α := ⟨⟨[], []⟩, [], [], []⟩

theorem getD_map_ld (env : List (RObj α)) (i : Nat) :
    (env.map RObj.ld).getD i ⟨⟨[], []⟩, []⟩ = (env.getD i RObj.empty).ld := by
  simp only [List.getD_eq_getElem?_getD, List.getElem?_map]
  cases env[i]? <;> rfl

end RObj

namespace Arr
variable {α : Type}

theorem toR_d [Zero α] (a : Arr α) : a.toR.d = a.toDense := rfl
theorem toR_labels [Zero α] (a : Arr α) : a.toR.labels = a.labels := rfl
theorem toR_legs [Zero α] (a : Arr α) : a.toR.legs = a.legs := rfl
theorem toR_mods [Zero α] (a : Arr α) : a.toR.mods = a.mods := rfl

theorem toR_eq [Zero α] (r : Arr α) (d : Dense α) (l : List Label) (lg : List ALeg) (m : List Nat)
    (h1 : r.toDense = d) (h2 : r.labels = l) (h3 : r.legs = lg) (h4 : r.mods = m) : r.toR = ⟨d, l, lg, m⟩ := by
  subst h1; subst h2; subst h3; subst h4; rfl

theorem map_toR_ld [Zero α] (env : List (Arr α)) : (env.map Arr.toR).map RObj.ld = env.map Arr.toLD := by
  rw [List.map_map]
  rfl

end Arr

namespace C01ProgA
variable {α : Type}

/-- **reference semantics on reference objects with legs**. `d` and `labels`: as `evalRef`. `legs`:
* negation, scaling, `complex_conj`, `iscale_axis`, the binary operations: the legs of the (first) operand;
* `conj`: every leg conjugated (`ALeg.conj`, pipes recursively);
* `transpose` / `iswapaxes`: permuted / exchanged like the labels;
* `add_trivial_leg`: the one-block leg of the zero charge (`Leg.fromQflat mods [0] qconj`) inserted;
* `take_slice` / `squeeze`: the remaining legs in order;
* `iproject`: `Leg.project` of the `LegCharge` view of each projected leg (pipes are dropped), axis after axis;
* `permute`: the re-bunched `LegCharge` of the permuted flat charges.
`mods`: that of the (first) operand. -/
def evalRefR [Zero α] [Neg α] [Add α] [Mul α] (st : α → α) (env : List (RObj α)) : C01ProgA α → RObj α
  | .input i => env.getD i RObj.empty
  | .neg p => let x := evalRefR st env p; ⟨x.d.neg, x.labels, x.legs, x.mods⟩
  | .scale s p => let x := evalRefR st env p; ⟨x.d.map (fun v => v * s), x.labels, x.legs, x.mods⟩
  | .conj p =>
    let x := evalRefR st env p
    ⟨x.d.map st, x.labels.map Label.conjOpt, x.legs.map ALeg.conj, x.mods⟩
  | .complexConj p => let x := evalRefR st env p; ⟨x.d.map st, x.labels, x.legs, x.mods⟩
  | .transpose axes p =>
    let x := evalRefR st env p
    ⟨x.d.transpose (transposeAx x.ld axes), permuteList x.labels (transposeAx x.ld axes) none,
     permuteList x.legs (transposeAx x.ld axes) default, x.mods⟩
  | .swapaxes x1 x2 p =>
    let x := evalRefR st env p
    ⟨x.d.transpose (swapList (List.range x.d.rank) (x.ld.ax x1) (x.ld.ax x2) 0),
     swapList x.labels (x.ld.ax x1) (x.ld.ax x2) none, swapList x.legs (x.ld.ax x1) (x.ld.ax x2) default, x.mods⟩
  | .addTrivialLeg axis label qconj p =>
    let x := evalRefR st env p
    let pos := Arr.insertPos x.d.rank (if axis < 0 then axis + x.d.rank else axis)
    ⟨x.d.expandDims pos, Dense.insertAt x.labels pos label,
     Dense.insertAt x.legs pos (.plain (Leg.fromQflat x.mods [czero x.mods.length] qconj)), x.mods⟩
  | .takeSlice indices axes p =>
    let x := evalRefR st env p
    let ax := x.ld.axs axes
    if ax = [] then x
    else ⟨x.d.fixAxes ax (List.zipWith (fun k (i : Int) => (if i < 0 then i + (x.d.shape.getD k 0 : Int) else i).toNat)
            ax indices), pick x.labels (keepOf x.d.rank ax) none, pick x.legs (keepOf x.d.rank ax) default, x.mods⟩
  | .squeeze axes p =>
    let x := evalRefR st env p
    let ax := squeezeAx x.ld axes
    ⟨x.d.squeeze ax, pick x.labels (keepOf x.d.rank ax) none, pick x.legs (keepOf x.d.rank ax) default, x.mods⟩
  | .scaleAxis s axis p =>
    let x := evalRefR st env p
    ⟨x.d.scaleAxis s (x.ld.ax axis), x.labels, x.legs, x.mods⟩
  | .project masks axes p =>
    let x := evalRefR st env p
    let ax := x.ld.axs axes
    if ax = [] then x
    else
      let bm := ((masks.zip ax).map (fun mk => maskBools (x.d.shape.getD mk.2 0) mk.1)).zip ax
      ⟨bm.foldl (fun d mk => d.compress mk.2 mk.1) x.d, x.labels, projLegs x.legs bm, x.mods⟩
  | .permute perm axis p =>
    let x := evalRefR st env p
    ⟨x.d.takeList (x.ld.ax axis) perm, x.labels, permLegs x.mods x.legs (x.ld.ax axis) perm, x.mods⟩
  | .binary f p q =>
    let x := evalRefR st env p
    let y := evalRefR st env q
    ⟨Dense.zipWith f x.d (y.d.transpose (sameLabelsAx y.labels y.d.rank x.labels)), x.labels, x.legs, x.mods⟩
  | .addPrefactor _ c p q =>
    let x := evalRefR st env p
    let y := evalRefR st env q
    ⟨Dense.zipWith (fun u v => u + v * c) x.d (y.d.transpose (sameLabelsAx y.labels y.d.rank x.labels)),
     x.labels, x.legs, x.mods⟩

/-- values and labels of `evalRefR` are exactly those of part A's reference semantics `evalRef` -/
theorem evalRefR_ld [Zero α] [Neg α] [Add α] [Mul α] (st : α → α) (env : List (RObj α)) (p : C01ProgA α) :
    (evalRefR st env p).ld = evalRef st (env.map RObj.ld) p := by
  induction p with
  | input i => exact (RObj.getD_map_ld env i).symm
  | neg p ih => simp only [evalRef, ← ih]; rfl
  | scale s p ih => simp only [evalRef, ← ih]; rfl
  | conj p ih => simp only [evalRef, ← ih]; rfl
  | complexConj p ih => simp only [evalRef, ← ih]; rfl
  | transpose axes p ih => simp only [evalRef, ← ih]; rfl
  | swapaxes x1 x2 p ih => simp only [evalRef, ← ih]; rfl
  | addTrivialLeg axis label qconj p ih => simp only [evalRef, ← ih]; rfl
  | takeSlice indices axes p ih =>
    simp only [evalRef, evalRefR, ← ih]
    split <;> rfl
  | squeeze axes p ih => simp only [evalRef, ← ih]; rfl
  | scaleAxis s axis p ih => simp only [evalRef, ← ih]; rfl
  | project masks axes p ih =>
    simp only [evalRef, evalRefR, ← ih]
    split <;> rfl
  | permute perm axis p ih => simp only [evalRef, ← ih]; rfl
  | binary f p q ihp ihq => simp only [evalRef, ← ihp, ← ihq]; rfl
  | addPrefactor cy c p q ihp ihq => simp only [evalRef, ← ihp, ← ihq]; rfl

theorem evalRefR_d [Zero α] [Neg α] [Add α] [Mul α] (st : α → α) (env : List (RObj α)) (p : C01ProgA α) :
    (evalRefR st env p).d = (evalRef st (env.map RObj.ld) p).d := congrArg LDense.d (evalRefR_ld st env p)

theorem evalRefR_labels [Zero α] [Neg α] [Add α] [Mul α] (st : α → α) (env : List (RObj α)) (p : C01ProgA α) :
    (evalRefR st env p).labels = (evalRef st (env.map RObj.ld) p).labels :=
  congrArg LDense.labels (evalRefR_ld st env p)

end C01ProgA
end TenpyModel.Core
