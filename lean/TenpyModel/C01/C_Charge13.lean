import TenpyModel.C01.C_Charge10
/-!
C01 part C — closure under part A's operations, file 4: `isort_qdata`, `_transpose_same_labels`, the merge of
`ibinary_blockwise`, `ibinary_blockwise` and `iadd_prefactor_other` (both kernel variants; new `self` and the operand
after the call).
-/
namespace TenpyModel.C01C
open TenpyModel.Core TenpyModel.C01B TenpyModel.C01B2

variable {α : Type}

/-- `isort_qdata` permutes the rows -/
theorem isortQdata_rows (a : Arr α) (hlen : a.qdata.length = a.data.length) :
    ∀ q ∈ a.isortQdata.qdata, q ∈ a.qdata := by
  intro q hq
  obtain ⟨h1, h2⟩ := Arr.isortQdata_perm a hlen
  obtain ⟨b, hb⟩ := mem_zip_of_mem_left _ _ h1 q hq
  exact (List.of_mem_zip (h2.mem_iff.1 hb)).1

theorem isortQdata_lcs (a : Arr α) : a.isortQdata.lcs = a.lcs := by
  unfold Arr.lcs; rw [(Arr.isortQdata_fields a).1]

/-- **`isort_qdata`** -/
theorem chargeRule_isortQdata (a : Arr α) (ha : a.WF) (hc : a.ChargeRule) (hv : LegsValid a) :
    a.isortQdata.ChargeRule ∧ LegsValid a.isortQdata :=
  chargeRule_of_subset a _ (Arr.isortQdata_qtotal a).2 (isortQdata_lcs a) (isortQdata_rows a ha.2.1)
    (Arr.isortQdata_qtotal a).1 hc hv

section zero
variable [Zero α]

/-- **`_transpose_same_labels`**: the tensor itself or a transposed copy -/
theorem chargeRule_transposeSameLabels (b : Arr α) (other : List Label) (hb : b.WF) (hc : b.ChargeRule)
    (hv : LegsValid b) :
    (b.transposeSameLabels other).1.ChargeRule ∧ LegsValid (b.transposeSameLabels other).1
    ∧ (b.transposeSameLabels other).1.mods = b.mods := by
  unfold Arr.transposeSameLabels
  split
  · exact ⟨hc, hv, rfl⟩
  · split
    · exact ⟨hc, hv, rfl⟩
    · split
      · cases ht : b.transpose (some (other.map (fun l => Ax.lbl (l.getD "")))) with
        | error e => exact ⟨hc, hv, rfl⟩
        | ok t =>
          obtain ⟨c, v⟩ := chargeRule_transpose b t hb hc hv _ ht
          obtain ⟨_, _, _, _, _, _, _, _, hm, _⟩ := Arr.itranspose_spec b t _ hb ht
          exact ⟨c, v, hm⟩
      · exact ⟨hc, hv, rfl⟩

omit [Zero α] in
/-- what `binaryCheck` says about the legs -/
theorem legsEqual_of_binaryCheck (a b : Arr α) (h : Arr.binaryCheck a b = .ok ()) :
    a.rank = b.rank ∧ Arr.legsEqual a.lcs b.lcs = true ∧ a.qtotal = b.qtotal := by
  unfold Arr.binaryCheck at h
  split at h
  · cases h
  · split at h
    · cases h
    · split at h
      · cases h
      · rename_i h1 h2 h3
        exact ⟨Decidable.not_not.1 h1, by simpa using h2, Decidable.not_not.1 h3⟩

omit [Zero α] in
/-- a stored row of `b` has, w.r.t. the (leg-wise equal) legs of `a`, the charge `qtotal` -/
theorem row_charge_equal (a b : Arr α) (hb : W b) (hm : a.mods = b.mods) (hcb : b.ChargeRule) (hvb : LegsValid b)
    (hchk : Arr.binaryCheck a b = .ok ()) (q : List Nat) (hq : q ∈ b.qdata) :
    blockChargeOf a.mods a.lcs q = a.qtotal := by
  obtain ⟨hr, hle, hqt⟩ := legsEqual_of_binaryCheck a b hchk
  have := blockCharge_equal a.mods a.lcs b.lcs q (by rw [lcs_length, lcs_length, hr])
    (by rw [hb.rowLen q hq, lcs_length]) hle (fun l hl => by rw [hm]; exact (hvb l hl).1)
  rw [← this, hqt, hm]
  exact hcb q hq

/-- **the body of `ibinary_blockwise`**: the merged `self` and the sorted operand -/
theorem chargeRule_binaryCore (f : α → α → α) (a b : Arr α) (ha : a.WF) (hb : b.WF) (hm : a.mods = b.mods)
    (hca : a.ChargeRule) (hcb : b.ChargeRule) (hva : LegsValid a) (hvb : LegsValid b)
    (hchk : Arr.binaryCheck a b = .ok ()) (r : Arr α)
    (hr : r = { a.isortQdata with
      qdata := (Arr.mergeBlocks f a.blockNumbers a.isortQdata.qdata a.isortQdata.data b.isortQdata.qdata
        b.isortQdata.data).1,
      data := (Arr.mergeBlocks f a.blockNumbers a.isortQdata.qdata a.isortQdata.data b.isortQdata.qdata
        b.isortQdata.data).2 }) :
    r.ChargeRule ∧ LegsValid r := by
  have hlcs : r.lcs = a.lcs := by rw [hr]; exact isortQdata_lcs a
  have hmods : r.mods = a.mods := by rw [hr]; exact (Arr.isortQdata_qtotal a).2
  have hqt : r.qtotal = a.qtotal := by rw [hr]; exact (Arr.isortQdata_qtotal a).1
  have hrows : ∀ q ∈ r.qdata, q ∈ a.qdata ∨ q ∈ b.qdata := by
    intro q hq
    rw [hr] at hq
    have hq' : q ∈ (Arr.mergeBlocks f a.blockNumbers a.isortQdata.qdata a.isortQdata.data b.isortQdata.qdata
        b.isortQdata.data).1 := hq
    by_cases he : a.isortQdata.qdata = b.isortQdata.qdata
    · unfold Arr.mergeBlocks at hq'
      rw [if_pos he] at hq'
      exact Or.inl (isortQdata_rows a ha.2.1 q hq')
    · rw [Arr.mergeBlocks_general f _ _ _ _ _ he] at hq'
      obtain ⟨o, ho, rfl⟩ := List.mem_map.1 hq'
      rcases Arr.mg_mem_row f _ _ _ _ _ o ho with h1 | h1
      · exact Or.inl (isortQdata_rows a ha.2.1 _ h1)
      · exact Or.inr (isortQdata_rows b hb.2.1 _ h1)
  constructor
  · intro q hq
    rw [hmods, hlcs, hqt]
    rcases hrows q hq with h1 | h1
    · exact hca q h1
    · exact row_charge_equal a b (W.of hb) hm hcb hvb hchk q h1
  · intro l hl
    rw [hmods]
    exact hva l (hlcs ▸ hl)

/-- **`self.ibinary_blockwise(f, other)`**: the new `self` and the operand after the call -/
theorem chargeRule_ibinaryBlockwise (f : α → α → α) (a b r b' : Arr α) (ha : a.WF) (hb : b.WF) (hm : a.mods = b.mods)
    (hca : a.ChargeRule) (hcb : b.ChargeRule) (hva : LegsValid a) (hvb : LegsValid b)
    (h : a.ibinaryBlockwise f b = .ok (r, b')) :
    (r.ChargeRule ∧ LegsValid r) ∧ (b'.ChargeRule ∧ LegsValid b') := by
  rcases hts : b.transposeSameLabels a.labels with ⟨b1, tr⟩
  simp only [Arr.ibinaryBlockwise, hts, bind, Except.bind, pure, Except.pure] at h
  cases hchk : Arr.binaryCheck a b1 with
  | error e => simp [hchk] at h
  | ok u =>
    simp only [hchk, Except.ok.injEq, Prod.mk.injEq] at h
    obtain ⟨c1, v1, m1⟩ := chargeRule_transposeSameLabels b a.labels hb hcb hvb
    obtain ⟨_, _, w1, _⟩ := Arr.transposeSameLabels_ax b a.labels hb
    rw [hts] at c1 v1 m1 w1
    simp only at c1 v1 m1 w1
    refine ⟨chargeRule_binaryCore f a b1 ha w1 (by rw [hm, m1]) hca c1 hva v1 hchk r h.1.symm, ?_⟩
    rw [← h.2]
    cases tr with
    | true => exact ⟨hcb, hvb⟩
    | false => exact chargeRule_isortQdata b1 w1 c1 v1

end zero

/-- **`self.iadd_prefactor_other(p, other)`**, both kernel variants: the new `self` and the operand after the call -/
theorem chargeRule_iaddPrefactorOther [Zero α] [Add α] [Mul α] [DecidableEq α] (cy : Bool) (a b r b' : Arr α) (p : α)
    (ha : a.WF) (hb : b.WF) (hm : a.mods = b.mods)
    (hca : a.ChargeRule) (hcb : b.ChargeRule) (hva : LegsValid a) (hvb : LegsValid b)
    (h : a.iaddPrefactorOther cy p b = .ok (r, b')) :
    (r.ChargeRule ∧ LegsValid r) ∧ (b'.ChargeRule ∧ LegsValid b') := by
  cases cy with
  | true =>
    rcases hts : b.transposeSameLabels a.labels with ⟨b1, tr⟩
    simp only [Arr.iaddPrefactorOther, hts, bind, Except.bind, pure, Except.pure, if_true] at h
    cases hchk : Arr.binaryCheck a b1 with
    | error e => simp [hchk] at h
    | ok u =>
      simp only [hchk] at h
      by_cases hp0 : p = 0
      · simp only [hp0, if_true, Except.ok.injEq, Prod.mk.injEq] at h
        rw [← h.1, ← h.2]
        exact ⟨⟨hca, hva⟩, ⟨hcb, hvb⟩⟩
      · simp only [hp0, if_false, Except.ok.injEq, Prod.mk.injEq] at h
        obtain ⟨c1, v1, m1⟩ := chargeRule_transposeSameLabels b a.labels hb hcb hvb
        obtain ⟨_, _, w1, _⟩ := Arr.transposeSameLabels_ax b a.labels hb
        rw [hts] at c1 v1 m1 w1
        simp only at c1 v1 m1 w1
        refine ⟨chargeRule_binaryCore _ a b1 ha w1 (by rw [hm, m1]) hca c1 hva v1 hchk r h.1.symm, ?_⟩
        rw [← h.2]
        cases tr with
        | true => exact ⟨hcb, hvb⟩
        | false => exact chargeRule_isortQdata b1 w1 c1 v1
  | false =>
    simp only [Arr.iaddPrefactorOther, bind, Except.bind, pure, Except.pure, Bool.false_eq_true, if_false] at h
    cases hbin : Arr.ibinaryBlockwise (fun x y => x + y) a (b.copy.iscalePrefactor p) with
    | error e => simp [hbin] at h
    | ok rr =>
      obtain ⟨r0, b0⟩ := rr
      simp only [hbin, Except.ok.injEq, Prod.mk.injEq] at h
      have hbs : (b.copy.iscalePrefactor p).WF := Arr.WF_iscalePrefactor b p hb
      have hcs : (b.copy.iscalePrefactor p).ChargeRule ∧ LegsValid (b.copy.iscalePrefactor p)
          ∧ (b.copy.iscalePrefactor p).mods = b.mods := by
        unfold Arr.iscalePrefactor Arr.copy
        split
        · exact ⟨fun q hq => by simp at hq, hvb, rfl⟩
        · exact ⟨hcb, hvb, rfl⟩
      have := chargeRule_ibinaryBlockwise _ a _ r0 b0 ha hbs (by rw [hm, hcs.2.2]) hca hcs.1 hva hcs.2.1 hbin
      rw [← h.1, ← h.2]
      exact ⟨this.1, ⟨hcb, hvb⟩⟩

end TenpyModel.C01C
