import TenpyModel.C01.C_CombR2
import TenpyModel.C01.B2_CombEx
/-!
C01 part C — non-vacuity of `combineLegs_specR` on `Comb.Ex.t3` (rank 3 over U(1)×Z₃, duplicate sector, two stored
blocks in unsorted order, one anonymous leg; worker branch) and `Comb.Ex.t1` (one stored block: the
`stored_blocks == 1` shortcut): hypotheses by `decide`, the reference value compared with the model's run by `decide`
(without and with the transposition step, groups by index and by label).
-/
namespace TenpyModel.C01C.CombREx
open TenpyModel.Core TenpyModel.C01B TenpyModel.C01B2 TenpyModel.C01B2.Comb TenpyModel.C01C
open TenpyModel.C01B2.Comb.Ex

/-- what is compared: dense array, labels, the `LegCharge` view of the legs, `chinfo.mod` -/
def obs (x : RObj Int) : Dense Int × List Label × List Leg × List Nat := (x.d, x.labels, x.legs.map ALeg.leg, x.mods)

/-- hypotheses of `combineLegs_specR` -/
example : t3.WF ∧ t1.WF ∧ (∀ c ∈ [[Ax.idx 1, Ax.idx 2]], c ≠ []) ∧ (∀ c ∈ [[Ax.idx 2, Ax.lbl "a"]], c ≠ []) := by decide

/-- no transposition: `t3.combine_legs([1, 2], qconj=+1)`; the index map is not the row-major reshape -/
example : (t3.combineLegs [[.idx 1, .idx 2]] none none [some 1]).toOption.map (fun r => obs r.toR)
    = some (obs (refCombine t3.toR [[.idx 1, .idx 2]] [some 1])) := by decide +kernel
example : (refCombine t3.toR [[.idx 1, .idx 2]] [some 1]).d.shape = [4, 12]
    ∧ (refCombine t3.toR [[.idx 1, .idx 2]] [some 1]).labels = [some "a", some "(b.?2)"]
    ∧ (refCombine t3.toR [[.idx 1, .idx 2]] [some 1]).d.get 0 [3, 1] = -7
    ∧ (refCombine t3.toR [[.idx 1, .idx 2]] [some 1]).d.get 0 [3, 0] = 5
    ∧ t3.toDense.get 0 [3, 1, 1] = -7 ∧ (t3.toDense.reshape [4, 12]).get 0 [3, 1] = 5 := by decide +kernel
/-- the legs of the reference result are the model's pipes (`ALeg` has no `DecidableEq`: `rfl`) -/
example : (refCombine t3.toR [[.idx 1, .idx 2]] [some 1]).legs = [.plain legA, pBC] := rfl

/-- with the transposition step (`transp = [1, 2, 0]`), one group member given by label:
`t3.combine_legs([2, 'a'], qconj=+1)` -/
example : (t3.combineLegs [[.idx 2, .lbl "a"]] none none [some 1]).toOption.map (fun r => obs r.toR)
    = some (obs (refCombine t3.toR [[.idx 2, .lbl "a"]] [some 1])) := by decide +kernel
example : (refCombine t3.toR [[.idx 2, .lbl "a"]] [some 1]).d.shape = [3, 16]
    ∧ (refCombine t3.toR [[.idx 2, .lbl "a"]] [some 1]).labels = [some "b", some "(?2.a)"]
    ∧ (refCombine t3.toR [[.idx 2, .lbl "a"]] [some 1]).d.get 0 [1, 7] = -7 := by decide +kernel
/-- default direction of the pipe (`qconj = None`: that of the first leg of the group), first two legs -/
example : (t3.combineLegs [[.idx 0, .idx 1]] none none [none]).toOption.map (fun r => obs r.toR)
    = some (obs (refCombine t3.toR [[.idx 0, .idx 1]] [none])) := by decide +kernel
/-- one stored block (`stored_blocks == 1` branch) -/
example : (t1.combineLegs [[.idx 0, .idx 1]] none none [some 1]).toOption.map (fun r => obs r.toR)
    = some (obs (refCombine t1.toR [[.idx 0, .idx 1]] [some 1])) := by decide +kernel
/-- the theorem applied -/
example (r : Arr Int) (h : t3.combineLegs [[.idx 2, .lbl "a"]] none none [some 1] = .ok r) :
    r.toR = refCombine t3.toR [[.idx 2, .lbl "a"]] [some 1] ∧ r.WF :=
  combineLegs_specR t3 r (by decide) _ _ (by decide) h

end TenpyModel.C01C.CombREx
