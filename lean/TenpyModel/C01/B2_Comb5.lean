import TenpyModel.C01.B2_Comb4
/-!
C01 part B2 — part 5: what `combineStd` returns for arbitrary groups / spectators (all three branches):
legs, labels length, `qtotal`, and the stored blocks as a `GroupSpec` of the source rows `combineRow …`, with keys
sorted (for the `_qdata_sorted` claim).
-/
namespace TenpyModel.C01B2.Comb
open TenpyModel.Core TenpyModel.C01B

variable {α : Type}

/-- the axes that are not combined -/
def cNonComb (rank : Nat) (cl : List (List Nat)) : List Nat :=
  (List.range rank).filter (fun x => !cl.flatten.contains x)

/-- the legs of the result -/
def cLegs (a : Arr α) (cl : List (List Nat)) (newAxes : List Nat) (pipes : List ALeg) : List ALeg :=
  insFold (pick a.legs (cNonComb a.rank cl) default) newAxes pipes

/-- result axes that are not pipes -/
def cNonNew (n : Nat) (newAxes : List Nat) : List Nat := (List.range n).filter (fun i => !newAxes.contains i)

def cPs (pipes : List ALeg) : List Pipe :=
  pipes.filterMap (fun p => match p with | .pipe q _ => some q | .plain _ => none)

/-- the source rows of `_combine_legs_worker` -/
def cRowsG (a : Arr α) (cl : List (List Nat)) (newAxes : List Nat) (pipes : List ALeg) :
    List ((List Nat × List Nat × List Nat) × Blk α) :=
  (a.qdata.zip a.data).map (fun rb =>
    (Arr.combineRow a.lcs (cLegs a cl newAxes pipes).length cl (cNonComb a.rank cl) newAxes
      (cNonNew (cLegs a cl newAxes pipes).length newAxes) (cPs pipes) rb.1, rb.2))

theorem zeros_ok2 (mods : List Nat) (legs : List ALeg) (qt : Option Charge) (ls : List Label) (r : Arr α)
    (h : Arr.zeros mods legs qt (some ls) = .ok r) :
    r = { mods, legs, qtotal := makeValid mods (qt.getD (czero mods.length)),
          labels := ls, qdata := [], data := [], qdataSorted := true } ∧ ls.length = legs.length := by
  unfold Arr.zeros at h
  split at h
  · simp at h
  · split at h
    · simp at h
    · simp only [Arr.isetLegLabels] at h
      split at h
      · simp at h
      · rename_i hlen
        split at h
        · simp at h
        · simp only [Except.ok.injEq] at h
          exact ⟨h.symm, by simpa [Arr.rank] using hlen⟩

/-- the keys of `groupRuns` are a sublist of the keys of the input -/
theorem groupRuns_keys_sublist {κ β : Type} [DecidableEq κ] (L : List (κ × β)) :
    ((Arr.groupRuns L).map (·.1)).Sublist (L.map (·.1)) := by
  induction L with
  | nil => simp [Arr.groupRuns]
  | cons x L ih =>
    obtain ⟨k, v⟩ := x
    rw [groupRuns_cons]
    cases hg : Arr.groupRuns L with
    | nil => simp
    | cons g' gs =>
      obtain ⟨k', vs⟩ := g'
      rw [hg] at ih
      simp only
      split
      · rename_i hk
        subst hk
        simp only [List.map_cons] at ih ⊢
        exact List.Sublist.trans ih (List.sublist_cons_self _ _)
      · simp only [List.map_cons] at ih ⊢
        exact List.Sublist.cons_cons _ ih

theorem worker_keys_sorted (rows : List ((List Nat × List Nat × List Nat) × Blk α)) :
    ((Arr.groupRuns ((pick rows (lexsortNat (rows.map (fun x => x.1.1))) (([], [], []), ⟨[], []⟩)).map
      (fun r => (r.1.1, r.1.2.1, r.1.2.2, r.2)))).map (·.1)).Pairwise
        (fun x y => lexLE (x.map Int.ofNat) (y.map Int.ofNat) = true) := by
  obtain ⟨_, hsorted⟩ := pick_lexsort rows (fun x => x.1.1) (([], [], []), ⟨[], []⟩)
  refine List.Pairwise.sublist (groupRuns_keys_sublist _) ?_
  rw [List.map_map, List.pairwise_map]
  exact hsorted

section zero
variable [Zero α]

/-- what `combineStd` returns -/
theorem combineStd_out (a : Arr α) (ha : W a) (cl : List (List Nat)) (newAxes : List Nat) (pipes : List ALeg)
    (labels : List String) (r : Arr α) (h : a.combineStd cl newAxes pipes labels = .ok r) :
    r.legs = cLegs a cl newAxes pipes ∧ r.mods = a.mods ∧ r.qtotal = makeValid a.mods a.qtotal
    ∧ r.labels.length = r.legs.length ∧ r.qdataSorted = true
    ∧ ∃ G, GroupSpec G (cRowsG a cl newAxes pipes) ∧ r.qdata = G.map (·.1) ∧ r.data = G.map (cFold r.lcs)
        ∧ (G.map (·.1)).Pairwise (fun x y => lexLE (x.map Int.ofNat) (y.map Int.ofNat) = true) := by
  unfold Arr.combineStd at h
  simp only [bind, Except.bind, pure, Except.pure] at h
  split at h
  · simp at h
  · rename_i v hz
    obtain ⟨hv, hlab⟩ := zeros_ok2 _ _ _ _ _ hz
    clear hz
    subst hv
    split at h
    · -- no blocks
      rename_i h0
      simp only [Except.ok.injEq] at h
      subst h
      refine ⟨rfl, rfl, rfl, hlab, rfl, [], ⟨by simp, by simp, ?_⟩, rfl, rfl, by simp⟩
      have hd : a.data = [] := List.length_eq_zero_iff.1 h0
      intro e he
      simp [cRowsG, hd] at he
    · split at h
      · -- one block
        rename_i h1
        have hlen : (a.qdata.zip a.data).length = 1 := by
          simp only [List.length_zip, ha.len]
          simpa [Arr.storedBlocks] using h1
        obtain ⟨rb, hrb⟩ := List.length_eq_one_iff.1 hlen
        simp only [hrb, List.map_cons, List.map_nil, Except.ok.injEq] at h
        subst h
        refine ⟨rfl, rfl, rfl, hlab, rfl,
          [((Arr.combineRow a.lcs (cLegs a cl newAxes pipes).length cl (cNonComb a.rank cl) newAxes
              (cNonNew (cLegs a cl newAxes pipes).length newAxes) (cPs pipes) rb.1).1,
            [((Arr.combineRow a.lcs (cLegs a cl newAxes pipes).length cl (cNonComb a.rank cl) newAxes
              (cNonNew (cLegs a cl newAxes pipes).length newAxes) (cPs pipes) rb.1).2.1,
              (Arr.combineRow a.lcs (cLegs a cl newAxes pipes).length cl (cNonComb a.rank cl) newAxes
              (cNonNew (cLegs a cl newAxes pipes).length newAxes) (cPs pipes) rb.1).2.2, rb.2)])],
          ⟨by simp, ?_, ?_⟩, rfl, ?_, by simp⟩
        · intro g hg s hs
          simp only [List.mem_singleton] at hg
          subst hg
          simp only [List.mem_singleton] at hs
          subst hs
          simp only [cRowsG, hrb, List.map_cons, List.map_nil, List.mem_singleton]
        · intro e he
          simp only [cRowsG, hrb, List.map_cons, List.map_nil, List.mem_singleton] at he
          subst he
          exact ⟨_, List.mem_singleton.2 rfl, rfl, List.mem_singleton.2 rfl⟩
        · simp only [cFold, List.map_cons, List.map_nil, List.foldl_cons, List.foldl_nil]
          rfl
      · -- the worker
        simp only [Except.ok.injEq] at h
        subst h
        refine ⟨rfl, rfl, rfl, hlab, rfl, _, groupSpec_worker (cRowsG a cl newAxes pipes), rfl, rfl,
          worker_keys_sorted (cRowsG a cl newAxes pipes)⟩

end zero
end TenpyModel.C01B2.Comb
