import TenpyModel.C01.B2_Trace4
/-!
C01 part B2 — `trace` of a tensor of rank > 2, step 5: well-formedness of the result, the dense statement
`to_ndarray(trace(a, l1, l2)) = np.trace(to_ndarray(a), axis1, axis2)` and the main lemma `trace_arr`.
-/
namespace TenpyModel.C01B2
open TenpyModel.Core TenpyModel.C01B

set_option linter.unusedSectionVars false

variable {α : Type} [CommSemiring α]

/-- the index of the full tensor, spelled out -/
theorem fullIdx_explicit (n ax1 ax2 t : Nat) (idx : List Nat) :
    Dense.fullIdx n [ax1, ax2] (fun _ => t) idx
      = (List.range n).map (fun k => if k = ax1 ∨ k = ax2 then t
          else idx.getD (((List.range n).filter (fun k => k ≠ ax1 ∧ k ≠ ax2)).idxOf k) 0) := by
  unfold Dense.fullIdx
  rw [keep_eq]
  apply List.map_congr_left
  intro k _
  by_cases hk : k = ax1 ∨ k = ax2
  · rw [if_pos hk, if_pos (by simpa using hk)]
  · rw [if_neg hk, if_neg (by simpa using hk)]

namespace TrCtx
variable {a : Arr α} {ax1 ax2 : Nat} (c : TrCtx a ax1 ax2)
include c

theorem indLen_eq : (a.lc ax1).indLen = (a.lc ax2).indLen := Arr.indLen_congr _ _ c.hsl

theorem res_rank (acc : List (List Nat × Blk α)) :
    (trRes a ax1 ax2 acc).rank = (Dense.keepAx a.rank [ax1, ax2]).length := by
  rw [← lcs_length, trRes_lcs, List.length_map]

theorem res_lc (acc : List (List Nat × Blk α)) (j : Nat) (hj : j < (Dense.keepAx a.rank [ax1, ax2]).length) :
    (trRes a ax1 ax2 acc).lc j = a.lc ((Dense.keepAx a.rank [ax1, ax2]).getD j 0) := by
  rw [← Arr.lc_eq _ j (by rw [c.res_rank]; exact hj), trRes_lcs, getD_map' a.lc _ j 0 default hj]

/-- the result of `trace` is well formed -/
theorem res_WF (ha : a.WF) : (trRes a ax1 ax2 (traceAcc a ax1 ax2)).WF := by
  obtain ⟨ok, _, hkeys⟩ := c.acc_ok
  refine ⟨?_, ?_, ok.nodup, ?_, ?_, ?_, ?_⟩
  · rw [c.res_rank]
    simp [trRes, pick]
  · simp [trRes]
  · intro l hl
    rw [trRes_lcs] at hl
    obtain ⟨k, hk, rfl⟩ := List.mem_map.1 hl
    exact ha.legs_ok _ (Arr.lc_mem_lcs_sl a k ((Dense.mem_keepAx _ _ _).1 hk).1)
  · intro r hr
    have hr' : r ∈ (traceList a ax1 ax2).map (·.1) := (hkeys r).1 hr
    unfold traceList at hr'
    rw [List.map_map] at hr'
    obtain ⟨rb, hrb, rfl⟩ := List.mem_map.1 hr'
    have hm : rb.1 ∈ a.qdata := (List.of_mem_zip (List.mem_filter.1 hrb).1).1
    simp only [Function.comp]
    rw [c.res_rank]
    refine ⟨Dense.pick_length_sl _ _ _, ?_⟩
    intro k hk
    obtain ⟨g1, _⟩ := Dense.keepAx_getD_mem a.rank [ax1, ax2] k hk
    rw [Dense.pick_getD_sl _ _ _ _ hk, c.res_lc _ k hk]
    exact c.wa.rowLt _ hm _ g1
  · intro rb hrb
    rw [trRes_zip] at hrb
    obtain ⟨s1, s2⟩ := ok.shape rb hrb
    rw [trRes_lcs]
    refine ⟨s1, ?_⟩
    rw [prod_eq]
    exact s2
  · intro hs
    have : traceAcc a ax1 ax2 = [] := List.isEmpty_iff.1 hs
    show isLexsorted ((traceAcc a ax1 ax2).map (·.1)) = true
    rw [this]
    rfl

/-- **dense form of the trace** -/
theorem res_toDense : (trRes a ax1 ax2 (traceAcc a ax1 ax2)).toDense = Dense.trace a.toDense ax1 ax2 := by
  have hrank : a.toDense.rank = a.rank := by
    unfold Dense.rank; rw [toDense_shape]; exact Arr.shape_length a
  refine toDense_eq_of_get _ _ ?_ (trace_good _ _ _) ?_
  · rw [trace_shape, hrank, toDense_shape, trRes_shape]
  · intro idx hi
    have hi2 : InRange idx ((Dense.keepAx a.rank [ax1, ax2]).map (fun k => a.shape.getD k 0)) := by
      rw [← trRes_shape a ax1 ax2 (traceAcc a ax1 ax2)]; exact hi
    rw [c.entry_eq idx hi, get_trace a.toDense ax1 ax2 idx (by rw [hrank, toDense_shape]; exact hi2), hrank,
      toDense_shape, Arr.shape_getD_sl a ax1 c.h1, Arr.shape_getD_sl a ax2 c.h2, ← c.indLen_eq, Nat.min_self]
    apply sum_map_congr
    intro t ht
    apply toDense_get
    apply Arr.fullIdx_inRange a _ _ _ idx hi2
    intro k hk
    rcases (mem_pair ax1 ax2 k).1 hk with rfl | rfl
    · exact List.mem_range.1 ht
    · rw [← c.indLen_eq]; exact List.mem_range.1 ht

end TrCtx

/-- **`trace(a, leg1, leg2)` for a tensor of rank ≠ 2** (the branch returning a tensor): the legs may be given by
index or label, in general position and either order. The result `r` has the remaining legs / labels in order, the
(reduced) total charge of `a`, is well formed, its dense form is `np.trace(to_ndarray(a), axis1, axis2)`, and
entry-wise `r[idx] = Σ_t a[idx with t inserted at both traced axes]`. -/
theorem trace_arr (a : Arr α) (ha : a.WF) (l1 l2 : Ax) (v : Val α) (h : a.trace l1 l2 = .ok v) (hr : a.rank ≠ 2) :
    ∃ ax1 ax2 r, a.getLegIndex l1 = .ok ax1 ∧ a.getLegIndex l2 = .ok ax2
      ∧ ax1 ≠ ax2 ∧ ax1 < a.rank ∧ ax2 < a.rank ∧ 2 < a.rank
      ∧ v = .arr r
      ∧ r.toDense = Dense.trace a.toDense ax1 ax2
      ∧ (∀ idx, InRange idx r.shape → r.entry idx = ((List.range (a.shape.getD ax1 0)).map (fun t =>
            a.entry ((List.range a.rank).map (fun k => if k = ax1 ∨ k = ax2 then t
              else idx.getD (((List.range a.rank).filter (fun k => k ≠ ax1 ∧ k ≠ ax2)).idxOf k) 0)))).sum)
      ∧ a.shape.getD ax1 0 = a.shape.getD ax2 0
      ∧ r.shape = ((List.range a.rank).filter (fun k => k ≠ ax1 ∧ k ≠ ax2)).map (fun k => a.shape.getD k 0)
      ∧ r.legs = pick a.legs ((List.range a.rank).filter (fun k => k ≠ ax1 ∧ k ≠ ax2)) default
      ∧ r.labels = pick a.labels ((List.range a.rank).filter (fun k => k ≠ ax1 ∧ k ≠ ax2)) none
      ∧ r.qtotal = makeValid a.mods a.qtotal ∧ r.mods = a.mods
      ∧ (r.qdataSorted = true → r.qdata = [])
      ∧ r.WF := by
  obtain ⟨ax1, ax2, g1, g2, hne, hc, hv⟩ := trace_unfold a l1 l2 v h hr
  have lt1 := getLegIndex_lt a ha.1 l1 ax1 g1
  have lt2 := getLegIndex_lt a ha.1 l2 ax2 g2
  have c : TrCtx a ax1 ax2 := ⟨W.of ha, lt1, lt2, hne, slices_of_testContractible _ _ hc⟩
  refine ⟨ax1, ax2, _, g1, g2, hne, lt1, lt2, by omega, hv, c.res_toDense, ?_, ?_, ?_, ?_, ?_, rfl, rfl, ?_,
    c.res_WF ha⟩
  · intro idx hi
    rw [c.entry_eq idx hi, Arr.shape_getD_sl a ax1 lt1]
    apply sum_map_congr
    intro t _
    rw [fullIdx_explicit]
  · rw [Arr.shape_getD_sl a ax1 lt1, Arr.shape_getD_sl a ax2 lt2]; exact c.indLen_eq
  · rw [keep_eq]; exact trRes_shape a ax1 ax2 _
  · rw [keep_eq]; rfl
  · rw [keep_eq]; rfl
  · intro hs
    have : traceAcc a ax1 ax2 = [] := List.isEmpty_iff.1 hs
    show (traceAcc a ax1 ax2).map (·.1) = []
    rw [this]; rfl

end TenpyModel.C01B2

/-! ### non-vacuity -/

namespace C01ExampleB2T
open TenpyModel.Core C01Example
/-- rank 3, legs `legA, legB, legA.conj` (U(1)×Z₃, `legA` has the sector (0,1) twice), `qtotal = (-1, 0)`.
Stored: the three diagonal blocks (2,0,2), (0,0,0), (1,0,1) — all of them accumulate into the new row `[0]` —
and the off-diagonal block (2,0,0) of the duplicate sector, which the trace must skip. Block list unsorted. -/
def s3 : Arr Int :=
  { mods := [1, 3], legs := [.plain legA, .plain legB, .plain legA.conj], qtotal := [-1, 0],
    labels := [some "a", some "b*", some "a*"],
    qdata := [[2, 0, 2], [2, 0, 0], [0, 0, 0], [1, 0, 1]],
    data := [⟨[1, 2, 1], [3, 4]⟩, ⟨[1, 2, 1], [100, 200]⟩, ⟨[1, 2, 1], [10, 20]⟩, ⟨[2, 2, 2], [1, 2, 3, 4, 5, 6, 7, 8]⟩],
    qdataSorted := false }
/-- the traced legs first: legs `legA, legA.conj, legB`; only off-diagonal blocks are stored -/
def s3off : Arr Int :=
  { mods := [1, 3], legs := [.plain legA, .plain legA.conj, .plain legB], qtotal := [-1, 0],
    labels := [some "a", some "a*", some "b*"],
    qdata := [[2, 0, 0], [0, 2, 0]], data := [⟨[1, 1, 2], [100, 200]⟩, ⟨[1, 1, 2], [5, 6]⟩], qdataSorted := false }
def trOut (a : Arr Int) (l1 l2 : Ax) : Option (Dense Int × List (List Nat) × List (Dense Int)) :=
  match a.trace l1 l2 with
  | .ok (.arr r) => some (r.toDense, r.qdata, r.data)
  | _ => none
def trMeta (a : Arr Int) (l1 l2 : Ax) : Option (Charge × List Label × Bool) :=
  match a.trace l1 l2 with
  | .ok (.arr r) => some (r.qtotal, r.labels, r.qdataSorted)
  | _ => none
end C01ExampleB2T

open TenpyModel.Core in
example : C01ExampleB2T.s3.WF ∧ C01ExampleB2T.s3.ChargeRule ∧ C01ExampleB2T.s3off.WF ∧ C01ExampleB2T.s3off.ChargeRule := by
  decide
open TenpyModel.Core in
/-- three source blocks accumulate into one new row; the off-diagonal block is skipped -/
example : C01ExampleB2T.trOut C01ExampleB2T.s3 (.lbl "a") (.lbl "a*")
    = some (⟨[3], [20, 35, 0]⟩, [[0]], [⟨[2], [20, 35]⟩]) := by decide
open TenpyModel.Core in
example : C01ExampleB2T.trMeta C01ExampleB2T.s3 (.lbl "a") (.lbl "a*") = some ([-1, 0], [some "b*"], false) := by decide
open TenpyModel.Core in
/-- the legs in the other order, by index -/
example : C01ExampleB2T.trOut C01ExampleB2T.s3 (.idx (-1)) (.idx 0)
    = some (Dense.trace C01ExampleB2T.s3.toDense 2 0, [[0]], [⟨[2], [20, 35]⟩]) := by decide
open TenpyModel.Core in
example : Dense.trace C01ExampleB2T.s3.toDense 0 2 = ⟨[3], [20, 35, 0]⟩ := by decide
open TenpyModel.Core in
/-- no diagonal block: the result stores nothing and keeps the (truthful) claim `_qdata_sorted = True` -/
example : C01ExampleB2T.trOut C01ExampleB2T.s3off (.lbl "a") (.lbl "a*")
    = some (Dense.trace C01ExampleB2T.s3off.toDense 0 1, [], []) := by decide
open TenpyModel.Core in
example : C01ExampleB2T.trMeta C01ExampleB2T.s3off (.lbl "a") (.lbl "a*") = some ([-1, 0], [some "b*"], true) := by
  decide
