import TenpyModel.C01.B_Dot
import TenpyModel.C01.B_Group
import TenpyModel.C01.B_Charge
import TenpyModel.C01.B_SetBlock
/-!
C01 part B2 — generic list facts for `_tensordot_worker`: `lexLE` on concatenated rows, gathering along `lexsort`,
lists of `(keep-row, contracted key, block)` triples sorted the way `_tensordot_pre_worker` sorts them, and the
groups (`groupKeep`) of such a list.
-/
namespace TenpyModel.C01B2
open TenpyModel.Core TenpyModel.C01B

/-! ### lexLE on concatenations -/

theorem lexLE_nil : lexLE [] [] = true := lexLE_refl []

/-- the last columns are the primary key: rows `x ++ y` compare by `y`, then by `x` -/
theorem lexLE_append (x1 x2 y1 y2 : List Int) (hx : x1.length = x2.length) (hy : y1.length = y2.length) :
    lexLE (x1 ++ y1) (x2 ++ y2) = if y1 = y2 then lexLE x1 x2 else lexLE y1 y2 := by
  induction x1 generalizing x2 with
  | nil =>
    cases x2 with
    | nil =>
      simp only [List.nil_append]
      split
      · rename_i h; subst h; rw [lexLE_refl, lexLE_nil]
      · rfl
    | cons _ _ => simp at hx
  | cons a x1 ih =>
    cases x2 with
    | nil => simp at hx
    | cons b x2 =>
      simp only [List.length_cons, Nat.add_right_cancel_iff] at hx
      simp only [List.cons_append]
      rw [lexLE_cons _ _ _ _ (by simp [hx, hy]), lexLE_cons _ _ _ _ hx, ih x2 hx]
      by_cases hy' : y1 = y2
      · subst hy'
        simp only [List.append_cancel_right_eq, if_true]
      · have hne : x1 ++ y1 ≠ x2 ++ y2 := fun e => hy' (List.append_inj e hx).2
        simp only [hne, hy', if_false]

theorem map_ofNat_inj (a b : List Nat) (h : a.map Int.ofNat = b.map Int.ofNat) : a = b :=
  List.map_injective_iff.2 (fun x y hxy => by simpa using hxy) h

/-- rows of naturals: `x ++ y` compare by `y`, then by `x` -/
theorem lexLE_append_nat (x1 x2 y1 y2 : List Nat) (hx : x1.length = x2.length) (hy : y1.length = y2.length) :
    lexLE ((x1 ++ y1).map Int.ofNat) ((x2 ++ y2).map Int.ofNat)
      = if y1 = y2 then lexLE (x1.map Int.ofNat) (x2.map Int.ofNat) else lexLE (y1.map Int.ofNat) (y2.map Int.ofNat) := by
  rw [List.map_append, List.map_append, lexLE_append _ _ _ _ (by simp [hx]) (by simp [hy])]
  by_cases h : y1 = y2
  · subst h; simp
  · have : y1.map Int.ofNat ≠ y2.map Int.ofNat := fun e => h (map_ofNat_inj _ _ e)
    simp [h, this]

/-! ### gathering along an index list -/

theorem filterMap_getElem? {β} (l : List β) (idx : List Nat) (d : β) (h : ∀ i ∈ idx, i < l.length) :
    idx.filterMap (fun i => l[i]?) = pick l idx d := by
  unfold pick
  induction idx with
  | nil => rfl
  | cons i idx ih =>
    have hi := h i (by simp)
    simp only [List.filterMap_cons, List.getElem?_eq_getElem hi, List.map_cons, getD_lt l i d hi]
    rw [ih (fun j hj => h j (by simp [hj]))]

/-- contracted key first, then the keep-row: the sort key of `_tensordot_pre_sort` -/
def nkey {β} (x : List Nat × Nat × β) : List Nat := x.2.1 :: x.1

/-- `rows[np.lexsort(...)]` as coded in the worker: a permutation of the rows, sorted by `nkey` -/
theorem sortRows_spec {β} (rows : List (List Nat × Nat × β)) :
    ((lexsort (rows.map (fun r => (Int.ofNat r.2.1) :: r.1.map Int.ofNat))).filterMap (fun i => rows[i]?)).Perm rows
    ∧ ((lexsort (rows.map (fun r => (Int.ofNat r.2.1) :: r.1.map Int.ofNat))).filterMap (fun i => rows[i]?)).Pairwise
        (fun x y => lexLE ((nkey x).map Int.ofNat) ((nkey y).map Int.ofNat) = true) := by
  cases rows with
  | nil => simp
  | cons d rest =>
    have e : lexsort ((d :: rest).map (fun r => (Int.ofNat r.2.1) :: r.1.map Int.ofNat))
        = lexsortNat ((d :: rest).map nkey) := by
      unfold lexsortNat natRows nkey
      rw [List.map_map]
      rfl
    rw [e]
    have hp : (lexsortNat ((d :: rest).map nkey)).Perm (List.range (d :: rest).length) := by
      have := lexsort_perm (natRows ((d :: rest).map nkey))
      simpa [lexsortNat, natRows] using this
    rw [filterMap_getElem? _ _ d (fun i hi => by simpa using hp.mem_iff.1 hi)]
    exact pick_lexsort (d :: rest) nkey d

/-! ### sorted triple lists -/

/-- a list of `(keep-row, contracted key, block)` triples as `_tensordot_pre_worker` leaves it: sorted by keep-row
(last column first) and then by key, no two entries with the same keep-row and key, keep-rows of length `cut` -/
structure Sorted3 {β} (cut : Nat) (L : List (List Nat × Nat × β)) : Prop where
  sorted : L.Pairwise (fun x y => lexLE ((nkey x).map Int.ofNat) ((nkey y).map Int.ofNat) = true)
  nodup : (L.map (fun x => (x.1, x.2.1))).Nodup
  len : ∀ x ∈ L, x.1.length = cut

/-- the entries with keep-row `qi`, as `(key, block)` pairs in stored order -/
def grp {β} (L : List (List Nat × Nat × β)) (qi : List Nat) : List (Nat × β) :=
  (L.filter (fun x => x.1 = qi)).map (fun x => (x.2.1, x.2.2))

theorem nkey_le_keep {β} (x y : List Nat × Nat × β) (hl : x.1.length = y.1.length)
    (h : lexLE ((nkey x).map Int.ofNat) ((nkey y).map Int.ofNat) = true) :
    lexLE (x.1.map Int.ofNat) (y.1.map Int.ofNat) = true := by
  unfold nkey at h
  simp only [List.map_cons] at h
  rw [lexLE_cons _ _ _ _ (by simp [hl])] at h
  split at h
  · rename_i e; rw [e]; exact lexLE_refl _
  · exact h

theorem nkey_le_key {β} (x y : List Nat × Nat × β) (he : x.1 = y.1)
    (h : lexLE ((nkey x).map Int.ofNat) ((nkey y).map Int.ofNat) = true) : x.2.1 ≤ y.2.1 := by
  unfold nkey at h
  simp only [List.map_cons] at h
  rw [lexLE_cons _ _ _ _ (by simp [he]), he] at h
  simp only [if_true, decide_eq_true_eq] at h
  have : (x.2.1 : Int) ≤ y.2.1 := h
  omega

variable {β : Type}

theorem Sorted3.adj {cut : Nat} {L : List (List Nat × Nat × β)} (h : Sorted3 cut L) :
    Adj (L.map (fun x => (x.1, (x.2.1, x.2.2)))) := by
  apply adj_of_sorted (fun a b : List Nat => lexLE (a.map Int.ofNat) (b.map Int.ofNat) = true)
    (fun a b h1 h2 => natRows_lexLE_antisymm a b h1 h2)
  rw [List.pairwise_map]
  exact h.sorted.imp_of_mem (fun {x y} hx hy hxy => nkey_le_keep x y ((h.len x hx).trans (h.len y hy).symm) hxy)

theorem filter_map_fst (L : List (List Nat × Nat × β)) (qi : List Nat) :
    ((L.map (fun x => (x.1, (x.2.1, x.2.2)))).filter (fun x => x.1 = qi)).map (·.2) = grp L qi := by
  unfold grp
  rw [List.filter_map, List.map_map]
  rfl

/-- the groups of `groupKeep` are the fibres `grp L key`, the keys are distinct and exhaust the keep-rows -/
theorem Sorted3.groups {cut : Nat} {L : List (List Nat × Nat × β)} (h : Sorted3 cut L) :
    (∀ g ∈ Arr.groupRuns (L.map (fun x => (x.1, (x.2.1, x.2.2)))), g.2 = grp L g.1 ∧ g.2 ≠ [])
    ∧ ((Arr.groupRuns (L.map (fun x => (x.1, (x.2.1, x.2.2))))).map (·.1)).Nodup
    ∧ (∀ x ∈ L, x.1 ∈ (Arr.groupRuns (L.map (fun x => (x.1, (x.2.1, x.2.2))))).map (·.1))
    ∧ (∀ g ∈ Arr.groupRuns (L.map (fun x => (x.1, (x.2.1, x.2.2)))), g.1.length = cut) := by
  obtain ⟨g1, g2, g3⟩ := groupRuns_spec _ h.adj
  refine ⟨fun g hg => ?_, g2, fun x hx => ?_, fun g hg => ?_⟩
  · have := g1 g hg
    rw [filter_map_fst] at this
    exact this
  · exact g3 (x.1, (x.2.1, x.2.2)) (List.mem_map.2 ⟨x, hx, rfl⟩)
  · have := groupRuns_keys_sub _ g hg
    rw [List.map_map] at this
    obtain ⟨x, hx, hxe⟩ := List.mem_map.1 this
    rw [← hxe]
    exact h.len x hx

/-- within a group the contracted keys increase strictly -/
theorem Sorted3.grp_keys {cut : Nat} {L : List (List Nat × Nat × β)} (h : Sorted3 cut L) (qi : List Nat) :
    ((grp L qi).map (·.1)).Pairwise (· < ·) := by
  unfold grp
  rw [List.map_map, List.pairwise_map]
  have hnd : L.Pairwise (fun x y => (x.1, x.2.1) ≠ (y.1, y.2.1)) := by
    have := h.nodup
    rw [List.nodup_iff_pairwise_ne, List.pairwise_map] at this
    exact this
  have hboth := (h.sorted.and hnd).filter (fun x => decide (x.1 = qi))
  refine hboth.imp_of_mem (fun {x y} hx hy hxy => ?_)
  have ex : x.1 = qi := by simpa using (List.mem_filter.1 hx).2
  have ey : y.1 = qi := by simpa using (List.mem_filter.1 hy).2
  have hle := nkey_le_key x y (ex.trans ey.symm) hxy.1
  have hne : x.2.1 ≠ y.2.1 := fun e => hxy.2 (by rw [ex, ey, e])
  simp only [Function.comp]
  omega

/-- keys of the groups are sorted by `lexLE` (strictly: they are distinct) -/
theorem groupRuns_keys_sublist {κ γ : Type} [DecidableEq κ] (L : List (κ × γ)) :
    ((Arr.groupRuns L).map (·.1)).Sublist (L.map (·.1)) := by
  induction L with
  | nil => simp [Arr.groupRuns]
  | cons x L ih =>
    obtain ⟨k, v⟩ := x
    rw [groupRuns_cons]
    cases hg : Arr.groupRuns L with
    | nil => simp
    | cons g' gs =>
      obtain ⟨k', vs⟩ := g'
      rw [hg] at ih
      simp only
      split
      · rename_i e
        subst e
        simp only [List.map_cons] at ih ⊢
        exact List.Sublist.cons _ ih
      · simp only [List.map_cons] at ih ⊢
        exact List.Sublist.cons_cons _ ih

theorem Sorted3.group_keys_sorted {cut : Nat} {L : List (List Nat × Nat × β)} (h : Sorted3 cut L) :
    ((Arr.groupRuns (L.map (fun x => (x.1, (x.2.1, x.2.2))))).map (·.1)).Pairwise
      (fun a b => lexLE (a.map Int.ofNat) (b.map Int.ofNat) = true) := by
  have hs := groupRuns_keys_sublist (L.map (fun x => (x.1, (x.2.1, x.2.2))))
  apply List.Pairwise.sublist hs
  rw [List.map_map, List.pairwise_map]
  exact h.sorted.imp_of_mem (fun {x y} hx hy hxy => nkey_le_keep x y ((h.len x hx).trans (h.len y hy).symm) hxy)

/-- `grp` only depends on the list up to permutation — as a multiset -/
theorem grp_perm {L L' : List (List Nat × Nat × β)} (hp : L.Perm L') (qi : List Nat) : (grp L qi).Perm (grp L' qi) :=
  (hp.filter _).map _

/-! ### rewriting the index loop over the groups of `a` -/

theorem range_filter_filterMap {γ δ} (l : List γ) (d : γ) (P : γ → Bool) (F : γ → Option δ) :
    ((List.range l.length).filter (fun i => P (l.getD i d))).filterMap (fun i => F (l.getD i d))
      = l.filterMap (fun x => if P x = true then F x else none) := by
  conv => rhs; rw [← map_getD_range l d]
  rw [List.filterMap_map, List.filterMap_filter]
  rfl

end TenpyModel.C01B2
