import TenpyModel.C01.C_Sort9
/-!
C01 part C — `sort_legcharge`, part 10: the specification `sortLegcharge_spec` of `Array.sort_legcharge(sort, bunch)`
(one bool per leg): returned permutations, dense form `cp = a[np.ix_(*perms)]`, legs (charges follow the
permutation, flags as requested), labels, total charge, well-formedness.
-/
namespace TenpyModel.C01C.SortLc
open TenpyModel.Core TenpyModel.C01B TenpyModel.C01B2.Comb

variable {α : Type}

/-- facts about the new leg of a selected axis (`hw`: the old leg satisfies the class invariant of `LegCharge`:
valid charges, `mod ≥ 1`, `qconj = ±1` — C06's `Leg.WF`, decidable) -/
theorem sLeg_selected (a : Arr α) (sort bunch : List Bool) (k : Nat)
    (hc : (sAxes a.rank sort bunch).contains k = true) (hw : (a.lc k).WF) :
    (sLeg a sort bunch k).leg.toQflat = (sPerm a sort bunch k).map ((a.lc k).toQflat.getD · [])
    ∧ (sLeg a sort bunch k).leg.WF ∧ (sLeg a sort bunch k).leg.sane = true
    ∧ (sort.getD k false = true → (sLeg a sort bunch k).leg.sorted = true ∧ (sLeg a sort bunch k).leg.isSorted = true)
    ∧ (bunch.getD k false = true →
        (sLeg a sort bunch k).leg.bunched = true ∧ (sLeg a sort bunch k).leg.isBunched = true) := by
  unfold sLeg sPerm
  rw [if_pos hc, if_pos hc]
  obtain ⟨f1, f2, f3, f4⟩ := onePipe_flags (a.lc k) hw (sort.getD k false) (bunch.getD k false)
  exact ⟨onePipe_qflat (a.lc k) hw _ _, f1, f2, f3, f4⟩

end TenpyModel.C01C.SortLc

namespace TenpyModel.C01C
open TenpyModel.Core TenpyModel.C01B TenpyModel.C01B2.Comb SortLc

variable {α : Type}

/-- **`Array.sort_legcharge(sort, bunch)`** — for every well-formed tensor `a`, whenever the call returns
`(perms, cp)`:
* `perms[k]` is a permutation of `range(a.shape[k])` (the identity for axes that are neither sorted nor bunched);
* `cp.to_ndarray() = a.to_ndarray()[np.ix_(*perms)]`, entry-wise `cp[idx] = a[perms_0[idx_0], perms_1[idx_1], …]`;
* legs: untouched axes keep their leg; a selected axis gets the plain leg of the one-leg pipe
  `LegPipe([leg], qconj=leg.qconj, sort[k], bunch[k])`, of the same length, and (for a leg satisfying the `LegCharge`
  invariant) `new_leg.to_qflat() = leg.to_qflat()[perms[k]]`, the new leg passes `test_sanity`, and is sorted /
  bunched as requested;
* labels, `chinfo` kept, `qtotal` kept (reduced by `make_valid`), `_qdata_sorted = True`, `cp` well formed. -/
theorem sortLegcharge_spec [Zero α] (a : Arr α) (ha : a.WF) (sort bunch : List Bool) (perms : List (List Nat))
    (cp : Arr α) (h : a.sortLegcharge sort bunch = .ok (perms, cp)) :
    (sort.length = a.rank ∧ bunch.length = a.rank)
    ∧ (perms.length = a.rank
      ∧ (∀ k, k < a.rank → (perms.getD k []).Perm (List.range (a.shape.getD k 0)))
      ∧ (∀ k, k < a.rank → (sort.getD k false || bunch.getD k false) = false →
          perms.getD k [] = List.range (a.shape.getD k 0))
      ∧ (∀ k, k < a.rank → (sort.getD k false || bunch.getD k false) = true →
          perms.getD k [] = SortLc.pipePerm (a.lc k)
            (Pipe.init [a.lc k] (a.lc k).qconj (sort.getD k false) (bunch.getD k false))))
    ∧ (cp.shape = a.shape
      ∧ (∀ idx, InRange idx a.shape → cp.entry idx = a.entry (List.zipWith (fun p i => p.getD i 0) perms idx))
      ∧ cp.toDense = Dense.ix a.toDense perms)
    ∧ (cp.rank = a.rank
      ∧ (∀ k, k < a.rank → (sort.getD k false || bunch.getD k false) = false →
          cp.legs.getD k default = a.legs.getD k default)
      ∧ (∀ k, k < a.rank → (sort.getD k false || bunch.getD k false) = true →
          cp.legs.getD k default
            = .plain (Pipe.init [a.lc k] (a.lc k).qconj (sort.getD k false) (bunch.getD k false)).leg
          ∧ (cp.lc k).indLen = (a.lc k).indLen ∧ (cp.lc k).qconj = (a.lc k).qconj
          ∧ ((a.lc k).WF →
              (cp.lc k).toQflat = (perms.getD k []).map ((a.lc k).toQflat.getD · [])
              ∧ (cp.lc k).WF ∧ (cp.lc k).sane = true
              ∧ (sort.getD k false = true → (cp.lc k).sorted = true ∧ (cp.lc k).isSorted = true)
              ∧ (bunch.getD k false = true → (cp.lc k).bunched = true ∧ (cp.lc k).isBunched = true))))
    ∧ (cp.labels = a.labels ∧ cp.mods = a.mods ∧ cp.qtotal = makeValid a.mods a.qtotal ∧ cp.qdataSorted = true)
    ∧ cp.WF := by
  obtain ⟨hl1, hl2, r, hcall, hlen, hget, hp, hc⟩ := sort_core a ha sort bunch perms cp h
  have hstd := stdForm_sel a.rank _ (sAxes_asc a.rank sort bunch) (sAxes_lt _ _ _)
  have hl1' := (sGroups_length (sAxes a.rank sort bunch)).symm
  have hl2' : (sPipes a sort bunch).length = (sGroups (sAxes a.rank sort bunch)).length := by
    rw [sPipes_length, sGroups_length]
  obtain ⟨_, _, hmods, hqt, _, _, _, hsorted, _⟩ :=
    combine_places a r ha _ _ _ _ hl1' hl2' (pipesOK_sel a sort bunch) hstd hcall
  have hrwf := combine_WF a r ha _ _ _ _ hl1' hl2' (pipesOK_sel a sort bunch) hstd hcall
  have hcp : cp = sRes a r sort bunch := hc
  subst hcp
  subst hp
  have hrank := sRes_rank a r sort bunch
  have hlc : ∀ k, k < a.rank → (sRes a r sort bunch).lc k = (sLeg a sort bunch k).leg := by
    intro k hk
    show ((sRes a r sort bunch).legs.getD k default).leg = _
    rw [sRes_legs_getD a r sort bunch k hk]
  refine ⟨⟨hl1, hl2⟩, ⟨sPerms_length a sort bunch, ?_, ?_, ?_⟩,
    ⟨sRes_shape a r sort bunch ha, fun idx hi => sort_entry a r ha sort bunch hcall hlen hget idx hi,
      sort_toDense a r ha sort bunch hcall hlen hget⟩,
    ⟨hrank, ?_, ?_⟩, ⟨rfl, hmods, hqt, hsorted⟩, ?_⟩
  · intro k hk
    rw [sPerms_getD a sort bunch k hk]
    exact sPerm_perm a ha sort bunch k hk
  · intro k hk hsel
    rw [sPerms_getD a sort bunch k hk, shape_getD a k hk]
    unfold sPerm
    rw [sAxes_mem a.rank sort bunch k hk, hsel]
    rfl
  · intro k hk hsel
    rw [sPerms_getD a sort bunch k hk]
    unfold sPerm
    rw [sAxes_mem a.rank sort bunch k hk, hsel]
    rfl
  · intro k hk hsel
    rw [sRes_legs_getD a r sort bunch k hk]
    unfold sLeg
    rw [sAxes_mem a.rank sort bunch k hk, hsel]
    rfl
  · intro k hk hsel
    have hcont : (sAxes a.rank sort bunch).contains k = true := by rw [sAxes_mem a.rank sort bunch k hk, hsel]
    have hleg : sLeg a sort bunch k = .plain (sPipe a sort bunch k).leg := by
      unfold sLeg; rw [if_pos hcont]
    refine ⟨by rw [sRes_legs_getD a r sort bunch k hk, hleg]; rfl, ?_, ?_, ?_⟩
    · rw [hlc k hk]; exact sLeg_indLen a sort bunch ha k hk
    · rw [hlc k hk, hleg]
      exact (Pipe.init_mods_qconj [a.lc k] (a.lc k).qconj _ _).2
    · intro hw
      rw [hlc k hk, sPerms_getD a sort bunch k hk]
      exact sLeg_selected a sort bunch k hcont hw
  · exact wf_congr (sRes a r sort bunch) r (sRes_lcs a r sort bunch hlen hget) rfl rfl rfl
      (by rw [hrank]; exact ha.1) hrwf

end TenpyModel.C01C
