import TenpyModel.C01.B2_Comb17
/-!
C01 part B2 — part 18: `_split_legs_worker` on the result of `combine_legs` satisfies `SplitSpec`; so does the
tensor without blocks; a full-range `getBlock` is the identity (for the `stored_blocks == 1` shortcut).
-/
namespace TenpyModel.C01B2.Comb
open TenpyModel.Core TenpyModel.C01B

variable {α : Type}

namespace CS
variable {a r : Arr α} {cl : List (List Nat)} {na : List Nat} {ps : List ALeg}

theorem combo_length (_ : CS a r cl na ps) (q' combo : List Nat) (h : combo ∈ gridC (sCnts na ps q')) :
    combo.length = na.length := by
  have := ((mem_gridC _ _).1 h).length_eq
  simpa [sCnts] using this

/-- a block list of the form the worker produces (one block per stored block of `r` and row combination) obeys
`SplitSpec` -/
theorem spec_of_zip [Zero α] (c : CS a r cl na ps) (a' : Arr α)
    (hzip : a'.qdata.zip a'.data = (r.qdata.zip r.data).flatMap (fun rb => (gridC (sCnts na ps rb.1)).map
      (sElem a.lcs c.n na ps rb))) : SplitSpec a.lcs c.specs r a' := by
  have hparts : (c.specs.map AxS.part).flatten = List.range a.lcs.length := by rw [lcs_length]; exact c.parts
  refine ⟨?_, ?_, ?_⟩
  · rw [hzip]
    intro x hx y hy e
    obtain ⟨rb1, hrb1, hx'⟩ := List.mem_flatMap.1 hx
    obtain ⟨combo1, hc1, rfl⟩ := List.mem_map.1 hx'
    obtain ⟨rb2, hrb2, hy'⟩ := List.mem_flatMap.1 hy
    obtain ⟨combo2, hc2, rfl⟩ := List.mem_map.1 hy'
    have e' : sNewrow c.n na ps rb1.1 combo1 = sNewrow c.n na ps rb2.1 combo2 := e
    obtain ⟨f1, g1⟩ := c.elem_facts rb1.1 (List.of_mem_zip hrb1).1 combo1 hc1
    obtain ⟨f2, g2⟩ := c.elem_facts rb2.1 (List.of_mem_zip hrb2).1 combo2 hc2
    have hq : rb1.1 = rb2.1 := by rw [← f1, ← f2, e']
    have hrb : rb1 = rb2 := zip_fst_inj _ _ c.wr.nodup rb1 hrb1 rb2 hrb2 hq
    subst hrb
    have hcombo : combo1 = combo2 := by
      apply ext_getD _ _ 0 (by rw [c.combo_length _ _ hc1, c.combo_length _ _ hc2])
      intro g hg
      rw [c.combo_length _ _ hc1] at hg
      have h1 := g1 g hg
      have h2 := g2 g hg
      rw [e'] at h1
      omega
    rw [hcombo]
  · intro idx hi blk hb
    obtain ⟨hq, _, _⟩ := locate_idx a.lcs c.wa.shapes idx hi
    have hshape := c.wr.blkShape _ hb
    have hel := c.sElem_fwd (qOf a.lcs idx) hq blk hshape
    refine ⟨_, ?_, split_data_get a.lcs c.wa.shapes c.specs c.valid hparts idx hi blk⟩
    rw [hzip]
    refine List.mem_flatMap.2 ⟨_, hb, List.mem_map.2 ⟨c.comboOf (qOf a.lcs idx), c.comboOf_mem _ hq, ?_⟩⟩
    exact hel
  · rw [hzip]
    intro e he
    obtain ⟨rb, hrb, he'⟩ := List.mem_flatMap.1 he
    obtain ⟨combo, hc, rfl⟩ := List.mem_map.1 he'
    obtain ⟨f1, _⟩ := c.elem_facts rb.1 (List.of_mem_zip hrb).1 combo hc
    refine ⟨rb.2, ?_⟩
    show (c.specs.map (AxS.row (sNewrow c.n na ps rb.1 combo)), rb.2) ∈ _
    rw [f1]
    exact hrb

/-- `_split_legs_worker` -/
theorem worker_spec [Zero α] (c : CS a r cl na ps) (h0 : r.storedBlocks ≠ 0) :
    (r.splitWorker na).legs = a.legs ∧ SplitSpec a.lcs c.specs r (r.splitWorker na) := by
  obtain ⟨hlegs, hzip⟩ := splitWorker_zip r na ps c.pipeOf_new h0
  rw [c.splitLegList_lcs, c.rank_r] at hzip
  exact ⟨by rw [hlegs, c.splitLegList_eq], c.spec_of_zip _ hzip⟩

/-- no stored blocks -/
theorem empty_spec [Zero α] (c : CS a r cl na ps) (a' : Arr α) (h0 : r.storedBlocks = 0) (hq : a'.qdata = []) :
    SplitSpec a.lcs c.specs r a' := by
  have hd : r.data = [] := List.length_eq_zero_iff.1 h0
  refine ⟨?_, ?_, ?_⟩
  · intro x hx; simp [hq] at hx
  · intro idx _ blk hb; simp [hd] at hb
  · intro e he; simp [hq] at he

end CS

section zero
variable [Zero α]

theorem zipWith_add_zeros (n : Nat) (i : List Nat) (h : i.length = n) :
    List.zipWith (· + ·) ((List.range n).map (fun _ => 0)) i = i := by
  subst h
  induction i with
  | nil => rfl
  | cons x i ih =>
    rw [List.length_cons, List.range_succ_eq_map]
    simp only [List.map_cons, List.map_map, List.zipWith_cons_cons, Nat.zero_add]
    congr 1

/-- `blk[0 : shape]` is `blk` -/
theorem getBlock_full (blk : Blk α) (hg : Good blk) :
    blk.getBlock ((List.range blk.shape.length).map (fun _ => 0)) blk.shape = blk := by
  unfold Dense.getBlock
  rw [Dense.gather_eq_ofFn]
  conv_rhs => rw [eq_ofFn_get 0 blk hg]
  apply ofFn_congr_mem
  intro idx hi
  rw [zipWith_add_zeros _ idx hi.length_eq]

end zero
end TenpyModel.C01B2.Comb
