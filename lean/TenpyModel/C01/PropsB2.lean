import TenpyModel.C01.B2_Dot10
import TenpyModel.C01.B2_Prog
import TenpyModel.C01.B2_Trace5
import TenpyModel.C01.B2_InnerEx
import TenpyModel.C01.B2_CombEx
import TenpyModel.C01.PropsB
/-!
C01 part B2 — the theorems left open by part B (`PropsB.lean`): `tensordot` through `_tensordot_worker` and the
`stored_blocks == 1` shortcut, leg fusion with spectator legs / several groups and `split_legs ∘ combine_legs`, `trace`
for rank > 2, `inner` with conjugation / general axes. Helper lemmas: `C01/B2_*.lean` (namespace `TenpyModel.C01B2`).
Scalars: any commutative semiring. Standing hypotheses: the decidable storage invariant `Arr.WF`, "the call returned
`.ok`", and where charges matter `Arr.ChargeRule` (C02's invariant) and `LegsValid` (part of `test_sanity`).
-/
open TenpyModel.Core TenpyModel.C01B TenpyModel.C01B2
open TenpyModel.Core.Arr (permuteList)

/-! ## tensordot -/

/-- **`tensordot(a, b, axes=k)`** (the form after `_tensordot_transpose_axes`: the last `k` legs of `a` with the first
`k` legs of `b`), every branch: full contraction (→ `_inner_worker`, scalar `Σ_i a[i] b[i]`), an operand without
blocks, the `stored_blocks == 1` shortcut, `k = 0` (→ `outer`) and **`_tensordot_worker`** (both block lists lexsorted
by (keep-row, F-key of the contracted part), grouped by keep-row, pairs of groups filtered by charge, blocks paired by
`_iter_common_sorted`, block-level `np.tensordot`s accumulated). Whenever a tensor is returned:
`to_ndarray(r) = np.tensordot(to_ndarray(a), to_ndarray(b), k)`, i.e. `r[i ++ j] = Σ_c a[i ++ c] * b[c ++ j]`; legs,
total charge `make_valid(qa + qb)` and labels (`_drop_duplicate_labels`) as documented; the result is well formed —
in particular its `_qdata` is duplicate-free, in range and *truthfully* claimed lexsorted. The charge filter
(`a_lookup_charges == b_charges_match`) is shown to skip only pairs of groups without common contracted key. -/
theorem C01_toDense_tensordot {α : Type} [CommSemiring α] (cy : Bool) (a b : Arr α) (ha : a.WF) (hb : b.WF)
    (hca : a.ChargeRule) (hcb : b.ChargeRule) (hva : LegsValid a) (hvb : LegsValid b)
    (k : Nat) (v : Val α) (h : Arr.tensordot cy a b (.int (k : Int)) = .ok v) :
    (k = a.rank ∧ k = b.rank → v = .scalar (Dense.inner a.toDense b.toDense))
    ∧ (¬(k = a.rank ∧ k = b.rank) →
        ∃ r, v = .arr r ∧ r.toDense = Dense.tensordot a.toDense b.toDense k
          ∧ (∀ i j, InRange i (a.shape.take (a.rank - k)) → InRange j (b.shape.drop k) →
              r.entry (i ++ j)
                = ((Dense.allIdx (a.shape.drop (a.rank - k))).map (fun c => a.entry (i ++ c) * b.entry (c ++ j))).sum)
          ∧ r.legs = a.legs.take (a.rank - k) ++ b.legs.drop k
          ∧ r.qtotal = makeValid a.mods (cadd a.qtotal b.qtotal)
          ∧ r.labels = Label.dropDuplicate (a.labels.take (a.rank - k)) (b.labels.drop k)
          ∧ r.WF) := by
  refine ⟨(C01_toDense_tensordot_partial cy a b ha hb hca hcb hvb k v h).1, fun hnf => ?_⟩
  obtain ⟨_, hka, hkb, hc⟩ := tensordot_checks cy a b k v h
  obtain ⟨r, hv, hd, hl, hq, hlab, hwf⟩ := tensordot_int cy a b (W.of ha) (W.of hb) hca hcb hva hvb k v h hnf
  have hD : DotHyp a b k := ⟨W.of ha, W.of hb, hka, hkb, contracted_slices a b k hka hkb hc⟩
  exact ⟨r, hv, hd, fun i j hi hj => entry_form a b r k hD hl hd i j hi hj, hl, hq, hlab, hwf⟩

namespace C01ExampleB2
open C01Example
/-- square tensor on `legA ⊗ legA.conj` (duplicate sector): blocks (0,0), (2,0), (1,1), (0,2), unsorted -/
def m2 : Arr Int :=
  { mods := [1, 3], legs := [.plain legA, .plain legA.conj], qtotal := [0, 0], labels := [some "p", some "p*"],
    qdata := [[0, 0], [2, 0], [1, 1], [0, 2]],
    data := [⟨[1, 1], [7]⟩, ⟨[1, 1], [100]⟩, ⟨[2, 2], [1, 2, 3, 4]⟩, ⟨[1, 1], [9]⟩], qdataSorted := false }
/-- one stored block; first leg contractible with the last leg of `t` -/
def x1 : Arr Int :=
  { mods := [1, 3], legs := [.plain legB.conj, .plain C01ExampleB.legC], qtotal := [2, 2], labels := [some "b", some "c"],
    qdata := [[0, 0]], data := [⟨[2, 1], [3, 4]⟩], qdataSorted := true }
end C01ExampleB2

/-- non-vacuity: the hypotheses hold for `m2 ⋅₁ m` (4 and 3 stored blocks: the `_tensordot_worker` branch; the new
block (0,0) accumulates two block pairs, contracted sectors 0 and 2) -/
example : C01ExampleB2.m2.WF ∧ C01ExampleB.m.WF ∧ C01ExampleB2.m2.ChargeRule ∧ C01ExampleB.m.ChargeRule
    ∧ LegsValid C01ExampleB2.m2 ∧ LegsValid C01ExampleB.m := by decide
/-- the call returns a tensor, and the theorem determines it: its dense form is the matrix product -/
example : ∃ r, Arr.tensordot false C01ExampleB2.m2 C01ExampleB.m (.int 1) = .ok (.arr r)
    ∧ r.toDense = ⟨[4, 4], [949, 0, 0, 0, 0, 7, 10, 0, 0, 15, 22, 0, 700, 0, 0, 0]⟩
    ∧ r.labels = [some "p", some "p*"] ∧ r.qtotal = [0, 0] ∧ r.WF := by
  obtain ⟨r, hr⟩ := tensordot_int_isOk false C01ExampleB2.m2 C01ExampleB.m 1 rfl (by decide) (by decide)
    (by decide)
  obtain ⟨r', hv, hd, _, _, hq, hlab, hwf⟩ := (C01_toDense_tensordot false C01ExampleB2.m2 C01ExampleB.m (by decide)
    (by decide) (by decide) (by decide) (by decide) (by decide) 1 _ hr).2 (by decide)
  cases hv
  refine ⟨r, hr, ?_, ?_, ?_, hwf⟩
  · rw [hd]; decide
  · rw [hlab]; decide
  · rw [hq]; decide
/-- the one-block shortcut (`t` and `x1` store one block each): the call, `decide`d directly, agrees with numpy -/
example : C01ExampleB2.x1.WF ∧ C01ExampleB2.x1.ChargeRule ∧ LegsValid C01ExampleB2.x1 ∧ LegsValid C01Example.t := by
  decide
example : (match Arr.tensordot false C01Example.t C01ExampleB2.x1 (.int 1) with
    | .ok (.arr r) => some (r.toDense, r.qdata, r.data, r.qtotal) | _ => none)
    = some (Dense.tensordot C01Example.t.toDense C01ExampleB2.x1.toDense 1, [[2, 0]], [⟨[1, 1], [-13]⟩], [1, 0]) := by
  decide

/-- **`tensordot(a, b, axes=(axes_a, axes_b))`** (axes by index or label): `_tensordot_transpose_axes` computes the
permutations `pa = (other legs of a) ++ axes_a`, `pb = axes_b ++ (other legs of b)` — they *are* permutations, a
consequence of its argument checks —, transposes the operands (unless the permutation is the identity) and continues as
`tensordot(a', b', k)`. Composition of `C01_toDense_tensordot` with part A's transpose theorem: the result is
`np.tensordot(np.transpose(A, pa), np.transpose(B, pb), k)` = `np.tensordot(A, B, (axes_a, axes_b))`, legs / labels
taken from the permuted operands, total charge `make_valid(qa + qb)`, well formed. -/
theorem C01_toDense_tensordot_axes {α : Type} [CommSemiring α] (cy : Bool) (a b : Arr α) (ha : a.WF) (hb : b.WF)
    (hca : a.ChargeRule) (hcb : b.ChargeRule) (hva : LegsValid a) (hvb : LegsValid b)
    (xa xb : List Ax) (v : Val α) (h : Arr.tensordot cy a b (.pair xa xb) = .ok v) :
    ∃ ia ib pa pb, a.getLegIndices xa = .ok ia ∧ b.getLegIndices xb = .ok ib ∧ ia.length = ib.length
      ∧ pa = (List.range a.rank).filter (fun i => !ia.contains i) ++ ia
      ∧ pb = ib ++ (List.range b.rank).filter (fun i => !ib.contains i)
      ∧ pa.Perm (List.range a.rank) ∧ pb.Perm (List.range b.rank)
      ∧ (ia.length = a.rank ∧ ia.length = b.rank →
          v = .scalar (Dense.inner (a.toDense.transpose pa) (b.toDense.transpose pb)))
      ∧ (¬(ia.length = a.rank ∧ ia.length = b.rank) →
          ∃ r, v = .arr r
            ∧ r.toDense = Dense.tensordot (a.toDense.transpose pa) (b.toDense.transpose pb) ia.length
            ∧ r.legs = (permuteList a.legs pa default).take (a.rank - ia.length)
                ++ (permuteList b.legs pb default).drop ia.length
            ∧ r.qtotal = makeValid a.mods (cadd a.qtotal b.qtotal)
            ∧ r.labels = Label.dropDuplicate ((permuteList a.labels pa none).take (a.rank - ia.length))
                ((permuteList b.labels pb none).drop ia.length)
            ∧ r.WF) := by
  obtain ⟨ia, ib, h1, h2, h3, hpa, hpb, hdot⟩ := tensordot_pair_eq cy a b ha hb xa xb v h
  obtain ⟨wa, da, la, laba, qa, ma, ra, ca, va⟩ := trOp_spec a _ ha hpa
  obtain ⟨wb, db, lb, labb, qb, mb, rb, cb, vb⟩ := trOp_spec b _ hb hpb
  have R := C01_toDense_tensordot cy _ _ wa wb (ca hca) (cb hcb) (va hva) (vb hvb) ia.length v hdot
  rw [ra, rb] at R
  refine ⟨ia, ib, _, _, h1, h2, h3, rfl, rfl, hpa.perm, hpb.perm, ?_, ?_⟩
  · intro hf
    have := R.1 hf
    rw [da, db] at this
    exact this
  · intro hnf
    obtain ⟨r, r1, r2, _, r4, r5, r6, r7⟩ := R.2 hnf
    rw [da, db] at r2
    rw [la, lb] at r4
    rw [qa, qb, ma] at r5
    rw [laba, labb] at r6
    exact ⟨r, r1, r2, r4, r5, r6, r7⟩

/-- non-vacuity: contracting leg 0 of `m2` with leg 1 of `m` needs both transpositions (`pa = pb = [1, 0]`); the call
returns a tensor whose dense form is `M2ᵀ ⋅ Mᵀ` -/
example : ∃ r, Arr.tensordot false C01ExampleB2.m2 C01ExampleB.m (.pair [.idx 0] [.lbl "p*"]) = .ok (.arr r)
    ∧ r.toDense = Dense.tensordot (C01ExampleB2.m2.toDense.transpose [1, 0]) (C01ExampleB.m.toDense.transpose [1, 0]) 1
    ∧ r.toDense = ⟨[4, 4], [49, 0, 0, 700, 0, 7, 15, 0, 0, 10, 22, 0, 63, 0, 0, 900]⟩ ∧ r.WF := by
  have ht : Arr.tensordotTransposeAxes false C01ExampleB2.m2 C01ExampleB.m (.pair [.idx 0] [.lbl "p*"])
      = .ok (C01ExampleB2.m2.itransposeFast [1, 0], C01ExampleB.m.itransposeFast [1, 0], 1) := rfl
  have he := tensordot_pair_of false _ _ _ _ (by decide) (by decide) _ _ _ ht
  obtain ⟨r, hr⟩ := tensordot_int_isOk false (C01ExampleB2.m2.itransposeFast [1, 0])
    (C01ExampleB.m.itransposeFast [1, 0]) 1 rfl (by decide) (by decide) (by decide)
  rw [← he] at hr
  obtain ⟨ia, ib, pa, pb, h1, h2, _, rfl, rfl, _, _, _, hR⟩ := C01_toDense_tensordot_axes false C01ExampleB2.m2
    C01ExampleB.m (by decide) (by decide) (by decide) (by decide) (by decide) (by decide) _ _ _ hr
  have e1 : ia = [0] := by
    have : C01ExampleB2.m2.getLegIndices [.idx 0] = .ok [0] := rfl
    rw [this] at h1; exact (Except.ok.inj h1).symm
  have e2 : ib = [1] := by
    have : C01ExampleB.m.getLegIndices [.lbl "p*"] = .ok [1] := rfl
    rw [this] at h2; exact (Except.ok.inj h2).symm
  subst e1 e2
  obtain ⟨r', hv, hd, _, _, _, hwf⟩ := hR (by decide)
  cases hv
  refine ⟨r, hr, hd, ?_, hwf⟩
  rw [hd]; decide

/-! ## outer: well-formedness of the result (used by the `k = 0` branch of `tensordot` and by the programs) -/

/-- `outer(a, b)` returns a well-formed tensor: block rows `qa ++ qb` duplicate-free and in range, blocks of the right
shape, and the inherited claim `_qdata_sorted = a._qdata_sorted and b._qdata_sorted` is truthful (rows are generated
with the block index of `a` running fastest, which is the lexsort order when both operands are lexsorted).
Complements `C01_toDense_outer` (dense form, legs, labels, total charge). -/
theorem C01_WF_outer {α : Type} [CommSemiring α] (a b r : Arr α) (ha : a.WF) (hb : b.WF) (h : a.outer b = .ok r) :
    r.WF ∧ r.qdataSorted = (a.qdataSorted && b.qdataSorted) :=
  ⟨outer_WF a b r (W.of ha) (W.of hb) h, (outer_parts a b r h).2.2.2.2⟩

example : (C01Example.t.outer C01ExampleB.v).toOption.map (fun r => (decide r.WF, r.qdataSorted)) = some (true, false)
    ∧ (C01Example.t.outer C01ExampleB2.x1).toOption.map (fun r => (decide r.WF, r.qdataSorted, r.qdata))
        = some (true, true, [[2, 0, 0, 0]]) := by decide

/-! ## finite programs over part A's operations and the products -/

/-- **All finite compositions, with products.** `C01ProgAB`: expression trees whose nodes are `outer`, `tensordot`
with an integer `k` or with a pair of axis lists (by index or label; tensor-valued, i.e. not a full contraction),
`trace` (tensor-valued, i.e. rank ≠ 2), and
arbitrary part-A programs (`C01ProgA`: negation, scaling, `conj`, transposition, slicing, projection, `permute`,
`ibinary_blockwise`, `iadd_prefactor_other`, …) applied to two computed operands. If the block-sparse evaluation
succeeds on well-formed operands and the side conditions hold (`C01ProgAB.Side`: those of `C01_programA` at the
embedded part-A programs; charge rule and valid leg charges of the operands of each `tensordot` — C02's invariants),
the result has the dense form **and the labels** that the reference semantics computes on labelled dense tensors
(numpy on the values, the documented label rules), and it is well formed. Induction over programs
(`C01ProgAB.evalArr_spec`); extends `C01_programA`. Scalars: any commutative ring. -/
theorem C01_programAB {α : Type} [CommRing α] [DecidableEq α] (st : α → α) (hst : st 0 = 0) (cy : Bool)
    (env : List (Arr α)) (henv : ∀ a ∈ env, a.WF) (p : C01ProgAB α) (r : Arr α)
    (hside : p.Side st cy env) (h : p.evalArr st cy env = .ok r) :
    r.toDense = (p.evalRef st (env.map Arr.toLD)).d ∧ r.labels = (p.evalRef st (env.map Arr.toLD)).labels ∧ r.WF := by
  obtain ⟨h1, h2⟩ := C01ProgAB.evalArr_spec st hst cy env henv p r hside h
  exact ⟨congrArg LDense.d h1, congrArg LDense.labels h1, h2⟩

namespace C01ExampleB2
open C01ProgAB
/-- `(-m2) ⋅₁ m`: a part-A program below a `tensordot` (worker branch) -/
def pAB : C01ProgAB Int := .tensordot 1 (.partA (.neg (.input 0)) (.input 0) (.input 0)) (.input 1)

theorem pAB_side : pAB.Side id false [m2, C01ExampleB.m] := by
  refine ⟨⟨trivial, trivial, fun _ _ _ _ => trivial⟩, trivial, ?_⟩
  intro a b ha hb
  have e1 : (C01ProgAB.partA (.neg (.input 0)) (.input 0) (.input 0)).evalArr id false [m2, C01ExampleB.m]
      = .ok m2.neg := rfl
  have e2 : (C01ProgAB.input 1).evalArr id false [m2, C01ExampleB.m] = .ok C01ExampleB.m := rfl
  rw [e1] at ha
  rw [e2] at hb
  cases ha
  cases hb
  decide
end C01ExampleB2

/-- non-vacuity: the program runs, meets the side conditions, and the theorem determines dense form and labels -/
example : ∃ r, C01ExampleB2.pAB.evalArr id false [C01ExampleB2.m2, C01ExampleB.m] = .ok r
    ∧ r.toDense = ⟨[4, 4], [-949, 0, 0, 0, 0, -7, -10, 0, 0, -15, -22, 0, -700, 0, 0, 0]⟩
    ∧ r.labels = [some "p", some "p*"] ∧ r.WF := by
  obtain ⟨r, hr⟩ := tensordot_int_isOk false C01ExampleB2.m2.neg C01ExampleB.m 1 rfl (by decide) (by decide)
    (by decide)
  have he : C01ExampleB2.pAB.evalArr id false [C01ExampleB2.m2, C01ExampleB.m] = .ok r := by
    have e1 : (C01ProgAB.partA (.neg (.input 0)) (.input 0) (.input 0)).evalArr id false
        [C01ExampleB2.m2, C01ExampleB.m] = .ok C01ExampleB2.m2.neg := rfl
    have e2 : (C01ProgAB.input 1).evalArr id false [C01ExampleB2.m2, C01ExampleB.m] = .ok C01ExampleB.m := rfl
    simp only [C01ExampleB2.pAB, C01ProgAB.evalArr, bind, Except.bind] at e1 e2 ⊢
    simp only [e1, e2, C01ProgAB.dotArr, hr]
  obtain ⟨h1, h2, h3⟩ := C01_programAB id rfl false _ (by decide) _ r C01ExampleB2.pAB_side he
  refine ⟨r, he, ?_, ?_, h3⟩
  · rw [h1]; decide
  · rw [h2]; decide

/-- a `trace` node on top of a part-A program, fully evaluated: `trace(-s3, 'a', 'a*')` -/
example : ((C01ProgAB.trace (.lbl "a") (.lbl "a*") (.partA (.neg (.input 0)) (.input 0) (.input 0))).evalArr id false
      [C01ExampleB2T.s3]).toOption.map (fun r => (r.toDense, r.labels))
    = some (((C01ProgAB.trace (.lbl "a") (.lbl "a*") (.partA (.neg (.input 0)) (.input 0) (.input 0))).evalRef id
      [C01ExampleB2T.s3.toLD]).d, [some "b*"]) := by decide

/-! ## trace (rank > 2, general axis positions) -/

/-- **`trace(a, leg1, leg2)`** for every rank other than 2 (the rank-2 call returns a scalar:
`C01_toDense_trace_partial`), legs by index or label, in general position and either order: the dictionary loop keeps
one entry per remaining block index and accumulates the partial traces of the stored blocks that are diagonal in the
two traced legs (off-diagonal blocks of duplicate sectors are skipped). The result is
`np.trace(to_ndarray(a), axis1, axis2)`, entry-wise `r[idx] = Σ_t a[idx with t at both traced axes]`; remaining legs
and labels in order, total charge kept, well formed (`_qdata_sorted` is only claimed for the empty result). -/
theorem C01_toDense_trace {α : Type} [CommSemiring α] (a : Arr α) (ha : a.WF) (l1 l2 : Ax) (v : Val α)
    (h : a.trace l1 l2 = .ok v) (hr : a.rank ≠ 2) :
    ∃ ax1 ax2 r, a.getLegIndex l1 = .ok ax1 ∧ a.getLegIndex l2 = .ok ax2
      ∧ ax1 ≠ ax2 ∧ ax1 < a.rank ∧ ax2 < a.rank ∧ 2 < a.rank
      ∧ v = .arr r
      ∧ r.toDense = Dense.trace a.toDense ax1 ax2
      ∧ (∀ idx, InRange idx r.shape → r.entry idx = ((List.range (a.shape.getD ax1 0)).map (fun t =>
            a.entry ((List.range a.rank).map (fun k => if k = ax1 ∨ k = ax2 then t
              else idx.getD (((List.range a.rank).filter (fun k => k ≠ ax1 ∧ k ≠ ax2)).idxOf k) 0)))).sum)
      ∧ a.shape.getD ax1 0 = a.shape.getD ax2 0
      ∧ r.shape = ((List.range a.rank).filter (fun k => k ≠ ax1 ∧ k ≠ ax2)).map (fun k => a.shape.getD k 0)
      ∧ r.legs = pick a.legs ((List.range a.rank).filter (fun k => k ≠ ax1 ∧ k ≠ ax2)) default
      ∧ r.labels = pick a.labels ((List.range a.rank).filter (fun k => k ≠ ax1 ∧ k ≠ ax2)) none
      ∧ r.qtotal = makeValid a.mods a.qtotal ∧ r.mods = a.mods
      ∧ (r.qdataSorted = true → r.qdata = [])
      ∧ r.WF :=
  trace_arr a ha l1 l2 v h hr

/-- non-vacuity (`C01ExampleB2T.s3`: legs `legA, legB, legA.conj`; three diagonal blocks accumulate into the new row
`[0]`, the off-diagonal block of the duplicate sector is skipped; `s3off`: only off-diagonal blocks) -/
example : C01ExampleB2T.s3.WF ∧ C01ExampleB2T.s3off.WF ∧ C01ExampleB2T.s3.rank ≠ 2 := by decide
example : C01ExampleB2T.trOut C01ExampleB2T.s3 (.lbl "a") (.lbl "a*")
    = some (Dense.trace C01ExampleB2T.s3.toDense 0 2, [[0]], [⟨[2], [20, 35]⟩]) := by decide
example : C01ExampleB2T.trOut C01ExampleB2T.s3 (.idx (-1)) (.idx 0)
    = some (Dense.trace C01ExampleB2T.s3.toDense 2 0, [[0]], [⟨[2], [20, 35]⟩]) := by decide
example : Dense.trace C01ExampleB2T.s3.toDense 0 2 = ⟨[3], [20, 35, 0]⟩ := by decide
example : C01ExampleB2T.trOut C01ExampleB2T.s3off (.lbl "a") (.lbl "a*")
    = some (Dense.trace C01ExampleB2T.s3off.toDense 0 1, [], []) := by decide

/-! ## inner with conjugation and with general axes -/

/-- **`inner(a, b, axes='range', do_conj)`** for both values of `do_conj`, without side hypothesis: for `do_conj=True`
the legs are `test_equal` and the pre-check of `_inner_worker` is `make_valid(qb − qa) ≠ 0 → 0`; by the charge rule it
can only fire when no block index is stored in both operands (the `test_equal` analogue of `hch_of_chargeRule`). -/
theorem C01_toDense_inner_conj {α : Type} [CommSemiring α] (st : α → α) (hst : st 0 = 0) (a b : Arr α)
    (ha : a.WF) (hb : b.WF) (hca : a.ChargeRule) (hcb : b.ChargeRule) (hvb : LegsValid b) (doConj : Bool) (x : α)
    (h : Arr.inner st a b .range doConj = .ok x) :
    x = Dense.inner (if doConj then a.toDense.map st else a.toDense) b.toDense :=
  inner_range st hst a b ha hb hca hcb hvb doConj x h

/-- **`inner(a, b, axes, do_conj)`** for every form of `axes` (`'range'`, `'labels'`, a pair of axis lists by index or
label): the operand `a` is transposed by the permutation `p` the code computes (`InnerPermOK`: `p = range` for
`'range'`, else `p = ia[argsort(ib)]` for the leg indices `ia`, `ib` of the two axis lists — a permutation as a
consequence of the argument checks), and the value is `Σ_i st?(np.transpose(A, p)[i]) · B[i]`. Composition of the
`'range'` case with part A's transpose theorem (transposition keeps well-formedness, charge rule, leg validity). -/
theorem C01_toDense_inner_axes {α : Type} [CommSemiring α] (st : α → α) (hst : st 0 = 0) (a b : Arr α)
    (ha : a.WF) (hb : b.WF) (hca : a.ChargeRule) (hcb : b.ChargeRule) (hvb : LegsValid b) (axes : Arr.InnerAxes)
    (doConj : Bool) (x : α) (h : Arr.inner st a b axes doConj = .ok x) :
    ∃ p : List Nat, p.Perm (List.range a.rank) ∧ InnerPermOK a b axes doConj p
      ∧ x = Dense.inner (if doConj then (a.toDense.transpose p).map st else a.toDense.transpose p) b.toDense :=
  inner_axes st hst a b ha hb hca hcb hvb axes doConj x h

/-- non-vacuity: `do_conj=True` with `st` = negation (`tb`: same legs as `t`, unsorted block list) -/
example : ∃ x, Arr.inner (fun z => -z) C01Example.t C01ExampleB2I.tb .range true = .ok x ∧ x = 11 := by
  obtain ⟨x, h⟩ : ∃ x, Arr.inner (fun z => -z) C01Example.t C01ExampleB2I.tb .range true = .ok x := ⟨_, rfl⟩
  refine ⟨x, h, ?_⟩
  rw [C01_toDense_inner_conj (fun z => -z) (by simp) C01Example.t C01ExampleB2I.tb (by decide) (by decide) (by decide)
    (by decide) (by decide) true x h]
  decide
/-- the pre-check fires (different total charges) and 0 is the dense value -/
example : Arr.inner id C01Example.t C01ExampleB2I.tb2 .range true = .ok 0
    ∧ Dense.inner (C01Example.t.toDense.map id) C01ExampleB2I.tb2.toDense = 0 := ⟨rfl, by decide⟩
/-- general axes by label (`ut` = `u` with its legs exchanged): the permutation is `[1, 0]` -/
example : ∃ x, Arr.inner id C01Example.t C01ExampleB2I.ut (.pair [.lbl "b*", .lbl "a"] [.lbl "b", .lbl "a*"]) false
    = .ok x ∧ x = -11 := by
  obtain ⟨x, h⟩ : ∃ x, Arr.inner id C01Example.t C01ExampleB2I.ut
      (.pair [.lbl "b*", .lbl "a"] [.lbl "b", .lbl "a*"]) false = .ok x := ⟨_, rfl⟩
  refine ⟨x, h, ?_⟩
  obtain ⟨p, _, hp, hx⟩ := C01_toDense_inner_axes id rfl C01Example.t C01ExampleB2I.ut (by decide) (by decide)
    (by decide) (by decide) (by decide) _ false x h
  obtain ⟨ia, ib, h1, h2, rfl⟩ := hp
  have e1 : C01Example.t.getLegIndices [.lbl "b*", .lbl "a"] = .ok [1, 0] := rfl
  have e2 : C01ExampleB2I.ut.getLegIndices [.lbl "b", .lbl "a*"] = .ok [0, 1] := rfl
  rw [e1] at h1
  rw [e2] at h2
  cases h1
  cases h2
  rw [hx]
  decide

/-! ## combine_legs / split_legs (C06: "the pipe's index map agrees with where tensor entries are placed",
"combining legs into a pipe and splitting it again restores the original tensor exactly")

Helper definitions (namespace `TenpyModel.C01B2.Comb`, files `B2_Comb*.lean`): `cNonComb rank cl` = the spectator axes,
`StdForm rank cl newAxes` (decidable) = the call needs no transposition (new axes ascending and in range, the source axes
behind the result axes concatenate to `0 … rank-1` — exactly what `combine_legs` passes to its worker),
`PipesOK a cl pipes` = the `g`-th pipe is a `LegPipe` over the legs of group `g` (any direction, sort / bunch on or off;
`PipesOK2`: with these legs as incoming legs), `cLegs` = the legs of the result (`legs.insert(na, pipe)`),
`combIdx a cl newAxes pipes idx` = the image of a multi-index: every group's sub-tuple replaced by
`map_incoming_flat` of its pipe, spectator indices kept (`combIdx_getD`, restated in the theorem). -/

/-- **`combine_legs` in standard form, any number of groups and spectator legs**, all three branches
(`stored_blocks == 0`, `== 1`, `_combine_legs_worker`): `r[combIdx(idx)] = a[idx]` for every in-range `idx`; the image is
in range; `combIdx` is a bijection between the index tuples of `a` and of `r`, so this determines `r` completely; axis by
axis `combIdx` is `LegPipe.map_incoming_flat` on the group's sub-tuple resp. the spectator index; legs, total charge;
`r` is well formed and its `_qdata` truthfully lexsorted. -/
theorem C01_combine_places {α : Type} [Zero α] (a r : Arr α) (ha : a.WF) (cl : List (List Nat)) (newAxes : List Nat)
    (pipes : List ALeg) (labels : List String) (hl1 : newAxes.length = cl.length) (hl2 : pipes.length = cl.length)
    (hpipes : Comb.PipesOK a cl pipes) (hstd : Comb.StdForm a.rank cl newAxes)
    (h : a.combineStd cl newAxes pipes labels = .ok r) :
    (r.legs = Comb.cLegs a cl newAxes pipes ∧ r.rank = (Comb.cNonComb a.rank cl).length + cl.length
      ∧ r.mods = a.mods ∧ r.qtotal = makeValid a.mods a.qtotal ∧ r.qdataSorted = true ∧ r.WF)
    ∧ (∀ idx, InRange idx a.shape →
        InRange (Comb.combIdx a cl newAxes pipes idx) r.shape ∧ r.entry (Comb.combIdx a cl newAxes pipes idx) = a.entry idx)
    ∧ (∀ i1 i2, InRange i1 a.shape → InRange i2 a.shape →
        Comb.combIdx a cl newAxes pipes i1 = Comb.combIdx a cl newAxes pipes i2 → i1 = i2)
    ∧ (∀ idx', InRange idx' r.shape → ∃ idx, InRange idx a.shape ∧ Comb.combIdx a cl newAxes pipes idx = idx')
    ∧ (∀ idx k, k < (Comb.cNonComb a.rank cl).length + cl.length →
        (Comb.combIdx a cl newAxes pipes idx).getD k 0 =
          if newAxes.contains k = true then
            ((Comb.sP pipes (List.idxOf k newAxes)).mapIncomingFlat
              (List.map Int.ofNat (pick idx (cl.getD (List.idxOf k newAxes) []) 0))).getD 0
          else idx.getD ((Comb.cNonComb a.rank cl).getD
            (List.idxOf k (Comb.cNonNew ((Comb.cNonComb a.rank cl).length + cl.length) newAxes)) 0) 0)
    ∧ ((∀ x ∈ cl.flatten, x < a.rank) → ∀ idx, InRange idx a.shape → ∀ g, g < cl.length →
        ∃ f, (Arr.pipeOf (pipes.getD g default)).mapIncomingFlat ((pick idx (cl.getD g []) 0).map Int.ofNat) = some f
          ∧ f < (Arr.pipeOf (pipes.getD g default)).leg.indLen) := by
  obtain ⟨c1, c2, c3, c4, _, _, _, c8, c9⟩ := Comb.combine_places a r ha cl newAxes pipes labels hl1 hl2 hpipes hstd h
  obtain ⟨b1, b2⟩ := Comb.combIdx_bijective a r ha cl newAxes pipes labels hl1 hl2 hpipes hstd h
  refine ⟨⟨c1, c2, c3, c4, c8, Comb.combine_WF a r ha cl newAxes pipes labels hl1 hl2 hpipes hstd h⟩, c9, b1, b2,
    fun idx k hk => (Comb.combIdx_getD a cl newAxes pipes idx).2 k hk,
    fun hcl idx hi g hg => Comb.combIdx_some a ha cl pipes hpipes hcl idx hi g hg⟩

/-- non-vacuity (`Comb.Ex.t3`: rank 3 over U(1)×Z₃, duplicate sector, two stored blocks in unsorted order; spectator
leg 0, group `[1, 2]` fused by a sorted, bunched pipe — the index map is not the row-major reshape; worker branch) -/
example : Comb.Ex.t3.WF ∧ Comb.StdForm Comb.Ex.t3.rank [[1, 2]] [1] ∧ ¬ Comb.StdForm Comb.Ex.t3.rank [[0, 2]] [0] := by
  decide
example : Comb.PipesOK Comb.Ex.t3 [[1, 2]] [Comb.Ex.pBC] := by
  intro g hg
  have : g = 0 := by simpa using hg
  subst this
  exact ⟨1, true, true, _, rfl⟩
example : (Comb.Ex.t3.combineStd [[1, 2]] [1] [Comb.Ex.pBC] ["a", "b", "?2"]).toOption.map
      (fun r => (r.qdata, r.shape, r.labels, r.entry (Comb.combIdx Comb.Ex.t3 [[1, 2]] [1] [Comb.Ex.pBC] [3, 1, 1])))
    = some ([[0, 0], [2, 0]], [4, 12], [some "a", some "(b.?2)"], Comb.Ex.t3.entry [3, 1, 1]) := by decide
example : Comb.combIdx Comb.Ex.t3 [[1, 2]] [1] [Comb.Ex.pBC] [3, 1, 1] = [3, 1]
    ∧ Comb.combIdx Comb.Ex.t3 [[1, 2]] [1] [Comb.Ex.pBC] [1, 2, 3] = [1, 4] ∧ Comb.Ex.t3.entry [3, 1, 1] = -7 := by decide

/-- **the public `combine_legs`, no transposition needed** (`transp = range`): it is the standard-form call on the
reordered groups (`cli`, `na`, `ps` = groups, new axes, pipes sorted by new axis), so entries are placed by `combIdx`.
Hypotheses `hP` (the pipes are pipes over the groups' legs) and `hN` (no repeated new axis) are automatic for the
default call `pipes = None, new_axes = None` (`Comb.combineLegs_default_hyps2`); tenpy checks neither for user-supplied
arguments. -/
theorem C01_combineLegs_places {α : Type} [Zero α] (a r : Arr α) (ha : a.WF) (cl : List (List Ax))
    (newAxes : Option (List Int)) (pipes : Option (List (Option ALeg))) (qconj : List (Option Int))
    (ps0 : List ALeg) (cli0 : List (List Nat)) (na0 : List Nat)
    (hps : a.combineMakePipes cl pipes qconj = .ok ps0) (hcli : cl.mapM a.getLegIndices = .ok cli0)
    (hnt : Arr.combineNewAxes a.rank cli0 newAxes = .ok (na0, List.range a.rank))
    (hP : Comb.PipesOK a cli0 ps0) (hN : na0.Nodup) (h : a.combineLegs cl newAxes pipes qconj = .ok r) :
    let cli := pick cli0 (Arr.argsortInt (na0.map Int.ofNat)) []
    let na := pick na0 (Arr.argsortInt (na0.map Int.ofNat)) 0
    let ps := pick ps0 (Arr.argsortInt (na0.map Int.ofNat)) default
    a.combineStd cli na ps (Comb.cLabels a) = .ok r ∧ Comb.StdForm a.rank cli na ∧ Comb.PipesOK a cli ps
      ∧ na.length = cli.length ∧ ps.length = cli.length ∧ r.WF ∧ r.legs = Comb.cLegs a cli na ps
      ∧ r.qtotal = makeValid a.mods a.qtotal
      ∧ ∀ idx, InRange idx a.shape →
          InRange (Comb.combIdx a cli na ps idx) r.shape ∧ r.entry (Comb.combIdx a cli na ps idx) = a.entry idx :=
  Comb.combineLegs_places_id a r ha cl newAxes pipes qconj ps0 cli0 na0 hps hcli hnt hP hN h

/-- **the public `combine_legs` with its transposition step** (`transp ≠ range`): `t` = `a` transposed by `transp` (a
permutation; part A's transpose theorem: `to_ndarray(t) = np.transpose(to_ndarray(a), transp)`), then the standard-form
call on `t`: `r[combIdx_t(idx)] = a[unperm transp idx]` for every in-range index tuple `idx` of `t`. -/
theorem C01_combineLegs_places_transposed {α : Type} [Zero α] (a r : Arr α) (ha : a.WF) (cl : List (List Ax))
    (newAxes : Option (List Int)) (pipes : Option (List (Option ALeg))) (qconj : List (Option Int))
    (ps0 : List ALeg) (cli0 : List (List Nat)) (na0 transp : List Nat)
    (hps : a.combineMakePipes cl pipes qconj = .ok ps0) (hcli : cl.mapM a.getLegIndices = .ok cli0)
    (hnt : Arr.combineNewAxes a.rank cli0 newAxes = .ok (na0, transp)) (htr : transp ≠ List.range a.rank)
    (hP : Comb.PipesOK a cli0 ps0) (hN : na0.Nodup) (h : a.combineLegs cl newAxes pipes qconj = .ok r) :
    let cli := (pick cli0 (Arr.argsortInt (na0.map Int.ofNat)) []).map
      (fun c => c.map (fun x => (inversePerm transp).getD x 0))
    let na := pick na0 (Arr.argsortInt (na0.map Int.ofNat)) 0
    let ps := pick ps0 (Arr.argsortInt (na0.map Int.ofNat)) default
    let t := Comb.cTransposed a transp
    transp.Perm (List.range a.rank) ∧ t.WF ∧ t.toDense = a.toDense.transpose transp
      ∧ t.legs = permuteList a.legs transp default
      ∧ t.combineStd cli na ps (t.labels.map (fun l => l.getD "")) = .ok r
      ∧ Comb.StdForm t.rank cli na ∧ Comb.PipesOK t cli ps ∧ r.WF ∧ r.legs = Comb.cLegs t cli na ps
      ∧ r.qtotal = makeValid a.mods a.qtotal
      ∧ ∀ idx, InRange idx t.shape →
          InRange (Comb.combIdx t cli na ps idx) r.shape
          ∧ r.entry (Comb.combIdx t cli na ps idx) = a.entry (unperm transp a.rank idx) := by
  obtain ⟨h1, h2, h3, h4, h5, h6, h7, _, _, h10, h11, h12, h13⟩ :=
    Comb.combineLegs_places_tr a r ha cl newAxes pipes qconj ps0 cli0 na0 transp hps hcli hnt htr hP hN h
  exact ⟨h1.perm, h2, h3, h4, h5, h6, h7, h10, h11, h12, h13⟩

/-- non-vacuity: `t3.combine_legs([1, 2], qconj=+1)` (no transposition) and `t3.combine_legs([2, 0])`
(`transp = [1, 2, 0]`): hypotheses and placement -/
example : Comb.Ex.t3.combineMakePipes [[.idx 1, .idx 2]] none [some 1] = .ok [Comb.Ex.pBC] := rfl
example : [[Ax.idx 1, Ax.idx 2]].mapM Comb.Ex.t3.getLegIndices = .ok [[1, 2]]
    ∧ Arr.combineNewAxes Comb.Ex.t3.rank [[1, 2]] none = .ok ([1], List.range Comb.Ex.t3.rank) ∧ [1].Nodup := by decide
example : (Comb.Ex.t3.combineLegs [[.idx 1, .idx 2]] none none [some 1]).toOption.map
      (fun r => (r.shape, r.labels, r.entry (Comb.combIdx Comb.Ex.t3 [[1, 2]] [1] [Comb.Ex.pBC] [3, 1, 1])))
    = some ([4, 12], [some "a", some "(b.?2)"], Comb.Ex.t3.entry [3, 1, 1]) := by decide
example : [[Ax.idx 2, Ax.idx 0]].mapM Comb.Ex.t3.getLegIndices = .ok [[2, 0]]
    ∧ Arr.combineNewAxes Comb.Ex.t3.rank [[2, 0]] none = .ok ([1], [1, 2, 0])
    ∧ [1, 2, 0] ≠ List.range Comb.Ex.t3.rank ∧ unperm [1, 2, 0] 3 [1, 1, 3] = [3, 1, 1] := by decide
example : (Comb.Ex.t3.combineLegs [[.idx 2, .idx 0]] none none [some 1]).toOption.map
      (fun r => (r.shape, r.labels, r.entry [1, 7])) = some ([3, 16], [some "b", some "(?2.a)"], Comb.Ex.t3.entry [3, 1, 1]) := by
  decide

/-- **`split_legs ∘ combine_legs` in standard form** (C06, first sentence): splitting exactly the new pipe axes of
`combine_legs(a, …)` returns a tensor with the legs of `a`, the dense form of `a` (entry by entry), the total charge of
`a`, and it is well formed; all branches of both functions (no block, one block, the two workers). With the label
hypotheses (`labels` = one string per leg of `a`, the labels inside the groups are label *pieces*) the labels are
restored (`'?i'` placeholders back to `None`). The stored block list may differ (order, explicit zero blocks). -/
theorem C01_split_combine_std {α : Type} [Zero α] (a r a' : Arr α) (ha : a.WF) (cl : List (List Nat)) (na : List Nat)
    (ps : List ALeg) (labels : List String) (hl1 : na.length = cl.length) (hl2 : ps.length = cl.length)
    (hp : Comb.PipesOK2 a cl ps) (hstd : Comb.StdForm a.rank cl na) (hne : cl ≠ [])
    (h : a.combineStd cl na ps labels = .ok r)
    (hs : r.splitLegs (some (na.map (fun k => Ax.idx (Int.ofNat k)))) = .ok a') :
    a'.legs = a.legs ∧ a'.toDense = a.toDense ∧ (∀ idx, InRange idx a.shape → a'.entry idx = a.entry idx)
    ∧ a'.mods = a.mods ∧ a'.qtotal = makeValid a.mods a.qtotal ∧ a'.WF
    ∧ (labels.length = a.rank →
        (∀ g, g < cl.length → cl.getD g [] ≠ [] ∧ ∀ s ∈ pick labels (cl.getD g []) "", Label.Piece s.toList) →
        a'.labels = labels.map Comb.mkLabel) := by
  obtain ⟨h1, h2, h3, h4, h5, _⟩ := Comb.split_combine a r a' ha cl na ps labels hl1 hl2 hp hstd hne h hs
  exact ⟨h1, h2, h3, h4, h5, Comb.split_combine_WF a r a' ha cl na ps labels hl1 hl2 hp hstd hne h hs,
    fun hl hpc => Comb.split_combine_labels a r a' ha cl na ps labels hl1 hl2 hp hstd hne hl hpc h hs⟩

/-- **`split_legs(combine_legs(a, groups))` through the public entry points, default arguments** (`pipes = None`,
`new_axes = None`; any `qconj`, groups given by index or label): with `transp` the transposition `combine_legs`
performs (a permutation; the identity when the groups are runs of consecutive legs in order), splitting the new pipe
axes returns `np.transpose(a, transp)` exactly — dense form, legs (hence charges of every index), total charge — as a
well-formed tensor, and the labels of `a` permuted by `transp` (given that no label of `a` starts with `'?'` and the
labels inside the groups are label pieces — decidable per instance). In particular for `transp = range` the original
tensor is restored. -/
theorem C01_split_combine {α : Type} [Zero α] (a r : Arr α) (ha : a.WF) (cl : List (List Ax))
    (qconj : List (Option Int)) (hne : ∀ c ∈ cl, c ≠ []) (h : a.combineLegs cl none none qconj = .ok r) :
    ∃ cli0 na0 transp, cl.mapM a.getLegIndices = .ok cli0
      ∧ Arr.combineNewAxes a.rank cli0 none = .ok (na0, transp) ∧ transp.Perm (List.range a.rank)
      ∧ ∀ a', r.splitLegs (some ((pick na0 (Arr.argsortInt (na0.map Int.ofNat)) 0).map
            (fun k => Ax.idx (Int.ofNat k)))) = .ok a' →
          a'.toDense = a.toDense.transpose transp ∧ a'.legs = permuteList a.legs transp default
          ∧ a'.mods = a.mods ∧ a'.qtotal = makeValid a.mods a.qtotal ∧ a'.WF
          ∧ (transp = List.range a.rank → a'.toDense = a.toDense ∧ a'.legs = a.legs)
          ∧ ((∀ s, some s ∈ a.labels → s.toList.head? ≠ some '?') →
              (∀ c ∈ cli0, c ≠ [] ∧ ∀ s ∈ pick (Comb.cLabels a) c "", Label.Piece s.toList) →
              a'.labels = permuteList a.labels transp none) := by
  obtain ⟨ps0, cli0, na0, transp, hps, hcli, hnt, hP, hN, _⟩ := Comb.combineLegs_default_hyps2 a r ha cl qconj hne h
  refine ⟨cli0, na0, transp, hcli, hnt, ?_, ?_⟩
  · -- `transp` is a permutation: the transposed-case theorem says so; the identity is one
    by_cases htr : transp = List.range a.rank
    · rw [htr]
    · exact (Comb.combineLegs_places_tr a r ha cl none none qconj ps0 cli0 na0 transp hps hcli hnt htr
        (Comb.PipesOK2.ok hP) hN h).1.perm
  · intro a' hs
    obtain ⟨_, s2, s3, s4, s5, _, s7⟩ :=
      Comb.split_combineLegs a r a' ha cl none none qconj ps0 cli0 na0 transp hps hcli hnt hP hN h hs
    refine ⟨s3, s2, s4, s5, s7, fun htr => ?_, fun hq hpc =>
      Comb.split_combineLegs_labels a r a' ha cl none none qconj ps0 cli0 na0 transp hps hcli hnt hP hN hq hpc h hs⟩
    rw [s3, s2, htr]
    exact ⟨(Arr.toDense_transpose_range a).symm, TenpyModel.C01B2.permuteList_range a.legs default⟩

/-- non-vacuity: the round trip on `t3` (worker branches; with and without transposition) and on the one-block tensor
`t1` (both `stored_blocks == 1` shortcuts), `decide`d through the public entry points -/
example : ((Comb.Ex.t3.combineLegs [[.idx 1, .idx 2]] none none [some 1]).bind (fun r => r.splitLegs (some [.idx 1]))).toOption.map
      (fun a' => (a'.toDense, a'.lcs, a'.labels, decide a'.WF))
    = some (Comb.Ex.t3.toDense, Comb.Ex.t3.lcs, Comb.Ex.t3.labels, true) := by decide
example : ((Comb.Ex.t3.combineLegs [[.idx 2, .idx 0]] none none [some 1]).bind (fun r => r.splitLegs none)).toOption.map
      (fun a' => (a'.toDense, a'.lcs, a'.labels))
    = some (Comb.Ex.t3.toDense.transpose [1, 2, 0], permuteList Comb.Ex.t3.lcs [1, 2, 0] default,
        [some "b", none, some "a"]) := by decide
example : ((Comb.Ex.t1.combineLegs [[.idx 0, .idx 1]] none none [some 1]).bind (fun r => r.splitLegs none)).toOption.map
      (fun a' => (a'.toDense, a'.lcs, a'.labels)) = some (Comb.Ex.t1.toDense, Comb.Ex.t1.lcs, Comb.Ex.t1.labels) := by
  decide
/-- the label hypotheses of the theorem hold for `t3` -/
example : (∀ c ∈ [[1, 2]], c ≠ [] ∧ ∀ s ∈ pick (Comb.cLabels Comb.Ex.t3) c "", Label.Piece s.toList)
    ∧ Comb.cLabels Comb.Ex.t3 = ["a", "b", "?2"] := by
  simp only [Label.Piece]
  decide
