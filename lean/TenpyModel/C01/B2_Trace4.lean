import TenpyModel.C01.B2_Trace3
/-!
C01 part B2 — `trace` of a tensor of rank > 2, step 4: the entry formula
`r[idx] = Σ_{t < n} a[idx with t inserted at the two traced axes]`.
-/
namespace TenpyModel.C01B2
open TenpyModel.Core TenpyModel.C01B

set_option linter.unusedSectionVars false

variable {α : Type} [CommSemiring α]

/-- the part of `Σ_t a[… t … t …]` with `t` in block `qt` of the traced leg -/
def Gsum (a : Arr α) (ax1 ax2 : Nat) (idx : List Nat) (qt : Nat) : α :=
  ((List.range ((a.lc ax1).blockSizes.getD qt 0)).map (fun s =>
    a.entry (Dense.fullIdx a.rank [ax1, ax2] (fun _ => (a.lc ax1).slices.getD qt 0 + s) idx))).sum

/-- the rows that contribute to the new row `q'` -/
def rowSel (a : Arr α) (ax1 ax2 : Nat) (q' : List Nat) (q : List Nat) : Bool :=
  (pick q (Dense.keepAx a.rank [ax1, ax2]) 0 == q') && (q.getD ax1 0 == q.getD ax2 0)

namespace TrCtx
variable {a : Arr α} {ax1 ax2 : Nat} (c : TrCtx a ax1 ax2)
include c

/-- a diagonal row is rebuilt from its kept part and its traced block index -/
theorem row_rebuild (q : List Nat) (hl : q.length = a.rank) (hd : q.getD ax1 0 = q.getD ax2 0) :
    Dense.fullIdx a.rank [ax1, ax2] (fun _ => q.getD ax1 0) (pick q (Dense.keepAx a.rank [ax1, ax2]) 0) = q := by
  apply Dense.fullIdx_pick _ _ _ q hl
  intro k hk _
  rcases (mem_pair ax1 ax2 k).1 hk with rfl | rfl
  · rfl
  · exact hd.symm

/-- the partial trace of a stored diagonal block, entry-wise in terms of `a` -/
theorem block_get (idx : List Nat)
    (hi : InRange idx (((Dense.keepAx a.rank [ax1, ax2]).map a.lc).map Leg.indLen))
    (q : List Nat) (blk : Blk α) (hm : (q, blk) ∈ a.qdata.zip a.data) (hd : q.getD ax1 0 = q.getD ax2 0)
    (hp : pick q (Dense.keepAx a.rank [ax1, ax2]) 0 = qOf ((Dense.keepAx a.rank [ax1, ax2]).map a.lc) idx) :
    (blk.trace ax1 ax2).get 0 (wOf ((Dense.keepAx a.rank [ax1, ax2]).map a.lc) idx)
      = Gsum a ax1 ax2 idx (q.getD ax1 0) := by
  obtain ⟨hr, e1, e2⟩ := c.blk_facts q blk hm
  have hl := c.wa.rowLen q (List.of_mem_zip hm).1
  have hlen : idx.length = (Dense.keepAx a.rank [ax1, ax2]).length := by
    rw [hi.length_eq, List.length_map, List.length_map]
  have hqt : q.getD ax1 0 < (a.lc ax1).blockNumber := c.wa.rowLt q (List.of_mem_zip hm).1 ax1 c.h1
  have hli := locate_idx _ c.keepShapes idx hi
  have hmem : (pick q (Dense.keepAx a.rank [ax1, ax2]) 0, blk.trace ax1 ax2) ∈ traceList a ax1 ax2 := by
    unfold traceList
    exact List.mem_map.2 ⟨(q, blk), List.mem_filter.2 ⟨hm, by simpa using hd⟩, rfl⟩
  have hshape := (c.list_ok _ hmem).1
  simp only at hshape
  rw [hp] at hshape
  rw [get_trace blk ax1 ax2 _ (by rw [← trace_shape, hshape]; exact hli.2.1)]
  rw [hr, e1, e2, ← hd, ← c.bs_eq, Nat.min_self]
  unfold Gsum
  apply sum_map_congr
  intro s hs
  obtain ⟨l1, l2⟩ := c.locate_full idx hlen (q.getD ax1 0) s hqt (List.mem_range.1 hs)
  have hQ := c.row_rebuild q hl hd
  rw [hp] at hQ
  rw [entry_of_mem a c.wa.nodup _ blk (by rw [l1, hQ]; exact hm), l2]

/-- a block of the traced leg whose diagonal row is not stored contributes nothing -/
theorem Gsum_zero (idx : List Nat) (hlen : idx.length = (Dense.keepAx a.rank [ax1, ax2]).length) (qt : Nat)
    (hqt : qt < (a.lc ax1).blockNumber)
    (hno : Dense.fullIdx a.rank [ax1, ax2] (fun _ => qt) (qOf ((Dense.keepAx a.rank [ax1, ax2]).map a.lc) idx)
      ∉ a.qdata) : Gsum a ax1 ax2 idx qt = 0 := by
  unfold Gsum
  apply sum_map_zero
  intro s hs
  obtain ⟨l1, _⟩ := c.locate_full idx hlen qt s hqt (List.mem_range.1 hs)
  exact entry_of_not_mem a _ (by rw [l1]; exact hno)

/-- the contributing rows are exactly the diagonal rows over the new row, one per block of the traced leg -/
theorem sum_rows (idx : List Nat) (hlen : idx.length = (Dense.keepAx a.rank [ax1, ax2]).length) :
    ((a.qdata.filter (rowSel a ax1 ax2 (qOf ((Dense.keepAx a.rank [ax1, ax2]).map a.lc) idx))).map
        (fun q => Gsum a ax1 ax2 idx (q.getD ax1 0))).sum
      = ((List.range (a.lc ax1).blockNumber).map (Gsum a ax1 ax2 idx)).sum := by
  have hq'len : (qOf ((Dense.keepAx a.rank [ax1, ax2]).map a.lc) idx).length
      = (Dense.keepAx a.rank [ax1, ax2]).length := by
    rw [qOf_length _ _ (by rw [hlen, List.length_map]), List.length_map]
  have hax1 : ∀ qt, (Dense.fullIdx a.rank [ax1, ax2] (fun _ => qt)
      (qOf ((Dense.keepAx a.rank [ax1, ax2]).map a.lc) idx)).getD ax1 0 = qt :=
    fun qt => Dense.fullIdx_getD_ax _ _ _ _ _ c.h1 (by simp)
  have hax2 : ∀ qt, (Dense.fullIdx a.rank [ax1, ax2] (fun _ => qt)
      (qOf ((Dense.keepAx a.rank [ax1, ax2]).map a.lc) idx)).getD ax2 0 = qt :=
    fun qt => Dense.fullIdx_getD_ax _ _ _ _ _ c.h2 (by simp)
  have hsel : ∀ q, rowSel a ax1 ax2 (qOf ((Dense.keepAx a.rank [ax1, ax2]).map a.lc) idx) q = true ↔
      pick q (Dense.keepAx a.rank [ax1, ax2]) 0 = qOf ((Dense.keepAx a.rank [ax1, ax2]).map a.lc) idx
        ∧ q.getD ax1 0 = q.getD ax2 0 := by
    intro q; simp [rowSel]
  have hsupp := sum_support
    ((List.range (a.lc ax1).blockNumber).map (fun qt => Dense.fullIdx a.rank [ax1, ax2] (fun _ => qt)
      (qOf ((Dense.keepAx a.rank [ax1, ax2]).map a.lc) idx)))
    (a.qdata.filter (rowSel a ax1 ax2 (qOf ((Dense.keepAx a.rank [ax1, ax2]).map a.lc) idx)))
    (fun q => Gsum a ax1 ax2 idx (q.getD ax1 0)) ?_ (c.wa.nodup.filter _) ?_ ?_
  · rw [← hsupp, List.map_map]
    apply sum_map_congr
    intro qt _
    simp only [Function.comp, hax1]
  · apply List.nodup_range.map_on
    intro x _ y _ e
    have := congrArg (fun l => l.getD ax1 0) e
    simpa only [hax1] using this
  · intro q hq
    obtain ⟨hqm, hs⟩ := List.mem_filter.1 hq
    obtain ⟨hp, hd⟩ := (hsel q).1 hs
    refine List.mem_map.2 ⟨q.getD ax1 0, List.mem_range.2 (c.wa.rowLt q hqm ax1 c.h1), ?_⟩
    rw [← hp]
    exact c.row_rebuild q (c.wa.rowLen q hqm) hd
  · intro x hx hnx
    obtain ⟨qt, hqt, rfl⟩ := List.mem_map.1 hx
    simp only [hax1]
    apply c.Gsum_zero idx hlen qt (List.mem_range.1 hqt)
    intro hmem
    apply hnx
    refine List.mem_filter.2 ⟨hmem, (hsel _).2 ⟨?_, by rw [hax1, hax2]⟩⟩
    exact Dense.pick_fullIdx _ _ _ _ hq'len

/-- **entries of the trace** -/
theorem entry_eq (idx : List Nat) (hi : InRange idx (trRes a ax1 ax2 (traceAcc a ax1 ax2)).shape) :
    (trRes a ax1 ax2 (traceAcc a ax1 ax2)).entry idx
      = ((List.range (a.lc ax1).indLen).map (fun t =>
          a.entry (Dense.fullIdx a.rank [ax1, ax2] (fun _ => t) idx))).sum := by
  have hi' : InRange idx (((Dense.keepAx a.rank [ax1, ax2]).map a.lc).map Leg.indLen) := by
    rw [← trRes_lcs a ax1 ax2 (traceAcc a ax1 ax2)]; exact hi
  have hlen : idx.length = (Dense.keepAx a.rank [ax1, ax2]).length := by
    rw [hi'.length_eq, List.length_map, List.length_map]
  obtain ⟨ok, hl, _⟩ := c.acc_ok
  rw [entry_def, trRes_zip, trRes_lcs]
  refine (lsum_find _ ok.nodup _ _).trans ?_
  rw [hl, sum_leg_blocks c.shape1]
  have s3 : lsum (traceList a ax1 ax2) (qOf ((Dense.keepAx a.rank [ax1, ax2]).map a.lc) idx)
        (wOf ((Dense.keepAx a.rank [ax1, ax2]).map a.lc) idx)
      = (((a.qdata.zip a.data).filter (fun rb =>
            rowSel a ax1 ax2 (qOf ((Dense.keepAx a.rank [ax1, ax2]).map a.lc) idx) rb.1)).map
          (fun rb => (rb.2.trace ax1 ax2).get 0 (wOf ((Dense.keepAx a.rank [ax1, ax2]).map a.lc) idx))).sum := by
    unfold lsum traceList
    rw [List.filter_map, List.filter_filter, List.map_map]
    rfl
  have s4 : ((a.qdata.zip a.data).filter (fun rb =>
            rowSel a ax1 ax2 (qOf ((Dense.keepAx a.rank [ax1, ax2]).map a.lc) idx) rb.1)).map
          (fun rb => (rb.2.trace ax1 ax2).get 0 (wOf ((Dense.keepAx a.rank [ax1, ax2]).map a.lc) idx))
      = ((a.qdata.filter (rowSel a ax1 ax2 (qOf ((Dense.keepAx a.rank [ax1, ax2]).map a.lc) idx))).map
          (fun q => Gsum a ax1 ax2 idx (q.getD ax1 0))) := by
    conv => rhs; rw [← map_fst_zip' a.qdata a.data c.wa.len, List.filter_map, List.map_map]
    apply List.map_congr_left
    intro rb hrb
    obtain ⟨hm, hs⟩ := List.mem_filter.1 hrb
    simp only [rowSel, Bool.and_eq_true, beq_iff_eq] at hs
    exact c.block_get idx hi' rb.1 rb.2 hm hs.2 hs.1
  rw [s3, s4, c.sum_rows idx hlen]
  rfl

end TrCtx
end TenpyModel.C01B2
