import TenpyModel.C01.B2_Comb29
/-!
C01 part B2 — non-vacuity examples for `combine_places`: a rank-3 tensor over U(1)×Z₃ (duplicate sector, two stored
blocks in unsorted order, `qtotal ≠ 0`), one spectator leg and one group of two legs fused by a sorted, bunched pipe
(so the index map is not the row-major reshape) — the `_combine_legs_worker` branch.
-/
namespace TenpyModel.C01B2.Comb.Ex
open TenpyModel.Core TenpyModel.C01B TenpyModel.C01B2.Comb

def legA : Leg := ⟨[1, 3], [0, 1, 3, 4], [[0, 1], [1, 2], [0, 1]], 1, false, false⟩
def legB : Leg := ⟨[1, 3], [0, 2, 3], [[1, 0], [0, 1]], -1, false, true⟩
def legC : Leg := ⟨[1, 3], [0, 1, 2, 4], [[1, 2], [0, 0], [1, 2]], 1, false, false⟩

/-- blocks (2,0,1) and (0,0,1) carry the charge `(-1, 1) = qtotal`; stored in unsorted order -/
def t3 : Arr Int :=
  { mods := [1, 3], legs := [.plain legA, .plain legB, .plain legC], qtotal := [-1, 1],
    labels := [some "a", some "b", none],
    qdata := [[2, 0, 1], [0, 0, 1]], data := [⟨[1, 2, 1], [5, -7]⟩, ⟨[1, 2, 1], [2, 3]⟩], qdataSorted := false }

/-- the pipe over legs 1, 2 (sorted and bunched, outgoing direction +1) -/
def pBC : ALeg := ALeg.mkPipe [.plain legB, .plain legC] 1 true true
/-- the pipe over legs 0, 1 (not sorted, outgoing direction -1) -/
def pAB : ALeg := ALeg.mkPipe [.plain legA, .plain legB] (-1) false false

example : t3.WF ∧ t3.ChargeRule := by decide
example : StdForm t3.rank [[1, 2]] [1] ∧ StdForm t3.rank [[0, 1]] [0] := by decide
/-- not in standard form: the group is not a run of consecutive axes / not in order -/
example : ¬ StdForm t3.rank [[0, 2]] [0] ∧ ¬ StdForm t3.rank [[2, 1]] [1] := by decide

example : PipesOK t3 [[1, 2]] [pBC] := by
  intro g hg
  have : g = 0 := by simpa using hg
  subst this
  exact ⟨1, true, true, _, rfl⟩

example : PipesOK t3 [[0, 1]] [pAB] := by
  intro g hg
  have : g = 0 := by simpa using hg
  subst this
  exact ⟨-1, false, false, _, rfl⟩

/-- the call of the theorem succeeds; the spectator index is kept, the pair `(j, k)` goes to `map_incoming_flat` -/
example : (t3.combineStd [[1, 2]] [1] [pBC] ["a", "b", "?2"]).toOption.map
      (fun r => (r.qdata, r.shape, r.labels, r.qtotal))
    = some ([[0, 0], [2, 0]], [4, 12], [some "a", some "(b.?2)"], [-1, 1]) := by decide

example : combIdx t3 [[1, 2]] [1] [pBC] [3, 0, 1] = [3, 0] ∧ combIdx t3 [[1, 2]] [1] [pBC] [3, 1, 1] = [3, 1]
    ∧ combIdx t3 [[1, 2]] [1] [pBC] [0, 1, 1] = [0, 1] ∧ combIdx t3 [[1, 2]] [1] [pBC] [1, 2, 3] = [1, 4] := by decide

example : (t3.combineStd [[1, 2]] [1] [pBC] ["a", "b", "?2"]).toOption.map
      (fun r => (r.entry [3, 0], r.entry [3, 1], r.entry [0, 0], r.entry [0, 1], r.entry [1, 4]))
    = some (t3.entry [3, 0, 1], t3.entry [3, 1, 1], t3.entry [0, 0, 1], t3.entry [0, 1, 1], t3.entry [1, 2, 3]) := by
  decide

example : (t3.entry [3, 0, 1], t3.entry [3, 1, 1], t3.entry [0, 0, 1], t3.entry [0, 1, 1]) = (5, -7, 2, 3) := by
  decide

/-- group first, spectator last; unsorted pipe with outgoing direction -1 -/
example : (t3.combineStd [[0, 1]] [0] [pAB] ["a", "b", "?2"]).toOption.map
      (fun r => (r.qdata, r.shape, r.labels, r.entry (combIdx t3 [[0, 1]] [0] [pAB] [3, 1, 1])))
    = some ([[0, 1], [4, 1]], [12, 4], [some "(a.b)", none], -7) := by decide

example : combIdx t3 [[0, 1]] [0] [pAB] [3, 1, 1] = [10, 1] := by decide

/-! ### the public `combine_legs` (`combineLegs_places_id`, `combineLegs_places_tr`) -/

/-- no transposition: `t3.combine_legs([1, 2], qconj=+1)`; all hypotheses of `combineLegs_places_id` hold -/
example : t3.combineMakePipes [[.idx 1, .idx 2]] none [some 1] = .ok [pBC] := rfl
example : [[Ax.idx 1, Ax.idx 2]].mapM t3.getLegIndices = .ok [[1, 2]]
    ∧ Arr.combineNewAxes t3.rank [[1, 2]] none = .ok ([1], List.range t3.rank) ∧ [1].Nodup := by decide

example : PipesOK t3 [[1, 2]] [pBC] := makePipes_none t3 [[.idx 1, .idx 2]] [some 1] _ _ rfl (by decide)

example : (t3.combineLegs [[.idx 1, .idx 2]] none none [some 1]).toOption.map
      (fun r => (r.qdata, r.shape, r.labels, r.entry (combIdx t3 [[1, 2]] [1] [pBC] [3, 1, 1])))
    = some ([[0, 0], [2, 0]], [4, 12], [some "a", some "(b.?2)"], t3.entry [3, 1, 1]) := by decide

/-- with transposition: `t3.combine_legs([2, 0], qconj=+1)`: `transp = [1, 2, 0]` -/
example : [[Ax.idx 2, Ax.idx 0]].mapM t3.getLegIndices = .ok [[2, 0]]
    ∧ Arr.combineNewAxes t3.rank [[2, 0]] none = .ok ([1], [1, 2, 0]) ∧ [1, 2, 0] ≠ List.range t3.rank := by decide

example : t3.combineMakePipes [[.idx 2, .idx 0]] none [some 1]
    = .ok [ALeg.mkPipe [.plain legC, .plain legA] 1 true true] := rfl

example : (cTransposed t3 [1, 2, 0]).shape = [3, 4, 4]
    ∧ (cTransposed t3 [1, 2, 0]).toDense = t3.toDense.transpose [1, 2, 0]
    ∧ StdForm 3 [[1, 2]] [1]
    ∧ combIdx (cTransposed t3 [1, 2, 0]) [[1, 2]] [1] [ALeg.mkPipe [.plain legC, .plain legA] 1 true true] [1, 1, 3]
        = [1, 7]
    ∧ unperm [1, 2, 0] 3 [1, 1, 3] = [3, 1, 1] := by decide

example : (t3.combineLegs [[.idx 2, .idx 0]] none none [some 1]).toOption.map
      (fun r => (r.qdata, r.shape, r.labels, r.entry [1, 7]))
    = some ([[0, 1]], [3, 16], [some "b", some "(?2.a)"], t3.entry [3, 1, 1]) := by decide

/-! ### `split_legs ∘ combine_legs` (`split_combine`, `split_combine_none`, `split_combineLegs_id/_tr`) -/

example : PipesOK2 t3 [[1, 2]] [pBC] := by
  intro g hg
  have : g = 0 := by simpa using hg
  subst this
  exact ⟨1, true, true, rfl⟩

/-- no spectator leg of `t3` is a pipe -/
example : ∀ x ∈ cNonComb t3.rank [[1, 2]], (t3.legs.getD x default).isPipe = false := by decide

/-- standard form: splitting the new axis (worker branch: two stored blocks) restores dense form, legs, labels -/
example : ((t3.combineStd [[1, 2]] [1] [pBC] ["a", "b", "?2"]).bind
      (fun r => r.splitLegs (some [Ax.idx 1]))).toOption.map (fun a' => (a'.toDense, a'.lcs, a'.labels))
    = some (t3.toDense, t3.lcs, t3.labels) := by decide

example : ((t3.combineStd [[1, 2]] [1] [pBC] ["a", "b", "?2"]).bind
      (fun r => r.splitLegs (some [Ax.idx 1]))).toOption.map (fun a' => a'.qdata)
    = some [[0, 0, 1], [2, 0, 1]] := by decide

example : ((t3.combineStd [[1, 2]] [1] [pBC] ["a", "b", "?2"]).bind (fun r => r.splitLegs none)).toOption.map
      (fun a' => (a'.toDense, a'.lcs, a'.labels)) = some (t3.toDense, t3.lcs, t3.labels) := by decide

/-- public calls; with the transposition `[1, 2, 0]` the round trip is that transposition -/
example : ((t3.combineLegs [[.idx 1, .idx 2]] none none [some 1]).bind (fun r => r.splitLegs none)).toOption.map
      (fun a' => (a'.toDense, a'.lcs, a'.labels)) = some (t3.toDense, t3.lcs, t3.labels) := by decide

example : ((t3.combineLegs [[.idx 2, .idx 0]] none none [some 1]).bind (fun r => r.splitLegs none)).toOption.map
      (fun a' => (a'.toDense, a'.lcs, a'.labels))
    = some (t3.toDense.transpose [1, 2, 0], Arr.permuteList t3.lcs [1, 2, 0] default, [some "b", none, some "a"]) := by
  decide

/-- a tensor with a single stored block and single-block legs: the `stored_blocks == 1` shortcuts of both functions -/
def t1 : Arr Int :=
  { mods := [1, 3], legs := [.plain (Leg.fromTrivial 2 [1, 3] 1), .plain (Leg.fromTrivial 3 [1, 3] (-1))],
    qtotal := [0, 0], labels := [some "x", some "y"], qdata := [[0, 0]], data := [⟨[2, 3], [1, 2, 3, 4, 5, 6]⟩],
    qdataSorted := true }

example : t1.WF ∧ StdForm t1.rank [[0, 1]] [0] := by decide
example : ((t1.combineLegs [[.idx 0, .idx 1]] none none [some 1]).bind (fun r => r.splitLegs none)).toOption.map
      (fun a' => (a'.toDense, a'.lcs, a'.labels)) = some (t1.toDense, t1.lcs, t1.labels) := by
  decide

/-! ### labels, well-formedness, bijectivity of the index map -/

/-- the label hypotheses of `split_combine_labels` / `split_combineLegs_labels` -/
example : ∀ c ∈ [[1, 2]], c ≠ [] ∧ ∀ s ∈ pick (cLabels t3) c "", Label.Piece s.toList := by
  simp only [Label.Piece]
  decide
example : cLabels t3 = ["a", "b", "?2"] ∧ (cLabels t3).map mkLabel = t3.labels := by decide
example : ∀ s, some s ∈ t3.labels → s.toList.head? ≠ some '?' := by
  intro s hs
  have : s = "a" ∨ s = "b" := by simpa [t3] using hs
  rcases this with rfl | rfl <;> decide

/-- the result of the round trip is well-formed (worker branch / one-block branch) -/
example : ((t3.combineLegs [[.idx 1, .idx 2]] none none [some 1]).bind (fun r => r.splitLegs none)).toOption.map
      (fun a' => decide a'.WF) = some true := by decide
example : ((t1.combineLegs [[.idx 0, .idx 1]] none none [some 1]).bind (fun r => r.splitLegs none)).toOption.map
      (fun a' => decide a'.WF) = some true := by decide
example : (t3.combineLegs [[.idx 1, .idx 2]] none none [some 1]).toOption.map (fun r => decide r.WF) = some true := by
  decide

/-- `combIdx` is a bijection `[0,4)×[0,3)×[0,4) → [0,4)×[0,12)` (`combIdx_bijective`): 48 distinct images in range -/
example : ((Dense.allIdx t3.shape).map (combIdx t3 [[1, 2]] [1] [pBC])).Nodup
    ∧ ((Dense.allIdx t3.shape).map (combIdx t3 [[1, 2]] [1] [pBC])).all (fun i => Dense.inRange [4, 12] i) = true := by
  decide

end TenpyModel.C01B2.Comb.Ex
