import TenpyModel.C01.C_Sort10
import TenpyModel.C01.B2_CombEx
/-!
C01 part C — `sort_legcharge`, part 11: non-vacuity of `sortLegcharge_spec` on `Comb.Ex.t3` (rank 3 over U(1)×Z₃;
leg 0 has the charge sectors `[0,1], [1,2], [0,1]` — unsorted, with a duplicate sector that is not adjacent; two stored
blocks in unsorted order): sorting and bunching leg 0 and sorting leg 2 permutes the flat indices non-trivially and
merges the two stored blocks into one.
-/
namespace TenpyModel.C01C.SortLc.Ex
open TenpyModel.Core TenpyModel.C01C.SortLc TenpyModel.C01C TenpyModel.C01B2.Comb.Ex

/-- hypotheses of the theorem: the tensor is well formed, every leg satisfies the `LegCharge` invariant -/
example : t3.WF ∧ (∀ l ∈ t3.lcs, l.WF ∧ l.sane = true) := by decide

/-- the run: returned permutations and the stored blocks of the result -/
example : (t3.sortLegcharge [true, false, true] [true, false, false]).toOption.map (fun pc => (pc.1, pc.2.qdata))
    = some ([[0, 3, 1, 2], [0, 1, 2], [1, 0, 2, 3]], [[0, 0, 0]]) := by decide
example : (t3.sortLegcharge [true, false, true] [true, false, false]).toOption.map (fun pc => pc.2.data)
    = some [⟨[2, 2, 1], [2, 3, 5, -7]⟩] := by decide
/-- the charges of the new legs, index by index (leg 0: sorted and bunched, leg 2: sorted only) -/
example : (t3.sortLegcharge [true, false, true] [true, false, false]).toOption.map (fun pc => pc.2.lcs.map Leg.toQflat)
    = some [[[0, 1], [0, 1], [1, 2], [1, 2]], [[1, 0], [1, 0], [0, 1]], [[0, 0], [1, 2], [1, 2], [1, 2]]] := by decide
example : t3.lcs.map Leg.toQflat
    = [[[0, 1], [1, 2], [1, 2], [0, 1]], [[1, 0], [1, 0], [0, 1]], [[1, 2], [0, 0], [1, 2], [1, 2]]] := by decide
/-- the conclusion of the theorem, checked directly -/
example : (t3.sortLegcharge [true, false, true] [true, false, false]).toOption.map
    (fun pc => (decide (pc.2.toDense = Dense.ix t3.toDense pc.1), decide pc.2.WF, pc.2.labels, pc.2.qtotal))
    = some (true, true, [some "a", some "b", none], [-1, 1]) := by decide
/-- the dense form really changes, and entry `[1, 0, 0]` of the result is entry `[3, 0, 1]` of `t3` -/
example : Dense.ix t3.toDense [[0, 3, 1, 2], [0, 1, 2], [1, 0, 2, 3]] ≠ t3.toDense
    ∧ (Dense.ix t3.toDense [[0, 3, 1, 2], [0, 1, 2], [1, 0, 2, 3]]).get 0 [1, 0, 0] = 5
    ∧ t3.entry [3, 0, 1] = 5 := by decide

/-- the theorem applied to the run: `.ok` by evaluation, hypotheses by `decide`, conclusions from the theorem -/
example : ∃ perms cp, t3.sortLegcharge [true, false, true] [true, false, false] = .ok (perms, cp)
    ∧ perms = [[0, 3, 1, 2], [0, 1, 2], [1, 0, 2, 3]]
    ∧ cp.toDense = Dense.ix t3.toDense perms ∧ cp.WF
    ∧ (cp.lc 0).toQflat = (perms.getD 0 []).map ((t3.lc 0).toQflat.getD · []) ∧ (cp.lc 0).isSorted = true
    ∧ (cp.lc 0).isBunched = true ∧ cp.legs.getD 1 default = t3.legs.getD 1 default := by
  obtain ⟨pc, h⟩ : ∃ pc, t3.sortLegcharge [true, false, true] [true, false, false] = .ok pc := ⟨_, rfl⟩
  obtain ⟨perms, cp⟩ := pc
  obtain ⟨_, _, ⟨_, _, hd⟩, ⟨_, hother, hsel⟩, _, hwf⟩ := sortLegcharge_spec t3 (by decide) _ _ perms cp h
  obtain ⟨_, _, _, hq⟩ := hsel 0 (by decide) (by decide)
  obtain ⟨q1, _, _, q4, q5⟩ := hq (by decide)
  refine ⟨perms, cp, h, ?_, hd, hwf, q1, (q4 (by decide)).2, (q5 (by decide)).2, hother 1 (by decide) (by decide)⟩
  have : (t3.sortLegcharge [true, false, true] [true, false, false]).toOption.map (·.1)
      = some [[0, 3, 1, 2], [0, 1, 2], [1, 0, 2, 3]] := by decide
  rw [h] at this
  exact Option.some.inj this

end TenpyModel.C01C.SortLc.Ex
