import TenpyModel.C01.B_Arr
/-!
C01 part B — `Arr.entry` through block lookup, and `outer`.
-/
namespace TenpyModel.C01B
open TenpyModel.Core

variable {α : Type}

theorem InRange_split {idx s t : List Nat} (h : InRange idx (s ++ t)) :
    ∃ u v, idx = u ++ v ∧ InRange u s ∧ InRange v t := by
  refine ⟨idx.take s.length, idx.drop s.length, (List.take_append_drop _ _).symm, ?_⟩
  have hl := h.length_eq
  rw [List.length_append] at hl
  have h' : InRange (idx.take s.length ++ idx.drop s.length) (s ++ t) := by rw [List.take_append_drop]; exact h
  exact (InRange_append (by rw [List.length_take]; omega)).1 h'

theorem mem_zip_of_mem_left {β γ} (q : List β) (d : List γ) (h : q.length = d.length) (x : β) (hx : x ∈ q) :
    ∃ b, (x, b) ∈ q.zip d := by
  induction q generalizing d with
  | nil => simp at hx
  | cons r rs ih =>
    cases d with
    | nil => simp at h
    | cons b bs =>
      simp only [List.length_cons, Nat.add_right_cancel_iff] at h
      rcases List.mem_cons.1 hx with rfl | hx
      · exact ⟨b, by simp⟩
      · obtain ⟨c, hc⟩ := ih bs h hx
        exact ⟨c, by simp [hc]⟩

theorem zip_map_same {β γ δ} (L : List β) (f : β → γ) (g : β → δ) :
    (L.map f).zip (L.map g) = L.map (fun p => (f p, g p)) := by
  induction L with
  | nil => rfl
  | cons x L ih => simp [ih]

theorem shapeOK_shape {l : Leg} (h : l.ShapeOK) : l.Shape := ⟨h.1, h.2.1, h.2.2⟩

/-- `Arr.WF` with named components (`Leg.Shape` per leg, `Good` blocks) -/
structure W (a : Arr α) : Prop where
  labLen : a.labels.length = a.rank
  len : a.qdata.length = a.data.length
  nodup : a.qdata.Nodup
  shapes : ∀ l ∈ a.lcs, l.Shape
  rowLen : ∀ r ∈ a.qdata, r.length = a.rank
  rowLt : ∀ r ∈ a.qdata, ∀ k, k < a.rank → r.getD k 0 < (a.lc k).blockNumber
  blkShape : ∀ rb ∈ a.qdata.zip a.data, rb.2.shape = blockShapeOf a.lcs rb.1
  blkGood : ∀ rb ∈ a.qdata.zip a.data, Good rb.2
  sortedOK : a.qdataSorted = true → isLexsorted a.qdata = true

theorem W.of {a : Arr α} (h : a.WF) : W a where
  labLen := h.1
  len := h.2.1
  nodup := h.2.2.1
  shapes := fun l hl => shapeOK_shape (h.2.2.2.1 l hl)
  rowLen := fun r hr => (h.2.2.2.2.1 r hr).1
  rowLt := fun r hr => (h.2.2.2.2.1 r hr).2
  blkShape := fun rb hrb => (h.2.2.2.2.2.1 rb hrb).1
  blkGood := fun rb hrb => by
    have := (h.2.2.2.2.2.1 rb hrb).2
    rw [prod_eq] at this
    exact this
  sortedOK := h.2.2.2.2.2.2

theorem lcs_length (a : Arr α) : a.lcs.length = a.rank := by simp [Arr.lcs, Arr.rank]
theorem shape_eq (a : Arr α) : a.shape = a.lcs.map Leg.indLen := rfl

section entry
variable [Zero α]

theorem entry_def (a : Arr α) (idx : List Nat) :
    a.entry idx = match (a.qdata.zip a.data).reverse.find? (fun rb => rb.1 == qOf a.lcs idx) with
      | none => 0
      | some (_, b) => b.get 0 (wOf a.lcs idx) := rfl

/-- the block containing the index is stored: the entry is read from it (key-functional block list) -/
theorem entry_of_mem' (a : Arr α) (hk : ∀ x ∈ a.qdata.zip a.data, ∀ y ∈ a.qdata.zip a.data, x.1 = y.1 → x = y)
    (idx : List Nat) (b : Blk α) (h : (qOf a.lcs idx, b) ∈ a.qdata.zip a.data) :
    a.entry idx = b.get 0 (wOf a.lcs idx) := by
  rw [entry_def, find_rev_mem _ hk (qOf a.lcs idx, b) h]

theorem entry_of_mem (a : Arr α) (hnd : a.qdata.Nodup) (idx : List Nat) (b : Blk α)
    (h : (qOf a.lcs idx, b) ∈ a.qdata.zip a.data) : a.entry idx = b.get 0 (wOf a.lcs idx) :=
  entry_of_mem' a (zip_fst_inj a.qdata a.data hnd) idx b h

/-- no stored block has this block index: the entry is zero -/
theorem entry_of_not_mem' (a : Arr α) (idx : List Nat) (h : ∀ e ∈ a.qdata.zip a.data, e.1 ≠ qOf a.lcs idx) :
    a.entry idx = 0 := by
  rw [entry_def, find_rev_none _ _ h]

theorem entry_of_not_mem (a : Arr α) (idx : List Nat) (h : qOf a.lcs idx ∉ a.qdata) : a.entry idx = 0 :=
  entry_of_not_mem' a idx (fun e he heq => h (heq ▸ (List.of_mem_zip he).1))

theorem toDense_shape (a : Arr α) : a.toDense.shape = a.shape := rfl
theorem toDense_good (a : Arr α) : Good a.toDense := ofFn_good _ _
theorem toDense_get (a : Arr α) (idx : List Nat) (h : InRange idx a.shape) : a.toDense.get 0 idx = a.entry idx :=
  get_ofFn 0 _ _ idx h

/-- two tensors of equal shape with equal entries have the same dense form; and a dense tensor of that shape
with those entries *is* the dense form -/
theorem toDense_eq_of_get (a : Arr α) (d : Dense α) (hs : d.shape = a.shape) (hd : Good d)
    (h : ∀ idx, InRange idx a.shape → d.get 0 idx = a.entry idx) : a.toDense = d := by
  apply ext_get 0 _ _ hs.symm (toDense_good a) hd
  intro idx hi
  rw [toDense_get a idx hi, h idx hi]

end entry

/-! ### outer -/

theorem zeros_ok (mods : List Nat) (legs : List ALeg) (qt : Option Charge) (r : Arr α)
    (h : Arr.zeros mods legs qt none = .ok r) :
    r = { mods, legs, qtotal := makeValid mods (qt.getD (czero mods.length)),
          labels := legs.map (fun _ => none), qdata := [], data := [], qdataSorted := true } := by
  unfold Arr.zeros at h
  split at h
  · simp at h
  · split at h
    · simp at h
    · simp only [Except.ok.injEq] at h
      exact h.symm

section outer
variable [CommSemiring α]

/-- what `outer` returns -/
theorem outer_ok (a b r : Arr α) (h : a.outer b = .ok r) :
    r.legs = a.legs ++ b.legs ∧ r.mods = a.mods ∧ r.qtotal = makeValid a.mods (cadd a.qtotal b.qtotal)
    ∧ r.labels = Label.dropDuplicate a.labels b.labels
    ∧ r.qdata.zip r.data = ((b.qdata.zip b.data).flatMap (fun rbB => (a.qdata.zip a.data).map (fun rbA => (rbA, rbB)))).map
        (fun p => (p.1.1 ++ p.2.1, Dense.outer p.1.2 p.2.2)) := by
  unfold Arr.outer at h
  simp only [bind, Except.bind, pure, Except.pure] at h
  split at h
  · simp [throw, throwThe, MonadExceptOf.throw] at h
  · cases hz : (Arr.zeros a.mods (a.legs ++ b.legs) (some (cadd a.qtotal b.qtotal)) none : Except Err (Arr α)) with
    | error e => rw [hz] at h; simp at h
    | ok res =>
      rw [hz] at h
      simp only [Except.ok.injEq] at h
      have hres := zeros_ok _ _ _ _ hz
      subst h
      subst hres
      refine ⟨rfl, rfl, rfl, rfl, ?_⟩
      exact zip_map_same _ _ _

theorem outer_entry (a b r : Arr α) (ha : W a) (hb : W b) (h : a.outer b = .ok r) (i j : List Nat)
    (hi : InRange i a.shape) (hj : InRange j b.shape) : r.entry (i ++ j) = a.entry i * b.entry j := by
  obtain ⟨hlegs, _, _, _, hzip⟩ := outer_ok a b r h
  have hlcs : r.lcs = a.lcs ++ b.lcs := by simp [Arr.lcs, hlegs]
  have hil : i.length = a.lcs.length := by rw [hi.length_eq, shape_eq, List.length_map]
  have hq : qOf r.lcs (i ++ j) = qOf a.lcs i ++ qOf b.lcs j := by rw [hlcs, qOf_append _ _ _ _ hil]
  have hw : wOf r.lcs (i ++ j) = wOf a.lcs i ++ wOf b.lcs j := by rw [hlcs, wOf_append _ _ _ _ hil]
  have hqlen : (qOf a.lcs i).length = a.rank := by rw [qOf_length _ _ hil, lcs_length]
  -- a key of the result determines both source rows
  have hkey : ∀ (x y : (List Nat × Blk α) × (List Nat × Blk α)), x.1 ∈ a.qdata.zip a.data → y.1 ∈ a.qdata.zip a.data →
      x.1.1 ++ x.2.1 = y.1.1 ++ y.2.1 → x.1.1 = y.1.1 ∧ x.2.1 = y.2.1 := by
    intro x y hx hy e'
    have l1 := ha.rowLen _ (List.of_mem_zip hx).1
    have l2 := ha.rowLen _ (List.of_mem_zip hy).1
    exact List.append_inj e' (l1.trans l2.symm)
  have hk : ∀ x ∈ r.qdata.zip r.data, ∀ y ∈ r.qdata.zip r.data, x.1 = y.1 → x = y := by
    rw [hzip]
    intro x hx y hy e
    obtain ⟨px, hpx, rfl⟩ := List.mem_map.1 hx
    obtain ⟨py, hpy, rfl⟩ := List.mem_map.1 hy
    simp only [List.mem_flatMap, List.mem_map] at hpx hpy
    obtain ⟨bx, hbx, ax, hax, rfl⟩ := hpx
    obtain ⟨by', hby, ay, hay, rfl⟩ := hpy
    simp only at e
    obtain ⟨e1, e2⟩ := hkey (ax, bx) (ay, by') hax hay e
    have := zip_fst_inj _ _ ha.nodup ax hax ay hay e1
    subst this
    have := zip_fst_inj _ _ hb.nodup bx hbx by' hby e2
    subst this
    rfl
  by_cases hma : qOf a.lcs i ∈ a.qdata
  · by_cases hmb : qOf b.lcs j ∈ b.qdata
    · obtain ⟨ba, hba⟩ := mem_zip_of_mem_left _ _ ha.len _ hma
      obtain ⟨bb, hbb⟩ := mem_zip_of_mem_left _ _ hb.len _ hmb
      have hmem : (qOf r.lcs (i ++ j), Dense.outer ba bb) ∈ r.qdata.zip r.data := by
        rw [hzip, hq]
        refine List.mem_map.2 ⟨((qOf a.lcs i, ba), (qOf b.lcs j, bb)), ?_, rfl⟩
        simp only [List.mem_flatMap, List.mem_map]
        exact ⟨_, hbb, _, hba, rfl⟩
      rw [entry_of_mem' r hk _ _ hmem, entry_of_mem a ha.nodup i ba hba, entry_of_mem b hb.nodup j bb hbb, hw]
      have la := locate_idx a.lcs ha.shapes i hi
      have lb := locate_idx b.lcs hb.shapes j hj
      apply get_outer
      · rw [ha.blkShape _ hba]; exact la.2.1
      · rw [hb.blkShape _ hbb]; exact lb.2.1
    · rw [entry_of_not_mem b j hmb, mul_zero]
      apply entry_of_not_mem'
      rw [hzip, hq]
      intro e he heq
      obtain ⟨p, hp, rfl⟩ := List.mem_map.1 he
      simp only [List.mem_flatMap, List.mem_map] at hp
      obtain ⟨bx, hbx, ax, hax, rfl⟩ := hp
      simp only at heq
      have l1 := ha.rowLen _ (List.of_mem_zip hax).1
      have := (List.append_inj heq (l1.trans hqlen.symm)).2
      exact hmb (this ▸ (List.of_mem_zip hbx).1)
  · rw [entry_of_not_mem a i hma, zero_mul]
    apply entry_of_not_mem'
    rw [hzip, hq]
    intro e he heq
    obtain ⟨p, hp, rfl⟩ := List.mem_map.1 he
    simp only [List.mem_flatMap, List.mem_map] at hp
    obtain ⟨bx, hbx, ax, hax, rfl⟩ := hp
    simp only at heq
    have l1 := ha.rowLen _ (List.of_mem_zip hax).1
    have := (List.append_inj heq (l1.trans hqlen.symm)).1
    exact hma (this ▸ (List.of_mem_zip hax).1)

theorem outer_toDense (a b r : Arr α) (ha : W a) (hb : W b) (h : a.outer b = .ok r) :
    r.toDense = Dense.outer a.toDense b.toDense := by
  obtain ⟨hlegs, _, _, _, _⟩ := outer_ok a b r h
  have hshape : r.shape = a.shape ++ b.shape := by simp [Arr.shape, Arr.lcs, hlegs]
  refine toDense_eq_of_get r (Dense.outer a.toDense b.toDense) ?_ (tensordot_good _ _ _) ?_
  · rw [outer_shape, hshape]; rfl
  · intro idx hidx
    rw [hshape] at hidx
    obtain ⟨u, v, rfl, hu, hv⟩ := InRange_split hidx
    rw [get_outer a.toDense b.toDense u v hu hv, toDense_get a u hu, toDense_get b v hv,
      outer_entry a b r ha hb h u v hu hv]

end outer
end TenpyModel.C01B
