import TenpyModel.C01.B2_Dot4
/-!
C01 part B2 — the output list of `_tensordot_worker`: definitional unfolding of the worker, the loop over the groups
of `a` written without indices, membership, and the `Dense.add` accumulation of the block-level contractions.
-/
namespace TenpyModel.C01B2
open TenpyModel.Core TenpyModel.C01B

variable {α : Type}

section out
variable [CommSemiring α]
set_option linter.unusedSectionVars false

/-- the output rows of `_tensordot_worker`, literally as coded (index loop over the groups of `a`) -/
def rawOut (a b : Arr α) (k : Nat) (aG bG : List (List Nat × List (Nat × Blk α))) : List (List Nat × Blk α) :=
  let qtotal := makeValid a.mods (cadd a.qtotal b.qtotal)
  let aCharges := aG.map (fun g => Arr.partialQtotal a.mods (a.lcs.take (a.rank - k)) g.1 1 (czero a.mods.length))
  bG.flatMap (fun gb =>
    let cm := Arr.partialQtotal a.mods (b.lcs.drop k) gb.1 (-1) qtotal
    ((List.range aG.length).filter (fun i => aCharges.getD i [] == cm)).filterMap (fun i =>
      let ga := aG.getD i ([], [])
      match Arr.commonSorted ga.2 gb.2 with
      | [] => none
      | p :: ps =>
        some (ga.1 ++ gb.1, ps.foldl (fun (s : Blk α) (q : Blk α × Blk α) => Dense.add s (Dense.tensordot q.1 q.2 k))
          (Dense.tensordot p.1 p.2 k))))

/-- `_tensordot_worker` in terms of the named pieces -/
theorem worker_def (a b res : Arr α) (k : Nat)
    (hz : (Arr.zeros a.mods (a.legs.take (a.rank - k) ++ b.legs.drop k)
          (some (makeValid a.mods (cadd a.qtotal b.qtotal))) none : Except Err (Arr α)) = .ok res) :
    Arr.tensordotWorker a b k =
      if (rawOut a b k (Arr.groupKeep (sortRows (aRows0 a k (cbn a k))))
            (Arr.groupKeep (bRowsS b k (cbn a k)))).isEmpty then .ok res
      else .ok { res with
        qdata := (rawOut a b k (Arr.groupKeep (sortRows (aRows0 a k (cbn a k))))
            (Arr.groupKeep (bRowsS b k (cbn a k)))).map (·.1),
        data := (rawOut a b k (Arr.groupKeep (sortRows (aRows0 a k (cbn a k))))
            (Arr.groupKeep (bRowsS b k (cbn a k)))).map (·.2),
        qdataSorted := true } := by
  unfold Arr.tensordotWorker
  simp only [bind, Except.bind, pure, Except.pure, hz]
  rfl

/-- the charge filter -/
def okPair (a b : Arr α) (k : Nat) (ga1 gb1 : List Nat) : Bool :=
  Arr.partialQtotal a.mods (a.lcs.take (a.rank - k)) ga1 1 (czero a.mods.length)
    == Arr.partialQtotal a.mods (b.lcs.drop k) gb1 (-1) (makeValid a.mods (cadd a.qtotal b.qtotal))

/-- the accumulated block of one pair of groups -/
def foldBlk (k : Nat) (p : Blk α × Blk α) (ps : List (Blk α × Blk α)) : Blk α :=
  ps.foldl (fun (s : Blk α) (q : Blk α × Blk α) => Dense.add s (Dense.tensordot q.1 q.2 k)) (Dense.tensordot p.1 p.2 k)

/-- the body of the double loop for one pair of groups -/
def phi (a b : Arr α) (k : Nat) (gb ga : List Nat × List (Nat × Blk α)) : Option (List Nat × Blk α) :=
  if okPair a b k ga.1 gb.1 = true then
    (match Arr.commonSorted ga.2 gb.2 with
     | [] => none
     | p :: ps => some (ga.1 ++ gb.1, foldBlk k p ps))
  else none

/-- the output rows without the index loop -/
def outOf (a b : Arr α) (k : Nat) (aG bG : List (List Nat × List (Nat × Blk α))) : List (List Nat × Blk α) :=
  bG.flatMap (fun gb => aG.filterMap (phi a b k gb))

theorem rawOut_eq (a b : Arr α) (k : Nat) (aG bG : List (List Nat × List (Nat × Blk α))) :
    rawOut a b k aG bG = outOf a b k aG bG := by
  unfold rawOut outOf
  simp only
  apply List.flatMap_congr
  intro gb _
  have hfil : (List.range aG.length).filter (fun i =>
        (aG.map (fun g => Arr.partialQtotal a.mods (a.lcs.take (a.rank - k)) g.1 1 (czero a.mods.length))).getD i []
          == Arr.partialQtotal a.mods (b.lcs.drop k) gb.1 (-1) (makeValid a.mods (cadd a.qtotal b.qtotal)))
      = (List.range aG.length).filter (fun i => okPair a b k (aG.getD i ([], [])).1 gb.1) := by
    apply List.filter_congr
    intro i hi
    rw [getD_map' _ _ i ([], []) [] (List.mem_range.1 hi)]
    rfl
  rw [hfil]
  exact range_filter_filterMap aG ([], []) (fun ga => okPair a b k ga.1 gb.1)
    (fun ga => match Arr.commonSorted ga.2 gb.2 with
      | [] => none
      | p :: ps => some (ga.1 ++ gb.1, foldBlk k p ps))

theorem phi_some (a b : Arr α) (k : Nat) (gb ga : List Nat × List (Nat × Blk α)) (e : List Nat × Blk α)
    (h : phi a b k gb ga = some e) :
    okPair a b k ga.1 gb.1 = true ∧ ∃ p ps, Arr.commonSorted ga.2 gb.2 = p :: ps ∧ e = (ga.1 ++ gb.1, foldBlk k p ps) := by
  unfold phi at h
  split at h
  · rename_i hok
    refine ⟨hok, ?_⟩
    split at h
    · simp at h
    · rename_i p ps hc
      simp only [Option.some.injEq] at h
      exact ⟨p, ps, hc, h.symm⟩
  · simp at h

theorem phi_of (a b : Arr α) (k : Nat) (gb ga : List Nat × List (Nat × Blk α)) (p : Blk α × Blk α)
    (ps : List (Blk α × Blk α)) (hok : okPair a b k ga.1 gb.1 = true) (hc : Arr.commonSorted ga.2 gb.2 = p :: ps) :
    phi a b k gb ga = some (ga.1 ++ gb.1, foldBlk k p ps) := by
  unfold phi
  rw [if_pos hok, hc]

theorem mem_outOf (a b : Arr α) (k : Nat) (aG bG : List (List Nat × List (Nat × Blk α))) (e : List Nat × Blk α) :
    e ∈ outOf a b k aG bG ↔ ∃ gb ∈ bG, ∃ ga ∈ aG, phi a b k gb ga = some e := by
  unfold outOf
  simp only [List.mem_flatMap, List.mem_filterMap]

/-! ### `_iter_common_sorted` on an empty list -/

theorem commonSorted_nil_left {β γ} (bs : List (Nat × γ)) : Arr.commonSorted ([] : List (Nat × β)) bs = [] := by
  rw [Arr.commonSorted]

theorem commonSorted_nil_right {β γ} (as : List (Nat × β)) : Arr.commonSorted as ([] : List (Nat × γ)) = [] := by
  cases as with
  | nil => rw [Arr.commonSorted]
  | cons a as => rw [Arr.commonSorted]

/-! ### accumulation with `Dense.add` -/

theorem get_foldl_add (s : List Nat) (Ds : List (Blk α)) (w : List Nat) :
    ∀ (D : Blk α), D.shape = s → Good D → (∀ x ∈ Ds, x.shape = s ∧ Good x) →
    (Ds.foldl Dense.add D).shape = s ∧ Good (Ds.foldl Dense.add D)
    ∧ (Ds.foldl Dense.add D).get 0 w = D.get 0 w + (Ds.map (fun x => x.get 0 w)).sum := by
  induction Ds with
  | nil => intro D h1 h2 _; simp [h1, h2]
  | cons X Ds ih =>
    intro D h1 h2 h3
    obtain ⟨x1, x2⟩ := h3 X (by simp)
    have hs : D.shape = X.shape := h1.trans x1.symm
    have hl : D.vals.length = X.vals.length := by rw [h2, x2, hs]
    obtain ⟨i1, i2, i3⟩ := ih (Dense.add D X) (by rw [add_shape]; exact h1) (add_good D X h2 x2 hs)
      (fun x hx => h3 x (by simp [hx]))
    simp only [List.foldl_cons, List.map_cons, List.sum_cons]
    refine ⟨i1, i2, ?_⟩
    rw [i3, get_add D X hs hl, add_assoc]

theorem foldBlk_eq (k : Nat) (p : Blk α × Blk α) (ps : List (Blk α × Blk α)) :
    foldBlk k p ps = (ps.map (fun q => Dense.tensordot q.1 q.2 k)).foldl Dense.add (Dense.tensordot p.1 p.2 k) := by
  unfold foldBlk
  rw [List.foldl_map]

/-- shape, goodness and entries of the accumulated block -/
theorem foldBlk_spec (k : Nat) (s : List Nat) (p : Blk α × Blk α) (ps : List (Blk α × Blk α))
    (hs : ∀ q ∈ p :: ps, (Dense.tensordot q.1 q.2 k).shape = s) (w : List Nat) :
    (foldBlk k p ps).shape = s ∧ Good (foldBlk k p ps)
    ∧ (foldBlk k p ps).get 0 w = ((p :: ps).map (fun q => (Dense.tensordot q.1 q.2 k).get 0 w)).sum := by
  rw [foldBlk_eq]
  obtain ⟨h1, h2, h3⟩ := get_foldl_add s (ps.map (fun q => Dense.tensordot q.1 q.2 k)) w (Dense.tensordot p.1 p.2 k)
    (hs p (by simp)) (tensordot_good _ _ _) (fun x hx => by
      obtain ⟨q, hq, rfl⟩ := List.mem_map.1 hx
      exact ⟨hs q (by simp [hq]), tensordot_good _ _ _⟩)
  refine ⟨h1, h2, ?_⟩
  rw [h3, List.map_map]
  simp only [List.map_cons, List.sum_cons]
  rfl

end out
end TenpyModel.C01B2
