import TenpyModel.C01.B2_Dot3
/-!
C01 part B2 — the two `(keep-row, contracted key, block)` lists of `_tensordot_pre_worker` are sorted triple lists
(`Sorted3`), and the sum over `_iter_common_sorted` of two of their groups is the sum of `term`s of `dense_side`.
-/
namespace TenpyModel.C01B2
open TenpyModel.Core TenpyModel.C01B

variable {α : Type}

/-- rows of `a` as `(keep-part, F-key of the contracted part, block)` in stored order -/
def aRows0 (a : Arr α) (k : Nat) (bn : List Nat) : List (List Nat × Nat × Blk α) :=
  (a.qdata.zip a.data).map (fun rb => (rb.1.take (a.rank - k), Arr.fKey bn (rb.1.drop (a.rank - k)), rb.2))

/-- rows of `b` as `(keep-part, F-key of the contracted part, block)` in stored order -/
def bRows0 (b : Arr α) (k : Nat) (bn : List Nat) : List (List Nat × Nat × Blk α) :=
  (b.qdata.zip b.data).map (fun rb => (rb.1.drop k, Arr.fKey bn (rb.1.take k), rb.2))

/-- `np.lexsort` of the triples as coded -/
def sortRows {β} (rows : List (List Nat × Nat × β)) : List (List Nat × Nat × β) :=
  (lexsort (rows.map (fun r => (Int.ofNat r.2.1) :: r.1.map Int.ofNat))).filterMap (fun i => rows[i]?)

theorem zip_nodup {β} (q : List (List Nat)) (d : List β) (hl : q.length = d.length) (hnd : q.Nodup) :
    (q.zip d).Nodup := by
  have : ((q.zip d).map (·.1)).Nodup := by rw [map_fst_zip' _ _ hl]; exact hnd
  exact List.Nodup.of_map _ this

theorem mem_grp {β} (L : List (List Nat × Nat × β)) (qi : List Nat) (y : Nat × β) :
    y ∈ grp L qi ↔ ∃ x ∈ L, x.1 = qi ∧ y = (x.2.1, x.2.2) := by
  unfold grp
  simp only [List.mem_map, List.mem_filter, decide_eq_true_eq]
  constructor
  · rintro ⟨x, ⟨hx, he⟩, rfl⟩; exact ⟨x, hx, he, rfl⟩
  · rintro ⟨x, hx, he, rfl⟩; exact ⟨x, ⟨hx, he⟩, rfl⟩

section rows
variable [CommSemiring α]
set_option linter.unusedSectionVars false

/-- the contracted block numbers -/
abbrev cbn (a : Arr α) (k : Nat) : List Nat := (a.lcs.drop (a.rank - k)).map Leg.blockNumber

theorem aRows0_pairs_nodup (a b : Arr α) (k : Nat) (h : DotHyp a b k) :
    ((aRows0 a k (cbn a k)).map (fun x => (x.1, x.2.1))).Nodup := by
  unfold aRows0
  rw [List.map_map]
  apply List.Nodup.map_on _ (zip_nodup _ _ h.wa.len h.wa.nodup)
  intro x hx y hy e
  simp only [Function.comp, Prod.mk.injEq] at e
  obtain ⟨_, _, x3⟩ := h.rowA x.1 (List.of_mem_zip hx).1
  obtain ⟨_, _, y3⟩ := h.rowA y.1 (List.of_mem_zip hy).1
  have := fKey_inj _ _ _ x3 y3 e.2
  apply zip_fst_inj _ _ h.wa.nodup x hx y hy
  rw [← List.take_append_drop (a.rank - k) x.1, ← List.take_append_drop (a.rank - k) y.1, e.1, this]

theorem bRows0_pairs_nodup (a b : Arr α) (k : Nat) (h : DotHyp a b k) :
    ((bRows0 b k (cbn a k)).map (fun x => (x.1, x.2.1))).Nodup := by
  unfold bRows0
  rw [List.map_map]
  apply List.Nodup.map_on _ (zip_nodup _ _ h.wb.len h.wb.nodup)
  intro x hx y hy e
  simp only [Function.comp, Prod.mk.injEq] at e
  obtain ⟨_, x2, _⟩ := h.rowB x.1 (List.of_mem_zip hx).1
  obtain ⟨_, y2, _⟩ := h.rowB y.1 (List.of_mem_zip hy).1
  rw [← h.bnC] at x2 y2
  have := fKey_inj _ _ _ x2 y2 e.2
  apply zip_fst_inj _ _ h.wb.nodup x hx y hy
  rw [← List.take_append_drop k x.1, ← List.take_append_drop k y.1, e.1, this]

theorem sorted3_of_perm {β} (cut : Nat) (L L0 : List (List Nat × Nat × β)) (hp : L.Perm L0)
    (hs : L.Pairwise (fun x y => lexLE ((nkey x).map Int.ofNat) ((nkey y).map Int.ofNat) = true))
    (hnd : (L0.map (fun x => (x.1, x.2.1))).Nodup) (hl : ∀ x ∈ L0, x.1.length = cut) : Sorted3 cut L where
  sorted := hs
  nodup := ((hp.map _).nodup_iff).2 hnd
  len := fun x hx => hl x (hp.mem_iff.1 hx)

theorem aRows0_len (a b : Arr α) (k : Nat) (h : DotHyp a b k) (bn : List Nat) :
    ∀ x ∈ aRows0 a k bn, x.1.length = a.rank - k := by
  intro x hx
  obtain ⟨rb, hrb, rfl⟩ := List.mem_map.1 hx
  exact (h.rowA rb.1 (List.of_mem_zip hrb).1).1

theorem bRows0_len (a b : Arr α) (k : Nat) (h : DotHyp a b k) (bn : List Nat) :
    ∀ x ∈ bRows0 b k bn, x.1.length = b.rank - k := by
  intro x hx
  obtain ⟨rb, hrb, rfl⟩ := List.mem_map.1 hx
  simp only [List.length_drop, h.wb.rowLen rb.1 (List.of_mem_zip hrb).1]

/-- the lexsorted rows of `a` -/
theorem aRows_sorted3 (a b : Arr α) (k : Nat) (h : DotHyp a b k) :
    Sorted3 (a.rank - k) (sortRows (aRows0 a k (cbn a k))) ∧ (sortRows (aRows0 a k (cbn a k))).Perm (aRows0 a k (cbn a k)) := by
  obtain ⟨hp, hs⟩ := sortRows_spec (aRows0 a k (cbn a k))
  exact ⟨sorted3_of_perm _ _ _ hp hs (aRows0_pairs_nodup a b k h) (aRows0_len a b k h _), hp⟩

/-- a truthfully lexsorted block list of `b` is already in the order of `_tensordot_pre_sort` -/
theorem bRows0_sorted (a b : Arr α) (k : Nat) (h : DotHyp a b k) (hs : isLexsorted b.qdata = true) :
    (bRows0 b k (cbn a k)).Pairwise (fun x y => lexLE ((nkey x).map Int.ofNat) ((nkey y).map Int.ofNat) = true) := by
  have h1 : (natRows b.qdata).Pairwise (fun a b => lexLE a b = true) := by
    apply sorted_of_lexsort
    unfold isLexsorted lexsortNat at hs
    simpa [natRows] using hs
  unfold natRows at h1
  rw [List.pairwise_map] at h1
  have h2 : (b.qdata.zip b.data).Pairwise (fun x y => lexLE (x.1.map Int.ofNat) (y.1.map Int.ofNat) = true) := by
    have : ((b.qdata.zip b.data).map (·.1)).Pairwise
        (fun x y => lexLE (x.map Int.ofNat) (y.map Int.ofNat) = true) := by
      rw [map_fst_zip' _ _ h.wb.len]; exact h1
    rw [List.pairwise_map] at this
    exact this
  unfold bRows0
  rw [List.pairwise_map]
  refine h2.imp_of_mem (fun {x y} hx hy hxy => ?_)
  obtain ⟨x1, x2, _⟩ := h.rowB x.1 (List.of_mem_zip hx).1
  obtain ⟨y1, y2, _⟩ := h.rowB y.1 (List.of_mem_zip hy).1
  rw [← h.bnC] at x2 y2
  have hlx := h.wb.rowLen x.1 (List.of_mem_zip hx).1
  have hly := h.wb.rowLen y.1 (List.of_mem_zip hy).1
  have hdl : (x.1.drop k).length = (y.1.drop k).length := by simp [hlx, hly]
  rw [← List.take_append_drop k x.1, ← List.take_append_drop k y.1,
    lexLE_append_nat _ _ _ _ (x1.trans y1.symm) hdl] at hxy
  unfold nkey
  simp only [List.map_cons]
  rw [lexLE_cons _ _ _ _ (by simp only [List.length_map]; exact hdl)]
  by_cases he : x.1.drop k = y.1.drop k
  · rw [if_pos he] at hxy
    rw [if_pos (by rw [he])]
    simp only [decide_eq_true_eq]
    by_cases ht : x.1.take k = y.1.take k
    · rw [ht]
    · have := fKey_lt _ _ _ x2 y2 hxy ht
      exact Int.ofNat_le.2 (Nat.le_of_lt this)
  · rw [if_neg he] at hxy
    rw [if_neg (fun e => he (map_ofNat_inj _ _ e))]
    exact hxy

/-- the rows of `b` in the order the worker uses -/
def bRowsS (b : Arr α) (k : Nat) (bn : List Nat) : List (List Nat × Nat × Blk α) :=
  if b.qdataSorted then bRows0 b k bn else sortRows (bRows0 b k bn)

theorem bRows_sorted3 (a b : Arr α) (k : Nat) (h : DotHyp a b k) :
    Sorted3 (b.rank - k) (bRowsS b k (cbn a k)) ∧ (bRowsS b k (cbn a k)).Perm (bRows0 b k (cbn a k)) := by
  unfold bRowsS
  split
  · rename_i hs
    exact ⟨sorted3_of_perm _ _ _ (List.Perm.refl _) (bRows0_sorted a b k h (h.wb.sortedOK hs))
      (bRows0_pairs_nodup a b k h) (bRows0_len a b k h _), List.Perm.refl _⟩
  · obtain ⟨hp, hs⟩ := sortRows_spec (bRows0 b k (cbn a k))
    exact ⟨sorted3_of_perm _ _ _ hp hs (bRows0_pairs_nodup a b k h) (bRows0_len a b k h _), hp⟩

/-- looking up the key of a contracted block index in the group `qj` of `b` = looking up the row `qc ++ qj` -/
theorem grp_find_b (a b : Arr α) (k : Nat) (h : DotHyp a b k) (bT : List (List Nat × Nat × Blk α))
    (hpb : bT.Perm (bRows0 b k (cbn a k))) (hsb : Sorted3 (b.rank - k) bT) (qc qj : List Nat)
    (hqc : InRange qc (cbn a k)) :
    ((grp bT qj).find? (fun y => y.1 == Arr.fKey (cbn a k) qc)).map (·.2)
      = ((b.qdata.zip b.data).find? (fun rb' => rb'.1 == qc ++ qj)).map (·.2) := by
  have hqcl : qc.length = k := by rw [hqc.length_eq, List.length_map, h.lenC]
  by_cases hmb : qc ++ qj ∈ b.qdata
  · obtain ⟨B, hB⟩ := mem_zip_of_mem_left _ _ h.wb.len _ hmb
    rw [find_zip_some _ _ h.wb.nodup _ hB]
    have hmem : (Arr.fKey (cbn a k) qc, B) ∈ grp bT qj := by
      apply ((grp_perm hpb qj).mem_iff).2
      rw [mem_grp]
      refine ⟨_, List.mem_map.2 ⟨(qc ++ qj, B), hB, rfl⟩, ?_, ?_⟩
      · simp only; rw [List.drop_left' hqcl]
      · simp only; rw [List.take_left' hqcl]
    rw [find?_of_mem_keys _ (hsb.grp_keys qj) _ hmem]
    rfl
  · rw [find_zip_none _ _ _ hmb]
    have : (grp bT qj).find? (fun y => y.1 == Arr.fKey (cbn a k) qc) = none := by
      apply List.find?_eq_none.2
      intro y hy
      have hy' := ((grp_perm hpb qj).mem_iff).1 hy
      rw [mem_grp] at hy'
      obtain ⟨x, hx, hxe, rfl⟩ := hy'
      obtain ⟨rb', hrb', rfl⟩ := List.mem_map.1 hx
      simp only [beq_iff_eq]
      intro e
      simp only at hxe e
      obtain ⟨_, r2, _⟩ := h.rowB rb'.1 (List.of_mem_zip hrb').1
      rw [← h.bnC] at r2
      have := fKey_inj _ _ _ r2 hqc e
      apply hmb
      rw [← this, ← hxe, List.take_append_drop]
      exact (List.of_mem_zip hrb').1
    rw [this]
    rfl

/-- the sum over `_iter_common_sorted` of the group `qi` of `a` and the group `qj` of `b` -/
theorem common_sum (a b : Arr α) (k : Nat) (h : DotHyp a b k) (aT bT : List (List Nat × Nat × Blk α))
    (hpa : aT.Perm (aRows0 a k (cbn a k))) (hsa : Sorted3 (a.rank - k) aT)
    (hpb : bT.Perm (bRows0 b k (cbn a k))) (hsb : Sorted3 (b.rank - k) bT) (qi qj wi wj : List Nat) :
    ((Arr.commonSorted (grp aT qi) (grp bT qj)).map
        (fun (p : Blk α × Blk α) => (Dense.tensordot p.1 p.2 k).get 0 (wi ++ wj))).sum
      = (((a.qdata.zip a.data).filter (fun rb => rb.1.take (a.rank - k) = qi)).map (term a b k qj wi wj)).sum := by
  rw [commonSorted_eq _ _ (hsa.grp_keys qi) (hsb.grp_keys qj), sum_filterMap_map,
    ((grp_perm hpa qi).map _).sum_eq]
  have hg : grp (aRows0 a k (cbn a k)) qi
      = ((a.qdata.zip a.data).filter (fun rb => rb.1.take (a.rank - k) = qi)).map
          (fun rb => (Arr.fKey (cbn a k) (rb.1.drop (a.rank - k)), rb.2)) := by
    unfold grp aRows0
    rw [List.filter_map, List.map_map]
    rfl
  rw [hg, List.map_map]
  apply sum_map_congr
  intro rb hrb
  have hm := (List.mem_filter.1 hrb).1
  obtain ⟨_, _, r3⟩ := h.rowA rb.1 (List.of_mem_zip hm).1
  have hf := grp_find_b a b k h bT hpb hsb (rb.1.drop (a.rank - k)) qj r3
  simp only [Function.comp]
  unfold term
  cases h1 : (grp bT qj).find? (fun y => y.1 == Arr.fKey (cbn a k) (rb.1.drop (a.rank - k))) with
  | none =>
    rw [h1] at hf
    cases h2 : (b.qdata.zip b.data).find? (fun rb' => rb'.1 == rb.1.drop (a.rank - k) ++ qj) with
    | none => rfl
    | some z => rw [h2] at hf; simp at hf
  | some y =>
    rw [h1] at hf
    cases h2 : (b.qdata.zip b.data).find? (fun rb' => rb'.1 == rb.1.drop (a.rank - k) ++ qj) with
    | none => rw [h2] at hf; simp at hf
    | some z =>
      rw [h2] at hf
      simp only [Option.map_some, Option.some.injEq] at hf
      simp only [Option.map_some, hf]

end rows
end TenpyModel.C01B2
