import TenpyModel.C01.C_Charge11
import TenpyModel.C01.C_Charge12
import TenpyModel.C01.C_Charge13
import TenpyModel.C01.C_Charge14
import TenpyModel.C01.C_Charge9
/-!
C01 part C — all finite programs over part A's operations (`C01ProgA`) preserve the charge rule and the validity of
the legs (induction over programs); then the programs with products (`C01ProgAB`) with only part A's side conditions.
-/
namespace TenpyModel.C01C
open TenpyModel.Core TenpyModel.C01B TenpyModel.C01B2
open TenpyModel.Core.C01ProgA

variable {α : Type}

/-- charge-related side conditions of a part-A program (decidable per instance, on the intermediate results):
`squeeze`: the stored blocks sit at block index 0 of the squeezed legs (`SqueezeQ`); binary operations: both operands
live over the same `chinfo` (`mods`; discharged by `progA_chargeRule_mods` when all inputs share `chinfo`). -/
def SideC [Zero α] [Neg α] [Add α] [Mul α] [DecidableEq α] (st : α → α) (env : List (Arr α)) : C01ProgA α → Prop
  | .input _ => True
  | .neg p => SideC st env p
  | .scale _ p => SideC st env p
  | .conj p => SideC st env p
  | .complexConj p => SideC st env p
  | .transpose _ p => SideC st env p
  | .swapaxes _ _ p => SideC st env p
  | .addTrivialLeg _ _ _ p => SideC st env p
  | .scaleAxis _ _ p => SideC st env p
  | .takeSlice _ _ p => SideC st env p
  | .squeeze axes p => SideC st env p ∧ ∀ a, evalArr st env p = .ok a → SqueezeQ a axes
  | .project _ _ p => SideC st env p
  | .permute _ _ p => SideC st env p
  | .binary _ p q => SideC st env p ∧ SideC st env q ∧
      ∀ a b, evalArr st env p = .ok a → evalArr st env q = .ok b → a.mods = b.mods
  | .addPrefactor _ _ p q => SideC st env p ∧ SideC st env q ∧
      ∀ a b, evalArr st env p = .ok a → evalArr st env q = .ok b → a.mods = b.mods

/-- **all finite part-A programs preserve the charge rule and the validity of the legs** -/
theorem progA_chargeRule [CommRing α] [DecidableEq α] (st : α → α) (hst : st 0 = 0)
    (env : List (Arr α)) (henv : ∀ a ∈ env, a.WF ∧ a.ChargeRule ∧ LegsValid a) (p : C01ProgA α) :
    ∀ r, Side st env p → SideC st env p → evalArr st env p = .ok r → r.ChargeRule ∧ LegsValid r := by
  have hwf : ∀ a ∈ env, a.WF := fun a ha => (henv a ha).1
  have spec := fun (p : C01ProgA α) (r : Arr α) (hs : Side st env p) (h : evalArr st env p = .ok r) =>
    (C01ProgA.evalArr_spec st hst neg_zero mul_zero zero_mul add_zero env hwf p r hs h).2
  induction p with
  | input i =>
    intro r _ _ h
    simp only [evalArr] at h
    cases hi : env[i]? with
    | none => simp [hi] at h
    | some a =>
      simp only [hi, Except.ok.injEq] at h
      subst h
      exact (henv a (List.mem_of_getElem? hi)).2
  | neg p ih =>
    intro r hs hc h
    simp only [evalArr] at h
    obtain ⟨a, hp, h⟩ := bind_ok h
    simp only [pure, Except.pure, Except.ok.injEq] at h
    subst h
    obtain ⟨c, v⟩ := ih a hs hc hp
    exact chargeRule_neg a c v
  | scale s p ih =>
    intro r hs hc h
    simp only [evalArr] at h
    obtain ⟨a, hp, h⟩ := bind_ok h
    simp only [pure, Except.pure, Except.ok.injEq] at h
    subst h
    obtain ⟨c, v⟩ := ih a hs hc hp
    exact chargeRule_iscalePrefactor a s c v
  | conj p ih =>
    intro r hs hc h
    simp only [evalArr] at h
    obtain ⟨a, hp, h⟩ := bind_ok h
    simp only [pure, Except.pure, Except.ok.injEq] at h
    subst h
    obtain ⟨c, v⟩ := ih a hs hc hp
    exact chargeRule_conj st a c v
  | complexConj p ih =>
    intro r hs hc h
    simp only [evalArr] at h
    obtain ⟨a, hp, h⟩ := bind_ok h
    simp only [pure, Except.pure, Except.ok.injEq] at h
    subst h
    obtain ⟨c, v⟩ := ih a hs hc hp
    exact chargeRule_complexConj st a c v
  | transpose axes p ih =>
    intro r hs hc h
    simp only [evalArr] at h
    obtain ⟨a, hp, h⟩ := bind_ok h
    obtain ⟨c, v⟩ := ih a hs hc hp
    exact chargeRule_transpose a r (spec p a hs hp) c v axes h
  | swapaxes x1 x2 p ih =>
    intro r hs hc h
    simp only [evalArr] at h
    obtain ⟨a, hp, h⟩ := bind_ok h
    obtain ⟨c, v⟩ := ih a hs hc hp
    exact chargeRule_iswapaxes a r (spec p a hs hp) c v x1 x2 h
  | addTrivialLeg axis label qconj p ih =>
    intro r hs hc h
    simp only [evalArr] at h
    obtain ⟨a, hp, h⟩ := bind_ok h
    obtain ⟨c, v⟩ := ih a hs hc hp
    exact chargeRule_addTrivialLeg a r (spec p a hs hp) c v axis label qconj h
  | takeSlice indices axes p ih =>
    intro r hs hc h
    simp only [evalArr] at h
    obtain ⟨a, hp, h⟩ := bind_ok h
    obtain ⟨c, v⟩ := ih a hs.1 hc hp
    obtain ⟨ax, hax⟩ := Arr.takeSlice_ax a r indices axes h
    exact chargeRule_takeSlice a r (spec p a hs.1 hp) c v indices axes ax hax (hs.2 a ax hp hax) h
  | squeeze axes p ih =>
    intro r hs hc h
    simp only [evalArr] at h
    obtain ⟨a, hp, h⟩ := bind_ok h
    obtain ⟨c, v⟩ := ih a hs.1 hc.1 hp
    obtain ⟨w, hv', h⟩ := bind_ok h
    cases w with
    | scalar x => simp [throw, throwThe, MonadExceptOf.throw] at h
    | arr r' =>
      simp only [pure, Except.pure, Except.ok.injEq] at h
      subst h
      exact chargeRule_squeeze a r' (spec p a hs.1 hp) c v axes (hc.2 a hp) hv'
  | scaleAxis s axis p ih =>
    intro r hs hc h
    simp only [evalArr] at h
    obtain ⟨a, hp, h⟩ := bind_ok h
    obtain ⟨c, v⟩ := ih a hs hc hp
    exact chargeRule_iscaleAxis a r c v s axis h
  | project masks axes p ih =>
    intro r hs hc h
    simp only [evalArr] at h
    obtain ⟨a, hp, h⟩ := bind_ok h
    obtain ⟨c, v⟩ := ih a hs.1 hc hp
    obtain ⟨ax, hax, _⟩ := Arr.iproject_ax a r masks axes h
    exact chargeRule_iproject a r (spec p a hs.1 hp) c v masks axes ax hax (hs.2 a ax hp hax) h
  | permute perm axis p ih =>
    intro r hs hc h
    simp only [evalArr] at h
    obtain ⟨a, hp, h⟩ := bind_ok h
    obtain ⟨c, v⟩ := ih a hs.1 hc hp
    obtain ⟨k, hk⟩ := Arr.permute_ax a r perm axis h
    obtain ⟨hperm, hcl⟩ := hs.2 a k hp hk
    exact chargeRule_permute a r (spec p a hs.1 hp) c v perm axis k hk hperm hcl h
  | binary f p q ihp ihq =>
    intro r hs hc h
    simp only [evalArr] at h
    obtain ⟨a, hp, h⟩ := bind_ok h
    obtain ⟨b, hq, h⟩ := bind_ok h
    obtain ⟨rb, hrb, h⟩ := bind_ok h
    simp only [pure, Except.pure, Except.ok.injEq] at h
    subst h
    obtain ⟨ca, va⟩ := ihp a hs.2.1 hc.1 hp
    obtain ⟨cb, vb⟩ := ihq b hs.2.2 hc.2.1 hq
    exact (chargeRule_ibinaryBlockwise f a b rb.1 rb.2 (spec p a hs.2.1 hp) (spec q b hs.2.2 hq)
      (hc.2.2 a b hp hq) ca cb va vb hrb).1
  | addPrefactor cy c p q ihp ihq =>
    intro r hs hc h
    simp only [evalArr] at h
    obtain ⟨a, hp, h⟩ := bind_ok h
    obtain ⟨b, hq, h⟩ := bind_ok h
    obtain ⟨rb, hrb, h⟩ := bind_ok h
    simp only [pure, Except.pure, Except.ok.injEq] at h
    subst h
    obtain ⟨ca, va⟩ := ihp a hs.1 hc.1 hp
    obtain ⟨cb, vb⟩ := ihq b hs.2 hc.2.1 hq
    exact (chargeRule_iaddPrefactorOther cy a b rb.1 rb.2 c (spec p a hs.1 hp) (spec q b hs.2 hq)
      (hc.2.2 a b hp hq) ca cb va vb hrb).1

/-! ### programs with products -/

open TenpyModel.Core.C01ProgAB in
/-- side conditions of a program with products: part A's `Side` and `SideC` at every embedded part-A program — nothing
about the charge rule of intermediate results -/
def SideAB [Zero α] [Neg α] [Add α] [Mul α] [DecidableEq α] (st : α → α) (cy : Bool) (env : List (Arr α)) :
    C01ProgAB α → Prop
  | .input _ => True
  | .partA p x y => SideAB st cy env x ∧ SideAB st cy env y ∧
      ∀ a b, C01ProgAB.evalArr st cy env x = .ok a → C01ProgAB.evalArr st cy env y = .ok b →
        p.Side st [a, b] ∧ C01C.SideC st [a, b] p
  | .outer x y => SideAB st cy env x ∧ SideAB st cy env y
  | .tensordot _ x y => SideAB st cy env x ∧ SideAB st cy env y
  | .tensordotAxes _ _ x y => SideAB st cy env x ∧ SideAB st cy env y
  | .trace _ _ x => SideAB st cy env x

/-- from `SideAB` (no charge-rule clause) to `SideA` of `C_Charge9` -/
theorem sideA_of_sideAB [CommRing α] [DecidableEq α] (st : α → α) (hst : st 0 = 0) (cy : Bool)
    (env : List (Arr α)) (henv : ∀ a ∈ env, a.WF ∧ a.ChargeRule ∧ LegsValid a) (p : C01ProgAB α) :
    SideAB st cy env p → SideA st cy env p := by
  induction p with
  | input i => intro _; trivial
  | partA p x y ihx ihy =>
    intro hs
    have sx := ihx hs.1
    have sy := ihy hs.2.1
    refine ⟨sx, sy, fun a b ha hb => ⟨(hs.2.2 a b ha hb).1, fun r hr => ?_⟩⟩
    obtain ⟨_, wa, ca, va⟩ := progAB_chargeRule_partial st hst cy env henv x a sx ha
    obtain ⟨_, wb, cb, vb⟩ := progAB_chargeRule_partial st hst cy env henv y b sy hb
    exact progA_chargeRule st hst [a, b] (fun c hc => by
      rcases List.mem_cons.1 hc with rfl | hc
      · exact ⟨wa, ca, va⟩
      · have : c = b := by simpa using hc
        subst this; exact ⟨wb, cb, vb⟩) p r (hs.2.2 a b ha hb).1 (hs.2.2 a b ha hb).2 hr
  | outer x y ihx ihy => intro hs; exact ⟨ihx hs.1, ihy hs.2⟩
  | tensordot k x y ihx ihy => intro hs; exact ⟨ihx hs.1, ihy hs.2⟩
  | tensordotAxes xa xb x y ihx ihy => intro hs; exact ⟨ihx hs.1, ihy hs.2⟩
  | trace l1 l2 x ihx => intro hs; exact ihx hs

/-- **`progAB_chargeRule`**: every program over part A's operations and the products, evaluated on inputs that are well
formed, obey the charge rule and have valid legs, yields such a tensor — with only part A's side conditions (`SideAB`);
the side condition `C01ProgAB.Side` of `C01_programAB` follows. -/
theorem progAB_chargeRule [CommRing α] [DecidableEq α] (st : α → α) (hst : st 0 = 0) (cy : Bool)
    (env : List (Arr α)) (henv : ∀ a ∈ env, a.WF ∧ a.ChargeRule ∧ LegsValid a) (p : C01ProgAB α) (r : Arr α)
    (hside : SideAB st cy env p) (h : C01ProgAB.evalArr st cy env p = .ok r) :
    C01ProgAB.Side st cy env p ∧ r.WF ∧ r.ChargeRule ∧ LegsValid r :=
  progAB_chargeRule_partial st hst cy env henv p r (sideA_of_sideAB st hst cy env henv p hside) h

/-- **`progAB_spec_full`**: dense form and labels = reference semantics, well formed, charge rule, valid legs -/
theorem progAB_spec_full [CommRing α] [DecidableEq α] (st : α → α) (hst : st 0 = 0) (cy : Bool)
    (env : List (Arr α)) (henv : ∀ a ∈ env, a.WF ∧ a.ChargeRule ∧ LegsValid a) (p : C01ProgAB α) (r : Arr α)
    (hside : SideAB st cy env p) (h : C01ProgAB.evalArr st cy env p = .ok r) :
    r.toDense = (C01ProgAB.evalRef st (env.map Arr.toLD) p).d
    ∧ r.labels = (C01ProgAB.evalRef st (env.map Arr.toLD) p).labels
    ∧ r.WF ∧ r.ChargeRule ∧ LegsValid r :=
  progAB_spec st hst cy env henv p r (sideA_of_sideAB st hst cy env henv p hside) h

end TenpyModel.C01C
