import TenpyModel.C01.B2_Comb14
/-!
C01 part B2 — part 15: `_split_legs_worker` in normal form: for every stored block of `r` and every combination of
`q_map` rows inside the blocks of the split axes, one block of the result (`splitWorker_zip`).
-/
namespace TenpyModel.C01B2.Comb
open TenpyModel.Core TenpyModel.C01B

variable {α : Type}

/-- the `g`-th pipe -/
def sP (ps : List ALeg) (g : Nat) : Pipe := (cPs ps).getD g dPipe
/-- first `q_map` row of the block of the `g`-th pipe axis (`begs`) -/
def sSl (na : List Nat) (ps : List ALeg) (q' : List Nat) (g : Nat) : Nat :=
  (sP ps g).qMapSlices.getD (q'.getD (na.getD g 0) 0) 0
/-- number of `q_map` rows per split axis -/
def sCnts (na : List Nat) (ps : List ALeg) (q' : List Nat) : List Nat :=
  (List.range na.length).map (fun g =>
    (sP ps g).qMapSlices.getD (q'.getD (na.getD g 0) 0 + 1) 0 - sSl na ps q' g)
/-- the chosen `q_map` row of the `g`-th pipe -/
def sRowG (na : List Nat) (ps : List ALeg) (q' combo : List Nat) (g : Nat) : List Nat :=
  (sP ps g).qMap.getD (combo.getD g 0 + sSl na ps q' g) []
def sPiece (na : List Nat) (ps : List ALeg) (q' combo : List Nat) (k : Nat) : List Nat :=
  if na.contains k then (sRowG na ps q' combo (na.idxOf k)).drop 3 else [q'.getD k 0]
def sNewrow (n : Nat) (na : List Nat) (ps : List ALeg) (q' combo : List Nat) : List Nat :=
  ((List.range n).map (sPiece na ps q' combo)).flatten
def sBeg (n : Nat) (na : List Nat) (ps : List ALeg) (q' combo : List Nat) : List Nat :=
  (List.range n).map (fun k => if na.contains k then (sRowG na ps q' combo (na.idxOf k)).getD 0 0 else 0)
def sShp (n : Nat) (na : List Nat) (ps : List ALeg) (q' combo : List Nat) (blk : Blk α) : List Nat :=
  (List.range n).map (fun k =>
    if na.contains k then (sRowG na ps q' combo (na.idxOf k)).getD 1 0 - (sRowG na ps q' combo (na.idxOf k)).getD 0 0
    else blk.shape.getD k 0)
/-- one block of the result -/
def sElem [Zero α] (lcs' : List Leg) (n : Nat) (na : List Nat) (ps : List ALeg) (rb : List Nat × Blk α)
    (combo : List Nat) : List Nat × Blk α :=
  (sNewrow n na ps rb.1 combo,
   (rb.2.getBlock (sBeg n na ps rb.1 combo) (sShp n na ps rb.1 combo rb.2)).reshape
     (blockShapeOf lcs' (sNewrow n na ps rb.1 combo)))

theorem getD_zip {β γ} (l1 : List β) (l2 : List γ) (d1 : β) (d2 : γ) (h : l1.length = l2.length) (i : Nat)
    (hi : i < l1.length) : (l1.zip l2).getD i (d1, d2) = (l1.getD i d1, l2.getD i d2) := by
  have : l1.zip l2 = List.zipWith Prod.mk l1 l2 := rfl
  rw [this, C01B.getD_zipWith' _ l1 l2 d1 d2 (d1, d2) h i hi]

section zero
variable [Zero α]

/-- `_split_legs_worker` in normal form -/
theorem splitWorker_zip (r : Arr α) (na : List Nat) (ps : List ALeg)
    (hP : ∀ g, g < na.length → Arr.pipeOf (r.legs.getD (na.getD g 0) default) = sP ps g)
    (h0 : r.storedBlocks ≠ 0) :
    (r.splitWorker na).legs = Arr.splitLegList r.legs na
    ∧ (r.splitWorker na).qdata.zip (r.splitWorker na).data
      = (r.qdata.zip r.data).flatMap (fun rb => (gridC (sCnts na ps rb.1)).map
          (sElem ((Arr.splitLegList r.legs na).map ALeg.leg) r.rank na ps rb)) := by
  constructor
  · unfold Arr.splitWorker
    rw [if_neg h0]
  unfold Arr.splitWorker
  simp only [if_neg h0]
  rw [zip_map_same]
  have hid : ∀ (L : List (List Nat × Blk α)), L.map (fun p => (p.1, p.2)) = L := fun L => by simp
  rw [hid]
  have hpl : (na.map (fun k => Arr.pipeOf (r.legs.getD k default))).length = na.length := List.length_map _
  have hpg : ∀ g, g < na.length → (na.map (fun k => Arr.pipeOf (r.legs.getD k default))).getD g dPipe = sP ps g := by
    intro g hg
    rw [getD_map' _ _ g 0 dPipe hg]
    exact hP g hg
  apply List.flatMap_congr
  intro rb _
  -- begs and cnts
  have hbegs : List.zipWith (fun (p : Pipe) k => p.qMapSlices.getD (rb.1.getD k 0) 0)
      (na.map (fun k => Arr.pipeOf (r.legs.getD k default))) na
      = (List.range na.length).map (sSl na ps rb.1) := by
    rw [zipWith_eq_range _ _ _ dPipe 0 hpl, hpl]
    apply List.map_congr_left
    intro g hg
    rw [hpg g (List.mem_range.1 hg)]
    rfl
  have hcnts : List.zipWith (fun (p : Pipe) k => p.qMapSlices.getD (rb.1.getD k 0 + 1) 0 - p.qMapSlices.getD (rb.1.getD k 0) 0)
      (na.map (fun k => Arr.pipeOf (r.legs.getD k default))) na = sCnts na ps rb.1 := by
    rw [zipWith_eq_range _ _ _ dPipe 0 hpl, hpl]
    apply List.map_congr_left
    intro g hg
    rw [hpg g (List.mem_range.1 hg)]
    rfl
  rw [hcnts, hbegs]
  apply List.map_congr_left
  intro combo hcombo
  have hcl : combo.length = na.length := by
    have := ((mem_gridC _ _).1 hcombo).length_eq
    simpa [sCnts] using this
  -- the chosen rows
  have hrows : ∀ g, g < na.length →
      (List.zipWith (fun (p : Pipe) (rb : Nat × Nat) => p.qMap.getD (rb.1 + rb.2) [])
        (na.map (fun k => Arr.pipeOf (r.legs.getD k default)))
        (combo.zip ((List.range na.length).map (sSl na ps rb.1)))).getD g [] = sRowG na ps rb.1 combo g := by
    intro g hg
    have hzl : combo.length = ((List.range na.length).map (sSl na ps rb.1)).length := by simp [hcl]
    rw [C01B.getD_zipWith' _ _ _ dPipe (0, 0) [] (by rw [hpl, List.length_zip, ← hzl, Nat.min_self, hcl]) g
      (by rw [hpl]; exact hg)]
    rw [hpg g hg, getD_zip _ _ 0 0 hzl g (by rw [hcl]; exact hg)]
    simp only
    rw [getD_map' _ _ g 0 0 (by simpa using hg), getD_range _ _ hg]
    rfl
  have hidx : ∀ k, na.contains k = true → na.idxOf k < na.length := by
    intro k hk
    exact List.idxOf_lt_length_of_mem (by simpa using hk)
  unfold sElem sNewrow sBeg sShp sPiece
  have e1 : (List.range r.rank).flatMap (fun k =>
        if na.contains k then ((List.zipWith (fun (p : Pipe) (rb : Nat × Nat) => p.qMap.getD (rb.1 + rb.2) [])
          (na.map (fun k => Arr.pipeOf (r.legs.getD k default)))
          (combo.zip ((List.range na.length).map (sSl na ps rb.1)))).getD (na.idxOf k) []).drop 3
        else [rb.1.getD k 0])
      = ((List.range r.rank).map (fun k =>
          if na.contains k then (sRowG na ps rb.1 combo (na.idxOf k)).drop 3 else [rb.1.getD k 0])).flatten := by
    rw [List.flatMap_def]
    congr 1
    apply List.map_congr_left
    intro k _
    by_cases hc : na.contains k = true
    · rw [if_pos hc, if_pos hc, hrows _ (hidx k hc)]
    · rw [if_neg hc, if_neg hc]
  have e2 : (List.range r.rank).map (fun k =>
        if na.contains k then ((List.zipWith (fun (p : Pipe) (rb : Nat × Nat) => p.qMap.getD (rb.1 + rb.2) [])
          (na.map (fun k => Arr.pipeOf (r.legs.getD k default)))
          (combo.zip ((List.range na.length).map (sSl na ps rb.1)))).getD (na.idxOf k) []).getD 0 0
        else 0)
      = (List.range r.rank).map (fun k => if na.contains k then (sRowG na ps rb.1 combo (na.idxOf k)).getD 0 0 else 0) := by
    apply List.map_congr_left
    intro k _
    by_cases hc : na.contains k = true
    · rw [if_pos hc, if_pos hc, hrows _ (hidx k hc)]
    · rw [if_neg hc, if_neg hc]
  have e3 : (List.range r.rank).map (fun k =>
        if na.contains k then
          ((List.zipWith (fun (p : Pipe) (rb : Nat × Nat) => p.qMap.getD (rb.1 + rb.2) [])
            (na.map (fun k => Arr.pipeOf (r.legs.getD k default)))
            (combo.zip ((List.range na.length).map (sSl na ps rb.1)))).getD (na.idxOf k) []).getD 1 0
          - ((List.zipWith (fun (p : Pipe) (rb : Nat × Nat) => p.qMap.getD (rb.1 + rb.2) [])
            (na.map (fun k => Arr.pipeOf (r.legs.getD k default)))
            (combo.zip ((List.range na.length).map (sSl na ps rb.1)))).getD (na.idxOf k) []).getD 0 0
        else rb.2.shape.getD k 0)
      = (List.range r.rank).map (fun k =>
          if na.contains k then (sRowG na ps rb.1 combo (na.idxOf k)).getD 1 0 - (sRowG na ps rb.1 combo (na.idxOf k)).getD 0 0
          else rb.2.shape.getD k 0) := by
    apply List.map_congr_left
    intro k _
    by_cases hc : na.contains k = true
    · rw [if_pos hc, if_pos hc, hrows _ (hidx k hc)]
    · rw [if_neg hc, if_neg hc]
  rw [e1, e2, e3]

end zero
end TenpyModel.C01B2.Comb
