import TenpyModel.C01.C_RObj
import TenpyModel.C01.C_Concat10
import TenpyModel.C01.C_Sort13
/-!
C01 part C — `sort_legcharge` and `concatenate` on reference objects (`RObj`: numpy array + labels + legs + `chinfo.mod`):
the reference semantics (`refSort`, `refConcat`, defined from the operands' reference objects only) and the theorems
"the model's result, seen as a reference object, is the reference result" — the form the program theorem needs.
-/
namespace TenpyModel.C01C
open TenpyModel.Core TenpyModel.C01B TenpyModel.C01C.Cat

variable {α : Type}

theorem list_eq_of_getD {β} (l : List β) (n : Nat) (d : β) (f : Nat → β) (hl : l.length = n)
    (h : ∀ k, k < n → l.getD k d = f k) : l = (List.range n).map f := by
  apply List.ext_getElem
  · simp [hl]
  · intro i h1 h2
    have hi : i < n := by rw [← hl]; exact h1
    have := h i hi
    rw [List.getD_eq_getElem?_getD, List.getElem?_eq_getElem h1, Option.getD_some] at this
    rw [this]
    simp

/-! ### sort_legcharge -/

/-- is leg `k` sorted or bunched? -/
def sortSel (sort bunch : List Bool) (k : Nat) : Bool := sort.getD k false || bunch.getD k false

/-- the one-leg pipe `sort_legcharge` builds for leg `k` -/
def sortPipe (x : RObj α) (sort bunch : List Bool) (k : Nat) : Pipe :=
  Pipe.init [(x.legs.getD k default).leg] (x.legs.getD k default).leg.qconj (sort.getD k false) (bunch.getD k false)

/-- the permutations `sort_legcharge` returns -/
def refSortPerms (x : RObj α) (sort bunch : List Bool) : List (List Nat) :=
  (List.range x.rank).map (fun k =>
    if sortSel sort bunch k then SortLc.pipePerm (x.legs.getD k default).leg (sortPipe x sort bunch k)
    else List.range (x.legs.getD k default).leg.indLen)

/-- `sort_legcharge` on reference objects: `d[np.ix_(*perms)]`, selected legs replaced by the plain leg of their
one-leg pipe, labels kept -/
def refSort [Zero α] (x : RObj α) (sort bunch : List Bool) : RObj α :=
  { d := Dense.ix x.d (refSortPerms x sort bunch),
    labels := x.labels,
    legs := (List.range x.rank).map (fun k =>
      if sortSel sort bunch k then .plain (sortPipe x sort bunch k).leg else x.legs.getD k default),
    mods := x.mods }

theorem sortLegcharge_specR [Zero α] (a : Arr α) (ha : a.WF) (sort bunch : List Bool) (perms : List (List Nat))
    (cp : Arr α) (h : a.sortLegcharge sort bunch = .ok (perms, cp)) :
    cp.toR = refSort a.toR sort bunch ∧ perms = refSortPerms a.toR sort bunch ∧ cp.WF := by
  obtain ⟨_, ⟨p1, _, p3, p4⟩, ⟨_, _, d3⟩, ⟨l1, l2, l3⟩, ⟨m1, m2, _, _⟩, hw⟩ := sortLegcharge_spec a ha sort bunch perms cp h
  have hp : perms = refSortPerms a.toR sort bunch := by
    apply list_eq_of_getD perms a.rank [] _ p1
    intro k hk
    show perms.getD k [] = if sortSel sort bunch k then _ else _
    by_cases hs : sortSel sort bunch k = true
    · rw [if_pos hs]
      exact p4 k hk hs
    · rw [if_neg hs]
      have hs' : (sort.getD k false || bunch.getD k false) = false := by simpa [sortSel] using hs
      rw [p3 k hk hs', Cat.shape_getD a k hk]
      rfl
  have hl : cp.legs = (refSort a.toR sort bunch).legs := by
    apply list_eq_of_getD cp.legs a.rank default _ l1
    intro k hk
    show cp.legs.getD k default = if sortSel sort bunch k then _ else _
    by_cases hs : sortSel sort bunch k = true
    · rw [if_pos hs]
      exact (l3 k hk hs).1
    · rw [if_neg hs]
      have hs' : (sort.getD k false || bunch.getD k false) = false := by simpa [sortSel] using hs
      exact l2 k hk hs'
  refine ⟨?_, hp, hw⟩
  unfold Arr.toR
  rw [d3, hp, m1, hl, m2]
  rfl

/-! ### concatenate -/

/-- `concatenate` on reference objects: `np.concatenate` of the arrays along the resolved axis, the stacked leg
(`Cat.catLeg`: blocks and charges of the operands' legs appended, charges negated where `qconj` differs), all other
legs, labels and `chinfo` of the first operand -/
def refConcat [Zero α] (first : RObj α) (rest : List (RObj α)) (axis : Ax) : RObj α :=
  let k := first.ld.ax axis
  { d := Dense.concatenate ((first :: rest).map (·.d)) k,
    labels := first.labels,
    legs := first.legs.set k (.plain (catLeg first.mods (first.legs.getD k default).leg.qconj
      ((first :: rest).map (fun x => (x.legs.getD k default).leg)))),
    mods := first.mods }

theorem refConcat_eq [Zero α] (first : RObj α) (rest : List (RObj α)) (axis : Ax) (k : Nat)
    (hax : first.ld.ax axis = k) :
    refConcat first rest axis =
      { d := Dense.concatenate ((first :: rest).map (·.d)) k,
        labels := first.labels,
        legs := first.legs.set k (.plain (catLeg first.mods (first.legs.getD k default).leg.qconj
          ((first :: rest).map (fun x => (x.legs.getD k default).leg)))),
        mods := first.mods } := by
  subst hax
  rfl

theorem concatenate_specR [Zero α] (first : Arr α) (rest : List (Arr α)) (axis : Ax) (r : Arr α)
    (hwf : ∀ a ∈ first :: rest, a.WF) (h : Arr.concatenate (first :: rest) axis = .ok r)
    (hrank : ∀ k, first.getLegIndex axis = .ok k → ∀ a ∈ rest, k < a.rank) :
    r.toR = refConcat first.toR (rest.map Arr.toR) axis ∧ r.WF := by
  have he := concatenate_eq first rest axis
  rw [h] at he
  cases hk : first.getLegIndex axis with
  | error e => rw [hk] at he; cases he
  | ok k =>
    rw [hk] at he
    simp only at he
    split at he
    · simp only [Except.ok.injEq] at he
      obtain ⟨d1, _, _, d4, _, d6, _, _, _, hw⟩ := concatenate_spec first rest axis r hwf h k hk (hrank k hk)
      have hax : first.toR.ld.ax axis = k := Arr.toLD_ax first axis k hk
      refine ⟨?_, hw⟩
      rw [refConcat_eq _ _ _ k hax]
      unfold Arr.toR
      simp only
      rw [d1, d4, d6]
      have hlegs : r.legs = first.legs.set k (.plain (catLeg first.mods (first.lc k).qconj ((first :: rest).map (·.lc k)))) := by
        rw [he]; rfl
      rw [hlegs]
      simp only [List.map_cons, List.map_map, RObj.mk.injEq, true_and, and_true]
      exact ⟨rfl, rfl⟩
    · cases he

end TenpyModel.C01C
