import TenpyModel.C01.B2_Trace2
/-!
C01 part B2 — `trace` of a tensor of rank > 2, step 3: the entries of the result.

`r[idx] = Σ_{t < n} a[idx with t inserted at the two traced axes]`.
-/
namespace TenpyModel.C01B2
open TenpyModel.Core TenpyModel.C01B

set_option linter.unusedSectionVars false

variable {α : Type} [CommSemiring α]

/-- standing hypotheses: a well-formed tensor, two different axes whose legs have equal slices -/
structure TrCtx (a : Arr α) (ax1 ax2 : Nat) : Prop where
  wa : W a
  h1 : ax1 < a.rank
  h2 : ax2 < a.rank
  hne : ax1 ≠ ax2
  hsl : (a.lc ax1).slices = (a.lc ax2).slices

omit [CommSemiring α] in
theorem trRes_lcs (a : Arr α) (ax1 ax2 : Nat) (acc : List (List Nat × Blk α)) :
    (trRes a ax1 ax2 acc).lcs = (Dense.keepAx a.rank [ax1, ax2]).map a.lc := by
  unfold Arr.lcs trRes pick Arr.lc
  simp only [List.map_map]
  rfl

omit [CommSemiring α] in
theorem trRes_shape (a : Arr α) (ax1 ax2 : Nat) (acc : List (List Nat × Blk α)) :
    (trRes a ax1 ax2 acc).shape = (Dense.keepAx a.rank [ax1, ax2]).map (fun k => a.shape.getD k 0) := by
  show List.map Leg.indLen (trRes a ax1 ax2 acc).lcs = _
  rw [trRes_lcs, List.map_map]
  apply List.map_congr_left
  intro k hk
  exact (Arr.shape_getD_sl a k ((Dense.mem_keepAx _ _ _).1 hk).1).symm

omit [CommSemiring α] in
theorem trRes_zip (a : Arr α) (ax1 ax2 : Nat) (acc : List (List Nat × Blk α)) :
    (trRes a ax1 ax2 acc).qdata.zip (trRes a ax1 ax2 acc).data = acc := by
  show (acc.map (·.1)).zip (acc.map (·.2)) = acc
  rw [zip_map_same]
  simp

namespace TrCtx
variable {a : Arr α} {ax1 ax2 : Nat} (c : TrCtx a ax1 ax2)
include c

theorem shape1 : (a.lc ax1).Shape := c.wa.shapes _ (Arr.lc_mem_lcs_sl a ax1 c.h1)
theorem shape2 : (a.lc ax2).Shape := c.wa.shapes _ (Arr.lc_mem_lcs_sl a ax2 c.h2)

theorem keepShapes : ∀ l ∈ (Dense.keepAx a.rank [ax1, ax2]).map a.lc, l.Shape := by
  intro l hl
  obtain ⟨k, hk, rfl⟩ := List.mem_map.1 hl
  exact c.wa.shapes _ (Arr.lc_mem_lcs_sl a k ((Dense.mem_keepAx _ _ _).1 hk).1)

theorem bs_eq : (a.lc ax1).blockSizes = (a.lc ax2).blockSizes := by simp [Leg.blockSizes, c.hsl]

theorem bn_eq : (a.lc ax1).blockNumber = (a.lc ax2).blockNumber := by
  have e1 := c.shape1.len
  have e2 := c.shape2.len
  rw [c.hsl] at e1
  unfold Leg.blockNumber
  omega

/-- the stored blocks have rank `a.rank`, and their extents along the two traced axes -/
theorem blk_facts (q : List Nat) (blk : Blk α) (hm : (q, blk) ∈ a.qdata.zip a.data) :
    blk.rank = a.rank ∧ blk.shape.getD ax1 0 = (a.lc ax1).blockSizes.getD (q.getD ax1 0) 0
    ∧ blk.shape.getD ax2 0 = (a.lc ax2).blockSizes.getD (q.getD ax2 0) 0 := by
  have hs := c.wa.blkShape _ hm
  have hl := c.wa.rowLen q (List.of_mem_zip hm).1
  simp only at hs
  refine ⟨?_, ?_, ?_⟩
  · unfold Dense.rank
    rw [hs]
    unfold blockShapeOf
    rw [List.length_zipWith, lcs_length, hl, Nat.min_self]
  · rw [hs]
    unfold blockShapeOf
    rw [getD_zipWith' _ _ _ ax1 default 0 0 (by rw [lcs_length]; exact c.h1) (by rw [hl]; exact c.h1),
      Arr.lc_eq a ax1 c.h1]
  · rw [hs]
    unfold blockShapeOf
    rw [getD_zipWith' _ _ _ ax2 default 0 0 (by rw [lcs_length]; exact c.h2) (by rw [hl]; exact c.h2),
      Arr.lc_eq a ax2 c.h2]

/-- shape and completeness of the partial traces, keyed by the new row -/
theorem list_ok : ∀ e ∈ traceList a ax1 ax2,
    e.2.shape = blockShapeOf ((Dense.keepAx a.rank [ax1, ax2]).map a.lc) e.1 ∧ Good e.2 := by
  intro e he
  unfold traceList at he
  obtain ⟨rb, hrb, rfl⟩ := List.mem_map.1 he
  have hm : (rb.1, rb.2) ∈ a.qdata.zip a.data := (List.mem_filter.1 hrb).1
  obtain ⟨hr, _, _⟩ := c.blk_facts rb.1 rb.2 hm
  refine ⟨?_, trace_good _ _ _⟩
  simp only
  rw [trace_shape, hr, blockShapeOf_pick a _ rb.1 (c.wa.rowLen _ (List.of_mem_zip hm).1), c.wa.blkShape _ hm]

theorem acc_ok : AccOK (blockShapeOf ((Dense.keepAx a.rank [ax1, ax2]).map a.lc)) (traceAcc a ax1 ax2)
    ∧ (∀ row w, lsum (traceAcc a ax1 ax2) row w = lsum (traceList a ax1 ax2) row w)
    ∧ (∀ row, row ∈ (traceAcc a ax1 ax2).map (·.1) ↔ row ∈ (traceList a ax1 ax2).map (·.1)) := by
  rw [traceAcc_eq]
  obtain ⟨i1, i2, i3⟩ := fold_ok _ (traceList a ax1 ax2) [] (AccOK.nil _) c.list_ok
  refine ⟨i1, fun row w => ?_, fun row => ?_⟩
  · rw [i2, lsum_nil, zero_add]
  · rw [i3]; simp

/-- block index and offset of a full index whose traced value lies in block `qt` at offset `s` -/
theorem locate_full (idx : List Nat) (hidx : idx.length = (Dense.keepAx a.rank [ax1, ax2]).length) (qt s : Nat)
    (hqt : qt < (a.lc ax1).blockNumber) (hs : s < (a.lc ax1).blockSizes.getD qt 0) :
    qOf a.lcs (Dense.fullIdx a.rank [ax1, ax2] (fun _ => (a.lc ax1).slices.getD qt 0 + s) idx)
        = Dense.fullIdx a.rank [ax1, ax2] (fun _ => qt) (qOf ((Dense.keepAx a.rank [ax1, ax2]).map a.lc) idx)
    ∧ wOf a.lcs (Dense.fullIdx a.rank [ax1, ax2] (fun _ => (a.lc ax1).slices.getD qt 0 + s) idx)
        = Dense.fullIdx a.rank [ax1, ax2] (fun _ => s) (wOf ((Dense.keepAx a.rank [ax1, ax2]).map a.lc) idx) := by
  have hloc1 := (locate_block c.shape1 qt s hqt hs).2
  have hloc2 : (a.lc ax2).locate ((a.lc ax1).slices.getD qt 0 + s) = (qt, s) := by
    rw [← Arr.locate_congr _ _ c.hsl]; exact hloc1
  constructor
  · rw [qOf_fullIdx a _ _ idx hidx]
    apply fullIdx_congr_ax
    intro k hk _
    rcases (mem_pair ax1 ax2 k).1 hk with rfl | rfl
    · rw [hloc1]
    · rw [hloc2]
  · rw [wOf_fullIdx a _ _ idx hidx]
    apply fullIdx_congr_ax
    intro k hk _
    rcases (mem_pair ax1 ax2 k).1 hk with rfl | rfl
    · rw [hloc1]
    · rw [hloc2]

end TrCtx
end TenpyModel.C01B2
